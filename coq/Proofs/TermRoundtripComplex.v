(* C19 at term level, part 3: complex terms.  If every piece pi is a good text that parse_term
   reads as ti, then parse_term reads `f(p1, ..., pn)` (n >= 0) as the complex term
   f(t1, ..., tn) - for a functor f `[a-z][A-Za-z0-9_]*` other than the five names of built-in
   functions, and a text of at most 1000 characters (validate_complex). *)
From Coq Require Import Lia String.
From Suiron Require Import Model.ParseTerm Model.Show Proofs.ParseTermProofs Proofs.ParseRoundtrip.
From Suiron Require Import Proofs.TermRoundtrip Proofs.TermRoundtripText.
Open Scope N_scope.

(* ---- functors ---- *)
Definition reserved_functor (f : str) : bool :=
  str_eqb f (s2l "join") || str_eqb f (s2l "add") || str_eqb f (s2l "subtract") ||
  str_eqb f (s2l "multiply") || str_eqb f (s2l "divide").

Definition functor_name (f : str) : bool := simple_atom f && negb (reserved_functor f).

Lemma prefix_paren g : forall f r,
  count_c c_lpar g = 0 -> count_c c_lpar f = 0 ->
  str_prefix (g ++ [c_lpar]) (f ++ c_lpar :: r) = true -> f = g.
Proof.
  induction g as [|y g IH]; intros [|x f] r Hg Hf H; cbn [app str_prefix count_c] in *.
  - reflexivity.
  - apply andb_true_iff in H as [H _]. rewrite N.eqb_sym in H. rewrite H in Hf. lia.
  - apply andb_true_iff in H as [H _]. rewrite H in Hg. lia.
  - apply andb_true_iff in H as [H1 H2]. apply N.eqb_eq in H1. subst y.
    f_equal. apply (IH f r); [lia|lia|exact H2].
Qed.

Lemma simple_atom_no_parens f : simple_atom f = true ->
  count_c c_lpar f = 0 /\ count_c c_rpar f = 0.
Proof.
  intros H. apply simple_atom_word in H as (_ & Hall & _).
  split; apply count_c_wchars; (reflexivity || assumption).
Qed.

Lemma functor_name_prefixes f r : functor_name f = true ->
  str_prefix fn_join (f ++ c_lpar :: r) = false /\
  str_prefix fn_add (f ++ c_lpar :: r) = false /\
  str_prefix fn_subtract (f ++ c_lpar :: r) = false /\
  str_prefix fn_multiply (f ++ c_lpar :: r) = false /\
  str_prefix fn_divide (f ++ c_lpar :: r) = false.
Proof.
  unfold functor_name, reserved_functor. intros H. apply andb_true_iff in H as [Hs Hr].
  apply negb_true_iff in Hr.
  apply orb_false_iff in Hr as [Hr H5]. apply orb_false_iff in Hr as [Hr H4].
  apply orb_false_iff in Hr as [Hr H3]. apply orb_false_iff in Hr as [H1 H2].
  destruct (simple_atom_no_parens f Hs) as [Hc _].
  assert (K : forall g, count_c c_lpar g = 0 -> str_eqb f g = false ->
                        str_prefix (g ++ [c_lpar]) (f ++ c_lpar :: r) = false).
  { intros g Hg Hne. destruct (str_prefix (g ++ [c_lpar]) (f ++ c_lpar :: r)) eqn:E; [|reflexivity].
    apply prefix_paren in E; [|exact Hg|exact Hc]. subst g. now rewrite str_eqb_refl in Hne. }
  repeat split.
  - apply (K (s2l "join")); [reflexivity|exact H1].
  - apply (K (s2l "add")); [reflexivity|exact H2].
  - apply (K (s2l "subtract")); [reflexivity|exact H3].
  - apply (K (s2l "multiply")); [reflexivity|exact H4].
  - apply (K (s2l "divide")); [reflexivity|exact H5].
Qed.

Lemma functor_name_ok f : functor_name f = true -> functor_ok f = true.
Proof.
  intros H. unfold functor_name in H. apply andb_true_iff in H as [Hs _].
  destruct (simple_atom_no_parens f Hs) as [H1 H2].
  pose proof (simple_atom_word f Hs) as Hw. pose proof (word_hd f Hw) as Hh.
  unfold functor_ok. destruct f as [|c r]; [discriminate|].
  cbn [hd] in Hh. rewrite H1, H2. rewrite (wchar_not_white c Hh).
  cbn [simple_atom] in Hs. apply andb_true_iff in Hs as [Hc _]. apply in_range_spec in Hc.
  assert (E : (c =? c_dollar) = false) by char_neq. rewrite E. reflexivity.
Qed.

(* ---- make_term on the text of a call ---- *)
Lemma make_term_call rt ra f s :
  functor_name f = true ->
  make_term rt ra (f ++ c_lpar :: s ++ [c_rpar]) = parse_complex_body ra (f ++ c_lpar :: s ++ [c_rpar]).
Proof.
  intros Hf.
  destruct (functor_name_prefixes f (s ++ [c_rpar]) Hf) as (P1 & P2 & P3 & P4 & P5).
  pose proof (functor_name_ok f Hf) as Hok.
  pose proof (call_text_trimmed f s Hok) as Ht.
  pose proof (last_call_text f s) as Hl.
  unfold functor_name in Hf. apply andb_true_iff in Hf as [Hs _].
  set (w := f ++ c_lpar :: s ++ [c_rpar]) in *.
  assert (Hlen : (2 <=? length w)%nat = true).
  { apply Nat.leb_le. unfold w. rewrite app_length. cbn [length]. rewrite app_length. cbn [length]. lia. }
  assert (Hw : exists c r, w = c :: r /\ is_lower c = true).
  { unfold w. destruct f as [|c f']; [discriminate|]. cbn [simple_atom] in Hs.
    apply andb_true_iff in Hs as [Hc _]. cbn [app]. eauto. }
  destruct Hw as (c & r & Ew & Hc).
  unfold make_term. rewrite Ht. destruct (classify_term w) as [[hd hnd] hp].
  clearbody w. subst w. cbv iota.
  apply in_range_spec in Hc.
  assert (E1 : (c =? c_dollar) = false) by char_neq.
  assert (E2 : (c =? c_dquote) = false) by char_neq.
  assert (E3 : (c =? c_lbr) = false) by char_neq.
  assert (E4 : (c =? c_lpar) = false) by char_neq.
  rewrite E1, Hlen, E2, E3, E4, Hl. cbn [andb negb].
  change (c_rpar =? c_rpar) with true. cbv iota.
  rewrite P1, P2, P3, P4, P5. reflexivity.
Qed.

(* ---- the pieces between the commas ---- *)
Lemma join_comma_blank q l : join_comma ((32 :: q) :: l) = 32 :: join_comma (q :: l).
Proof. destruct l; reflexivity. Qed.

Lemma join_strs_join_comma ps : forall p,
  join_strs sep_comma (p :: ps) = join_comma (p :: map (cons 32) ps).
Proof.
  induction ps as [|q ps IH]; intros p; [reflexivity|].
  rewrite join_strs_cons2. cbn [map]. rewrite join_comma_cons2. rewrite IH.
  rewrite join_comma_blank. reflexivity.
Qed.

Lemma good_str_neqb p : good p -> str_eqb p [] = false.
Proof. intros H. pose proof (g_ne p H). destruct p; [contradiction|reflexivity]. Qed.

Lemma good_no_arith p : good p -> no_arith_infix p = true.
Proof. intros H. apply no_arith_infix_cs; [now apply good_trimmed|apply (g_cs p H)]. Qed.

Lemma good_pa_scan p : good p -> pa_scan p false 0 0%Z 0%Z = Some (false, 0, 0%Z, 0%Z).
Proof.
  intros H. pose proof (g_pa p H [] 0 0%Z 0%Z ltac:(lia) ltac:(lia)) as E.
  now rewrite app_nil_r in E.
Qed.

Lemma piece_ok_good p : good p -> piece_ok p = true.
Proof.
  intros H. unfold piece_ok. rewrite (good_trimmed p H), (good_str_neqb p H).
  rewrite (tchar_not_bslash _ (good_hd_tchar p H)).
  assert (E : (last p 0 =? c_comma) = false) by (apply N.eqb_neq; apply (g_lastc p H)).
  rewrite E, (good_no_arith p H), (good_pa_scan p H). reflexivity.
Qed.

Lemma piece_ok_blank_good p : good p -> piece_ok (32 :: p) = true.
Proof.
  intros H. pose proof (piece_ok_good p H) as Hp. unfold piece_ok in *.
  assert (Et : trim (32 :: p) = trim p) by (apply trim_cons_white; reflexivity).
  assert (El : last (32 :: p) 0 = last p 0).
  { pose proof (g_ne p H). destruct p; [contradiction|reflexivity]. }
  assert (En : no_arith_infix (32 :: p) = no_arith_infix p).
  { unfold no_arith_infix. now rewrite Et. }
  assert (Es : pa_scan (32 :: p) false 0 0%Z 0%Z = pa_scan p false 0 0%Z 0%Z) by reflexivity.
  now rewrite Et, El, En, Es.
Qed.

Lemma pieces_ok p ps : Forall good (p :: ps) -> forallb piece_ok (p :: map (cons 32) ps) = true.
Proof.
  intros H. inversion H as [|x l Hp Hps]; subst. cbn [forallb].
  rewrite (piece_ok_good p Hp). cbn [andb].
  clear -Hps. induction ps as [|q ps IH]; [reflexivity|].
  inversion Hps as [|x l Hq Hr]; subst. cbn [map forallb].
  rewrite (piece_ok_blank_good q Hq). now apply IH.
Qed.

(* the joined text starts and ends like a piece *)
Lemma join_ends ps : ps <> [] -> Forall good ps ->
  join_strs sep_comma ps <> [] /\
  is_white (hd 0 (join_strs sep_comma ps)) = false /\
  is_white (last (join_strs sep_comma ps) 0) = false.
Proof.
  induction ps as [|p ps IH]; intros Hne H; [now elim Hne|].
  inversion H as [|x l Hp Hps]; subst.
  destruct ps as [|q rest].
  - cbn [join_strs]. split; [apply (g_ne p Hp)|]. split; [apply (g_hdw p Hp)|apply (g_lastw p Hp)].
  - destruct (IH ltac:(discriminate) Hps) as (I1 & I2 & I3).
    rewrite join_strs_cons2. pose proof (g_ne p Hp) as Hpne.
    split; [destruct p; [contradiction|discriminate]|]. split.
    + pose proof (g_hdw p Hp) as Hh. destruct p; [contradiction|exact Hh].
    + rewrite app_assoc. rewrite last_app_nonempty by exact I1. exact I3.
Qed.

Lemma join_trimmed ps : Forall good ps -> trim (join_strs sep_comma ps) = join_strs sep_comma ps.
Proof.
  intros H. destruct ps as [|p ps]; [reflexivity|].
  destruct (join_ends (p :: ps) ltac:(discriminate) H) as (_ & H2 & H3).
  apply trimmed_trim. right. now split.
Qed.

Lemma pseq_all_ok {A} (f : str -> res (presult A)) ps ts :
  Forall2 (fun p t => f p = Ok (POk t)) ps ts -> pseq (map f ps) = Ok (POk ts).
Proof.
  induction 1 as [|p t ps ts Hp Hps IH]; [reflexivity|].
  cbn [map pseq]. rewrite Hp, IH. reflexivity.
Qed.

(* parse_arguments on `p1, ..., pn`, n >= 1 *)
Lemma parse_arguments_pieces fuel ps ts :
  ps <> [] -> Forall good ps ->
  Forall2 (fun p t => parse_term (S fuel) p = Ok (POk t)) ps ts ->
  parse_arguments (S fuel) (join_strs sep_comma ps) = Ok (POk ts).
Proof.
  intros Hne Hg Hp. destruct ps as [|p ps]; [now elim Hne|].
  pose proof (join_trimmed (p :: ps) Hg) as Ht.
  rewrite join_strs_join_comma in *.
  rewrite context_independent_args_nary; [|discriminate|now apply pieces_ok|exact Ht].
  apply pseq_all_ok.
  inversion Hp as [|x t l ts' Hx Hl]; subst. constructor; [exact Hx|].
  clear -Hl. induction Hl as [|q t ps ts' Hq Hl IH]; [constructor|].
  cbn [map]. constructor; [|exact IH].
  rewrite <- Hq. apply parse_term_trim_eq. apply trim_cons_white. reflexivity.
Qed.

(* ---- stage 4: complex terms ---- *)
Theorem parse_term_call : forall fuel f ps ts,
  functor_name f = true -> Forall good ps ->
  Forall2 (fun p t => parse_term (S fuel) p = Ok (POk t)) ps ts ->
  (length (call_text f ps) <= 1000)%nat ->
  parse_term (S (S fuel)) (call_text f ps) = Ok (POk (TComplex (TAtom f :: ts))).
Proof.
  intros fuel f ps ts Hf Hg Hp Hlen.
  pose proof Hf as Hf'. unfold functor_name in Hf'. apply andb_true_iff in Hf' as [Hs _].
  pose proof (simple_atom_word f Hs) as Hfw.
  pose proof (good_call f ps Hfw Hg) as Hgood.
  pose proof (functor_name_ok f Hf) as Hok.
  cbn [parse_term]. rewrite parse_term_body_plain.
  2:{ now apply good_no_arith. }
  2:{ intros tl E. rewrite (good_trimmed _ Hgood) in E.
      pose proof (good_hd_tchar _ Hgood) as Hh. rewrite E in Hh. discriminate Hh. }
  rewrite (good_trimmed _ Hgood). unfold call_text in *.
  rewrite make_term_call by exact Hf.
  rewrite parse_complex_body_call; [|exact Hok| |exact Hlen].
  2:{ unfold parens_balanced. apply N.eqb_eq. apply (i_bal _ (inner_join ps Hg)). }
  unfold parse_functor_terms.
  assert (Etf : trim f = f) by (now apply word_trimmed).
  destruct ps as [|p ps'] eqn:Eps.
  - inversion Hp; subst. cbn [join_strs]. now rewrite Etf.
  - rewrite <- Eps in *.
    assert (Hne : ps <> []) by (rewrite Eps; discriminate).
    destruct (join_ends ps Hne Hg) as (Hbne & _ & _).
    destruct (join_strs sep_comma ps) as [|b0 body'] eqn:Eb; [now elim Hbne|]. rewrite <- Eb.
    change (parse_arguments (S fuel)) with (parse_arguments (S fuel)).
    rewrite (parse_arguments_pieces fuel ps ts Hne Hg Hp). cbn [pbind]. now rewrite Etf.
Qed.

(* the same for the printed text of a complex term *)
Corollary parse_term_show_complex : forall fuel f ts,
  functor_name f = true ->
  Forall (fun t => good (show_term t)) ts ->
  Forall (fun t => parse_term (S fuel) (show_term t) = Ok (POk t)) ts ->
  (length (show_term (TComplex (TAtom f :: ts))) <= 1000)%nat ->
  parse_term (S (S fuel)) (show_term (TComplex (TAtom f :: ts))) = Ok (POk (TComplex (TAtom f :: ts))).
Proof.
  intros fuel f ts Hf Hg Hp Hlen. rewrite show_complex_text in *.
  apply parse_term_call; [exact Hf| | |exact Hlen].
  - clear -Hg. induction Hg; cbn [map]; constructor; assumption.
  - clear -Hp. induction Hp; cbn [map]; constructor; assumption.
Qed.

(* the limit of validate_complex is real: f(aaa...a) with 1001 characters is not read back *)
Definition long_atom (n : nat) : str := repeat 97 n.
Example complex_1000_ok :
  parse_term 5 (show_term (TComplex [TAtom [102]; TAtom (long_atom 997)])) =
  Ok (POk (TComplex [TAtom [102]; TAtom (long_atom 997)])).
Proof. vm_compute. reflexivity. Qed.
Example complex_1001_not_read_back :
  parse_term 5 (show_term (TComplex [TAtom [102]; TAtom (long_atom 998)])) = Ok PErr.
Proof. vm_compute. reflexivity. Qed.

(* the five reserved functors are read as built-in functions *)
Example reserved_functor_not_read_back :
  parse_term 5 (show_term (TComplex [TAtom (s2l "add"); TAtom [97]])) =
  Ok (POk (TFun (s2l "add") [TAtom [97]])).
Proof. vm_compute. reflexivity. Qed.
