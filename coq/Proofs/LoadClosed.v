(* C21 + C19 closed, end to end: a knowledge base of closed rules, printed rule by rule with
   Display and written to a file with a legal layout (line breaks after continuation characters,
   indentation, comments, blank lines), is loaded by load_kb_from_file - with the real parse_rule
   of Model/Api.v - as exactly that knowledge base.
     - the text of a closed rule is a rule text in the sense of Spec/SpecLoad.v (`wf_text`);
     - the reader returns the texts with one space at every line break (C21); when that leaves the
       texts as they are (`expected ... = texts`, in particular for the `exact_layout`s of C21),
       every text parses to its rule (C19 closed) and add_rules collects them. *)
From Coq Require Import Lia String.
From Suiron Require Import Model.Tokenizer Model.ParseRule Proofs.TokenizerStream Proofs.TokenizerProofs
  Proofs.GoalRoundtrip.
From Suiron Require Import Model.ParseTerm Model.ParseGoal Model.Show Model.ShowGoal Model.Api.
From Suiron Require Import Proofs.ParseTermProofs Proofs.ParseRoundtrip.
From Suiron Require Import Proofs.TermRoundtrip Proofs.TermRoundtripText Proofs.TermRoundtripComplex
  Proofs.TermRoundtripList Proofs.TermRoundtripMain Proofs.GoalLeafText Proofs.GoalLeafParse
  Proofs.RuleRoundtripClosed.
From Suiron Require Import Model.Reader Spec.SpecLoad Proofs.ReaderProofs.
Open Scope N_scope.

(* ---- what the reader needs to know about a text: its characters, its brackets ---- *)
Record rplain (s : str) : Prop := mkRplain {
  rp_chars : Forall (fun c => fileplain c = true) s;
  rp_round : count_c c_lpar s = count_c c_rpar s;
  rp_square : sqbal s }.

Lemma rplain_app a b : rplain a -> rplain b -> rplain (a ++ b).
Proof.
  intros [A1 A2 A3] [B1 B2 B3]. constructor.
  - apply Forall_app. now split.
  - rewrite !count_c_app. now rewrite A2, B2.
  - now apply sqbal_app.
Qed.

Lemma ltext_rplain u : ltext u -> rplain u.
Proof. intros H. constructor; [apply (lt_plain u H)|apply (lt_bal u H)|apply (lt_sqbal u H)]. Qed.

Lemma rplain_const s : Forall (fun c => fileplain c = true) s ->
  count_c c_lpar s = 0 -> count_c c_rpar s = 0 -> count_c c_lbr s = 0 -> count_c c_rbr s = 0 -> rplain s.
Proof. intros H E1 E2 E3 E4. constructor; [exact H|now rewrite E1, E2|unfold sqbal; now rewrite E3, E4]. Qed.

Lemma rplain_fl_go sep : rplain sep -> forall l first,
  (forall op, In op l -> rplain op) -> rplain (fl_go sep first l).
Proof.
  intros Hsep. induction l as [|x l IH]; intros first H; [apply rplain_const; (constructor || reflexivity)|].
  rewrite fl_go_cons. apply rplain_app.
  - destruct first; [apply H; now left|]. apply rplain_app; [exact Hsep|apply H; now left].
  - apply IH. intros op Hop. apply H. now right.
Qed.

Lemma rplain_operand ga x s : rplain s -> rplain (operand_text ga x s).
Proof.
  intros H. unfold operand_text. destruct (needs_group ga x); [|exact H].
  destruct H as [H1 H2 H3]. constructor.
  - apply Forall_app. split; [repeat constructor|]. apply Forall_app. split; [exact H1|repeat constructor].
  - rewrite !count_c_app, H2. cbn [count_c].
    change (40 =? c_lpar) with true. change (41 =? c_lpar) with false.
    change (40 =? c_rpar) with false. change (41 =? c_rpar) with true. lia.
  - apply sqbal_app; [reflexivity|]. apply sqbal_app; [exact H3|reflexivity].
Qed.

Lemma closed_goal_rplain g : closed_goal g -> rplain (text g).
Proof.
  induction 1 as [l Hl|gs Hlen Hgs IH|gs Hlen Hgs IH].
  - rewrite (text_leaf l (closed_leaf_is_leaf l Hl)).
    destruct (closed_leaf_facts l Hl) as (t & [Hs Lt _ _]). unfold leaf_text. rewrite Hs.
    now apply ltext_rplain.
  - rewrite text_and. apply rplain_fl_go.
    + apply rplain_const; (repeat constructor).
    + intros op Hop. apply in_map_iff in Hop as (x & <- & Hx). apply rplain_operand. now apply IH.
  - rewrite text_or. apply rplain_fl_go.
    + apply rplain_const; (repeat constructor).
    + intros op Hop. apply in_map_iff in Hop as (x & <- & Hx). apply rplain_operand. now apply IH.
Qed.

Lemma closed_head_text h : closed_head h -> ltext (show_term h).
Proof.
  intros [f ts Hf Hne Hc Hlen|f Hf Hlen].
  - rewrite show_complex_text. destruct (goal_functor_facts f Hf) as (Hs & _).
    now destruct (call_text_ltext f ts Hs Hc) as [Lt _].
  - change (show_term (TComplex [TAtom f])) with (call_text f (map show_term [])).
    destruct (goal_functor0_facts f Hf) as (Hs & _).
    now destruct (call_text_ltext f [] Hs ltac:(intros t [])) as [Lt _].
Qed.

(* ---- the lexical state of Spec/SpecLoad.v over a text without quotes ---- *)
Lemma lex_scan_cons st c s : lex_scan st (c :: s) = lex_scan (lex_step st c) s.
Proof. reflexivity. Qed.

Lemma lex_scan_counts s : Forall (fun c => fileplain c = true) s -> forall st,
  lex_scan st s =
  mkLex (l_rd st + Z.of_N (count_c c_lpar s) - Z.of_N (count_c c_rpar s))
        (l_sd st + Z.of_N (count_c c_lbr s) - Z.of_N (count_c c_rbr s)) (l_inq st).
Proof.
  induction s as [|c s IH]; intros H st.
  - cbn [lex_scan fold_left count_c]. destruct st as [rd sd q]. cbn [l_rd l_sd l_inq]. f_equal; lia.
  - inversion H as [|x l Hc Hs]; subst. rewrite lex_scan_cons, (IH Hs). cbn [count_c].
    unfold lex_step.
    change ch_lparen with c_lpar. change ch_rparen with c_rpar.
    change ch_lbrack with c_lbr. change ch_rbrack with c_rbr.
    assert (Eq : (c =? ch_quote) = false).
    { unfold fileplain in Hc. apply andb_true_iff in Hc as [_ Hc]. now apply negb_true_iff in Hc. }
    destruct (c =? c_lpar) eqn:E1.
    { apply N.eqb_eq in E1. subst c. cbn [l_rd l_sd l_inq].
      change (c_lpar =? c_rpar) with false. change (c_lpar =? c_lbr) with false.
      change (c_lpar =? c_rbr) with false. cbv iota. f_equal; lia. }
    destruct (c =? c_lbr) eqn:E2.
    { apply N.eqb_eq in E2. subst c. cbn [l_rd l_sd l_inq].
      change (c_lbr =? c_rpar) with false. change (c_lbr =? c_rbr) with false. cbv iota. f_equal; lia. }
    destruct (c =? c_rpar) eqn:E3.
    { apply N.eqb_eq in E3. subst c. cbn [l_rd l_sd l_inq].
      change (c_rpar =? c_rbr) with false. cbv iota. f_equal; lia. }
    destruct (c =? c_rbr) eqn:E4.
    { cbn [l_rd l_sd l_inq]. cbv iota. f_equal; lia. }
    rewrite Eq. cbv iota. destruct st as [rd sd q]. cbn [l_rd l_sd l_inq]. f_equal; lia.
Qed.

Lemma rplain_outside s : rplain s -> outside (lex_scan lex0 s) = true.
Proof.
  intros [H1 H2 H3]. rewrite (lex_scan_counts s H1). unfold outside, lex0. cbn [l_rd l_sd l_inq].
  unfold sqbal in H3. rewrite H2, H3.
  assert (E1 : (0 + Z.of_N (count_c c_rpar s) - Z.of_N (count_c c_rpar s) =? 0)%Z = true)
    by (apply Z.eqb_eq; lia).
  assert (E2 : (0 + Z.of_N (count_c c_rbr s) - Z.of_N (count_c c_rbr s) =? 0)%Z = true)
    by (apply Z.eqb_eq; lia).
  now rewrite E1, E2.
Qed.

Lemma fileplain_facts c : fileplain c = true ->
  (c =? ch_period) = false /\ (c =? ch_hash) = false /\ (c =? ch_percent) = false /\
  (c =? ch_slash) = false.
Proof.
  unfold fileplain. intros H. apply andb_true_iff in H as [H _].
  apply andb_true_iff in H as [H H4]. apply andb_true_iff in H as [H H3].
  apply andb_true_iff in H as [H1 H2]. apply negb_true_iff in H1, H2, H3, H4. auto.
Qed.

Lemma one_rule_plain X : Forall (fun c => fileplain c = true) X -> forall st prev,
  outside (lex_scan st X) = true -> one_rule st prev (X ++ [ch_period]) = true.
Proof.
  induction X as [|c X IH]; intros H st prev Ho.
  - cbn [app one_rule]. unfold ends_rule. rewrite N.eqb_refl. cbn [lex_scan fold_left] in Ho.
    rewrite Ho. cbn [hd_or_x]. change (rd_is_digit ch_x) with false. now rewrite andb_false_r.
  - inversion H as [|x l Hc HX]; subst. destruct (fileplain_facts c Hc) as (E & _).
    cbn [app one_rule]. unfold ends_rule. rewrite E. cbn [andb]. apply IH; assumption.
Qed.

Lemma no_comment_plain s : Forall (fun c => (c =? ch_hash) = false /\ (c =? ch_percent) = false /\
                                          (c =? ch_slash) = false) s ->
  forall st prev, no_comment st prev s = true.
Proof.
  induction s as [|c s IH]; intros H st prev; [reflexivity|].
  inversion H as [|x l (E1 & E2 & E3) Hs]; subst. cbn [no_comment]. rewrite E1, E2, E3.
  cbn [orb andb]. rewrite andb_false_r. now apply IH.
Qed.

Lemma printable_not_rd_ws c : printable c -> rd_is_ws c = false.
Proof. exact (printable_not_tk_white c). Qed.

(* a text X that is plain, balanced and starts with a printable character, followed by the period *)
Lemma wf_text_plain X : X <> [] -> printable (hd 0 X) -> rplain X -> wf_text (X ++ [ch_period]) = true.
Proof.
  intros Hne Hh Hp. unfold wf_text.
  assert (E1 : rd_is_ws (hd_or_x (X ++ [ch_period])) = false).
  { destruct X as [|c X']; [now elim Hne|]. cbn [app hd_or_x]. now apply printable_not_rd_ws. }
  rewrite E1. cbn [negb andb].
  rewrite (one_rule_plain X (rp_chars X Hp) lex0 ch_x (rplain_outside X Hp)). cbn [andb].
  apply no_comment_plain. apply Forall_app. split.
  - eapply Forall_impl; [|apply (rp_chars X Hp)]. intros c Hc.
    destruct (fileplain_facts c Hc) as (_ & A & B & C). auto.
  - repeat constructor.
Qed.

Theorem closed_rule_wf_text r : closed_rule r -> wf_text (rule_text r) = true.
Proof.
  intros [Hh Hb]. pose proof (closed_head_text _ Hh) as Lt.
  pose proof (lt_ne _ Lt) as Hne. pose proof (lt_hd _ Lt) as Hhd.
  unfold rule_text. destruct Hb as [Hb|Hb].
  - rewrite Hb. cbn [goal_eqb]. change Tokenizer.ch_period with ch_period.
    apply wf_text_plain; [exact Hne|exact Hhd|now apply ltext_rplain].
  - destruct (closed_goal_facts _ Hb) as [_ Hcan].
    rewrite (canonical_not_nil _ _ (Hcan _ (le_n _))).
    change Tokenizer.ch_period with ch_period.
    replace (show_term (r_head r) ++ neck ++ text (r_body r) ++ [ch_period])
      with ((show_term (r_head r) ++ neck ++ text (r_body r)) ++ [ch_period])
      by (now rewrite <- !app_assoc).
    apply wf_text_plain.
    + destruct (show_term (r_head r)); [now elim Hne|discriminate].
    + destruct (show_term (r_head r)); [now elim Hne|exact Hhd].
    + apply rplain_app; [now apply ltext_rplain|].
      apply rplain_app; [apply rplain_const; (repeat constructor)|now apply closed_goal_rplain].
Qed.

Lemma closed_rules_wf_text rs : Forall closed_rule rs -> forallb wf_text (map rule_text rs) = true.
Proof.
  induction 1 as [|r rs Hr _ IH]; [reflexivity|]. cbn [map forallb].
  now rewrite (closed_rule_wf_text r Hr), IH.
Qed.

(* ---- parsing the texts one by one ---- *)
Lemma api_parse_rule_closed r : closed_rule r -> api_parse_rule (rule_text r) = Ok (POk r).
Proof.
  intros H. unfold api_parse_rule.
  apply (roundtrip_rule_closed r _ _ H); apply le_n.
Qed.

Lemma lk_loop_all (P : str -> res (presult rule)) rs : forall kb,
  (forall r, In r rs -> P (rule_text r) = Ok (POk r)) ->
  lk_loop P (map rule_text rs) kb = (do kb' <- add_rules kb rs; Ok (kb', true)).
Proof.
  induction rs as [|r rs IH]; intros kb H; [reflexivity|].
  cbn [map lk_loop add_rules]. rewrite (H r (or_introl eq_refl)). cbn [bind].
  destruct (term_key (r_head r)) as [key| |]; cbn [bind]; try reflexivity.
  apply IH. intros x Hx. apply H. now right.
Qed.

(* ---- end to end ---- *)
Theorem load_closed : forall rs L kb,
  Forall closed_rule rs ->
  legal L (map rule_text rs) = true ->
  expected (lay_rules L) (map rule_text rs) = map rule_text rs ->
  load_kb_from_file api_parse_rule kb (render L (map rule_text rs)) =
  (do kb' <- add_rules kb rs; Ok (kb', true)).
Proof.
  intros rs L kb Hrs Hlegal Hexp.
  rewrite load_kb_spec by (assumption || now apply closed_rules_wf_text).
  rewrite Hexp. apply lk_loop_all. intros r Hr. apply api_parse_rule_closed.
  rewrite Forall_forall in Hrs. now apply Hrs.
Qed.

Corollary load_closed_exact : forall rs L kb,
  Forall closed_rule rs ->
  legal L (map rule_text rs) = true ->
  exact_layout (lay_rules L) (map rule_text rs) = true ->
  load_kb_from_file api_parse_rule kb (render L (map rule_text rs)) =
  (do kb' <- add_rules kb rs; Ok (kb', true)).
Proof.
  intros rs L kb Hrs Hlegal Hex. apply load_closed; try assumption.
  apply exact_expected; [|exact Hex]. apply rules_ok_length.
  unfold legal in Hlegal. now apply andb_true_iff in Hlegal as [H _].
Qed.
