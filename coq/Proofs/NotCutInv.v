(* "No cut directly inside not(..) / time(..)": the programs the reference search of
   Spec/SpecCut.v does not refuse.  `gok` on goals (decidable, stable under renaming apart), `nok`
   on the engine's nodes; a node made from a gok goal is nok, and every request leaves a nok node
   nok (given that all clause bodies of the knowledge base are gok). *)
From Coq Require Import Lia.
From Suiron Require Import Model.Term Model.Subst Model.Show Model.Lists Model.Arith Model.Unify
  Model.Compare Model.Builtins Model.Rename Model.Solve Spec.SpecCut
  Proofs.RenameProofs Proofs.SolveDead Proofs.SolveCut Proofs.RefinePlain Proofs.RefineCut.
Open Scope N_scope.

Fixpoint gok (g : goal) : bool :=
  match g with
  | GOp ONot gs | GOp OTime gs =>
      match gs with
      | g1 :: _ => negb (has_cut g1) && gok g1
      | [] => true
      end
  | GOp _ gs => forallb gok gs
  | _ => true
  end.

Definition kbok (kb : kbase) : Prop :=
  forall key rules, kb_get kb key = Some rules -> forallb (fun r => gok (r_body r)) rules = true.

Definition opt_ok (o : option node) (f : node -> bool) : bool :=
  match o with Some x => f x | None => true end.

Fixpoint nok (nd : node) : bool :=
  match nd with
  | NCall _ _ _ child _ _ => match child with Some c => nok c | None => true end
  | NOp k _ _ _ head tail optail =>
      (match k with
       | ONot | OTime => match head with Some h => ncutb h | None => true end
       | _ => true
       end) &&
      (match head with Some h => nok h | None => true end) &&
      (match tail with Some t => nok t | None => true end) &&
      (match optail with Some tl => forallb gok tl | None => true end)
  | NBip _ _ _ _ _ => true
  end.

Lemma nok_set_nobt nd : nok (set_nobt nd) = nok nd.
Proof. destruct nd; reflexivity. Qed.
Lemma nok_flag (c : bool) nd : nok nd = true -> nok (if c then set_nobt nd else nd) = true.
Proof. destruct c; [now rewrite nok_set_nobt|auto]. Qed.
Lemma nok_flag_opt (c : bool) o :
  match o with Some h => nok h | None => true end = true ->
  match (if c then set_nobt_opt o else o) with Some h => nok h | None => true end = true.
Proof. destruct c, o; cbn; auto. now rewrite nok_set_nobt. Qed.
Lemma ncutb_flag (c : bool) nd : ncutb nd = true -> ncutb (if c then set_nobt nd else nd) = true.
Proof. destruct c; [now rewrite ncutb_set_nobt|auto]. Qed.

Lemma nok_op_inv k ss b m head tail optail : nok (NOp k ss b m head tail optail) = true ->
  (match k with ONot | OTime => match head with Some h => ncutb h | None => true end | _ => true end) = true /\
  match head with Some h => nok h | None => true end = true /\
  match tail with Some t => nok t | None => true end = true /\
  match optail with Some tl => forallb gok tl | None => true end = true.
Proof.
  cbn [nok]. intro H. apply andb_true_iff in H as [H H4]. apply andb_true_iff in H as [H H3].
  apply andb_true_iff in H as [H1 H2]. auto.
Qed.
Lemma nok_op k ss b m head tail optail :
  (match k with ONot | OTime => match head with Some h => ncutb h | None => true end | _ => true end) = true ->
  match head with Some h => nok h | None => true end = true ->
  match tail with Some t => nok t | None => true end = true ->
  match optail with Some tl => forallb gok tl | None => true end = true ->
  nok (NOp k ss b m head tail optail) = true.
Proof. intros H1 H2 H3 H4. cbn [nok]. now rewrite H1, H2, H3, H4. Qed.

(* ---- renaming apart keeps gok ---- *)
Lemma has_cut_erase : forall g, has_cut (erase_goal g) = has_cut g.
Proof.
  induction g as [k gs Hgs|f ts|t|] using goal_ind'; try reflexivity.
  - cbn [erase_goal]. rewrite !has_cut_op. induction Hgs as [|x l Hx _ IH]; [reflexivity|].
    cbn [map existsb]. now rewrite Hx, IH.
  - destruct ts; reflexivity.
Qed.

Lemma gok_erase : forall g, gok (erase_goal g) = gok g.
Proof.
  induction g as [k gs Hgs|f ts|t|] using goal_ind'; try reflexivity.
  - assert (forallb gok (map erase_goal gs) = forallb gok gs) as Hall.
    { induction Hgs as [|x l Hx _ IH]; [reflexivity|]. cbn [map forallb]. now rewrite Hx, IH. }
    destruct k; cbn [erase_goal gok]; try exact Hall.
    + destruct Hgs as [|x l Hx _]; [reflexivity|]. cbn [map]. now rewrite has_cut_erase, Hx.
    + destruct Hgs as [|x l Hx _]; [reflexivity|]. cbn [map]. now rewrite has_cut_erase, Hx.
  - destruct ts; reflexivity.
Qed.

Lemma get_rule_gok kb key idx ctr r ctr' :
  kbok kb -> get_rule kb key idx ctr = Ok (r, ctr') -> gok (r_body r) = true.
Proof.
  intros Hk H. destruct (get_rule_spec _ _ _ _ _ _ H) as (r0 & rules & Hg & Hn & He & _).
  pose proof (Hk _ _ Hg) as Hall. rewrite forallb_forall in Hall.
  specialize (Hall r0 (nth_error_In _ _ Hn)).
  unfold erase_rule in He. inversion He as [[H1 H2]].
  now rewrite <- (gok_erase (r_body r)), H2, gok_erase.
Qed.

Section Inv.
  Variable kb : kbase.
  Variable bf : nat.
  Hypothesis Hkb : kbok kb.

  Lemma make_node_nok : forall g ss w nd w', gok g = true -> make_node kb g ss w = Ok (nd, w') -> nok nd = true.
  Proof.
    induction g as [k gs Hgs|fn ts|t|] using goal_ind'; intros ss w nd w' Hg H; try discriminate.
    - destruct k; destruct gs as [|h tl]; try discriminate; cbn [make_node] in H;
        (destruct (make_node kb h ss w) as [[hn w1]| |] eqn:E; cbn [bind] in H; try discriminate);
        inversion H; subst; inversion Hgs as [|? ? Hh Htl]; subst; cbn [gok forallb] in Hg;
        apply andb_true_iff in Hg as [G1 G2].
      + apply nok_op; auto. exact (Hh _ _ _ _ G1 E).
      + apply nok_op; auto. exact (Hh _ _ _ _ G1 E).
      + apply negb_true_iff in G1. apply nok_op; auto.
        * eapply make_node_ncut; eauto.
        * exact (Hh _ _ _ _ G2 E).
      + apply negb_true_iff in G1. apply nok_op; auto.
        * eapply make_node_ncut; eauto.
        * exact (Hh _ _ _ _ G2 E).
    - cbn in H. inversion H; subst. reflexivity.
    - cbn [make_node] in H. destruct (term_key t) as [key| |]; cbn [bind] in H; try discriminate.
      destruct (count_rules kb key w) as [n w1]. inversion H; subst. reflexivity.
  Qed.

  Definition nk_next (F : nat) : Prop :=
    forall nd w nd' r c w1, nok nd = true -> next kb bf F nd w = Ok (nd', r, c, w1) -> nok nd' = true.
  Definition nk_and (F : nat) : Prop :=
    forall ss nobt more head tail optail acc w nd' r c w1,
      match head with Some h => nok h | None => true end = true ->
      match tail with Some t => nok t | None => true end = true ->
      match optail with Some tl => forallb gok tl | None => true end = true ->
      and_loop kb bf F ss nobt more head tail optail acc w = Ok (nd', r, c, w1) -> nok nd' = true.
  Definition nk_call (F : nat) : Prop :=
    forall t ss nobt child idx n w nd' r c w1,
      match child with Some c0 => nok c0 | None => true end = true ->
      call_loop kb bf F t ss nobt child idx n w = Ok (nd', r, c, w1) -> nok nd' = true.

  Lemma gok_and_tl tl : forallb gok tl = true -> gok (GOp OAnd tl) = true.
  Proof. auto. Qed.
  Lemma gok_or_tl tl : forallb gok tl = true -> gok (GOp OOr tl) = true.
  Proof. auto. Qed.

  Lemma nk_all : forall F, nk_next F /\ nk_and F /\ nk_call F.
  Proof.
    induction F as [|F (IHn & IHa & IHc)].
    { split; [|split]; red; intros; match goal with H : _ = Ok _ |- _ => discriminate H end. }
    split; [|split].
    - intros nd w nd' r c w1 Hp H. rewrite next_S in H. unfold next_body in H.
      destruct (node_nobt nd); [inversion H; subst; auto|].
      destruct nd as [t ss nobt child idx n|k ss nobt more head tail optail|fn ts ss nobt more].
      + cbn [nok] in Hp. destruct child as [c0|]; [|exact (IHc _ _ _ None _ _ _ _ _ _ _ eq_refl H)].
        dbind H as n1 o1 b1 wa E1. pose proof (IHn _ _ _ _ _ _ Hp E1) as P1.
        destruct o1 as [s|]; [inversion H; subst; exact P1|].
        exact (IHc _ _ _ None _ _ _ _ _ _ _ eq_refl H).
      + destruct (nok_op_inv _ _ _ _ _ _ _ Hp) as (Hk & Hh & Ht & Ho). destruct k.
        * (* and *)
          destruct tail as [t0|]; [|exact (IHa _ _ _ head None optail _ _ _ _ _ _ Hh eq_refl Ho H)].
          dbind H as n1 o1 b1 wa E1. pose proof (IHn _ _ _ _ _ _ Ht E1) as P1.
          destruct o1 as [s|].
          -- inversion H; subst. apply nok_op; auto. now apply nok_flag_opt.
          -- exact (IHa _ _ _ _ (Some n1) optail _ _ _ _ _ _ (nok_flag_opt _ _ Hh) P1 Ho H).
        * (* or *)
          destruct tail as [t0|].
          -- dbind H as n1 o1 b1 wa E1. pose proof (IHn _ _ _ _ _ _ Ht E1) as P1.
             inversion H; subst. apply nok_op; auto. now apply nok_flag_opt.
          -- destruct head as [h|]; [|inversion H; subst; exact Hp].
             dbind H as n1 o1 b1 wa E1. pose proof (IHn _ _ _ _ _ _ Hh E1) as P1.
             pose proof (nok_flag b1 _ P1) as P1'.
             destruct o1 as [s|]; [inversion H; subst; now apply nok_op|].
             destruct optail as [tl|]; [|inversion H; subst; now apply nok_op].
             destruct (length tl =? 0)%nat; [inversion H; subst; now apply nok_op|].
             destruct (nobt || b1); [inversion H; subst; now apply nok_op|].
             dbind2 H as t1 w2 E2. dbind H as n3 o3 b3 w3 E3.
             pose proof (make_node_nok _ _ _ _ _ (gok_or_tl _ Ho) E2) as Pt.
             pose proof (IHn _ _ _ _ _ _ Pt E3) as P3. inversion H; subst.
             apply nok_op; auto. now apply nok_flag.
        * (* time *)
          destruct (negb more); [inversion H; subst; exact Hp|].
          destruct head as [h|]; [|discriminate].
          dbind H as n1 o1 b1 wa E1. pose proof (IHn _ _ _ _ _ _ Hh E1) as P1.
          destruct (ncut_next kb bf _ _ _ _ _ _ _ Hk E1) as [_ C1].
          inversion H; subst. apply nok_op; auto; [now apply ncutb_flag|now apply nok_flag].
        * (* not *)
          destruct (negb more); [inversion H; subst; exact Hp|].
          destruct head as [h|]; [|discriminate].
          dbind H as n1 o1 b1 wa E1. pose proof (IHn _ _ _ _ _ _ Hh E1) as P1.
          destruct (ncut_next kb bf _ _ _ _ _ _ _ Hk E1) as [_ C1].
          inversion H; subst. apply nok_op; auto; [now apply ncutb_flag|now apply nok_flag].
      + destruct (negb more); [inversion H; subst; reflexivity|].
        dbind1 H as r1 E1. inversion H; subst. reflexivity.
    - intros ss nobt more head tail optail acc w nd' r c w1 Hh Ht Ho H. rewrite and_loop_S in H. unfold and_body in H.
      destruct head as [h|]; [|inversion H; subst; now apply nok_op].
      dbind H as n1 o1 b1 wa E1. pose proof (IHn _ _ _ _ _ _ Hh E1) as P1.
      pose proof (nok_flag b1 _ P1) as P1'.
      destruct o1 as [s|]; [|inversion H; subst; now apply nok_op].
      destruct optail as [tl|]; [|inversion H; subst; now apply nok_op].
      destruct (length tl =? 0)%nat; [inversion H; subst; now apply nok_op|].
      dbind2 H as t1 w2 E2. dbind H as n3 o3 b3 w3 E3.
      pose proof (make_node_nok _ _ _ _ _ (gok_and_tl _ Ho) E2) as Pt.
      pose proof (IHn _ _ _ _ _ _ Pt E3) as P3.
      pose proof (nok_flag b3 _ P1') as P1''.
      destruct o3 as [s2|]; [inversion H; subst; now apply nok_op|].
      exact (IHa _ _ _ (Some _) (Some n3) (Some tl) _ _ _ _ _ _ P1'' P3 Ho H).
    - intros t ss nobt child idx n w nd' r c w1 Hc H. rewrite call_loop_S in H. unfold call_body in H.
      destruct nobt; [inversion H; subst; exact Hc|].
      destruct (n <=? idx); [inversion H; subst; exact Hc|].
      dbind1 H as key Ek. dbind2 H as r0 ctr Eg. dbind1 H as u Eu.
      destruct u as [s|]; [|exact (IHc _ _ _ _ _ _ _ _ _ _ _ Hc H)].
      destruct (is_gnil (r_body r0)); [inversion H; subst; exact Hc|].
      dbind2 H as c0 w2 E2. dbind H as n3 o3 b3 w3 E3.
      pose proof (make_node_nok _ _ _ _ _ (get_rule_gok _ _ _ _ _ _ Hkb Eg) E2) as Pc.
      pose proof (IHn _ _ _ _ _ _ Pc E3) as P3.
      destruct o3 as [s2|]; [inversion H; subst; exact P3|].
      exact (IHc _ _ _ (Some n3) _ _ _ _ _ _ _ P3 H).
  Qed.

  Theorem nok_next F nd w nd' r c w1 : nok nd = true -> next kb bf F nd w = Ok (nd', r, c, w1) -> nok nd' = true.
  Proof. apply (proj1 (nk_all F)). Qed.
End Inv.

(* the decidable form of kbok *)
Definition kbokb (kb : kbase) : bool := forallb (fun e => forallb (fun r => gok (r_body r)) (snd e)) kb.

Lemma kbokb_kbok kb : kbokb kb = true -> kbok kb.
Proof.
  intros H key rules Hg. induction kb as [|[k rs] kb IH]; [discriminate|].
  cbn in H, Hg. apply andb_true_iff in H as [H1 H2].
  destruct (str_eqb k key); [inversion Hg; subst; exact H1|auto].
Qed.
