(* Depth-first, left-to-right SLD resolution with the clauses tried in program order: the laws that
   DEFINE it, proved of the reference search (Spec/SpecCut.v) for CUT-FREE programs (no `!` in the goal
   - `cutfree`, Proofs/CutOnce.v - nor in any clause body of the knowledge base - `cutfree_kb`).
   not(..) and time(..) are allowed.

   WHY A STREAM.  The world carries the variable-id counter, and a fetched clause is renamed apart AT
   THE CURRENT COUNTER.  In `g1, g2` the search of g1 is RESUMED, after g2 has been run on g1's first
   answer, in the world g2 left - so g1's second answer is renamed with a counter that depends on what
   g2 consumed.  The law "answers (g1, g2) = for each s1 in (answers g1): answers g2 from s1" is
   therefore FALSE when `answers g1` is a list computed on its own (Properties/C01sld.v has the
   counterexample: p(f($A)). p(g($B)). q(h($C)). q(7). - the ids differ).  What is true, exactly and with
   the world threaded, needs the answers of g1 in RESUMABLE form:

     stream  :=  SNil w                  no more answers; w: the world the search ends in
              |  SCons s w rest          answer s found in world w; `rest w'`: the search resumed in w'
              |  SPanic | SOut           the search panicked / ran out of fuel at this point

   `sld kb bf fuel g s w : stream` is the textbook "stream of successes" interpreter, direct style (no
   continuation, no signal, no flag):  conjunction = sbind, disjunction = sapp, call = sapp over the
   clauses idx = 0, 1, 2, .. (fetch renamed at the counter; head does not unify: next clause, same
   world - the counter is restored; a fact: the unifier; a rule: the stream of its body), not / time: the
   head of the stream only.  Its fuel discipline is that of csolve, so all laws hold at EVERY fuel,
   as equations between results (Ok, Panic and OutOfFuel alike).

   The laws (section Laws; kb cut-free):
     sld_continuation (L4)  csolve fuel g s w k = sfold (sld fuel g s w) k   for EVERY k: hand each answer
                        to k (flag false), resume the stream in the world k returns, go on while k says
                        Go, stop with k's result at the first other signal (this subsumes the
                        first-answer lemma of CutOnce).  _go: k always Go - `seach`, no signals left.
                        _pure: k leaves the world alone - flat_map over the answer LIST.
     answers_sld        answers fuel g s w = slist (sld fuel g s w): the stream is the resumable
                        presentation of the answers (resumed each time in the world of the answer).
     sld_conjunction (L1)   answers (g1, g2, ..) = seach (sld g1) (fun s1 w1 => answers (g2, ..) s1 w1)
     sld_disjunction (L2)   answers (g1; g2; ..) s w = a1 ++ a2, (a1, w1) = answers g1 s w,
                        (a2, w2) = answers (g2; ..) s w1: the same s, the world threaded.  Exact on LISTS.
     sld_call, sld_clauses (L3)   the continuation eliminated from cclauses: clause idx, then clause idx+1
                        from the world reached, the body run by `answers`.  Exact on LISTS.
     sld_continuation_quiet, sld_conjunction_quiet, sld_conjunction_bip (section 6)   when the plain LIST
                        of answers of g1 does suffice: the search reads of the world the id counter
                        and the stop hook only and appends to the output (`weq`: worlds equal up to
                        their output; sld_weq).  If k's answers depend on the substitution only (h) and
                        k changes at most the output, then csolve g s w k yields flat_map h (answers g)
                        and ends in a world weq to the one `answers g` ends in (the outputs of g and
                        k interleave).  Instance: `g1, b` with b a built-in predicate. *)
From Coq Require Import Lia.
From Suiron Require Import Model.Term Model.Subst Model.Show Model.Lists Model.Arith Model.Unify
  Model.Compare Model.Builtins Model.Rename Model.Solve Spec.SpecCut
  Proofs.RenameProofs Proofs.SolveDead Proofs.SolveCut Proofs.RefinePlain Proofs.RefineCut Proofs.CutOnce.
Open Scope N_scope.

(* ---- 0. knowledge bases without cut ---- *)
Definition cutfree_kb (kb : kbase) : bool :=
  forallb (fun e : str * list rule => forallb (fun r => cutfree (r_body r)) (snd e)) kb.

(* ---- 1. resumable answer streams ---- *)
Inductive stream :=
| SNil (w : world)
| SCons (s : subst) (w : world) (rest : world -> stream)
| SPanic
| SOut.

Definition slift {A} (r : res A) (f : A -> stream) : stream :=
  match r with Ok a => f a | Panic => SPanic | OutOfFuel => SOut end.

Fixpoint sapp (a : stream) (b : world -> stream) : stream :=
  match a with
  | SNil w => b w
  | SCons s w r => SCons s w (fun w' => sapp (r w') b)
  | SPanic => SPanic
  | SOut => SOut
  end.

Fixpoint sbind (a : stream) (f : subst -> world -> stream) : stream :=
  match a with
  | SNil w => SNil w
  | SCons s w r => sapp (f s w) (fun w' => sbind (r w') f)
  | SPanic => SPanic
  | SOut => SOut
  end.

Definition sunit (s : subst) (w : world) : stream := SCons s w SNil.

(* consuming a stream with a continuation of the reference search *)
Fixpoint sfold (a : stream) (k : ckont) : res cres :=
  match a with
  | SNil w => Ok ([], w, Go)
  | SCons s w r => seq (k s w false) (fun w1 => sfold (r w1) k)
  | SPanic => Panic
  | SOut => OutOfFuel
  end.

Definition ares := (list subst * world)%type.

(* for each answer, in order: run f, resume the stream in the world f leaves *)
Fixpoint seach (a : stream) (f : subst -> world -> res ares) : res ares :=
  match a with
  | SNil w => Ok ([], w)
  | SCons s w r =>
      do x <- f s w; let '(a1, w1) := x in
      do y <- seach (r w1) f; let '(a2, w2) := y in Ok (a1 ++ a2, w2)
  | SPanic => Panic
  | SOut => OutOfFuel
  end.

(* all answers, the search resumed each time in the world of the answer *)
Definition slist (a : stream) : res ares := seach a (fun s w => Ok ([s], w)).

Section Sld.
  Variable kb : kbase.
  Variable bf : nat.

  Section Bodies.
    Variable sld : goal -> subst -> world -> stream.
    Variable sclauses : term -> subst -> str -> N -> N -> world -> stream.

    Definition sld_body (g : goal) (s : subst) (w : world) : stream :=
      match g with
      | GBip fn ts =>
          slift (run_bip bf fn ts s) (fun r =>
            match br_sol r with
            | Some s' => sunit s' (w_print w (br_out r))
            | None => SNil (w_print w (br_out r))
            end)
      | GOp OAnd [] => SPanic
      | GOp OAnd [g1] => sld g1 s w
      | GOp OAnd (g1 :: rest) => sbind (sld g1 s w) (fun s1 w1 => sld (GOp OAnd rest) s1 w1)
      | GOp OOr [] => SPanic
      | GOp OOr [g1] => sld g1 s w
      | GOp OOr (g1 :: rest) => sapp (sld g1 s w) (fun w1 => sld (GOp OOr rest) s w1)
      | GOp ONot (g1 :: _) =>
          match sld g1 s w with
          | SNil w1 => sunit s w1
          | SCons _ w1 _ => SNil w1
          | e => e
          end
      | GOp OTime (g1 :: _) =>
          match sld g1 s w with
          | SNil w1 => SNil (w_print w1 elapsed_token)
          | SCons s1 w1 _ => sunit s1 (w_print w1 elapsed_token)
          | e => e
          end
      | GCall t =>
          slift (term_key t) (fun key =>
            let '(n, w0) := count_rules kb key w in sclauses t s key 0 n w0)
      | _ => SPanic
      end.

    Definition sclauses_body (t : term) (s : subst) (key : str) (idx n : N) (w : world) : stream :=
      if n <=? idx then SNil w
      else
        slift (get_rule kb key idx (next_id w)) (fun gr =>
          let '(r, ctr) := gr in
          slift (unify bf (r_head r) t s) (fun u =>
            match u with
            | None => sclauses t s key (idx + 1) n w
            | Some s' =>
                sapp (if is_gnil (r_body r) then sunit s' (w_set_id w ctr)
                      else sld (r_body r) s' (w_set_id w ctr))
                     (fun w2 => sclauses t s key (idx + 1) n w2)
            end)).
  End Bodies.

  Fixpoint sld (fuel : nat) (g : goal) (s : subst) (w : world) {struct fuel} : stream :=
    match fuel with
    | O => SOut
    | S f => sld_body (sld f) (sclauses f) g s w
    end
  with sclauses (fuel : nat) (t : term) (s : subst) (key : str) (idx n : N) (w : world)
    {struct fuel} : stream :=
    match fuel with
    | O => SOut
    | S f => sclauses_body (sld f) (sclauses f) t s key idx n w
    end.

  Lemma sld_S f g s w : sld (S f) g s w = sld_body (sld f) (sclauses f) g s w.
  Proof. reflexivity. Qed.
  Lemma sclauses_S f t s key idx n w :
    sclauses (S f) t s key idx n w = sclauses_body (sld f) (sclauses f) t s key idx n w.
  Proof. reflexivity. Qed.

  (* the collecting continuation and the answers of a goal *)
  Definition collect : ckont := fun s w _ => Ok ([s], w, Go).
  Definition drop_sig (r : res cres) : res ares := do x <- r; let '(a, w, _) := x in Ok (a, w).
  Definition answers (fuel : nat) (g : goal) (s : subst) (w : world) : res ares :=
    drop_sig (csolve kb bf fuel g s w collect).
  Definition clause_answers (fuel : nat) (t : term) (s : subst) (key : str) (idx n : N) (w : world) : res ares :=
    drop_sig (cclauses kb bf fuel t s key idx n w collect).
End Sld.

(* ---- 2. algebra of seq and of the stream operations ---- *)
Lemma seq_ext a (b b' : world -> res cres) : (forall w, b w = b' w) -> seq a b = seq a b'.
Proof.
  intro H. unfold seq. destruct a as [[[a1 w1] [|n|]]| |]; cbn [bind]; try reflexivity. now rewrite H.
Qed.

Lemma seq_nil_l w (b : world -> res cres) : seq (Ok ([], w, Go)) b = b w.
Proof. unfold seq. cbn [bind]. destruct (b w) as [[[a2 w2] s2]| |]; reflexivity. Qed.

Lemma seq_nil_r a : seq a (fun w => Ok ([], w, Go)) = a.
Proof.
  unfold seq. destruct a as [[[a1 w1] [|n|]]| |]; cbn [bind]; try reflexivity. now rewrite app_nil_r.
Qed.

Lemma seq_assoc a (b c : world -> res cres) : seq (seq a b) c = seq a (fun w => seq (b w) c).
Proof.
  unfold seq. destruct a as [[[a1 w1] [|n|]]| |]; cbn [bind]; try reflexivity.
  destruct (b w1) as [[[a2 w2] [|n|]]| |]; cbn [bind]; try reflexivity.
  destruct (c w2) as [[[a3 w3] s3]| |]; cbn [bind]; try reflexivity. now rewrite app_assoc.
Qed.

Lemma sfold_ext a : forall k1 k2, (forall s w, k1 s w false = k2 s w false) -> sfold a k1 = sfold a k2.
Proof.
  induction a as [w|s w r IH| |]; intros k1 k2 H; cbn [sfold]; try reflexivity.
  rewrite H. apply seq_ext. intro w1. now apply IH.
Qed.

Lemma sfold_sapp a : forall b k, sfold (sapp a b) k = seq (sfold a k) (fun w => sfold (b w) k).
Proof.
  induction a as [w|s w r IH| |]; intros b k; cbn [sapp sfold]; try reflexivity.
  - now rewrite seq_nil_l.
  - rewrite seq_assoc. apply seq_ext. intro w1. apply IH.
Qed.

Lemma sfold_sbind a : forall f k, sfold (sbind a f) k = sfold a (fun s w _ => sfold (f s w) k).
Proof.
  induction a as [w|s w r IH| |]; intros f k; cbn [sbind sfold]; try reflexivity.
  rewrite sfold_sapp. apply seq_ext. intro w1. apply IH.
Qed.

Lemma sfold_sunit s w k : sfold (sunit s w) k = k s w false.
Proof. unfold sunit. cbn [sfold]. apply seq_nil_r. Qed.

Lemma sfold_slift {A} (r : res A) (f : A -> stream) k : sfold (slift r f) k = do x <- r; sfold (f x) k.
Proof. destruct r; reflexivity. Qed.

(* entering a call and leaving it *)
Lemma sfold_kbump a : forall k,
  sfold a (kbump k) = do x <- sfold a k; let '(l, w, sg) := x in Ok (l, w, bump sg).
Proof.
  induction a as [w|s w r IH| |]; intros k; cbn [sfold]; try reflexivity.
  unfold kbump at 1. unfold seq.
  destruct (k s w false) as [[[a1 w1] [|n|]]| |]; cbn [bind bump]; try reflexivity.
  rewrite IH. destruct (sfold (r w1) k) as [[[a2 w2] s2]| |]; reflexivity.
Qed.

Lemma after_body_bump a k (rest : world -> res cres) :
  (do x <- sfold a (kbump k); after_body x rest) = seq (sfold a k) rest.
Proof.
  rewrite sfold_kbump. unfold seq.
  destruct (sfold a k) as [[[a1 w1] [|n|]]| |]; reflexivity.
Qed.

Lemma w_restore w ctr : w_set_id (w_set_id w ctr) (next_id w) = w.
Proof. destruct w. reflexivity. Qed.

Lemma cutfree_no_has_cut : forall g, cutfree g = true -> has_cut g = false.
Proof.
  induction g as [k gs Hgs|f ts|t|] using goal_ind'; intro H; try reflexivity.
  - rewrite cutfree_op in H. rewrite has_cut_op.
    induction Hgs as [|x l Hx _ IH]; [reflexivity|]. cbn [forallb existsb] in *.
    apply andb_true_iff in H as [H1 H2]. now rewrite (Hx H1), (IH H2).
  - cbn [has_cut]. now apply cutfree_bip in H.
Qed.

Lemma cutfree_kb_get : forall kb key rules r,
  cutfree_kb kb = true -> kb_get kb key = Some rules -> In r rules -> cutfree (r_body r) = true.
Proof.
  induction kb as [|[k rs] kb IH]; intros key rules r H Hg Hin; [discriminate|].
  unfold cutfree_kb in H. cbn [forallb snd] in H. apply andb_true_iff in H as [H1 H2].
  cbn [kb_get] in Hg. destruct (str_eqb k key).
  - inversion Hg; subst. rewrite forallb_forall in H1. now apply H1.
  - exact (IH _ _ _ H2 Hg Hin).
Qed.

Lemma cutfree_fetched kb key idx c rl ctr :
  cutfree_kb kb = true -> get_rule kb key idx c = Ok (rl, ctr) -> cutfree (r_body rl) = true.
Proof.
  intros Hkb Hg. destruct (get_rule_spec _ _ _ _ _ _ Hg) as (r0 & rules & Hget & Hnth & He & _).
  unfold erase_rule in He. injection He as _ He.
  rewrite <- cutfree_erase, He, cutfree_erase.
  exact (cutfree_kb_get _ _ _ _ Hkb Hget (nth_error_In _ _ Hnth)).
Qed.

(* ---- 3. the reference search of a cut-free program is the consumption of the SLD stream ---- *)
Section Main.
  Variable kb : kbase.
  Variable bf : nat.
  Hypothesis Hkb : cutfree_kb kb = true.

  Definition sl_solve (f : nat) : Prop :=
    forall g s w k, cutfree g = true -> csolve kb bf f g s w k = sfold (sld kb bf f g s w) k.
  Definition sl_clauses (f : nat) : Prop :=
    forall t s key idx n w k, cclauses kb bf f t s key idx n w k = sfold (sclauses kb bf f t s key idx n w) k.

  Lemma sl_all : forall f, sl_solve f /\ sl_clauses f.
  Proof.
    induction f as [|f [IHs IHc]].
    { split; red; intros; reflexivity. }
    split.
    - intros g s w k Hcf. rewrite csolve_S, sld_S. unfold csolve_body, sld_body.
      destruct g as [op gs|fn ts|t|]; try reflexivity.
      + destruct op.
        * (* and *)
          destruct gs as [|g1 [|g2 rest]]; try reflexivity.
          -- destruct (cutfree_cons _ OAnd _ _ Hcf) as [Hc1 _]. exact (IHs _ _ _ _ Hc1).
          -- destruct (cutfree_cons _ OAnd _ _ Hcf) as [Hc1 Hc2].
             rewrite (IHs _ _ _ _ Hc1), sfold_sbind. apply sfold_ext. intros s1 w1.
             rewrite (IHs _ _ _ _ Hc2). cbn [mark].
             rewrite (sfold_ext _ (kwrap false k) k).
             ++ destruct (sfold (sld kb bf f (GOp OAnd (g2 :: rest)) s1 w1) k); reflexivity.
             ++ intros s2 w2. unfold kwrap. cbn [orb mark]. destruct (k s2 w2 false); reflexivity.
        * (* or *)
          destruct gs as [|g1 [|g2 rest]]; try reflexivity.
          -- destruct (cutfree_cons _ OOr _ _ Hcf) as [Hc1 _]. exact (IHs _ _ _ _ Hc1).
          -- destruct (cutfree_cons _ OOr _ _ Hcf) as [Hc1 Hc2].
             rewrite sfold_sapp, (IHs _ _ _ _ Hc1). apply seq_ext. intro w1. exact (IHs _ _ _ _ Hc2).
        * (* time *)
          destruct gs as [|g1 rest]; try reflexivity.
          destruct (cutfree_cons _ OTime _ _ Hcf) as [Hc1 _].
          rewrite (cutfree_no_has_cut _ Hc1), (IHs _ _ _ _ Hc1).
          destruct (sld kb bf f g1 s w) as [w1|s1 w1 r| |]; cbn [sfold bind halt1 seq]; try reflexivity.
          now rewrite sfold_sunit.
        * (* not *)
          destruct gs as [|g1 rest]; try reflexivity.
          destruct (cutfree_cons _ ONot _ _ Hcf) as [Hc1 _].
          rewrite (cutfree_no_has_cut _ Hc1), (IHs _ _ _ _ Hc1).
          destruct (sld kb bf f g1 s w) as [w1|s1 w1 r| |]; cbn [sfold bind halt1 seq]; try reflexivity.
          now rewrite sfold_sunit.
      + (* built-in predicate *)
        rewrite sfold_slift.
        destruct (run_bip bf fn ts s) as [rb| |] eqn:Eb; cbn [bind]; try reflexivity.
        rewrite (run_bip_no_cut _ _ _ _ _ (cutfree_bip _ _ Hcf) Eb).
        destruct (br_sol rb) as [s'|]; [|reflexivity].
        rewrite sfold_sunit. cbn [mark]. destruct (k s' (w_print w (br_out rb)) false); reflexivity.
      + (* call *)
        rewrite sfold_slift. destruct (term_key t) as [key| |]; cbn [bind]; try reflexivity.
        destruct (count_rules kb key w) as [n w0]. apply IHc.
    - intros t s key idx n w k. rewrite cclauses_S, sclauses_S. unfold cclauses_body, sclauses_body.
      destruct (n <=? idx); [reflexivity|]. rewrite sfold_slift.
      destruct (get_rule kb key idx (next_id w)) as [[rl ctr]| |] eqn:Eg; cbn [bind]; try reflexivity.
      rewrite sfold_slift.
      destruct (unify bf (r_head rl) t s) as [[s'|]| |]; cbn [bind]; try reflexivity.
      2:{ rewrite w_restore. apply IHc. }
      rewrite sfold_sapp. destruct (is_gnil (r_body rl)) eqn:En.
      + rewrite sfold_sunit. apply seq_ext. intro w2. apply IHc.
      + rewrite (IHs _ _ _ _ (cutfree_fetched _ _ _ _ _ _ Hkb Eg)), after_body_bump.
        apply seq_ext. intro w2. apply IHc.
  Qed.
End Main.

(* ---- 4. consuming a stream with a continuation that never stops the search ---- *)
Definition always_go (k : ckont) : Prop :=
  forall s w a w' sg, k s w false = Ok (a, w', sg) -> sg = Go.

Definition with_go (r : res ares) : res cres := do x <- r; let '(l, w) := x in Ok (l, w, Go).

Lemma sfold_seach a : forall k, always_go k ->
  sfold a k = with_go (seach a (fun s w => drop_sig (k s w false))).
Proof.
  induction a as [w|s w r IH| |]; intros k Hk; cbn [sfold seach]; try reflexivity.
  unfold seq, drop_sig, with_go.
  destruct (k s w false) as [[[a1 w1] sg1]| |] eqn:E; cbn [bind]; try reflexivity.
  rewrite (Hk _ _ _ _ _ E). rewrite (IH w1 k Hk). unfold with_go, drop_sig.
  destruct (seach (r w1) (fun s0 w0 => do x <- k s0 w0 false; (let '(a, w2, _) := x in Ok (a, w2)))) as [[a2 w2]| |];
    reflexivity.
Qed.

Lemma drop_with_go r : drop_sig (with_go r) = r.
Proof. unfold drop_sig, with_go. destruct r as [[l w]| |]; reflexivity. Qed.

Lemma always_go_collect : always_go collect.
Proof. intros s w a w' sg H. unfold collect in H. now inversion H. Qed.

Lemma seach_ext a : forall f1 f2, (forall s w, f1 s w = f2 s w) -> seach a f1 = seach a f2.
Proof.
  induction a as [w|s w r IH| |]; intros f1 f2 H; cbn [seach]; try reflexivity.
  rewrite H. destruct (f2 s w) as [[a1 w1]| |]; cbn [bind]; try reflexivity. now rewrite (IH w1 f1 f2 H).
Qed.

Lemma seach_sapp a : forall b f,
  seach (sapp a b) f =
  do x <- seach a f; let '(a1, w1) := x in
  do y <- seach (b w1) f; let '(a2, w2) := y in Ok (a1 ++ a2, w2).
Proof.
  induction a as [w|s w r IH| |]; intros b f; cbn [sapp seach bind]; try reflexivity.
  - destruct (seach (b w) f) as [[a2 w2]| |]; reflexivity.
  - destruct (f s w) as [[a1 w1]| |]; cbn [bind]; try reflexivity. rewrite IH.
    destruct (seach (r w1) f) as [[a2 w2]| |]; cbn [bind]; try reflexivity.
    destruct (seach (b w2) f) as [[a3 w3]| |]; cbn [bind]; try reflexivity. now rewrite app_assoc.
Qed.

Lemma seach_sbind a : forall g f, seach (sbind a g) f = seach a (fun s w => seach (g s w) f).
Proof.
  induction a as [w|s w r IH| |]; intros g f; cbn [sbind seach]; try reflexivity.
  rewrite seach_sapp. destruct (seach (g s w) f) as [[a1 w1]| |]; cbn [bind]; try reflexivity. now rewrite IH.
Qed.

Lemma seach_slift {A} (r : res A) (g : A -> stream) f : seach (slift r g) f = do x <- r; seach (g x) f.
Proof. destruct r; reflexivity. Qed.

Lemma seach_sunit s w f : seach (sunit s w) f = f s w.
Proof.
  unfold sunit. cbn [seach]. destruct (f s w) as [[a1 w1]| |]; cbn [bind]; try reflexivity. now rewrite app_nil_r.
Qed.

(* a continuation that leaves the world alone: the answers, each mapped *)
Lemma seach_pure a : forall (h : subst -> list subst),
  seach a (fun s w => Ok (h s, w)) = do x <- slist a; let '(l, w') := x in Ok (flat_map h l, w').
Proof.
  unfold slist. induction a as [w|s w r IH| |]; intro h; cbn [seach bind]; try reflexivity.
  rewrite IH. destruct (seach (r w) (fun s0 w0 => Ok ([s0], w0))) as [[a2 w2]| |]; cbn [bind]; reflexivity.
Qed.

(* ---- 5. the laws ---- *)
Section Laws.
  Variable kb : kbase.
  Variable bf : nat.
  Hypothesis Hkb : cutfree_kb kb = true.

  (* (L4) continuation elimination: for EVERY continuation k and every fuel, the reference search of a
     cut-free goal is: enumerate the answers of the goal (the stream), hand each to k with the flag
     false, resume the enumeration in the world k returns, stop at the first signal other than Go *)
  Theorem sld_continuation : forall fuel g s w k, cutfree g = true ->
    csolve kb bf fuel g s w k = sfold (sld kb bf fuel g s w) k.
  Proof. intros fuel g s w k H. exact (proj1 (sl_all kb bf Hkb fuel) g s w k H). Qed.

  Theorem sld_continuation_clauses : forall fuel t s key idx n w k,
    cclauses kb bf fuel t s key idx n w k = sfold (sclauses kb bf fuel t s key idx n w) k.
  Proof. intros. exact (proj2 (sl_all kb bf Hkb fuel) t s key idx n w k). Qed.

  (* k never stops the search: for each answer, in order, the answers of k, concatenated, the world threaded *)
  Theorem sld_continuation_go : forall fuel g s w k, cutfree g = true -> always_go k ->
    csolve kb bf fuel g s w k
    = with_go (seach (sld kb bf fuel g s w) (fun s1 w1 => drop_sig (k s1 w1 false))).
  Proof. intros fuel g s w k Hcf Hk. rewrite (sld_continuation _ _ _ _ _ Hcf). now apply sfold_seach. Qed.

  (* the stream of a goal is the resumable presentation of its answers *)
  Theorem answers_sld : forall fuel g s w, cutfree g = true ->
    answers kb bf fuel g s w = slist (sld kb bf fuel g s w).
  Proof.
    intros fuel g s w Hcf. unfold answers. rewrite (sld_continuation_go _ _ _ _ _ Hcf always_go_collect).
    rewrite drop_with_go. reflexivity.
  Qed.

  Theorem clause_answers_sld : forall fuel t s key idx n w,
    clause_answers kb bf fuel t s key idx n w = slist (sclauses kb bf fuel t s key idx n w).
  Proof.
    intros. unfold clause_answers. rewrite sld_continuation_clauses, (sfold_seach _ _ always_go_collect).
    rewrite drop_with_go. reflexivity.
  Qed.

  (* k leaves the world alone: the answer LIST of the goal suffices *)
  Theorem sld_continuation_pure : forall fuel g s w k (h : subst -> list subst), cutfree g = true ->
    (forall s1 w1, k s1 w1 false = Ok (h s1, w1, Go)) ->
    csolve kb bf fuel g s w k
    = do x <- answers kb bf fuel g s w; let '(l, w') := x in Ok (flat_map h l, w', Go).
  Proof.
    intros fuel g s w k h Hcf Hk. rewrite sld_continuation_go; [|exact Hcf|].
    2:{ intros s1 w1 a w' sg E. rewrite Hk in E. now inversion E. }
    rewrite (seach_ext _ _ (fun s1 w1 => Ok (h s1, w1))).
    2:{ intros s1 w1. rewrite Hk. reflexivity. }
    rewrite seach_pure, (answers_sld _ _ _ _ Hcf). unfold with_go.
    destruct (slist (sld kb bf fuel g s w)) as [[l w']| |]; reflexivity.
  Qed.

  (* (L1) conjunction *)
  Theorem sld_conjunction : forall f g1 g2 rest s w, cutfree (GOp OAnd (g1 :: g2 :: rest)) = true ->
    answers kb bf (S f) (GOp OAnd (g1 :: g2 :: rest)) s w
    = seach (sld kb bf f g1 s w) (fun s1 w1 => answers kb bf f (GOp OAnd (g2 :: rest)) s1 w1).
  Proof.
    intros f g1 g2 rest s w Hcf. destruct (cutfree_cons _ OAnd _ _ Hcf) as [Hc1 Hc2].
    rewrite (answers_sld _ _ _ _ Hcf), sld_S. cbn [sld_body]. unfold slist. rewrite seach_sbind.
    apply seach_ext. intros s1 w1. now rewrite (answers_sld _ _ _ _ Hc2).
  Qed.

  Theorem sld_conjunction_k : forall f g1 g2 rest s w k, cutfree (GOp OAnd (g1 :: g2 :: rest)) = true ->
    csolve kb bf (S f) (GOp OAnd (g1 :: g2 :: rest)) s w k
    = sfold (sld kb bf f g1 s w) (fun s1 w1 _ => csolve kb bf f (GOp OAnd (g2 :: rest)) s1 w1 k).
  Proof.
    intros f g1 g2 rest s w k Hcf. destruct (cutfree_cons _ OAnd _ _ Hcf) as [Hc1 Hc2].
    rewrite (sld_continuation _ _ _ _ _ Hcf), sld_S. cbn [sld_body]. rewrite sfold_sbind.
    apply sfold_ext. intros s1 w1. now rewrite (sld_continuation _ _ _ _ _ Hc2).
  Qed.

  Theorem sld_conjunction_1 : forall f g1 s w,
    answers kb bf (S f) (GOp OAnd [g1]) s w = answers kb bf f g1 s w.
  Proof. reflexivity. Qed.

  (* (L2) disjunction *)
  Theorem sld_disjunction : forall f g1 g2 rest s w, cutfree (GOp OOr (g1 :: g2 :: rest)) = true ->
    answers kb bf (S f) (GOp OOr (g1 :: g2 :: rest)) s w
    = do x <- answers kb bf f g1 s w; let '(a1, w1) := x in
      do y <- answers kb bf f (GOp OOr (g2 :: rest)) s w1; let '(a2, w2) := y in
      Ok (a1 ++ a2, w2).
  Proof.
    intros f g1 g2 rest s w Hcf. destruct (cutfree_cons _ OOr _ _ Hcf) as [Hc1 Hc2].
    rewrite (answers_sld _ _ _ _ Hcf), sld_S. cbn [sld_body]. unfold slist. rewrite seach_sapp.
    rewrite (answers_sld _ _ _ _ Hc1). unfold slist.
    destruct (seach (sld kb bf f g1 s w) (fun s0 w0 => Ok ([s0], w0))) as [[a1 w1]| |]; cbn [bind]; try reflexivity.
    now rewrite (answers_sld _ _ _ _ Hc2).
  Qed.

  Theorem sld_disjunction_1 : forall f g1 s w,
    answers kb bf (S f) (GOp OOr [g1]) s w = answers kb bf f g1 s w.
  Proof. reflexivity. Qed.

  (* (L3) call: the clauses of the predicate in program order *)
  Theorem sld_call : forall f t s w,
    answers kb bf (S f) (GCall t) s w
    = do key <- term_key t;
      let '(n, w0) := count_rules kb key w in clause_answers kb bf f t s key 0 n w0.
  Proof.
    intros f t s w. unfold answers, clause_answers. rewrite csolve_S. unfold csolve_body, drop_sig.
    destruct (term_key t) as [key| |]; cbn [bind]; try reflexivity.
    destruct (count_rules kb key w) as [n w0]. reflexivity.
  Qed.

  Theorem sld_clauses : forall f t s key idx n w,
    clause_answers kb bf (S f) t s key idx n w
    = if n <=? idx then Ok ([], w)
      else
        do gr <- get_rule kb key idx (next_id w);
        let '(r, ctr) := gr in
        do u <- unify bf (r_head r) t s;
        match u with
        | None => clause_answers kb bf f t s key (idx + 1) n w
        | Some s' =>
            do x <- (if is_gnil (r_body r) then Ok ([s'], w_set_id w ctr)
                     else answers kb bf f (r_body r) s' (w_set_id w ctr));
            let '(a1, w2) := x in
            do y <- clause_answers kb bf f t s key (idx + 1) n w2; let '(a2, w3) := y in
            Ok (a1 ++ a2, w3)
        end.
  Proof.
    intros f t s key idx n w. rewrite clause_answers_sld, sclauses_S. unfold sclauses_body.
    destruct (n <=? idx); [reflexivity|]. unfold slist. rewrite seach_slift.
    destruct (get_rule kb key idx (next_id w)) as [[rl ctr]| |] eqn:Eg; cbn [bind]; try reflexivity.
    rewrite seach_slift.
    destruct (unify bf (r_head rl) t s) as [[s'|]| |]; cbn [bind]; try reflexivity.
    2:{ now rewrite clause_answers_sld. }
    rewrite seach_sapp. destruct (is_gnil (r_body rl)).
    - rewrite seach_sunit. cbn [bind]. rewrite clause_answers_sld. reflexivity.
    - rewrite (answers_sld _ _ _ _ (cutfree_fetched _ _ _ _ _ _ Hkb Eg)). unfold slist.
      destruct (seach (sld kb bf f (r_body rl) s' (w_set_id w ctr)) (fun s0 w0 => Ok ([s0], w0))) as [[a1 w2]| |];
        cbn [bind]; try reflexivity.
      rewrite clause_answers_sld. reflexivity.
  Qed.

  (* a cut-free search never returns a cut signal of its own: with a continuation that always says Go,
     the signal is Go *)
  Theorem sld_signal_go : forall fuel g s w k a w' sg, cutfree g = true -> always_go k ->
    csolve kb bf fuel g s w k = Ok (a, w', sg) -> sg = Go.
  Proof.
    intros fuel g s w k a w' sg Hcf Hk H. rewrite (sld_continuation_go _ _ _ _ _ Hcf Hk) in H.
    unfold with_go in H.
    destruct (seach (sld kb bf fuel g s w) (fun s1 w1 => drop_sig (k s1 w1 false))) as [[l w1]| |];
      cbn [bind] in H; try discriminate. now inversion H.
  Qed.
End Laws.

(* ---- 6. what the search observes of the world; continuations the resumed search cannot observe ----
   The search reads the id counter and the stop hook of the world and only APPENDS to the output.
   `weq`: two worlds that differ at most in their output.  Started in weq worlds, the streams of a
   goal are similar (`ssim`): same answers, weq worlds, and resumed in weq worlds again similar. *)
Definition weq (w w' : world) : Prop :=
  next_id w = next_id w' /\ stop_flag w = stop_flag w' /\ stop_after w = stop_after w'.

Lemma weq_refl w : weq w w.
Proof. repeat split. Qed.
Lemma weq_sym w w' : weq w w' -> weq w' w.
Proof. intros (H1 & H2 & H3). repeat split; congruence. Qed.
Lemma weq_trans w1 w2 w3 : weq w1 w2 -> weq w2 w3 -> weq w1 w3.
Proof. intros (H1 & H2 & H3) (K1 & K2 & K3). repeat split; congruence. Qed.
Lemma weq_print w w' o o' : weq w w' -> weq (w_print w o) (w_print w' o').
Proof. intros (H1 & H2 & H3). repeat split; assumption. Qed.
Lemma weq_set_id w w' c : weq w w' -> weq (w_set_id w c) (w_set_id w' c).
Proof. intros (H1 & H2 & H3). repeat split; assumption. Qed.

Lemma weq_count_rules kb key w w' : weq w w' ->
  fst (count_rules kb key w) = fst (count_rules kb key w') /\
  weq (snd (count_rules kb key w)) (snd (count_rules kb key w')).
Proof.
  intros Hw. pose proof Hw as (H1 & H2 & H3). unfold count_rules, query_stopped. rewrite <- H1, <- H2, <- H3.
  destruct (stop_after w) as [[|p]|]; cbn [fst snd].
  - split; [reflexivity|]. repeat split.
  - destruct (stop_flag w); cbn [fst snd]; (split; [reflexivity|]); repeat split.
  - destruct (stop_flag w) eqn:Ef; cbn [fst snd]; (split; [reflexivity|]); exact Hw.
Qed.

Fixpoint ssim (a : stream) : stream -> Prop :=
  match a with
  | SNil w => fun b => match b with SNil w' => weq w w' | _ => False end
  | SCons s w r => fun b =>
      match b with
      | SCons s' w' r' => s = s' /\ weq w w' /\ forall v v', weq v v' -> ssim (r v) (r' v')
      | _ => False
      end
  | SPanic => fun b => match b with SPanic => True | _ => False end
  | SOut => fun b => match b with SOut => True | _ => False end
  end.

Lemma ssim_sunit s w w' : weq w w' -> ssim (sunit s w) (sunit s w').
Proof. intro H. unfold sunit. cbn [ssim]. split; [reflexivity|]. split; [exact H|]. intros v v' Hv. exact Hv. Qed.

Lemma ssim_sapp a : forall a' b b', ssim a a' ->
  (forall v v', weq v v' -> ssim (b v) (b' v')) -> ssim (sapp a b) (sapp a' b').
Proof.
  induction a as [w|s w r IH| |]; intros [w'|s' w' r'| |] b b' Ha Hb; cbn [ssim] in Ha; try contradiction;
    cbn [sapp ssim]; try exact I.
  - now apply Hb.
  - destruct Ha as (-> & Hw & Hr). split; [reflexivity|]. split; [exact Hw|].
    intros v v' Hv. apply IH; [now apply Hr|exact Hb].
Qed.

Lemma ssim_sbind a : forall a' f f', ssim a a' ->
  (forall s v v', weq v v' -> ssim (f s v) (f' s v')) -> ssim (sbind a f) (sbind a' f').
Proof.
  induction a as [w|s w r IH| |]; intros [w'|s' w' r'| |] f f' Ha Hf; cbn [ssim] in Ha; try contradiction;
    cbn [sbind ssim]; try exact I.
  - exact Ha.
  - destruct Ha as (-> & Hw & Hr). apply ssim_sapp; [now apply Hf|].
    intros v v' Hv. apply IH; [now apply Hr|exact Hf].
Qed.

Lemma ssim_slift {A} (r : res A) (f f' : A -> stream) :
  (forall x, ssim (f x) (f' x)) -> ssim (slift r f) (slift r f').
Proof. intro H. destruct r; cbn [slift ssim]; [apply H|exact I|exact I]. Qed.

Section Sim.
  Variable kb : kbase.
  Variable bf : nat.

  Lemma sld_weq : forall f,
    (forall g s w w', weq w w' -> ssim (sld kb bf f g s w) (sld kb bf f g s w')) /\
    (forall t s key idx n w w', weq w w' ->
       ssim (sclauses kb bf f t s key idx n w) (sclauses kb bf f t s key idx n w')).
  Proof.
    induction f as [|f [IHs IHc]].
    { split; intros; exact I. }
    split.
    - intros g s w w' Hw. rewrite !sld_S. unfold sld_body.
      destruct g as [op gs|fn ts|t|]; try exact I.
      + destruct op.
        * destruct gs as [|g1 [|g2 rest]]; [exact I|now apply IHs|].
          apply ssim_sbind; [now apply IHs|]. intros s1 v v' Hv. now apply IHs.
        * destruct gs as [|g1 [|g2 rest]]; [exact I|now apply IHs|].
          apply ssim_sapp; [now apply IHs|]. intros v v' Hv. now apply IHs.
        * destruct gs as [|g1 rest]; [exact I|]. pose proof (IHs g1 s w w' Hw) as H1.
          destruct (sld kb bf f g1 s w) as [w1|s1 w1 r| |], (sld kb bf f g1 s w') as [w1'|s1' w1' r'| |];
            cbn [ssim] in H1; try contradiction; try exact I.
          -- cbn [ssim]. now apply weq_print.
          -- destruct H1 as (-> & H1 & _). apply ssim_sunit. now apply weq_print.
        * destruct gs as [|g1 rest]; [exact I|]. pose proof (IHs g1 s w w' Hw) as H1.
          destruct (sld kb bf f g1 s w) as [w1|s1 w1 r| |], (sld kb bf f g1 s w') as [w1'|s1' w1' r'| |];
            cbn [ssim] in H1; try contradiction; try exact I.
          -- now apply ssim_sunit.
          -- destruct H1 as (_ & H1 & _). exact H1.
      + apply ssim_slift. intro rb. destruct (br_sol rb) as [s'|].
        * apply ssim_sunit. now apply weq_print.
        * cbn [ssim]. now apply weq_print.
      + apply ssim_slift. intro key. destruct (weq_count_rules kb key w w' Hw) as [E1 E2].
        destruct (count_rules kb key w) as [n w0], (count_rules kb key w') as [n' w0']. cbn [fst snd] in *.
        subst n'. now apply IHc.
    - intros t s key idx n w w' Hw. rewrite !sclauses_S. unfold sclauses_body.
      destruct (n <=? idx); [exact Hw|]. destruct Hw as (H1 & H2 & H3). rewrite <- H1.
      assert (weq w w') as Hw by (repeat split; assumption).
      apply ssim_slift. intros [rl ctr]. apply ssim_slift. intros [s'|]; [|now apply IHc].
      apply ssim_sapp.
      + destruct (is_gnil (r_body rl)); [apply ssim_sunit|apply IHs]; now apply weq_set_id.
      + intros v v' Hv. now apply IHc.
  Qed.

  (* a continuation whose answers depend on the substitution only (h) and which changes at most the
     output of the world: the answer list is flat_map h over the answers of the goal, the search ends
     in a world that differs from the one `answers` ends in at most in its output *)
  Lemma sfold_quiet (h : subst -> list subst) k :
    (forall s1 w1 a w2 sg, k s1 w1 false = Ok (a, w2, sg) -> a = h s1 /\ weq w1 w2 /\ sg = Go) ->
    forall a a' l w' sg, ssim a a' -> sfold a k = Ok (l, w', sg) ->
    exists l0 w0, slist a' = Ok (l0, w0) /\ l = flat_map h l0 /\ weq w0 w' /\ sg = Go.
  Proof.
    intro Hk. unfold slist.
    induction a as [w|s w r IH| |]; intros [v|s' v r'| |] l w' sg Ha H; cbn [ssim] in Ha; try contradiction;
      cbn [sfold] in H; try discriminate.
    - inversion H; subst. exists [], v. cbn [seach flat_map].
      split; [reflexivity|]. split; [reflexivity|]. split; [now apply weq_sym|reflexivity].
    - destruct Ha as (<- & Hw & Hr). unfold seq in H.
      destruct (k s w false) as [[[a1 w1] sg1]| |] eqn:Ek; cbn [bind] in H; try discriminate.
      destruct (Hk _ _ _ _ _ Ek) as (-> & Hw1 & ->).
      destruct (sfold (r w1) k) as [[[a2 w2] sg2]| |] eqn:E2; cbn [bind] in H; try discriminate.
      inversion H; subst.
      assert (weq w1 v) as Hv by (eapply weq_trans; [apply weq_sym; exact Hw1|exact Hw]).
      destruct (IH w1 (r' v) _ _ _ (Hr _ _ Hv) E2) as (l0 & w0 & E0 & -> & Hw0 & ->).
      exists (s :: l0), w0. cbn [seach bind]. rewrite E0. cbn [bind flat_map app].
      split; [reflexivity|]. split; [reflexivity|]. split; [exact Hw0|reflexivity].
  Qed.
End Sim.

Theorem sld_continuation_quiet : forall kb bf, cutfree_kb kb = true ->
  forall fuel g s w k (h : subst -> list subst) l w' sg, cutfree g = true ->
  (forall s1 w1 a w2 sg1, k s1 w1 false = Ok (a, w2, sg1) -> a = h s1 /\ weq w1 w2 /\ sg1 = Go) ->
  csolve kb bf fuel g s w k = Ok (l, w', sg) ->
  exists l0 w0, answers kb bf fuel g s w = Ok (l0, w0) /\ l = flat_map h l0 /\ weq w0 w' /\ sg = Go.
Proof.
  intros kb bf Hkb fuel g s w k h l w' sg Hcf Hk H.
  rewrite (sld_continuation kb bf Hkb _ _ _ _ _ Hcf) in H. rewrite (answers_sld kb bf Hkb _ _ _ _ Hcf).
  refine (sfold_quiet h k Hk _ _ _ _ _ _ H). apply (proj1 (sld_weq kb bf fuel)). apply weq_refl.
Qed.

(* conjunction, when what stands to the right of g1 is such a goal: the answer LIST of g1 suffices *)
Theorem sld_conjunction_quiet : forall kb bf, cutfree_kb kb = true ->
  forall f g1 g2 rest s w (h : subst -> list subst) l w', cutfree (GOp OAnd (g1 :: g2 :: rest)) = true ->
  (forall s1 w1 a w2, answers kb bf f (GOp OAnd (g2 :: rest)) s1 w1 = Ok (a, w2) -> a = h s1 /\ weq w1 w2) ->
  answers kb bf (S f) (GOp OAnd (g1 :: g2 :: rest)) s w = Ok (l, w') ->
  exists l0 w0, answers kb bf f g1 s w = Ok (l0, w0) /\ l = flat_map h l0 /\ weq w0 w'.
Proof.
  intros kb bf Hkb f g1 g2 rest s w h l w' Hcf Hq H.
  destruct (cutfree_cons _ OAnd _ _ Hcf) as [Hc1 Hc2].
  unfold answers, drop_sig in H.
  destruct (csolve kb bf (S f) (GOp OAnd (g1 :: g2 :: rest)) s w collect) as [[[l1 w1] sg1]| |] eqn:E;
    cbn [bind] in H; try discriminate.
  inversion H; subst. rewrite (sld_conjunction_k kb bf Hkb _ _ _ _ _ _ _ Hcf) in E.
  rewrite <- (sld_continuation kb bf Hkb _ _ _ _ _ Hc1) in E.
  assert (forall s1 w1 a w2 sg2,
            csolve kb bf f (GOp OAnd (g2 :: rest)) s1 w1 collect = Ok (a, w2, sg2) ->
            a = h s1 /\ weq w1 w2 /\ sg2 = Go) as Hk.
  { intros s1 w1 a w2 sg2 E1.
    pose proof (sld_signal_go kb bf Hkb _ _ _ _ _ _ _ _ Hc2 always_go_collect E1) as ->.
    destruct (Hq s1 w1 a w2) as [-> Hw].
    + unfold answers, drop_sig. rewrite E1. reflexivity.
    + auto. }
  destruct (sld_continuation_quiet kb bf Hkb f g1 s w _ h l w' sg1 Hc1 Hk E) as (l0 & w0 & E0 & -> & Hw & _).
  exists l0, w0. auto.
Qed.

(* an instance: a built-in predicate to the right of g1 (print, nl, a comparison, a unification, ..) *)
Definition bip_answers (bf : nat) (fn : str) (ts : option (list term)) (s : subst) : list subst :=
  match run_bip bf fn ts s with
  | Ok r => match br_sol r with Some s' => [s'] | None => [] end
  | _ => []
  end.

Lemma bip_quiet kb bf f fn ts s w a w2 :
  answers kb bf f (GBip fn ts) s w = Ok (a, w2) -> a = bip_answers bf fn ts s /\ weq w w2.
Proof.
  destruct f as [|f]; [discriminate|]. unfold answers, drop_sig, bip_answers. rewrite csolve_S. unfold csolve_body.
  destruct (run_bip bf fn ts s) as [rb| |]; cbn [bind]; try discriminate.
  destruct (br_sol rb) as [s'|]; unfold collect; cbn [bind]; rewrite ?mark_eq; cbn [bind]; intro H; inversion H; subst;
    (split; [reflexivity|]); repeat split.
Qed.

Theorem sld_conjunction_bip : forall kb bf, cutfree_kb kb = true ->
  forall f g1 fn ts s w l w', cutfree (GOp OAnd [g1; GBip fn ts]) = true ->
  answers kb bf (S f) (GOp OAnd [g1; GBip fn ts]) s w = Ok (l, w') ->
  exists l0 w0, answers kb bf f g1 s w = Ok (l0, w0) /\ l = flat_map (bip_answers bf fn ts) l0 /\ weq w0 w'.
Proof.
  intros kb bf Hkb f g1 fn ts s w l w' Hcf H.
  refine (sld_conjunction_quiet kb bf Hkb f g1 (GBip fn ts) [] s w _ l w' Hcf _ H).
  intros s1 w1 a w2 E. destruct f as [|f]; [discriminate|]. exact (bip_quiet kb bf f fn ts s1 w1 a w2 E).
Qed.
