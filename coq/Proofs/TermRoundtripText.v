(* C19 at term level, part 2: the texts.  `good s` collects what the scanning loops of the
   parsers need to know about the text of a term: how it starts and ends, that the scan for
   an arithmetic infix finds nothing, that the forward scan of parse_arguments and the
   backward scan of parse_linked_list cross it without seeing a separator (brackets are
   balanced and commas and bars are inside them), that parentheses are balanced in number.
   Words are good; `f(p1, ..., pn)`, `[p1, ..., pn]` and `[p1, ..., pn | v]` are good when the
   pieces are.  The texts printed for complex terms and for lists are of this form. *)
From Coq Require Import Lia String.
From Suiron Require Import Model.ParseTerm Model.Show Proofs.ParseTermProofs Proofs.ParseRoundtrip.
From Suiron Require Import Proofs.TermRoundtrip.
Open Scope N_scope.

(* ---- the characters of the texts ---- *)
Definition tchar (c : N) : bool :=
  wchar c || (c =? 32) || (c =? c_comma) || (c =? c_bar) ||
  (c =? c_lpar) || (c =? c_rpar) || (c =? c_lbr) || (c =? c_rbr).

Lemma tchar_cases c : tchar c = true ->
  wchar c = true \/ c = 32 \/ c = c_comma \/ c = c_bar \/ c = c_lpar \/ c = c_rpar \/ c = c_lbr \/ c = c_rbr.
Proof.
  unfold tchar. intros H.
  repeat (apply orb_true_iff in H as [H|H]; [|apply N.eqb_eq in H; tauto]). tauto.
Qed.

Lemma wchar_tchar c : wchar c = true -> tchar c = true.
Proof. intros H. unfold tchar. now rewrite H. Qed.

Lemma tchar_not_bslash c : tchar c = true -> (c =? c_bslash) = false.
Proof.
  intros H. apply tchar_cases in H.
  destruct H as [H|[->|[->|[->|[->|[->|[->| ->]]]]]]]; try reflexivity.
  apply wchar_range in H. char_neq.
Qed.

Lemma tchar_not_dquote c : tchar c = true -> (c =? c_dquote) = false.
Proof.
  intros H. apply tchar_cases in H.
  destruct H as [H|[->|[->|[->|[->|[->|[->| ->]]]]]]]; try reflexivity.
  apply wchar_range in H. char_neq.
Qed.

(* ---- the forward scan (parse_arguments) ---- *)
(* the scan crosses s at any depth / at any depth but the top one *)
Definition pa_abs (s : str) : Prop := forall rest nq rd sd, (0 <= rd)%Z -> (0 <= sd)%Z ->
  pa_scan (s ++ rest) false nq rd sd = pa_scan rest false nq rd sd.
Definition pa_in (s : str) : Prop := forall rest nq rd sd, (0 <= rd)%Z -> (0 <= sd)%Z ->
  (0 < rd \/ 0 < sd)%Z ->
  pa_scan (s ++ rest) false nq rd sd = pa_scan rest false nq rd sd.

Lemma pa_abs_in s : pa_abs s -> pa_in s.
Proof. intros H rest nq rd sd H1 H2 _. now apply H. Qed.

Lemma pa_in_nil : pa_in [].
Proof. intros rest nq rd sd _ _ _. reflexivity. Qed.

Lemma pa_in_app a b : pa_in a -> pa_in b -> pa_in (a ++ b).
Proof.
  intros Ha Hb rest nq rd sd H1 H2 H3. rewrite <- app_assoc.
  rewrite Ha by assumption. now apply Hb.
Qed.

Lemma pa_abs_app a b : pa_abs a -> pa_abs b -> pa_abs (a ++ b).
Proof.
  intros Ha Hb rest nq rd sd H1 H2. rewrite <- app_assoc.
  rewrite Ha by assumption. now apply Hb.
Qed.

Lemma depth_test rd sd : (0 <= rd)%Z -> (0 <= sd)%Z -> (0 < rd \/ 0 < sd)%Z ->
  ((rd =? 0) && (sd =? 0))%Z = false.
Proof.
  intros H1 H2 [H|H].
  - assert (E : (rd =? 0)%Z = false) by (apply Z.eqb_neq; lia). now rewrite E.
  - assert (E : (sd =? 0)%Z = false) by (apply Z.eqb_neq; lia). rewrite E. apply andb_false_r.
Qed.

(* a character that is not a bracket, below the top *)
Lemma pa_in_char c :
  (c =? c_lbr) = false -> (c =? c_rbr) = false -> (c =? c_lpar) = false -> (c =? c_rpar) = false ->
  pa_in [c].
Proof.
  intros E1 E2 E3 E4 rest nq rd sd H1 H2 H3. cbn [app pa_scan].
  rewrite E1, E2, E3, E4. now rewrite depth_test.
Qed.

Lemma pa_in_sep_comma : pa_in sep_comma.
Proof. apply (pa_in_app [44] [32]); apply pa_in_char; reflexivity. Qed.

Lemma pa_in_sep_bar : pa_in sep_bar.
Proof.
  apply (pa_in_app [32] [124; 32]); [apply pa_in_char; reflexivity|].
  apply (pa_in_app [124] [32]); apply pa_in_char; reflexivity.
Qed.

Lemma pa_abs_wchars w : Forall (fun c => wchar c = true) w -> pa_abs w.
Proof.
  induction w as [|c w IH]; intros H rest nq rd sd H1 H2; [reflexivity|].
  inversion H as [|x l Hc Hw]; subst. cbn [app pa_scan].
  apply wchar_range in Hc.
  assert (E1 : (c =? c_lbr) = false) by char_neq.
  assert (E2 : (c =? c_rbr) = false) by char_neq.
  assert (E3 : (c =? c_lpar) = false) by char_neq.
  assert (E4 : (c =? c_rpar) = false) by char_neq.
  assert (E5 : (c =? c_comma) = false) by char_neq.
  assert (E6 : (c =? c_bslash) = false) by char_neq.
  assert (E7 : (c =? c_dquote) = false) by char_neq.
  rewrite E1, E2, E3, E4, E5, E6, E7.
  destruct ((rd =? 0)%Z && (sd =? 0)%Z); now apply IH.
Qed.

(* ( body ) and [ body ] *)
Lemma pa_abs_parens body : pa_in body -> pa_abs (c_lpar :: body ++ [c_rpar]).
Proof.
  intros Hb rest nq rd sd H1 H2. cbn [app pa_scan].
  change (c_lpar =? c_lbr) with false. change (c_lpar =? c_rbr) with false.
  change (c_lpar =? c_lpar) with true. cbv iota.
  rewrite <- app_assoc. rewrite Hb by lia. cbn [app pa_scan].
  change (c_rpar =? c_lbr) with false. change (c_rpar =? c_rbr) with false.
  change (c_rpar =? c_lpar) with false. change (c_rpar =? c_rpar) with true. cbv iota.
  replace (rd + 1 - 1)%Z with rd by lia. reflexivity.
Qed.

Lemma pa_abs_brackets body : pa_in body -> pa_abs (c_lbr :: body ++ [c_rbr]).
Proof.
  intros Hb rest nq rd sd H1 H2. cbn [app pa_scan].
  change (c_lbr =? c_lbr) with true. cbv iota.
  rewrite <- app_assoc. rewrite Hb by lia. cbn [app pa_scan].
  change (c_rbr =? c_lbr) with false. change (c_rbr =? c_rbr) with true. cbv iota.
  replace (sd + 1 - 1)%Z with sd by lia. reflexivity.
Qed.

(* ---- the backward scan (parse_linked_list), on the reversed text ---- *)
Fixpoint bscan (r : str) (rd sd : Z) : option (Z * Z) :=
  match r with
  | [] => Some (rd, sd)
  | c :: tl =>
      if c =? c_rbr then bscan tl rd (sd + 1)%Z
      else if c =? c_lbr then bscan tl rd (sd - 1)%Z
      else if c =? c_rpar then bscan tl (rd + 1)%Z sd
      else if c =? c_lpar then bscan tl (rd - 1)%Z sd
      else if ((rd =? 0) && (sd =? 0))%Z then
        if c =? c_dquote then None
        else if c =? c_comma then None
        else if c =? c_bar then None
        else bscan tl rd sd
      else bscan tl rd sd
  end.

Definition b_abs (s : str) : Prop := forall r rd sd, (0 <= rd)%Z -> (0 <= sd)%Z ->
  bscan (rev s ++ r) rd sd = bscan r rd sd.
Definition b_in (s : str) : Prop := forall r rd sd, (0 <= rd)%Z -> (0 <= sd)%Z ->
  (0 < rd \/ 0 < sd)%Z ->
  bscan (rev s ++ r) rd sd = bscan r rd sd.

Lemma b_abs_in s : b_abs s -> b_in s.
Proof. intros H r rd sd H1 H2 _. now apply H. Qed.

Lemma b_in_nil : b_in [].
Proof. intros r rd sd _ _ _. reflexivity. Qed.

Lemma b_in_app a b : b_in a -> b_in b -> b_in (a ++ b).
Proof.
  intros Ha Hb r rd sd H1 H2 H3. rewrite rev_app_distr, <- app_assoc.
  rewrite Hb by assumption. now apply Ha.
Qed.

Lemma b_abs_app a b : b_abs a -> b_abs b -> b_abs (a ++ b).
Proof.
  intros Ha Hb r rd sd H1 H2. rewrite rev_app_distr, <- app_assoc.
  rewrite Hb by assumption. now apply Ha.
Qed.

Lemma b_in_char c :
  (c =? c_lbr) = false -> (c =? c_rbr) = false -> (c =? c_lpar) = false -> (c =? c_rpar) = false ->
  b_in [c].
Proof.
  intros E1 E2 E3 E4 r rd sd H1 H2 H3. cbn [rev app bscan].
  rewrite E1, E2, E3, E4. now rewrite depth_test.
Qed.

Lemma b_in_sep_comma : b_in sep_comma.
Proof. apply (b_in_app [44] [32]); apply b_in_char; reflexivity. Qed.

Lemma b_in_sep_bar : b_in sep_bar.
Proof.
  apply (b_in_app [32] [124; 32]); [apply b_in_char; reflexivity|].
  apply (b_in_app [124] [32]); apply b_in_char; reflexivity.
Qed.

Lemma b_abs_char c : wchar c = true -> b_abs [c].
Proof.
  intros Hc r rd sd H1 H2. cbn [rev app bscan].
  apply wchar_range in Hc.
  assert (E1 : (c =? c_lbr) = false) by char_neq.
  assert (E2 : (c =? c_rbr) = false) by char_neq.
  assert (E3 : (c =? c_lpar) = false) by char_neq.
  assert (E4 : (c =? c_rpar) = false) by char_neq.
  assert (E5 : (c =? c_comma) = false) by char_neq.
  assert (E6 : (c =? c_bar) = false) by char_neq.
  assert (E7 : (c =? c_dquote) = false) by char_neq.
  rewrite E1, E2, E3, E4, E5, E6, E7.
  destruct ((rd =? 0)%Z && (sd =? 0)%Z); reflexivity.
Qed.

Lemma b_abs_wchars w : Forall (fun c => wchar c = true) w -> b_abs w.
Proof.
  induction w as [|c w IH]; intros H; [intros r rd sd _ _; reflexivity|].
  inversion H as [|x l Hc Hw]; subst.
  apply (b_abs_app [c] w); [now apply b_abs_char|now apply IH].
Qed.

Lemma b_abs_parens body : b_in body -> b_abs (c_lpar :: body ++ [c_rpar]).
Proof.
  intros Hb r rd sd H1 H2.
  change (c_lpar :: body ++ [c_rpar]) with ([c_lpar] ++ body ++ [c_rpar]).
  rewrite !rev_app_distr. cbn [rev app]. rewrite <- app_assoc. cbn [app bscan].
  change (c_rpar =? c_rbr) with false. change (c_rpar =? c_lbr) with false.
  change (c_rpar =? c_rpar) with true. cbv iota.
  rewrite Hb by lia. cbn [bscan].
  change (c_lpar =? c_rbr) with false. change (c_lpar =? c_lbr) with false.
  change (c_lpar =? c_rpar) with false. change (c_lpar =? c_lpar) with true. cbv iota.
  replace (rd + 1 - 1)%Z with rd by lia. reflexivity.
Qed.

Lemma b_abs_brackets body : b_in body -> b_abs (c_lbr :: body ++ [c_rbr]).
Proof.
  intros Hb r rd sd H1 H2.
  change (c_lbr :: body ++ [c_rbr]) with ([c_lbr] ++ body ++ [c_rbr]).
  rewrite !rev_app_distr. cbn [rev app]. rewrite <- app_assoc. cbn [app bscan].
  change (c_rbr =? c_rbr) with true. cbv iota.
  rewrite Hb by lia. cbn [bscan].
  change (c_lbr =? c_rbr) with false. change (c_lbr =? c_lbr) with true. cbv iota.
  replace (sd + 1 - 1)%Z with sd by lia. reflexivity.
Qed.

(* ---- counting a character ---- *)
Lemma count_c_app c a b : count_c c (a ++ b) = count_c c a + count_c c b.
Proof. induction a as [|x a IH]; cbn [app count_c]; [reflexivity|]. rewrite IH. lia. Qed.

Lemma count_c_wchars c w : wchar c = false -> Forall (fun c => wchar c = true) w -> count_c c w = 0.
Proof.
  intros Hc. induction w as [|x w IH]; intros H; [reflexivity|].
  inversion H as [|y l Hx Hw]; subst. cbn [count_c]. rewrite (IH Hw).
  destruct (x =? c) eqn:E; [|reflexivity]. apply N.eqb_eq in E. subst x. congruence.
Qed.

(* ---- good texts ---- *)
Record good (s : str) : Prop := mkGood {
  g_ne : s <> [];
  g_hdw : is_white (hd 0 s) = false;
  g_lastw : is_white (last s 0) = false;
  g_lastc : last s 0 <> c_comma;
  g_lastm : last s 0 <> c_minus;
  g_chars : Forall (fun c => tchar c = true) s;
  g_cs : forall p, cs p s = true;
  g_pa : pa_abs s;
  g_bal : count_c c_lpar s = count_c c_rpar s;
  g_b : b_abs s }.

Lemma good_word w : word w -> good w.
Proof.
  intros Hw. pose proof Hw as (Hne & Hall & Hm).
  constructor.
  - exact Hne.
  - apply wchar_not_white. now apply word_hd.
  - apply wchar_not_white. now apply word_last.
  - pose proof (word_last w Hw) as H. apply wchar_range in H. unfold c_comma. lia.
  - exact Hm.
  - eapply Forall_impl; [|exact Hall]. intros c Hc. now apply wchar_tchar.
  - intros p. now apply cs_wchars.
  - now apply pa_abs_wchars.
  - rewrite !count_c_wchars by (reflexivity || assumption). reflexivity.
  - now apply b_abs_wchars.
Qed.

Lemma good_trimmed s : good s -> trim s = s.
Proof. intros H. apply trimmed_trim. right. split; [apply (g_hdw s H)|apply (g_lastw s H)]. Qed.

Lemma good_hd_tchar s : good s -> tchar (hd 0 s) = true.
Proof.
  intros H. pose proof (g_ne s H) as Hne. pose proof (g_chars s H) as Hc.
  destruct s; [now elim Hne|]. now inversion Hc.
Qed.

(* ---- sequences of good pieces ---- *)
(* what holds of the text between brackets *)
Record inner (s : str) : Prop := mkInner {
  i_chars : Forall (fun c => tchar c = true) s;
  i_cs : forall p, p <> c_minus -> cs p s = true;
  i_lastm : forall d, d <> c_minus -> last s d <> c_minus;
  i_pa : pa_in s;
  i_bal : count_c c_lpar s = count_c c_rpar s;
  i_b : b_in s }.

Lemma last_default_ne {A} (l : list A) d d' : l <> [] -> last l d = last l d'.
Proof. apply last_default. Qed.

Lemma inner_nil : inner [].
Proof.
  constructor; try reflexivity.
  - constructor.
  - intros d Hd. exact Hd.
  - apply pa_in_nil.
  - apply b_in_nil.
Qed.

Lemma inner_good s : good s -> inner s.
Proof.
  intros H. constructor.
  - apply (g_chars s H).
  - intros p _. apply (g_cs s H).
  - intros d _. rewrite (last_default s d 0) by apply (g_ne s H). apply (g_lastm s H).
  - apply pa_abs_in, (g_pa s H).
  - apply (g_bal s H).
  - apply b_abs_in, (g_b s H).
Qed.

Lemma last_app_any {A} (a b : list A) d : last (a ++ b) d = last b (last a d).
Proof.
  revert d. induction a as [|x a IH]; intros d; [reflexivity|].
  destruct a as [|y a'].
  - cbn [app]. destruct b as [|z b']; [reflexivity|].
    change (last (x :: z :: b') d) with (last (z :: b') d). apply last_default. discriminate.
  - change ((x :: y :: a') ++ b) with (x :: (y :: a') ++ b).
    change (last (x :: (y :: a') ++ b) d) with (last ((y :: a') ++ b) d).
    rewrite IH. reflexivity.
Qed.

Lemma inner_app a b : inner a -> inner b -> inner (a ++ b).
Proof.
  intros Ha Hb. constructor.
  - apply Forall_app. split; [apply (i_chars a Ha)|apply (i_chars b Hb)].
  - intros p Hp. rewrite cs_app. rewrite (i_cs a Ha p Hp). cbn [andb].
    apply (i_cs b Hb). now apply (i_lastm a Ha).
  - intros d Hd. rewrite last_app_any. apply (i_lastm b Hb). now apply (i_lastm a Ha).
  - apply pa_in_app; [apply (i_pa a Ha)|apply (i_pa b Hb)].
  - rewrite !count_c_app. rewrite (i_bal a Ha), (i_bal b Hb). reflexivity.
  - apply b_in_app; [apply (i_b a Ha)|apply (i_b b Hb)].
Qed.

Lemma inner_sep_comma : inner sep_comma.
Proof.
  constructor.
  - repeat constructor.
  - intros p Hp. cbn [sep_comma cs].
    change (44 =? c_plus) with false. change (44 =? c_star) with false. change (44 =? c_slash) with false.
    change (44 =? 32) with false. change (32 =? c_plus) with false. change (32 =? c_star) with false.
    change (32 =? c_slash) with false. change (44 =? c_minus) with false.
    rewrite andb_false_r. reflexivity.
  - intros d _. cbn. discriminate.
  - apply pa_in_sep_comma.
  - reflexivity.
  - apply b_in_sep_comma.
Qed.

Lemma inner_sep_bar : inner sep_bar.
Proof.
  constructor.
  - repeat constructor.
  - intros p Hp. cbn [sep_bar cs].
    change (32 =? c_plus) with false. change (32 =? c_star) with false. change (32 =? c_slash) with false.
    change (124 =? c_plus) with false. change (124 =? c_star) with false. change (124 =? c_slash) with false.
    change (124 =? 32) with false. change (124 =? c_minus) with false. change (32 =? c_minus) with false.
    change (32 =? 32) with true.
    apply N.eqb_neq in Hp. rewrite Hp. reflexivity.
  - intros d _. cbn. discriminate.
  - apply pa_in_sep_bar.
  - reflexivity.
  - apply b_in_sep_bar.
Qed.

Lemma join_strs_cons2 sep p q rest :
  join_strs sep (p :: q :: rest) = p ++ sep ++ join_strs sep (q :: rest).
Proof. reflexivity. Qed.

Lemma inner_join ps : Forall good ps -> inner (join_strs sep_comma ps).
Proof.
  induction ps as [|p ps IH]; intros H; [apply inner_nil|].
  inversion H as [|x l Hp Hps]; subst.
  destruct ps as [|q rest]; [cbn [join_strs]; now apply inner_good|].
  rewrite join_strs_cons2. apply inner_app; [now apply inner_good|].
  apply inner_app; [apply inner_sep_comma|now apply IH].
Qed.

(* ---- f(body), [body] ---- *)
Definition call_text (f : str) (ps : list str) : str :=
  f ++ c_lpar :: join_strs sep_comma ps ++ [c_rpar].
Definition list_text (ps : list str) : str := c_lbr :: join_strs sep_comma ps ++ [c_rbr].
Definition list_text_bar (ps : list str) (v : str) : str :=
  c_lbr :: (join_strs sep_comma ps ++ sep_bar ++ v) ++ [c_rbr].

Lemma last_snoc {A} (l : list A) x d : last (l ++ [x]) d = x.
Proof. apply last_last. Qed.

Lemma cs_single p c :
  (c =? c_plus) = false -> (c =? c_star) = false -> (c =? c_slash) = false -> (c =? 32) = false ->
  cs p [c] = true.
Proof. intros E1 E2 E3 E4. cbn [cs]. rewrite E1, E2, E3, E4. now rewrite andb_false_r. Qed.

Lemma good_enclosed (pre : str) (o c : N) (body : str) :
  (o = c_lpar /\ c = c_rpar) \/ (o = c_lbr /\ c = c_rbr) ->
  (pre = [] \/ (good pre /\ Forall (fun c => wchar c = true) pre)) ->
  (pre = [] -> o = c_lbr) ->
  inner body ->
  good (pre ++ o :: body ++ [c]).
Proof.
  intros Hoc Hpre Hpo Hb.
  assert (Ho : (o =? c_plus) = false /\ (o =? c_star) = false /\ (o =? c_slash) = false /\
               (o =? 32) = false /\ is_white o = false /\ tchar o = true /\ o <> c_minus).
  { destruct Hoc as [[-> _]|[-> _]]; repeat split; discriminate. }
  assert (Hc : (c =? c_plus) = false /\ (c =? c_star) = false /\ (c =? c_slash) = false /\
               (c =? 32) = false /\ is_white c = false /\ tchar c = true /\ c <> c_minus /\ c <> c_comma).
  { destruct Hoc as [[_ ->]|[_ ->]]; repeat split; discriminate. }
  destruct Ho as (Ho1 & Ho2 & Ho3 & Ho4 & Ho5 & Ho6 & Ho7).
  destruct Hc as (Hc1 & Hc2 & Hc3 & Hc4 & Hc5 & Hc6 & Hc7 & Hc8).
  assert (Hlast : last (pre ++ o :: body ++ [c]) 0 = c).
  { replace (pre ++ o :: body ++ [c]) with ((pre ++ o :: body) ++ [c]) by (now rewrite <- app_assoc).
    apply last_last. }
  assert (Hob : forall p, cs p (o :: body ++ [c]) = true).
  { intros p. change (o :: body ++ [c]) with ([o] ++ body ++ [c]).
    rewrite cs_app, cs_app. rewrite (cs_single p o) by assumption. cbn [last andb].
    rewrite (i_cs body Hb o Ho7). cbn [andb]. now apply cs_single. }
  assert (Hpa : pa_abs (o :: body ++ [c])).
  { destruct Hoc as [[-> ->]|[-> ->]]; [apply pa_abs_parens|apply pa_abs_brackets]; apply (i_pa body Hb). }
  assert (Hbb : b_abs (o :: body ++ [c])).
  { destruct Hoc as [[-> ->]|[-> ->]]; [apply b_abs_parens|apply b_abs_brackets]; apply (i_b body Hb). }
  assert (Hbal : count_c c_lpar (o :: body ++ [c]) = count_c c_rpar (o :: body ++ [c])).
  { change (o :: body ++ [c]) with ([o] ++ body ++ [c]). rewrite !count_c_app.
    rewrite (i_bal body Hb). destruct Hoc as [[-> ->]|[-> ->]]; vm_compute (count_c _ [_]); lia. }
  assert (Hch : Forall (fun c => tchar c = true) (o :: body ++ [c])).
  { constructor; [exact Ho6|]. apply Forall_app. split; [apply (i_chars body Hb)|].
    constructor; [exact Hc6|constructor]. }
  constructor.
  - destruct pre; discriminate.
  - destruct Hpre as [->|[Hg _]]; [exact Ho5|].
    pose proof (g_ne pre Hg) as Hne. pose proof (g_hdw pre Hg) as Hh.
    destruct pre; [now elim Hne|exact Hh].
  - now rewrite Hlast.
  - now rewrite Hlast.
  - now rewrite Hlast.
  - apply Forall_app. split; [|exact Hch].
    destruct Hpre as [->|[Hg _]]; [constructor|apply (g_chars pre Hg)].
  - intros p. rewrite cs_app. rewrite Hob. rewrite andb_true_r.
    destruct Hpre as [->|[Hg _]]; [reflexivity|apply (g_cs pre Hg)].
  - apply pa_abs_app; [|exact Hpa].
    destruct Hpre as [->|[Hg _]]; [intros rest nq rd sd _ _; reflexivity|apply (g_pa pre Hg)].
  - rewrite !count_c_app, Hbal.
    destruct Hpre as [->|[Hg Hw]]; [reflexivity|].
    rewrite !(count_c_wchars _ pre) by (reflexivity || assumption). reflexivity.
  - apply b_abs_app; [|exact Hbb].
    destruct Hpre as [->|[Hg _]]; [intros r rd sd _ _; reflexivity|apply (g_b pre Hg)].
Qed.

Lemma good_call f ps : word f -> Forall good ps -> good (call_text f ps).
Proof.
  intros Hf Hps. unfold call_text.
  apply (good_enclosed f c_lpar c_rpar); [now left| |intros ->; now destruct Hf as [Hne _]|now apply inner_join].
  right. split; [now apply good_word|apply Hf].
Qed.

Lemma good_list ps : Forall good ps -> good (list_text ps).
Proof.
  intros Hps. unfold list_text.
  apply (good_enclosed [] c_lbr c_rbr); [now right|now left|reflexivity|now apply inner_join].
Qed.

Lemma good_list_bar ps v : Forall good ps -> good v -> good (list_text_bar ps v).
Proof.
  intros Hps Hv. unfold list_text_bar.
  apply (good_enclosed [] c_lbr c_rbr); [now right|now left|reflexivity|].
  apply inner_app; [now apply inner_join|]. apply inner_app; [apply inner_sep_bar|now apply inner_good].
Qed.

(* ---- the printed texts are of this form ---- *)
Fixpoint show_args (first : bool) (l : list term) : str :=
  match l with
  | [] => []
  | x :: l' => (if first then [] else sep_comma) ++ show_term x ++ show_args false l'
  end.

Lemma show_complex f rest :
  show_term (TComplex (f :: rest)) = show_term f ++ 40 :: show_args true rest ++ [41].
Proof. reflexivity. Qed.

Lemma show_args_false l : l <> [] ->
  show_args false l = sep_comma ++ join_strs sep_comma (map show_term l).
Proof.
  induction l as [|x l IH]; intros Hne; [now elim Hne|].
  cbn [show_args map]. destruct l as [|y l'].
  - cbn [show_args map join_strs]. now rewrite app_nil_r.
  - rewrite IH by discriminate. cbn [map]. rewrite join_strs_cons2. reflexivity.
Qed.

Lemma show_args_true l : show_args true l = join_strs sep_comma (map show_term l).
Proof.
  destruct l as [|x l]; [reflexivity|]. cbn [show_args map app].
  destruct l as [|y l'].
  - cbn [show_args map join_strs]. now rewrite app_nil_r.
  - rewrite show_args_false by discriminate. cbn [map]. rewrite join_strs_cons2. reflexivity.
Qed.

Lemma show_complex_text f ts :
  show_term (TComplex (TAtom f :: ts)) = call_text f (map show_term ts).
Proof. rewrite show_complex, show_args_true. reflexivity. Qed.

(* lists: the nodes after the first *)
Fixpoint show_items (n : term) : str :=
  match n with
  | TList a2 n2 _ tv2 =>
      if is_nil a2 then []
      else (if tv2 then sep_bar else sep_comma) ++ show_term a2 ++ show_items n2
  | _ => []
  end.

Lemma show_list a nx c tv :
  show_term (TList a nx c tv) =
  91 :: (if is_nil a then [] else show_term a ++ show_items nx) ++ [93].
Proof. reflexivity. Qed.

(* a list of the given elements, in the shape parse_linked_list builds; `last` is the node
   after the last element: the empty list, or the node of a tail variable *)
Definition list_nodes (ts : list term) (last : term) : term :=
  fold_right (fun t l => TList t l (node_count l + 1) false) last ts.
Definition tail_node (v : term) : term := TList v empty_list 1 true.

Lemma make_list_of_terms_nodes ts : make_list_of_terms ts = list_nodes ts empty_list.
Proof. reflexivity. Qed.

Definition non_nil_terms (ts : list term) : Prop := Forall (fun t => is_nil t = false) ts.

Lemma show_items_nodes ts last : non_nil_terms ts -> ts <> [] ->
  show_items (list_nodes ts last) =
  sep_comma ++ join_strs sep_comma (map show_term ts) ++ show_items last.
Proof.
  induction ts as [|x ts IH]; intros Hn Hne; [now elim Hne|].
  inversion Hn as [|y l Hx Hts]; subst.
  cbn [list_nodes fold_right show_items]. fold (list_nodes ts last). rewrite Hx.
  destruct ts as [|y ts'].
  - cbn [list_nodes fold_right map join_strs]. reflexivity.
  - rewrite IH by (assumption || discriminate). cbn [map]. rewrite join_strs_cons2.
    rewrite <- !app_assoc. reflexivity.
Qed.

Lemma show_list_nodes ts last : non_nil_terms ts -> ts <> [] ->
  show_term (list_nodes ts last) =
  c_lbr :: (join_strs sep_comma (map show_term ts) ++ show_items last) ++ [c_rbr].
Proof.
  intros Hn Hne. destruct ts as [|x ts]; [now elim Hne|].
  inversion Hn as [|y l Hx Hts]; subst.
  cbn [list_nodes fold_right]. fold (list_nodes ts last). rewrite show_list, Hx.
  destruct ts as [|y ts'].
  - cbn [list_nodes fold_right map join_strs]. reflexivity.
  - rewrite show_items_nodes by (assumption || discriminate). cbn [map].
    rewrite join_strs_cons2. rewrite <- !app_assoc. reflexivity.
Qed.

Lemma show_list_plain ts : non_nil_terms ts ->
  show_term (make_list_of_terms ts) = list_text (map show_term ts).
Proof.
  intros Hn. rewrite make_list_of_terms_nodes. destruct ts as [|x ts]; [reflexivity|].
  rewrite show_list_nodes by (assumption || discriminate).
  cbn [show_items empty_list is_nil]. now rewrite app_nil_r.
Qed.

Lemma show_list_tail ts v : non_nil_terms ts -> ts <> [] -> is_nil v = false ->
  show_term (list_nodes ts (tail_node v)) = list_text_bar (map show_term ts) (show_term v).
Proof.
  intros Hn Hne Hv. rewrite show_list_nodes by assumption.
  cbn [tail_node show_items]. rewrite Hv. cbn [show_items empty_list is_nil].
  now rewrite app_nil_r.
Qed.

(* ---- wider atoms (identifier characters and inner blanks) are good texts ---- *)
Lemma achar_tchar c : achar c = true -> tchar c = true.
Proof.
  unfold achar. intros H. apply orb_true_iff in H as [H|H].
  - apply wchar_tchar. now apply ident_wchar.
  - apply N.eqb_eq in H. subst c. reflexivity.
Qed.

Lemma pa_abs_achars w : Forall (fun c => achar c = true) w -> pa_abs w.
Proof.
  induction w as [|c w IH]; intros H rest nq rd sd H1 H2; [reflexivity|].
  inversion H as [|x l Hc Hw]; subst. cbn [app pa_scan].
  apply achar_range in Hc.
  assert (E1 : (c =? c_lbr) = false) by char_neq.
  assert (E2 : (c =? c_rbr) = false) by char_neq.
  assert (E3 : (c =? c_lpar) = false) by char_neq.
  assert (E4 : (c =? c_rpar) = false) by char_neq.
  assert (E5 : (c =? c_comma) = false) by char_neq.
  assert (E6 : (c =? c_bslash) = false) by char_neq.
  assert (E7 : (c =? c_dquote) = false) by char_neq.
  rewrite E1, E2, E3, E4, E5, E6, E7.
  destruct ((rd =? 0)%Z && (sd =? 0)%Z); now apply IH.
Qed.

Lemma b_abs_achar c : achar c = true -> b_abs [c].
Proof.
  intros Hc r rd sd H1 H2. cbn [rev app bscan].
  apply achar_range in Hc.
  assert (E1 : (c =? c_lbr) = false) by char_neq.
  assert (E2 : (c =? c_rbr) = false) by char_neq.
  assert (E3 : (c =? c_lpar) = false) by char_neq.
  assert (E4 : (c =? c_rpar) = false) by char_neq.
  assert (E5 : (c =? c_comma) = false) by char_neq.
  assert (E6 : (c =? c_bar) = false) by char_neq.
  assert (E7 : (c =? c_dquote) = false) by char_neq.
  rewrite E1, E2, E3, E4, E5, E6, E7.
  destruct ((rd =? 0)%Z && (sd =? 0)%Z); reflexivity.
Qed.

Lemma b_abs_achars w : Forall (fun c => achar c = true) w -> b_abs w.
Proof.
  induction w as [|c w IH]; intros H; [intros r rd sd _ _; reflexivity|].
  inversion H as [|x l Hc Hw]; subst.
  apply (b_abs_app [c] w); [now apply b_abs_achar|now apply IH].
Qed.

Lemma count_c_achars c w : achar c = false -> Forall (fun c => achar c = true) w -> count_c c w = 0.
Proof.
  intros Hc. induction w as [|x w IH]; intros H; [reflexivity|].
  inversion H as [|y l Hx Hw]; subst. cbn [count_c]. rewrite (IH Hw).
  destruct (x =? c) eqn:E; [|reflexivity]. apply N.eqb_eq in E. subst x. congruence.
Qed.

Lemma good_wide_atom s : wide_atom s = true -> good s.
Proof.
  intros Hs. destruct (wide_atom_facts s Hs) as (Hne & Hh & Hall & Hl & _).
  constructor.
  - exact Hne.
  - apply wchar_not_white. now apply ident_wchar.
  - apply wchar_not_white. now apply ident_wchar.
  - apply ident_char_range in Hl. unfold c_comma. lia.
  - apply ident_char_range in Hl. unfold c_minus. lia.
  - eapply Forall_impl; [|exact Hall]. intros c Hc. now apply achar_tchar.
  - now apply cs_wide.
  - now apply pa_abs_achars.
  - rewrite !count_c_achars by (reflexivity || assumption). reflexivity.
  - now apply b_abs_achars.
Qed.
