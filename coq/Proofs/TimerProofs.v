(* C23, the timer protocol: for EVERY interleaving of the main thread's operations with the
   firings of any timers ever started (late, cancelled, superseded), the stop-query flag of a
   query is raised only by stop_query() or by the time-out of THAT query's own timer while the
   query is still running; it then stays raised until the next query starts. *)
From Coq Require Import List NArith Bool Lia.
From Suiron Require Import Model.Timer.
Import ListNotations.
Open Scope N_scope.

Lemma tstatus_eqb_eq a b : tstatus_eqb a b = true <-> a = b.
Proof. destruct a, b; simpl; split; intro H; try reflexivity; discriminate. Qed.
Lemma tstate_eqb_eq a b : tstate_eqb a b = true <-> a = b.
Proof.
  destruct a as [g1 s1], b as [g2 s2]. unfold tstate_eqb. cbn [tgen tstat]. rewrite andb_true_iff, N.eqb_eq, tstatus_eqb_eq.
  split; [intros [-> ->]; reflexivity|intro H; inversion H; auto].
Qed.

(* ---- invariant of reachable states: the remembered states are Running states of pairwise
        different queries, none newer than the current one ---- *)
Definition tinv (s : tsys) : Prop :=
  Forall (fun m => tgen m <= tgen (cur s) /\ tstat m = Running) (started s) /\
  NoDup (map tgen (started s)).

Lemma nodup_snoc {A} (l : list A) x : NoDup l -> ~ In x l -> NoDup (l ++ [x]).
Proof.
  induction l as [|a l IH]; intros Hn Hx; cbn [app]; [constructor; [intros []|constructor]|].
  inversion Hn as [|? ? Ha Hl]; subst. constructor.
  - intro Hin. apply in_app_or in Hin as [Hin|[->|[]]]; [contradiction|]. apply Hx. now left.
  - apply IH; [exact Hl|]. intro Hin. apply Hx. now right.
Qed.

Lemma tinv_init : tinv tinit.
Proof. split; constructor. Qed.

Lemma tinv_step s o : tinv s -> tinv (tstep s o).
Proof.
  intros [Hf Hn]. destruct o; cbn [tstep].
  - (* start *)
    split; cbn [cur started next_query tgen tstat].
    + apply Forall_app. split.
      * eapply Forall_impl; [|exact Hf]. cbn. intros m [H1 H2]. split; [lia|exact H2].
      * constructor; [cbn [next_query tgen tstat]; split; [lia|reflexivity]|constructor].
    + rewrite map_app. cbn [map tgen]. apply nodup_snoc; [exact Hn|].
      intro Hin. apply in_map_iff in Hin as (m & Hm & Hi). rewrite Forall_forall in Hf.
      destruct (Hf m Hi) as [Hle _]. cbn [next_query tgen] in Hm. lia.
  - split; cbn [cur started next_query tgen]; [|exact Hn].
    eapply Forall_impl; [|exact Hf]. cbn. intros m [H1 H2]. split; [lia|exact H2].
  - destruct (nth_error (started s) k) as [m|] eqn:E; [|split; assumption].
    destruct (tstate_eqb (cur s) m) eqn:Eq; [|split; assumption].
    apply tstate_eqb_eq in Eq. subst m. split; cbn [cur started tgen]; assumption.
  - destruct (tstat (cur s)); split; cbn [cur started tgen]; assumption.
  - split; cbn [cur started tgen]; assumption.
  - split; assumption.
Qed.

Theorem tinv_reachable ops : tinv (trun ops).
Proof.
  unfold trun. assert (forall s, tinv s -> tinv (fold_left tstep ops s)) as H.
  { induction ops as [|o r IH]; intros s Hs; [exact Hs|]. cbn [fold_left]. apply IH. now apply tinv_step. }
  apply H, tinv_init.
Qed.

(* ---- what a firing timer can do ---- *)

(* a time-out changes the state only if the timer's remembered state IS the current state: its own
   query is the current one and still running *)
Theorem fire_needs_current s k : tinv s -> tstep s (TFire k) <> s ->
  nth_error (started s) k = Some (cur s) /\ tstat (cur s) = Running.
Proof.
  intros [Hf _] H. cbn [tstep] in H. destruct (nth_error (started s) k) as [m|] eqn:E; [|contradiction].
  destruct (tstate_eqb (cur s) m) eqn:Eq; [|contradiction].
  apply tstate_eqb_eq in Eq. subst m. split; [reflexivity|].
  rewrite Forall_forall in Hf. apply nth_error_In in E. now destruct (Hf _ E).
Qed.

(* the timer of an earlier query never changes anything, whenever it fires *)
Theorem stale_timer_is_ignored s k m :
  nth_error (started s) k = Some m -> tgen m < tgen (cur s) -> tstep s (TFire k) = s.
Proof.
  intros E Hlt. cbn [tstep]. rewrite E. destruct (tstate_eqb (cur s) m) eqn:Eq; [|reflexivity].
  apply tstate_eqb_eq in Eq. subst m. lia.
Qed.

(* after cancel_timer (or once the query is stopped) no time-out changes anything *)
Theorem cancelled_timer_is_ignored s k : tinv s -> tstat (cur s) <> Running -> tstep s (TFire k) = s.
Proof.
  intros [Hf _] Hs. cbn [tstep]. destruct (nth_error (started s) k) as [m|] eqn:E; [|reflexivity].
  destruct (tstate_eqb (cur s) m) eqn:Eq; [|reflexivity].
  apply tstate_eqb_eq in Eq. subst m. rewrite Forall_forall in Hf. apply nth_error_In in E.
  destruct (Hf _ E) as [_ Hr]. contradiction.
Qed.

(* the flag goes up only through stop_query() or the time-out of the current query's own timer *)
Theorem flag_raised_only_by s o : tinv s -> flag s = false -> flag (tstep s o) = true ->
  o = TStop \/ exists k, o = TFire k /\ nth_error (started s) k = Some (cur s) /\ tstat (cur s) = Running.
Proof.
  intros Hi H0 H1. destruct o.
  - discriminate H1.
  - discriminate H1.
  - right. exists k. split; [reflexivity|]. apply fire_needs_current; [exact Hi|].
    intro Heq. rewrite Heq in H1. congruence.
  - cbn [tstep] in H1. unfold flag in *. destruct (tstat (cur s)) eqn:Es; cbn [cur tstat tstatus_eqb] in *; try rewrite Es in *; cbn [tstatus_eqb] in *; congruence.
  - now left.
  - cbn [tstep] in H1. congruence.
Qed.

(* ... and stays up until the next query starts *)
Theorem flag_stays s o : flag s = true -> o <> TStart -> o <> TStartQuery -> flag (tstep s o) = true.
Proof.
  intros H0 Hs Hq. unfold flag in *. apply tstatus_eqb_eq in H0.
  destruct o; try contradiction; cbn [tstep].
  - destruct (nth_error (started s) k) as [m|]; [|now rewrite H0].
    destruct (tstate_eqb (cur s) m); [reflexivity|now rewrite H0].
  - rewrite H0. cbn. now rewrite H0.
  - reflexivity.
  - now rewrite H0.
Qed.

(* the current query's own timer, while the query runs, does stop it *)
Theorem own_timer_stops s k :
  nth_error (started s) k = Some (cur s) -> flag (tstep s (TFire k)) = true.
Proof.
  intro E. cbn [tstep]. rewrite E.
  assert (tstate_eqb (cur s) (cur s) = true) as -> by now apply tstate_eqb_eq. reflexivity.
Qed.

(* at most one timer can stop a given query *)
Theorem the_timer_is_unique ops k1 k2 m1 m2 :
  nth_error (started (trun ops)) k1 = Some m1 -> nth_error (started (trun ops)) k2 = Some m2 ->
  tgen m1 = tgen m2 -> k1 = k2.
Proof.
  intros E1 E2 Hg. destruct (tinv_reachable ops) as [_ Hn].
  assert (nth_error (map tgen (started (trun ops))) k1 = Some (tgen m1)) as A1 by (now apply map_nth_error).
  assert (nth_error (map tgen (started (trun ops))) k2 = Some (tgen m2)) as A2 by (now apply map_nth_error).
  rewrite Hg in A1. eapply NoDup_nth_error; eauto.
  - apply nth_error_Some. congruence.
  - congruence.
Qed.

(* ---- the protocol before the repair is refuted: timer 0 passes its check, its query is
        cancelled, the next query starts, timer 0 stores: query 2 is stopped although its own
        timer (index 1) never fired and stop_query was never called ---- *)
Example old_protocol_refuted :
  oflag (fold_left ostep [OStart; OFireCheck 0; OCancel; OStart; OFireStore 0] oinit) = true.
Proof. reflexivity. Qed.

(* the same schedule in the repaired protocol: nothing happens *)
Example new_protocol_same_schedule :
  flag (trun [TStart; TCancel; TStart; TFire 0]) = false.
Proof. reflexivity. Qed.
