(* Proofs about the source-file reader (Model/Reader.v) against Spec/SpecLoad.v:
   totality of every reader function, and `load_spec`: reading the rendering of rule
   texts in a legal layout gives back the texts, up to white space at the cut points. *)
From Suiron Require Import Model.Reader Spec.SpecLoad.
From Coq Require Import Lia.
Open Scope N_scope.

(* ------------------------------------------------------------------ characters *)
Lemma ws_cases c : rd_is_ws c = true ->
  (9 <= c <= 13) \/ c = 32 \/ c = 133 \/ c = 160 \/ c = 5760 \/ (8192 <= c <= 8202) \/
  c = 8232 \/ c = 8233 \/ c = 8239 \/ c = 8287 \/ c = 12288.
Proof.
  unfold rd_is_ws. intro H.
  repeat (apply orb_true_iff in H as [H|H]);
    try (apply andb_true_iff in H as [H1 H2]; apply N.leb_le in H1; apply N.leb_le in H2);
    try apply N.eqb_eq in H; lia.
Qed.

Lemma ws_not c d : rd_is_ws c = true -> rd_is_ws d = false -> (c =? d) = false.
Proof.
  intros Hc Hd. apply N.eqb_neq. intro E. subst. congruence.
Qed.

Ltac ws_neq := match goal with
  | H : rd_is_ws ?c = true |- (?c =? ?d) = false => apply (ws_not c d H); reflexivity
  end.

Lemma ws_not_digit c : rd_is_ws c = true -> rd_is_digit c = false.
Proof.
  intro H. apply ws_cases in H. unfold rd_is_digit.
  destruct (48 <=? c) eqn:E1; [|reflexivity]. destruct (c <=? 57) eqn:E2; [|reflexivity].
  apply N.leb_le in E1. apply N.leb_le in E2. lia.
Qed.

Lemma cont_cases c : is_cont c = true -> c = ch_dash \/ c = ch_comma \/ c = ch_semicolon \/ c = ch_equals.
Proof.
  unfold is_cont. intro H. repeat (apply orb_true_iff in H as [H|H]); apply N.eqb_eq in H; auto.
Qed.

Lemma cont_not_digit c : is_cont c = true -> rd_is_digit c = false.
Proof. intro H. apply cont_cases in H as [H|[H|[H|H]]]; subst; reflexivity. Qed.
Lemma cont_not_ws c : is_cont c = true -> rd_is_ws c = false.
Proof. intro H. apply cont_cases in H as [H|[H|[H|H]]]; subst; reflexivity. Qed.
Lemma cont_not_period c : is_cont c = true -> (c =? ch_period) = false.
Proof. intro H. apply cont_cases in H as [H|[H|[H|H]]]; subst; reflexivity. Qed.

(* a character that is not a bracket or a quotation mark leaves the state alone *)
Definition plain (c : N) : bool :=
  negb (c =? ch_lparen) && negb (c =? ch_lbrack) && negb (c =? ch_rparen) &&
  negb (c =? ch_rbrack) && negb (c =? ch_quote).

Lemma lex_step_plain st c : plain c = true -> lex_step st c = st.
Proof.
  unfold plain, lex_step. intro H.
  repeat (apply andb_true_iff in H as [H ?]).
  repeat match goal with X : negb _ = true |- _ => apply negb_true_iff in X; rewrite X; clear X end.
  reflexivity.
Qed.

Lemma ws_plain c : rd_is_ws c = true -> plain c = true.
Proof.
  intro H. unfold plain.
  rewrite (ws_not c ch_lparen H), (ws_not c ch_lbrack H), (ws_not c ch_rparen H),
    (ws_not c ch_rbrack H), (ws_not c ch_quote H); reflexivity.
Qed.

Lemma lex_step_ws st c : rd_is_ws c = true -> lex_step st c = st.
Proof. intro H. apply lex_step_plain, ws_plain, H. Qed.

Lemma lex_scan_ws st w : all_ws w = true -> lex_scan st w = st.
Proof.
  revert st. induction w as [|c w IH]; intros st H; [reflexivity|].
  cbn in H. apply andb_true_iff in H as [Hc Hw].
  unfold lex_scan. cbn [fold_left]. rewrite lex_step_ws by exact Hc. apply IH, Hw.
Qed.

Lemma lex_scan_app st a b : lex_scan st (a ++ b) = lex_scan (lex_scan st a) b.
Proof. unfold lex_scan. apply fold_left_app. Qed.

Lemma lex_scan_cons st c s : lex_scan st (c :: s) = lex_scan (lex_step st c) s.
Proof. reflexivity. Qed.

Lemma all_ws_app a b : all_ws (a ++ b) = all_ws a && all_ws b.
Proof. unfold all_ws. apply forallb_app. Qed.

Lemma outside_lex0 st : outside st = true -> st = lex0.
Proof.
  destruct st as [r s q]. unfold outside. cbn. intro H.
  apply andb_true_iff in H as [H Hq]. apply andb_true_iff in H as [Hr Hs].
  apply Z.eqb_eq in Hr. apply Z.eqb_eq in Hs. apply negb_true_iff in Hq. subst. reflexivity.
Qed.

(* ------------------------------------------------------------------ last / hd *)
Lemma last_app_cons {A} (a : list A) x b d : last (a ++ x :: b) d = last (x :: b) d.
Proof.
  induction a as [|y a IH]; [reflexivity|].
  rewrite <- IH. cbn [app]. destruct (a ++ x :: b) eqn:E; [destruct a; discriminate|reflexivity].
Qed.

Lemma last_snoc {A} (a : list A) x d : last (a ++ [x]) d = x.
Proof. rewrite last_app_cons. reflexivity. Qed.

Lemma last_cons_default {A} (x : A) l d d' : last (x :: l) d = last (x :: l) d'.
Proof.
  revert x. induction l as [|y l IH]; intro x; [reflexivity|].
  change (last (y :: l) d = last (y :: l) d'). apply IH.
Qed.

Lemma last_app_nonempty {A} (a b : list A) d : b <> [] -> last (a ++ b) d = last b d.
Proof.
  intro H. destruct b as [|x b]; [congruence|]. apply last_app_cons.
Qed.

Lemma last_app_default {A} (a b : list A) d : last (a ++ b) d = last b (last a d).
Proof.
  destruct b as [|x b].
  - rewrite app_nil_r. reflexivity.
  - rewrite last_app_cons. apply last_cons_default.
Qed.

(* ------------------------------------------------------------------ trim *)
Lemma trim_start_ws w s : all_ws w = true -> rd_trim_start (w ++ s) = rd_trim_start s.
Proof.
  induction w as [|c w IH]; intro H; [reflexivity|].
  cbn in H. apply andb_true_iff in H as [Hc Hw]. cbn. rewrite Hc. apply IH, Hw.
Qed.

Lemma trim_start_all_ws w : all_ws w = true -> rd_trim_start w = [].
Proof. intro H. rewrite <- (app_nil_r w). rewrite trim_start_ws by exact H. reflexivity. Qed.

Lemma trim_start_decomp s : exists l, all_ws l = true /\ s = l ++ rd_trim_start s.
Proof.
  induction s as [|c s [l [Hl E]]].
  - exists []. split; reflexivity.
  - cbn. destruct (rd_is_ws c) eqn:Hc.
    + exists (c :: l). split; [cbn; rewrite Hc; exact Hl|]. cbn. f_equal. exact E.
    + exists []. split; reflexivity.
Qed.

Lemma trim_start_hd s : rd_trim_start s = [] \/ rd_is_ws (hd_or_x (rd_trim_start s)) = false.
Proof.
  induction s as [|c s IH]; [left; reflexivity|].
  cbn. destruct (rd_is_ws c) eqn:Hc; [exact IH|]. right. exact Hc.
Qed.

Lemma trim_start_id s : rd_is_ws (hd_or_x s) = false -> rd_trim_start s = s.
Proof. destruct s as [|c s]; [reflexivity|]. cbn. intro H. rewrite H. reflexivity. Qed.

Lemma all_ws_rev w : all_ws (rev w) = all_ws w.
Proof.
  induction w as [|c w IH]; [reflexivity|].
  cbn [rev]. rewrite all_ws_app, IH. cbn. rewrite andb_true_r. apply andb_comm.
Qed.

Lemma trim_end_ws s w : all_ws w = true -> rd_trim_end (s ++ w) = rd_trim_end s.
Proof.
  intro H. unfold rd_trim_end. rewrite rev_app_distr.
  rewrite trim_start_ws; [reflexivity|]. rewrite all_ws_rev. exact H.
Qed.

Lemma trim_end_decomp s : exists r, all_ws r = true /\ s = rd_trim_end s ++ r.
Proof.
  destruct (trim_start_decomp (rev s)) as [l [Hl E]].
  exists (rev l). split; [rewrite all_ws_rev; exact Hl|].
  unfold rd_trim_end. rewrite <- rev_app_distr, <- E, rev_involutive. reflexivity.
Qed.

Lemma hd_rev_last (s : str) : hd_or_x (rev s) = last_or_x s.
Proof.
  unfold last_or_x. induction s as [|c s IH] using rev_ind; [reflexivity|].
  rewrite rev_app_distr, last_snoc. reflexivity.
Qed.

Lemma trim_end_id s : rd_is_ws (last_or_x s) = false -> rd_trim_end s = s.
Proof.
  intro H. unfold rd_trim_end. rewrite trim_start_id; [apply rev_involutive|].
  rewrite hd_rev_last. exact H.
Qed.

Lemma trim_end_last s : rd_trim_end s = [] \/ rd_is_ws (last_or_x (rd_trim_end s)) = false.
Proof.
  unfold rd_trim_end. destruct (trim_start_hd (rev s)) as [E|E].
  - left. rewrite E. reflexivity.
  - right. rewrite <- hd_rev_last, rev_involutive. exact E.
Qed.

Lemma trim_app_ws s w : all_ws w = true -> rd_trim (s ++ w) = rd_trim s.
Proof.
  intro H. induction s as [|c s IH].
  - unfold rd_trim. cbn [app]. rewrite trim_start_all_ws by exact H. reflexivity.
  - unfold rd_trim in *. cbn [app rd_trim_start]. destruct (rd_is_ws c); [exact IH|].
    change (c :: s ++ w) with ((c :: s) ++ w). apply trim_end_ws, H.
Qed.

Lemma trim_ws_app w s : all_ws w = true -> rd_trim (w ++ s) = rd_trim s.
Proof. intro H. unfold rd_trim. rewrite trim_start_ws by exact H. reflexivity. Qed.

Lemma trim_around w1 s w2 : all_ws w1 = true -> all_ws w2 = true -> rd_trim (w1 ++ s ++ w2) = rd_trim s.
Proof. intros H1 H2. rewrite trim_ws_app by exact H1. apply trim_app_ws, H2. Qed.

Lemma trim_all_ws w : all_ws w = true -> rd_trim w = [].
Proof. intro H. unfold rd_trim. rewrite trim_start_all_ws by exact H. reflexivity. Qed.

Lemma trim_id s : rd_is_ws (hd_or_x s) = false -> rd_is_ws (last_or_x s) = false -> rd_trim s = s.
Proof. intros H1 H2. unfold rd_trim. rewrite trim_start_id by exact H1. apply trim_end_id, H2. Qed.

(* s = l ++ rd_trim s ++ r *)
Lemma trim_decomp s : exists l r, all_ws l = true /\ all_ws r = true /\ s = l ++ rd_trim s ++ r.
Proof.
  destruct (trim_start_decomp s) as [l [Hl E1]].
  destruct (trim_end_decomp (rd_trim_start s)) as [r [Hr E2]].
  exists l, r. repeat split; try assumption. unfold rd_trim. rewrite <- E2. exact E1.
Qed.

Lemma trim_ends s : rd_trim s = [] \/
  (rd_is_ws (hd_or_x (rd_trim s)) = false /\ rd_is_ws (last_or_x (rd_trim s)) = false).
Proof.
  unfold rd_trim. destruct (trim_end_last (rd_trim_start s)) as [E|E]; [left; exact E|].
  destruct (rd_trim_end (rd_trim_start s)) as [|c m] eqn:Em; [left; reflexivity|]. right.
  split; [|exact E].
  destruct (trim_end_decomp (rd_trim_start s)) as [r [Hr E2]]. rewrite Em in E2.
  destruct (trim_start_hd s) as [E3|E3]; [rewrite E3 in E2; discriminate|].
  rewrite E2 in E3. exact E3.
Qed.
(* ------------------------------------------------------------------ strip_comments_at *)
Definition comment_start (st : lex) (prev c : N) : bool :=
  outside st && ((c =? ch_hash) || (c =? ch_percent) || ((c =? ch_slash) && (prev =? ch_slash))).

(* the loop of strip_comments_at in terms of the lexical state *)
Lemma sc_loop_cons c rest i st prev :
  sc_loop (c :: rest) i (l_rd st) (l_sd st) (l_inq st) prev =
  if outside st && ((c =? ch_hash) || (c =? ch_percent)) then Ok (Some i, l_rd st, l_sd st)
  else if outside st && ((c =? ch_slash) && (prev =? ch_slash)) then
    do j <- rd_usub i 1; Ok (Some j, l_rd st, l_sd st)
  else let st' := lex_step st c in sc_loop rest (S i) (l_rd st') (l_sd st') (l_inq st') c.
Proof.
  cbn [sc_loop]. unfold lex_step, outside.
  destruct (c =? ch_lparen) eqn:E1.
  { apply N.eqb_eq in E1. subst c. cbn. rewrite !andb_false_r. reflexivity. }
  destruct (c =? ch_lbrack) eqn:E2.
  { apply N.eqb_eq in E2. subst c. cbn. rewrite !andb_false_r. reflexivity. }
  destruct (c =? ch_rparen) eqn:E3.
  { apply N.eqb_eq in E3. subst c. cbn. rewrite !andb_false_r. reflexivity. }
  destruct (c =? ch_rbrack) eqn:E4.
  { apply N.eqb_eq in E4. subst c. cbn. rewrite !andb_false_r. reflexivity. }
  destruct (c =? ch_quote) eqn:E5.
  { apply N.eqb_eq in E5. subst c. cbn. rewrite !andb_false_r. reflexivity. }
  destruct ((l_rd st =? 0)%Z && (l_sd st =? 0)%Z && negb (l_inq st)) eqn:Eo; cbn [andb].
  - destruct ((c =? ch_hash) || (c =? ch_percent)); [reflexivity|].
    destruct ((c =? ch_slash) && (prev =? ch_slash)); reflexivity.
  - reflexivity.
Qed.

Lemma no_comment_cons st prev c s :
  no_comment st prev (c :: s) = negb (comment_start st prev c) && no_comment (lex_step st c) c s.
Proof.
  cbn [no_comment]. unfold comment_start. destruct (outside st && _); reflexivity.
Qed.

Lemma sc_loop_clean a : forall b i st prev,
  no_comment st prev a = true ->
  sc_loop (a ++ b) i (l_rd st) (l_sd st) (l_inq st) prev =
  let st' := lex_scan st a in
  sc_loop b (i + length a) (l_rd st') (l_sd st') (l_inq st') (last a prev).
Proof.
  induction a as [|c a IH]; intros b i st prev H.
  - cbn. rewrite Nat.add_0_r. reflexivity.
  - rewrite no_comment_cons in H. apply andb_true_iff in H as [H1 H2].
    apply negb_true_iff in H1. unfold comment_start in H1.
    cbn [app]. rewrite sc_loop_cons.
    assert (Ea : outside st && ((c =? ch_hash) || (c =? ch_percent)) = false).
    { destruct (outside st); [|reflexivity]. cbn in *. apply orb_false_iff in H1 as [H1 _].
      apply orb_false_iff in H1 as [-> ->]. reflexivity. }
    assert (Eb : outside st && ((c =? ch_slash) && (prev =? ch_slash)) = false).
    { destruct (outside st); [|reflexivity]. cbn in *. apply orb_false_iff in H1 as [_ H1]. exact H1. }
    rewrite Ea, Eb. cbv zeta. rewrite IH by exact H2. cbv zeta.
    rewrite lex_scan_cons. replace (S i + length a)%nat with (i + length (c :: a))%nat by (cbn; lia).
    f_equal. destruct a as [|n a]; [reflexivity|]. change (last (n :: a) c = last (n :: a) prev). apply last_cons_default.
Qed.

Lemma last_all_ws w d : all_ws w = true -> w <> [] -> rd_is_ws (last w d) = true.
Proof.
  induction w as [|c w IH]; intros H Hn; [congruence|].
  cbn in H. apply andb_true_iff in H as [Hc Hw].
  destruct w as [|c' w]; [exact Hc|]. change (rd_is_ws (last (c' :: w) d) = true). apply IH; [exact Hw|discriminate].
Qed.

(* the last character of  w1 ++ s ++ w2  *)
Lemma last_padded w1 s w2 : all_ws w1 = true -> all_ws w2 = true ->
  let z := last (w1 ++ s ++ w2) ch_x in
  z = ch_x \/ rd_is_ws z = true \/ (rd_trim s <> [] /\ z = last_or_x (rd_trim s)).
Proof.
  intros H1 H2 z. subst z.
  destruct (trim_decomp s) as [l [r [Hl [Hr E]]]].
  destruct w2 as [|c2 w2].
  - rewrite app_nil_r. destruct r as [|cr r].
    + rewrite app_nil_r in E. destruct (rd_trim s) as [|m0 m] eqn:Em.
      * cbn [app] in E. rewrite app_nil_r in E. subst s.
        assert (X : all_ws (w1 ++ l) = true) by (rewrite all_ws_app, H1, Hl; reflexivity).
        destruct (w1 ++ l) eqn:Ew; [left; reflexivity|]. right. left.
        apply last_all_ws; [exact X|discriminate].
      * right. right. split; [discriminate|]. rewrite E at 1. rewrite app_assoc.
        unfold last_or_x. apply last_app_nonempty. discriminate.
    + right. left. rewrite E. rewrite !app_assoc. rewrite last_app_nonempty by discriminate.
      apply last_all_ws; [exact Hr|discriminate].
  - right. left. rewrite !app_assoc. rewrite last_app_nonempty by discriminate.
    apply last_all_ws; [exact H2|discriminate].
Qed.

Lemma no_comment_prev st p p' s : (p =? ch_slash) = false -> (p' =? ch_slash) = false ->
  no_comment st p s = no_comment st p' s.
Proof.
  intros H H'. destruct s as [|c s]; [reflexivity|].
  rewrite !no_comment_cons. unfold comment_start. rewrite H, H'. reflexivity.
Qed.

Lemma ws_not_slash c : rd_is_ws c = true -> (c =? ch_slash) = false.
Proof. intro H. ws_neq. Qed.

Lemma no_comment_ws st p w : all_ws w = true -> no_comment st p w = true.
Proof.
  revert st p. induction w as [|c w IH]; intros st p H; [reflexivity|].
  cbn in H. apply andb_true_iff in H as [Hc Hw].
  rewrite no_comment_cons. unfold comment_start.
  rewrite (ws_not c ch_hash Hc), (ws_not c ch_percent Hc), (ws_not c ch_slash Hc) by reflexivity.
  cbn. rewrite andb_false_r. cbn. apply IH, Hw.
Qed.

Lemma no_comment_app st p a b :
  no_comment st p (a ++ b) = no_comment st p a && no_comment (lex_scan st a) (last a p) b.
Proof.
  revert st p. induction a as [|c a IH]; intros st p; [reflexivity|].
  cbn [app]. rewrite !no_comment_cons, IH, lex_scan_cons, andb_assoc. f_equal. f_equal.
  destruct a as [|n a]; [reflexivity|]. change (last (n :: a) c = last (n :: a) p). apply last_cons_default.
Qed.

Lemma last_ws_not_slash w p : all_ws w = true -> (p =? ch_slash) = false -> (last w p =? ch_slash) = false.
Proof.
  intros H Hp. destruct w as [|c w]; [exact Hp|]. apply ws_not_slash. apply last_all_ws; [exact H|discriminate].
Qed.

Lemma slice_to_app a b : rd_slice_to (a ++ b) (length a) = Ok a.
Proof.
  unfold rd_slice_to. rewrite app_length.
  replace (length a <=? length a + length b)%nat with true by (symmetry; apply Nat.leb_le; lia).
  rewrite firstn_app, Nat.sub_diag, firstn_all. cbn. rewrite app_nil_r. reflexivity.
Qed.

(* a line: white space, text, white space, comment *)
Lemma strip_line st ind body trail cmt :
  l_inq st = false ->
  all_ws ind = true -> all_ws trail = true -> is_comment cmt = true ->
  no_comment st ch_x body = true ->
  is_empty cmt || outside (lex_scan st body) = true ->
  (last (ind ++ body ++ trail) ch_x =? ch_slash) = false ->
  strip_comments_at (ind ++ body ++ trail ++ cmt) (l_rd st) (l_sd st) =
  Ok (rd_trim body, l_rd (lex_scan st body), l_sd (lex_scan st body)).
Proof.
  intros Hq Hi Ht Hc Hn Ho Hl.
  unfold strip_comments_at. rewrite <- Hq.
  replace (ind ++ body ++ trail ++ cmt) with ((ind ++ body ++ trail) ++ cmt) by (rewrite <- !app_assoc; reflexivity).
  set (a := ind ++ body ++ trail) in *.
  assert (Hna : no_comment st ch_x a = true).
  { subst a. rewrite no_comment_app, no_comment_ws by exact Hi. cbn [andb].
    rewrite lex_scan_ws by exact Hi. rewrite no_comment_app.
    rewrite (no_comment_prev st (last ind ch_x) ch_x) by (try apply last_ws_not_slash; auto).
    rewrite Hn. cbn [andb]. apply no_comment_ws, Ht. }
  assert (Hsa : lex_scan st a = lex_scan st body).
  { subst a. rewrite !lex_scan_app. rewrite (lex_scan_ws st ind) by exact Hi. apply lex_scan_ws, Ht. }
  rewrite sc_loop_clean by exact Hna. cbv zeta. rewrite Hsa. cbn [plus].
  set (st' := lex_scan st body) in *.
  assert (Htrim : rd_trim a = rd_trim body) by (subst a; apply trim_around; assumption).
  destruct cmt as [|c0 r].
  - cbn [sc_loop bind]. rewrite app_nil_r, Htrim. reflexivity.
  - cbn [is_empty orb] in Ho. cbn [is_comment] in Hc.
    rewrite sc_loop_cons, Ho. cbn [andb].
    destruct ((c0 =? ch_hash) || (c0 =? ch_percent)) eqn:E1.
    + cbn [bind]. rewrite slice_to_app. cbn [bind]. rewrite Htrim. reflexivity.
    + cbn [orb] in Hc. apply andb_true_iff in Hc as [Hc0 Hc1].
      apply N.eqb_eq in Hc0. subst c0. rewrite Hl. cbn [andb].
      destruct r as [|c1 r]; [discriminate|]. cbn [hd_or_x] in Hc1. apply N.eqb_eq in Hc1. subst c1.
      cbv zeta. rewrite (lex_step_plain st' ch_slash) by reflexivity.
      rewrite sc_loop_cons, Ho. cbn [andb orb]. change (ch_slash =? ch_hash) with false.
      change (ch_slash =? ch_percent) with false. cbn [orb]. rewrite N.eqb_refl. cbn [andb].
      unfold rd_usub. cbn [Nat.leb]. cbn [bind]. rewrite Nat.sub_1_r. cbn [pred].
      rewrite slice_to_app. cbn [bind]. rewrite Htrim. reflexivity.
Qed.
(* ------------------------------------------------------------------ check_last_char *)
Lemma nth_error_last (s : str) : s <> [] -> nth_error s (length s - 1) = Some (last_or_x s).
Proof.
  intro H. destruct s as [|c s] using rev_ind; [congruence|].
  rewrite app_length. cbn [length]. replace (length s + 1 - 1)%nat with (length s) by lia.
  rewrite nth_error_app2 by lia. rewrite Nat.sub_diag. unfold last_or_x. rewrite last_snoc. reflexivity.
Qed.

Definition line_end_ok (c : N) : bool := is_cont c || (c =? ch_period).

Lemma check_last_ok line n : line <> [] -> line_end_ok (last_or_x line) = true ->
  check_last_char line n = Ok None.
Proof.
  intros Hne H. unfold check_last_char.
  destruct line as [|c0 l0] eqn:El; [congruence|]. rewrite <- El in *.
  replace (0 <? length line)%nat with true by (symmetry; apply Nat.ltb_lt; rewrite El; cbn; lia).
  unfold rd_usub. replace (1 <=? length line)%nat with true by (symmetry; apply Nat.leb_le; rewrite El; cbn; lia).
  cbn [bind]. unfold rd_index. rewrite nth_error_last by (rewrite El; discriminate). cbn [bind].
  unfold line_end_ok, is_cont in H.
  destruct (last_or_x line =? ch_dash); [reflexivity|].
  destruct (last_or_x line =? ch_comma); [reflexivity|].
  destruct (last_or_x line =? ch_period); [reflexivity|].
  destruct (last_or_x line =? ch_equals); [reflexivity|].
  destruct (last_or_x line =? ch_semicolon); [reflexivity|]. discriminate.
Qed.

(* ------------------------------------------------------------------ the line loop *)
Definition app_line (ll line : str) : str :=
  (if (0 <? length ll)%nat then ll ++ [ch_space] else ll) ++ line.

Lemma rf_loop_skip line rest n ll rd sd rd' sd' :
  strip_comments_at line rd sd = Ok ([], rd', sd') ->
  rf_loop (line :: rest) n ll rd sd = rf_loop rest (n + 1) ll rd' sd'.
Proof. intro H. cbn [rf_loop]. rewrite H. reflexivity. Qed.

Lemma rf_loop_take line rest n ll rd sd m rd' sd' :
  strip_comments_at line rd sd = Ok (m, rd', sd') ->
  m <> [] -> line_end_ok (last_or_x m) = true ->
  rf_loop (line :: rest) n ll rd sd = rf_loop rest (n + 1) (app_line ll m) rd' sd'.
Proof.
  intros H Hne He. cbn [rf_loop]. rewrite H. cbn [bind].
  replace (0 <? length m)%nat with true by (symmetry; apply Nat.ltb_lt; destruct m; [congruence|cbn; lia]).
  rewrite check_last_ok by assumption. reflexivity.
Qed.

Lemma strip_blank st b : l_inq st = false -> blank_ok st b = true ->
  strip_comments_at (render_blank b) (l_rd st) (l_sd st) = Ok ([], l_rd st, l_sd st).
Proof.
  intros Hq H. unfold blank_ok in H.
  apply andb_true_iff in H as [H H3]. apply andb_true_iff in H as [H1 H2].
  unfold render_blank.
  pose proof (strip_line st (b_ws b) [] [] (b_comment b) Hq H1 eq_refl H2 eq_refl) as X.
  cbn [app lex_scan fold_left] in X. apply X; [exact H3|].
  rewrite app_nil_r. apply last_ws_not_slash; [exact H1|reflexivity].
Qed.

Lemma rf_loop_blanks bs : forall st rest n ll, l_inq st = false -> forallb (blank_ok st) bs = true ->
  exists n', rf_loop (map render_blank bs ++ rest) n ll (l_rd st) (l_sd st) =
             rf_loop rest n' ll (l_rd st) (l_sd st).
Proof.
  induction bs as [|b bs IH]; intros st rest n ll Hq H.
  - exists n. reflexivity.
  - cbn in H. apply andb_true_iff in H as [Hb Hbs].
    cbn [map app]. rewrite (rf_loop_skip _ _ _ _ _ _ _ _ (strip_blank st b Hq Hb)).
    apply IH; assumption.
Qed.

Lemma trim_last s : s <> [] -> rd_is_ws (last_or_x s) = false ->
  rd_trim s <> [] /\ last_or_x (rd_trim s) = last_or_x s.
Proof.
  intros Hs H. destruct (trim_decomp s) as [l [r [Hl [Hr E]]]].
  destruct r as [|cr r].
  - rewrite app_nil_r in E. destruct (rd_trim s) as [|m0 m] eqn:Em.
    + rewrite app_nil_r in E. subst s. destruct l as [|c l]; [congruence|].
      unfold last_or_x in H. rewrite last_all_ws in H; [discriminate|exact Hl|discriminate].
    + split; [discriminate|]. rewrite E. unfold last_or_x. symmetry. apply last_app_nonempty. discriminate.
  - exfalso. rewrite E in H. unfold last_or_x in H. rewrite !app_assoc in H.
    rewrite last_app_nonempty in H by discriminate. rewrite last_all_ws in H; [discriminate|exact Hr|discriminate].
Qed.

Lemma piece_end final st p : piece_ok final st p = true ->
  rd_trim (snd p) <> [] /\ line_end_ok (last_or_x (rd_trim (snd p))) = true.
Proof.
  unfold piece_ok. intro H. repeat (apply andb_true_iff in H as [H ?]).
  destruct final.
  - match goal with X : (last_or_x (snd p) =? ch_period) = true |- _ => apply N.eqb_eq in X; rename X into Hp end.
    assert (Hw : rd_is_ws (last_or_x (snd p)) = false) by (rewrite Hp; reflexivity).
    assert (Hs : snd p <> []) by (intro E; rewrite E in Hp; discriminate).
    destruct (trim_last _ Hs Hw) as [Hne El]. split; [exact Hne|]. rewrite El, Hp. reflexivity.
  - match goal with X : is_cont _ = true |- _ => rename X into Hp end.
    split.
    + intro E. rewrite E in Hp. discriminate.
    + unfold line_end_ok. rewrite Hp. reflexivity.
Qed.

Lemma line_end_not_slash c : line_end_ok c = true -> (c =? ch_slash) = false.
Proof.
  unfold line_end_ok. intro H. apply orb_true_iff in H as [H|H].
  - apply cont_cases in H as [H|[H|[H|H]]]; subst; reflexivity.
  - apply N.eqb_eq in H. subst. reflexivity.
Qed.

Lemma rf_loop_piece final st p rest n ll :
  l_inq st = false -> piece_ok final st p = true -> no_comment st ch_x (snd p) = true ->
  exists n', rf_loop (render_piece p ++ rest) n ll (l_rd st) (l_sd st) =
             rf_loop rest n' (app_line ll (rd_trim (snd p)))
                     (l_rd (lex_scan st (snd p))) (l_sd (lex_scan st (snd p))).
Proof.
  intros Hq Hp Hn. destruct (piece_end _ _ _ Hp) as [Hne Hend].
  unfold piece_ok in Hp. repeat (apply andb_true_iff in Hp as [Hp ?]).
  unfold render_piece. rewrite <- app_assoc.
  destruct (rf_loop_blanks (d_before (fst p)) st
              ([d_indent (fst p) ++ snd p ++ d_trail (fst p) ++ d_comment (fst p)] ++ rest) n ll Hq Hp) as [n1 E1].
  eexists. refine (eq_trans E1 _). cbn [app].
  apply rf_loop_take; [|exact Hne|exact Hend].
  apply strip_line; try assumption.
  destruct (last_padded (d_indent (fst p)) (snd p) (d_trail (fst p))) as [E|[E|[_ E]]]; try assumption.
  - rewrite E. reflexivity.
  - apply ws_not_slash, E.
  - rewrite E. apply line_end_not_slash, Hend.
Qed.

Lemma no_comment_weaken st p s : no_comment st p s = true -> no_comment st ch_x s = true.
Proof.
  destruct s as [|c s]; [reflexivity|]. rewrite !no_comment_cons. unfold comment_start.
  intro H. apply andb_true_iff in H as [H1 H2]. rewrite H2, andb_true_r.
  apply negb_true_iff in H1. apply negb_true_iff.
  destruct (outside st); [|reflexivity]. cbn [andb] in *.
  apply orb_false_iff in H1 as [H1 _]. rewrite H1. cbn. rewrite andb_false_r. reflexivity.
Qed.

Definition bodies (ps : list (deco * str)) : list str := map snd ps.
Definition trimmed (ps : list (deco * str)) : list str := map (fun p => rd_trim (snd p)) ps.

Lemma rf_loop_pieces ps : forall st rest n ll,
  l_inq st = false -> pieces_ok st ps = true -> no_comment st ch_x (concat (bodies ps)) = true ->
  let st' := lex_scan st (concat (bodies ps)) in
  l_inq st' = false /\
  exists n', rf_loop (flat_map render_piece ps ++ rest) n ll (l_rd st) (l_sd st) =
             rf_loop rest n' (fold_left app_line (trimmed ps) ll) (l_rd st') (l_sd st').
Proof.
  induction ps as [|p ps IH]; intros st rest n ll Hq Hok Hn; [discriminate|].
  cbn [bodies map concat] in Hn. rewrite no_comment_app in Hn. apply andb_true_iff in Hn as [Hn1 Hn2].
  apply no_comment_weaken in Hn2.
  cbn [bodies map concat flat_map trimmed fold_left]. rewrite lex_scan_app. rewrite <- app_assoc.
  destruct ps as [|p2 ps].
  - cbn [pieces_ok] in Hok. cbn [concat lex_scan fold_left flat_map app map].
    assert (Hq' : l_inq (lex_scan st (snd p)) = false).
    { unfold piece_ok in Hok. repeat (apply andb_true_iff in Hok as [Hok ?]).
      match goal with X : negb (l_inq _) = true |- _ => apply negb_true_iff in X; exact X end. }
    split; [exact Hq'|].
    destruct (rf_loop_piece true st p rest n ll Hq Hok Hn1) as [n' E]. exists n'. exact E.
  - change (pieces_ok st (p :: p2 :: ps)) with (piece_ok false st p && pieces_ok (lex_scan st (snd p)) (p2 :: ps)) in Hok.
    apply andb_true_iff in Hok as [Hp Hps].
    assert (Hq' : l_inq (lex_scan st (snd p)) = false).
    { unfold piece_ok in Hp. repeat (apply andb_true_iff in Hp as [Hp ?]).
      match goal with X : negb (l_inq _) = true |- _ => apply negb_true_iff in X; exact X end. }
    destruct (rf_loop_piece false st p (flat_map render_piece (p2 :: ps) ++ rest) n ll Hq Hp Hn1) as [n1 E1].
    rewrite E1.
    destruct (IH (lex_scan st (snd p)) rest n1 (app_line ll (rd_trim (snd p))) Hq' Hps Hn2) as [Hq'' [n2 E2]].
    split; [exact Hq''|]. exists n2. exact E2.
Qed.
(* ------------------------------------------------------------------ separate_rules *)
(* the loop of separate_rules as a function of the lexical state, the previous character
   and the rest of the text *)
Fixpoint sep (st : lex) (prev : N) (cur : str) (s : str) (acc : list str) : list str * str * lex :=
  match s with
  | [] => (acc, cur, st)
  | c :: s' =>
      if ends_rule st prev c (hd_or_x s') then sep st c [] s' (acc ++ [cur ++ [c]])
      else sep (lex_step st c) c (cur ++ [c]) s' acc
  end.

Lemma nth_error_mid {A} (pre : list A) c rest : nth_error (pre ++ c :: rest) (length pre) = Some c.
Proof. rewrite nth_error_app2 by lia. rewrite Nat.sub_diag. reflexivity. Qed.

Lemma rev_case {A} (l : list A) : l = [] \/ exists l' x, l = l' ++ [x].
Proof. destruct l as [|x l'] using rev_ind; [left; reflexivity|right; eauto]. Qed.

Lemma is_decimal_point_spec pre c rest :
  is_decimal_point (pre ++ c :: rest) (length pre) =
  Ok (rd_is_digit (last pre ch_x) && rd_is_digit (hd_or_x rest)).
Proof.
  unfold is_decimal_point. rewrite app_length. cbn [length].
  destruct (rev_case pre) as [Ep|[pre0 [p0 Ep]]]; subst pre.
  - cbn. reflexivity.
  - rewrite app_length. cbn [length].
    replace (length pre0 + 1 =? 0)%nat with false by (symmetry; apply Nat.eqb_neq; lia).
    cbn [orb]. destruct rest as [|r0 rest].
    + cbn [length]. match goal with |- (if ?b then _ else _) = _ => replace b with true by (symmetry; apply Nat.leb_le; lia) end.
      cbn [hd_or_x]. change (rd_is_digit ch_x) with false. rewrite andb_false_r. reflexivity.
    + cbn [length]. match goal with |- (if ?b then _ else _) = _ => replace b with false by (symmetry; apply Nat.leb_gt; lia) end.
      unfold rd_usub. replace (1 <=? length pre0 + 1)%nat with true by (symmetry; apply Nat.leb_le; lia).
      cbn [bind]. unfold rd_index.
      replace (length pre0 + 1 - 1)%nat with (length pre0) by lia.
      rewrite <- app_assoc. cbn [app]. rewrite nth_error_mid. cbn [bind].
      replace (length pre0 + 1 + 1)%nat with (length (pre0 ++ [p0; c])) by (rewrite app_length; cbn; lia).
      replace (pre0 ++ p0 :: c :: r0 :: rest) with ((pre0 ++ [p0; c]) ++ r0 :: rest)
        by (rewrite <- app_assoc; reflexivity).
      rewrite nth_error_mid. cbn [bind hd_or_x]. rewrite last_snoc. reflexivity.
Qed.


Lemma even_succ_negb n : N.even (n + 1) = negb (N.even n).
Proof. rewrite N.add_1_r, N.even_succ. rewrite <- N.negb_even. reflexivity. Qed.

Definition sep_result (r : list str * str * lex) : list str * str * Z * Z :=
  let '(acc, cur, st) := r in (acc, cur, l_rd st, l_sd st).

Lemma sr_loop_sep rest : forall pre cur rules st nq,
  l_inq st = negb (N.even nq) ->
  sr_loop (pre ++ rest) rest (length pre) cur rules (l_rd st) (l_sd st) nq =
  Ok (sep_result (sep st (last pre ch_x) cur rest rules)).
Proof.
  induction rest as [|c rest IH]; intros pre cur rules st nq Hq; [reflexivity|].
  assert (Hnext : forall cur' rules' st' nq', l_inq st' = negb (N.even nq') ->
            sr_loop (pre ++ c :: rest) rest (S (length pre)) cur' rules' (l_rd st') (l_sd st') nq' =
            Ok (sep_result (sep st' c cur' rest rules'))).
  { intros cur' rules' st' nq' Hq'.
    replace (pre ++ c :: rest) with ((pre ++ [c]) ++ rest) by (rewrite <- app_assoc; reflexivity).
    replace (S (length pre)) with (length (pre ++ [c])) by (rewrite app_length; cbn; lia).
    rewrite IH by exact Hq'. rewrite last_snoc. reflexivity. }
  assert (Ho : (c =? ch_period) && (l_rd st =? 0)%Z && (l_sd st =? 0)%Z && N.even nq =
               (c =? ch_period) && outside st).
  { unfold outside. rewrite Hq, negb_involutive, !andb_assoc. reflexivity. }
  cbn [sr_loop sep]. unfold ends_rule. rewrite Ho.
  destruct (c =? ch_period) eqn:Ep.
  - apply N.eqb_eq in Ep. subst c. cbn [andb].
    change (ch_period =? ch_lparen) with false. change (ch_period =? ch_lbrack) with false.
    change (ch_period =? ch_rparen) with false. change (ch_period =? ch_rbrack) with false.
    change (ch_period =? ch_quote) with false. cbv iota.
    rewrite (lex_step_plain st ch_period) by reflexivity.
    destruct (outside st) eqn:Eo; cbn [andb bind].
    + rewrite is_decimal_point_spec. cbn [bind].
      destruct (rd_is_digit (last pre ch_x) && rd_is_digit (hd_or_x rest)); cbn [negb]; apply Hnext, Hq.
    + apply Hnext, Hq.
  - cbn [andb bind]. unfold lex_step.
    destruct (c =? ch_lparen); [apply (Hnext _ _ (mkLex _ _ _)); exact Hq|].
    destruct (c =? ch_lbrack); [apply (Hnext _ _ (mkLex _ _ _)); exact Hq|].
    destruct (c =? ch_rparen); [apply (Hnext _ _ (mkLex _ _ _)); exact Hq|].
    destruct (c =? ch_rbrack); [apply (Hnext _ _ (mkLex _ _ _)); exact Hq|].
    destruct (c =? ch_quote).
    + apply (Hnext _ _ (mkLex _ _ _)). cbn [l_inq]. rewrite even_succ_negb, Hq. reflexivity.
    + apply Hnext, Hq.
Qed.

Lemma sr_loop_text text :
  sr_loop text text 0 [] [] 0%Z 0%Z 0 = Ok (sep_result (sep lex0 ch_x [] text [])).
Proof. exact (sr_loop_sep text [] [] [] lex0 0 eq_refl). Qed.

Lemma separate_rules_ok text rules cur st :
  sep lex0 ch_x [] text [] = (rules, cur, st) ->
  l_rd st = 0%Z -> l_sd st = 0%Z -> rd_trim cur = [] ->
  separate_rules text = Ok (ROk rules).
Proof.
  intros H Hr Hs Hc. unfold separate_rules. rewrite sr_loop_text, H. cbn [sep_result bind].
  unfold unmatched_bracket. rewrite Hr, Hs. cbn [Z.eqb andb bind]. rewrite Hc. reflexivity.
Qed.

(* ---- one rule ---- *)
Lemma ends_rule_next st prev c n n' : rd_is_digit n = rd_is_digit n' ->
  ends_rule st prev c n = ends_rule st prev c n'.
Proof. intro H. unfold ends_rule. rewrite H. reflexivity. Qed.

Lemma ends_rule_prev st p p' c n : rd_is_digit p = rd_is_digit p' ->
  ends_rule st p c n = ends_rule st p' c n.
Proof. intro H. unfold ends_rule. rewrite H. reflexivity. Qed.

Lemma ends_rule_outside st prev c n : ends_rule st prev c n = true -> outside st = true /\ c = ch_period.
Proof.
  unfold ends_rule. intro H. apply andb_true_iff in H as [H _]. apply andb_true_iff in H as [H1 H2].
  apply N.eqb_eq in H1. auto.
Qed.

(* scanning a text that is one rule: the rule is emitted, the state is lex0 again *)
Lemma sep_one_rule R : forall st prev cur rest acc,
  one_rule st prev R = true -> rd_is_digit (hd_or_x rest) = false ->
  sep st prev cur (R ++ rest) acc = sep lex0 ch_period [] rest (acc ++ [cur ++ R]).
Proof.
  induction R as [|c R IH]; intros st prev cur rest acc H Hd; [discriminate|].
  cbn [one_rule] in H. cbn [app sep].
  destruct R as [|c2 R].
  - cbn [app hd_or_x] in *.
    rewrite (ends_rule_next st prev c (hd_or_x rest) ch_x) by (rewrite Hd; reflexivity).
    destruct (ends_rule st prev c ch_x) eqn:E.
    + apply ends_rule_outside in E as [Eo Ec]. apply outside_lex0 in Eo. subst. reflexivity.
    + cbn [one_rule] in H. discriminate.
  - cbn [app hd_or_x] in *. destruct (ends_rule st prev c c2) eqn:E; [discriminate|].
    rewrite (IH _ _ _ _ _ H Hd). rewrite <- app_assoc. reflexivity.
Qed.

Lemma one_rule_prev st p p' s : rd_is_digit p = rd_is_digit p' -> one_rule st p s = one_rule st p' s.
Proof.
  intro H. destruct s as [|c s]; [reflexivity|]. cbn [one_rule].
  rewrite (ends_rule_prev st p p' c _ H). reflexivity.
Qed.

(* the long line of several rules: R1 ++ " " ++ R2 ++ " " ++ ... *)
Definition sp_rules (Rs : list str) : str := concat (map (cons ch_space) Rs).

Lemma sep_sp_rules Rs : forall prev acc,
  Forall (fun R => one_rule lex0 ch_x R = true) Rs ->
  sep lex0 prev [] (sp_rules Rs) acc = (acc ++ map (cons ch_space) Rs, [], lex0).
Proof.
  induction Rs as [|R Rs IH]; intros prev acc H.
  - cbn. rewrite app_nil_r. reflexivity.
  - inversion H as [|? ? HR HRs]; subst. unfold sp_rules. cbn [map concat].
    change ((ch_space :: R) ++ concat (map (cons ch_space) Rs)) with (ch_space :: (R ++ sp_rules Rs)).
    cbn [sep]. change (ends_rule lex0 prev ch_space (hd_or_x (R ++ sp_rules Rs))) with false. cbv iota.
    rewrite (lex_step_plain lex0 ch_space) by reflexivity. cbn [app].
    rewrite (sep_one_rule R lex0 ch_space [ch_space] (sp_rules Rs) acc).
    + rewrite IH by exact HRs. rewrite <- app_assoc. reflexivity.
    + rewrite (one_rule_prev lex0 ch_space ch_x) by reflexivity. exact HR.
    + destruct Rs; reflexivity.
Qed.

Lemma sep_rules R Rs :
  Forall (fun R => one_rule lex0 ch_x R = true) (R :: Rs) ->
  sep lex0 ch_x [] (R ++ sp_rules Rs) [] = (R :: map (cons ch_space) Rs, [], lex0).
Proof.
  intro H. inversion H as [|? ? HR HRs]; subst.
  rewrite (sep_one_rule R lex0 ch_x [] (sp_rules Rs) []); [|exact HR|destruct Rs; reflexivity].
  rewrite sep_sp_rules by exact HRs. reflexivity.
Qed.
(* ------------------------------------------------------------------ cut_equiv *)
Lemma cut_equiv_refl a : cut_equiv a a.
Proof. induction a; constructor; assumption. Qed.

Lemma cut_equiv_app m a b : cut_equiv a b -> cut_equiv (m ++ a) (m ++ b).
Proof. intro H. induction m; [exact H|]. cbn. constructor. assumption. Qed.

Lemma cut_equiv_hd a b : cut_equiv a b -> hd_or_x a = hd_or_x b /\ is_empty a = is_empty b.
Proof. intro H. destruct H; split; reflexivity. Qed.

Lemma last_ws_nondigit w c : all_ws w = true -> rd_is_digit c = false -> rd_is_digit (last w c) = false.
Proof.
  intros H Hc. destruct w as [|x w]; [exact Hc|].
  apply ws_not_digit. apply last_all_ws; [exact H|discriminate].
Qed.

Lemma ws_not_period c : rd_is_ws c = true -> (c =? ch_period) = false.
Proof. intro H. ws_neq. Qed.

Lemma one_rule_ws w : forall st p s, all_ws w = true -> one_rule st p (w ++ s) = one_rule st (last w p) s.
Proof.
  induction w as [|c w IH]; intros st p s H; [reflexivity|].
  cbn in H. apply andb_true_iff in H as [Hc Hw].
  cbn [app one_rule]. unfold ends_rule. rewrite (ws_not_period c Hc). cbn [andb].
  rewrite lex_step_ws by exact Hc. rewrite IH by exact Hw. f_equal.
  destruct w as [|n w]; [reflexivity|]. change (last (n :: w) c = last (n :: w) p). apply last_cons_default.
Qed.

Lemma one_rule_cut_equiv a b : cut_equiv a b -> forall st p, one_rule st p a = one_rule st p b.
Proof.
  induction 1 as [|c a b H IH|c w1 w2 a b Hc H1 H2 H IH]; intros st p.
  - reflexivity.
  - cbn [one_rule]. destruct (cut_equiv_hd _ _ H) as [Eh Ee]. rewrite Eh, Ee, IH. reflexivity.
  - cbn [one_rule]. unfold ends_rule. rewrite (cont_not_period c Hc). cbn [andb].
    rewrite !one_rule_ws by assumption. rewrite <- IH.
    apply one_rule_prev. rewrite !last_ws_nondigit; auto using cont_not_digit.
Qed.

Lemma one_rule_last s : forall st p, one_rule st p s = true ->
  last_or_x s = ch_period /\ lex_scan st s = lex0.
Proof.
  induction s as [|c s IH]; intros st p H; [discriminate|].
  cbn [one_rule] in H. destruct (ends_rule st p c (hd_or_x s)) eqn:E.
  - destruct s; [|discriminate]. apply ends_rule_outside in E as [Eo Ec]. subst c.
    split; [reflexivity|]. rewrite lex_scan_cons, (lex_step_plain st ch_period) by reflexivity. apply outside_lex0, Eo.
  - destruct (IH _ _ H) as [H1 H2]. split.
    + destruct s as [|c2 s]; [discriminate|]. exact H1.
    + rewrite lex_scan_cons. exact H2.
Qed.

(* ------------------------------------------------------------------ pieces *)
Lemma lay_concat more : forall d s, concat (bodies (lay d more s)) = s.
Proof.
  induction more as [|[n d'] more IH]; intros d s.
  - cbn. apply app_nil_r.
  - cbn [lay bodies map concat snd]. fold (bodies (lay d' more (skipn n s))). rewrite IH. apply firstn_skipn.
Qed.

Lemma join_sp_cons m ms : ms <> [] -> join_sp (m :: ms) = m ++ [ch_space] ++ join_sp ms.
Proof. destruct ms; [congruence|reflexivity]. Qed.

Lemma split_last (m : str) : m <> [] -> exists m0, m = m0 ++ [last_or_x m].
Proof.
  intro H. destruct (rev_case m) as [E|[m0 [c E]]]; [congruence|]. exists m0. subst m.
  unfold last_or_x. rewrite last_snoc. reflexivity.
Qed.

Lemma piece_inq final st p : piece_ok final st p = true -> l_inq (lex_scan st (snd p)) = false.
Proof.
  unfold piece_ok. intro H. repeat (apply andb_true_iff in H as [H ?]).
  match goal with X : negb (l_inq _) = true |- _ => apply negb_true_iff in X; exact X end.
Qed.

Lemma pieces_trimmed_nonempty ps : forall st, pieces_ok st ps = true -> Forall (fun m => m <> []) (trimmed ps).
Proof.
  induction ps as [|p ps IH]; intros st H; [constructor|].
  destruct ps as [|p2 ps].
  - cbn [pieces_ok] in H. constructor; [|constructor]. apply (piece_end _ _ _ H).
  - change (pieces_ok st (p :: p2 :: ps)) with (piece_ok false st p && pieces_ok (lex_scan st (snd p)) (p2 :: ps)) in H.
    apply andb_true_iff in H as [Hp Hps]. constructor; [apply (piece_end _ _ _ Hp)|]. apply (IH _ Hps).
Qed.

Lemma trim_start_app_nonws m s : m <> [] -> rd_is_ws (hd_or_x m) = false -> rd_trim_start (m ++ s) = m ++ s.
Proof. intros Hne H. destruct m as [|c m]; [congruence|]. cbn in *. rewrite H. reflexivity. Qed.

Lemma pieces_cut_equiv ps : forall st, pieces_ok st ps = true ->
  cut_equiv (rd_trim_start (concat (bodies ps))) (join_sp (trimmed ps)).
Proof.
  induction ps as [|p ps IH]; intros st H; [discriminate|].
  destruct ps as [|p2 ps].
  - cbn [pieces_ok] in H. cbn [bodies trimmed map concat join_sp]. rewrite app_nil_r.
    unfold piece_ok in H. repeat (apply andb_true_iff in H as [H ?]).
    match goal with X : (last_or_x (snd p) =? ch_period) = true |- _ => apply N.eqb_eq in X; rename X into Hp end.
    set (b := snd p) in *.
    destruct (trim_start_decomp b) as [l [Hl E]].
    assert (Hl2 : last_or_x (rd_trim_start b) = ch_period).
    { destruct (rd_trim_start b) as [|t0 ts] eqn:Et.
      - rewrite app_nil_r in E. exfalso. destruct l as [|c l]; [rewrite E in Hp; discriminate|].
        assert (X : rd_is_ws (last_or_x b) = true) by (rewrite E; apply last_all_ws; [exact Hl|discriminate]).
        rewrite Hp in X. discriminate.
      - rewrite <- Hp. rewrite E. unfold last_or_x. symmetry. apply last_app_nonempty. discriminate. }
    unfold rd_trim. rewrite trim_end_id by (rewrite Hl2; reflexivity). apply cut_equiv_refl.
  - change (pieces_ok st (p :: p2 :: ps)) with (piece_ok false st p && pieces_ok (lex_scan st (snd p)) (p2 :: ps)) in H.
    apply andb_true_iff in H as [Hp Hps].
    specialize (IH _ Hps).
    destruct (piece_end _ _ _ Hp) as [Hne _].
    assert (Hc : is_cont (last_or_x (rd_trim (snd p))) = true).
    { unfold piece_ok in Hp. repeat (apply andb_true_iff in Hp as [Hp ?]). assumption. }
    change (concat (bodies (p :: p2 :: ps))) with (snd p ++ concat (bodies (p2 :: ps))).
    change (trimmed (p :: p2 :: ps)) with (rd_trim (snd p) :: trimmed (p2 :: ps)).
    rewrite join_sp_cons by discriminate.
    remember (snd p) as b eqn:Eb. remember (concat (bodies (p2 :: ps))) as rest eqn:Erest.
    remember (join_sp (trimmed (p2 :: ps))) as J eqn:EJ. clear Eb Erest EJ.
    destruct (trim_decomp b) as [l [r [Hl [Hr E]]]].
    destruct (trim_ends b) as [E0|[Hh _]]; [congruence|].
    destruct (split_last _ Hne) as [m0 Em].
    destruct (trim_start_decomp rest) as [l' [Hl' E']].
    rewrite E at 1. rewrite <- !app_assoc. rewrite trim_start_ws by exact Hl.
    rewrite trim_start_app_nonws by assumption.
    rewrite Em. rewrite <- !app_assoc. apply cut_equiv_app. cbn [app].
    rewrite E'. rewrite app_assoc.
    change (ch_space :: J) with ([ch_space] ++ J).
    apply ce_cut; [exact Hc| |reflexivity|exact IH].
    rewrite all_ws_app, Hr, Hl'. reflexivity.
Qed.

Lemma app_line_app_line ll m X : m <> [] ->
  app_line (app_line ll m) X = app_line ll (m ++ [ch_space] ++ X).
Proof.
  intro H. unfold app_line at 1.
  replace (0 <? length (app_line ll m))%nat with true.
  - unfold app_line. rewrite <- !app_assoc. reflexivity.
  - symmetry. apply Nat.ltb_lt. unfold app_line. rewrite app_length. destruct m; [congruence|cbn; lia].
Qed.

Lemma fold_app_line ms : forall ll, ms <> [] -> Forall (fun m => m <> []) ms ->
  fold_left app_line ms ll = app_line ll (join_sp ms).
Proof.
  induction ms as [|m ms IH]; intros ll Hne H; [congruence|].
  inversion H as [|? ? Hm Hms]; subst.
  destruct ms as [|m2 ms]; [reflexivity|].
  cbn [fold_left]. change (fold_left app_line (m2 :: ms) (app_line ll m) = app_line ll (join_sp (m :: m2 :: ms))).
  rewrite IH by (try discriminate; exact Hms).
  rewrite app_line_app_line by exact Hm. reflexivity.
Qed.

Lemma pieces_nonempty ps st : pieces_ok st ps = true -> trimmed ps <> [].
Proof. destruct ps; [discriminate|]. discriminate. Qed.

(* ------------------------------------------------------------------ one rule text *)
Definition good_text (R : str) : Prop := one_rule lex0 ch_x R = true /\ rd_trim R = R /\ R <> [].

Lemma wf_text_parts t : wf_text t = true ->
  rd_is_ws (hd_or_x t) = false /\ one_rule lex0 ch_x t = true /\ no_comment lex0 ch_x t = true.
Proof.
  unfold wf_text. intro H. apply andb_true_iff in H as [H H3]. apply andb_true_iff in H as [H1 H2].
  apply negb_true_iff in H1. auto.
Qed.

Lemma expected_rule_good rl t :
  wf_text t = true -> pieces_ok lex0 (pieces rl t) = true ->
  cut_equiv t (expected_rule rl t) /\ good_text (expected_rule rl t).
Proof.
  intros Hwf Hok. destruct (wf_text_parts _ Hwf) as [Hh [Ho _]].
  assert (Hce : cut_equiv t (expected_rule rl t)).
  { pose proof (pieces_cut_equiv _ _ Hok) as Hce.
    unfold pieces in Hce at 1. rewrite lay_concat in Hce. rewrite trim_start_id in Hce by exact Hh. exact Hce. }
  remember (expected_rule rl t) as R eqn:ER. clear ER.
  split; [exact Hce|].
  assert (Ho' : one_rule lex0 ch_x R = true).
  { rewrite <- (one_rule_cut_equiv _ _ Hce). exact Ho. }
  destruct (one_rule_last _ _ _ Ho') as [Hl _].
  split; [exact Ho'|]. split.
  - apply trim_id.
    + destruct (cut_equiv_hd _ _ Hce) as [Eh _]. rewrite <- Eh. exact Hh.
    + rewrite Hl. reflexivity.
  - intro E. rewrite E in Ho'. discriminate.
Qed.
(* ------------------------------------------------------------------ all rules *)
Lemma rules_expected rls : forall texts,
  rules_ok rls texts = true -> forallb wf_text texts = true ->
  Forall2 cut_equiv texts (expected rls texts) /\ Forall good_text (expected rls texts).
Proof.
  induction rls as [|rl rls IH]; intros [|t texts] Hok Hwf; try discriminate.
  - split; constructor.
  - cbn in Hok, Hwf. apply andb_true_iff in Hok as [Hp Hok]. apply andb_true_iff in Hwf as [Ht Hwf].
    destruct (IH _ Hok Hwf) as [H1 H2]. destruct (expected_rule_good rl t Ht Hp) as [H3 H4].
    cbn [expected]. split; constructor; assumption.
Qed.

Lemma rf_loop_rules rls : forall texts rest n ll,
  rules_ok rls texts = true -> forallb wf_text texts = true ->
  exists n', rf_loop (render_rules rls texts ++ rest) n ll 0%Z 0%Z =
             rf_loop rest n' (fold_left app_line (expected rls texts) ll) 0%Z 0%Z.
Proof.
  induction rls as [|rl rls IH]; intros [|t texts] rest n ll Hok Hwf; try discriminate.
  - exists n. reflexivity.
  - cbn in Hok, Hwf. apply andb_true_iff in Hok as [Hp Hok]. apply andb_true_iff in Hwf as [Ht Hwf].
    destruct (wf_text_parts _ Ht) as [_ [Ho Hn]].
    cbn [render_rules expected fold_left]. rewrite <- app_assoc.
    assert (Hc : concat (bodies (pieces rl t)) = t) by apply lay_concat.
    destruct (rf_loop_pieces (pieces rl t) lex0 (render_rules rls texts ++ rest) n ll eq_refl Hp) as [_ [n1 E1]].
    { rewrite Hc. exact Hn. }
    rewrite Hc in E1. destruct (one_rule_last _ _ _ Ho) as [_ Hs]. rewrite Hs in E1. cbn [l_rd l_sd lex0] in E1.
    rewrite fold_app_line in E1 by (eauto using pieces_nonempty, pieces_trimmed_nonempty).
    destruct (IH texts rest n1 (app_line ll (expected_rule rl t)) Hok Hwf) as [n2 E2].
    exists n2. etransitivity; [exact E1|]. exact E2.
Qed.

Lemma fold_app_line_nonempty Rs : forall ll, ll <> [] -> fold_left app_line Rs ll = ll ++ sp_rules Rs.
Proof.
  induction Rs as [|R Rs IH]; intros ll H.
  - cbn. rewrite app_nil_r. reflexivity.
  - cbn [fold_left]. rewrite IH.
    + unfold app_line. replace (0 <? length ll)%nat with true
        by (symmetry; apply Nat.ltb_lt; destruct ll; [congruence|cbn; lia]).
      unfold sp_rules. cbn [map concat]. rewrite <- !app_assoc. reflexivity.
    + unfold app_line. destruct (0 <? length ll)%nat; destruct ll; try congruence; discriminate.
Qed.

Lemma trim_sp_good R : good_text R -> rd_trim (ch_space :: R) = R.
Proof.
  intros [_ [H _]]. change (ch_space :: R) with ([ch_space] ++ R). rewrite trim_ws_app by reflexivity. exact H.
Qed.

Lemma map_trim_sp Rs : Forall good_text Rs -> map rd_trim (map (cons ch_space) Rs) = Rs.
Proof.
  induction 1 as [|R Rs HR HRs IH]; [reflexivity|]. cbn [map]. rewrite trim_sp_good by exact HR. rewrite IH. reflexivity.
Qed.

Lemma good_one_rule Rs : Forall good_text Rs -> Forall (fun R => one_rule lex0 ch_x R = true) Rs.
Proof. intro H. eapply Forall_impl; [|exact H]. intros R [H1 _]. exact H1. Qed.

(* reading the long line of good rule texts *)
Lemma read_long_line Rs : Forall good_text Rs ->
  (do s <- separate_rules (fold_left app_line Rs []);
   match s with
   | ROk rules => Ok (ROk (map rd_trim rules))
   | RErr msg => Ok (RErr msg)
   end) = Ok (ROk Rs).
Proof.
  intro H. destruct Rs as [|R Rs].
  - reflexivity.
  - cbn [fold_left]. change (app_line [] R) with R.
    inversion H as [|? ? HR HRs]; subst.
    rewrite fold_app_line_nonempty by (destruct HR as [_ [_ HR]]; exact HR).
    rewrite (separate_rules_ok _ _ _ _ (sep_rules R Rs (good_one_rule _ H))) by reflexivity.
    cbn [bind map]. rewrite map_trim_sp by exact HRs. destruct HR as [_ [HR _]]. rewrite HR. reflexivity.
Qed.

(* ------------------------------------------------------------------ load_spec *)
Theorem load_spec : forall L texts,
  legal L texts = true -> forallb wf_text texts = true ->
  read_facts_and_rules (render L texts) = Ok (ROk (expected (lay_rules L) texts)) /\
  Forall2 cut_equiv texts (expected (lay_rules L) texts).
Proof.
  intros L texts HL Hwf. unfold legal in HL. apply andb_true_iff in HL as [Hok Htr].
  destruct (rules_expected _ _ Hok Hwf) as [Hce Hgood]. split; [|exact Hce].
  unfold read_facts_and_rules, render.
  destruct (rf_loop_rules (lay_rules L) texts (map render_blank (lay_trailer L)) 1 [] Hok Hwf) as [n1 E1].
  rewrite E1.
  destruct (rf_loop_blanks (lay_trailer L) lex0 [] n1 (fold_left app_line (expected (lay_rules L) texts) []) eq_refl Htr)
    as [n2 E2].
  rewrite app_nil_r in E2. cbn [l_rd l_sd lex0] in E2. rewrite E2. cbn [rf_loop bind].
  apply read_long_line, Hgood.
Qed.
(* ------------------------------------------------------------------ totality *)
Lemma sc_loop_total rest : forall i rd sd inq prev,
  ((prev =? ch_slash) = true -> (1 <= i)%nat) ->
  exists idx rd' sd', sc_loop rest i rd sd inq prev = Ok (idx, rd', sd') /\
                      (forall j, idx = Some j -> (j <= i + length rest)%nat).
Proof.
  induction rest as [|c rest IH]; intros i rd sd inq prev Hp.
  - exists None, rd, sd. split; [reflexivity|discriminate].
  - assert (Hrec : forall rd sd inq, exists idx rd' sd',
              sc_loop rest (S i) rd sd inq c = Ok (idx, rd', sd') /\
              (forall j, idx = Some j -> (j <= i + length (c :: rest))%nat)).
    { intros rd0 sd0 inq0. destruct (IH (S i) rd0 sd0 inq0 c) as [idx [rd' [sd' [E B]]]]; [intros; lia|].
      exists idx, rd', sd'. split; [exact E|]. intros j Hj. specialize (B j Hj). cbn [length]. lia. }
    cbn [sc_loop].
    destruct (c =? ch_lparen); [apply Hrec|].
    destruct (c =? ch_lbrack); [apply Hrec|].
    destruct (c =? ch_rparen); [apply Hrec|].
    destruct (c =? ch_rbrack); [apply Hrec|].
    destruct (c =? ch_quote); [apply Hrec|].
    destruct ((rd =? 0)%Z && (sd =? 0)%Z && negb inq); [|apply Hrec].
    destruct ((c =? ch_hash) || (c =? ch_percent)).
    + exists (Some i), rd, sd. split; [reflexivity|]. intros j Hj. inversion Hj; subst. lia.
    + destruct ((c =? ch_slash) && (prev =? ch_slash)) eqn:Es; [|apply Hrec].
      apply andb_true_iff in Es as [_ Es]. specialize (Hp Es).
      unfold rd_usub. replace (1 <=? i)%nat with true by (symmetry; apply Nat.leb_le; exact Hp).
      cbn [bind]. exists (Some (i - 1)%nat), rd, sd. split; [reflexivity|].
      intros j Hj. inversion Hj; subst. lia.
Qed.

Lemma strip_comments_at_total line rd sd : exists r, strip_comments_at line rd sd = Ok r.
Proof.
  unfold strip_comments_at.
  destruct (sc_loop_total line 0 rd sd false ch_x) as [idx [rd' [sd' [E B]]]]; [discriminate|].
  rewrite E. cbn [bind]. destruct idx as [j|]; [|eexists; reflexivity].
  unfold rd_slice_to. specialize (B j eq_refl). cbn [plus] in B.
  replace (j <=? length line)%nat with true by (symmetry; apply Nat.leb_le; exact B).
  cbn [bind]. eexists. reflexivity.
Qed.

Lemma strip_comments_total line : exists r, strip_comments line = Ok r.
Proof.
  unfold strip_comments. destruct (strip_comments_at_total line 0 0) as [r E]. rewrite E. eexists. reflexivity.
Qed.

Lemma check_last_char_total line n : exists r, check_last_char line n = Ok r.
Proof.
  unfold check_last_char. destruct (0 <? length line)%nat eqn:E; [|eexists; reflexivity].
  apply Nat.ltb_lt in E. unfold rd_usub. replace (1 <=? length line)%nat with true by (symmetry; apply Nat.leb_le; lia).
  cbn [bind]. unfold rd_index. rewrite nth_error_last by (destruct line; [cbn in E; lia|discriminate]).
  cbn [bind]. destruct (_ && _); eexists; reflexivity.
Qed.

Lemma tel_loop_bound rest : forall index, (tel_loop rest index <= index + length rest)%nat.
Proof.
  induction rest as [|c rest IH]; intro index; cbn [tel_loop length]; [lia|].
  destruct (c =? ch_period); [lia|]. destruct (index =? 100)%nat; [lia|]. specialize (IH (S index)). lia.
Qed.

Lemma trim_error_line_total chrs : exists r, trim_error_line chrs = Ok r.
Proof.
  unfold trim_error_line, rd_slice_to. pose proof (tel_loop_bound chrs 0) as B. cbn [plus] in B.
  replace (tel_loop chrs 0 <=? length chrs)%nat with true by (symmetry; apply Nat.leb_le; exact B).
  eexists. reflexivity.
Qed.

Lemma unmatched_bracket_total line rd sd : exists r, unmatched_bracket line rd sd = Ok r.
Proof.
  unfold unmatched_bracket. destruct ((rd =? 0)%Z && (sd =? 0)%Z); [eexists; reflexivity|].
  destruct (length (rd_trim_start line) =? 0)%nat; cbn [bind]; [eexists; reflexivity|].
  destruct (trim_error_line_total (rd_trim_start line)) as [s E]. rewrite E. cbn [bind]. eexists. reflexivity.
Qed.

Lemma separate_rules_total text : exists r, separate_rules text = Ok r.
Proof.
  unfold separate_rules. rewrite sr_loop_text. destruct (sep lex0 ch_x [] text []) as [[rules cur] st].
  cbn [sep_result bind]. destruct (unmatched_bracket_total cur (l_rd st) (l_sd st)) as [u E]. rewrite E. cbn [bind].
  destruct u; [eexists; reflexivity|].
  destruct (0 <? length (rd_trim cur))%nat; [|eexists; reflexivity].
  destruct (trim_error_line_total (rd_trim cur)) as [s Es]. rewrite Es. cbn [bind]. eexists. reflexivity.
Qed.

Lemma rf_loop_total lines : forall n ll rd sd, exists r, rf_loop lines n ll rd sd = Ok r.
Proof.
  induction lines as [|line lines IH]; intros n ll rd sd; [eexists; reflexivity|].
  cbn [rf_loop]. destruct (strip_comments_at_total line rd sd) as [[[m rd'] sd'] E]. rewrite E. cbn [bind].
  destruct (0 <? length m)%nat; [|apply IH].
  destruct (check_last_char_total m n) as [c Ec]. rewrite Ec. cbn [bind].
  destruct c; [eexists; reflexivity|apply IH].
Qed.

Theorem reader_total : forall lines, exists r, read_facts_and_rules lines = Ok r.
Proof.
  intro lines. unfold read_facts_and_rules. destruct (rf_loop_total lines 1 [] 0%Z 0%Z) as [r E]. rewrite E. cbn [bind].
  destruct r as [ll|msg]; [|eexists; reflexivity].
  destruct (separate_rules_total ll) as [s Es]. rewrite Es. cbn [bind]. destruct s; eexists; reflexivity.
Qed.

(* ------------------------------------------------------------------ separate_rules never invents text *)
Lemma sep_concat s : forall st prev cur acc rules cur' st',
  sep st prev cur s acc = (rules, cur', st') ->
  concat rules ++ cur' = concat acc ++ cur ++ s.
Proof.
  induction s as [|c s IH]; intros st prev cur acc rules cur' st' H.
  - cbn in H. inversion H; subst. rewrite app_nil_r. reflexivity.
  - cbn [sep] in H. destruct (ends_rule st prev c (hd_or_x s)).
    + apply IH in H. rewrite H. rewrite concat_app. cbn [concat]. rewrite app_nil_r, <- !app_assoc. reflexivity.
    + apply IH in H. rewrite H. rewrite <- !app_assoc. reflexivity.
Qed.

(* whatever separate_rules returns, glued together, is the text it was given, up to white
   space after the last rule *)
Theorem separate_rules_partition : forall text rules,
  separate_rules text = Ok (ROk rules) ->
  exists rest, all_ws rest = true /\ concat rules ++ rest = text.
Proof.
  intros text rules H. unfold separate_rules in H. rewrite sr_loop_text in H.
  destruct (sep lex0 ch_x [] text []) as [[rules0 cur] st] eqn:Es. cbn [sep_result bind] in H.
  destruct (unmatched_bracket_total cur (l_rd st) (l_sd st)) as [u E]. rewrite E in H. cbn [bind] in H.
  destruct u; [discriminate|].
  destruct (0 <? length (rd_trim cur))%nat eqn:El.
  - destruct (trim_error_line_total (rd_trim cur)) as [s Et]. rewrite Et in H. discriminate.
  - inversion H; subst rules0. exists cur. split.
    + apply Nat.ltb_ge in El. destruct (rd_trim cur) eqn:Ec; [|cbn in El; lia].
      destruct (trim_decomp cur) as [l [r [Hl [Hr E2]]]]. rewrite Ec in E2. cbn [app] in E2.
      rewrite E2, all_ws_app, Hl, Hr. reflexivity.
    + apply sep_concat in Es. cbn in Es. exact Es.
Qed.

(* ------------------------------------------------------------------ layouts that give the texts back exactly *)
Lemma join_sp_sp_rules m ms : join_sp (m :: ms) = m ++ sp_rules ms.
Proof.
  revert m. induction ms as [|m2 ms IH]; intro m.
  - cbn. rewrite app_nil_r. reflexivity.
  - change (join_sp (m :: m2 :: ms)) with (m ++ [ch_space] ++ join_sp (m2 :: ms)). rewrite IH.
    unfold sp_rules. cbn [map concat]. reflexivity.
Qed.

Lemma exact_rest ps : exact_pieces false ps = true -> sp_rules (trimmed ps) = concat (bodies ps).
Proof.
  induction ps as [|p ps IH]; intro H; [reflexivity|].
  cbn [exact_pieces] in H. apply andb_true_iff in H as [Hb Hps].
  unfold sp_rules in *. cbn [trimmed bodies map concat]. fold (trimmed ps). fold (bodies ps). rewrite (IH Hps).
  unfold body_exact in Hb. destruct (snd p) as [|c m]; [discriminate|].
  apply andb_true_iff in Hb as [Hc Hm]. apply N.eqb_eq in Hc. subst c. apply str_eqb_eq in Hm.
  change (ch_space :: m) with ([ch_space] ++ m) at 1. rewrite trim_ws_app by reflexivity. rewrite Hm. reflexivity.
Qed.

Lemma exact_expected_rule rl t : exact_pieces true (pieces rl t) = true -> expected_rule rl t = t.
Proof.
  intro H. unfold expected_rule. fold (trimmed (pieces rl t)).
  pose proof (lay_concat (snd rl) (fst rl) t) as Hc. fold (pieces rl t) in Hc.
  destruct (pieces rl t) as [|p ps]; [cbn in Hc; subst t; reflexivity|].
  cbn [exact_pieces] in H. apply andb_true_iff in H as [Hb Hps].
  change (trimmed (p :: ps)) with (rd_trim (snd p) :: trimmed ps). rewrite join_sp_sp_rules.
  rewrite (exact_rest _ Hps). cbn [body_exact] in Hb. apply str_eqb_eq in Hb. rewrite Hb. exact Hc.
Qed.

Lemma exact_expected rls : forall texts, length rls = length texts ->
  exact_layout rls texts = true -> expected rls texts = texts.
Proof.
  induction rls as [|rl rls IH]; intros [|t texts] Hl H; try discriminate; [reflexivity|].
  cbn in H. apply andb_true_iff in H as [H1 H2]. cbn [expected]. rewrite exact_expected_rule by exact H1.
  rewrite IH; [reflexivity| cbn in Hl; lia | exact H2].
Qed.

Lemma rules_ok_length rls : forall texts, rules_ok rls texts = true -> length rls = length texts.
Proof.
  induction rls as [|rl rls IH]; intros [|t texts] H; try discriminate; [reflexivity|].
  cbn in H. apply andb_true_iff in H as [_ H]. cbn. f_equal. apply IH, H.
Qed.

(* ------------------------------------------------------------------ load_kb_from_file *)
Section LoadKb.
  Variable parse_rule : str -> res (presult rule).

  (* loading the file = parsing the separated rule texts one by one (lk_loop is that loop) *)
  Theorem load_kb_spec : forall L texts kb,
    legal L texts = true -> forallb wf_text texts = true ->
    load_kb_from_file parse_rule kb (render L texts) =
    lk_loop parse_rule (expected (lay_rules L) texts) kb.
  Proof.
    intros L texts kb HL Hwf. unfold load_kb_from_file.
    destruct (load_spec L texts HL Hwf) as [E _]. rewrite E. reflexivity.
  Qed.

  Lemma lk_loop_agree ts : forall ts' kb,
    Forall2 (fun t t' => parse_rule t = parse_rule t') ts ts' ->
    lk_loop parse_rule ts kb = lk_loop parse_rule ts' kb.
  Proof.
    induction ts as [|t ts IH]; intros ts' kb H; inversion H as [|? t' ? ts0 Ht Hts]; subst; [reflexivity|].
    cbn [lk_loop]. rewrite <- Ht. destruct (parse_rule t) as [[r|]| |]; cbn [bind]; try reflexivity.
    destruct (add_rules kb [r]); cbn [bind]; try reflexivity. apply IH, Hts.
  Qed.

  (* ... which is parsing the ORIGINAL texts one by one, if the parser gives the same rule for a
     text and for the text with its cut points respaced *)
  Theorem load_kb_each : forall L texts kb,
    legal L texts = true -> forallb wf_text texts = true ->
    Forall2 (fun t t' => parse_rule t = parse_rule t') texts (expected (lay_rules L) texts) ->
    load_kb_from_file parse_rule kb (render L texts) = lk_loop parse_rule texts kb.
  Proof.
    intros L texts kb HL Hwf Hp. rewrite load_kb_spec by assumption. symmetry. apply lk_loop_agree, Hp.
  Qed.

  (* no assumption on the parser when every line break stands in front of a single space *)
  Theorem load_kb_exact : forall L texts kb,
    legal L texts = true -> forallb wf_text texts = true ->
    exact_layout (lay_rules L) texts = true ->
    load_kb_from_file parse_rule kb (render L texts) = lk_loop parse_rule texts kb.
  Proof.
    intros L texts kb HL Hwf He. rewrite load_kb_spec by assumption.
    rewrite exact_expected; [reflexivity| |exact He].
    unfold legal in HL. apply andb_true_iff in HL as [HL _]. apply rules_ok_length, HL.
  Qed.
End LoadKb.

(* the weaker reading of the property: the given texts (up to white space at the cuts) or an
   error, never another list *)
Theorem load_never_invents : forall L texts r,
  legal L texts = true -> forallb wf_text texts = true ->
  read_facts_and_rules (render L texts) = Ok r ->
  match r with
  | ROk texts' => Forall2 cut_equiv texts texts'
  | RErr _ => True
  end.
Proof.
  intros L texts r HL Hwf H. destruct (load_spec L texts HL Hwf) as [E Hc].
  rewrite E in H. inversion H; subst. exact Hc.
Qed.
