(* C11, second half (2/4): the list traversals (Model/Lists.v), arithmetic (Model/Arith.v) and
   unification with the evaluation of function terms (Model/Unify.v) respect "equal up to names".
   `join` is excluded by the relation itself (see Proofs/NamesRel.v). *)
From Coq Require Import Lia.
From Suiron Require Import Model.Term Model.Subst Model.Show Model.Lists Model.Arith Model.Unify
  Proofs.NamesRel.
Open Scope N_scope.

Ltac rbind := eapply rrel_bind.

Section Prims.
  Variable V : vrel.
  Hypothesis Vfun : vfun V.
  Notation sim := (sim V).
  Notation sims := (sims V).

  (* ---- Model/Lists.v ---- *)
  Lemma node_count_sim l l' : sim l l' -> node_count l = node_count l'.
  Proof. destruct 1; reflexivity. Qed.

  Lemma link_front_sim x x' tl l l' : sim x x' -> sim l l' ->
    rrel sim (link_front x tl l) (link_front x' tl l').
  Proof.
    intros Hx Hl. destruct Hl; cbn; try exact I. constructor; [exact Hx|]. now constructor.
  Qed.

  Lemma make_list_of_terms_sim l l' : Forall2 sim l l' ->
    sim (make_list_of_terms l) (make_list_of_terms l').
  Proof.
    unfold make_list_of_terms. induction 1 as [|x y l l' Hxy Hl IH]; cbn [fold_right].
    - apply sim_empty_list.
    - rewrite (node_count_sim _ _ IH). constructor; eassumption.
  Qed.

  Lemma walk_sim : forall fuel stop h h' l l' s s', sim h h' -> sim l l' -> sims s s' ->
    rrel (Forall2 sim) (walk fuel stop h l s) (walk fuel stop h' l' s').
  Proof.
    induction fuel as [|f IH]; intros stop h h' l l' s s' Hh Hl Hs; cbn [walk];
      rewrite <- (sim_is_nil _ _ _ Hh); (destruct (is_nil h); [cbn; constructor|]); [exact I|].
    assert (forall a a' n n', sim a a' -> sim n n' ->
      rrel (Forall2 sim) (do r <- walk f stop a n s; Ok (h :: r)) (do r <- walk f stop a' n' s'; Ok (h' :: r))) as Hstep.
    { intros a a' n n' Ha Hn. rbind; [apply IH; eassumption|]. intros r r' Hr. cbn. now constructor. }
    destruct Hl as [| |a|x|z|id a b Hv|ts ts' HF|a a' n n' c tv Ha Hn|name args args' Hj HF];
      try (cbn; constructor; [eassumption|constructor]).
    rewrite <- (sim_is_anon _ _ _ Ha). destruct (tv && negb (is_anon a)); [|apply Hstep; eassumption].
    rbind; [apply get_list_sim; eassumption|].
    intros g g' Hg. destruct g as [g|], g' as [g'|]; cbn in Hg; try contradiction.
    - destruct Hg; try (apply Hstep; eassumption).
    - destruct stop; [cbn; constructor; [eassumption|constructor]|apply Hstep; eassumption].
  Qed.

  Lemma count_terms_sim fuel t t' s s' : sim t t' -> sims s s' ->
    rrel eq (count_terms fuel t s) (count_terms fuel t' s').
  Proof.
    intros Ht Hs. unfold count_terms.
    assert (rrel (orel sim)
              (match t with TVar _ _ => get_ground_term fuel t s | _ => Ok (Some t) end)
              (match t' with TVar _ _ => get_ground_term fuel t' s' | _ => Ok (Some t') end)) as Hu.
    { destruct Ht; try (cbn; now constructor). apply get_ground_term_sim; [now constructor|exact Hs]. }
    rbind; [exact Hu|]. intros u u' Hg. destruct u as [u|], u' as [u'|]; cbn in Hg; try contradiction; [|reflexivity].
    destruct Hg; try reflexivity.
    rbind; [apply walk_sim; eassumption|]. intros r r' Hr. cbn. now rewrite (Forall2_length' _ _ _ Hr).
  Qed.

  Lemma get_terms_sim fuel t t' s s' : sim t t' -> sims s s' ->
    rrel (Forall2 sim) (get_terms fuel t s) (get_terms fuel t' s').
  Proof.
    intros Ht Hs. unfold get_terms. rbind; [apply get_ground_term_sim; eassumption|].
    intros g g' Hg. destruct g as [g|], g' as [g'|]; cbn in Hg; try contradiction.
    - destruct Hg; try (cbn; constructor; [now constructor|constructor]).
      apply walk_sim; eassumption.
    - cbn. constructor; [eassumption|constructor].
  Qed.

  (* ---- Model/Arith.v ---- *)
  Lemma get_numbers_sim fuel : forall l l' s s', Forall2 sim l l' -> sims s s' ->
    rrel eq (get_numbers fuel l s) (get_numbers fuel l' s').
  Proof.
    intros l l' s s' Hl Hs. induction Hl as [|x y l l' Hxy Hl IH]; cbn [get_numbers]; [reflexivity|].
    rbind; [apply get_ground_term_sim; eassumption|].
    intros g g' Hg. destruct g as [g|], g' as [g'|]; cbn in Hg; try contradiction; [|exact I].
    destruct Hg; try exact I.
    - rbind; [exact IH|]. intros r r' <-. destruct r. reflexivity.
    - rbind; [exact IH|]. intros r r' <-. destruct r. reflexivity.
  Qed.

  Lemma evaluate_sim fuel op l l' s s' : Forall2 sim l l' -> sims s s' ->
    rrel eq (evaluate fuel op l s) (evaluate fuel op l' s').
  Proof.
    intros Hl Hs. unfold evaluate. rbind; [apply get_numbers_sim; eassumption|].
    intros r r' <-. destruct (let '(ns, has_float) := r in _); reflexivity.
  Qed.

  Lemma evaluate_const fuel op l s v : evaluate fuel op l s = Ok v -> sim v v.
  Proof.
    unfold evaluate. destruct (get_numbers fuel l s) as [[ns hf]| |]; cbn [bind]; try discriminate.
    destruct hf.
    - destruct op; try (intro H; inversion H; constructor);
        destruct (get_floats ns); try discriminate; intro H; inversion H; constructor.
    - destruct op;
        try (destruct (int_fold _ _ _); cbn [bind]; try discriminate; intro H; inversion H; constructor);
        destruct (get_integers ns); try discriminate;
        destruct (int_fold _ _ _); cbn [bind]; try discriminate; intro H; inversion H; constructor.
  Qed.

  (* ---- Model/Unify.v ---- *)
  Lemma eval_arith_sim fuel op l l' s s' : Forall2 sim l l' -> sims s s' ->
    rrel (orel sim) (do v <- evaluate fuel op l s; Ok (Some v)) (do v <- evaluate fuel op l' s'; Ok (Some v)).
  Proof.
    intros Hl Hs. pose proof (evaluate_sim fuel op _ _ _ _ Hl Hs) as He.
    destruct (evaluate fuel op l s) as [v| |] eqn:E1, (evaluate fuel op l' s') as [v'| |]; cbn in He; try contradiction; auto.
    subst v'. cbn. eapply evaluate_const, E1.
  Qed.

  (* join: only for arguments without variables, where related means equal *)
  Lemma walk_novars : forall fuel stop h l s r, novars h = true -> novars l = true ->
    walk fuel stop h l s = Ok r -> forallb novars r = true.
  Proof.
    induction fuel as [|f IH]; intros stop h l s r Hh Hl; cbn [walk]; destruct (is_nil h);
      try (intro H; inversion H; reflexivity); try discriminate.
    assert (forall a n, novars a = true -> novars n = true ->
              (do r0 <- walk f stop a n s; Ok (h :: r0)) = Ok r -> forallb novars r = true) as Hstep.
    { intros a n Ha Hn H. destruct (walk f stop a n s) as [r0| |] eqn:E; cbn in H; try discriminate.
      inversion H; subst. cbn. rewrite Hh. eapply IH; [exact Ha|exact Hn|exact E]. }
    destruct l; try (intro H; inversion H; subst; cbn; now rewrite Hh).
    cbn [novars] in Hl. apply andb_true_iff in Hl as [Hl1 Hl2].
    destruct (tv && negb (is_anon l1)); [|apply Hstep; assumption].
    destruct l1; cbn [get_list bind novars] in *; try discriminate; try (apply Hstep; cbn; assumption).
    - destruct stop; [intro H; inversion H; subst; cbn; now rewrite Hh|apply Hstep; cbn; assumption].
    - destruct stop; [intro H; inversion H; subst; cbn; now rewrite Hh|apply Hstep; cbn; assumption].
    - destruct stop; [intro H; inversion H; subst; cbn; now rewrite Hh|apply Hstep; cbn; assumption].
    - destruct stop; [intro H; inversion H; subst; cbn; now rewrite Hh|apply Hstep; cbn; assumption].
    - destruct stop; [intro H; inversion H; subst; cbn; now rewrite Hh|apply Hstep; cbn; assumption].
    - destruct stop; [intro H; inversion H; subst; cbn; now rewrite Hh|apply Hstep; cbn; assumption].
    - apply andb_true_iff in Hl1 as [A1 A2]. apply Hstep; assumption.
    - destruct stop; [intro H; inversion H; subst; cbn; now rewrite Hh|apply Hstep; cbn; assumption].
  Qed.

  Lemma get_terms_novars fuel t s r : novars t = true -> get_terms fuel t s = Ok r ->
    forallb novars r = true.
  Proof.
    intros Ht. unfold get_terms.
    destruct t; try discriminate; destruct fuel; cbn [get_ground_term bind];
      try (intro H; inversion H; subst; cbn; cbn in Ht; now rewrite ?Ht).
    - cbn [novars] in Ht. apply andb_true_iff in Ht as [H1 H2]. apply walk_novars; assumption.
    - cbn [novars] in Ht. apply andb_true_iff in Ht as [H1 H2]. apply walk_novars; assumption.
  Qed.

  Lemma forallb_app' {A} (p : A -> bool) a b : forallb p a = true -> forallb p b = true -> forallb p (a ++ b) = true.
  Proof. intros Ha Hb. rewrite forallb_app. now rewrite Ha, Hb. Qed.

  Lemma get_all_terms_novars fuel : forall l s r, forallb novars l = true ->
    get_all_terms fuel l s = Ok r -> forallb novars r = true.
  Proof.
    induction l as [|x l IH]; intros s r Hl; cbn [get_all_terms]; [intro H; inversion H; reflexivity|].
    cbn in Hl. apply andb_true_iff in Hl as [H1 H2].
    destruct (get_terms fuel x s) as [a| |] eqn:Ea; cbn [bind]; try discriminate.
    destruct (get_all_terms fuel l s) as [b| |] eqn:Eb; cbn [bind]; try discriminate.
    intro H; inversion H; subst. apply forallb_app'; [eapply get_terms_novars; eauto|eapply IH; eauto].
  Qed.

  Lemma get_all_terms_sim fuel : forall l l' s s', Forall2 sim l l' -> sims s s' ->
    rrel (Forall2 sim) (get_all_terms fuel l s) (get_all_terms fuel l' s').
  Proof.
    intros l l' s s' Hl Hs. induction Hl as [|x y l l' Hxy Hl IH]; cbn [get_all_terms]; [cbn; constructor|].
    rbind; [apply get_terms_sim; eassumption|]. intros a a' Ha.
    rbind; [exact IH|]. intros b b' Hb. cbn.
    clear - Ha Hb. induction Ha; cbn; [exact Hb|constructor; assumption].
  Qed.

  Lemma evaluate_join_sim fuel l l' s s' : forallb novars l = true -> Forall2 sim l l' -> sims s s' ->
    rrel (orel sim) (do v <- evaluate_join fuel l s; Ok (Some v)) (do v <- evaluate_join fuel l' s'; Ok (Some v)).
  Proof.
    intros Hn Hl Hs. unfold evaluate_join.
    pose proof (get_all_terms_sim fuel _ _ _ _ Hl Hs) as H.
    destruct (get_all_terms fuel l s) as [a| |] eqn:Ea, (get_all_terms fuel l' s') as [a'| |];
      cbn in H; try contradiction; auto.
    cbn. rewrite (simts_novars_eq V _ _ H (get_all_terms_novars _ _ _ _ Hn Ea)). constructor.
  Qed.

  Lemma eval_function_sim fuel name l l' s s' : nojoin name l -> Forall2 sim l l' -> sims s s' ->
    rrel (orel sim) (eval_function fuel name l s) (eval_function fuel name l' s').
  Proof.
    intros Hj Hl Hs. unfold eval_function.
    destruct (str_eqb name fname_join) eqn:Ej.
    { destruct Hj as [Hj|Hj]; [congruence|]. apply evaluate_join_sim; assumption. }
    repeat (match goal with |- context [if ?c then _ else _] => destruct c end;
            [apply eval_arith_sim; eassumption|]).
    exact I.
  Qed.

  Lemma chain_reaches_sim : forall fuel id o o' s s', sim o o' -> sims s s' ->
    rrel eq (chain_reaches fuel id o s) (chain_reaches fuel id o' s').
  Proof.
    induction fuel as [|f IH]; intros id o o' s s' Ho Hs; destruct Ho; cbn [chain_reaches]; try reflexivity;
      (destruct (id0 =? id); [reflexivity|]);
      pose proof (ss_get_sim _ _ _ id0 Hs) as Hg;
      destruct (ss_get s id0), (ss_get s' id0); cbn in Hg; try contradiction; try reflexivity.
    apply IH; eassumption.
  Qed.

  Definition urel := rrel (orel sims).

  Section Body.
    Variable rec rec' : term -> term -> subst -> res (option subst).
    Hypothesis Hrec : forall t t' u u' s s', sim t t' -> sim u u' -> sims s s' ->
      urel (rec t u s) (rec' t' u' s').

    Lemma unify_args_sim : forall ls ls', Forall2 sim ls ls' -> forall rs rs', Forall2 sim rs rs' ->
      forall n n' s2 s2', sims n n' -> sims s2 s2' ->
      urel (unify_args rec ls rs n s2) (unify_args rec' ls' rs' n' s2').
    Proof.
      induction 1 as [|l l' ls ls' Hl Hls IH]; intros rs rs' Hrs n n' s2 s2' Hn H2.
      - cbn. exact H2.
      - destruct Hrs as [|r r' rs rs' Hr Hrs]; [cbn; exact H2|].
        cbn [unify_args]. rewrite <- (sim_is_anon _ _ _ Hl), <- (sim_is_anon _ _ _ Hr).
        destruct (is_anon l || is_anon r); [apply IH; eassumption|].
        rbind; [apply Hrec; eassumption|].
        intros u u' Hu. destruct u as [u|], u' as [u'|]; cbn in Hu; try contradiction; [|exact I].
        apply IH; eassumption.
    Qed.

    Lemma unify_lists_sim : forall a a', sim a a' -> forall b b', sim b b' -> forall s s', sims s s' ->
      urel (unify_lists rec a b s) (unify_lists rec' a' b' s').
    Proof.
      intros a a' Ha. induction Ha as [| |x|x|z|id x y Hv|ts ts' HF _|h h' n n' c tv Hh _ Hn IHn|name args args' Hj HF _]
        using sim_ind2; intros b b' Hb s s' Hs;
        try (destruct Hb; cbn; exact I).
      cbn [unify_lists]. cbn [is_nil orb]. rewrite <- (sim_is_nil _ _ _ Hb).
      destruct (is_nil b) eqn:Eb; [exact I|].
      destruct Hb as [| |x|x|z|id x y Hv|ts ts' HF|oh oh' on on' oc otv Hoh Hon|name args args' Hj HF];
        try exact I.
      rewrite <- (sim_is_anon _ _ _ Hoh), <- (sim_is_anon _ _ _ Hh),
        <- (sim_is_nil _ _ _ Hoh), <- (sim_is_nil _ _ _ Hh).
      destruct (tv && otv).
      { destruct (is_anon oh); [exact Hs|]. destruct (is_anon h); [exact Hs|]. apply Hrec; eassumption. }
      destruct tv. { apply Hrec; [eassumption|now constructor|eassumption]. }
      destruct otv. { apply Hrec; [eassumption|now constructor|eassumption]. }
      destruct (is_nil h && is_nil oh); [exact Hs|].
      rbind; [apply Hrec; eassumption|].
      intros u u' Hu. destruct u as [u|], u' as [u'|]; cbn in Hu; try contradiction; [|exact I].
      apply IHn; eassumption.
    Qed.

    Lemma unify_body_sim f t t' u u' s s' : sim t t' -> sim u u' -> sims s s' ->
      urel (unify_body rec f t u s) (unify_body rec' f t' u' s').
    Proof.
      intros Ht Hu Hs. unfold unify_body.
      rewrite <- (term_eqb_sim V Vfun _ _ Ht _ _ Hu). destruct (term_eqb t u); [exact Hs|].
      rewrite <- (sim_is_anon _ _ _ Hu). destruct (is_anon u) eqn:Ea; [exact Hs|].
      destruct Ht as [| |x|x|z|id x y Hv|ts ts' HF|h h' n n' c tv Hh Hn|name args args' Hj HF].
      - exact I.
      - exact Hs.
      - destruct Hu; try exact I.
        + cbn. destruct (str_eqb x s0); [exact Hs|exact I].
        + apply Hrec; [now constructor|constructor|eassumption].
        + apply Hrec; [now constructor|constructor|eassumption].
      - destruct Hu; try exact I.
        + cbn. destruct (feqb x f0); [exact Hs|exact I].
        + apply Hrec; [now constructor|constructor|eassumption].
        + apply Hrec; [now constructor|constructor|eassumption].
      - destruct Hu; try exact I.
        + cbn. destruct (z =? z0)%Z; [exact Hs|exact I].
        + apply Hrec; [now constructor|constructor|eassumption].
        + apply Hrec; [now constructor|constructor|eassumption].
      - destruct (id =? 0); [exact I|].
        assert (forall o o', sim o o' ->
          urel match ss_get s id with
               | Some u0 => rec u0 o s
               | None => do al <- chain_reaches f id o s; Ok (Some (if al then s else ss_set s id o))
               end
               match ss_get s' id with
               | Some u0 => rec' u0 o' s'
               | None => do al <- chain_reaches f id o' s'; Ok (Some (if al then s' else ss_set s' id o'))
               end) as Hvar.
        { intros o o' Ho. pose proof (ss_get_sim _ _ _ id Hs) as Hg.
          destruct (ss_get s id), (ss_get s' id); cbn in Hg; try contradiction.
          - apply Hrec; eassumption.
          - rbind; [apply chain_reaches_sim; eassumption|]. intros al al' <-. cbn.
            destruct al; [exact Hs|]. apply ss_set_sim; eassumption. }
        destruct Hu; try (apply Hvar; now constructor).
        apply Hrec; [now constructor|now constructor|eassumption].
      - destruct Hu; try exact I.
        + apply Hrec; [now constructor|now constructor|eassumption].
        + rewrite <- (Forall2_length' _ _ _ HF), <- (Forall2_length' _ _ _ H).
          destruct (negb (length ts =? length ts0)%nat); [exact I|].
          apply unify_args_sim; try eassumption; constructor.
        + apply Hrec; [now constructor|now constructor|eassumption].
      - destruct Hu; try exact I.
        + apply Hrec; [now constructor|now constructor|eassumption].
        + apply unify_lists_sim; try eassumption; now constructor.
        + apply Hrec; [now constructor|now constructor|eassumption].
      - rbind; [apply eval_function_sim; eassumption|].
        intros v v' Hv. destruct v as [v|], v' as [v'|]; cbn in Hv; try contradiction; [|exact I].
        apply Hrec; eassumption.
    Qed.
  End Body.

  Theorem unify_sim : forall fuel t t' u u' s s', sim t t' -> sim u u' -> sims s s' ->
    urel (unify fuel t u s) (unify fuel t' u' s').
  Proof.
    induction fuel as [|f IH]; intros t t' u u' s s' Ht Hu Hs; [exact I|].
    cbn [unify]. apply unify_body_sim; eassumption.
  Qed.
End Prims.
