(* C19, closing the gap between terms and goals, part 1: the texts of leaf goals and the
   scanners that see them from the goal level.
     - `gtext`: the grammar of the texts of canonical terms (word, f(p1, ..., pn), [p1, ..., pn],
       [p1, ..., pn | v]); every canonical term prints as a gtext, every gtext is `good`.
     - the tokenizer's scan (`lscan` of Proofs/GoalRoundtrip.v) crosses such a text without a
       token: `l_abs`; from it `neutral`.
     - the infix scan of parse_subgoal (`check_infix`) finds nothing in a text without
       `<`, `>`, `=` or a double quote, and finds the ` = ` of `l = r` when the parentheses of l are closed. *)
From Coq Require Import Lia String.
From Suiron Require Import Model.Tokenizer Proofs.TokenizerStream Proofs.TokenizerProofs Proofs.GoalRoundtrip.
From Suiron Require Import Model.ParseTerm Model.Show Spec.SpecLists Proofs.ListProofs.
From Suiron Require Import Proofs.ParseTermProofs Proofs.ParseRoundtrip.
From Suiron Require Import Proofs.TermRoundtrip Proofs.TermRoundtripText Proofs.TermRoundtripComplex
  Proofs.TermRoundtripList Proofs.TermRoundtripMain.
Open Scope N_scope.

(* ---- the grammar of term texts ---- *)
Inductive gtext : str -> Prop :=
| gt_word w : word w -> gtext w
| gt_atom w : wide_atom w = true -> gtext w
| gt_call f ps : simple_atom f = true -> (forall p, In p ps -> gtext p) -> gtext (call_text f ps)
| gt_list ps : (forall p, In p ps -> gtext p) -> gtext (list_text ps)
| gt_list_bar ps v : (forall p, In p ps -> gtext p) -> word v -> gtext (list_text_bar ps v).

Lemma gtext_good s : gtext s -> good s.
Proof.
  induction 1 as [w Hw|w Hw|f ps Hf Hps IH|ps Hps IH|ps v Hps IH Hv].
  - now apply good_word.
  - now apply good_wide_atom.
  - apply good_call; [now apply simple_atom_word|]. now apply Forall_forall.
  - apply good_list. now apply Forall_forall.
  - apply good_list_bar; [now apply Forall_forall|now apply good_word].
Qed.

Lemma gtext_map ts : (forall t, In t ts -> gtext (show_term t)) ->
  forall p, In p (map show_term ts) -> gtext p.
Proof. intros H p Hp. apply in_map_iff in Hp as (t & <- & Ht). now apply H. Qed.

Lemma canonical_gtext t : canonical t -> gtext (show_term t).
Proof.
  intros H.
  induction H as [s Hs|z Hz|name Hn| |f ts Hf Hts IH Hlen|l ts He Hts IH|l ts name He Hne Hts IH Hn
                  |l ts He Hne Hts IH].
  - now apply gt_atom.
  - apply gt_word. apply show_Z_word.
  - cbn [show_term]. change (0 =? 0) with true. cbv iota. apply gt_word. now apply simple_var_word.
  - apply gt_word. apply anon_word.
  - rewrite show_complex_text. apply gt_call; [|now apply gtext_map].
    unfold functor_name in Hf. now apply andb_true_iff in Hf as [Hf _].
  - pose proof (elems_nodes l ts None He) as El. cbv iota in El.
    pose proof (elems_non_nil l ts None He) as Hnn.
    rewrite <- make_list_of_terms_nodes in El. subst l.
    rewrite show_list_plain by exact Hnn. apply gt_list. now apply gtext_map.
  - pose proof (elems_nodes l ts _ He) as El. cbv iota in El.
    pose proof (elems_non_nil l ts _ He) as Hnn. subst l.
    rewrite show_list_tail by (assumption || reflexivity).
    cbn [show_term]. change (0 =? 0) with true. cbv iota.
    apply gt_list_bar; [now apply gtext_map|now apply simple_var_word].
  - pose proof (elems_nodes l ts _ He) as El. cbv iota in El.
    pose proof (elems_non_nil l ts _ He) as Hnn. subst l.
    rewrite show_list_tail by (assumption || reflexivity).
    apply gt_list_bar; [now apply gtext_map|apply anon_word].
Qed.

(* ---- white space of the tokenizer ---- *)
Lemma printable_not_tk_white c : 33 <= c <= 126 -> tk_is_whitespace c = false.
Proof.
  intros H. unfold tk_is_whitespace.
  assert (E1 : (c <=? 13) = false) by (apply N.leb_gt; lia).
  assert (E2 : (c =? 32) = false) by (apply N.eqb_neq; lia).
  assert (E3 : (c =? 133) = false) by (apply N.eqb_neq; lia).
  assert (E4 : (c =? 160) = false) by (apply N.eqb_neq; lia).
  assert (E5 : (c =? 5760) = false) by (apply N.eqb_neq; lia).
  assert (E6 : (8192 <=? c) = false) by (apply N.leb_gt; lia).
  assert (E7 : (c =? 8232) = false) by (apply N.eqb_neq; lia).
  assert (E8 : (c =? 8233) = false) by (apply N.eqb_neq; lia).
  assert (E9 : (c =? 8239) = false) by (apply N.eqb_neq; lia).
  assert (E10 : (c =? 8287) = false) by (apply N.eqb_neq; lia).
  assert (E11 : (c =? 12288) = false) by (apply N.eqb_neq; lia).
  rewrite E1, E2, E3, E4, E5, E6, E7, E8, E9, E10, E11. now rewrite !andb_false_r.
Qed.

(* printable ends: both notions of trim leave the text alone *)
Definition printable (c : N) : Prop := 33 <= c <= 126.

Lemma tk_trim_printable s : s <> [] -> printable (hd 0 s) -> printable (last s 0) -> tk_trim s = s.
Proof.
  intros Hne Hh Hl. apply tightfl_trim. split.
  - destruct s as [|c r]; [now elim Hne|]. exists c, r. split; [reflexivity|].
    now apply printable_not_tk_white.
  - destruct (exists_last Hne) as (r & d & ->). exists r, d. split; [reflexivity|].
    rewrite last_last in Hl. now apply printable_not_tk_white.
Qed.

Lemma trim_printable s : s <> [] -> printable (hd 0 s) -> printable (last s 0) -> trim s = s.
Proof.
  intros Hne Hh Hl. apply trimmed_trim. right. split; now apply printable_not_white.
Qed.

Lemma tchar_printable_or_blank c : tchar c = true -> printable c \/ c = 32.
Proof.
  intros H. apply tchar_cases in H. unfold printable.
  destruct H as [H|[->|[->|[->|[->|[->|[->| ->]]]]]]];
    try (left; unfold c_comma, c_bar, c_lpar, c_rpar, c_lbr, c_rbr; lia); [|now right].
  apply wchar_range in H. left. lia.
Qed.

Lemma good_printable_ends s : good s -> printable (hd 0 s) /\ printable (last s 0).
Proof.
  intros H. pose proof (g_ne s H) as Hne. pose proof (g_chars s H) as Hc. split.
  - pose proof (good_hd_tchar s H) as Hh. apply tchar_printable_or_blank in Hh as [Hh|Hh]; [exact Hh|].
    pose proof (g_hdw s H) as Hw. rewrite Hh in Hw. discriminate.
  - pose proof (Forall_last _ s 0 Hne Hc) as Hl. cbv beta in Hl.
    apply tchar_printable_or_blank in Hl as [Hl|Hl]; [exact Hl|].
    pose proof (g_lastw s H) as Hw. rewrite Hl in Hw. discriminate.
Qed.

(* ---- the tokenizer's scan ---- *)
Lemma no_esc_ne c m p : (c =? m) = false -> no_esc c m p = false.
Proof. intros E. unfold no_esc. rewrite E. now destruct (p =? ch_backslash). Qed.

Lemma no_esc_eq m p : (p =? ch_backslash) = false -> no_esc m m p = true.
Proof. intros E. unfold no_esc. now rewrite E, N.eqb_refl. Qed.

(* characters the scan passes over in any state / inside a complex term or a list *)
Definition inert_in (c : N) : bool :=
  negb (c =? ch_quote) && negb (c =? ch_lparen) && negb (c =? ch_rparen) &&
  negb (c =? ch_lbracket) && negb (c =? ch_rbracket) && negb (c =? ch_backslash).
Definition inert (c : N) : bool :=
  inert_in c && negb (c =? ch_hash) && negb (c =? ch_at) && negb (c =? ch_comma) &&
  negb (c =? ch_semicolon).

Lemma inert_in_facts c : inert_in c = true ->
  (c =? ch_quote) = false /\ (c =? ch_lparen) = false /\ (c =? ch_rparen) = false /\
  (c =? ch_lbracket) = false /\ (c =? ch_rbracket) = false /\ (c =? ch_backslash) = false.
Proof.
  unfold inert_in. intros H. repeat (apply andb_true_iff in H as [H ?]).
  repeat match goal with Hx : negb _ = true |- _ => apply negb_true_iff in Hx end. tauto.
Qed.

Lemma lscan_inert_in c r f p loc : inert_in c = true -> loc <> [] ->
  lscan (S f) (c :: r) p loc = lscan f r c loc.
Proof.
  intros H Hloc. destruct (inert_in_facts c H) as (E1 & E2 & E3 & E4 & E5 & _).
  cbn [lscan]. rewrite !no_esc_ne by assumption.
  destruct loc; [now elim Hloc|reflexivity].
Qed.

Lemma inert_facts c : inert c = true ->
  inert_in c = true /\ (c =? ch_hash) = false /\ (c =? ch_at) = false /\ (c =? ch_comma) = false /\
  (c =? ch_semicolon) = false.
Proof.
  unfold inert. intros H.
  apply andb_true_iff in H as [H H4]. apply andb_true_iff in H as [H H3].
  apply andb_true_iff in H as [H H2]. apply andb_true_iff in H as [H H1].
  apply negb_true_iff in H1, H2, H3, H4. tauto.
Qed.

Lemma lscan_inert c r f p loc : inert c = true -> lscan (S f) (c :: r) p loc = lscan f r c loc.
Proof.
  intros H. destruct (inert_facts c H) as (Hi & F1 & F2 & F3 & F4).
  destruct loc as [|ty loc']; [|apply lscan_inert_in; [exact Hi|discriminate]].
  destruct (inert_in_facts c Hi) as (E1 & E2 & E3 & E4 & E5 & _).
  cbn [lscan]. rewrite !no_esc_ne by assumption.
  unfold invalid_between_terms. rewrite E1, F1, F2. reflexivity.
Qed.

Lemma inert_not_bslash c : inert c = true -> (c =? ch_backslash) = false.
Proof.
  intros H. destruct (inert_facts c H) as (Hi & _).
  now destruct (inert_in_facts c Hi) as (_ & _ & _ & _ & _ & E).
Qed.

Lemma inert_in_not_bslash c : inert_in c = true -> (c =? ch_backslash) = false.
Proof. intros H. now destruct (inert_in_facts c H) as (_ & _ & _ & _ & _ & E). Qed.

(* the scan crosses s: in any state / inside a complex term or a list *)
Definition l_abs (s : str) : Prop := forall p, (p =? ch_backslash) = false ->
  exists pf, (pf =? ch_backslash) = false /\
    forall fuel rest loc, lscan (length s + fuel) (s ++ rest) p loc = lscan fuel rest pf loc.
Definition l_in (s : str) : Prop := forall p, (p =? ch_backslash) = false ->
  exists pf, (pf =? ch_backslash) = false /\
    forall fuel rest loc, loc <> [] ->
      lscan (length s + fuel) (s ++ rest) p loc = lscan fuel rest pf loc.

Lemma l_abs_in s : l_abs s -> l_in s.
Proof.
  intros H p Hp. destruct (H p Hp) as (pf & Hpf & Hs). exists pf. split; [exact Hpf|].
  intros fuel rest loc _. apply Hs.
Qed.

Lemma l_in_nil : l_in [].
Proof. intros p Hp. exists p. split; [exact Hp|]. intros. reflexivity. Qed.

Lemma l_abs_app a b : l_abs a -> l_abs b -> l_abs (a ++ b).
Proof.
  intros Ha Hb p Hp. destruct (Ha p Hp) as (p1 & Hp1 & H1). destruct (Hb p1 Hp1) as (p2 & Hp2 & H2).
  exists p2. split; [exact Hp2|]. intros fuel rest loc.
  rewrite app_length, <- Nat.add_assoc, <- app_assoc. rewrite H1. apply H2.
Qed.

Lemma l_in_app a b : l_in a -> l_in b -> l_in (a ++ b).
Proof.
  intros Ha Hb p Hp. destruct (Ha p Hp) as (p1 & Hp1 & H1). destruct (Hb p1 Hp1) as (p2 & Hp2 & H2).
  exists p2. split; [exact Hp2|]. intros fuel rest loc Hloc.
  rewrite app_length, <- Nat.add_assoc, <- app_assoc. rewrite H1 by exact Hloc. now apply H2.
Qed.

Lemma lscan_inerts s : Forall (fun c => inert c = true) s -> forall p fuel rest loc,
  lscan (length s + fuel) (s ++ rest) p loc = lscan fuel rest (last s p) loc.
Proof.
  induction s as [|c s IH]; intros H p fuel rest loc; [reflexivity|].
  inversion H as [|x l Hc Hs]; subst. cbn [length app Nat.add].
  rewrite lscan_inert by exact Hc. rewrite (IH Hs).
  f_equal. clear. revert c p. induction s as [|x s IH]; intros c p; [reflexivity|].
  change (last (c :: x :: s) p) with (last (x :: s) p).
  destruct s as [|y s']; [reflexivity|].
  change (last (x :: y :: s') c) with (last (y :: s') c).
  change (last (x :: y :: s') p) with (last (y :: s') p).
  rewrite (last_default (y :: s') c 0) by discriminate.
  rewrite (last_default (y :: s') p 0) by discriminate. reflexivity.
Qed.

Lemma last_inert_not_bslash s p : Forall (fun c => inert c = true) s -> (p =? ch_backslash) = false ->
  (last s p =? ch_backslash) = false.
Proof.
  intros H Hp. destruct s as [|c s]; [exact Hp|].
  rewrite (last_default (c :: s) p 0) by discriminate.
  apply inert_not_bslash. apply (Forall_last (fun c => inert c = true)); [discriminate|exact H].
Qed.

Lemma l_abs_inerts s : Forall (fun c => inert c = true) s -> l_abs s.
Proof.
  intros H p Hp. exists (last s p). split; [now apply last_inert_not_bslash|].
  intros fuel rest loc. now apply lscan_inerts.
Qed.

Lemma l_in_inert_ins s : Forall (fun c => inert_in c = true) s -> l_in s.
Proof.
  induction s as [|c s IH]; intros H; [apply l_in_nil|].
  inversion H as [|x l Hc Hs]; subst.
  intros p Hp. destruct (IH Hs c (inert_in_not_bslash c Hc)) as (pf & Hpf & Hscan).
  exists pf. split; [exact Hpf|]. intros fuel rest loc Hloc. cbn [length app Nat.add].
  rewrite lscan_inert_in by assumption. now apply Hscan.
Qed.

Lemma wchar_inert c : wchar c = true -> inert c = true.
Proof.
  intros H. apply wchar_range in H. unfold inert, inert_in.
  assert (E1 : (c =? ch_quote) = false) by (apply N.eqb_neq; unfold ch_quote; lia).
  assert (E2 : (c =? ch_lparen) = false) by (apply N.eqb_neq; unfold ch_lparen; lia).
  assert (E3 : (c =? ch_rparen) = false) by (apply N.eqb_neq; unfold ch_rparen; lia).
  assert (E4 : (c =? ch_lbracket) = false) by (apply N.eqb_neq; unfold ch_lbracket; lia).
  assert (E5 : (c =? ch_rbracket) = false) by (apply N.eqb_neq; unfold ch_rbracket; lia).
  assert (E6 : (c =? ch_backslash) = false) by (apply N.eqb_neq; unfold ch_backslash; lia).
  assert (E7 : (c =? ch_hash) = false) by (apply N.eqb_neq; unfold ch_hash; lia).
  assert (E8 : (c =? ch_at) = false) by (apply N.eqb_neq; unfold ch_at; lia).
  assert (E9 : (c =? ch_comma) = false) by (apply N.eqb_neq; unfold ch_comma; lia).
  assert (E10 : (c =? ch_semicolon) = false) by (apply N.eqb_neq; unfold ch_semicolon; lia).
  now rewrite E1, E2, E3, E4, E5, E6, E7, E8, E9, E10.
Qed.

Lemma achar_inert c : achar c = true -> inert c = true.
Proof.
  unfold achar. intros H. apply orb_true_iff in H as [H|H].
  - apply wchar_inert. now apply ident_wchar.
  - apply N.eqb_eq in H. subst c. reflexivity.
Qed.

Lemma wchars_inert w : Forall (fun c => wchar c = true) w -> Forall (fun c => inert c = true) w.
Proof. intros H. eapply Forall_impl; [|exact H]. intros c Hc. now apply wchar_inert. Qed.

Lemma ident_lnh c : ident_char c = true -> letter_number_hyphen c = true.
Proof.
  intros H. apply ident_char_range in H. unfold letter_number_hyphen, ch_underscore, ch_hyphen.
  destruct H as [H|[H|[H|H]]].
  - assert (E1 : (97 <=? c) = false) by (apply N.leb_gt; lia).
    assert (E2 : (65 <=? c) = false) by (apply N.leb_gt; lia).
    assert (E3 : (48 <=? c) = true) by (apply N.leb_le; lia).
    assert (E4 : (c <=? 57) = true) by (apply N.leb_le; lia).
    now rewrite E1, E2, E3, E4.
  - assert (E1 : (97 <=? c) = false) by (apply N.leb_gt; lia).
    assert (E3 : (65 <=? c) = true) by (apply N.leb_le; lia).
    assert (E4 : (c <=? 90) = true) by (apply N.leb_le; lia).
    now rewrite E1, E3, E4.
  - subst c. reflexivity.
  - assert (E3 : (97 <=? c) = true) by (apply N.leb_le; lia).
    assert (E4 : (c <=? 122) = true) by (apply N.leb_le; lia).
    now rewrite E3, E4.
Qed.

(* f(body) with the body crossed inside; [body] *)
Lemma l_abs_call f body :
  Forall (fun c => inert c = true) f -> f <> [] -> letter_number_hyphen (last f 0) = true ->
  l_in body -> l_abs (f ++ ch_lparen :: body ++ [ch_rparen]).
Proof.
  intros Hf Hne Hl Hb p Hp. destruct (Hb ch_lparen eq_refl) as (pb & Hpb & Hscan).
  exists ch_rparen. split; [reflexivity|]. intros fuel rest loc.
  replace (length (f ++ ch_lparen :: body ++ [ch_rparen]) + fuel)%nat
    with (length f + S (length body + S fuel))%nat
    by (rewrite app_length; cbn [length]; rewrite app_length; cbn [length]; lia).
  rewrite <- app_assoc. rewrite lscan_inerts by exact Hf. cbn [app].
  pose proof (last_inert_not_bslash f p Hf Hp) as Hlp.
  assert (Hlast : last f p = last f 0) by (now apply last_default).
  cbn [lscan]. rewrite (no_esc_ne ch_lparen ch_quote) by reflexivity.
  rewrite (no_esc_eq ch_lparen _ Hlp). rewrite Hlast, Hl.
  rewrite <- app_assoc. rewrite Hscan by discriminate. cbn [app lscan].
  rewrite (no_esc_ne ch_rparen ch_quote) by reflexivity.
  rewrite (no_esc_ne ch_rparen ch_lparen) by reflexivity.
  rewrite (no_esc_eq ch_rparen _ Hpb). reflexivity.
Qed.

Lemma l_abs_brackets body : l_in body -> l_abs (ch_lbracket :: body ++ [ch_rbracket]).
Proof.
  intros Hb p Hp. destruct (Hb ch_lbracket eq_refl) as (pb & Hpb & Hscan).
  exists ch_rbracket. split; [reflexivity|]. intros fuel rest loc.
  replace (length (ch_lbracket :: body ++ [ch_rbracket]) + fuel)%nat
    with (S (length body + S fuel))%nat
    by (cbn [length]; rewrite app_length; cbn [length]; lia).
  cbn [app lscan]. rewrite (no_esc_ne ch_lbracket ch_quote) by reflexivity.
  rewrite (no_esc_ne ch_lbracket ch_lparen) by reflexivity.
  rewrite (no_esc_ne ch_lbracket ch_rparen) by reflexivity.
  rewrite (no_esc_eq ch_lbracket _ Hp).
  rewrite <- app_assoc. rewrite Hscan by discriminate. cbn [app lscan].
  rewrite (no_esc_ne ch_rbracket ch_quote) by reflexivity.
  rewrite (no_esc_ne ch_rbracket ch_lparen) by reflexivity.
  rewrite (no_esc_ne ch_rbracket ch_rparen) by reflexivity.
  rewrite (no_esc_ne ch_rbracket ch_lbracket) by reflexivity.
  rewrite (no_esc_eq ch_rbracket _ Hpb). reflexivity.
Qed.

Lemma l_in_join ps : (forall p, In p ps -> l_abs p) -> l_in (join_strs sep_comma ps).
Proof.
  induction ps as [|p ps IH]; intros H; [apply l_in_nil|].
  destruct ps as [|q rest]; [cbn [join_strs]; apply l_abs_in, H; now left|].
  rewrite join_strs_cons2. apply l_in_app; [apply l_abs_in, H; now left|].
  apply l_in_app; [apply l_in_inert_ins; repeat constructor|].
  apply IH. intros x Hx. apply H. now right.
Qed.

Lemma simple_atom_last_lnh f : simple_atom f = true -> letter_number_hyphen (last f 0) = true.
Proof.
  destruct f as [|c r]; [discriminate|]. cbn [simple_atom]. intros H.
  apply andb_true_iff in H as [Hc Hr]. apply forallb_Forall in Hr.
  apply ident_lnh.
  apply (Forall_last (fun c => ident_char c = true)); [discriminate|].
  constructor; [now apply lower_ident|exact Hr].
Qed.

Lemma l_abs_call_text f ps : simple_atom f = true -> (forall p, In p ps -> l_abs p) ->
  l_abs (call_text f ps).
Proof.
  intros Hf Hps. pose proof (simple_atom_word f Hf) as (Hne & Hall & _).
  apply l_abs_call; [now apply wchars_inert|exact Hne|now apply simple_atom_last_lnh|now apply l_in_join].
Qed.

Theorem gtext_l_abs s : gtext s -> l_abs s.
Proof.
  induction 1 as [w Hw|w Hw|f ps Hf Hps IH|ps Hps IH|ps v Hps IH Hv].
  - apply l_abs_inerts, wchars_inert. apply Hw.
  - apply l_abs_inerts. destruct (wide_atom_facts w Hw) as (_ & _ & Hall & _).
    eapply Forall_impl; [|exact Hall]. intros c Hc. now apply achar_inert.
  - now apply l_abs_call_text.
  - unfold list_text. apply l_abs_brackets. now apply l_in_join.
  - unfold list_text_bar. apply l_abs_brackets.
    apply l_in_app; [now apply l_in_join|].
    apply l_in_app; [apply l_in_inert_ins; repeat constructor|].
    apply l_abs_in, l_abs_inerts, wchars_inert. apply Hv.
Qed.

(* from the scan to `neutral` *)
Lemma neutral_of_scan t :
  t <> [] -> tk_trim t = t -> (2 <= length t)%nat \/ inert (hd 0 t) = true -> l_abs t -> neutral t.
Proof.
  intros Hne Ht Hsingle Habs. constructor.
  - exact Hne.
  - intros w0 Hw. unfold make_leaf_token. rewrite (trim_ws_app w0 t Hw), Ht.
    assert (K : forall c, inert c = false -> str_eqb t [c] = false).
    { intros c Hc. destruct (str_eqb t [c]) eqn:E; [|reflexivity]. apply str_eqb_eq in E. subst t.
      destruct Hsingle as [H|H]; [cbn in H; lia|]. cbn [hd] in H. congruence. }
    rewrite !K by reflexivity. reflexivity.
  - intros p0 rest w stk toks Hp Hg.
    assert (Hp0 : (p0 =? ch_backslash) = false) by (destruct Hp as [->|[->| ->]]; reflexivity).
    destruct (Habs p0 Hp0) as (pf & Hpf & Hscan). exists pf. split; [|exact Hpf].
    apply (lscan_sound (length t + 1) t p0 [] pf); [|constructor|exact Hg].
    rewrite <- (app_nil_r t) at 2. rewrite Hscan. reflexivity.
Qed.

(* ---- the infix scan of parse_subgoal ---- *)
Definition nosp (c : N) : bool :=
  negb (c =? c_lt) && negb (c =? c_gt) && negb (c =? c_eq) && negb (c =? c_dquote).

Lemma nosp_facts c : nosp c = true ->
  (c =? c_lt) = false /\ (c =? c_gt) = false /\ (c =? c_eq) = false /\ (c =? c_dquote) = false.
Proof.
  unfold nosp. intros H. repeat (apply andb_true_iff in H as [H ?]).
  repeat match goal with Hx : negb _ = true |- _ => apply negb_true_iff in Hx end. tauto.
Qed.

Lemma ci_loop_none len s : (2 <= len)%nat -> Forall (fun c => nosp c = true) s ->
  forall i prev skip, ci_loop len s i prev skip = Ok (INone, O).
Proof.
  intros Hlen. induction s as [|c1 tl IH]; intros H i prev skip; [reflexivity|].
  inversion H as [|x l Hc Htl]; subst. destruct (nosp_facts c1 Hc) as (E1 & E2 & E3 & E4).
  cbn [ci_loop]. destruct skip as [[close open]|].
  { destruct (c1 =? close); now apply IH. }
  rewrite E4. destruct (c1 =? c_lpar).
  { destruct (has_char c_rpar tl); now apply IH. }
  destruct (negb (prev =? 32)); [now apply IH|].
  assert (El : (len <? 2)%nat = false) by (apply Nat.ltb_ge; lia). rewrite El.
  destruct (len - 2 <=? i)%nat; [reflexivity|]. rewrite E1, E2, E3. now apply IH.
Qed.

Lemma tchar_nosp c : tchar c = true -> nosp c = true.
Proof.
  intros H. apply tchar_cases in H.
  destruct H as [H|[->|[->|[->|[->|[->|[->| ->]]]]]]]; try reflexivity.
  apply wchar_range in H. unfold nosp.
  assert (E1 : (c =? c_lt) = false) by char_neq.
  assert (E2 : (c =? c_gt) = false) by char_neq.
  assert (E3 : (c =? c_eq) = false) by char_neq.
  assert (E4 : (c =? c_dquote) = false) by char_neq.
  now rewrite E1, E2, E3, E4.
Qed.

Lemma tchars_nosp s : Forall (fun c => tchar c = true) s -> Forall (fun c => nosp c = true) s.
Proof. intros H. eapply Forall_impl; [|exact H]. intros c Hc. now apply tchar_nosp. Qed.

(* every `(` has a `)` somewhere after it *)
Fixpoint pclosed (s : str) : bool :=
  match s with
  | [] => true
  | c :: tl => (negb (c =? c_lpar) || has_char c_rpar tl) && pclosed tl
  end.

Lemma has_char_app c a b : has_char c (a ++ b) = has_char c a || has_char c b.
Proof. unfold has_char. apply existsb_app. Qed.

Lemma pclosed_app a b : pclosed a = true -> pclosed b = true -> pclosed (a ++ b) = true.
Proof.
  induction a as [|c a IH]; intros Ha Hb; [exact Hb|].
  cbn [app pclosed] in *. apply andb_true_iff in Ha as [H1 H2].
  rewrite (IH H2 Hb), andb_true_r. rewrite has_char_app.
  apply orb_true_iff in H1 as [H1|H1]; [now rewrite H1|]. rewrite H1. now rewrite orb_true_r.
Qed.

Lemma pclosed_no_lpar s : count_c c_lpar s = 0 -> pclosed s = true.
Proof.
  induction s as [|c s IH]; intros H; [reflexivity|]. cbn [count_c pclosed] in *.
  destruct (c =? c_lpar); [lia|]. cbn [negb orb andb]. apply IH. lia.
Qed.

Lemma pclosed_enclosed body : pclosed body = true -> pclosed (c_lpar :: body ++ [c_rpar]) = true.
Proof.
  intros H. cbn [pclosed]. rewrite has_char_app. cbn [has_char existsb]. rewrite N.eqb_refl.
  rewrite !orb_true_r. cbn [andb]. apply pclosed_app; [exact H|reflexivity].
Qed.

Lemma pclosed_join ps : (forall p, In p ps -> pclosed p = true) -> pclosed (join_strs sep_comma ps) = true.
Proof.
  induction ps as [|p ps IH]; intros H; [reflexivity|].
  destruct ps as [|q rest]; [cbn [join_strs]; apply H; now left|].
  rewrite join_strs_cons2. apply pclosed_app; [apply H; now left|].
  apply pclosed_app; [reflexivity|]. apply IH. intros x Hx. apply H. now right.
Qed.

Lemma word_pclosed w : word w -> pclosed w = true.
Proof.
  intros (_ & Hall & _). apply pclosed_no_lpar. apply count_c_wchars; [reflexivity|exact Hall].
Qed.

Theorem gtext_pclosed s : gtext s -> pclosed s = true.
Proof.
  induction 1 as [w Hw|w Hw|f ps Hf Hps IH|ps Hps IH|ps v Hps IH Hv].
  - now apply word_pclosed.
  - apply pclosed_no_lpar. destruct (wide_atom_facts w Hw) as (_ & _ & Hall & _).
    apply count_c_achars; [reflexivity|exact Hall].
  - unfold call_text. apply pclosed_app; [apply word_pclosed; now apply simple_atom_word|].
    apply pclosed_enclosed. now apply pclosed_join.
  - unfold list_text. change (c_lbr :: join_strs sep_comma ps ++ [c_rbr])
      with ([c_lbr] ++ join_strs sep_comma ps ++ [c_rbr]).
    apply pclosed_app; [reflexivity|]. apply pclosed_app; [now apply pclosed_join|reflexivity].
  - unfold list_text_bar.
    change (c_lbr :: (join_strs sep_comma ps ++ sep_bar ++ v) ++ [c_rbr])
      with ([c_lbr] ++ (join_strs sep_comma ps ++ sep_bar ++ v) ++ [c_rbr]).
    apply pclosed_app; [reflexivity|]. apply pclosed_app; [|reflexivity].
    apply pclosed_app; [now apply pclosed_join|]. apply pclosed_app; [reflexivity|now apply word_pclosed].
Qed.

(* crossing a text without special characters whose parentheses are closed: the scan is
   outside a skipped stretch before it and after it *)
Lemma ci_loop_cross len rest s :
  Forall (fun c => nosp c = true) s -> pclosed s = true ->
  (forall i prev, (i + length s + 2 <= len)%nat ->
     exists prev', ci_loop len (s ++ rest) i prev None = ci_loop len rest (i + length s) prev' None) /\
  (forall i prev o, (i + length s + 2 <= len)%nat ->
     if has_char c_rpar s
     then exists prev', ci_loop len (s ++ rest) i prev (Some (c_rpar, o)) =
                        ci_loop len rest (i + length s) prev' None
     else ci_loop len (s ++ rest) i prev (Some (c_rpar, o)) =
          ci_loop len rest (i + length s) prev (Some (c_rpar, o))).
Proof.
  induction s as [|c1 tl IH]; intros Hs Hp.
  { split.
    - intros i prev _. exists prev. cbn [app length]. now rewrite Nat.add_0_r.
    - intros i prev o _. cbn [has_char existsb app length]. now rewrite Nat.add_0_r. }
  inversion Hs as [|x l Hc Htl]; subst. cbn [pclosed] in Hp. apply andb_true_iff in Hp as [Hp1 Hp2].
  destruct (IH Htl Hp2) as [IH1 IH2]. destruct (nosp_facts c1 Hc) as (E1 & E2 & E3 & E4).
  assert (Hidx : forall i, (i + length (c1 :: tl))%nat = (S i + length tl)%nat)
    by (intros; cbn [length]; lia).
  split.
  - intros i prev Hlen. cbn [app ci_loop]. rewrite E4. rewrite Hidx.
    destruct (c1 =? c_lpar) eqn:El.
    + cbn [negb orb] in Hp1. rewrite has_char_app, Hp1. cbn [orb].
      specialize (IH2 (S i) prev c1 ltac:(cbn [length] in Hlen; lia)). rewrite Hp1 in IH2. exact IH2.
    + destruct (negb (prev =? 32)); [apply IH1; cbn [length] in Hlen; lia|].
      assert (Hl2 : (len <? 2)%nat = false) by (apply Nat.ltb_ge; lia). rewrite Hl2.
      assert (Hi : (len - 2 <=? i)%nat = false) by (apply Nat.leb_gt; cbn [length] in Hlen; lia).
      rewrite Hi, E1, E2, E3. apply IH1. cbn [length] in Hlen. lia.
  - intros i prev o Hlen. cbn [app ci_loop has_char existsb]. rewrite Hidx.
    rewrite (N.eqb_sym c_rpar c1).
    destruct (c1 =? c_rpar) eqn:Er.
    + cbn [orb]. apply IH1. cbn [length] in Hlen. lia.
    + cbn [orb]. apply IH2. cbn [length] in Hlen. lia.
Qed.

(* the text `l = r` *)
Definition unify_text (l r : str) : str := l ++ [32; c_eq; 32] ++ r.

Lemma ci_loop_blank len tl i prev : (2 <= len)%nat -> (i + 2 < len)%nat ->
  ci_loop len (32 :: tl) i prev None = ci_loop len tl (S i) 32 None.
Proof.
  intros H2 Hi. cbn [ci_loop].
  change (32 =? c_dquote) with false. change (32 =? c_lpar) with false. cbv iota.
  destruct (negb (prev =? 32)); [reflexivity|].
  assert (Hl2 : (len <? 2)%nat = false) by (apply Nat.ltb_ge; lia).
  assert (Hi1 : (len - 2 <=? i)%nat = false) by (apply Nat.leb_gt; lia).
  rewrite Hl2, Hi1.
  change (32 =? c_lt) with false. change (32 =? c_gt) with false. change (32 =? c_eq) with false.
  reflexivity.
Qed.

Lemma ci_loop_eq len r i : (2 <= len)%nat -> (i + 2 < len)%nat ->
  ci_loop len (c_eq :: 32 :: r) i 32 None = Ok (IUnify, i).
Proof.
  intros H2 Hi. remember (32 :: r) as tl eqn:Etl. cbn [ci_loop].
  change (c_eq =? c_dquote) with false. change (c_eq =? c_lpar) with false.
  change (negb (32 =? 32)) with false. cbv iota.
  assert (Hl2 : (len <? 2)%nat = false) by (apply Nat.ltb_ge; lia).
  assert (Hi1 : (len - 2 <=? i)%nat = false) by (apply Nat.leb_gt; lia).
  rewrite Hl2, Hi1.
  change (c_eq =? c_lt) with false. change (c_eq =? c_gt) with false. change (c_eq =? c_eq) with true.
  cbv iota. subst tl. cbv iota.
  change (32 =? c_eq) with false. change (32 =? 32) with true. reflexivity.
Qed.

Lemma check_infix_unify l r :
  Forall (fun c => nosp c = true) l -> pclosed l = true -> r <> [] ->
  check_infix (unify_text l r) = Ok (IUnify, (length l + 1)%nat).
Proof.
  intros Hl Hp Hr. unfold check_infix, unify_text.
  set (len := length (l ++ [32; c_eq; 32] ++ r)).
  assert (Hlen : len = (length l + 3 + length r)%nat).
  { unfold len. rewrite !app_length. cbn [length]. lia. }
  assert (Hr1 : (1 <= length r)%nat) by (destruct r; [now elim Hr|cbn [length]; lia]).
  destruct (ci_loop_cross len ([32; c_eq; 32] ++ r) l Hl Hp) as [H1 _].
  destruct (H1 0%nat c_hash ltac:(lia)) as (prev' & ->). cbn [Nat.add app].
  rewrite ci_loop_blank by lia. rewrite ci_loop_eq by lia.
  do 2 f_equal. lia.
Qed.

(* ---- square brackets are balanced in number; the characters the file reader looks for ---- *)
Definition sqbal (s : str) : Prop := count_c c_lbr s = count_c c_rbr s.

Lemma sqbal_app a b : sqbal a -> sqbal b -> sqbal (a ++ b).
Proof. unfold sqbal. intros Ha Hb. rewrite !count_c_app. now rewrite Ha, Hb. Qed.

Lemma sqbal_join ps : (forall p, In p ps -> sqbal p) -> sqbal (join_strs sep_comma ps).
Proof.
  induction ps as [|p ps IH]; intros H; [reflexivity|].
  destruct ps as [|q rest]; [cbn [join_strs]; apply H; now left|].
  rewrite join_strs_cons2. apply sqbal_app; [apply H; now left|].
  apply sqbal_app; [reflexivity|]. apply IH. intros x Hx. apply H. now right.
Qed.

Lemma word_sqbal w : word w -> sqbal w.
Proof.
  intros (_ & Hall & _). unfold sqbal. rewrite !count_c_wchars by (reflexivity || assumption). reflexivity.
Qed.

Theorem gtext_sqbal s : gtext s -> sqbal s.
Proof.
  induction 1 as [w Hw|w Hw|f ps Hf Hps IH|ps Hps IH|ps v Hps IH Hv].
  - now apply word_sqbal.
  - destruct (wide_atom_facts w Hw) as (_ & _ & Hall & _). unfold sqbal.
    rewrite !count_c_achars by (reflexivity || assumption). reflexivity.
  - unfold call_text. apply sqbal_app; [apply word_sqbal; now apply simple_atom_word|].
    change (c_lpar :: join_strs sep_comma ps ++ [c_rpar]) with ([c_lpar] ++ join_strs sep_comma ps ++ [c_rpar]).
    apply sqbal_app; [reflexivity|]. apply sqbal_app; [now apply sqbal_join|reflexivity].
  - unfold list_text, sqbal. cbn [count_c]. rewrite !count_c_app. rewrite (sqbal_join ps IH).
    cbn [count_c]. change (c_lbr =? c_lbr) with true. change (c_rbr =? c_rbr) with true.
    change (c_lbr =? c_rbr) with false. change (c_rbr =? c_lbr) with false. lia.
  - unfold list_text_bar, sqbal. cbn [count_c]. rewrite !count_c_app. rewrite (sqbal_join ps IH).
    rewrite (word_sqbal v Hv). cbn [count_c sep_bar].
    change (c_lbr =? c_lbr) with true. change (c_rbr =? c_rbr) with true.
    change (c_lbr =? c_rbr) with false. change (c_rbr =? c_lbr) with false.
    change (32 =? c_lbr) with false. change (32 =? c_rbr) with false.
    change (124 =? c_lbr) with false. change (124 =? c_rbr) with false. lia.
Qed.

(* not a period, `#`, `%`, `/` or a double quote *)
Definition fileplain (c : N) : bool :=
  negb (c =? 46) && negb (c =? 35) && negb (c =? 37) && negb (c =? 47) && negb (c =? 34).

Lemma tchar_fileplain c : tchar c = true -> fileplain c = true.
Proof.
  intros H. apply tchar_cases in H.
  destruct H as [H|[->|[->|[->|[->|[->|[->| ->]]]]]]]; try reflexivity.
  apply wchar_range in H. unfold fileplain.
  assert (E1 : (c =? 46) = false) by (apply N.eqb_neq; lia).
  assert (E2 : (c =? 35) = false) by (apply N.eqb_neq; lia).
  assert (E3 : (c =? 37) = false) by (apply N.eqb_neq; lia).
  assert (E4 : (c =? 47) = false) by (apply N.eqb_neq; lia).
  assert (E5 : (c =? 34) = false) by (apply N.eqb_neq; lia).
  now rewrite E1, E2, E3, E4, E5.
Qed.

Lemma tchars_fileplain s : Forall (fun c => tchar c = true) s -> Forall (fun c => fileplain c = true) s.
Proof. intros H. eapply Forall_impl; [|exact H]. intros c Hc. now apply tchar_fileplain. Qed.
