(* Instances of the invariant principle: extension (C06), `$_` never bound (C09), binding
   chains end (C08); plus the direct lemmas on `$_` and aliased variables. *)
From Coq Require Import Lia.
From Suiron Require Import Model.Term Model.Subst Model.Show Model.Lists Model.Arith Model.Unify
  Spec.SpecCompare Proofs.SubstLemmas Proofs.UnifyInv.
Open Scope N_scope.

(* ---- every earlier binding is kept verbatim ---- *)
Definition extends (ss ss' : subst) : Prop :=
  forall i t, ss_get ss i = Some t -> ss_get ss' i = Some t.

Lemma extends_refl s : extends s s. Proof. intros i t H; exact H. Qed.
Lemma extends_trans a b c : extends a b -> extends b c -> extends a c.
Proof. intros H1 H2 i t H. apply H2, H1, H. Qed.
Lemma extends_bind ss id other : ss_get ss id = None -> extends ss (ss_set ss id other).
Proof.
  intros Hn i t H. destruct (N.eq_dec i id) as [->|Hne]; [congruence|].
  now rewrite ss_get_set_other.
Qed.

Theorem unify_extends fuel a b ss ss' :
  wf_term a = true -> wf_term b = true -> wf_ss ss ->
  unify fuel a b ss = Ok (Some ss') -> extends ss ss' /\ wf_ss ss'.
Proof.
  apply (unify_inv extends extends_refl extends_trans).
  intros f s id name other _ Hn _ _ _. now apply extends_bind.
Qed.

(* ---- `$_` is never the value of a binding ---- *)
Definition no_anon_binding (ss : subst) : Prop := forall i, ss_get ss i <> Some TAnon.
Definition keeps_no_anon (ss ss' : subst) : Prop := no_anon_binding ss -> no_anon_binding ss'.

Theorem unify_never_binds_anon fuel a b ss ss' :
  wf_term a = true -> wf_term b = true -> wf_ss ss ->
  unify fuel a b ss = Ok (Some ss') -> no_anon_binding ss -> no_anon_binding ss'.
Proof.
  intros Ha Hb Hs H.
  refine (proj1 (unify_inv keeps_no_anon _ _ _ fuel a b ss ss' Ha Hb Hs H)).
  - intros s Hx; exact Hx.
  - intros x y z H1 H2 Hx. apply H2, H1, Hx.
  - intros f s id name other _ Hn Hanon _ _ Hx i.
    destruct (N.eq_dec i id) as [->|Hne].
    + rewrite ss_get_set_same. intro E. inversion E; subst. discriminate.
    + rewrite ss_get_set_other by assumption. apply Hx.
Qed.

(* `x = $_` and `$_ = x` succeed for EVERY x and return the substitution set itself *)
Lemma unify_anon_right fuel a ss : unify (S fuel) a TAnon ss = Ok (Some ss).
Proof. simpl. unfold unify_body. destruct (term_eqb a TAnon); reflexivity. Qed.

Lemma unify_anon_left fuel b ss : unify (S fuel) TAnon b ss = Ok (Some ss).
Proof.
  simpl. unfold unify_body. destruct (term_eqb TAnon b); [reflexivity|].
  destruct (is_anon b); reflexivity.
Qed.

(* `$_` as an argument of a complex term constrains nothing: the position is skipped *)
Lemma unify_args_skip_anon_left rec pre pre' t post post' s s2 :
  length pre = length pre' ->
  unify_args rec (pre ++ TAnon :: post) (pre' ++ t :: post') s s2 =
  unify_args rec (pre ++ post) (pre' ++ post') s s2.
Proof.
  revert pre' s s2. induction pre as [|p pre IH]; intros [|p' pre'] s s2 Hl; simpl in Hl; try discriminate.
  - reflexivity.
  - simpl. destruct (is_anon p || is_anon p'); [apply IH; lia|].
    destruct (rec p p' s) as [[s1|]| |]; simpl; try reflexivity. apply IH; lia.
Qed.

Lemma unify_args_skip_anon_right rec pre pre' t post post' s s2 :
  length pre = length pre' ->
  unify_args rec (pre ++ t :: post) (pre' ++ TAnon :: post') s s2 =
  unify_args rec (pre ++ post) (pre' ++ post') s s2.
Proof.
  revert pre' s s2. induction pre as [|p pre IH]; intros [|p' pre'] s s2 Hl; simpl in Hl; try discriminate.
  - simpl. now rewrite orb_true_r.
  - simpl. destruct (is_anon p || is_anon p'); [apply IH; lia|].
    destruct (rec p p' s) as [[s1|]| |]; simpl; try reflexivity. apply IH; lia.
Qed.

(* ---- following bindings from any term ends ---- *)
Definition chains_end (ss : subst) : Prop := forall t, exists r, chain ss t r.

Lemma chains_end_nil : chains_end [].
Proof.
  intro t. destruct (is_var t) eqn:E.
  - destruct t; try discriminate. exists None. constructor. apply ss_get_nil.
  - exists (Some t). now constructor.
Qed.

Lemma not_reach_chain f : forall id o ss x,
  chain_reaches f id o ss = Ok false -> ss_get ss id = None ->
  exists r, chain (ss_set ss id x) o r.
Proof.
  induction f as [|f IH]; intros id o ss x H Hn.
  - destruct o; simpl in H; try (eexists; now constructor).
    destruct (N.eqb_spec id0 id) as [|Hne]; [discriminate|].
    destruct (ss_get ss id0) eqn:Eg; [discriminate|].
    exists None. constructor. now rewrite ss_get_set_other.
  - destruct o; simpl in H; try (eexists; now constructor).
    destruct (N.eqb_spec id0 id) as [|Hne]; [discriminate|].
    destruct (ss_get ss id0) as [t|] eqn:Eg.
    + destruct (IH _ _ _ x H Hn) as [r Hr]. exists r. eapply chain_step; [|exact Hr].
      now rewrite ss_get_set_other.
    + exists None. constructor. now rewrite ss_get_set_other.
Qed.

Lemma chains_end_bind f ss id other :
  ss_get ss id = None -> chain_reaches f id other ss = Ok false ->
  chains_end ss -> chains_end (ss_set ss id other).
Proof.
  intros Hn Hc He t. destruct (He t) as [r Hr].
  induction Hr as [t Hv|id' n Hg|id' n t' r Hg Hr IH].
  - exists (Some t). now constructor.
  - destruct (N.eq_dec id' id) as [->|Hne].
    + destruct (not_reach_chain _ _ _ _ other Hc Hn) as [r' Hr'].
      exists r'. eapply chain_step; [apply ss_get_set_same|exact Hr'].
    + exists None. constructor. now rewrite ss_get_set_other.
  - destruct IH as [r' Hr']. exists r'.
    assert (id' <> id) by congruence.
    eapply chain_step; [|exact Hr']. now rewrite ss_get_set_other.
Qed.

Definition keeps_chains (ss ss' : subst) : Prop := chains_end ss -> chains_end ss'.

Theorem unify_chains_end fuel a b ss ss' :
  wf_term a = true -> wf_term b = true -> wf_ss ss ->
  unify fuel a b ss = Ok (Some ss') -> chains_end ss -> chains_end ss'.
Proof.
  intros Ha Hb Hs H.
  refine (proj1 (unify_inv keeps_chains _ _ _ fuel a b ss ss' Ha Hb Hs H)).
  - intros s Hx; exact Hx.
  - intros x y z H1 H2 Hx. apply H2, H1, Hx.
  - intros f s id name other _ Hn _ _ Hc Hx. eapply chains_end_bind; eauto.
Qed.

(* over any sequence of successful unifications, starting from the empty set *)
Fixpoint unify_seq (fuel : nat) (pairs : list (term * term)) (ss : subst) : res (option subst) :=
  match pairs with
  | [] => Ok (Some ss)
  | (a, b) :: rest =>
      do u <- unify fuel a b ss;
      match u with
      | Some s => unify_seq fuel rest s
      | None => Ok None
      end
  end.

Definition wf_pairs (pairs : list (term * term)) : Prop :=
  Forall (fun p => wf_term (fst p) = true /\ wf_term (snd p) = true) pairs.

Theorem unify_seq_invariants fuel pairs : forall ss ss',
  wf_pairs pairs -> wf_ss ss -> unify_seq fuel pairs ss = Ok (Some ss') ->
  wf_ss ss' /\ extends ss ss' /\ (chains_end ss -> chains_end ss') /\
  (no_anon_binding ss -> no_anon_binding ss').
Proof.
  induction pairs as [|[a b] rest IH]; intros ss ss' Hw Hs H; simpl in H.
  - inversion H; subst. repeat split; auto. apply extends_refl.
  - inversion Hw as [|? ? [Ha Hb] Hrest]; subst. simpl in Ha, Hb.
    destruct (unify fuel a b ss) as [[s1|]| |] eqn:E; simpl in H; try discriminate.
    destruct (unify_extends _ _ _ _ _ Ha Hb Hs E) as [He1 Hw1].
    destruct (IH _ _ Hrest Hw1 H) as (Hw2 & He2 & Hc2 & Hn2).
    repeat split; auto.
    + eapply extends_trans; eauto.
    + intro Hc. apply Hc2. exact (unify_chains_end _ _ _ _ _ Ha Hb Hs E Hc).
    + intro Hn. apply Hn2. exact (unify_never_binds_anon _ _ _ _ _ Ha Hb Hs E Hn).
Qed.

Lemma no_anon_nil : no_anon_binding [].
Proof. intros i H. now rewrite ss_get_nil in H. Qed.

(* ---- aliased variables: unifying them, in either order, adds no binding ---- *)
(* `ends_at ss v t`: following bindings from the variable t ends at the unbound variable v *)
Inductive ends_at (ss : subst) (v : N) : term -> Prop :=
| ends_here n : v <> 0 -> ss_get ss v = None -> ends_at ss v (TVar v n)
| ends_step id n t : id <> 0 -> ss_get ss id = Some t -> ends_at ss v t -> ends_at ss v (TVar id n).

Lemma ends_at_var ss t v : ends_at ss v t -> exists id n, t = TVar id n.
Proof. destruct 1; eauto. Qed.

Lemma ends_at_reaches ss t v : ends_at ss v t ->
  exists f0, forall f, (f0 <= f)%nat -> chain_reaches f v t ss = Ok true.
Proof.
  induction 1 as [n Hv Hn|id n t Hid Hg He [f0 IH]].
  - exists O. intros f _. destruct f; simpl; now rewrite N.eqb_refl.
  - exists (S f0). intros f Hf. destruct f as [|f]; [lia|]. simpl.
    destruct (N.eqb_spec id v) as [|Hne]; [reflexivity|]. rewrite Hg. apply IH. lia.
Qed.

Theorem unify_aliased_noop ss a b v :
  ends_at ss v a -> ends_at ss v b ->
  exists f0, forall f, (f0 <= f)%nat -> unify f a b ss = Ok (Some ss).
Proof.
  intros Ha Hb. destruct (ends_at_reaches _ _ _ Hb) as [fb Hfb].
  destruct (ends_at_var _ _ _ Hb) as (idb & nb & ->). clear Hb.
  induction Ha as [n Hv Hn|id n t Hid Hg He [f0 IH]].
  - exists (S fb). intros f Hf. destruct f as [|f]; [lia|]. simpl. unfold unify_body.
    destruct (term_eqb (TVar v n) (TVar idb nb)); [reflexivity|]. simpl.
    destruct (N.eqb_spec v 0) as [|_]; [contradiction|]. rewrite Hn.
    rewrite Hfb by lia. reflexivity.
  - exists (S f0). intros f Hf. destruct f as [|f]; [lia|]. simpl. unfold unify_body.
    destruct (term_eqb (TVar id n) (TVar idb nb)); [reflexivity|]. simpl.
    destruct (N.eqb_spec id 0) as [|_]; [contradiction|]. rewrite Hg. apply IH. lia.
Qed.
