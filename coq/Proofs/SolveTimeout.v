(* C23 (the part that is logic): what solve and solve_all report, for EVERY schedule of the stop
   flag.  The timer thread itself is outside every model (DESIGN.md C23). *)
From Coq Require Import Lia.
From Suiron Require Import Model.Term Model.Subst Model.Show Model.Lists Model.Arith Model.Unify
  Model.Compare Model.Builtins Model.Rename Model.Solve.
Open Scope N_scope.

(* the text of an answer *)
Definition answer_text (fuel : nat) (q : term) (s : subst) : res str :=
  do r <- replace_variables fuel q s; format_solution (GCall q) r.

(* ---- solve ---- *)
Theorem solve_reports kb fuel nd w nd' txt w' :
  solve fuel kb nd w = Ok (nd', txt, w') ->
  exists sol c w1,
    next kb fuel fuel nd (w_set_flag w false) = Ok (nd', sol, c, w1) /\
    w' = snd (query_stopped w1) /\
    if fst (query_stopped w1) then txt = timeout_msg
    else match sol with
         | None => txt = no_more
         | Some s => exists q, node_goal_term nd' = Some q /\ answer_text fuel q s = Ok txt
         end.
Proof.
  unfold solve. intro H.
  destruct (next kb fuel fuel nd (w_set_flag w false)) as [[[[n1 o1] b1] w1]| |] eqn:E; cbn [bind] in H; try discriminate.
  destruct (query_stopped w1) as [st w2] eqn:Eq. exists o1, b1, w1.
  destruct st.
  - inversion H; subst. rewrite Eq. simpl. auto.
  - destruct o1 as [s|].
    + destruct (node_goal_term n1) as [q|] eqn:Eg; [|discriminate].
      destruct (replace_variables fuel q s) as [r| |] eqn:Er; cbn [bind] in H; try discriminate.
      destruct (format_solution (GCall q) r) as [t| |] eqn:Ef; cbn [bind] in H; try discriminate.
      inversion H; subst. rewrite Eq. simpl. repeat split; auto. exists q. split; [exact Eg|].
      unfold answer_text. rewrite Er. simpl. exact Ef.
    + inversion H; subst. rewrite Eq. simpl. auto.
Qed.

(* ---- solve_all ---- *)
(* `Run q nd w l nd' w' stopped`: starting from node nd in world w, the requests
   next_solution / read the flag / next_solution / read the flag ... produce the answer texts
   l - each the text of an answer that next_solution returned and after which the flag was
   read FALSE - and end either with a request that finds no answer while the flag still reads
   false (stopped = false: the list is complete) or with a flag that reads true (stopped =
   true: whatever that last request returned is dropped). *)
Inductive Run (kb : kbase) (q : term) (fuel : nat) : node -> world -> list str -> node -> world -> bool -> Prop :=
| Run_complete nd w nd' c w1 :
    next kb fuel fuel nd w = Ok (nd', None, c, w1) -> fst (query_stopped w1) = false ->
    Run kb q fuel nd w [] nd' (snd (query_stopped w1)) false
| Run_stopped nd w nd' sol c w1 :
    next kb fuel fuel nd w = Ok (nd', sol, c, w1) -> fst (query_stopped w1) = true ->
    Run kb q fuel nd w [] nd' (snd (query_stopped w1)) true
| Run_answer nd w nd1 s c w1 txt l nd' w' b :
    next kb fuel fuel nd w = Ok (nd1, Some s, c, w1) -> fst (query_stopped w1) = false ->
    answer_text fuel q s = Ok txt ->
    Run kb q fuel nd1 (snd (query_stopped w1)) l nd' w' b ->
    Run kb q fuel nd w (txt :: l) nd' w' b.

Lemma solve_all_loop_runs kb q fuel : forall n nd acc w nd' l w',
  solve_all_loop n fuel kb nd q acc w = Ok (nd', l, w') ->
  exists l0 b, Run kb q fuel nd w l0 nd' w' b /\ l = acc ++ l0.
Proof.
  induction n as [|f IH]; intros nd acc w nd' l w' H; [discriminate|].
  cbn [solve_all_loop] in H.
  destruct (next kb fuel fuel nd w) as [[[[n1 o1] b1] w1]| |] eqn:E; cbn [bind] in H; try discriminate.
  destruct (query_stopped w1) as [st w2] eqn:Eq.
  destruct st.
  - inversion H; subst. exists [], true. split; [|now rewrite app_nil_r].
    replace w' with (snd (query_stopped w1)) by now rewrite Eq.
    eapply Run_stopped; eauto. now rewrite Eq.
  - destruct o1 as [s|].
    + destruct (replace_variables fuel q s) as [r| |] eqn:Er; cbn [bind] in H; try discriminate.
      destruct (format_solution (GCall q) r) as [t| |] eqn:Ef; cbn [bind] in H; try discriminate.
      destruct (IH _ _ _ _ _ _ H) as (l0 & b & Hr & ->).
      exists (t :: l0), b. split; [|now rewrite <- app_assoc].
      eapply Run_answer; eauto.
      * now rewrite Eq.
      * unfold answer_text. rewrite Er. exact Ef.
      * now rewrite Eq.
    + inversion H; subst. exists [], false. split; [|now rewrite app_nil_r].
      replace w' with (snd (query_stopped w1)) by now rewrite Eq.
      eapply Run_complete; eauto. now rewrite Eq.
Qed.

(* once the flag has been read true it reads true (until a query is started) *)
Lemma stopped_stays w : fst (query_stopped w) = true -> fst (query_stopped (snd (query_stopped w))) = true.
Proof.
  destruct w as [i fl af o]. unfold query_stopped. cbn [stop_after stop_flag next_id out].
  destruct af as [[|p]|]; cbn [fst snd stop_after stop_flag next_id out]; intro H; try exact H; try reflexivity.
  destruct (N.pos p - 1) as [|p']; cbn [fst]; [reflexivity|exact H].
Qed.

Lemma run_stopped_flag kb q fuel nd w l nd' w' :
  Run kb q fuel nd w l nd' w' true -> fst (query_stopped w') = true.
Proof.
  intro H. remember true as b eqn:Eb. induction H; try discriminate; auto.
  now apply stopped_stays.
Qed.

(* solve_all: the answer texts of a Run, followed by the timeout message exactly when the
   final read of the flag is true - which is always the case after a stopped Run *)
Theorem solve_all_reports kb fuel nd w nd' l w' :
  solve_all fuel kb nd w = Ok (nd', l, w') ->
  exists q l0 b w1,
    node_goal_term nd = Some q /\
    Run kb q fuel nd (w_set_flag w false) l0 nd' w1 b /\
    l = l0 ++ (if fst (query_stopped w1) then [timeout_msg] else []) /\
    (b = true -> fst (query_stopped w1) = true).
Proof.
  unfold solve_all. intro H. destruct (node_goal_term nd) as [q|]; [|discriminate].
  destruct (solve_all_loop fuel fuel kb nd q [] (w_set_flag w false)) as [[[n1 acc] w1]| |] eqn:E;
    cbn [bind] in H; try discriminate.
  destruct (solve_all_loop_runs _ _ _ _ _ _ _ _ _ _ E) as (l0 & b & Hr & Hl). simpl in Hl. subst acc.
  destruct (query_stopped w1) as [st w2] eqn:Eq. inversion H; subst.
  exists q, l0, b, w1. rewrite Eq. simpl. split; [reflexivity|]. split; [exact Hr|]. split.
  - destruct st; [reflexivity|now rewrite app_nil_r].
  - intros ->. apply run_stopped_flag in Hr. now rewrite Eq in Hr.
Qed.

