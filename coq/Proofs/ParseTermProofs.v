(* Proofs about the term-level parsers (Model/ParseTerm.v, Model/ParseGoal.v).
   Part A: totality (C18, term level) - no Panic, no OutOfFuel once fuel >= length + 2.
   Part B: context independence (C20). *)
From Coq Require Import Lia String.
From Suiron Require Import Model.ParseTerm Model.ParseGoal.
Open Scope N_scope.

(* ------------------------------------------------------------------------------------ *)
(* Part A: totality                                                                      *)
(* ------------------------------------------------------------------------------------ *)

Definition is_ok {A} (r : res A) : Prop := match r with Ok _ => True | _ => False end.

Lemma is_ok_Ok {A} (a : A) : is_ok (Ok a).
Proof. exact I. Qed.
#[export] Hint Resolve is_ok_Ok : pok.

Lemma is_ok_inv {A} (r : res A) : is_ok r -> exists a, r = Ok a.
Proof. destruct r; simpl; intros H; try contradiction. eauto. Qed.

Lemma is_ok_bind {A B} (r : res A) (k : A -> res B) :
  is_ok r -> (forall a, r = Ok a -> is_ok (k a)) -> is_ok (bind r k).
Proof. destruct r; simpl; intros H Hk; try contradiction. now apply Hk. Qed.

Lemma is_ok_pbind {A B} (r : res (presult A)) (k : A -> res (presult B)) :
  is_ok r -> (forall a, r = Ok (POk a) -> is_ok (k a)) -> is_ok (pbind r k).
Proof. destruct r as [[a|]| |]; simpl; intros H Hk; try contradiction; auto. Qed.

Lemma is_ok_pok {A} (a : A) : is_ok (pok a).
Proof. exact I. Qed.
Lemma is_ok_perr {A} : is_ok (@perr A).
Proof. exact I. Qed.
#[export] Hint Resolve is_ok_pok is_ok_perr : pok.

(* the final, explicit form *)
Definition value_or_error {A} (r : res (presult A)) : Prop :=
  r = Ok PErr \/ exists v, r = Ok (POk v).

Lemma is_ok_value_or_error {A} (r : res (presult A)) : is_ok r -> value_or_error r.
Proof.
  destruct r as [[a|]| |]; simpl; intros H; try contradiction.
  - right; eauto.
  - now left.
Qed.

(* ---- lists, trim, slice ---- *)
Lemma trim_start_length s : (length (trim_start s) <= length s)%nat.
Proof. induction s as [|c r IH]; simpl; [lia|]. destruct (is_white c); simpl; lia. Qed.

Lemma trim_length s : (length (trim s) <= length s)%nat.
Proof.
  unfold trim. rewrite rev_length.
  etransitivity; [apply trim_start_length|]. rewrite rev_length. apply trim_start_length.
Qed.

Lemma trim_start_keeps c s : In c s -> is_white c = false -> In c (trim_start s).
Proof.
  induction s as [|x r IH]; simpl; [tauto|]. intros [->|Hin] Hw.
  - rewrite Hw. now left.
  - destruct (is_white x); [auto|]. now right.
Qed.

Lemma trim_keeps c s : In c s -> is_white c = false -> In c (trim s).
Proof.
  intros Hin Hw. unfold trim. apply in_rev. rewrite rev_involutive.
  apply trim_start_keeps; [|exact Hw]. apply -> in_rev. now apply trim_start_keeps.
Qed.

Lemma slice_ok v a b :
  (a <= b)%nat -> (b <= length v)%nat -> slice v a b = Ok (firstn (b - a) (skipn a v)).
Proof.
  intros H1 H2. unfold slice.
  apply Nat.leb_le in H1. apply Nat.leb_le in H2. now rewrite H1, H2.
Qed.

Lemma slice_length v a b s : slice v a b = Ok s -> (length s = b - a /\ a <= b /\ b <= length v)%nat.
Proof.
  unfold slice. destruct (a <=? b)%nat eqn:E1; [|discriminate].
  destruct (b <=? length v)%nat eqn:E2; [|discriminate]. simpl.
  apply Nat.leb_le in E1. apply Nat.leb_le in E2.
  intros H; inversion H; subst. rewrite firstn_length, skipn_length. lia.
Qed.

Lemma equal_escape_ok v index ch :
  (index < length v)%nat -> exists b, equal_escape v index ch = Ok b.
Proof.
  intros H. unfold equal_escape.
  destruct (nth_error v index) as [c|] eqn:E.
  - destruct (c =? ch); [|eauto]. destruct index as [|p]; [eauto|].
    destruct (nth_error v p) as [b|] eqn:E2; [eauto|].
    apply nth_error_None in E2. lia.
  - apply nth_error_None in E. lia.
Qed.

Lemma check_quotes_ok s count : (count = 2 -> s <> []) -> is_ok (check_quotes s count).
Proof.
  intros H. unfold check_quotes.
  destruct (count =? 0); [exact I|]. destruct (count =? 2) eqn:E; simpl; [|exact I].
  apply N.eqb_eq in E. destruct s as [|f r]; [now elim (H E)|].
  destruct (f =? c_dquote); cbn [negb]; [|exact I].
  destruct (negb (last (f :: r) 0 =? c_dquote)); exact I.
Qed.

Lemma link_front_list t b l : is_list l = true -> exists l', link_front t b l = Ok l' /\ is_list l' = true.
Proof. destruct l; simpl; try discriminate. intros _. eexists; split; reflexivity. Qed.

Lemma dquote_not_white : is_white c_dquote = false.
Proof. reflexivity. Qed.

(* ---- indices_of_parentheses ---- *)
Lemma iop_loop_inv rest : forall i lft rgt cl cr l' r' cl' cr',
  iop_loop rest i lft rgt cl cr = (l', r', cl', cr') ->
  (-1 <= lft < Z.of_nat i)%Z -> (-1 <= rgt < Z.of_nat i)%Z -> (lft = rgt -> lft = -1)%Z ->
  (-1 <= l' < Z.of_nat (i + length rest))%Z /\ (-1 <= r' < Z.of_nat (i + length rest))%Z /\
  (l' = r' -> l' = -1)%Z.
Proof.
  induction rest as [|ch tl IH]; intros i lft rgt cl cr l' r' cl' cr' H Hl Hr Hne; simpl in H.
  - inversion H; subst. simpl. rewrite Nat.add_0_r. auto.
  - replace (i + length (ch :: tl))%nat with (S i + length tl)%nat by (simpl; lia).
    destruct (ch =? c_lpar).
    + eapply IH; [exact H| | |].
      * destruct (lft =? -1)%Z; lia.
      * lia.
      * destruct (lft =? -1)%Z eqn:E; [lia|]. apply Z.eqb_neq in E. intros; lia.
    + destruct (ch =? c_rpar).
      * eapply IH; [exact H| | |]; lia.
      * eapply IH; [exact H| | |]; lia.
Qed.

Lemma indices_of_parentheses_bounds s l r :
  indices_of_parentheses s = POk (Some (l, r)) -> (l < r /\ r < length s)%nat.
Proof.
  unfold indices_of_parentheses.
  destruct (iop_loop s 0 (-1) (-1) 0 0) as [[[lft rgt] cl] cr] eqn:E.
  apply iop_loop_inv in E; [|simpl; lia|simpl; lia|auto]. simpl in E.
  destruct E as (Hl & Hr & Hne).
  destruct (negb (cl =? cr)); [discriminate|].
  destruct (rgt <? lft)%Z eqn:E1; [discriminate|]. apply Z.ltb_ge in E1.
  destruct (lft =? -1)%Z eqn:E2; [discriminate|]. apply Z.eqb_neq in E2.
  intros H; inversion H; subst. lia.
Qed.

(* ---- check_arithmetic_infix / check_infix: position of the infix ---- *)
Lemma cai_loop_bound rest : forall i prev skip inf idx,
  cai_loop rest i prev skip = (inf, idx) -> inf <> INone -> (idx + 2 <= i + length rest)%nat.
Proof.
  induction rest as [|c1 tl IH]; intros i prev skip inf idx H Hne; simpl in H.
  - inversion H; subst. now elim Hne.
  - assert (Hstep : forall p sk, cai_loop tl (S i) p sk = (inf, idx) ->
                                 (idx + 2 <= i + length (c1 :: tl))%nat).
    { intros p sk Hr. apply IH in Hr; [simpl; lia|exact Hne]. }
    assert (Hret : forall (x : infix) (c2 : N), (c2 =? 32) = true ->
              c2 = match tl with c :: _ => c | [] => c_hash end ->
              (x, i) = (inf, idx) -> (idx + 2 <= i + length (c1 :: tl))%nat).
    { intros x c2 Hc2 Hdef Hr. inversion Hr; subst idx.
      destruct tl as [|c tl']; [subst c2; discriminate|]. simpl. lia. }
    destruct skip as [[close open]|].
    + destruct (c1 =? close); eauto.
    + set (c2 := match tl with c :: _ => c | [] => c_hash end) in *.
      destruct (c1 =? c_dquote). { destruct (has_char c_dquote tl); eauto. }
      destruct (c1 =? c_lpar). { destruct (has_char c_rpar tl); eauto. }
      destruct (negb (prev =? 32)); [eauto|].
      destruct (c1 =? c_plus). { destruct (c2 =? 32) eqn:E; eauto. }
      destruct (c1 =? c_minus). { destruct (c2 =? 32) eqn:E; eauto. }
      destruct (c1 =? c_star). { destruct (c2 =? 32) eqn:E; eauto. }
      destruct (c1 =? c_slash). { destruct (c2 =? 32) eqn:E; eauto. }
      eauto.
Qed.

Lemma check_arithmetic_infix_bound s inf idx :
  check_arithmetic_infix s = (inf, idx) -> inf <> INone -> (idx + 2 <= length s)%nat.
Proof. unfold check_arithmetic_infix. intros H Hne. now apply cai_loop_bound in H. Qed.

Lemma ci_loop_ok len rest : forall i prev skip,
  (i + length rest = len)%nat -> (prev = 32 -> (1 <= i)%nat) ->
  exists inf idx, ci_loop len rest i prev skip = Ok (inf, idx) /\
                  (inf <> INone -> (idx + 3 <= len)%nat).
Proof.
  induction rest as [|c1 tl IH]; intros i prev skip Hlen Hprev; simpl.
  - exists INone, O. split; [reflexivity|]. intros H; now elim H.
  - simpl in Hlen.
    assert (Hstep : forall (p : N) sk, (p = 32 -> (1 <= S i)%nat) ->
              exists inf idx, ci_loop len tl (S i) p sk = Ok (inf, idx) /\
                              (inf <> INone -> (idx + 3 <= len)%nat)).
    { intros p sk Hp. apply IH; [lia|exact Hp]. }
    assert (Hany : forall p : N, (p = 32 -> (1 <= S i)%nat)) by (intros; lia).
    destruct skip as [[close open]|].
    + destruct (c1 =? close); apply Hstep; apply Hany.
    + destruct (c1 =? c_dquote). { destruct (has_char c_dquote tl); apply Hstep; apply Hany. }
      destruct (c1 =? c_lpar). { destruct (has_char c_rpar tl); apply Hstep; apply Hany. }
      destruct (negb (prev =? 32)) eqn:Ep; [apply Hstep; apply Hany|].
      apply negb_false_iff, N.eqb_eq in Ep. specialize (Hprev Ep).
      destruct (len <? 2)%nat eqn:E2. { apply Nat.ltb_lt in E2. lia. }
      destruct (len - 2 <=? i)%nat eqn:E3.
      { exists INone, O. split; [reflexivity|]. intros H; now elim H. }
      apply Nat.leb_gt in E3.
      assert (Hret : forall x, exists inf idx, Ok (x, i) = Ok (inf, idx) /\
                                 (inf <> INone -> (idx + 3 <= len)%nat)).
      { intros x. exists x, i. split; [reflexivity|]. intros _. lia. }
      repeat match goal with
             | |- context [if ?b then _ else _] => destruct b
             end; try apply Hret; apply Hstep; apply Hany.
Qed.

Lemma check_infix_ok s :
  exists inf idx, check_infix s = Ok (inf, idx) /\ (inf <> INone -> (idx + 3 <= length s)%nat).
Proof. unfold check_infix. apply ci_loop_ok; [lia|]. intros H; discriminate. Qed.

(* ---- the bodies, given recursive calls that are total on shorter texts ---- *)
Section BodiesTotal.
  Variable rec_term : str -> res (presult term).
  Variable rec_args : str -> res (presult (list term)).
  Variable n : nat.
  Hypothesis Hterm : forall s, (length s < n)%nat -> is_ok (rec_term s).
  Hypothesis Hargs : forall s, (length s < n)%nat -> is_ok (rec_args s).

  Lemma get_left_and_right_ok chrs index size :
    (1 <= size)%nat -> (index + size <= length chrs)%nat -> (length chrs <= n)%nat ->
    is_ok (get_left_and_right rec_term chrs index size).
  Proof.
    intros Hs Hi Hn. unfold get_left_and_right.
    rewrite slice_ok by lia. cbn [bind].
    rewrite slice_ok by lia. cbn [bind].
    apply is_ok_pbind. { apply Hterm. rewrite firstn_length, skipn_length. lia. }
    intros t1 _. apply is_ok_pbind. { apply Hterm. rewrite firstn_length, skipn_length. lia. }
    intros t2 _. exact I.
  Qed.

  (* parse_linked_list *)
  Definition pll_inv (args : str) (ind : nat) (st : pll_state) : Prop :=
    (ind < pll_end st)%nat /\ (pll_end st <= length args)%nat /\ is_list (pll_list st) = true.

  Lemma pll_elem_ok args a b sl : (length args < n)%nat -> slice args a b = Ok sl ->
    is_ok (rec_term (trim sl)).
  Proof.
    intros Hn Hs. apply Hterm. apply slice_length in Hs.
    pose proof (trim_length sl). lia.
  Qed.

  Lemma pll_step_ok args ind st :
    (length args < n)%nat -> pll_inv args ind st ->
    is_ok (pll_step rec_term args ind st) /\
    forall st', pll_step rec_term args ind st = Ok (POk st') ->
      (ind <= pll_end st')%nat /\ (pll_end st' <= length args)%nat /\ is_list (pll_list st') = true.
  Proof.
    intros Hn (Hi & He & Hl). destruct st as [list end_index vbar oq nq rd sd]. simpl in *.
    assert (Hind : (ind < length args)%nat) by lia.
    assert (Hsame : forall st'', pok (A:=pll_state) (mkPll list end_index vbar oq nq rd sd) = Ok (POk st'') ->
              (ind <= pll_end st'')%nat /\ (pll_end st'' <= length args)%nat /\ is_list (pll_list st'') = true).
    { intros st'' H. inversion H; subst; simpl. repeat split; try lia; exact Hl. }
    assert (Hupd : forall vb oq' nq' rd' sd' st'',
              pok (A:=pll_state) (mkPll list end_index vb oq' nq' rd' sd') = Ok (POk st'') ->
              (ind <= pll_end st'')%nat /\ (pll_end st'' <= length args)%nat /\ is_list (pll_list st'') = true).
    { intros vb oq' nq' rd' sd' st'' H. inversion H; subst; simpl. repeat split; try lia; exact Hl. }
    destruct oq.
    { destruct (equal_escape_ok args ind c_dquote Hind) as [q ->]. cbn [bind].
      destruct q; split; try exact I; eauto. }
    destruct (equal_escape_ok args ind c_rbr Hind) as [b1 ->]. cbn [bind].
    destruct b1. { split; [exact I|]; eauto. }
    destruct (equal_escape_ok args ind c_lbr Hind) as [b2 ->]. cbn [bind].
    destruct b2. { split; [exact I|]; eauto. }
    destruct (equal_escape_ok args ind c_rpar Hind) as [b3 ->]. cbn [bind].
    destruct b3. { split; [exact I|]; eauto. }
    destruct (equal_escape_ok args ind c_lpar Hind) as [b4 ->]. cbn [bind].
    destruct b4. { split; [exact I|]; eauto. }
    destruct ((rd =? 0)%Z && (sd =? 0)%Z); [|split; [exact I|]; eauto].
    destruct (equal_escape_ok args ind c_dquote Hind) as [b5 ->]. cbn [bind].
    destruct b5. { split; [exact I|]; eauto. }
    destruct (equal_escape_ok args ind c_comma Hind) as [b6 ->]. cbn [bind].
    destruct b6.
    { rewrite slice_ok by lia. cbn [bind].
      set (sl := firstn (end_index - (ind + 1)) (skipn (ind + 1) args)).
      assert (Hsl : (length sl <= length args)%nat).
      { unfold sl. rewrite firstn_length, skipn_length. lia. }
      destruct (trim sl) as [|c0 r0] eqn:Et. { split; [exact I|]. intros st' H; discriminate. }
      rewrite <- Et.
      assert (Hq : is_ok (check_quotes (trim sl) nq)).
      { apply check_quotes_ok. intros _. rewrite Et. discriminate. }
      destruct (check_quotes (trim sl) nq) as [cq| |]; try contradiction. cbn [bind].
      destruct cq. { split; [exact I|]. intros st' H; discriminate. }
      assert (Ht : is_ok (rec_term (trim sl))).
      { apply Hterm. pose proof (trim_length sl). lia. }
      destruct (rec_term (trim sl)) as [[t|]| |]; try contradiction; cbn [pbind].
      - destruct (link_front_list t false list Hl) as (l' & -> & Hl'). cbn [bind].
        split; [exact I|]. intros st' H; inversion H; subst; simpl. repeat split; try lia; exact Hl'.
      - split; [exact I|]. intros st' H; discriminate. }
    destruct (equal_escape_ok args ind c_bar Hind) as [b7 ->]. cbn [bind].
    destruct b7; [|split; [exact I|]; eauto].
    destruct vbar. { split; [exact I|]. intros st' H; discriminate. }
    rewrite slice_ok by lia. cbn [bind].
    set (sl := firstn (end_index - (ind + 1)) (skipn (ind + 1) args)).
    destruct (trim sl) as [|c0 r0] eqn:Et. { split; [exact I|]. intros st' H; discriminate. }
    rewrite <- Et.
    destruct (if str_eqb (trim sl) [c_dollar; c_underscore] then POk TAnon else make_logic_var (trim sl)) as [var|]; [|split; [exact I|]; intros st' H; discriminate].
    destruct (link_front_list var true list Hl) as (l' & -> & Hl'). cbn [bind].
    split; [exact I|]. intros st' H; inversion H; subst; simpl. repeat split; try lia; exact Hl'.
  Qed.

  Lemma pll_final_ok args st :
    (length args < n)%nat -> (pll_end st <= length args)%nat -> is_list (pll_list st) = true ->
    is_ok (pll_final rec_term args st).
  Proof.
    intros Hn He Hl. unfold pll_final.
    rewrite slice_ok by lia. cbn [bind].
    set (sl := firstn (pll_end st - 0) (skipn 0 args)).
    assert (Hsl : (length sl <= length args)%nat).
    { unfold sl. rewrite firstn_length, skipn_length. lia. }
    destruct (trim sl) as [|c0 r0] eqn:Et; [exact I|]. rewrite <- Et.
    apply is_ok_bind. { apply check_quotes_ok. intros _. rewrite Et. discriminate. }
    intros cq _. destruct cq; [exact I|].
    apply is_ok_pbind. { apply Hterm. pose proof (trim_length sl). lia. }
    intros t _. destruct (link_front_list t false _ Hl) as (l' & -> & _). exact I.
  Qed.

  Lemma pll_loop_ok args : forall ind st,
    (length args < n)%nat -> pll_inv args ind st -> is_ok (pll_loop rec_term args ind st).
  Proof.
    induction ind as [|i IH]; intros st Hn Hinv.
    - cbn [pll_loop]. destruct (pll_step_ok args 0 st Hn Hinv) as [Hok Hst].
      apply is_ok_pbind; [exact Hok|]. intros st' E. apply Hst in E as (_ & He & Hl).
      now apply pll_final_ok.
    - cbn [pll_loop]. destruct (pll_step_ok args (S i) st Hn Hinv) as [Hok Hst].
      apply is_ok_pbind; [exact Hok|]. intros st' E. apply Hst in E as (Hi & He & Hl).
      apply IH; [exact Hn|]. repeat split; try lia; exact Hl.
  Qed.

  Lemma parse_linked_list_body_ok s :
    (length s <= n)%nat -> is_ok (parse_linked_list_body rec_term s).
  Proof.
    intros Hn. unfold parse_linked_list_body.
    pose proof (trim_length s) as Ht. set (t := trim s) in *.
    destruct (length t <? 2)%nat eqn:E2; [exact I|]. apply Nat.ltb_ge in E2.
    destruct t as [|first r] eqn:Et; [simpl in E2; lia|]. rewrite <- Et in *.
    destruct (negb (first =? c_lbr)); [exact I|].
    destruct (negb (last t 0 =? c_rbr)); [exact I|].
    destruct (length t =? 2)%nat eqn:E3; [exact I|]. apply Nat.eqb_neq in E3.
    rewrite slice_ok by lia. cbn [bind].
    set (args := firstn (length t - 1 - 1) (skipn 1 t)).
    assert (Hla : length args = (length t - 2)%nat).
    { unfold args. rewrite firstn_length, skipn_length. lia. }
    destruct (length args <? 1)%nat eqn:E4. { apply Nat.ltb_lt in E4. lia. }
    apply pll_loop_ok; [lia|]. unfold pll_inv; simpl. repeat split; lia.
  Qed.

  (* parse_complex, parse_function *)
  Lemma parse_functor_terms_ok functor terms :
    (length terms < n)%nat -> is_ok (parse_functor_terms rec_args functor terms).
  Proof.
    intros Hn. unfold parse_functor_terms. destruct terms as [|c r] eqn:E; [exact I|].
    rewrite <- E in *. apply is_ok_pbind; [now apply Hargs|]. intros; exact I.
  Qed.

  Lemma parse_complex_body_ok s : (length s <= n)%nat -> is_ok (parse_complex_body rec_args s).
  Proof.
    intros Hn. unfold parse_complex_body.
    pose proof (trim_length s) as Ht. set (t := trim s) in *.
    destruct (validate_complex t) eqn:Ev; [exact I|].
    destruct (indices_of_parentheses t) as [[[l r]|]|] eqn:Ei; [| |exact I].
    - apply indices_of_parentheses_bounds in Ei as [Hlr Hr].
      rewrite slice_ok by lia. cbn [bind]. rewrite slice_ok by lia. cbn [bind].
      apply parse_functor_terms_ok. rewrite firstn_length, skipn_length. lia.
    - apply parse_functor_terms_ok. simpl.
      destruct t; [discriminate Ev|]. simpl in Ht. lia.
  Qed.

  Lemma parse_function_body_ok s : (length s <= n)%nat -> is_ok (parse_function_body rec_args s).
  Proof.
    intros Hn. unfold parse_function_body.
    pose proof (trim_length s) as Ht. set (t := trim s) in *.
    destruct (validate_complex t) eqn:Ev; [exact I|].
    destruct (indices_of_parentheses t) as [[[l r]|]|] eqn:Ei; [| exact I|exact I].
    apply indices_of_parentheses_bounds in Ei as [Hlr Hr].
    rewrite slice_ok by lia. cbn [bind]. rewrite slice_ok by lia. cbn [bind].
    set (ts := firstn (r - (l + 1)) (skipn (l + 1) t)).
    assert (Hts : (length ts < n)%nat).
    { unfold ts. rewrite firstn_length, skipn_length. lia. }
    destruct ts as [|c0 r0] eqn:E; [exact I|]. rewrite <- E in *.
    apply is_ok_pbind; [now apply Hargs|]. intros; exact I.
  Qed.

  (* make_term *)
  Lemma make_term_ok s : (length s <= n)%nat -> is_ok (make_term rec_term rec_args s).
  Proof.
    intros Hn. unfold make_term.
    pose proof (trim_length s) as Ht. set (t := trim s) in *.
    destruct (classify_term t) as [[hd hnd] hp].
    destruct t as [|first r] eqn:Et; [exact I|]. rewrite <- Et in *.
    destruct (first =? c_dollar).
    { destruct (str_eqb t (s2l "$_")); [exact I|]. destruct (make_logic_var t); exact I. }
    assert (Hnum : is_ok (if hd && negb hnd
                          then if hp then match parse_f64 t with Some f => pok (TFloat f) | None => perr end
                               else match parse_i64 t with Some z => pok (TInt z) | None => perr end
                          else pok (TAtom t))).
    { destruct (hd && negb hnd); [|exact I]. destruct hp.
      - destruct (parse_f64 t); exact I.
      - destruct (parse_i64 t); exact I. }
    cbv zeta.
    destruct (2 <=? length t)%nat eqn:E2; [|exact Hnum]. apply Nat.leb_le in E2.
    destruct (first =? c_dquote).
    { destruct (last t 0 =? c_dquote); [|exact I].
      rewrite slice_ok by lia. cbn [bind].
      destruct (firstn _ _); exact I. }
    destruct ((first =? c_lbr) && (last t 0 =? c_rbr)).
    { apply parse_linked_list_body_ok. lia. }
    destruct (negb (first =? c_lpar) && (last t 0 =? c_rpar)); [|exact Hnum].
    repeat match goal with
           | |- context [if str_prefix ?p t then _ else _] => destruct (str_prefix p t)
           end; try (apply parse_function_body_ok; lia).
    apply parse_complex_body_ok. lia.
  Qed.

  (* parse_arguments *)
  Definition pa_inv (st : pa_state) : Prop := pa_nq st <> 0 -> In c_dquote (pa_arg st).

  Lemma pa_make_ok st : (length (pa_arg st) <= n)%nat -> pa_inv st ->
    is_ok (pa_make rec_term rec_args st).
  Proof.
    intros Hn Hinv. unfold pa_make.
    apply is_ok_bind.
    { apply check_quotes_ok. intros H2.
      assert (Hin : In c_dquote (trim (pa_arg st))).
      { apply trim_keeps; [|reflexivity]. apply Hinv. rewrite H2. discriminate. }
      destruct (trim (pa_arg st)); [destruct Hin|discriminate]. }
    intros cq _. destruct cq; [exact I|].
    apply make_term_ok. pose proof (trim_length (pa_arg st)). lia.
  Qed.

  Lemma pa_inv_push c st : pa_inv st -> pa_inv (pa_push c st).
  Proof. unfold pa_inv, pa_push; simpl. intros H Hn. apply in_or_app. left. auto. Qed.

  Lemma pa_loop_ok len : forall m rest i st,
    (length rest <= m)%nat -> (i + length rest = len)%nat ->
    (length (pa_arg st) + length rest <= n)%nat -> pa_inv st ->
    is_ok (pa_loop rec_term rec_args len rest i st) /\
    forall st', pa_loop rec_term rec_args len rest i st = Ok (POk st') ->
      (length (pa_arg st') <= n)%nat /\ pa_inv st'.
  Proof.
    induction m as [|m IH]; intros rest i st Hm Hlen Hn Hinv.
    { destruct rest; [|simpl in Hm; lia]. simpl. split; [exact I|].
      intros st' H; inversion H; subst. simpl in Hn. split; [lia|exact Hinv]. }
    destruct rest as [|ch tl].
    { simpl. split; [exact I|].
      intros st' H; inversion H; subst. simpl in Hn. split; [lia|exact Hinv]. }
    simpl in Hm, Hlen, Hn. cbn [pa_loop].
    assert (Hpush : forall c st1, (length (pa_arg st1) = length (pa_arg st))%nat ->
              (length (pa_arg (pa_push c st1)) + length tl <= n)%nat).
    { intros c st1 E. unfold pa_push; simpl. rewrite app_length; simpl. lia. }
    assert (Hgo : forall st1, (length (pa_arg st1) + length tl <= n)%nat -> pa_inv st1 ->
              is_ok (pa_loop rec_term rec_args len tl (S i) st1) /\
              forall st', pa_loop rec_term rec_args len tl (S i) st1 = Ok (POk st') ->
                (length (pa_arg st') <= n)%nat /\ pa_inv st').
    { intros st1 H1 H2. apply IH; try lia; assumption. }
    destruct (pa_oq st).
    { apply Hgo.
      - destruct (ch =? c_dquote); simpl; rewrite app_length; simpl; lia.
      - destruct (ch =? c_dquote) eqn:Eq.
        + apply N.eqb_eq in Eq. subst ch. unfold pa_inv; simpl. intros _.
          apply in_or_app. right. now left.
        + now apply pa_inv_push. }
    destruct (ch =? c_lbr). { apply Hgo; [now apply Hpush|now apply pa_inv_push]. }
    destruct (ch =? c_rbr). { apply Hgo; [now apply Hpush|now apply pa_inv_push]. }
    destruct (ch =? c_lpar). { apply Hgo; [now apply Hpush|now apply pa_inv_push]. }
    destruct (ch =? c_rpar). { apply Hgo; [now apply Hpush|now apply pa_inv_push]. }
    destruct ((pa_rd st =? 0)%Z && (pa_sd st =? 0)%Z);
      [|apply Hgo; [now apply Hpush|now apply pa_inv_push]].
    destruct (ch =? c_comma).
    { assert (Hmk : is_ok (pa_make rec_term rec_args st)) by (apply pa_make_ok; [lia|exact Hinv]).
      destruct (pa_make rec_term rec_args st) as [[t|]| |]; try contradiction; cbn [pbind].
      - apply Hgo; [simpl; lia|]. unfold pa_inv; simpl. intros H; now elim H.
      - split; [exact I|]. intros st' H; discriminate. }
    destruct (ch =? c_bslash).
    { destruct (i + 1 <? len)%nat eqn:E1.
      - apply Nat.ltb_lt in E1. destruct tl as [|c2 tl2]; [simpl in Hlen; lia|].
        simpl in Hm, Hlen, Hn.
        apply IH; try lia.
        + unfold pa_push; simpl. rewrite app_length; simpl. lia.
        + now apply pa_inv_push.
      - apply Hgo; [now apply Hpush|now apply pa_inv_push]. }
    destruct (ch =? c_dquote) eqn:Eq.
    { apply Hgo.
      - simpl. rewrite app_length; simpl. lia.
      - apply N.eqb_eq in Eq. subst ch. unfold pa_inv; simpl. intros _.
        apply in_or_app. right. now left. }
    apply Hgo; [now apply Hpush|now apply pa_inv_push].
  Qed.

  Lemma parse_arguments_body_ok s :
    (length s <= n)%nat -> is_ok (parse_arguments_body rec_term rec_args s).
  Proof.
    intros Hn. unfold parse_arguments_body.
    pose proof (trim_length s) as Ht. set (t := trim s) in *.
    destruct t as [|first r] eqn:Et; [exact I|]. rewrite <- Et in *.
    destruct (first =? c_comma) eqn:Ef; [exact I|].
    apply is_ok_bind.
    { destruct (last t 0 =? c_comma) eqn:El; [|exact I].
      destruct (length t <? 2)%nat eqn:E2.
      - (* a single character that is a comma would be `first` *)
        apply Nat.ltb_lt in E2. rewrite Et in E2, El. destruct r; [|simpl in E2; lia].
        simpl in El. rewrite El in Ef. discriminate.
      - apply Nat.ltb_ge in E2.
        destruct (nth_error t (length t - 2)) eqn:En; [exact I|].
        apply nth_error_None in En. lia. }
    intros bad _. destruct bad; [exact I|].
    destruct (pa_loop_ok (length t) (length t) t 0 (mkPa false 0 0%Z 0%Z [] [] 0)) as [Hok Hst];
      try (simpl; lia).
    { unfold pa_inv; simpl. intros H; now elim H. }
    apply is_ok_pbind; [exact Hok|]. intros st E. apply Hst in E as [Hl Hi].
    apply is_ok_pbind.
    { destruct (pa_start st <? length t)%nat; [|exact I].
      apply is_ok_pbind; [now apply pa_make_ok|]. intros; exact I. }
    intros terms _. destruct (negb (pa_rd st =? 0)%Z); [exact I|].
    destruct (negb (pa_sd st =? 0)%Z); exact I.
  Qed.

  (* parse_term *)
  Lemma parse_term_body_ok s :
    (length s <= n)%nat -> is_ok (parse_term_body rec_term rec_args s).
  Proof.
    intros Hn. unfold parse_term_body.
    pose proof (trim_length s) as Ht. set (t := trim s) in *.
    destruct (check_arithmetic_infix t) as [inf idx] eqn:Ec.
    destruct (infix_fn_name inf) as [name|] eqn:En.
    - assert (Hne : inf <> INone) by (intros ->; discriminate).
      pose proof (check_arithmetic_infix_bound t inf idx Ec Hne).
      apply is_ok_pbind; [apply get_left_and_right_ok; lia|]. intros; exact I.
    - apply make_term_ok.
      destruct t as [|c0 [|c1 [|c2 r]]]; try (simpl in *; lia).
      destruct (c0 =? c_bslash); simpl in *; lia.
  Qed.
End BodiesTotal.

(* ---- tying the knot ---- *)
Lemma parse_ok_below : forall n fuel, (n <= fuel)%nat ->
  (forall s, (length s < n)%nat -> is_ok (parse_term fuel s)) /\
  (forall s, (length s < n)%nat -> is_ok (parse_arguments fuel s)).
Proof.
  induction n as [|n IH]; intros fuel Hf.
  - split; intros s H; lia.
  - destruct fuel as [|f]; [lia|]. destruct (IH f ltac:(lia)) as [Ht Ha].
    split; intros s Hs; cbn [parse_term parse_arguments].
    + apply (parse_term_body_ok _ _ n Ht Ha). lia.
    + apply (parse_arguments_body_ok _ _ n Ht Ha). lia.
Qed.

Lemma parse_term_ok fuel s : (length s + 1 <= fuel)%nat -> is_ok (parse_term fuel s).
Proof. intros H. apply (parse_ok_below (length s + 1) fuel H). lia. Qed.

Lemma parse_arguments_ok fuel s : (length s + 1 <= fuel)%nat -> is_ok (parse_arguments fuel s).
Proof. intros H. apply (parse_ok_below (length s + 1) fuel H). lia. Qed.

Lemma parse_linked_list_ok fuel s : (length s <= fuel)%nat -> is_ok (parse_linked_list fuel s).
Proof.
  intros H. unfold parse_linked_list.
  apply (parse_linked_list_body_ok _ (length s)); [|lia].
  apply (parse_ok_below (length s) fuel H).
Qed.

Lemma parse_complex_ok fuel s : (length s <= fuel)%nat -> is_ok (parse_complex fuel s).
Proof.
  intros H. unfold parse_complex.
  apply (parse_complex_body_ok _ (length s)); [|lia].
  apply (parse_ok_below (length s) fuel H).
Qed.

Lemma parse_function_ok fuel s : (length s <= fuel)%nat -> is_ok (parse_function fuel s).
Proof.
  intros H. unfold parse_function.
  apply (parse_function_body_ok _ (length s)); [|lia].
  apply (parse_ok_below (length s) fuel H).
Qed.

(* parse_query: what parse_complex returns is a complex term headed by an atom, so that
   make_complex / make_query do not panic *)
Lemma parse_functor_terms_shape ra functor terms q :
  parse_functor_terms ra functor terms = Ok (POk q) -> exists f ts, q = TComplex (TAtom f :: ts).
Proof.
  unfold parse_functor_terms. destruct terms as [|c r].
  - intros H; inversion H; eauto.
  - destruct (ra (c :: r)) as [[ts|]| |]; cbn [pbind]; intros H; inversion H; eauto.
Qed.

Lemma parse_complex_body_shape ra s q :
  parse_complex_body ra s = Ok (POk q) -> exists f ts, q = TComplex (TAtom f :: ts).
Proof.
  unfold parse_complex_body. destruct (validate_complex (trim s)); [discriminate|].
  destruct (indices_of_parentheses (trim s)) as [[[l r]|]|]; [| |discriminate].
  - destruct (slice (trim s) 0 l); cbn [bind]; try discriminate.
    destruct (slice (trim s) (l + 1) r); cbn [bind]; try discriminate.
    apply parse_functor_terms_shape.
  - apply parse_functor_terms_shape.
Qed.

Lemma make_query_ok f ts : is_ok (make_query (TAtom f :: ts)).
Proof.
  unfold make_query. cbn [rename_terms rename_term].
  destruct (rename_terms ts ([], 0)) as [r [vm ctr]]. exact I.
Qed.

Lemma parse_query_ok fuel s : (length s <= fuel)%nat -> is_ok (parse_query fuel s).
Proof.
  intros H. unfold parse_query.
  match goal with |- is_ok (pbind (parse_complex fuel ?p) _) => set (p2 := p) end.
  assert (Hp : (length p2 <= length s)%nat).
  { unfold p2. destruct s as [|c r]; [lia|]. destruct (last (c :: r) 0 =? c_period); [|lia].
    assert (Hne : c :: r <> []) by discriminate.
    pose proof (app_removelast_last 0 Hne) as E. apply (f_equal (@length N)) in E.
    rewrite app_length in E. cbn [length] in E |- *. lia. }
  apply is_ok_pbind; [apply parse_complex_ok; lia|].
  intros q E. apply parse_complex_body_shape in E as (f & ts & ->).
  apply is_ok_bind; [apply make_query_ok|]. intros; exact I.
Qed.

(* ---- parse_subgoal ---- *)
Section SubgoalTotal.
  Variable rec_term : str -> res (presult term).
  Variable rec_args : str -> res (presult (list term)).
  Variable rec_subgoal : str -> res (presult goal).
  Variable n : nat.
  Hypothesis Hterm : forall s, (length s < n)%nat -> is_ok (rec_term s).
  Hypothesis Hargs : forall s, (length s < n)%nat -> is_ok (rec_args s).
  Hypothesis Hsub : forall s, (length s < n)%nat -> is_ok (rec_subgoal s).

  Lemma parse_subgoal_body_ok s :
    (length s <= n)%nat -> is_ok (parse_subgoal_body rec_term rec_args rec_subgoal s).
  Proof.
    intros Hn. unfold parse_subgoal_body.
    pose proof (trim_length s) as Ht. set (t := trim s) in *.
    destruct t as [|c0 r0] eqn:Et; [exact I|]. rewrite <- Et in *.
    destruct (str_eqb t g_bang || str_eqb t g_fail || str_eqb t g_nl); [exact I|].
    destruct (check_infix_ok t) as (inf & idx & -> & Hidx). cbn [bind].
    destruct (negb (infix_eqb inf INone)) eqn:Ei.
    { assert (Hne : inf <> INone) by (intros ->; discriminate).
      specialize (Hidx Hne).
      apply is_ok_pbind; [apply (get_left_and_right_ok _ n Hterm); lia|].
      intros lr _. destruct (infix_goal_name inf); exact I. }
    destruct (indices_of_parentheses t) as [[[l r]|]|] eqn:Ep; [| |exact I].
    - apply indices_of_parentheses_bounds in Ep as [Hlr Hr].
      unfold split_complex_term.
      rewrite slice_ok by lia. cbn [bind]. rewrite slice_ok by lia. cbn [bind].
      set (functor := firstn (l - 0) (skipn 0 t)).
      set (args := firstn (r - (l + 1)) (skipn (l + 1) t)).
      assert (Ha : (length args < n)%nat).
      { unfold args. rewrite firstn_length, skipn_length. lia. }
      destruct (str_eqb functor g_time || str_eqb functor g_not).
      + unfold parse_operator_goal. apply is_ok_pbind; [now apply Hsub|].
        intros sub _. destruct (str_eqb functor g_time); [exact I|].
        destruct (str_eqb functor g_not); exact I.
      + destruct (trim args); [exact I|]. apply is_ok_pbind; [now apply Hargs|]. intros; exact I.
    - apply is_ok_pbind; [|intros; exact I].
      apply (parse_functor_terms_ok _ n Hargs). rewrite Et in Ht. simpl in *. lia.
  Qed.
End SubgoalTotal.

Lemma parse_subgoal_ok_below : forall n fuel, (n <= fuel)%nat ->
  forall s, (length s < n)%nat -> is_ok (parse_subgoal fuel s).
Proof.
  induction n as [|n IH]; intros fuel Hf s Hs; [lia|].
  destruct fuel as [|f]; [lia|]. cbn [parse_subgoal].
  destruct (parse_ok_below n f ltac:(lia)) as [Ht Ha].
  apply (parse_subgoal_body_ok _ _ _ n Ht Ha); [|lia].
  intros s' Hs'. apply IH; lia.
Qed.

Lemma parse_subgoal_ok fuel s : (length s + 1 <= fuel)%nat -> is_ok (parse_subgoal fuel s).
Proof. intros H. apply (parse_subgoal_ok_below (length s + 1) fuel H). lia. Qed.

(* ---- C18, term level: with fuel >= length + 2 every entry point returns a value or an
   error ---- *)
Theorem parse_term_total : forall s fuel, (parse_fuel s <= fuel)%nat -> value_or_error (parse_term fuel s).
Proof. intros s fuel H. unfold parse_fuel in H. apply is_ok_value_or_error, parse_term_ok. lia. Qed.
Theorem parse_arguments_total : forall s fuel, (parse_fuel s <= fuel)%nat -> value_or_error (parse_arguments fuel s).
Proof. intros s fuel H. unfold parse_fuel in H. apply is_ok_value_or_error, parse_arguments_ok. lia. Qed.
Theorem parse_linked_list_total : forall s fuel, (parse_fuel s <= fuel)%nat -> value_or_error (parse_linked_list fuel s).
Proof. intros s fuel H. unfold parse_fuel in H. apply is_ok_value_or_error, parse_linked_list_ok. lia. Qed.
Theorem parse_complex_total : forall s fuel, (parse_fuel s <= fuel)%nat -> value_or_error (parse_complex fuel s).
Proof. intros s fuel H. unfold parse_fuel in H. apply is_ok_value_or_error, parse_complex_ok. lia. Qed.
Theorem parse_function_total : forall s fuel, (parse_fuel s <= fuel)%nat -> value_or_error (parse_function fuel s).
Proof. intros s fuel H. unfold parse_fuel in H. apply is_ok_value_or_error, parse_function_ok. lia. Qed.
Theorem parse_query_total : forall s fuel, (parse_fuel s <= fuel)%nat -> value_or_error (parse_query fuel s).
Proof. intros s fuel H. unfold parse_fuel in H. apply is_ok_value_or_error, parse_query_ok. lia. Qed.
Theorem parse_subgoal_total : forall s fuel, (parse_fuel s <= fuel)%nat -> value_or_error (parse_subgoal fuel s).
Proof. intros s fuel H. unfold parse_fuel in H. apply is_ok_value_or_error, parse_subgoal_ok. lia. Qed.

Theorem check_infix_total : forall s, exists inf idx, check_infix s = Ok (inf, idx).
Proof. intros s. destruct (check_infix_ok s) as (inf & idx & H & _). eauto. Qed.

(* ------------------------------------------------------------------------------------ *)
(* Part B: context independence (C20)                                                    *)
(* ------------------------------------------------------------------------------------ *)

(* ---- trim is idempotent ---- *)
Definition trimmed (s : str) : Prop :=
  s = [] \/ (is_white (hd 0 s) = false /\ is_white (last s 0) = false).

Lemma trim_start_head s : trim_start s = [] \/ is_white (hd 0 (trim_start s)) = false.
Proof.
  induction s as [|c r IH]; simpl; [now left|].
  destruct (is_white c) eqn:E; [exact IH|]. right. simpl. exact E.
Qed.

Lemma trim_start_nil_all_white s : trim_start s = [] -> forall c, In c s -> is_white c = true.
Proof.
  induction s as [|x r IH]; simpl; [intros _ c []|].
  destruct (is_white x) eqn:E; [|discriminate]. intros H c [->|Hin]; auto.
Qed.

Lemma trim_start_suffix s : exists p, s = p ++ trim_start s.
Proof.
  induction s as [|c r [p IH]]; simpl; [exists []; reflexivity|].
  destruct (is_white c).
  - exists (c :: p). simpl. now f_equal.
  - exists []. reflexivity.
Qed.

Lemma trim_start_id s : s = [] \/ is_white (hd 0 s) = false -> trim_start s = s.
Proof. destruct s as [|c r]; simpl; [reflexivity|]. intros [H|H]; [discriminate|]. now rewrite H. Qed.

Lemma last_app_nonempty {A} (p b : list A) d : b <> [] -> last (p ++ b) d = last b d.
Proof.
  induction p as [|x p IH]; simpl; intros H; [reflexivity|].
  destruct (p ++ b) eqn:E; [|now apply IH].
  destruct p; simpl in E; [now elim H|discriminate].
Qed.

Lemma last_rev_cons {A} (x : A) l d : last (rev (x :: l)) d = x.
Proof. simpl. now rewrite last_last. Qed.

Lemma hd_rev {A} (l : list A) d : hd d (rev l) = last l d.
Proof.
  induction l as [|x l IH] using rev_ind; simpl; [reflexivity|].
  rewrite rev_app_distr, last_last. reflexivity.
Qed.

Lemma trim_trimmed s : trimmed (trim s).
Proof.
  unfold trimmed, trim.
  destruct (trim_start s) as [|h a] eqn:Ea; [left; reflexivity|].
  assert (Hh : is_white h = false).
  { destruct (trim_start_head s) as [E|E]; rewrite Ea in E; [discriminate|exact E]. }
  set (b := trim_start (rev (h :: a))).
  assert (Hb : b <> []).
  { intros Hb. pose proof (trim_start_nil_all_white _ Hb h) as Hw.
    rewrite Hw in Hh; [discriminate|]. apply -> in_rev. now left. }
  right. split.
  - rewrite hd_rev. destruct (trim_start_suffix (rev (h :: a))) as [p Hp]. fold b in Hp.
    rewrite <- (last_app_nonempty p b 0 Hb), <- Hp. rewrite last_rev_cons. exact Hh.
  - rewrite <- hd_rev, rev_involutive.
    destruct (trim_start_head (rev (h :: a))) as [E|E]; fold b in E; [now elim Hb|exact E].
Qed.

Lemma trimmed_trim s : trimmed s -> trim s = s.
Proof.
  intros [->|[Hh Hl]]; [reflexivity|]. unfold trim.
  rewrite (trim_start_id s) by (now right).
  rewrite trim_start_id; [apply rev_involutive|].
  right. now rewrite hd_rev.
Qed.

Lemma trim_idem s : trim (trim s) = trim s.
Proof. apply trimmed_trim, trim_trimmed. Qed.

(* ---- mapping over the result of a parser ---- *)
Definition pmap {A B} (f : A -> B) (r : res (presult A)) : res (presult B) :=
  dop a <- r; pok (f a).

(* ---- the scan of parse_arguments over a text without top-level comma / backslash ----
   `pa_scan` follows the quote and bracket tracking of parse_arguments and gives up (None)
   at a comma or a backslash that is outside double quotes and outside ( ) [ ]. *)
Fixpoint pa_scan (rest : str) (oq : bool) (nq : N) (rd sd : Z) : option (bool * N * Z * Z) :=
  match rest with
  | [] => Some (oq, nq, rd, sd)
  | ch :: tl =>
      if oq then
        if ch =? c_dquote then pa_scan tl false (nq + 1) rd sd else pa_scan tl oq nq rd sd
      else if ch =? c_lbr then pa_scan tl oq nq rd (sd + 1)%Z
      else if ch =? c_rbr then pa_scan tl oq nq rd (sd - 1)%Z
      else if ch =? c_lpar then pa_scan tl oq nq (rd + 1)%Z sd
      else if ch =? c_rpar then pa_scan tl oq nq (rd - 1)%Z sd
      else if ((rd =? 0) && (sd =? 0))%Z then
        if ch =? c_comma then None
        else if ch =? c_bslash then None
        else if ch =? c_dquote then pa_scan tl true (nq + 1) rd sd
        else pa_scan tl oq nq rd sd
      else pa_scan tl oq nq rd sd
  end.

Lemma pa_loop_plain rt ra len rest : forall i st oq nq rd sd,
  pa_scan rest (pa_oq st) (pa_nq st) (pa_rd st) (pa_sd st) = Some (oq, nq, rd, sd) ->
  pa_loop rt ra len rest i st =
  pok (mkPa oq nq rd sd (pa_arg st ++ rest) (pa_terms st) (pa_start st)).
Proof.
  induction rest as [|ch tl IH]; intros i st oq nq rd sd H.
  - simpl in H. inversion H; subst. simpl. rewrite app_nil_r. now destruct st.
  - cbn [pa_loop]. cbn [pa_scan] in H.
    assert (Happ : forall a, (a ++ [ch]) ++ tl = a ++ ch :: tl).
    { intros a. now rewrite <- app_assoc. }
    destruct (pa_oq st) eqn:Eoq.
    { destruct (ch =? c_dquote).
      - rewrite (IH (S i) _ oq nq rd sd); [simpl; now rewrite Happ|]. simpl. exact H.
      - rewrite (IH (S i) _ oq nq rd sd); [simpl; now rewrite Happ|]. simpl. now rewrite Eoq. }
    destruct (ch =? c_lbr).
    { rewrite (IH (S i) _ oq nq rd sd); [simpl; now rewrite Happ|]. simpl. now rewrite Eoq. }
    destruct (ch =? c_rbr).
    { rewrite (IH (S i) _ oq nq rd sd); [simpl; now rewrite Happ|]. simpl. now rewrite Eoq. }
    destruct (ch =? c_lpar).
    { rewrite (IH (S i) _ oq nq rd sd); [simpl; now rewrite Happ|]. simpl. now rewrite Eoq. }
    destruct (ch =? c_rpar).
    { rewrite (IH (S i) _ oq nq rd sd); [simpl; now rewrite Happ|]. simpl. now rewrite Eoq. }
    destruct ((pa_rd st =? 0)%Z && (pa_sd st =? 0)%Z).
    2:{ rewrite (IH (S i) _ oq nq rd sd); [simpl; now rewrite Happ|]. simpl. now rewrite Eoq. }
    destruct (ch =? c_comma); [discriminate|].
    destruct (ch =? c_bslash); [discriminate|].
    destruct (ch =? c_dquote).
    { rewrite (IH (S i) _ oq nq rd sd); [simpl; now rewrite Happ|]. simpl. exact H. }
    rewrite (IH (S i) _ oq nq rd sd); [simpl; now rewrite Happ|]. simpl. now rewrite Eoq.
Qed.

(* quotation marks as check_quotes wants them: none counted, or exactly the two that enclose
   the text *)
Definition quotes_ok (t : str) (nq : N) : bool :=
  (nq =? 0) || ((nq =? 2) && (hd 0 t =? c_dquote) && (last t 0 =? c_dquote)).

Lemma check_quotes_quotes_ok t nq : quotes_ok t nq = true -> check_quotes t nq = Ok false.
Proof.
  unfold quotes_ok, check_quotes. destruct (nq =? 0); [reflexivity|]. simpl.
  destruct (nq =? 2); simpl; [|discriminate]. intros H.
  apply andb_true_iff in H as [H1 H2].
  destruct t as [|f r]; [discriminate H1|]. simpl in H1. rewrite H1. cbn [negb].
  now rewrite H2.
Qed.

(* no arithmetic infix ` + `, ` - `, ` * `, ` / ` found by parse_term's scan *)
Definition no_arith_infix (s : str) : bool :=
  match fst (check_arithmetic_infix (trim s)) with INone => true | _ => false end.

(* side condition of C20 for the argument context *)
Definition args_plain (s : str) : bool :=
  let t := trim s in
  negb (last t 0 =? c_comma) &&
  match pa_scan t false 0 0%Z 0%Z with
  | Some (_, nq, rd, sd) => (rd =? 0)%Z && (sd =? 0)%Z && quotes_ok t nq
  | None => false
  end.

Lemma pa_scan_first_comma tl : pa_scan (c_comma :: tl) false 0 0%Z 0%Z = None.
Proof. reflexivity. Qed.

Lemma pa_scan_first_bslash tl : pa_scan (c_bslash :: tl) false 0 0%Z 0%Z = None.
Proof. reflexivity. Qed.

Lemma parse_term_body_plain rt ra s :
  no_arith_infix s = true ->
  (forall tl, trim s <> c_bslash :: tl) ->
  parse_term_body rt ra s = make_term rt ra (trim s).
Proof.
  intros Hn Hb. unfold parse_term_body. unfold no_arith_infix in Hn.
  destruct (check_arithmetic_infix (trim s)) as [inf idx]. simpl in Hn.
  destruct inf; try discriminate. cbn [infix_fn_name].
  destruct (trim s) as [|c0 [|c1 [|c2 r]]] eqn:Et; try reflexivity.
  destruct (c0 =? c_bslash) eqn:E; [|reflexivity].
  apply N.eqb_eq in E. subst c0. now elim (Hb [c1]).
Qed.

Lemma make_term_trim rt ra s : make_term rt ra (trim s) = make_term rt ra s.
Proof. unfold make_term. now rewrite trim_idem. Qed.

Lemma parse_arguments_body_plain rt ra s :
  args_plain s = true ->
  parse_arguments_body rt ra s = pmap (fun t => [t]) (make_term rt ra (trim s)).
Proof.
  unfold args_plain. intros H. apply andb_true_iff in H as [Hlast H].
  unfold parse_arguments_body. set (t := trim s) in *.
  destruct (pa_scan t false 0 0%Z 0%Z) as [[[[oq nq] rd] sd]|] eqn:Es; [|discriminate].
  apply andb_true_iff in H as [H Hq]. apply andb_true_iff in H as [Hrd Hsd].
  destruct t as [|first r] eqn:Et.
  { (* empty text: both report an error *) unfold make_term. rewrite <- Et.
    unfold t. rewrite trim_idem. fold t. rewrite Et. reflexivity. }
  rewrite <- Et in *.
  destruct (first =? c_comma) eqn:Ef.
  { apply N.eqb_eq in Ef. subst first. rewrite Et in Es. rewrite pa_scan_first_comma in Es. discriminate. }
  apply negb_true_iff in Hlast. rewrite Hlast. cbn [bind].
  rewrite (pa_loop_plain rt ra (length t) t 0 _ oq nq rd sd) by exact Es.
  cbn [pbind pok pa_arg pa_terms pa_start pa_rd pa_sd app].
  assert (Hlen : (0 <? length t)%nat = true).
  { apply Nat.ltb_lt. rewrite Et. simpl. lia. }
  rewrite Hlen. unfold pa_make. cbn [pa_arg pa_nq].
  assert (Htt : trim t = t) by (unfold t; apply trim_idem). rewrite Htt.
  rewrite (check_quotes_quotes_ok t nq Hq). cbn [bind].
  rewrite Hrd, Hsd. cbn [negb].
  unfold pmap. destruct (make_term rt ra t) as [[x|]| |]; reflexivity.
Qed.

(* C20, argument context: with the same fuel, the text as the only argument of
   parse_arguments gives exactly the term parse_term gives for it (or the same failure). *)
Theorem context_independent_args : forall fuel s,
  args_plain s = true -> no_arith_infix s = true ->
  parse_arguments (S fuel) s = pmap (fun t => [t]) (parse_term (S fuel) s).
Proof.
  intros fuel s Ha Hn. cbn [parse_arguments parse_term].
  rewrite parse_arguments_body_plain by exact Ha.
  rewrite parse_term_body_plain; [reflexivity|exact Hn|].
  intros tl E. unfold args_plain in Ha. rewrite E in Ha.
  rewrite pa_scan_first_bslash in Ha. now rewrite andb_false_r in Ha.
Qed.

(* the two-character escapes `\,` `\|` ... (punctuation atoms) *)
Theorem context_independent_escape : forall fuel c,
  is_white c = false ->
  parse_arguments (S fuel) [c_bslash; c] = pmap (fun t => [t]) (parse_term (S fuel) [c_bslash; c]).
Proof.
  intros fuel c Hc. cbn [parse_arguments parse_term].
  assert (Ht : trim [c_bslash; c] = [c_bslash; c]).
  { apply trimmed_trim. right. split; [reflexivity|exact Hc]. }
  unfold parse_arguments_body, parse_term_body. rewrite Ht.
  assert (Hcai : check_arithmetic_infix [c_bslash; c] = (INone, O)).
  { unfold check_arithmetic_infix. cbn [cai_loop].
    change (c_bslash =? c_dquote) with false. change (c_bslash =? c_lpar) with false.
    change (negb (c_hash =? 32)) with true. cbv iota.
    destruct (c =? c_dquote); [reflexivity|]. destruct (c =? c_lpar); reflexivity. }
  rewrite Hcai. cbn [infix_fn_name]. change (c_bslash =? c_bslash) with true. cbv iota. cbn [tl].
  change (c_bslash =? c_comma) with false. cbv iota.
  change (last [c_bslash; c] 0) with c. change (length [c_bslash; c]) with 2%nat.
  change (nth_error [c_bslash; c] (2 - 2)) with (Some c_bslash).
  cbv iota.
  assert (Hbad : (if c =? c_comma then if (2 <? 2)%nat then Panic else Ok (negb (c_bslash =? c_bslash))
                  else Ok false) = Ok false).
  { destruct (c =? c_comma); reflexivity. }
  rewrite Hbad. cbn [bind].
  cbn [pa_loop pa_oq pa_rd pa_sd].
  change (c_bslash =? c_lbr) with false. change (c_bslash =? c_rbr) with false.
  change (c_bslash =? c_lpar) with false. change (c_bslash =? c_rpar) with false.
  change ((0 =? 0)%Z && (0 =? 0)%Z) with true. change (c_bslash =? c_comma) with false.
  change (c_bslash =? c_bslash) with true. change (0 + 1 <? 2)%nat with true. cbv iota.
  cbn [pbind pok pa_push pa_start pa_arg pa_terms pa_nq pa_oq pa_rd pa_sd app].
  change (0 <? 2)%nat with true. cbv iota.
  unfold pa_make. cbn [pa_push pa_arg pa_nq pa_oq pa_rd pa_sd pa_terms pa_start app].
  unfold check_quotes. change (0 =? 0) with true. cbv iota. cbn [bind].
  rewrite make_term_trim.
  unfold pmap. destruct (make_term _ _ [c]) as [[x|]| |]; cbn [pbind pok app];
    change (negb (0 =? 0)%Z) with false; reflexivity.
Qed.

(* ---- C20, complex-term and query context ---- *)
Fixpoint count_c (c : N) (s : str) : N :=
  match s with
  | [] => 0
  | x :: r => (if x =? c then 1 else 0) + count_c c r
  end.

(* a functor text: not empty, starts with neither white space, `$` nor `(`, no parentheses *)
Definition functor_ok (f : str) : bool :=
  match f with
  | [] => false
  | c :: _ => negb (is_white c) && negb (c =? c_dollar) &&
              (count_c c_lpar f =? 0) && (count_c c_rpar f =? 0)
  end.

Definition parens_balanced (s : str) : bool := count_c c_lpar s =? count_c c_rpar s.

Lemma iop_loop_app a : forall b i lft rgt cl cr,
  iop_loop (a ++ b) i lft rgt cl cr =
  (let '(l1, r1, c1, c2) := iop_loop a i lft rgt cl cr in iop_loop b (i + length a) l1 r1 c1 c2).
Proof.
  induction a as [|ch a IH]; intros b i lft rgt cl cr.
  - simpl. now rewrite Nat.add_0_r.
  - cbn [app iop_loop length].
    replace (i + S (length a))%nat with (S i + length a)%nat by lia.
    destruct (ch =? c_lpar); [apply IH|]. destruct (ch =? c_rpar); apply IH.
Qed.

Lemma iop_loop_no_parens a : forall i lft rgt cl cr,
  count_c c_lpar a = 0 -> count_c c_rpar a = 0 -> iop_loop a i lft rgt cl cr = (lft, rgt, cl, cr).
Proof.
  induction a as [|ch a IH]; intros i lft rgt cl cr H1 H2; [reflexivity|].
  cbn [count_c] in H1, H2. cbn [iop_loop].
  destruct (ch =? c_lpar); [lia|]. destruct (ch =? c_rpar); [lia|].
  apply IH; lia.
Qed.

Lemma tuple4_eq {A B C D} (a a' : A) (b b' : B) (c c' : C) (d d' : D) :
  a = a' -> b = b' -> c = c' -> d = d' -> (a, b, c, d) = (a', b', c', d').
Proof. now intros -> -> -> ->. Qed.

Lemma iop_loop_tail s : forall i lft rgt cl cr,
  (lft <> -1)%Z ->
  iop_loop (s ++ [c_rpar]) i lft rgt cl cr =
  (lft, Z.of_nat (i + length s), cl + count_c c_lpar s, cr + count_c c_rpar s + 1).
Proof.
  induction s as [|ch s IH]; intros i lft rgt cl cr Hl.
  - cbn [app iop_loop]. change (c_rpar =? c_lpar) with false. change (c_rpar =? c_rpar) with true.
    cbv iota. cbn [length count_c]. apply tuple4_eq; lia.
  - cbn [app iop_loop length count_c].
    replace (i + S (length s))%nat with (S i + length s)%nat by lia.
    destruct (ch =? c_lpar) eqn:E1.
    + apply Z.eqb_neq in Hl. rewrite Hl. rewrite IH by (apply Z.eqb_neq; exact Hl).
      assert (E2 : (ch =? c_rpar) = false).
      { apply N.eqb_eq in E1. subst ch. reflexivity. }
      rewrite E2. apply tuple4_eq; lia.
    + destruct (ch =? c_rpar); rewrite IH by exact Hl; apply tuple4_eq; lia.
Qed.

Lemma indices_of_parentheses_call f s :
  count_c c_lpar f = 0 -> count_c c_rpar f = 0 -> parens_balanced s = true ->
  indices_of_parentheses (f ++ c_lpar :: s ++ [c_rpar]) =
  POk (Some (length f, (length f + 1 + length s)%nat)).
Proof.
  intros H1 H2 Hb. unfold indices_of_parentheses.
  rewrite iop_loop_app, iop_loop_no_parens by assumption.
  cbn [iop_loop]. change (c_lpar =? c_lpar) with true. change (-1 =? -1)%Z with true. cbv iota.
  rewrite iop_loop_tail by lia.
  unfold parens_balanced in Hb. apply N.eqb_eq in Hb.
  assert (Hc : (0 + 1 + count_c c_lpar s =? 0 + count_c c_rpar s + 1) = true) by (apply N.eqb_eq; lia).
  rewrite Hc. cbn [negb].
  assert (Hr : (Z.of_nat (S (0 + length f) + length s) <? Z.of_nat (0 + length f))%Z = false)
    by (apply Z.ltb_ge; lia).
  rewrite Hr.
  assert (Hn : (Z.of_nat (0 + length f) =? -1)%Z = false) by (apply Z.eqb_neq; lia).
  rewrite Hn. rewrite !Nat2Z.id. do 3 f_equal. lia.
Qed.

Lemma last_call_text f s : last (f ++ c_lpar :: s ++ [c_rpar]) 0 = c_rpar.
Proof.
  replace (f ++ c_lpar :: s ++ [c_rpar]) with ((f ++ c_lpar :: s) ++ [c_rpar]).
  - apply last_last.
  - now rewrite <- app_assoc.
Qed.

Lemma call_text_trimmed f s : functor_ok f = true -> trim (f ++ c_lpar :: s ++ [c_rpar]) = f ++ c_lpar :: s ++ [c_rpar].
Proof.
  intros Hf. apply trimmed_trim. right. split.
  - destruct f as [|c r]; [discriminate|]. simpl in Hf |- *.
    destruct (is_white c); [discriminate|reflexivity].
  - rewrite last_call_text. reflexivity.
Qed.

Lemma slice_prefix (f r : str) : slice (f ++ r) 0 (length f) = Ok f.
Proof.
  rewrite slice_ok; [|lia|rewrite app_length; lia].
  cbn [skipn]. rewrite Nat.sub_0_r, firstn_app, Nat.sub_diag, firstn_all. cbn [firstn]. now rewrite app_nil_r.
Qed.

Lemma slice_middle (f s r : str) (c : N) :
  slice (f ++ c :: s ++ r) (length f + 1) (length f + 1 + length s) = Ok s.
Proof.
  rewrite slice_ok; [|lia|rewrite app_length; simpl; rewrite app_length; lia].
  replace (f ++ c :: s ++ r) with ((f ++ [c]) ++ s ++ r) by (now rewrite <- app_assoc).
  replace (length f + 1)%nat with (length (f ++ [c])) by (rewrite app_length; simpl; lia).
  rewrite skipn_app, skipn_all, Nat.sub_diag. cbn [skipn app].
  replace (length (f ++ [c]) + length s - length (f ++ [c]))%nat with (length s) by lia.
  rewrite firstn_app, Nat.sub_diag, firstn_all. cbn [firstn]. now rewrite app_nil_r.
Qed.

Lemma functor_ok_facts f : functor_ok f = true ->
  exists c r, f = c :: r /\ is_white c = false /\ (c =? c_dollar) = false /\
              count_c c_lpar f = 0 /\ count_c c_rpar f = 0.
Proof.
  unfold functor_ok. destruct f as [|c r]; [discriminate|]. intros H.
  apply andb_true_iff in H as [H H2]. apply andb_true_iff in H as [H H1].
  apply andb_true_iff in H as [Hw Hd]. apply N.eqb_eq in H1, H2.
  apply negb_true_iff in Hw, Hd. exists c, r. auto.
Qed.

Lemma parse_complex_body_call ra f s :
  functor_ok f = true -> parens_balanced s = true ->
  (length (f ++ c_lpar :: s ++ [c_rpar]) <= 1000)%nat ->
  parse_complex_body ra (f ++ c_lpar :: s ++ [c_rpar]) = parse_functor_terms ra f s.
Proof.
  intros Hf Hb Hlen. unfold parse_complex_body. rewrite call_text_trimmed by exact Hf.
  destruct (functor_ok_facts f Hf) as (c & r & Ef & Hw & Hd & H1 & H2).
  assert (Hv : validate_complex (f ++ c_lpar :: s ++ [c_rpar]) = false).
  { apply Nat.ltb_ge in Hlen. revert Hlen H1. rewrite Ef. cbn [app]. intros Hlen H1.
    unfold validate_complex. rewrite Hlen, Hd. cbn [orb].
    cbn [count_c] in H1. destruct (c =? c_lpar); [lia|reflexivity]. }
  rewrite Hv. rewrite indices_of_parentheses_call by assumption.
  rewrite slice_prefix. cbn [bind]. rewrite slice_middle. cbn [bind]. reflexivity.
Qed.

(* C20, complex-term context: the text as the only argument of a complex term *)
Theorem context_independent_complex : forall fuel f s,
  functor_ok f = true -> parens_balanced s = true ->
  (length (f ++ c_lpar :: s ++ [c_rpar]) <= 1000)%nat ->
  trim s <> [] -> args_plain s = true -> no_arith_infix s = true ->
  parse_complex (S fuel) (f ++ c_lpar :: s ++ [c_rpar]) =
  pmap (fun t => TComplex [TAtom (trim f); t]) (parse_term (S fuel) s).
Proof.
  intros fuel f s Hf Hb Hlen Hne Ha Hn. unfold parse_complex.
  rewrite parse_complex_body_call by assumption.
  unfold parse_functor_terms. destruct s as [|c r] eqn:Es; [now elim Hne|]. rewrite <- Es in *.
  rewrite context_independent_args by assumption.
  unfold pmap. destruct (parse_term (S fuel) s) as [[t|]| |]; reflexivity.
Qed.

Lemma parse_query_unfold fuel w : w <> [] ->
  parse_query fuel w =
  (dop q <- parse_complex fuel (if last w 0 =? c_period then removelast w else w);
   match q with
   | TComplex terms => do r <- make_query terms; pok (fst r)
   | _ => Panic
   end).
Proof. destruct w; [intros H; now elim H|reflexivity]. Qed.

Lemma call_text_nonempty f s : f ++ c_lpar :: s ++ [c_rpar] <> [].
Proof. destruct f; discriminate. Qed.

(* C20, query context: parse_query parses the argument by parse_term and then renames the
   variables of the whole query (make_query); with or without the final period *)
Theorem context_independent_query : forall fuel f s,
  functor_ok f = true -> parens_balanced s = true ->
  (length (f ++ c_lpar :: s ++ [c_rpar]) <= 1000)%nat ->
  trim s <> [] -> args_plain s = true -> no_arith_infix s = true ->
  parse_query (S fuel) (f ++ c_lpar :: s ++ [c_rpar]) =
  (dop t <- parse_term (S fuel) s;
   do r <- make_query [TAtom (trim f); t]; pok (fst r)).
Proof.
  intros fuel f s Hf Hb Hlen Hne Ha Hn.
  rewrite parse_query_unfold by apply call_text_nonempty.
  rewrite last_call_text. change (c_rpar =? c_period) with false. cbv iota.
  rewrite context_independent_complex by assumption.
  unfold pmap. destruct (parse_term (S fuel) s) as [[t|]| |]; reflexivity.
Qed.

Theorem context_independent_query_period : forall fuel f s,
  functor_ok f = true -> parens_balanced s = true ->
  (length (f ++ c_lpar :: s ++ [c_rpar]) <= 1000)%nat ->
  trim s <> [] -> args_plain s = true -> no_arith_infix s = true ->
  parse_query (S fuel) ((f ++ c_lpar :: s ++ [c_rpar]) ++ [c_period]) =
  (dop t <- parse_term (S fuel) s;
   do r <- make_query [TAtom (trim f); t]; pok (fst r)).
Proof.
  intros fuel f s Hf Hb Hlen Hne Ha Hn.
  rewrite <- (context_independent_query fuel f s) by assumption.
  rewrite parse_query_unfold by (intros E; apply app_eq_nil in E as [_ E]; discriminate).
  rewrite last_last. change (c_period =? c_period) with true. cbv iota.
  rewrite removelast_last.
  rewrite parse_query_unfold by apply call_text_nonempty.
  rewrite last_call_text. change (c_rpar =? c_period) with false. reflexivity.
Qed.

(* ---- C20, operand of an infix operator in parse_subgoal ---- *)
Lemma parse_term_trim_eq fuel a b : trim a = trim b -> parse_term fuel a = parse_term fuel b.
Proof.
  intros E. destruct fuel as [|f]; [reflexivity|]. cbn [parse_term].
  unfold parse_term_body. now rewrite E.
Qed.

Lemma trim_start_app s x : trim_start s <> [] -> trim_start (s ++ x) = trim_start s ++ x.
Proof.
  induction s as [|c r IH]; simpl; [intros H; now elim H|].
  destruct (is_white c); [exact IH|reflexivity].
Qed.

Lemma trim_start_all_white_app s c :
  trim_start s = [] -> is_white c = true -> trim_start (s ++ [c]) = [].
Proof.
  induction s as [|x r IH]; simpl; intros H Hc; [now rewrite Hc|].
  destruct (is_white x); [now apply IH|discriminate].
Qed.

Lemma trim_app_white s c : is_white c = true -> trim (s ++ [c]) = trim s.
Proof.
  intros Hc. unfold trim. destruct (trim_start s) as [|h a] eqn:E.
  - now rewrite trim_start_all_white_app.
  - rewrite trim_start_app by (rewrite E; discriminate). rewrite E.
    rewrite rev_app_distr. cbn [rev app trim_start]. now rewrite Hc.
Qed.

Lemma trim_cons_white s c : is_white c = true -> trim (c :: s) = trim s.
Proof. intros Hc. unfold trim. cbn [trim_start]. now rewrite Hc. Qed.

Lemma str_eqb_length a b : str_eqb a b = true -> length a = length b.
Proof. intros H. apply str_eqb_eq in H. now subst. Qed.

Lemma last_default {A} (l : list A) d d' : l <> [] -> last l d = last l d'.
Proof.
  induction l as [|x l IH]; intros H; [now elim H|].
  destruct l as [|y l]; [reflexivity|]. cbn [last] in IH |- *. apply IH. discriminate.
Qed.

Lemma match_nonempty {A B} (l : list A) (x y : B) :
  l <> [] -> match l with [] => x | _ :: _ => y end = y.
Proof. destruct l; [intros H; now elim H|reflexivity]. Qed.

(* the text `l op r` with one space on each side of the operator *)
Definition infix_text (l op r : str) : str := l ++ 32 :: op ++ 32 :: r.

Definition op_text (i : infix) : str :=
  match i with
  | IUnify => [c_eq] | IEqual => [c_eq; c_eq]
  | ILessThan => [c_lt] | ILessThanOrEqual => [c_lt; c_eq]
  | IGreaterThan => [c_gt] | IGreaterThanOrEqual => [c_gt; c_eq]
  | _ => []
  end.

Lemma firstn_infix_text l op r : firstn (length l + 1) (infix_text l op r) = l ++ [32].
Proof.
  unfold infix_text. replace (l ++ 32 :: op ++ 32 :: r) with ((l ++ [32]) ++ op ++ 32 :: r)
    by (now rewrite <- app_assoc).
  replace (length l + 1)%nat with (length (l ++ [32%N]) + 0)%nat by (rewrite app_length; simpl; lia).
  rewrite firstn_app_2. cbn [firstn]. now rewrite app_nil_r.
Qed.

Lemma skipn_infix_text l op r :
  skipn (length l + 1 + 2) (infix_text l op r) = skipn 2 (op ++ 32 :: r).
Proof.
  unfold infix_text. replace (l ++ 32 :: op ++ 32 :: r) with ((l ++ [32]) ++ op ++ 32 :: r)
    by (now rewrite <- app_assoc).
  replace (length l + 1 + 2)%nat with (length (l ++ [32%N]) + 2)%nat by (rewrite app_length; simpl; lia).
  rewrite skipn_app. rewrite skipn_all2 by lia.
  replace (length (l ++ [32%N]) + 2 - length (l ++ [32%N]))%nat with 2%nat by lia. reflexivity.
Qed.

(* C20, infix context: when the infix scan finds the operator where it is written, both
   operands are what parse_term makes of their texts *)
Theorem context_independent_infix : forall fuel inf name l r,
  infix_goal_name inf = Some name ->
  is_white (hd 32 l) = false -> is_white (last r 32) = false ->
  check_infix (infix_text l (op_text inf) r) = Ok (inf, (length l + 1)%nat) ->
  parse_subgoal (S fuel) (infix_text l (op_text inf) r) =
  (dop t1 <- parse_term fuel l; dop t2 <- parse_term fuel r; pok (make_goal name [t1; t2])).
Proof.
  intros fuel inf name l r Hname Hl Hr Hci.
  set (w := infix_text l (op_text inf) r) in *.
  assert (Hop : op_text inf <> [] /\ (length (op_text inf) <= 2)%nat).
  { destruct inf; try discriminate Hname; simpl; split; try discriminate; lia. }
  assert (Hlne : l <> []) by (intros ->; discriminate Hl).
  assert (Hrne : r <> []) by (intros ->; discriminate Hr).
  assert (Hw : trim w = w).
  { apply trimmed_trim. right. split.
    - unfold w, infix_text. destruct l as [|c l']; [now elim Hlne|]. exact Hl.
    - unfold w, infix_text.
      replace (l ++ 32 :: op_text inf ++ 32 :: r) with ((l ++ 32 :: op_text inf ++ [32]) ++ r).
      + rewrite last_app_nonempty by exact Hrne.
        now rewrite (last_default r 0 32 Hrne).
      + rewrite <- app_assoc. cbn [app]. rewrite <- app_assoc. reflexivity. }
  assert (Hlen : (5 <= length w)%nat).
  { unfold w, infix_text. rewrite app_length. cbn [length]. rewrite app_length. cbn [length].
    destruct l; [now elim Hlne|]. destruct r; [now elim Hrne|].
    destruct (op_text inf); [now elim (proj1 Hop)|]. simpl. lia. }
  assert (Hwne : w <> []) by (intros E; rewrite E in Hlen; simpl in Hlen; lia).
  assert (Hsp : str_eqb w g_bang || str_eqb w g_fail || str_eqb w g_nl = false).
  { apply orb_false_iff; split; [apply orb_false_iff; split|].
    - destruct (str_eqb w g_bang) eqn:E; [|reflexivity]. apply str_eqb_length in E. simpl in E. lia.
    - destruct (str_eqb w g_fail) eqn:E; [|reflexivity]. apply str_eqb_length in E. simpl in E. lia.
    - destruct (str_eqb w g_nl) eqn:E; [|reflexivity]. apply str_eqb_length in E. simpl in E. lia. }
  assert (Hinf : negb (infix_eqb inf INone) = true) by (destruct inf; try discriminate Hname; reflexivity).
  assert (Hwl : (length l + 1 + 2 <= length w)%nat).
  { unfold w, infix_text. rewrite app_length. cbn [length]. rewrite app_length. cbn [length].
    destruct (op_text inf); [now elim (proj1 Hop)|]. simpl. lia. }
  assert (E1 : firstn (length l + 1) w = l ++ [32]) by apply firstn_infix_text.
  assert (E2 : skipn (length l + 1 + 2) w = skipn 2 (op_text inf ++ 32 :: r)) by apply skipn_infix_text.
  assert (Harg2 : trim (skipn 2 (op_text inf ++ 32 :: r)) = trim r).
  { destruct inf; try discriminate Hname; cbn [op_text app skipn];
      try reflexivity; apply trim_cons_white; reflexivity. }
  cbn [parse_subgoal]. unfold parse_subgoal_body. rewrite Hw.
  rewrite (match_nonempty w) by exact Hwne.
  rewrite Hsp, Hci. cbn [bind]. rewrite Hinf. unfold get_left_and_right.
  rewrite slice_ok by lia. cbn [bind]. rewrite slice_ok by lia. cbn [bind].
  cbn [skipn]. rewrite Nat.sub_0_r, E1.
  rewrite (parse_term_trim_eq fuel (l ++ [32]) l) by (apply trim_app_white; reflexivity).
  rewrite firstn_all2 by (rewrite skipn_length; lia). rewrite E2.
  rewrite (parse_term_trim_eq fuel _ r Harg2).
  rewrite Hname.
  destruct (parse_term fuel l) as [[t1|]| |]; cbn [pbind]; try reflexivity.
  destruct (parse_term fuel r) as [[t2|]| |]; reflexivity.
Qed.

(* ---- C20, list-element context ---- *)
(* equal_escape as a boolean, for an index inside the vector *)
Definition ee (v : str) (ind : nat) (ch : N) : bool :=
  match nth_error v ind with
  | Some c =>
      (c =? ch) &&
      match ind with
      | O => true
      | S p => match nth_error v p with Some b => negb (b =? c_bslash) | None => true end
      end
  | None => false
  end.

Lemma equal_escape_ee v ind ch : (ind < length v)%nat -> equal_escape v ind ch = Ok (ee v ind ch).
Proof.
  intros H. unfold equal_escape, ee.
  destruct (nth_error v ind) as [c|] eqn:E; [|apply nth_error_None in E; lia].
  destruct (c =? ch); [|reflexivity]. cbn [andb].
  destruct ind as [|p]; [reflexivity|].
  destruct (nth_error v p) as [b|] eqn:E2; [reflexivity|]. apply nth_error_None in E2. lia.
Qed.

(* the backward scan of parse_linked_list over a text without a top-level `,` or `|`
   (outside double quotes and ( ) [ ], not escaped by a backslash): final quote count *)
Definition pll_scan_step (args : str) (ind : nat) (oq : bool) (nq : N) (rd sd : Z)
  : option (bool * N * Z * Z) :=
  if oq then
    if ee args ind c_dquote then Some (false, nq + 1, rd, sd) else Some (oq, nq, rd, sd)
  else if ee args ind c_rbr then Some (oq, nq, rd, (sd + 1)%Z)
  else if ee args ind c_lbr then Some (oq, nq, rd, (sd - 1)%Z)
  else if ee args ind c_rpar then Some (oq, nq, (rd + 1)%Z, sd)
  else if ee args ind c_lpar then Some (oq, nq, (rd - 1)%Z, sd)
  else if ((rd =? 0) && (sd =? 0))%Z then
    if ee args ind c_dquote then Some (true, nq + 1, rd, sd)
    else if ee args ind c_comma then None
    else if ee args ind c_bar then None
    else Some (oq, nq, rd, sd)
  else Some (oq, nq, rd, sd).

Fixpoint pll_scan (args : str) (ind : nat) (oq : bool) (nq : N) (rd sd : Z) : option N :=
  match pll_scan_step args ind oq nq rd sd with
  | None => None
  | Some (oq', nq', rd', sd') =>
      match ind with
      | O => Some nq'
      | S i => pll_scan args i oq' nq' rd' sd'
      end
  end.

Lemma pll_step_plain rt args ind list e vbar oq nq rd sd oq' nq' rd' sd' :
  (ind < length args)%nat ->
  pll_scan_step args ind oq nq rd sd = Some (oq', nq', rd', sd') ->
  pll_step rt args ind (mkPll list e vbar oq nq rd sd) = pok (mkPll list e vbar oq' nq' rd' sd').
Proof.
  intros Hi H. unfold pll_scan_step in H. unfold pll_step.
  destruct oq.
  { rewrite equal_escape_ee by exact Hi. cbn [bind].
    destruct (ee args ind c_dquote); inversion H; reflexivity. }
  rewrite equal_escape_ee by exact Hi. cbn [bind].
  destruct (ee args ind c_rbr); [inversion H; reflexivity|].
  rewrite equal_escape_ee by exact Hi. cbn [bind].
  destruct (ee args ind c_lbr); [inversion H; reflexivity|].
  rewrite equal_escape_ee by exact Hi. cbn [bind].
  destruct (ee args ind c_rpar); [inversion H; reflexivity|].
  rewrite equal_escape_ee by exact Hi. cbn [bind].
  destruct (ee args ind c_lpar); [inversion H; reflexivity|].
  destruct ((rd =? 0)%Z && (sd =? 0)%Z); [|inversion H; reflexivity].
  rewrite equal_escape_ee by exact Hi. cbn [bind].
  destruct (ee args ind c_dquote); [inversion H; reflexivity|].
  rewrite equal_escape_ee by exact Hi. cbn [bind].
  destruct (ee args ind c_comma); [discriminate|].
  rewrite equal_escape_ee by exact Hi. cbn [bind].
  destruct (ee args ind c_bar); [discriminate|].
  inversion H; reflexivity.
Qed.

Lemma pll_loop_plain rt args : forall ind list e vbar oq nq rd sd nqf,
  (ind < length args)%nat ->
  pll_scan args ind oq nq rd sd = Some nqf ->
  exists oqf rdf sdf,
    pll_loop rt args ind (mkPll list e vbar oq nq rd sd) =
    pll_final rt args (mkPll list e vbar oqf nqf rdf sdf).
Proof.
  induction ind as [|i IH]; intros list e vbar oq nq rd sd nqf Hi H; cbn [pll_scan] in H;
    destruct (pll_scan_step args _ oq nq rd sd) as [[[[oq' nq'] rd'] sd']|] eqn:Es; try discriminate.
  - inversion H; subst. exists oq', rd', sd'. cbn [pll_loop].
    rewrite (pll_step_plain rt args 0 list e vbar oq nq rd sd oq' nqf rd' sd' Hi Es). reflexivity.
  - cbn [pll_loop].
    rewrite (pll_step_plain rt args (S i) list e vbar oq nq rd sd oq' nq' rd' sd' Hi Es).
    cbn [pbind pok]. apply IH; [lia|exact H].
Qed.

Definition list_plain (s : str) : bool :=
  match pll_scan s (length s - 1) false 0 0%Z 0%Z with
  | Some nq => quotes_ok (trim s) nq
  | None => false
  end.

Lemma list_text_trimmed s : trim (c_lbr :: s ++ [c_rbr]) = c_lbr :: s ++ [c_rbr].
Proof.
  apply trimmed_trim. right. split; [reflexivity|].
  change (c_lbr :: s ++ [c_rbr]) with ((c_lbr :: s) ++ [c_rbr]). now rewrite last_last.
Qed.

(* C20, list context: the text as the only element of a list *)
Theorem context_independent_list : forall fuel s,
  s <> [] -> list_plain s = true ->
  parse_linked_list (S fuel) (c_lbr :: s ++ [c_rbr]) =
  pmap (fun t => TList t empty_list 1 false) (parse_term (S fuel) s).
Proof.
  intros fuel s Hne Hp. unfold parse_linked_list, parse_linked_list_body.
  rewrite list_text_trimmed.
  assert (Hlen : length (c_lbr :: s ++ [c_rbr]) = (length s + 2)%nat).
  { cbn [length]. rewrite app_length. simpl. lia. }
  assert (Hs : (1 <= length s)%nat) by (destruct s; [now elim Hne|simpl; lia]).
  rewrite Hlen.
  assert (E1 : (length s + 2 <? 2)%nat = false) by (apply Nat.ltb_ge; lia). rewrite E1.
  change (negb (c_lbr =? c_lbr)) with false. cbv iota.
  change (c_lbr :: s ++ [c_rbr]) with ((c_lbr :: s) ++ [c_rbr]) at 1. rewrite last_last.
  change (negb (c_rbr =? c_rbr)) with false. cbv iota.
  assert (E2 : (length s + 2 =? 2)%nat = false) by (apply Nat.eqb_neq; lia). rewrite E2.
  assert (Hsl : slice (c_lbr :: s ++ [c_rbr]) 1 (length s + 2 - 1) = Ok s).
  { pose proof (slice_middle [] s [c_rbr] c_lbr) as H. cbn [app length] in H.
    replace (length s + 2 - 1)%nat with (0 + 1 + length s)%nat by lia. exact H. }
  rewrite Hsl. cbn [bind].
  assert (E3 : (length s <? 1)%nat = false) by (apply Nat.ltb_ge; lia). rewrite E3.
  unfold list_plain in Hp.
  destruct (pll_scan s (length s - 1) false 0 0%Z 0%Z) as [nqf|] eqn:Es; [|discriminate].
  destruct (pll_loop_plain (parse_term (S fuel)) s (length s - 1) empty_list (length s) false
              false 0 0%Z 0%Z nqf ltac:(lia) Es) as (oqf & rdf & sdf & ->).
  unfold pll_final. cbn [pll_end pll_nq pll_list].
  rewrite slice_ok by lia. cbn [bind skipn]. rewrite Nat.sub_0_r, firstn_all.
  unfold pmap.
  destruct (trim s) as [|c0 r0] eqn:Et.
  { (* only white space between the brackets: an error on both sides *)
    cbn [parse_term]. unfold parse_term_body. rewrite Et. reflexivity. }
  rewrite <- Et in *. rewrite (check_quotes_quotes_ok _ _ Hp). cbn [bind].
  rewrite (parse_term_trim_eq (S fuel) (trim s) s) by apply trim_idem.
  destruct (parse_term (S fuel) s) as [[t|]| |]; reflexivity.
Qed.

(* ---- C20, the k-th of several arguments: parse_arguments (p1,p2,...,pn) is parse_term of
   every piece, in order ---- *)
Fixpoint join_comma (ps : list str) : str :=
  match ps with
  | [] => []
  | [p] => p
  | p :: rest => p ++ c_comma :: join_comma rest
  end.

(* sequencing parser results left to right *)
Fixpoint pseq {A} (rs : list (res (presult A))) : res (presult (list A)) :=
  match rs with
  | [] => pok []
  | r :: rest => dop t <- r; dop ts <- pseq rest; pok (t :: ts)
  end.

(* one argument text (blanks around it allowed): as args_plain, plus: not empty, the scan ends
   outside quotes, the trimmed text does not start with a backslash, no arithmetic infix *)
Definition piece_ok (p : str) : bool :=
  negb (str_eqb (trim p) []) && negb (hd 0 (trim p) =? c_bslash) && negb (last p 0 =? c_comma) &&
  no_arith_infix p &&
  match pa_scan p false 0 0%Z 0%Z with
  | Some (false, nq, rd, sd) => (rd =? 0)%Z && (sd =? 0)%Z && quotes_ok (trim p) nq
  | _ => false
  end.

Lemma pa_loop_app_plain rt ra len p : forall rest' i st oq nq rd sd,
  pa_scan p (pa_oq st) (pa_nq st) (pa_rd st) (pa_sd st) = Some (oq, nq, rd, sd) ->
  pa_loop rt ra len (p ++ rest') i st =
  pa_loop rt ra len rest' (i + length p)
    (mkPa oq nq rd sd (pa_arg st ++ p) (pa_terms st) (pa_start st)).
Proof.
  induction p as [|ch tl IH]; intros rest' i st oq nq rd sd H.
  - simpl in H. inversion H; subst. simpl. rewrite app_nil_r, Nat.add_0_r. now destruct st.
  - cbn [app pa_loop length]. cbn [pa_scan] in H.
    replace (i + S (length tl))%nat with (S i + length tl)%nat by lia.
    assert (Happ : forall a, (a ++ [ch]) ++ tl = a ++ ch :: tl).
    { intros a. now rewrite <- app_assoc. }
    destruct (pa_oq st) eqn:Eoq.
    { destruct (ch =? c_dquote).
      - rewrite (IH rest' (S i) _ oq nq rd sd); [simpl; now rewrite Happ|]. simpl. exact H.
      - rewrite (IH rest' (S i) _ oq nq rd sd); [simpl; now rewrite Happ|]. simpl. now rewrite Eoq. }
    destruct (ch =? c_lbr).
    { rewrite (IH rest' (S i) _ oq nq rd sd); [simpl; now rewrite Happ|]. simpl. now rewrite Eoq. }
    destruct (ch =? c_rbr).
    { rewrite (IH rest' (S i) _ oq nq rd sd); [simpl; now rewrite Happ|]. simpl. now rewrite Eoq. }
    destruct (ch =? c_lpar).
    { rewrite (IH rest' (S i) _ oq nq rd sd); [simpl; now rewrite Happ|]. simpl. now rewrite Eoq. }
    destruct (ch =? c_rpar).
    { rewrite (IH rest' (S i) _ oq nq rd sd); [simpl; now rewrite Happ|]. simpl. now rewrite Eoq. }
    destruct ((pa_rd st =? 0)%Z && (pa_sd st =? 0)%Z).
    2:{ rewrite (IH rest' (S i) _ oq nq rd sd); [simpl; now rewrite Happ|]. simpl. now rewrite Eoq. }
    destruct (ch =? c_comma); [discriminate|].
    destruct (ch =? c_bslash); [discriminate|].
    destruct (ch =? c_dquote).
    { rewrite (IH rest' (S i) _ oq nq rd sd); [simpl; now rewrite Happ|]. simpl. exact H. }
    rewrite (IH rest' (S i) _ oq nq rd sd); [simpl; now rewrite Happ|]. simpl. now rewrite Eoq.
Qed.

Lemma pa_loop_comma rt ra len rest' i nq arg T start :
  pa_loop rt ra len (c_comma :: rest') i (mkPa false nq 0%Z 0%Z arg T start) =
  (dop term <- pa_make rt ra (mkPa false nq 0%Z 0%Z arg T start);
   pa_loop rt ra len rest' (S i) (mkPa false 0 0%Z 0%Z [] (T ++ [term]) (S i))).
Proof. reflexivity. Qed.

Lemma piece_ok_facts p : piece_ok p = true ->
  trim p <> [] /\ (forall tl, trim p <> c_bslash :: tl) /\ (last p 0 =? c_comma) = false /\
  no_arith_infix p = true /\
  exists nq, pa_scan p false 0 0%Z 0%Z = Some (false, nq, 0%Z, 0%Z) /\ quotes_ok (trim p) nq = true.
Proof.
  unfold piece_ok. intros H.
  apply andb_true_iff in H as [H Hs]. apply andb_true_iff in H as [H Hn].
  apply andb_true_iff in H as [H Hl]. apply andb_true_iff in H as [He Hb].
  split. { intros E. rewrite E in He. discriminate. }
  split. { intros tl E. rewrite E in Hb. discriminate. }
  split. { now apply negb_true_iff in Hl. }
  split; [exact Hn|].
  destruct (pa_scan p false 0 0%Z 0%Z) as [[[[oq nq] rd] sd]|]; [|discriminate].
  destruct oq; [discriminate|].
  apply andb_true_iff in Hs as [Hs Hq]. apply andb_true_iff in Hs as [Hrd Hsd].
  apply Z.eqb_eq in Hrd, Hsd. subst. eauto.
Qed.

Lemma pa_make_piece rt ra p nq T start :
  quotes_ok (trim p) nq = true ->
  pa_make rt ra (mkPa false nq 0%Z 0%Z p T start) = make_term rt ra (trim p).
Proof.
  intros Hq. unfold pa_make. cbn [pa_arg pa_nq].
  now rewrite (check_quotes_quotes_ok _ _ Hq).
Qed.

Lemma join_comma_cons2 p q rest : join_comma (p :: q :: rest) = p ++ c_comma :: join_comma (q :: rest).
Proof. reflexivity. Qed.

Lemma pseq_cons {A} (r : res (presult A)) rest :
  pseq (r :: rest) = (dop t <- r; dop ts <- pseq rest; pok (t :: ts)).
Proof. reflexivity. Qed.

Lemma pa_loop_pieces rt ra len : forall ps i T start,
  ps <> [] -> forallb piece_ok ps = true -> (start <= i)%nat ->
  (i + length (join_comma ps) = len)%nat ->
  (dop st <- pa_loop rt ra len (join_comma ps) i (mkPa false 0 0%Z 0%Z [] T start);
   dop terms <- (if (pa_start st <? len)%nat
                 then dop term <- pa_make rt ra st; pok (pa_terms st ++ [term])
                 else pok (pa_terms st));
   if negb (pa_rd st =? 0)%Z then perr
   else if negb (pa_sd st =? 0)%Z then perr else pok terms) =
  (dop ts <- pseq (map (fun p => make_term rt ra (trim p)) ps); pok (T ++ ts)).
Proof.
  induction ps as [|p ps IH]; intros i T start Hne Hok Hst Hlen; [now elim Hne|].
  cbn [forallb] in Hok. apply andb_true_iff in Hok as [Hp Hps].
  destruct (piece_ok_facts p Hp) as (Htne & _ & _ & _ & nq & Hscan & Hq).
  assert (Hpne : p <> []) by (intros ->; now elim Htne).
  destruct ps as [|q rest].
  - (* last piece *)
    cbn [join_comma] in *. cbn [map pseq].
    rewrite (pa_loop_plain rt ra len p i _ false nq 0%Z 0%Z) by exact Hscan.
    cbn [pbind pok pa_start pa_terms pa_arg pa_rd pa_sd app].
    assert (Hlt : (start <? len)%nat = true).
    { apply Nat.ltb_lt. destruct p; [now elim Hpne|]. simpl in Hlen. lia. }
    rewrite Hlt. rewrite (pa_make_piece rt ra p nq T start Hq).
    destruct (make_term rt ra (trim p)) as [[t|]| |]; reflexivity.
  - rewrite join_comma_cons2 in *. rewrite map_cons, pseq_cons.
    rewrite (pa_loop_app_plain rt ra len p _ i _ false nq 0%Z 0%Z) by exact Hscan.
    cbn [pa_arg pa_terms pa_start app].
    rewrite pa_loop_comma. rewrite (pa_make_piece rt ra p nq T start Hq).
    destruct (make_term rt ra (trim p)) as [[t|]| |]; cbn [pbind]; try reflexivity.
    rewrite (IH (S (i + length p)) (T ++ [t]) (S (i + length p))); [|discriminate|exact Hps|lia|].
    + destruct (pseq (map (fun p0 => make_term rt ra (trim p0)) (q :: rest))) as [[ts|]| |];
        cbn [pbind pok]; try reflexivity. now rewrite <- app_assoc.
    + rewrite app_length in Hlen. cbn [length] in Hlen. lia.
Qed.

Theorem context_independent_args_nary : forall fuel ps,
  ps <> [] -> forallb piece_ok ps = true -> trim (join_comma ps) = join_comma ps ->
  parse_arguments (S fuel) (join_comma ps) = pseq (map (parse_term (S fuel)) ps).
Proof.
  intros fuel ps Hne Hok Htrim. cbn [parse_arguments]. unfold parse_arguments_body. rewrite Htrim.
  set (rt := parse_term fuel). set (ra := parse_arguments fuel).
  (* the text is not empty, does not start and does not end with a comma *)
  destruct ps as [|p0 ps0] eqn:Eps; [now elim Hne|]. rewrite <- Eps in *.
  assert (Hp0 : piece_ok p0 = true).
  { rewrite Eps in Hok. cbn [forallb] in Hok. now apply andb_true_iff in Hok as [H _]. }
  destruct (piece_ok_facts p0 Hp0) as (Htne0 & _ & _ & _ & nq0 & Hscan0 & _).
  assert (Hfirst : exists c r, p0 = c :: r /\ (c =? c_comma) = false).
  { destruct p0 as [|c r]; [now elim Htne0|]. exists c, r. split; [reflexivity|].
    destruct (c =? c_comma) eqn:E; [|reflexivity]. apply N.eqb_eq in E. subst c.
    rewrite pa_scan_first_comma in Hscan0. discriminate. }
  destruct Hfirst as (c & r & Ep0 & Hc).
  assert (Hw : exists r', join_comma ps = c :: r').
  { rewrite Eps, Ep0. destruct ps0; cbn [join_comma app]; eauto. }
  destruct Hw as [r' Ew].
  assert (Hlastpiece : (last (last ps []) 0 =? c_comma) = false /\ last ps [] <> [] /\
                       last (join_comma ps) 0 = last (last ps []) 0).
  { clear -Hok Hne. induction ps as [|p ps IH]; [now elim Hne|].
    cbn [forallb] in Hok. apply andb_true_iff in Hok as [Hp Hps].
    destruct (piece_ok_facts p Hp) as (Htne & _ & Hl & _).
    assert (Hpne : p <> []) by (intros ->; now elim Htne).
    destruct ps as [|q rest]; [cbn [last join_comma]; auto|].
    destruct (IH ltac:(discriminate) Hps) as (H1 & H2 & H3).
    change (last (p :: q :: rest) []) with (last (q :: rest) []).
    split; [exact H1|]. split; [exact H2|].
    rewrite join_comma_cons2.
    change (p ++ c_comma :: join_comma (q :: rest)) with (p ++ [c_comma] ++ join_comma (q :: rest)).
    rewrite app_assoc. rewrite last_app_nonempty; [exact H3|].
    intros E. destruct (last (q :: rest) []) eqn:El; [now elim H2|].
    assert (Hj : join_comma (q :: rest) <> []).
    { clear -Hps. destruct rest; cbn [join_comma].
      - cbn [forallb] in Hps. apply andb_true_iff in Hps as [Hq _].
        destruct (piece_ok_facts q Hq) as (Htne & _). intros ->. now elim Htne.
      - intros E. apply app_eq_nil in E as [_ E]. discriminate. }
    now elim Hj. }
  destruct Hlastpiece as (Hlc & _ & Hlw).
  rewrite Ew. rewrite Hc. rewrite <- Ew. rewrite Hlw, Hlc. cbn [bind].
  pose proof (pa_loop_pieces rt ra (length (join_comma ps)) ps 0 [] 0 Hne Hok ltac:(lia) ltac:(lia)) as HL.
  cbn [app] in HL. rewrite HL.
  (* every piece: make_term (trim p) is parse_term p *)
  assert (Hmap : map (fun p => make_term rt ra (trim p)) ps = map (parse_term (S fuel)) ps).
  { clear -Hok. induction ps as [|p ps IH]; [reflexivity|].
    cbn [forallb] in Hok. apply andb_true_iff in Hok as [Hp Hps]. cbn [map].
    rewrite (IH Hps). f_equal.
    destruct (piece_ok_facts p Hp) as (_ & Hb & _ & Hn & _).
    cbn [parse_term]. fold rt ra. now rewrite parse_term_body_plain. }
  rewrite Hmap.
  destruct (pseq (map (parse_term (S fuel)) ps)) as [[ts|]| |]; reflexivity.
Qed.

(* ---- C20: all contexts at once ---- *)
Definition C20_side (s : str) : bool :=
  args_plain s && no_arith_infix s && list_plain s && parens_balanced s &&
  negb (str_eqb (trim s) []).

Theorem context_independent : forall fuel s,
  C20_side s = true ->
  let t := parse_term (S fuel) s in
  parse_arguments (S fuel) s = pmap (fun x => [x]) t /\
  parse_linked_list (S fuel) (c_lbr :: s ++ [c_rbr]) = pmap (fun x => TList x empty_list 1 false) t /\
  (forall f, functor_ok f = true -> (length (f ++ c_lpar :: s ++ [c_rpar]) <= 1000)%nat ->
     parse_complex (S fuel) (f ++ c_lpar :: s ++ [c_rpar]) =
       pmap (fun x => TComplex [TAtom (trim f); x]) t /\
     parse_query (S fuel) (f ++ c_lpar :: s ++ [c_rpar]) =
       (dop x <- t; do r <- make_query [TAtom (trim f); x]; pok (fst r))) /\
  (forall inf name l, infix_goal_name inf = Some name ->
     is_white (hd 32 l) = false -> is_white (last s 32) = false ->
     check_infix (infix_text l (op_text inf) s) = Ok (inf, (length l + 1)%nat) ->
     parse_subgoal (S (S fuel)) (infix_text l (op_text inf) s) =
       (dop t1 <- parse_term (S fuel) l; dop t2 <- t; pok (make_goal name [t1; t2]))).
Proof.
  intros fuel s H t. unfold C20_side in H.
  apply andb_true_iff in H as [H Hne]. apply andb_true_iff in H as [H Hb].
  apply andb_true_iff in H as [H Hl]. apply andb_true_iff in H as [Ha Hn].
  assert (Hne' : trim s <> []).
  { intros E. rewrite E in Hne. discriminate. }
  assert (Hs : s <> []) by (intros ->; now elim Hne').
  repeat split.
  - now apply context_independent_args.
  - now apply context_independent_list.
  - now apply context_independent_complex.
  - now apply context_independent_query.
  - intros inf name l Hname Hhl Hls Hci. now apply context_independent_infix.
Qed.

