(* The textbook law of cut for the reference search (Spec/SpecCut.v):

       g1, !, rest      behaves as      once(g1), rest      and commits the call.

   (A) first_answer.  For a goal g without `!` (cutfree: at any depth; the cut of a CALLED clause is
       local to that call and does not count) and a continuation k that always stops the search
       (every result it returns carries a signal other than Go), running g with k is: compute the
       FIRST answer of g - `csolve .. g s w halt1`, exactly what not(..) and time(..) do - and call
       k once on it, in the world reached at that point, with the flag false; k's result - answers,
       world AND signal - is the result, unchanged (a `Cut n` of k is bumped on the way into a call
       by kbump and un-bumped on the way out by after_body).  When g has no answer, k is never
       called and the result is ([], the world reached, Go).  The same fuel suffices for the
       first-answer run.

   (B) cut_is_once.  In `g1, !, rest` (g1 cutfree) the continuation of g1 is stopping (a cut runs
       in it), hence: no answer of g1 -> ([], w1, Go); first answer s1 in w1 -> the result is the
       result of `rest` from (s1, w1) (resp. of k when rest = []), its signal turned into a Cut
       (join0).  g1 is never retried.

   (C) cut_commits_the_call.  For a clause with that body whose head unifies: if g1 has no answer
       the call goes on with clause idx+1 from the world reached; otherwise the call returns what
       `rest` returns from the first answer of g1, the signal leaving the call (leave_call), and
       consults NO later clause: the result is the same for every clause count n' > idx.

   The proof is a mutual induction over csolve / cclauses for ARBITRARY goals (the bodies of
   called clauses contain cuts) of a relational statement about three continuations: K (the real
   one), H (its first-answer version) and k0 (what is finally called), `krel`. *)
From Coq Require Import Lia.
From Suiron Require Import Model.Term Model.Subst Model.Show Model.Lists Model.Arith Model.Unify
  Model.Compare Model.Builtins Model.Rename Model.Solve Spec.SpecCut
  Proofs.RenameProofs Proofs.SolveDead Proofs.SolveCut Proofs.RefinePlain Proofs.RefineCut.
Open Scope N_scope.

(* ---- goals without cut, at any depth ---- *)
Fixpoint cutfree (g : goal) : bool :=
  match g with
  | GBip fn _ => negb (str_eqb fn n_cut)
  | GOp _ gs => (fix all (l : list goal) := match l with [] => true | x :: r => cutfree x && all r end) gs
  | _ => true
  end.

Lemma cutfree_op k gs : cutfree (GOp k gs) = forallb cutfree gs.
Proof. simpl. induction gs as [|x r IH]; [reflexivity|]. simpl. now rewrite IH. Qed.

Lemma cutfree_cons k k' g rest :
  cutfree (GOp k (g :: rest)) = true -> cutfree g = true /\ cutfree (GOp k' rest) = true.
Proof. rewrite !cutfree_op. simpl. intro H. now apply andb_true_iff in H. Qed.

Lemma cutfree_bip fn ts : cutfree (GBip fn ts) = true -> str_eqb fn n_cut = false.
Proof. simpl. intro H. now apply negb_true_iff in H. Qed.

(* renaming apart does not touch what `cutfree` looks at, nor the shape `g1, !, rest` *)
Lemma cutfree_erase : forall g, cutfree (erase_goal g) = cutfree g.
Proof.
  induction g as [k gs Hgs|f ts|t|] using goal_ind'; try reflexivity.
  - cbn [erase_goal]. rewrite !cutfree_op. induction Hgs as [|x l Hx _ IH]; simpl; [reflexivity|]. now rewrite Hx, IH.
  - destruct ts; reflexivity.
Qed.

Lemma fetched_clause_shape kb key idx c rl ctr rules r0 g1 rest :
  get_rule kb key idx c = Ok (rl, ctr) ->
  kb_get kb key = Some rules -> nth_error rules (N.to_nat idx) = Some r0 ->
  r_body r0 = GOp OAnd (g1 :: GBip n_cut None :: rest) -> cutfree g1 = true ->
  exists g1' rest',
    r_body rl = GOp OAnd (g1' :: GBip n_cut None :: rest') /\ cutfree g1' = true /\
    erase_goal g1' = erase_goal g1 /\ map erase_goal rest' = map erase_goal rest.
Proof.
  intros Hg Hkb Hn Hb Hcf.
  destruct (get_rule_spec _ _ _ _ _ _ Hg) as (r1 & rules1 & Hkb1 & Hn1 & He & _).
  rewrite Hkb in Hkb1. inversion Hkb1; subst rules1. rewrite Hn in Hn1. inversion Hn1; subst r1.
  unfold erase_rule in He. injection He as _ H2. rewrite Hb in H2. cbn [erase_goal map] in H2.
  destruct (r_body rl) as [k gs|f ts|t|]; cbn [erase_goal] in H2; try discriminate.
  2:{ destruct ts; discriminate. }
  injection H2 as Hk Hgs. destruct gs as [|g1' [|c' rest']]; cbn [map] in Hgs; try discriminate.
  injection Hgs as E1 E2 E3.
  assert (c' = GBip n_cut None) as ->.
  { destruct c' as [k' gs'|f' [ts'|]|t'|]; cbn [erase_goal] in E2; try discriminate. exact E2. }
  subst k. exists g1', rest'. split; [reflexivity|]. split; [|split; [exact E1|exact E3]].
  rewrite <- (cutfree_erase g1'), E1, cutfree_erase. exact Hcf.
Qed.

(* ---- continuations that always stop the search ---- *)
Definition stopping (k : ckont) : Prop :=
  forall s w c a w' sg, k s w c = Ok (a, w', sg) -> sg <> Go.

(* what is finally called on the first answer: no flag *)
Definition k0t := subst -> world -> res cres.
Definition stopping0 (k0 : k0t) : Prop :=
  forall s w a w' sg, k0 s w = Ok (a, w', sg) -> sg <> Go.
Definition kb0 (k0 : k0t) : k0t :=
  fun s w => do z <- k0 s w; let '(a, w', sg) := z in Ok (a, w', bump sg).

Lemma stopping0_kb0 k0 : stopping0 k0 -> stopping0 (kb0 k0).
Proof.
  intros Hk s w a w' sg H. unfold kb0 in H.
  destruct (k0 s w) as [[[a1 w1] sg1]| |] eqn:E; cbn [bind] in H; try discriminate.
  inversion H; subst. specialize (Hk _ _ _ _ _ E). destruct sg1; cbn [bump]; congruence.
Qed.

(* h: the result of a first-answer search; r: the result of the real search *)
Inductive fa_rel (k0 : k0t) : cres -> cres -> Prop :=
| fa_none w1 sg1 : sg1 <> Halt -> fa_rel k0 ([], w1, sg1) ([], w1, sg1)
| fa_one s1 w1 r : k0 s1 w1 = Ok r -> fa_rel k0 ([s1], w1, Halt) r.

Definition krel (k0 : k0t) (K H : ckont) : Prop :=
  forall s w c r, K s w c = Ok r -> exists h, H s w c = Ok h /\ fa_rel k0 h r.

Lemma mark_eq c a w sg : mark c (a, w, sg) = (a, w, if c then join0 sg else sg).
Proof. destruct c; reflexivity. Qed.

Lemma join0_nongo sg : sg <> Go -> join0 sg = sg.
Proof. destruct sg; [congruence|reflexivity|reflexivity]. Qed.

Lemma mark_nongo c a w sg : sg <> Go -> mark c (a, w, sg) = (a, w, sg).
Proof. intro H. rewrite mark_eq. destruct c; [now rewrite join0_nongo|reflexivity]. Qed.

Lemma fa_rel_mark k0 c h r : stopping0 k0 -> fa_rel k0 h r -> fa_rel k0 (mark c h) (mark c r).
Proof.
  intros Hk F. destruct F as [w1 sg1 Hn|s1 w1 [[a w'] sg] E].
  - rewrite mark_eq. constructor. destruct c; [|exact Hn]. destruct sg1; cbn [join0]; congruence.
  - rewrite (mark_nongo c [s1] w1 Halt) by discriminate.
    rewrite (mark_nongo c a w' sg) by exact (Hk _ _ _ _ _ E). now constructor.
Qed.

Lemma krel_kwrap k0 c1 K H : stopping0 k0 -> krel k0 K H -> krel k0 (kwrap c1 K) (kwrap c1 H).
Proof.
  intros Hk HK s w c r Hr. unfold kwrap in *.
  destruct (K s w (c1 || c)) as [x| |] eqn:E; cbn [bind] in Hr; try discriminate.
  inversion Hr; subst. destruct (HK _ _ _ _ E) as (h & Eh & Fh).
  exists (mark (c1 || c) h). rewrite Eh. cbn [bind]. split; [reflexivity|]. now apply fa_rel_mark.
Qed.

Lemma krel_kbump k0 K H : krel k0 K H -> krel (kb0 k0) (kbump K) (kbump H).
Proof.
  intros HK s w c r Hr. unfold kbump in *.
  destruct (K s w false) as [[[a w'] sg]| |] eqn:E; cbn [bind] in Hr; try discriminate.
  inversion Hr; subst. destruct (HK _ _ _ _ E) as (h & Eh & Fh). rewrite Eh. cbn [bind].
  inversion Fh as [w1 sg1 Hn|s1 w1 r0 E0]; subst.
  - eexists. split; [reflexivity|]. constructor. destruct sg; cbn [bump]; congruence.
  - eexists. split; [reflexivity|]. constructor. unfold kb0. rewrite E0. reflexivity.
Qed.

(* a; b *)
Lemma fa_seq k0 xa ha (bK bH : world -> res cres) r :
  stopping0 k0 -> fa_rel k0 ha xa ->
  (forall w1 r1, bK w1 = Ok r1 -> exists h1, bH w1 = Ok h1 /\ fa_rel k0 h1 r1) ->
  seq (Ok xa) bK = Ok r -> exists h, seq (Ok ha) bH = Ok h /\ fa_rel k0 h r.
Proof.
  intros Hk F Hb Hr. destruct F as [w1 sg1 Hn|s1 w1 [[a w'] sg] E]; unfold seq in *; cbn [bind] in *.
  - destruct sg1.
    + destruct (bK w1) as [[[a2 w2] s2]| |] eqn:E2; cbn [bind] in Hr; try discriminate.
      inversion Hr; subst. destruct (Hb _ _ E2) as ([[ah wh] sh] & Eh & Fh). rewrite Eh. cbn [bind app].
      eexists. split; [reflexivity|exact Fh].
    + inversion Hr; subst. eexists. split; [reflexivity|now constructor].
    + inversion Hr; subst. eexists. split; [reflexivity|now constructor].
  - pose proof (Hk _ _ _ _ _ E) as Hs. eexists. split; [reflexivity|].
    destruct sg; [congruence| |]; inversion Hr; subst; now constructor.
Qed.

(* leaving a clause body *)
Lemma fa_after k0 xa ha (bK bH : world -> res cres) r :
  stopping0 k0 -> fa_rel (kb0 k0) ha xa ->
  (forall w1 r1, bK w1 = Ok r1 -> exists h1, bH w1 = Ok h1 /\ fa_rel k0 h1 r1) ->
  after_body xa bK = Ok r -> exists h, after_body ha bH = Ok h /\ fa_rel k0 h r.
Proof.
  intros Hk F Hb Hr. destruct F as [w1 sg1 Hn|s1 w1 [[a w'] sg] E]; unfold after_body in *.
  - destruct sg1 as [|[|m]|].
    + destruct (bK w1) as [[[a2 w2] s2]| |] eqn:E2; cbn [bind] in Hr; try discriminate.
      inversion Hr; subst. destruct (Hb _ _ E2) as ([[ah wh] sh] & Eh & Fh). rewrite Eh. cbn [bind app].
      eexists. split; [reflexivity|exact Fh].
    + inversion Hr; subst. eexists. split; [reflexivity|]. constructor. discriminate.
    + inversion Hr; subst. eexists. split; [reflexivity|]. constructor. discriminate.
    + congruence.
  - unfold kb0 in E. destruct (k0 s1 w1) as [[[a1 w2] sg1]| |] eqn:E0; cbn [bind] in E; try discriminate.
    inversion E; subst. pose proof (Hk _ _ _ _ _ E0) as Hs.
    eexists. split; [reflexivity|].
    destruct sg1 as [|m|]; [congruence| |]; cbn [bump] in Hr; inversion Hr; subst; now constructor.
Qed.

Lemma w_print_nil w : w_print w [] = w.
Proof. destruct w. unfold w_print. cbn. now rewrite app_nil_r. Qed.

(* ---- which signals a search can return ---- *)
Definition sigs_in (C : sig -> Prop) (k : ckont) : Prop :=
  forall s w c a w' sg, k s w c = Ok (a, w', sg) -> C sg.
Definition sigs_in0 (C : sig -> Prop) (k : ckont) : Prop :=
  forall s w a w' sg, k s w false = Ok (a, w', sg) -> C sg.
Definition bumpC (C : sig -> Prop) : sig -> Prop :=
  fun sg => (exists c, C c /\ sg = bump c) \/ sg = Cut 0.

Lemma C_join0 (C : sig -> Prop) sg : C (Cut 0) -> C sg -> C (join0 sg).
Proof. intros H0 H. destruct sg; cbn [join0]; assumption. Qed.

Lemma sigs_in_kwrap (C : sig -> Prop) c1 k : C (Cut 0) -> sigs_in C k -> sigs_in C (kwrap c1 k).
Proof.
  intros H0 Hk s w c a w' sg H. unfold kwrap in H.
  destruct (k s w (c1 || c)) as [[[a1 w1] sg1]| |] eqn:E; cbn [bind] in H; try discriminate.
  rewrite mark_eq in H. inversion H; subst. specialize (Hk _ _ _ _ _ _ E).
  destruct (c1 || c); [now apply C_join0|exact Hk].
Qed.

Lemma sigs_in0_kwrap (C : sig -> Prop) k : sigs_in0 C k -> sigs_in0 C (kwrap false k).
Proof.
  intros Hk s w a w' sg H. unfold kwrap in H. cbn [orb] in H.
  destruct (k s w false) as [[[a1 w1] sg1]| |] eqn:E; cbn [bind mark] in H; try discriminate.
  inversion H; subst. exact (Hk _ _ _ _ _ E).
Qed.

Lemma sigs_in_kbump (C : sig -> Prop) k : sigs_in0 C k -> sigs_in (bumpC C) (kbump k).
Proof.
  intros Hk s w c a w' sg H. unfold kbump in H.
  destruct (k s w false) as [[[a1 w1] sg1]| |] eqn:E; cbn [bind] in H; try discriminate.
  inversion H; subst. left. exists sg1. split; [exact (Hk _ _ _ _ _ E)|reflexivity].
Qed.

Section CutOnce.
  Variable kb : kbase.
  Variable bf : nat.

  (* ---- 1. the main induction ---- *)
  Definition fa_solve (f : nat) : Prop :=
    forall g s w K H k0 r, stopping0 k0 -> krel k0 K H ->
      csolve kb bf f g s w K = Ok r ->
      exists h, csolve kb bf f g s w H = Ok h /\ fa_rel k0 h r.
  Definition fa_clauses (f : nat) : Prop :=
    forall t s key idx n w K H k0 r, stopping0 k0 -> krel k0 K H ->
      cclauses kb bf f t s key idx n w K = Ok r ->
      exists h, cclauses kb bf f t s key idx n w H = Ok h /\ fa_rel k0 h r.

  Lemma fa_all : forall f, fa_solve f /\ fa_clauses f.
  Proof.
    induction f as [|f [IHs IHc]].
    { split; red; intros; discriminate. }
    split.
    - intros g s w K H k0 r Hk0 HK Hr. rewrite csolve_S in Hr.
      change (exists h, csolve_body kb bf (csolve kb bf f) (cclauses kb bf f) g s w H = Ok h /\ fa_rel k0 h r).
      unfold csolve_body in *.
      destruct g as [op gs|fn ts|t|]; try discriminate.
      + destruct op.
        * (* and *)
          destruct gs as [|g1 [|g2 rest]]; try discriminate.
          -- exact (IHs _ _ _ _ _ _ _ Hk0 HK Hr).
          -- refine (IHs _ _ _ _ _ _ _ Hk0 _ Hr).
             intros s1 w1 c1 r1 H1.
             destruct (csolve kb bf f (GOp OAnd (g2 :: rest)) s1 w1 (kwrap c1 K)) as [y| |] eqn:E;
               cbn [bind] in H1; try discriminate.
             inversion H1; subst.
             destruct (IHs _ _ _ _ _ _ _ Hk0 (krel_kwrap _ c1 _ _ Hk0 HK) E) as (h & Eh & Fh).
             exists (mark c1 h). rewrite Eh. cbn [bind]. split; [reflexivity|]. now apply fa_rel_mark.
        * (* or *)
          destruct gs as [|g1 [|g2 rest]]; try discriminate.
          -- exact (IHs _ _ _ _ _ _ _ Hk0 HK Hr).
          -- destruct (csolve kb bf f g1 s w K) as [xa| |] eqn:E1; try (unfold seq in Hr; cbn [bind] in Hr; discriminate).
             destruct (IHs _ _ _ _ _ _ _ Hk0 HK E1) as (ha & Eha & Fha). rewrite Eha.
             eapply fa_seq; [exact Hk0|exact Fha| |exact Hr].
             intros w1 r1 H1. exact (IHs _ _ _ _ _ _ _ Hk0 HK H1).
        * (* time *)
          destruct gs as [|g1 rest]; try discriminate. destruct (has_cut g1); [discriminate|].
          destruct (csolve kb bf f g1 s w halt1) as [[[a w1] sg1]| |] eqn:E1; cbn [bind] in *; try discriminate.
          destruct a as [|s2 a'].
          -- inversion Hr; subst. eexists. split; [reflexivity|]. constructor. discriminate.
          -- exact (HK _ _ _ _ Hr).
        * (* not *)
          destruct gs as [|g1 rest]; try discriminate. destruct (has_cut g1); [discriminate|].
          destruct (csolve kb bf f g1 s w halt1) as [[[a w1] sg1]| |] eqn:E1; cbn [bind] in *; try discriminate.
          destruct a as [|s2 a'].
          -- exact (HK _ _ _ _ Hr).
          -- inversion Hr; subst. eexists. split; [reflexivity|]. constructor. discriminate.
      + (* built-in predicate *)
        destruct (run_bip bf fn ts s) as [rb| |]; cbn [bind] in *; try discriminate.
        destruct (br_sol rb) as [s'|].
        * destruct (K s' (w_print w (br_out rb)) (br_cut rb)) as [x| |] eqn:E; cbn [bind] in Hr; try discriminate.
          inversion Hr; subst. destruct (HK _ _ _ _ E) as (h & Eh & Fh). rewrite Eh. cbn [bind].
          eexists. split; [reflexivity|]. now apply fa_rel_mark.
        * inversion Hr; subst. eexists. split; [reflexivity|]. constructor. discriminate.
      + (* call *)
        destruct (term_key t) as [key| |]; cbn [bind] in *; try discriminate.
        destruct (count_rules kb key w) as [n w0]. exact (IHc _ _ _ _ _ _ _ _ _ _ Hk0 HK Hr).
    - intros t s key idx n w K H k0 r Hk0 HK Hr. rewrite cclauses_S in Hr.
      change (exists h, cclauses_body kb bf (csolve kb bf f) (cclauses kb bf f) t s key idx n w H = Ok h /\ fa_rel k0 h r).
      unfold cclauses_body in *.
      destruct (n <=? idx).
      { inversion Hr; subst. eexists. split; [reflexivity|]. constructor. discriminate. }
      destruct (get_rule kb key idx (next_id w)) as [[rl ctr]| |]; cbn [bind] in *; try discriminate.
      destruct (unify bf (r_head rl) t s) as [[s'|]| |]; cbn [bind] in *; try discriminate.
      2:{ exact (IHc _ _ _ _ _ _ _ _ _ _ Hk0 HK Hr). }
      assert (forall w1 r1, cclauses kb bf f t s key (idx + 1) n w1 K = Ok r1 ->
                exists h1, cclauses kb bf f t s key (idx + 1) n w1 H = Ok h1 /\ fa_rel k0 h1 r1) as Hrest.
      { intros w1 r1 H1. exact (IHc _ _ _ _ _ _ _ _ _ _ Hk0 HK H1). }
      destruct (is_gnil (r_body rl)).
      + destruct (K s' (w_set_id w ctr) false) as [xa| |] eqn:E1; try (unfold seq in Hr; cbn [bind] in Hr; discriminate).
        destruct (HK _ _ _ _ E1) as (ha & Eha & Fha). rewrite Eha.
        eapply fa_seq; [exact Hk0|exact Fha|exact Hrest|exact Hr].
      + destruct (csolve kb bf f (r_body rl) s' (w_set_id w ctr) (kbump K)) as [xa| |] eqn:E1;
          cbn [bind] in Hr; try discriminate.
        destruct (IHs _ _ _ _ _ _ _ (stopping0_kb0 _ Hk0) (krel_kbump _ _ _ HK) E1) as (ha & Eha & Fha).
        rewrite Eha. cbn [bind].
        eapply fa_after; [exact Hk0|exact Fha|exact Hrest|exact Hr].
  Qed.

  (* ---- 2. a search returns Go, Cut 0, or a signal of its continuation; without cut: Go or a
           signal of its continuation ---- *)
  Definition sg_any (f : nat) : Prop :=
    forall g s w k (C : sig -> Prop) a w' sg, C Go -> C (Cut 0) -> sigs_in C k ->
      csolve kb bf f g s w k = Ok (a, w', sg) -> C sg.
  Definition sg_free (f : nat) : Prop :=
    forall g s w k (C : sig -> Prop) a w' sg, cutfree g = true -> C Go -> sigs_in0 C k ->
      csolve kb bf f g s w k = Ok (a, w', sg) -> C sg.
  Definition sg_clauses (f : nat) : Prop :=
    forall t s key idx n w k (C : sig -> Prop) a w' sg, C Go -> sigs_in0 C k ->
      cclauses kb bf f t s key idx n w k = Ok (a, w', sg) -> C sg.

  Lemma sigs_in_0 (C : sig -> Prop) k : sigs_in C k -> sigs_in0 C k.
  Proof. intros H s w a w' sg E. exact (H _ _ _ _ _ _ E). Qed.

  Lemma sg_all : forall f, sg_any f /\ sg_free f /\ sg_clauses f.
  Proof.
    induction f as [|f (IHa & IHf & IHc)].
    { repeat split; red; intros; discriminate. }
    split; [|split].
    - (* any goal *)
      intros g s w k C a w' sg HGo H0 Hk Hr. rewrite csolve_S in Hr. unfold csolve_body in Hr.
      destruct g as [op gs|fn ts|t|]; try discriminate.
      + destruct op.
        * destruct gs as [|g1 [|g2 rest]]; try discriminate.
          -- exact (IHa _ _ _ _ _ _ _ _ HGo H0 Hk Hr).
          -- refine (IHa _ _ _ _ _ _ _ _ HGo H0 _ Hr).
             intros s1 w1 c1 a1 w2 sg1 H1.
             destruct (csolve kb bf f (GOp OAnd (g2 :: rest)) s1 w1 (kwrap c1 k)) as [[[ay wy] sy]| |] eqn:E;
               cbn [bind] in H1; try discriminate.
             rewrite mark_eq in H1. inversion H1; subst.
             pose proof (IHa _ _ _ _ _ _ _ _ HGo H0 (sigs_in_kwrap _ c1 _ H0 Hk) E) as Hy.
             destruct c1; [now apply C_join0|exact Hy].
        * destruct gs as [|g1 [|g2 rest]]; try discriminate.
          -- exact (IHa _ _ _ _ _ _ _ _ HGo H0 Hk Hr).
          -- unfold seq in Hr.
             destruct (csolve kb bf f g1 s w k) as [[[a1 w1] s1]| |] eqn:E1; cbn [bind] in Hr; try discriminate.
             pose proof (IHa _ _ _ _ _ _ _ _ HGo H0 Hk E1) as H1.
             destruct s1; try (inversion Hr; subst; exact H1).
             destruct (csolve kb bf f (GOp OOr (g2 :: rest)) s w1 k) as [[[a2 w2] s2]| |] eqn:E2;
               cbn [bind] in Hr; try discriminate.
             inversion Hr; subst. exact (IHa _ _ _ _ _ _ _ _ HGo H0 Hk E2).
        * destruct gs as [|g1 rest]; try discriminate. destruct (has_cut g1); [discriminate|].
          destruct (csolve kb bf f g1 s w halt1) as [[[a1 w1] s1]| |] eqn:E1; cbn [bind] in Hr; try discriminate.
          destruct a1; [inversion Hr; subst; exact HGo|exact (Hk _ _ _ _ _ _ Hr)].
        * destruct gs as [|g1 rest]; try discriminate. destruct (has_cut g1); [discriminate|].
          destruct (csolve kb bf f g1 s w halt1) as [[[a1 w1] s1]| |] eqn:E1; cbn [bind] in Hr; try discriminate.
          destruct a1; [exact (Hk _ _ _ _ _ _ Hr)|inversion Hr; subst; exact HGo].
      + destruct (run_bip bf fn ts s) as [rb| |]; cbn [bind] in Hr; try discriminate.
        destruct (br_sol rb) as [s'|]; [|inversion Hr; subst; exact HGo].
        destruct (k s' (w_print w (br_out rb)) (br_cut rb)) as [[[a1 w1] s1]| |] eqn:E; cbn [bind] in Hr; try discriminate.
        rewrite mark_eq in Hr. inversion Hr; subst. specialize (Hk _ _ _ _ _ _ E).
        destruct (br_cut rb); [now apply C_join0|exact Hk].
      + destruct (term_key t) as [key| |]; cbn [bind] in Hr; try discriminate.
        destruct (count_rules kb key w) as [n w0].
        exact (IHc _ _ _ _ _ _ _ _ _ _ _ HGo (sigs_in_0 _ _ Hk) Hr).
    - (* a goal without cut *)
      intros g s w k C a w' sg Hcf HGo Hk Hr. rewrite csolve_S in Hr. unfold csolve_body in Hr.
      destruct g as [op gs|fn ts|t|]; try discriminate.
      + destruct op.
        * destruct gs as [|g1 [|g2 rest]]; try discriminate.
          -- destruct (cutfree_cons _ OAnd _ _ Hcf) as [Hc1 _]. exact (IHf _ _ _ _ _ _ _ _ Hc1 HGo Hk Hr).
          -- destruct (cutfree_cons _ OAnd _ _ Hcf) as [Hc1 Hc2].
             refine (IHf _ _ _ _ _ _ _ _ Hc1 HGo _ Hr).
             intros s1 w1 a1 w2 sg1 H1.
             destruct (csolve kb bf f (GOp OAnd (g2 :: rest)) s1 w1 (kwrap false k)) as [[[ay wy] sy]| |] eqn:E;
               cbn [bind mark] in H1; try discriminate.
             inversion H1; subst.
             exact (IHf _ _ _ _ _ _ _ _ Hc2 HGo (sigs_in0_kwrap _ _ Hk) E).
        * destruct gs as [|g1 [|g2 rest]]; try discriminate.
          -- destruct (cutfree_cons _ OOr _ _ Hcf) as [Hc1 _]. exact (IHf _ _ _ _ _ _ _ _ Hc1 HGo Hk Hr).
          -- destruct (cutfree_cons _ OOr _ _ Hcf) as [Hc1 Hc2]. unfold seq in Hr.
             destruct (csolve kb bf f g1 s w k) as [[[a1 w1] s1]| |] eqn:E1; cbn [bind] in Hr; try discriminate.
             pose proof (IHf _ _ _ _ _ _ _ _ Hc1 HGo Hk E1) as H1.
             destruct s1; try (inversion Hr; subst; exact H1).
             destruct (csolve kb bf f (GOp OOr (g2 :: rest)) s w1 k) as [[[a2 w2] s2]| |] eqn:E2;
               cbn [bind] in Hr; try discriminate.
             inversion Hr; subst. exact (IHf _ _ _ _ _ _ _ _ Hc2 HGo Hk E2).
        * destruct gs as [|g1 rest]; try discriminate. destruct (has_cut g1); [discriminate|].
          destruct (csolve kb bf f g1 s w halt1) as [[[a1 w1] s1]| |] eqn:E1; cbn [bind] in Hr; try discriminate.
          destruct a1; [inversion Hr; subst; exact HGo|exact (Hk _ _ _ _ _ Hr)].
        * destruct gs as [|g1 rest]; try discriminate. destruct (has_cut g1); [discriminate|].
          destruct (csolve kb bf f g1 s w halt1) as [[[a1 w1] s1]| |] eqn:E1; cbn [bind] in Hr; try discriminate.
          destruct a1; [exact (Hk _ _ _ _ _ Hr)|inversion Hr; subst; exact HGo].
      + destruct (run_bip bf fn ts s) as [rb| |] eqn:Eb; cbn [bind] in Hr; try discriminate.
        rewrite (run_bip_no_cut _ _ _ _ _ (cutfree_bip _ _ Hcf) Eb) in Hr.
        destruct (br_sol rb) as [s'|]; [|inversion Hr; subst; exact HGo].
        destruct (k s' (w_print w (br_out rb)) false) as [[[a1 w1] s1]| |] eqn:E; cbn [bind mark] in Hr; try discriminate.
        inversion Hr; subst. exact (Hk _ _ _ _ _ E).
      + destruct (term_key t) as [key| |]; cbn [bind] in Hr; try discriminate.
        destruct (count_rules kb key w) as [n w0].
        exact (IHc _ _ _ _ _ _ _ _ _ _ _ HGo Hk Hr).
    - (* the clauses of a call *)
      intros t s key idx n w k C a w' sg HGo Hk Hr. rewrite cclauses_S in Hr. unfold cclauses_body in Hr.
      destruct (n <=? idx); [inversion Hr; subst; exact HGo|].
      destruct (get_rule kb key idx (next_id w)) as [[rl ctr]| |]; cbn [bind] in Hr; try discriminate.
      destruct (unify bf (r_head rl) t s) as [[s'|]| |]; cbn [bind] in Hr; try discriminate.
      2:{ exact (IHc _ _ _ _ _ _ _ _ _ _ _ HGo Hk Hr). }
      destruct (is_gnil (r_body rl)).
      + unfold seq in Hr.
        destruct (k s' (w_set_id w ctr) false) as [[[a1 w1] s1]| |] eqn:E1; cbn [bind] in Hr; try discriminate.
        pose proof (Hk _ _ _ _ _ E1) as H1.
        destruct s1; try (inversion Hr; subst; exact H1).
        destruct (cclauses kb bf f t s key (idx + 1) n w1 k) as [[[a2 w2] s2]| |] eqn:E2; cbn [bind] in Hr; try discriminate.
        inversion Hr; subst. exact (IHc _ _ _ _ _ _ _ _ _ _ _ HGo Hk E2).
      + destruct (csolve kb bf f (r_body rl) s' (w_set_id w ctr) (kbump k)) as [[[a1 w1] s1]| |] eqn:E1;
          cbn [bind] in Hr; try discriminate.
        assert (bumpC C s1) as H1.
        { refine (IHa _ _ _ _ (bumpC C) _ _ _ _ _ (sigs_in_kbump _ _ Hk) E1).
          - left. exists Go. split; [exact HGo|reflexivity].
          - right. reflexivity. }
        unfold after_body in Hr. destruct s1 as [|[|m]|].
        * destruct (cclauses kb bf f t s key (idx + 1) n w1 k) as [[[a2 w2] s2]| |] eqn:E2; cbn [bind] in Hr; try discriminate.
          inversion Hr; subst. exact (IHc _ _ _ _ _ _ _ _ _ _ _ HGo Hk E2).
        * inversion Hr; subst. exact HGo.
        * inversion Hr; subst. destruct H1 as [(c & Hc & Ec)|Ec]; [|discriminate].
          destruct c; cbn [bump] in Ec; try discriminate. inversion Ec; subst. exact Hc.
        * inversion Hr; subst. destruct H1 as [(c & Hc & Ec)|Ec]; [|discriminate].
          destruct c; cbn [bump] in Ec; try discriminate. exact Hc.
  Qed.

  (* ---- 3. a goal without cut calls its continuation with the flag false only ---- *)
  Definition ckle0 (k1 k2 : ckont) : Prop := forall s w r, k1 s w false = Ok r -> k2 s w false = Ok r.

  Lemma ckle0_kbump k1 k2 : ckle0 k1 k2 -> ckle (kbump k1) (kbump k2).
  Proof.
    intros H s w c r Hr. unfold kbump in *.
    destruct (k1 s w false) as [z| |] eqn:E; cbn [bind] in Hr; try discriminate.
    rewrite (H _ _ _ E). exact Hr.
  Qed.
  Lemma ckle0_kwrap k1 k2 : ckle0 k1 k2 -> ckle0 (kwrap false k1) (kwrap false k2).
  Proof.
    intros H s w r Hr. unfold kwrap in *. cbn [orb] in *.
    destruct (k1 s w false) as [z| |] eqn:E; cbn [bind] in Hr; try discriminate.
    rewrite (H _ _ _ E). exact Hr.
  Qed.

  Definition fl_solve (f : nat) : Prop :=
    forall g s w k1 k2 R, cutfree g = true -> ckle0 k1 k2 ->
      csolve kb bf f g s w k1 = Ok R -> csolve kb bf f g s w k2 = Ok R.
  Definition fl_clauses (f : nat) : Prop :=
    forall t s key idx n w k1 k2 R, ckle0 k1 k2 ->
      cclauses kb bf f t s key idx n w k1 = Ok R -> cclauses kb bf f t s key idx n w k2 = Ok R.

  Lemma fl_all : forall f, fl_solve f /\ fl_clauses f.
  Proof.
    induction f as [|f [IHs IHc]].
    { split; red; intros; discriminate. }
    split.
    - intros g s w k1 k2 R Hcf Hk H. rewrite csolve_S in *. unfold csolve_body in *.
      destruct g as [op gs|fn ts|t|]; try discriminate.
      + destruct op.
        * destruct gs as [|g1 [|g2 rest]]; try discriminate.
          -- destruct (cutfree_cons _ OAnd _ _ Hcf) as [Hc1 _]. exact (IHs _ _ _ _ _ _ Hc1 Hk H).
          -- destruct (cutfree_cons _ OAnd _ _ Hcf) as [Hc1 Hc2].
             refine (IHs _ _ _ _ _ _ Hc1 _ H). intros s1 w1 r1 H1.
             destruct (csolve kb bf f (GOp OAnd (g2 :: rest)) s1 w1 (kwrap false k1)) as [y| |] eqn:E;
               cbn [bind] in H1; try discriminate.
             rewrite (IHs _ _ _ _ _ _ Hc2 (ckle0_kwrap _ _ Hk) E). exact H1.
        * destruct gs as [|g1 [|g2 rest]]; try discriminate.
          -- destruct (cutfree_cons _ OOr _ _ Hcf) as [Hc1 _]. exact (IHs _ _ _ _ _ _ Hc1 Hk H).
          -- destruct (cutfree_cons _ OOr _ _ Hcf) as [Hc1 Hc2]. unfold seq in *.
             destruct (csolve kb bf f g1 s w k1) as [[[a1 w1] s1]| |] eqn:E1; cbn [bind] in H; try discriminate.
             rewrite (IHs _ _ _ _ _ _ Hc1 Hk E1). cbn [bind]. destruct s1; try exact H.
             destruct (csolve kb bf f (GOp OOr (g2 :: rest)) s w1 k1) as [y| |] eqn:E2; cbn [bind] in H; try discriminate.
             rewrite (IHs _ _ _ _ _ _ Hc2 Hk E2). exact H.
        * destruct gs as [|g1 rest]; try discriminate. destruct (has_cut g1); [discriminate|].
          destruct (csolve kb bf f g1 s w halt1) as [[[a w1] s1]| |] eqn:E1; cbn [bind] in *; try discriminate.
          destruct a; [exact H|]. now apply Hk.
        * destruct gs as [|g1 rest]; try discriminate. destruct (has_cut g1); [discriminate|].
          destruct (csolve kb bf f g1 s w halt1) as [[[a w1] s1]| |] eqn:E1; cbn [bind] in *; try discriminate.
          destruct a; [now apply Hk|exact H].
      + destruct (run_bip bf fn ts s) as [rb| |] eqn:Eb; cbn [bind] in *; try discriminate.
        rewrite (run_bip_no_cut _ _ _ _ _ (cutfree_bip _ _ Hcf) Eb) in *.
        destruct (br_sol rb) as [s'|]; [|exact H].
        destruct (k1 s' (w_print w (br_out rb)) false) as [x| |] eqn:E; cbn [bind] in H; try discriminate.
        rewrite (Hk _ _ _ E). exact H.
      + destruct (term_key t) as [key| |]; cbn [bind] in *; try discriminate.
        destruct (count_rules kb key w) as [n w0]. exact (IHc _ _ _ _ _ _ _ _ _ Hk H).
    - intros t s key idx n w k1 k2 R Hk H. rewrite cclauses_S in *. unfold cclauses_body in *.
      destruct (n <=? idx); [exact H|].
      destruct (get_rule kb key idx (next_id w)) as [[rl ctr]| |]; cbn [bind] in *; try discriminate.
      destruct (unify bf (r_head rl) t s) as [[s'|]| |]; cbn [bind] in *; try discriminate.
      2:{ exact (IHc _ _ _ _ _ _ _ _ _ Hk H). }
      destruct (is_gnil (r_body rl)).
      + unfold seq in *.
        destruct (k1 s' (w_set_id w ctr) false) as [[[a1 w2] s1]| |] eqn:E1; cbn [bind] in H; try discriminate.
        rewrite (Hk _ _ _ E1). cbn [bind]. destruct s1; try exact H.
        destruct (cclauses kb bf f t s key (idx + 1) n w2 k1) as [y| |] eqn:E2; cbn [bind] in H; try discriminate.
        rewrite (IHc _ _ _ _ _ _ _ _ _ Hk E2). exact H.
      + destruct (csolve kb bf f (r_body rl) s' (w_set_id w ctr) (kbump k1)) as [[[a1 w2] s1]| |] eqn:E1;
          cbn [bind] in H; try discriminate.
        rewrite (csolve_mono kb bf f f _ _ _ _ _ _ (le_n f) (ckle0_kbump _ _ Hk) E1). cbn [bind].
        unfold after_body in *. destruct s1 as [|[|m]|]; try exact H.
        destruct (cclauses kb bf f t s key (idx + 1) n w2 k1) as [y| |] eqn:E2; cbn [bind] in H; try discriminate.
        rewrite (IHc _ _ _ _ _ _ _ _ _ Hk E2). exact H.
  Qed.

  (* ---- (A) the first-answer lemma ---- *)
  Theorem first_answer : forall fuel g s w k a w' sg,
    cutfree g = true -> stopping k ->
    csolve kb bf fuel g s w k = Ok (a, w', sg) ->
    match csolve kb bf fuel g s w halt1 with
    | Ok ([], w1, sg1) => a = [] /\ w' = w1 /\ sg = Go /\ sg1 = Go
    | Ok ([s1], w1, Halt) => k s1 w1 false = Ok (a, w', sg)
    | _ => False
    end.
  Proof.
    intros fuel g s w k a w' sg Hcf Hk H.
    set (K := fun (s1 : subst) (w1 : world) (_ : bool) => k s1 w1 false).
    set (k0 := fun (s1 : subst) (w1 : world) => k s1 w1 false).
    assert (csolve kb bf fuel g s w K = Ok (a, w', sg)) as HK.
    { refine (proj1 (fl_all fuel) _ _ _ _ _ _ Hcf _ H). intros s1 w1 r1 H1. exact H1. }
    assert (stopping0 k0) as Hk0.
    { intros s1 w1 a1 w2 sg1 H1. exact (Hk _ _ _ _ _ _ H1). }
    assert (krel k0 K halt1) as Hrel.
    { intros s1 w1 c r H1. eexists. split; [reflexivity|]. constructor. exact H1. }
    destruct (proj1 (fa_all fuel) _ _ _ _ _ _ _ Hk0 Hrel HK) as (h & Eh & Fh). rewrite Eh.
    inversion Fh as [w1 sg1 Hn|s1 w1 r0 E0]; subst.
    - assert (sg = Go \/ sg = Halt) as Hs.
      { refine (proj1 (proj2 (sg_all fuel)) _ _ _ halt1 (fun x => x = Go \/ x = Halt) _ _ _ Hcf _ _ Eh).
        - now left.
        - intros s2 w2 a2 w3 sg2 H2. inversion H2; subst. now right. }
      destruct Hs as [Hs|Hs]; [|congruence]. auto.
    - exact E0.
  Qed.

  (* the first answer does not depend on the fuel *)
  Lemma first_answer_fuel f1 f2 g s w h1 h2 :
    csolve kb bf f1 g s w halt1 = Ok h1 -> csolve kb bf f2 g s w halt1 = Ok h2 -> h1 = h2.
  Proof.
    intros H1 H2.
    pose proof (csolve_mono kb bf f1 (Nat.max f1 f2) _ _ _ _ _ _ (Nat.le_max_l _ _) (ckle_refl _) H1) as E1.
    pose proof (csolve_mono kb bf f2 (Nat.max f1 f2) _ _ _ _ _ _ (Nat.le_max_r _ _) (ckle_refl _) H2) as E2.
    congruence.
  Qed.

  (* ---- (B) g1, !, rest ---- *)
  Lemma cut_S f s w k :
    csolve kb bf (S f) (GBip n_cut None) s w k = do x <- k s (w_print w []) true; Ok (mark true x).
  Proof. reflexivity. Qed.

  (* what follows the cut, started from the first answer of what stands to its left *)
  Definition and_then (f : nat) (rest : list goal) (s : subst) (w : world) (k : ckont) : res cres :=
    match rest with
    | [] => k s w true
    | _ => csolve kb bf f (GOp OAnd rest) s w (kwrap true k)
    end.

  Lemma kwrap_true_twice c1 k : ckle (kwrap true (kwrap c1 k)) (kwrap true k).
  Proof.
    intros s w c r H. unfold kwrap in *. cbn [orb] in *. rewrite orb_true_r in H.
    destruct (k s w true) as [[[a w1] sg]| |]; cbn [bind] in *; try discriminate.
    rewrite !mark_eq in H. rewrite mark_eq. rewrite join0_idem in H. exact H.
  Qed.

  (* a conjunction that starts with a cut: what follows, marked *)
  Lemma and_cut_first f rest s w c1 k a w' sg :
    csolve kb bf f (GOp OAnd (GBip n_cut None :: rest)) s w (kwrap c1 k) = Ok (a, w', sg) ->
    exists sg0, and_then f rest s w k = Ok (a, w', sg0) /\ sg = join0 sg0.
  Proof.
    intro H. destruct f as [|f]; [discriminate|]. rewrite csolve_S in H. unfold csolve_body in H.
    destruct f as [|f]; [destruct rest; discriminate|].
    destruct rest as [|g2 rest]; rewrite cut_S, w_print_nil in H.
    - unfold kwrap in H. rewrite orb_true_r in H.
      destruct (k s w true) as [[[a1 w1] sg1]| |] eqn:E; cbn [bind] in H; try discriminate.
      rewrite !mark_eq in H. inversion H; subst. exists sg1. cbn [and_then]. rewrite join0_idem. auto.
    - destruct (csolve kb bf (S f) (GOp OAnd (g2 :: rest)) s w (kwrap true (kwrap c1 k))) as [[[a1 w1] sg1]| |] eqn:E;
        cbn [bind] in H; try discriminate.
      rewrite !mark_eq in H. inversion H; subst. exists sg1. cbn [and_then]. rewrite join0_idem. split; [|reflexivity].
      exact (csolve_mono kb bf (S f) (S (S f)) _ _ _ _ _ _ ltac:(lia) (kwrap_true_twice c1 k) E).
  Qed.

  Theorem cut_is_once : forall fuel g1 rest s w k a w' sg,
    cutfree g1 = true ->
    csolve kb bf fuel (GOp OAnd (g1 :: GBip n_cut None :: rest)) s w k = Ok (a, w', sg) ->
    match csolve kb bf fuel g1 s w halt1 with
    | Ok ([], w1, _) => a = [] /\ w' = w1 /\ sg = Go
    | Ok ([s1], w1, Halt) =>
        exists sg0, and_then fuel rest s1 w1 k = Ok (a, w', sg0) /\ sg = join0 sg0
    | _ => False
    end.
  Proof.
    intros fuel g1 rest s w k a w' sg Hcf H.
    destruct fuel as [|f]; [discriminate|]. rewrite csolve_S in H. unfold csolve_body in H.
    set (K := fun (s1 : subst) (w1 : world) (c1 : bool) =>
                do y <- csolve kb bf f (GOp OAnd (GBip n_cut None :: rest)) s1 w1 (kwrap c1 k); Ok (mark c1 y)) in H.
    assert (stopping K) as HK.
    { intros s1 w1 c1 a1 w2 sg1 H1. unfold K in H1.
      destruct (csolve kb bf f (GOp OAnd (GBip n_cut None :: rest)) s1 w1 (kwrap c1 k)) as [[[ay wy] sy]| |] eqn:E;
        cbn [bind] in H1; try discriminate.
      destruct (and_cut_first _ _ _ _ _ _ _ _ _ E) as (sg0 & _ & ->).
      rewrite mark_eq in H1. inversion H1; subst. destruct c1; [rewrite join0_idem|]; apply join0_not_go. }
    pose proof (first_answer f g1 s w K a w' sg Hcf HK H) as HA.
    destruct (csolve kb bf f g1 s w halt1) as [[[[|s1 [|s2 ah]] w1] sg1]| |] eqn:Eh; try contradiction.
    - rewrite (csolve_mono kb bf f (S f) _ _ _ _ _ _ ltac:(lia) (ckle_refl _) Eh).
      destruct HA as (-> & -> & -> & _). auto.
    - destruct sg1; try contradiction.
      rewrite (csolve_mono kb bf f (S f) _ _ _ _ _ _ ltac:(lia) (ckle_refl _) Eh).
      unfold K in HA.
      destruct (csolve kb bf f (GOp OAnd (GBip n_cut None :: rest)) s1 w1 (kwrap false k)) as [[[ay wy] sy]| |] eqn:E;
        cbn [bind mark] in HA; try discriminate.
      inversion HA; subst. destruct (and_cut_first _ _ _ _ _ _ _ _ _ E) as (sg0 & E0 & ->).
      exists sg0. split; [|reflexivity].
      destruct rest as [|g2 rest]; cbn [and_then] in *; [exact E0|].
      exact (csolve_mono kb bf f (S f) _ _ _ _ _ _ ltac:(lia) (ckle_refl _) E0).
  Qed.

  (* ---- (C) the call ---- *)
  (* the signal of a clause body in which a cut ran, seen by the caller of the call *)
  Definition leave_call (sg : sig) : sig :=
    match sg with Cut O => Go | Cut (S m) => Cut m | _ => sg end.

  Lemma after_body_nongo a w sg rest : sg <> Go -> after_body (a, w, sg) rest = Ok (a, w, leave_call sg).
  Proof. intro H. unfold after_body. destruct sg as [|[|m]|]; [congruence|reflexivity|reflexivity|reflexivity]. Qed.

  Theorem cut_commits_the_call : forall f t s key idx n w k rl ctr s' g1 rest R,
    (n <=? idx) = false ->
    get_rule kb key idx (next_id w) = Ok (rl, ctr) ->
    unify bf (r_head rl) t s = Ok (Some s') ->
    r_body rl = GOp OAnd (g1 :: GBip n_cut None :: rest) ->
    cutfree g1 = true ->
    cclauses kb bf (S f) t s key idx n w k = Ok R ->
    match csolve kb bf f g1 s' (w_set_id w ctr) halt1 with
    | Ok ([], w2, _) => cclauses kb bf f t s key (idx + 1) n w2 k = Ok R
    | Ok ([s1], w2, Halt) =>
        exists a w' sg0,
          and_then f rest s1 w2 (kbump k) = Ok (a, w', sg0) /\
          R = (a, w', leave_call (join0 sg0)) /\
          forall n', (n' <=? idx) = false -> cclauses kb bf (S f) t s key idx n' w k = Ok R
    | _ => False
    end.
  Proof.
    intros f t s key idx n w k rl ctr s' g1 rest R Hn Hg Hu Hb Hcf H.
    assert (forall n', (n' <=? idx) = false ->
              cclauses kb bf (S f) t s key idx n' w k =
              do x <- csolve kb bf f (r_body rl) s' (w_set_id w ctr) (kbump k);
              after_body x (fun w2 => cclauses kb bf f t s key (idx + 1) n' w2 k)) as Hunf.
    { intros n' Hn'. rewrite cclauses_S. unfold cclauses_body. rewrite Hn', Hg. cbn [bind]. rewrite Hu. cbn [bind].
      rewrite Hb. reflexivity. }
    rewrite (Hunf n Hn) in H.
    destruct (csolve kb bf f (r_body rl) s' (w_set_id w ctr) (kbump k)) as [[[a1 w1] sg1]| |] eqn:E1;
      cbn [bind] in H; try discriminate.
    rewrite Hb in E1. pose proof (cut_is_once _ _ _ _ _ _ _ _ _ Hcf E1) as HB.
    destruct (csolve kb bf f g1 s' (w_set_id w ctr) halt1) as [[[[|s1 [|s2 ah]] w2] sg2]| |] eqn:Eh; try contradiction.
    - destruct HB as (-> & -> & ->). exact (after_body_empty_inv _ _ _ H).
    - destruct sg2; try contradiction. destruct HB as (sg0 & E0 & ->).
      rewrite after_body_nongo in H by apply join0_not_go. inversion H; subst.
      exists a1, w1, sg0. split; [exact E0|]. split; [reflexivity|].
      intros n' Hn'. rewrite (Hunf n' Hn'). cbn [bind].
      apply after_body_nongo. apply join0_not_go.
  Qed.

  (* the same, the clause given as it is stored in the knowledge base *)
  Theorem cut_commits_the_call_kb : forall f t s key idx n w k rules r0 g1 rest R,
    kb_get kb key = Some rules -> nth_error rules (N.to_nat idx) = Some r0 ->
    r_body r0 = GOp OAnd (g1 :: GBip n_cut None :: rest) -> cutfree g1 = true ->
    (n <=? idx) = false ->
    cclauses kb bf (S f) t s key idx n w k = Ok R ->
    exists rl ctr g1' rest',
      get_rule kb key idx (next_id w) = Ok (rl, ctr) /\
      r_body rl = GOp OAnd (g1' :: GBip n_cut None :: rest') /\
      erase_goal g1' = erase_goal g1 /\ map erase_goal rest' = map erase_goal rest /\
      match unify bf (r_head rl) t s with
      | Ok None => cclauses kb bf f t s key (idx + 1) n (w_set_id (w_set_id w ctr) (next_id w)) k = Ok R
      | Ok (Some s') =>
          match csolve kb bf f g1' s' (w_set_id w ctr) halt1 with
          | Ok ([], w2, _) => cclauses kb bf f t s key (idx + 1) n w2 k = Ok R
          | Ok ([s1], w2, Halt) =>
              exists a w' sg0,
                and_then f rest' s1 w2 (kbump k) = Ok (a, w', sg0) /\
                R = (a, w', leave_call (join0 sg0)) /\
                forall n', (n' <=? idx) = false -> cclauses kb bf (S f) t s key idx n' w k = Ok R
          | _ => False
          end
      | _ => False
      end.
  Proof.
    intros f t s key idx n w k rules r0 g1 rest R Hkb Hnth Hb Hcf Hn H.
    pose proof H as H0. rewrite cclauses_S in H0. unfold cclauses_body in H0. rewrite Hn in H0.
    destruct (get_rule kb key idx (next_id w)) as [[rl ctr]| |] eqn:Hg; cbn [bind] in H0; try discriminate.
    destruct (fetched_clause_shape _ _ _ _ _ _ _ _ _ _ Hg Hkb Hnth Hb Hcf) as (g1' & rest' & Hb' & Hcf' & E1 & E2).
    exists rl, ctr, g1', rest'. split; [reflexivity|]. split; [exact Hb'|]. split; [exact E1|]. split; [exact E2|].
    destruct (unify bf (r_head rl) t s) as [[s'|]| |] eqn:Hu; cbn [bind] in H0; try discriminate.
    - exact (cut_commits_the_call _ _ _ _ _ _ _ _ _ _ _ _ _ _ Hn Hg Hu Hb' Hcf' H).
    - exact H0.
  Qed.
End CutOnce.
