(* C19, goal and rule level: for canonical goals g, generate_goal (show_goal g) = g, and for
   canonical rules r, parse_rule (show_rule r) = r.

   Plan of the proof (for a canonical goal g with text `text g`):
     scan     the stream tokenizer run on `text g` emits the tokens `pre g w0` and ends with
              the pending slice `lastw g w0`                                   (scan_goal)
     gts      group_tokens turns pre ++ [last] into the tree Branch Group (rawseq g)  (gts_goal)
     passes   the And pass and the Or pass turn it into Branch Group [ptree g]  (passes_goal)
     tttg     token_tree_to_goal (ptree g) = g                                 (tttg_ptree)
   Leaves are handled by the hypotheses on the leaf parser and on the leaf texts. *)
From Coq Require Import Lia.
From Suiron Require Import Model.Tokenizer Model.ParseRule Model.ShowGoal.
From Suiron Require Import Proofs.TokenizerStream Proofs.TokenizerProofs.
Open Scope N_scope.

(* ---------------------------------------------------------------------------------- *)
(* induction on goals *)

Section goal_ind'.
  Variable P : goal -> Prop.
  Hypothesis HOp : forall k gs, Forall P gs -> P (GOp k gs).
  Hypothesis HBip : forall f ts, P (GBip f ts).
  Hypothesis HCall : forall t, P (GCall t).
  Hypothesis HNil : P GNil.
  Fixpoint goal_ind' (g : goal) : P g :=
    match g with
    | GOp k gs =>
        HOp k gs ((fix go (l : list goal) : Forall P l :=
                     match l with
                     | [] => Forall_nil P
                     | x :: l' => Forall_cons x (goal_ind' x) (go l')
                     end) gs)
    | GBip f ts => HBip f ts
    | GCall t => HCall t
    | GNil => HNil
    end.
End goal_ind'.

(* ---------------------------------------------------------------------------------- *)
(* runs of the stream tokenizer *)

Inductive reach : scfg -> scfg -> Prop :=
| reach_refl cf : reach cf cf
| reach_step cf cf1 cf2 : sstep_cfg cf = Some (POk cf1) -> reach cf1 cf2 -> reach cf cf2.

Lemma reach_trans a b c : reach a b -> reach b c -> reach a c.
Proof. induction 1; intros H2; [exact H2|]. econstructor; eauto. Qed.

Lemma reach_one a b : sstep_cfg a = Some (POk b) -> reach a b.
Proof. intros H. econstructor; [exact H|constructor]. Qed.

Lemma reach_sloop a b :
  reach a b -> s_rest b = [] ->
  forall fuel, (length (s_rest a) < fuel)%nat -> sloop fuel a = Ok (POk b).
Proof.
  induction 1 as [cf|cf cf1 cf2 Hs Hr IH]; intros Hend fuel Hf.
  - destruct fuel; [lia|]. simpl. unfold sstep_cfg. now rewrite Hend.
  - destruct fuel; [lia|]. simpl. rewrite Hs. apply IH; [exact Hend|].
    unfold sstep_cfg in Hs. destruct (s_rest cf) as [|c rest'] eqn:E; [discriminate|].
    inversion Hs as [Hs']. apply sstep_shrinks in Hs' as [Hs' _]. simpl in Hf. lia.
Qed.

(* the scanner is in its ground state: not inside a complex term or a list *)
Definition ground (stk : parse_stack) : Prop :=
  tt_eqb (peek stk) TTComplex = false /\ tt_eqb (peek stk) TTLinkedList = false.

Lemma ground_group stk : ground (TTGroup :: stk).
Proof. split; reflexivity. Qed.

(* previous characters after which a goal text starts: `#` (start), space, `(` *)
Definition okprev (p : N) : Prop := p = ch_hash \/ p = 32 \/ p = ch_lparen.

Lemma okprev_facts p : okprev p -> (p =? ch_backslash) = false /\ letter_number_hyphen p = false.
Proof. intros [->|[->| ->]]; split; reflexivity. Qed.

Definition tok_comma : token := Leaf TTComma [ch_comma].
Definition tok_semi : token := Leaf TTSemicolon [ch_semicolon].
Definition tok_lp : token := Leaf TTLParen [ch_lparen].
Definition tok_rp : token := Leaf TTRParen [ch_rparen].

Lemma step_sep (sep : N) rest w p stk toks :
  (sep = ch_comma \/ sep = ch_semicolon) ->
  (p =? ch_backslash) = false -> ground stk ->
  sstep_cfg (mkS (sep :: rest) w p stk toks) =
  Some (POk (mkS rest [] sep stk
                 (toks ++ [make_leaf_token w] ++ [if sep =? ch_comma then tok_comma else tok_semi]))).
Proof.
  intros Hsep Hp [G1 G2]. unfold sstep_cfg, sstep; cbn [s_rest s_w s_prev s_stk s_toks].
  unfold no_esc. rewrite Hp, G1, G2. destruct Hsep as [->| ->]; reflexivity.
Qed.

Lemma step_space rest w p stk toks :
  ground stk ->
  sstep_cfg (mkS (32 :: rest) w p stk toks) = Some (POk (mkS rest (w ++ [32]) 32 stk toks)).
Proof.
  intros [G1 G2]. unfold sstep_cfg, sstep; cbn [s_rest s_w s_prev s_stk s_toks].
  unfold no_esc. rewrite G1, G2. destruct (p =? ch_backslash); reflexivity.
Qed.

Lemma step_lparen rest w p stk toks :
  okprev p ->
  sstep_cfg (mkS (ch_lparen :: rest) w p stk toks) =
  Some (POk (mkS rest [] ch_lparen (TTGroup :: stk) (toks ++ [tok_lp]))).
Proof.
  intros Hp. destruct (okprev_facts p Hp) as [H1 H2].
  unfold sstep_cfg, sstep; cbn [s_rest s_w s_prev s_stk s_toks].
  unfold no_esc. rewrite H1, H2. reflexivity.
Qed.

Lemma step_rparen rest w p stk toks :
  (p =? ch_backslash) = false ->
  sstep_cfg (mkS (ch_rparen :: rest) w p (TTGroup :: stk) toks) =
  Some (POk (mkS rest (w ++ [ch_rparen]) ch_rparen stk
                 (toks ++ [make_leaf_token w] ++ [tok_rp]))).
Proof.
  intros Hp. unfold sstep_cfg, sstep; cbn [s_rest s_w s_prev s_stk s_toks].
  unfold no_esc. rewrite Hp. reflexivity.
Qed.

(* ---------------------------------------------------------------------------------- *)
(* leaf texts *)

(* A leaf text is neutral for the tokenizer: it is not empty, a slice made of white space
   and the text becomes the Subgoal token of the text, and a scan that starts in the ground
   state passes over the text without emitting a token or changing the parse stack,
   whatever follows it; the character it ends with does not escape the next one. *)
Record neutral (t : str) : Prop := mkNeutral {
  neu_ne : t <> [];
  neu_tok : forall w0, forallb tk_is_whitespace w0 = true ->
                       make_leaf_token (w0 ++ t) = Leaf TTSubgoal t;
  neu_scan : forall p0 rest w stk toks, okprev p0 -> ground stk ->
    exists pf, reach (mkS (t ++ rest) w p0 stk toks) (mkS rest (w ++ t) pf stk toks) /\
               (pf =? ch_backslash) = false
}.

Definition is_leaf_goal (g : goal) : bool :=
  match g with
  | GOp OAnd _ | GOp OOr _ | GNil => false
  | _ => true
  end.


(* ---------------------------------------------------------------------------------- *)
(* big-step presentation of group_tokens_to (the stream version gts) *)

Inductive GTS : list token -> list token -> token * list token -> Prop :=
| GTS_nil acc : GTS [] acc (Branch TTGroup acc, [])
| GTS_rp tok rest acc :
    tt_eqb (get_type tok) TTLParen = false -> tt_eqb (get_type tok) TTRParen = true ->
    GTS (tok :: rest) acc (Branch TTGroup acc, tok :: rest)
| GTS_lp tok rest acc t rem r :
    tt_eqb (get_type tok) TTLParen = true ->
    GTS rest [] (t, rem) -> GTS (skipn 2 rem) (acc ++ [t]) r ->
    GTS (tok :: rest) acc r
| GTS_other tok rest acc r :
    tt_eqb (get_type tok) TTLParen = false -> tt_eqb (get_type tok) TTRParen = false ->
    GTS rest (acc ++ [tok]) r ->
    GTS (tok :: rest) acc r.

Lemma GTS_rem rest acc r : GTS rest acc r -> (length (snd r) <= length rest)%nat.
Proof.
  induction 1; cbn [snd length] in *; try lia.
  rewrite skipn_length in *. lia.
Qed.

Lemma GTS_gts rest acc r :
  GTS rest acc r -> forall fuel, (length rest < fuel)%nat -> gts fuel rest acc = Ok r.
Proof.
  induction 1 as [acc|tok rest acc H1 H2|tok rest acc t rem r H1 Hin IHin Hout IHout
                  |tok rest acc r H1 H2 H IH]; intros fuel Hf;
    (destruct fuel; [lia|]); cbn [gts length] in *.
  - reflexivity.
  - now rewrite H1, H2.
  - rewrite H1. rewrite IHin by lia. cbn [bind].
    apply IHout. apply GTS_rem in Hin. cbn [snd] in Hin. rewrite skipn_length. lia.
  - rewrite H1, H2. apply IH. lia.
Qed.

Section Roundtrip.
  Variable ps : str -> res (presult goal).

  (* what is asked of a leaf goal: its text is neutral and parses back to it *)
  Definition leaf_ok (l : goal) : Prop :=
    is_leaf_goal l = true /\
    exists t, show_goal l = Ok t /\ neutral t /\ ps t = Ok (POk l).

  Inductive canonical_goal : goal -> Prop :=
  | can_leaf l : leaf_ok l -> canonical_goal l
  | can_and gs : (2 <= length gs)%nat -> Forall canonical_goal gs -> canonical_goal (GOp OAnd gs)
  | can_or gs : (2 <= length gs)%nat -> Forall canonical_goal gs -> canonical_goal (GOp OOr gs).

  Lemma canonical_inv g : canonical_goal g ->
    match g with
    | GOp OAnd gs | GOp OOr gs => (2 <= length gs)%nat /\ Forall canonical_goal gs
    | _ => leaf_ok g
    end.
  Proof.
    intros H. inversion H as [l Hl|gs Hn Hf|gs Hn Hf]; subst; auto.
    destruct Hl as [Hl Hl']. destruct g as [[] gs| | |]; try discriminate; split; auto.
  Qed.

  (* ---- the text, the emitted tokens, the pending slice, the trees ---- *)

  Definition leaf_text (l : goal) : str :=
    match show_goal l with Ok t => t | _ => [] end.

  Fixpoint text (g : goal) : str :=
    match g with
    | GOp OAnd gs => format_list (map (fun x => operand_text true x (text x)) gs) sep_comma
    | GOp OOr gs => format_list (map (fun x => operand_text false x (text x)) gs) sep_semicolon
    | l => leaf_text l
    end.

  Definition sep_tok (ga : bool) : token := if ga then tok_comma else tok_semi.

  (* pending slice after the scan of the items of an And (ga = true) / Or (ga = false) *)
  Definition lastw_items (lw : goal -> str -> str) (ga : bool) : list goal -> str -> str :=
    fix items (l : list goal) (w0 : str) {struct l} : str :=
      match l with
      | [] => w0
      | x :: r =>
          match r with
          | [] => if needs_group ga x then lw x [] ++ [ch_rparen] else lw x w0
          | _ => items r [32]
          end
      end.

  Fixpoint lastw (g : goal) (w0 : str) {struct g} : str :=
    match g with
    | GOp OAnd gs => lastw_items (fun x w => lastw x w) true gs w0
    | GOp OOr gs => lastw_items (fun x w => lastw x w) false gs w0
    | l => w0 ++ leaf_text l
    end.

  Definition lastw_item (ga : bool) (x : goal) (w0 : str) : str :=
    if needs_group ga x then lastw x [] ++ [ch_rparen] else lastw x w0.

  (* tokens emitted during the scan of one item, given those of the goal inside *)
  Definition pre_item_gen (pr : goal -> str -> list token) (ga : bool) (x : goal) (w0 : str)
    : list token :=
    if needs_group ga x
    then [tok_lp] ++ pr x [] ++ [make_leaf_token (lastw x [])] ++ [tok_rp]
    else pr x w0.

  Definition pre_items (pr : goal -> str -> list token) (ga : bool)
    : list goal -> str -> list token :=
    fix items (l : list goal) (w0 : str) {struct l} : list token :=
      match l with
      | [] => []
      | x :: r =>
          match r with
          | [] => pre_item_gen pr ga x w0
          | _ => pre_item_gen pr ga x w0 ++ [make_leaf_token (lastw_item ga x w0)] ++ [sep_tok ga]
                 ++ items r [32]
          end
      end.

  Fixpoint pre (g : goal) (w0 : str) {struct g} : list token :=
    match g with
    | GOp OAnd gs => pre_items (fun x w => pre x w) true gs w0
    | GOp OOr gs => pre_items (fun x w => pre x w) false gs w0
    | _ => []
    end.

  Definition pre_item := pre_item_gen pre.

  (* ---- the scan ---- *)

  Definition sep_str (ga : bool) : str := if ga then sep_comma else sep_semicolon.
  Definition item_text (ga : bool) (x : goal) : str := operand_text ga x (text x).

  Lemma format_list_one s sep : format_list [s] sep = s.
  Proof. unfold format_list. now rewrite app_nil_r. Qed.

  Lemma format_list_cons s1 s2 l sep :
    format_list (s1 :: s2 :: l) sep = s1 ++ sep ++ format_list (s2 :: l) sep.
  Proof. unfold format_list. now rewrite <- app_assoc. Qed.

  Lemma lastw_items_cons lw ga x y r w0 :
    lastw_items lw ga (x :: y :: r) w0 = lastw_items lw ga (y :: r) [32].
  Proof. reflexivity. Qed.

  Lemma pre_items_cons pr ga x y r w0 :
    pre_items pr ga (x :: y :: r) w0 =
    pre_item_gen pr ga x w0 ++ [make_leaf_token (lastw_item ga x w0)] ++ [sep_tok ga] ++
    pre_items pr ga (y :: r) [32].
  Proof. reflexivity. Qed.

  Definition scans (g : goal) : Prop :=
    forall w0 p0 stk toks rest,
      forallb tk_is_whitespace w0 = true -> okprev p0 -> ground stk ->
      exists pf, reach (mkS (text g ++ rest) w0 p0 stk toks)
                       (mkS rest (lastw g w0) pf stk (toks ++ pre g w0)) /\
                 (pf =? ch_backslash) = false.

  Lemma scan_item ga x : scans x ->
    forall w0 p0 stk toks rest,
      forallb tk_is_whitespace w0 = true -> okprev p0 -> ground stk ->
      exists pf, reach (mkS (item_text ga x ++ rest) w0 p0 stk toks)
                       (mkS rest (lastw_item ga x w0) pf stk (toks ++ pre_item ga x w0)) /\
                 (pf =? ch_backslash) = false.
  Proof.
    intros Hx w0 p0 stk toks rest Hw Hp Hg.
    unfold item_text, operand_text, lastw_item, pre_item, pre_item_gen.
    destruct (needs_group ga x).
    - destruct (Hx [] ch_lparen (TTGroup :: stk) (toks ++ [tok_lp]) (ch_rparen :: rest))
        as (pf & Hr & Hpf); [reflexivity | right; now right | apply ground_group |].
      exists ch_rparen. split; [|reflexivity].
      eapply reach_step.
      { change (([40] ++ text x ++ [41]) ++ rest) with (ch_lparen :: (text x ++ [41]) ++ rest).
        apply step_lparen. exact Hp. }
      rewrite <- app_assoc. eapply reach_trans; [exact Hr|].
      eapply reach_step; [apply step_rparen; exact Hpf|].
      rewrite <- !app_assoc. apply reach_refl.
    - apply Hx; assumption.
  Qed.

  Lemma scan_items ga : forall gs, gs <> [] -> Forall scans gs ->
    forall w0 p0 stk toks rest,
      forallb tk_is_whitespace w0 = true -> okprev p0 -> ground stk ->
      exists pf,
        reach (mkS (format_list (map (item_text ga) gs) (sep_str ga) ++ rest) w0 p0 stk toks)
              (mkS rest (lastw_items (fun x w => lastw x w) ga gs w0) pf stk
                   (toks ++ pre_items (fun x w => pre x w) ga gs w0)) /\
        (pf =? ch_backslash) = false.
  Proof.
    induction gs as [|x gs IH]; intros Hne HF w0 p0 stk toks rest Hw Hp Hg; [congruence|].
    inversion HF as [|? ? Hx HF']; subst.
    destruct gs as [|y gs].
    - cbn [map]. rewrite format_list_one. cbn [lastw_items pre_items].
      apply (scan_item ga x Hx); assumption.
    - cbn [map]. rewrite format_list_cons. rewrite <- !app_assoc.
      destruct (scan_item ga x Hx w0 p0 stk toks
                  (sep_str ga ++ format_list (map (item_text ga) (y :: gs)) (sep_str ga) ++ rest)
                  Hw Hp Hg) as (pf1 & Hr1 & Hpf1).
      specialize (IH ltac:(discriminate) HF' [32] 32 stk
                     (toks ++ pre_item ga x w0 ++ [make_leaf_token (lastw_item ga x w0)] ++ [sep_tok ga])
                     rest eq_refl ltac:(right; now left) Hg).
      destruct IH as (pf & Hr & Hpf). exists pf. split; [|exact Hpf].
      eapply reach_trans; [exact Hr1|].
      assert (Hsep : exists sc, sep_str ga = [sc; 32] /\ (sc = ch_comma \/ sc = ch_semicolon) /\
                                sep_tok ga = (if sc =? ch_comma then tok_comma else tok_semi)).
      { destruct ga; [exists ch_comma | exists ch_semicolon]; repeat split; auto. }
      destruct Hsep as (sc & Es & Hsc & Et). rewrite Es in Hr |- *.
      eapply reach_step; [apply (step_sep sc); [exact Hsc | exact Hpf1 | exact Hg]|].
      eapply reach_step; [apply step_space; exact Hg|].
      change ([] ++ [32]) with [32]. rewrite <- Et.
      rewrite lastw_items_cons, pre_items_cons. fold (pre_item ga x w0).
      rewrite <- !app_assoc in *. exact Hr.
  Qed.

  Lemma leaf_text_eq l t : show_goal l = Ok t -> leaf_text l = t.
  Proof. unfold leaf_text. now intros ->. Qed.

  Lemma scan_leaf l : leaf_ok l -> scans l.
  Proof.
    intros [Hl (t & Hs & Hn & _)] w0 p0 stk toks rest Hw Hp Hg.
    assert (Et : text l = t).
    { destruct l as [[] gs| | |]; try discriminate; now apply leaf_text_eq. }
    assert (El : lastw l w0 = w0 ++ t).
    { destruct l as [[] gs| | |]; try discriminate; cbn [lastw]; now rewrite (leaf_text_eq _ _ Hs). }
    assert (Ep : pre l w0 = []).
    { destruct l as [[] gs| | |]; try discriminate; reflexivity. }
    rewrite Et, El, Ep, app_nil_r.
    destruct (neu_scan t Hn p0 rest w0 stk toks Hp Hg) as (pf & Hr & Hpf). eauto.
  Qed.

  Theorem scan_goal : forall g, canonical_goal g -> scans g.
  Proof.
    induction g as [k gs IH| | |] using goal_ind'; intros Hc;
      pose proof (canonical_inv _ Hc) as Hi.
    - destruct k; try (now apply scan_leaf).
      + destruct Hi as [Hn Hf].
        assert (HF : Forall scans gs).
        { rewrite Forall_forall in *. intros x Hx. apply IH; auto. }
        intros w0 p0 stk toks rest Hw Hp Hg. cbn [text lastw pre].
        apply (scan_items true gs); auto. destruct gs; [simpl in Hn; lia|discriminate].
      + destruct Hi as [Hn Hf].
        assert (HF : Forall scans gs).
        { rewrite Forall_forall in *. intros x Hx. apply IH; auto. }
        intros w0 p0 stk toks rest Hw Hp Hg. cbn [text lastw pre].
        apply (scan_items false gs); auto. destruct gs; [simpl in Hn; lia|discriminate].
    - now apply scan_leaf.
    - now apply scan_leaf.
    - now apply scan_leaf.
  Qed.

  (* ---- group_tokens ---- *)

  Definition join_toks (sep : token) : list (list token) -> list token :=
    fix j (l : list (list token)) : list token :=
      match l with
      | [] => []
      | x :: r => match r with [] => x | _ => x ++ [sep] ++ j r end
      end.

  Fixpoint rawseq (g : goal) : list token :=
    match g with
    | GOp OAnd gs =>
        join_toks tok_comma
          (map (fun x => if needs_group true x then [Branch TTGroup (rawseq x)] else rawseq x) gs)
    | GOp OOr gs =>
        join_toks tok_semi
          (map (fun x => if needs_group false x then [Branch TTGroup (rawseq x)] else rawseq x) gs)
    | l => [Leaf TTSubgoal (leaf_text l)]
    end.

  Definition rawitem (ga : bool) (x : goal) : list token :=
    if needs_group ga x then [Branch TTGroup (rawseq x)] else rawseq x.

  Lemma join_toks_cons sep x y r :
    join_toks sep (x :: y :: r) = x ++ [sep] ++ join_toks sep (y :: r).
  Proof. reflexivity. Qed.

  Lemma join_toks_map_cons {A} sep (f : A -> list token) x y r :
    join_toks sep (map f (x :: y :: r)) = f x ++ [sep] ++ join_toks sep (map f (y :: r)).
  Proof. reflexivity. Qed.

  Definition groups (g : goal) : Prop :=
    forall w0 rest acc r, forallb tk_is_whitespace w0 = true ->
      GTS rest (acc ++ rawseq g) r ->
      GTS (pre g w0 ++ make_leaf_token (lastw g w0) :: rest) acc r.

  Lemma groups_item ga x : groups x ->
    forall w0 rest acc r, forallb tk_is_whitespace w0 = true ->
      GTS rest (acc ++ rawitem ga x) r ->
      GTS (pre_item ga x w0 ++ make_leaf_token (lastw_item ga x w0) :: rest) acc r.
  Proof.
    intros Hx w0 rest acc r Hw H.
    unfold pre_item, pre_item_gen, lastw_item, rawitem in *.
    destruct (needs_group ga x).
    - rewrite <- !app_assoc. cbn [app].
      eapply GTS_lp; [reflexivity| |].
      + apply (Hx [] (tok_rp :: make_leaf_token (lastw x [] ++ [ch_rparen]) :: rest) []
                  (Branch TTGroup (rawseq x), tok_rp :: make_leaf_token (lastw x [] ++ [ch_rparen]) :: rest)
                  eq_refl).
        cbn [app]. apply GTS_rp; reflexivity.
      + exact H.
    - now apply Hx.
  Qed.

  Lemma sep_tok_type ga :
    tt_eqb (get_type (sep_tok ga)) TTLParen = false /\ tt_eqb (get_type (sep_tok ga)) TTRParen = false.
  Proof. destruct ga; split; reflexivity. Qed.

  Lemma groups_items ga : forall gs, gs <> [] -> Forall groups gs ->
    forall w0 rest acc r, forallb tk_is_whitespace w0 = true ->
      GTS rest (acc ++ join_toks (sep_tok ga) (map (rawitem ga) gs)) r ->
      GTS (pre_items (fun x w => pre x w) ga gs w0 ++
           make_leaf_token (lastw_items (fun x w => lastw x w) ga gs w0) :: rest) acc r.
  Proof.
    induction gs as [|x gs IH]; intros Hne HF w0 rest acc r Hw H; [congruence|].
    inversion HF as [|? ? Hx HF']; subst.
    destruct gs as [|y gs].
    - cbn [map join_toks pre_items lastw_items] in *. now apply (groups_item ga x Hx).
    - rewrite lastw_items_cons, pre_items_cons. fold (pre_item ga x w0).
      cbn [map] in H. rewrite join_toks_cons in H. rewrite <- !app_assoc. cbn [app].
      apply (groups_item ga x Hx w0 _ acc r Hw).
      destruct (sep_tok_type ga) as [T1 T2].
      apply GTS_other; [exact T1|exact T2|].
      rewrite <- app_assoc.
      apply IH; [discriminate|exact HF'|reflexivity|].
      rewrite <- !app_assoc in *. exact H.
  Qed.

  Lemma groups_leaf l : leaf_ok l -> groups l.
  Proof.
    intros [Hl (t & Hs & Hn & _)] w0 rest acc r Hw H.
    assert (El : lastw l w0 = w0 ++ t).
    { destruct l as [[] gs| | |]; try discriminate; cbn [lastw]; now rewrite (leaf_text_eq _ _ Hs). }
    assert (Ep : pre l w0 = []).
    { destruct l as [[] gs| | |]; try discriminate; reflexivity. }
    assert (Er : rawseq l = [Leaf TTSubgoal t]).
    { destruct l as [[] gs| | |]; try discriminate; cbn [rawseq]; now rewrite (leaf_text_eq _ _ Hs). }
    rewrite El, Ep, (neu_tok t Hn w0 Hw). rewrite Er in H. cbn [app].
    apply GTS_other; [reflexivity|reflexivity|exact H].
  Qed.

  Theorem groups_goal : forall g, canonical_goal g -> groups g.
  Proof.
    induction g as [k gs IH| | |] using goal_ind'; intros Hc;
      pose proof (canonical_inv _ Hc) as Hi.
    - destruct k; try (now apply groups_leaf).
      + destruct Hi as [Hn Hf].
        assert (HF : Forall groups gs).
        { rewrite Forall_forall in *. intros x Hx. apply IH; auto. }
        intros w0 rest acc r Hw H. cbn [lastw pre].
        apply (groups_items true gs); auto. destruct gs; [simpl in Hn; lia|discriminate].
      + destruct Hi as [Hn Hf].
        assert (HF : Forall groups gs).
        { rewrite Forall_forall in *. intros x Hx. apply IH; auto. }
        intros w0 rest acc r Hw H. cbn [lastw pre].
        apply (groups_items false gs); auto. destruct gs; [simpl in Hn; lia|discriminate].
    - now apply groups_leaf.
    - now apply groups_leaf.
    - now apply groups_leaf.
  Qed.

  (* ---- the And pass and the Or pass ---- *)

  Fixpoint ptree (g : goal) : token :=
    match g with
    | GOp OAnd gs =>
        Branch TTAnd (map (fun x => if needs_group true x then Branch TTGroup [ptree x] else ptree x) gs)
    | GOp OOr gs =>
        Branch TTOr (map (fun x => if needs_group false x then Branch TTGroup [ptree x] else ptree x) gs)
    | l => Leaf TTSubgoal (leaf_text l)
    end.

  Definition pitem (ga : bool) (x : goal) : token :=
    if needs_group ga x then Branch TTGroup [ptree x] else ptree x.

  Definition passes (g : goal) : Prop :=
    exists m, group_and_tokens (Branch TTGroup (rawseq g)) = Ok (Branch TTGroup m) /\
              group_or_tokens (Branch TTGroup m) = Ok (Branch TTGroup [ptree g]).

  (* operands that the And pass collects when it runs over rawseq g (g not an Or) *)
  Definition seqal (g : goal) : list token :=
    match g with
    | GOp OAnd gs => map (pitem true) gs
    | _ => [ptree g]
    end.

  Definition andseq (g : goal) : Prop :=
    match g with
    | GOp OOr _ => True
    | _ => forall ty rest nc al,
        and_loop group_and_tokens ty (rawseq g ++ rest) nc al =
        and_loop group_and_tokens ty rest nc (al ++ seqal g)
    end.

  (* and_list `al` is flushed as the token f *)
  Definition flushes (al : list token) (f : token) : Prop :=
    al = [f] \/ ((2 <= length al)%nat /\ f = Branch TTAnd al).

  Lemma and_loop_semi gat ty rest nc al f :
    flushes al f ->
    and_loop gat ty (tok_semi :: rest) nc al = and_loop gat ty rest (nc ++ [f] ++ [tok_semi]) [].
  Proof.
    intros [->|[Hn ->]]; cbn [and_loop get_type tok_semi tt_eqb]; [reflexivity|].
    destruct al as [|a [|b al]]; simpl in Hn; try lia. reflexivity.
  Qed.

  Lemma and_loop_end gat ty nc al f :
    valid_branch ty = true -> flushes al f ->
    and_loop gat ty [] nc al = Ok (Branch ty (nc ++ [f])).
  Proof.
    intros Hv [->|[Hn ->]]; cbn [and_loop].
    - cbn. now apply make_branch_token_ok.
    - destruct al as [|a [|b al]]; simpl in Hn; try lia. cbn. now apply make_branch_token_ok.
  Qed.

  Lemma and_loop_comma gat ty rest nc al :
    and_loop gat ty (tok_comma :: rest) nc al = and_loop gat ty rest nc al.
  Proof. reflexivity. Qed.

  Lemma and_loop_group ty x rest nc al :
    passes x ->
    and_loop group_and_tokens ty (Branch TTGroup (rawseq x) :: rest) nc al =
    and_loop group_and_tokens ty rest nc (al ++ [Branch TTGroup [ptree x]]).
  Proof.
    intros (m & H1 & H2). cbn [and_loop get_type tt_eqb]. rewrite H1. cbn [bind]. rewrite H2. reflexivity.
  Qed.

  Lemma leaf_shapes l : leaf_ok l ->
    exists t, rawseq l = [Leaf TTSubgoal t] /\ ptree l = Leaf TTSubgoal t /\ ps t = Ok (POk l) /\
              seqal l = [Leaf TTSubgoal t].
  Proof.
    intros [Hl (t & Hs & Hn & Hp)]. exists t.
    destruct l as [[] gs| | |]; try discriminate; cbn [rawseq ptree seqal];
      rewrite (leaf_text_eq _ _ Hs); auto.
  Qed.

  Lemma not_group_leaf ga x : canonical_goal x -> needs_group ga x = false ->
    leaf_ok x \/ (ga = false /\ exists gs, x = GOp OAnd gs).
  Proof.
    intros Hc Hn. pose proof (canonical_inv _ Hc) as Hi.
    destruct x as [[] gs| | |]; cbn [needs_group] in Hn; auto; try discriminate.
    right. destruct ga; [discriminate|]. eauto.
  Qed.

  (* one operand of an And *)
  Lemma and_item x : canonical_goal x -> (needs_group true x = true -> passes x) ->
    forall ty rest nc al,
      and_loop group_and_tokens ty (rawitem true x ++ rest) nc al =
      and_loop group_and_tokens ty rest nc (al ++ [pitem true x]).
  Proof.
    intros Hc Hp ty rest nc al. unfold rawitem, pitem.
    destruct (needs_group true x) eqn:En.
    - cbn [app]. now apply and_loop_group, Hp.
    - destruct (not_group_leaf true x Hc En) as [Hl|[? _]]; [|discriminate].
      destruct (leaf_shapes x Hl) as (t & -> & -> & _). reflexivity.
  Qed.

  Lemma and_items : forall gs, Forall canonical_goal gs ->
    Forall (fun x => needs_group true x = true -> passes x) gs ->
    forall ty rest nc al,
      and_loop group_and_tokens ty (join_toks tok_comma (map (rawitem true) gs) ++ rest) nc al =
      and_loop group_and_tokens ty rest nc (al ++ map (pitem true) gs).
  Proof.
    induction gs as [|x gs IH]; intros Hc Hp ty rest nc al.
    - cbn. now rewrite app_nil_r.
    - inversion Hc as [|? ? Hc1 Hc2]; inversion Hp as [|? ? Hp1 Hp2]; subst.
      destruct gs as [|y gs].
      + cbn [map join_toks]. now apply and_item.
      + cbn [map]. rewrite join_toks_cons. rewrite <- !app_assoc.
        rewrite (and_item x Hc1 Hp1). cbn [app]. rewrite and_loop_comma.
        rewrite (IH Hc2 Hp2). now rewrite <- app_assoc.
  Qed.

  Lemma flushes_seqal g : canonical_goal g ->
    match g with GOp OOr _ => True | _ => flushes (seqal g) (ptree g) end.
  Proof.
    intros Hc. pose proof (canonical_inv _ Hc) as Hi.
    destruct g as [[] gs| | |]; try (left; reflexivity); try exact I.
    destruct Hi as [Hn _]. right. cbn [seqal ptree]. rewrite map_length. split; [exact Hn|].
    reflexivity.
  Qed.

  (* one operand of an Or, starting with an empty and_list *)
  Lemma or_item x : canonical_goal x -> passes x -> andseq x ->
    forall ty rest nc,
    exists al, flushes al (pitem false x) /\
      and_loop group_and_tokens ty (rawitem false x ++ rest) nc [] =
      and_loop group_and_tokens ty rest nc al.
  Proof.
    intros Hc Hp Ha ty rest nc. unfold rawitem, pitem.
    destruct (needs_group false x) eqn:En.
    - exists [Branch TTGroup [ptree x]]. split; [now left|].
      cbn [app]. now apply and_loop_group.
    - exists (seqal x). split.
      + pose proof (flushes_seqal x Hc) as Hf.
        destruct x as [[] gs| | |]; try exact Hf. discriminate.
      + destruct x as [[] gs| | |]; try apply (Ha ty rest nc []). discriminate.
  Qed.

  Lemma or_items : forall gs, gs <> [] -> Forall canonical_goal gs ->
    Forall passes gs -> Forall andseq gs ->
    forall nc,
      and_loop group_and_tokens TTGroup (join_toks tok_semi (map (rawitem false) gs)) nc [] =
      Ok (Branch TTGroup (nc ++ join_toks tok_semi (map (fun x => [pitem false x]) gs))).
  Proof.
    induction gs as [|x gs IH]; intros Hne Hc Hp Ha nc; [congruence|].
    inversion Hc as [|? ? Hc1 Hc2]; inversion Hp as [|? ? Hp1 Hp2];
      inversion Ha as [|? ? Ha1 Ha2]; subst.
    destruct gs as [|y gs].
    - cbn [map join_toks].
      destruct (or_item x Hc1 Hp1 Ha1 TTGroup [] nc) as (al & Hf & E).
      rewrite app_nil_r in E. rewrite E. now apply and_loop_end.
    - rewrite !join_toks_map_cons.
      destruct (or_item x Hc1 Hp1 Ha1 TTGroup
                  ([tok_semi] ++ join_toks tok_semi (map (rawitem false) (y :: gs))) nc)
        as (al & Hf & E).
      rewrite E. cbn [app]. rewrite (and_loop_semi _ _ _ _ _ _ Hf).
      rewrite (IH ltac:(discriminate) Hc2 Hp2 Ha2). now rewrite <- !app_assoc.
  Qed.

  Lemma pitem_orsel ga x : canonical_goal x -> orsel (pitem ga x) = true.
  Proof.
    intros Hc. unfold pitem. destruct (needs_group ga x) eqn:En; [reflexivity|].
    destruct x as [[] gs| | |]; try reflexivity. discriminate.
  Qed.

  Lemma filter_or_items : forall gs, Forall canonical_goal gs ->
    filter orsel (join_toks tok_semi (map (fun x => [pitem false x]) gs)) = map (pitem false) gs.
  Proof.
    induction gs as [|x gs IH]; intros Hc; [reflexivity|].
    inversion Hc as [|? ? Hc1 Hc2]; subst.
    destruct gs as [|y gs].
    - cbn. now rewrite (pitem_orsel false x Hc1).
    - cbn [map]. rewrite join_toks_cons. cbn [app filter].
      rewrite (pitem_orsel false x Hc1). change (orsel tok_semi) with false. cbv iota.
      f_equal. now apply IH.
  Qed.

  Theorem passes_goal : forall g, canonical_goal g -> passes g /\ andseq g.
  Proof.
    induction g as [k gs IH| | |] using goal_ind'; intros Hc;
      pose proof (canonical_inv _ Hc) as Hi.
    2-4: (destruct (leaf_shapes _ Hi) as (tx & E1 & E2 & _ & E4); split;
          [ exists [Leaf TTSubgoal tx]; rewrite E1, E2; split; reflexivity
          | cbn [andseq]; intros ty rest nc al; rewrite E1, E4; reflexivity ]).
    destruct k.
    - (* And *)
      destruct Hi as [Hn Hf].
      assert (HP : Forall (fun x => needs_group true x = true -> passes x) gs).
      { rewrite Forall_forall in *. intros x Hx _. apply IH; auto. }
      assert (Hseq : andseq (GOp OAnd gs)).
      { cbn [andseq rawseq seqal]. intros ty rest nc al. now apply and_items. }
      split; [|exact Hseq].
      exists [Branch TTAnd (map (pitem true) gs)]. split.
      + rewrite group_and_tokens_branch.
        specialize (Hseq TTGroup [] [] []). rewrite app_nil_r in Hseq. rewrite Hseq.
        cbn [app].
        apply (and_loop_end group_and_tokens TTGroup [] _ (Branch TTAnd (map (pitem true) gs)));
          [reflexivity|].
        right. cbn [seqal]. rewrite map_length. split; [exact Hn|reflexivity].
      + reflexivity.
    - (* Or *)
      destruct Hi as [Hn Hf].
      assert (HQ : Forall passes gs /\ Forall andseq gs).
      { split; rewrite Forall_forall in *; intros x Hx; apply IH; auto. }
      destruct HQ as [HP HA].
      split; [|exact I].
      exists (join_toks tok_semi (map (fun x => [pitem false x]) gs)). split.
      + rewrite group_and_tokens_branch. cbn [rawseq].
        rewrite (or_items gs); auto. destruct gs; [simpl in Hn; lia|discriminate].
      + rewrite group_or_tokens_branch by reflexivity. rewrite filter_or_items by exact Hf.
        cbn [ptree]. fold (pitem false).
        destruct gs as [|a [|b gs]]; simpl in Hn; try lia. reflexivity.
    - (* time(...) *)
      destruct (leaf_shapes _ Hi) as (t & E1 & E2 & _ & E4). split.
      + exists [Leaf TTSubgoal t]. rewrite E1, E2. split; reflexivity.
      + cbn [andseq]. intros ty rest nc al. rewrite E1, E4. reflexivity.
    - (* not(...) *)
      destruct (leaf_shapes _ Hi) as (t & E1 & E2 & _ & E4). split.
      + exists [Leaf TTSubgoal t]. rewrite E1, E2. split; reflexivity.
      + cbn [andseq]. intros ty rest nc al. rewrite E1, E4. reflexivity.
  Qed.

  (* ---- token_tree_to_goal ---- *)

  Lemma tttg_group c : token_tree_to_goal ps (Branch TTGroup [c]) = token_tree_to_goal ps c.
  Proof. now rewrite tttg_branch. Qed.

  Lemma ops_loop_items (and_too : bool) (ga : bool) : forall gs acc,
    Forall canonical_goal gs ->
    Forall (fun x => token_tree_to_goal ps (ptree x) = Ok (POk x)) gs ->
    (ga = true -> and_too = false) -> (ga = false -> and_too = true) ->
    ops_loop ps (token_tree_to_goal ps) and_too (map (pitem ga) gs) acc = Ok (POk (acc ++ gs)).
  Proof.
    induction gs as [|x gs IH]; intros acc Hc Ht H1 H2; [cbn; now rewrite app_nil_r|].
    inversion Hc as [|? ? Hc1 Hc2]; inversion Ht as [|? ? Ht1 Ht2]; subst.
    cbn [map ops_loop].
    change (pitem ga x) with (if needs_group ga x then Branch TTGroup [ptree x] else ptree x).
    destruct (needs_group ga x) eqn:En.
    - cbn [get_type tt_eqb orb]. rewrite tttg_group, Ht1. cbn [bind].
      rewrite IH by assumption. now rewrite <- app_assoc.
    - destruct (not_group_leaf ga x Hc1 En) as [Hl|[-> (gs' & ->)]].
      + destruct (leaf_shapes x Hl) as (t & _ & Ep & Hps & _). rewrite Ep.
        cbn [get_type tt_eqb get_token_str bind]. rewrite Hps. cbn [bind].
        rewrite IH by assumption. now rewrite <- app_assoc.
      + pose proof (H2 eq_refl) as Ea. subst and_too. cbn [ptree get_type tt_eqb orb andb].
        change (Branch TTAnd (map (fun x => if needs_group true x then Branch TTGroup [ptree x] else ptree x) gs'))
          with (ptree (GOp OAnd gs')).
        rewrite Ht1. cbn [bind]. rewrite IH by assumption. now rewrite <- app_assoc.
  Qed.

  Theorem tttg_ptree : forall g, canonical_goal g -> token_tree_to_goal ps (ptree g) = Ok (POk g).
  Proof.
    induction g as [k gs IH| | |] using goal_ind'; intros Hc;
      pose proof (canonical_inv _ Hc) as Hi.
    2-4: (destruct (leaf_shapes _ Hi) as (tx & _ & -> & Hps & _); exact Hps).
    destruct k.
    - destruct Hi as [Hn Hf].
      assert (HT : Forall (fun x => token_tree_to_goal ps (ptree x) = Ok (POk x)) gs).
      { rewrite Forall_forall in *. intros x Hx. apply IH; auto. }
      cbn [ptree]. fold (pitem true). rewrite tttg_branch. cbn [tt_eqb].
      rewrite (ops_loop_items false true gs []); auto; discriminate.
    - destruct Hi as [Hn Hf].
      assert (HT : Forall (fun x => token_tree_to_goal ps (ptree x) = Ok (POk x)) gs).
      { rewrite Forall_forall in *. intros x Hx. apply IH; auto. }
      cbn [ptree]. fold (pitem false). rewrite tttg_branch. cbn [tt_eqb].
      rewrite (ops_loop_items true false gs []); auto; discriminate.
    - destruct (leaf_shapes _ Hi) as (tx & _ & -> & Hps & _). exact Hps.
    - destruct (leaf_shapes _ Hi) as (tx & _ & -> & Hps & _). exact Hps.
  Qed.

  (* ---- Display produces `text` ---- *)

  Lemma show_goal_operands (ga : bool) : forall gs,
    Forall (fun x => show_goal x = Ok (text x)) gs ->
    (fix go (l : list goal) : res (list str) :=
       match l with
       | [] => Ok []
       | op :: l' => do s <- show_goal op; do r <- go l'; Ok (operand_text ga op s :: r)
       end) gs = Ok (map (fun x => operand_text ga x (text x)) gs).
  Proof.
    induction gs as [|x gs IH]; intros H; [reflexivity|].
    inversion H as [|? ? H1 H2]; subst. rewrite H1. cbn [bind]. rewrite (IH H2). reflexivity.
  Qed.

  Theorem show_text : forall g, canonical_goal g -> show_goal g = Ok (text g).
  Proof.
    induction g as [k gs IH| | |] using goal_ind'; intros Hc;
      pose proof (canonical_inv _ Hc) as Hi.
    2-4: (destruct Hi as [_ (tx & Hs & _)]; cbn [text]; now rewrite (leaf_text_eq _ _ Hs)).
    destruct k.
    - destruct Hi as [Hn Hf].
      assert (HT : Forall (fun x => show_goal x = Ok (text x)) gs).
      { rewrite Forall_forall in *. intros x Hx. apply IH; auto. }
      cbn [show_goal text]. rewrite (show_goal_operands true gs HT). reflexivity.
    - destruct Hi as [Hn Hf].
      assert (HT : Forall (fun x => show_goal x = Ok (text x)) gs).
      { rewrite Forall_forall in *. intros x Hx. apply IH; auto. }
      cbn [show_goal text]. rewrite (show_goal_operands false gs HT). reflexivity.
    - destruct Hi as [_ (tx & Hs & _)]. cbn [text]. now rewrite (leaf_text_eq _ _ Hs).
    - destruct Hi as [_ (tx & Hs & _)]. cbn [text]. now rewrite (leaf_text_eq _ _ Hs).
  Qed.

  (* ---- the text has no outer white space; the pending slice is not empty ---- *)

  Definition tightfl (s : str) : Prop :=
    (exists c r, s = c :: r /\ tk_is_whitespace c = false) /\
    (exists r d, s = r ++ [d] /\ tk_is_whitespace d = false).

  Lemma trim_start_nonws c r : tk_is_whitespace c = false -> tk_trim_start (c :: r) = c :: r.
  Proof. simpl. now intros ->. Qed.

  Lemma tightfl_trim s : tightfl s -> tk_trim s = s.
  Proof.
    intros [(c & r & -> & Hc) (r' & d & E & Hd)]. unfold tk_trim.
    rewrite (trim_start_nonws c r Hc). rewrite E, rev_app_distr. cbn [rev app].
    rewrite (trim_start_nonws d (rev r') Hd). cbn [rev]. now rewrite rev_involutive.
  Qed.

  Lemma trim_tightfl s : tk_trim s = s -> s <> [] -> tightfl s.
  Proof.
    intros Ht Hne. split.
    - destruct s as [|c r]; [congruence|]. exists c, r. split; [reflexivity|].
      destruct (tk_is_whitespace c) eqn:E; [|reflexivity]. exfalso.
      assert (Hl : (length (tk_trim (c :: r)) < length (c :: r))%nat).
      { unfold tk_trim. rewrite rev_length.
        eapply Nat.le_lt_trans; [apply trim_start_length|]. rewrite rev_length.
        cbn [tk_trim_start]. rewrite E.
        eapply Nat.le_lt_trans; [apply trim_start_length|]. simpl. lia. }
      rewrite Ht in Hl. lia.
    - destruct (rev s) as [|d r'] eqn:Er.
      { apply (f_equal (@rev N)) in Er. rewrite rev_involutive in Er. simpl in Er. congruence. }
      assert (Es : s = rev r' ++ [d]).
      { apply (f_equal (@rev N)) in Er. rewrite rev_involutive in Er. exact Er. }
      exists (rev r'), d. split; [exact Es|].
      destruct (tk_is_whitespace d) eqn:E; [|reflexivity]. exfalso.
      assert (Hl : (length (tk_trim s) < length s)%nat).
      { unfold tk_trim. rewrite rev_length.
        assert (Hts : tk_trim_start s = s).
        { destruct s as [|c r]; [reflexivity|].
          destruct (tk_is_whitespace c) eqn:Ec; [|now apply trim_start_nonws].
          exfalso.
          assert (Hl : (length (tk_trim (c :: r)) < length (c :: r))%nat).
          { unfold tk_trim. rewrite rev_length.
            eapply Nat.le_lt_trans; [apply trim_start_length|]. rewrite rev_length.
            cbn [tk_trim_start]. rewrite Ec.
            eapply Nat.le_lt_trans; [apply trim_start_length|]. simpl. lia. }
          rewrite Ht in Hl. lia. }
        rewrite Hts, Er. cbn [tk_trim_start]. rewrite E.
        eapply Nat.le_lt_trans; [apply trim_start_length|].
        rewrite Es, app_length, rev_length. simpl. lia. }
      rewrite Ht in Hl. lia.
  Qed.

  Lemma tightfl_app a m b : tightfl a -> tightfl b -> tightfl (a ++ m ++ b).
  Proof.
    intros [(c & r & -> & Hc) _] [_ (r' & d & -> & Hd)]. split.
    - exists c, (r ++ m ++ r' ++ [d]). split; [reflexivity|exact Hc].
    - exists ((c :: r) ++ m ++ r'), d. split; [now rewrite <- !app_assoc|exact Hd].
  Qed.

  Lemma tightfl_paren s : tightfl ([ch_lparen] ++ s ++ [ch_rparen]).
  Proof.
    split.
    - exists ch_lparen, (s ++ [ch_rparen]). split; reflexivity.
    - exists ([ch_lparen] ++ s), ch_rparen. split; [now rewrite <- app_assoc|reflexivity].
  Qed.

  Lemma tightfl_format_list sep : forall l, l <> [] -> Forall tightfl l -> tightfl (format_list l sep).
  Proof.
    induction l as [|x l IH]; intros Hne HF; [congruence|].
    inversion HF as [|? ? H1 H2]; subst.
    destruct l as [|y l].
    - now rewrite format_list_one.
    - rewrite format_list_cons. apply tightfl_app; [exact H1|]. apply IH; [discriminate|exact H2].
  Qed.

  Lemma neutral_tightfl t : neutral t -> tightfl t.
  Proof.
    intros Hn. apply trim_tightfl; [|apply (neu_ne t Hn)].
    pose proof (neu_tok t Hn [] eq_refl) as H. cbn [app] in H.
    unfold make_leaf_token in H.
    repeat match type of H with
           | (if ?b then _ else _) = _ => destruct b
           end; inversion H; congruence.
  Qed.

  Lemma text_tightfl : forall g, canonical_goal g -> tightfl (text g).
  Proof.
    induction g as [k gs IH| | |] using goal_ind'; intros Hc;
      pose proof (canonical_inv _ Hc) as Hi.
    2-4: (destruct Hi as [_ (tx & Hs & Hn & _)]; cbn [text]; rewrite (leaf_text_eq _ _ Hs);
          now apply neutral_tightfl).
    assert (Hitems : forall ga, (2 <= length gs)%nat -> Forall canonical_goal gs ->
              tightfl (format_list (map (fun x => operand_text ga x (text x)) gs) (sep_str ga))).
    { intros ga Hn Hf. apply tightfl_format_list.
      - destruct gs; [simpl in Hn; lia|discriminate].
      - rewrite Forall_forall in *. intros s Hs. apply in_map_iff in Hs as (x & <- & Hx).
        unfold operand_text. destruct (needs_group ga x); [apply tightfl_paren|]. apply IH; auto. }
    destruct k.
    - destruct Hi as [Hn Hf]. exact (Hitems true Hn Hf).
    - destruct Hi as [Hn Hf]. exact (Hitems false Hn Hf).
    - destruct Hi as [_ (tx & Hs & Hn & _)]. cbn [text]. rewrite (leaf_text_eq _ _ Hs).
      now apply neutral_tightfl.
    - destruct Hi as [_ (tx & Hs & Hn & _)]. cbn [text]. rewrite (leaf_text_eq _ _ Hs).
      now apply neutral_tightfl.
  Qed.

  Lemma lastw_items_ne ga : forall gs, gs <> [] ->
    Forall (fun x => forall w0, lastw x w0 <> []) gs ->
    forall w0, lastw_items (fun x w => lastw x w) ga gs w0 <> [].
  Proof.
    induction gs as [|x gs IH]; intros Hne HF w0; [congruence|].
    inversion HF as [|? ? H1 H2]; subst.
    destruct gs as [|y gs].
    - cbn [lastw_items]. destruct (needs_group ga x); [|apply H1].
      intros E. apply app_eq_nil in E as [_ E]. discriminate.
    - rewrite lastw_items_cons. apply IH; [discriminate|exact H2].
  Qed.

  Lemma lastw_ne : forall g, canonical_goal g -> forall w0, lastw g w0 <> [].
  Proof.
    induction g as [k gs IH| | |] using goal_ind'; intros Hc w0;
      pose proof (canonical_inv _ Hc) as Hi.
    2-4: (destruct Hi as [_ (tx & Hs & Hn & _)]; cbn [lastw]; rewrite (leaf_text_eq _ _ Hs);
          intros E; apply app_eq_nil in E as [_ E]; now apply (neu_ne tx Hn)).
    destruct k.
    - destruct Hi as [Hn Hf]. cbn [lastw]. apply lastw_items_ne.
      + destruct gs; [simpl in Hn; lia|discriminate].
      + rewrite Forall_forall in *. intros x Hx. apply IH; auto.
    - destruct Hi as [Hn Hf]. cbn [lastw]. apply lastw_items_ne.
      + destruct gs; [simpl in Hn; lia|discriminate].
      + rewrite Forall_forall in *. intros x Hx. apply IH; auto.
    - destruct Hi as [_ (tx & Hs & Hn & _)]. cbn [lastw]. rewrite (leaf_text_eq _ _ Hs).
      intros E. apply app_eq_nil in E as [_ E]. now apply (neu_ne tx Hn).
    - destruct Hi as [_ (tx & Hs & Hn & _)]. cbn [lastw]. rewrite (leaf_text_eq _ _ Hs).
      intros E. apply app_eq_nil in E as [_ E]. now apply (neu_ne tx Hn).
  Qed.

  (* ---- the round trip for goals ---- *)

  Theorem tokenize_text g fuel :
    canonical_goal g -> (length (text g) < fuel)%nat ->
    tokenize fuel (text g) = Ok (POk (pre g [] ++ [make_leaf_token (lastw g [])])).
  Proof.
    intros Hc Hf. rewrite tokenize_stream. unfold stokenize.
    rewrite (tightfl_trim _ (text_tightfl g Hc)).
    destruct (text g) as [|c0 r] eqn:Et.
    { destruct (text_tightfl g Hc) as [(c & r & E & _) _]. rewrite Et in E. discriminate. }
    rewrite <- Et in Hf |- *.
    destruct (scan_goal g Hc [] ch_hash [] [] [] eq_refl (or_introl eq_refl)
                        (conj eq_refl eq_refl)) as (pf & Hr & _).
    rewrite app_nil_r in Hr. cbn [app] in Hr.
    rewrite (reach_sloop _ _ Hr eq_refl fuel Hf). cbn [bind s_stk s_w s_toks].
    destruct (lastw g []) as [|x w] eqn:El; [now apply lastw_ne in El|]. reflexivity.
  Qed.

  Theorem roundtrip_goal g fuel :
    canonical_goal g -> (2 * length (text g) + 3 <= fuel)%nat ->
    show_goal g = Ok (text g) /\ generate_goal ps fuel (text g) = Ok (POk g).
  Proof.
    intros Hc Hf. split; [now apply show_text|].
    unfold generate_goal.
    pose proof (tokenize_text g fuel Hc ltac:(lia)) as Ht. rewrite Ht. cbn [bind].
    assert (HL : (length (pre g [] ++ [make_leaf_token (lastw g [])]) <= 2 * length (text g) + 1)%nat).
    { rewrite tokenize_stream in Ht. now apply stokenize_length in Ht. }
    rewrite group_tokens_stream. unfold sgroup_tokens.
    assert (HG : GTS (pre g [] ++ [make_leaf_token (lastw g [])]) []
                     (Branch TTGroup (rawseq g), [])).
    { apply (groups_goal g Hc [] [] [] _ eq_refl). cbn [app]. apply GTS_nil. }
    rewrite (GTS_gts _ _ _ HG fuel ltac:(lia)). cbn [bind fst].
    destruct (passes_goal g Hc) as [(m & H1 & H2) _]. rewrite H1. cbn [bind]. rewrite H2. cbn [bind].
    rewrite tttg_group. now apply tttg_ptree.
  Qed.

  (* ---- rules ---- *)

  Variable pc : str -> res (presult term).

  (* no `:-` inside the text *)
  Fixpoint neckfree (s : str) : bool :=
    match s with
    | c :: ((d :: _) as r) => if (c =? ch_colon) && (d =? ch_hyphen) then false else neckfree r
    | _ => true
    end.

  Definition starts_hyphen (s : str) : bool :=
    match s with c :: _ => c =? ch_hyphen | [] => false end.

  Lemma neckfree_tail c s : neckfree (c :: s) = true ->
    neckfree s = true /\ ((c =? ch_colon) = true -> starts_hyphen s = false).
  Proof.
    destruct s as [|d s]; [now split|]. cbn [neckfree starts_hyphen].
    destruct (c =? ch_colon), (d =? ch_hyphen); cbn [andb]; intros H; split; auto; discriminate.
  Qed.

  Lemma ion_loop_none : forall s i b,
    neckfree s = true -> (b = true -> starts_hyphen s = false) -> ion_loop s i b = Ok None.
  Proof.
    induction s as [|c s IH]; intros i b Hn Hb; [reflexivity|].
    cbn [ion_loop]. destruct (neckfree_tail c s Hn) as [Hn' Hc].
    destruct ((c =? ch_hyphen) && b) eqn:E.
    - apply andb_true_iff in E as [E1 E2]. specialize (Hb E2). cbn in Hb. congruence.
    - apply IH; auto.
  Qed.

  Lemma ion_loop_skip rest : forall s i b,
    neckfree s = true -> (b = true -> starts_hyphen s = false) ->
    ion_loop (s ++ 32 :: rest) i b = ion_loop rest (i + length s + 1) false.
  Proof.
    induction s as [|c s IH]; intros i b Hn Hb.
    - cbn [app ion_loop length]. replace (i + 0 + 1)%nat with (S i) by lia. reflexivity.
    - cbn [app ion_loop length]. destruct (neckfree_tail c s Hn) as [Hn' Hc].
      destruct ((c =? ch_hyphen) && b) eqn:E.
      + apply andb_true_iff in E as [E1 E2]. specialize (Hb E2). cbn in Hb. congruence.
      + rewrite IH by auto. f_equal. lia.
  Qed.

  Definition neck : str := [32; ch_colon; ch_hyphen; 32].     (* " :- " *)

  Lemma index_of_neck_rule H B :
    neckfree H = true -> index_of_neck (H ++ neck ++ B) = Ok (Some (length H + 1)%nat).
  Proof.
    intros Hn. unfold index_of_neck, neck. cbn [app].
    rewrite ion_loop_skip by (auto; discriminate). cbn [ion_loop].
    change (ch_colon =? ch_hyphen) with false. cbn [andb].
    change (ch_colon =? ch_colon) with true. change (ch_hyphen =? ch_hyphen) with true. cbn [andb].
    replace (0 + length H + 1)%nat with (S (length H)) by lia. f_equal. f_equal. lia.
  Qed.

  Lemma generate_goal_trim fuel a b :
    tk_trim a = tk_trim b -> generate_goal ps fuel a = generate_goal ps fuel b.
  Proof. intros E. unfold generate_goal, tokenize. now rewrite E. Qed.

  Lemma trim_start_ws_app w0 t :
    forallb tk_is_whitespace w0 = true -> tk_trim_start (w0 ++ t) = tk_trim_start t.
  Proof.
    induction w0 as [|c w0 IH]; intros H; [reflexivity|].
    cbn in H. apply andb_true_iff in H as [H1 H2]. cbn [app tk_trim_start]. rewrite H1. auto.
  Qed.

  Lemma trim_ws_app w0 t : forallb tk_is_whitespace w0 = true -> tk_trim (w0 ++ t) = tk_trim t.
  Proof. intros H. unfold tk_trim. now rewrite trim_start_ws_app. Qed.

  Lemma canonical_not_nil g : canonical_goal g -> goal_eqb g GNil = false.
  Proof.
    intros Hc. pose proof (canonical_inv _ Hc) as Hi.
    destruct g as [k gs|f [ts|]|t|]; try reflexivity.
    destruct Hi as [Hl _]. discriminate.
  Qed.

  (* a canonical rule: the head is a term whose text `H` is accepted by parse_complex (for a
     fact) and, followed by a space, by parse_subgoal (for a rule); neither the head nor the
     body contains `:-`; the head text does not start with white space *)
  Record canonical_head (h : term) : Prop := mkHead {
    head_tight : exists c r, show_term h = c :: r /\ tk_is_whitespace c = false;
    head_neckfree : neckfree (show_term h) = true;
    head_fact : pc (show_term h) = Ok (POk h);
    head_rule : ps (show_term h ++ [32]) = Ok (POk (GCall h))
  }.

  Definition canonical_rule (r : rule) : Prop :=
    canonical_head (r_head r) /\
    (r_body r = GNil \/ (canonical_goal (r_body r) /\ neckfree (text (r_body r)) = true)).

  Definition rule_text (r : rule) : str :=
    if goal_eqb (r_body r) GNil then show_term (r_head r) ++ [ch_period]
    else show_term (r_head r) ++ neck ++ text (r_body r) ++ [ch_period].

  Lemma firstn_app_exact {A} (a b : list A) : firstn (length a) (a ++ b) = a.
  Proof. rewrite firstn_app, Nat.sub_diag, firstn_all. cbn. apply app_nil_r. Qed.

  Lemma skipn_app_exact {A} (a b : list A) : skipn (length a) (a ++ b) = b.
  Proof. rewrite skipn_app, Nat.sub_diag, skipn_all. reflexivity. Qed.

  Lemma strip_period X fuel :
    X <> [] ->
    (exists c r, X = c :: r /\ tk_is_whitespace c = false) ->
    parse_rule ps pc fuel (X ++ [ch_period]) =
    (do neck <- index_of_neck X;
     match neck with
     | Some index =>
         do head_chrs <- slice X 0 index;
         do body_chrs <- slice X (index + 2) (length X);
         do neck2 <- index_of_neck body_chrs;
         match neck2 with
         | Some _ => Ok PErr
         | None =>
             do sg <- ps head_chrs;
             match sg with
             | POk (GCall h) =>
                 do b <- generate_goal ps fuel body_chrs;
                 match b with
                 | POk body => Ok (POk (mkRule h body))
                 | PErr => Ok PErr
                 end
             | POk _ => Ok PErr
             | PErr => Ok PErr
             end
         end
     | None =>
         do f <- pc X;
         match f with
         | POk fact => Ok (POk (mkRule fact GNil))
         | PErr => Ok PErr
         end
     end).
  Proof.
    intros Hne (c & r & E & Hc). unfold parse_rule.
    assert (Ht : tk_trim (X ++ [ch_period]) = X ++ [ch_period]).
    { apply tightfl_trim. split.
      - exists c, (r ++ [ch_period]). split; [now rewrite E|exact Hc].
      - exists X, ch_period. split; reflexivity. }
    rewrite Ht. rewrite app_length. cbn [length].
    replace (length X + 1 =? 0)%nat with false by (symmetry; apply Nat.eqb_neq; lia).
    replace (length X + 1 - 1)%nat with (length X) by lia.
    rewrite nth_error_app2 by lia. rewrite Nat.sub_diag. cbn [nth_error].
    change (ch_period =? ch_period) with true. cbv iota.
    rewrite slice_ok by (rewrite ?app_length; cbn; lia).
    cbn [bind skipn]. rewrite Nat.sub_0_r, firstn_app_exact. reflexivity.
  Qed.

  Theorem roundtrip_rule r fuel :
    canonical_rule r -> (2 * length (rule_text r) + 3 <= fuel)%nat ->
    show_rule r = Ok (rule_text r) /\ parse_rule ps pc fuel (rule_text r) = Ok (POk r).
  Proof.
    intros [[Ht Hn Hfact Hrule] Hb] Hf. destruct r as [h b]. cbn [r_head r_body] in *.
    unfold show_rule, rule_text in *. cbn [r_head r_body] in *.
    assert (HXne : forall Y, show_term h ++ Y <> []).
    { destruct Ht as (c & r & -> & _). discriminate. }
    assert (HXt : forall Y, exists c r, show_term h ++ Y = c :: r /\ tk_is_whitespace c = false).
    { intros Y. destruct Ht as (c & r & -> & Hc). exists c, (r ++ Y). split; [reflexivity|exact Hc]. }
    destruct Hb as [-> | [Hc Hnb]].
    - (* a fact *)
      cbn [goal_eqb]. split; [reflexivity|].
      specialize (HXne []). specialize (HXt []). rewrite app_nil_r in HXne, HXt.
      rewrite strip_period by assumption.
      unfold index_of_neck. rewrite ion_loop_none by (auto; discriminate). cbn [bind].
      rewrite Hfact. reflexivity.
    - (* a rule *)
      rewrite (canonical_not_nil b Hc) in *.
      destruct (roundtrip_goal b fuel Hc) as [Hs Hg].
      { rewrite !app_length in Hf. cbn [length] in Hf. lia. }
      split; [rewrite Hs; reflexivity|].
      replace (show_term h ++ neck ++ text b ++ [ch_period])
        with ((show_term h ++ neck ++ text b) ++ [ch_period]) by now rewrite <- !app_assoc.
      rewrite strip_period by auto.
      rewrite index_of_neck_rule by exact Hn. cbn [bind].
      rewrite !slice_ok by (rewrite ?app_length; cbn [length neck]; lia). cbn [bind skipn].
      rewrite Nat.sub_0_r.
      (* the head: H followed by one space *)
      replace (firstn (length (show_term h) + 1) (show_term h ++ neck ++ text b))
        with (show_term h ++ [32]).
      2:{ unfold neck. replace (show_term h ++ [32; ch_colon; ch_hyphen; 32] ++ text b)
            with ((show_term h ++ [32]) ++ [ch_colon; ch_hyphen; 32] ++ text b)
            by now rewrite <- app_assoc.
          replace (length (show_term h) + 1)%nat with (length (show_term h ++ [32]))
            by (rewrite app_length; reflexivity).
          now rewrite firstn_app_exact. }
      (* the body: one space and the text of the body *)
      replace (firstn (length (show_term h ++ neck ++ text b) - (length (show_term h) + 1 + 2))
                      (skipn (length (show_term h) + 1 + 2) (show_term h ++ neck ++ text b)))
        with (32 :: text b).
      2:{ unfold neck.
          set (P := show_term h ++ [32; ch_colon; ch_hyphen]). set (Q := 32 :: text b).
          replace (show_term h ++ [32; ch_colon; ch_hyphen; 32] ++ text b) with (P ++ Q)
            by (unfold P, Q; now rewrite <- app_assoc).
          replace (length (show_term h) + 1 + 2)%nat with (length P)
            by (unfold P; rewrite app_length; cbn [length]; lia).
          rewrite skipn_app_exact, app_length.
          replace (length P + length Q - length P)%nat with (length Q) by lia.
          now rewrite firstn_all. }
      unfold index_of_neck. cbn [ion_loop].
      change (32 =? ch_hyphen) with false. cbn [andb]. change (32 =? ch_colon) with false.
      rewrite ion_loop_none by (auto; discriminate). cbn [bind].
      rewrite Hrule. cbn [bind].
      rewrite (generate_goal_trim fuel (32 :: text b) (text b)).
      2:{ change (32 :: text b) with ([32] ++ text b). now apply trim_ws_app. }
      rewrite Hg. reflexivity.
  Qed.
End Roundtrip.

(* ---------------------------------------------------------------------------------- *)
(* A decidable sufficient condition for `neutral`: a scan of the text alone, with the
   parentheses / brackets it opens itself on a local stack.  The text is accepted when every
   quote is closed inside the text, every `(` follows a letter, digit, `_` or `-` (so that
   it opens a complex term, not a group), parentheses and brackets are matched, and no
   unescaped comma, semicolon, double quote, `#` or `@` occurs outside them. *)

Fixpoint lscan (fuel : nat) (t : str) (p : N) (loc : list token_type) : option N :=
  match fuel with
  | O => None
  | S f =>
      match t with
      | [] => match loc with [] => Some p | _ => None end
      | c :: r =>
          if no_esc c ch_quote p then
            match quote_loop r 0 ch_hash c with
            | (Some k, ch') => lscan f (skipn (S k) r) ch' loc
            | (None, _) => None
            end
          else if no_esc c ch_lparen p then
            if letter_number_hyphen p then lscan f r c (TTComplex :: loc) else None
          else if no_esc c ch_rparen p then
            match loc with TTComplex :: loc' => lscan f r c loc' | _ => None end
          else if no_esc c ch_lbracket p then lscan f r c (TTLinkedList :: loc)
          else if no_esc c ch_rbracket p then
            match loc with TTLinkedList :: loc' => lscan f r c loc' | _ => None end
          else
            match loc with
            | [] => if invalid_between_terms c || no_esc c ch_comma p || no_esc c ch_semicolon p
                    then None else lscan f r c []
            | _ => lscan f r c loc
            end
      end
  end.

Lemma quote_loop_prefix rest : forall r j p c k ch',
  quote_loop r j p c = (Some k, ch') -> quote_loop (r ++ rest) j p c = (Some k, ch').
Proof.
  induction r as [|x r IH]; intros j p c k ch' H; simpl in *; [discriminate|].
  destruct (no_esc x ch_quote p); [exact H|]. now apply IH.
Qed.

Definition local_ok (loc : list token_type) : Prop :=
  Forall (fun ty => ty = TTComplex \/ ty = TTLinkedList) loc.

Lemma lscan_sound : forall fuel t p loc pf,
  lscan fuel t p loc = Some pf -> local_ok loc ->
  forall rest w stk toks, ground stk ->
    reach (mkS (t ++ rest) w p (loc ++ stk) toks) (mkS rest (w ++ t) pf stk toks).
Proof.
  induction fuel as [|fuel IH]; intros t p loc pf H Hloc rest w stk toks Hg; [discriminate|].
  destruct t as [|c r]; cbn [lscan] in H.
  { destruct loc; [|discriminate]. inversion H; subst. rewrite app_nil_r. apply reach_refl. }
  assert (Hw : forall x, (w ++ [c]) ++ x = w ++ c :: x) by (intros; now rewrite <- app_assoc).
  destruct (no_esc c ch_quote p) eqn:Eq.
  { destruct (quote_loop r 0 ch_hash c) as [[k|] ch'] eqn:Ek; [|discriminate].
    pose proof (quote_loop_bound _ _ _ _ _ Ek) as Hk.
    eapply reach_step.
    - unfold sstep_cfg, sstep; cbn [s_rest s_w s_prev s_stk s_toks app].
      rewrite Eq, (quote_loop_prefix rest _ _ _ _ _ _ Ek). reflexivity.
    - rewrite skipn_app, firstn_app.
      replace (S k - length r)%nat with 0%nat by lia. cbn [skipn firstn]. rewrite app_nil_r.
      specialize (IH _ _ _ _ H Hloc rest (w ++ c :: firstn (S k) r) stk toks Hg).
      rewrite <- app_assoc in IH. cbn [app] in IH. rewrite firstn_skipn in IH. exact IH. }
  destruct (no_esc c ch_lparen p) eqn:El.
  { destruct (letter_number_hyphen p) eqn:Eh; [|discriminate].
    eapply reach_step.
    - unfold sstep_cfg, sstep; cbn [s_rest s_w s_prev s_stk s_toks app]. rewrite Eq, El, Eh. reflexivity.
    - specialize (IH _ _ _ _ H ltac:(constructor; auto) rest (w ++ [c]) stk toks Hg).
      rewrite Hw in IH. exact IH. }
  destruct (no_esc c ch_rparen p) eqn:Er.
  { destruct loc as [|[] loc']; try discriminate. inversion Hloc; subst.
    eapply reach_step.
    - unfold sstep_cfg, sstep; cbn [s_rest s_w s_prev s_stk s_toks app peek pop tt_eqb negb].
      rewrite Eq, El, Er. reflexivity.
    - specialize (IH _ _ _ _ H ltac:(assumption) rest (w ++ [c]) stk toks Hg).
      rewrite Hw in IH. exact IH. }
  destruct (no_esc c ch_lbracket p) eqn:Elb.
  { eapply reach_step.
    - unfold sstep_cfg, sstep; cbn [s_rest s_w s_prev s_stk s_toks app]. rewrite Eq, El, Er, Elb. reflexivity.
    - specialize (IH _ _ _ _ H ltac:(constructor; auto) rest (w ++ [c]) stk toks Hg).
      rewrite Hw in IH. exact IH. }
  destruct (no_esc c ch_rbracket p) eqn:Erb.
  { destruct loc as [|[] loc']; try discriminate. inversion Hloc; subst.
    eapply reach_step.
    - unfold sstep_cfg, sstep; cbn [s_rest s_w s_prev s_stk s_toks app peek pop tt_eqb negb].
      rewrite Eq, El, Er, Elb, Erb. reflexivity.
    - specialize (IH _ _ _ _ H ltac:(assumption) rest (w ++ [c]) stk toks Hg).
      rewrite Hw in IH. exact IH. }
  destruct loc as [|ty loc'].
  - destruct (invalid_between_terms c || no_esc c ch_comma p || no_esc c ch_semicolon p) eqn:Ei;
      [discriminate|].
    apply orb_false_iff in Ei as [Ei Es]. apply orb_false_iff in Ei as [Ei Ec].
    destruct Hg as [G1 G2].
    eapply reach_step.
    + unfold sstep_cfg, sstep; cbn [s_rest s_w s_prev s_stk s_toks app].
      rewrite Eq, El, Er, Elb, Erb, G1, G2, Ei, Ec, Es. reflexivity.
    + specialize (IH _ _ _ _ H Hloc rest (w ++ [c]) stk toks (conj G1 G2)).
      rewrite Hw in IH. exact IH.
  - assert (Hty : negb (tt_eqb ty TTComplex) && negb (tt_eqb ty TTLinkedList) = false).
    { inversion Hloc as [|? ? [->| ->] _]; reflexivity. }
    eapply reach_step.
    + unfold sstep_cfg, sstep; cbn [s_rest s_w s_prev s_stk s_toks app peek].
      rewrite Eq, El, Er, Elb, Erb, Hty. reflexivity.
    + specialize (IH _ _ _ _ H Hloc rest (w ++ [c]) stk toks Hg).
      rewrite Hw in IH. exact IH.
Qed.

Definition neutralb (t : str) : bool :=
  match t with
  | [] => false
  | _ =>
      str_eqb (tk_trim t) t &&
      negb (str_eqb t [ch_comma]) && negb (str_eqb t [ch_semicolon]) &&
      negb (str_eqb t [ch_lparen]) && negb (str_eqb t [ch_rparen]) &&
      forallb (fun p0 => match lscan (S (length t)) t p0 [] with
                         | Some pf => negb (pf =? ch_backslash)
                         | None => false
                         end) [ch_hash; 32; ch_lparen]
  end.

Theorem neutralb_sound t : neutralb t = true -> neutral t.
Proof.
  unfold neutralb. destruct t as [|c0 t0] eqn:Et; [discriminate|]. rewrite <- Et. intros H.
  repeat (apply andb_true_iff in H as [H ?]).
  repeat match goal with Hx : negb _ = true |- _ => apply negb_true_iff in Hx end.
  apply str_eqb_eq in H.
  constructor.
  - rewrite Et. discriminate.
  - intros w0 Hw. unfold make_leaf_token. rewrite (trim_ws_app w0 t Hw), H.
    repeat match goal with Hx : str_eqb t _ = false |- _ => rewrite Hx; clear Hx end. reflexivity.
  - intros p0 rest w stk toks Hp Hg.
    match goal with Hx : forallb _ _ = true |- _ => rename Hx into Hall end.
    cbn [forallb] in Hall. rewrite andb_true_r in Hall.
    apply andb_true_iff in Hall as [Ha1 Hall]. apply andb_true_iff in Hall as [Ha2 Ha3].
    assert (Hone : match lscan (S (length t)) t p0 [] with
                   | Some pf => negb (pf =? ch_backslash) | None => false end = true).
    { destruct Hp as [->|[->| ->]]; assumption. }
    destruct (lscan (S (length t)) t p0 []) as [pf|] eqn:El; [|discriminate].
    exists pf. split; [|now apply negb_true_iff].
    apply (lscan_sound _ _ _ [] _ El (Forall_nil _) rest w stk toks Hg).
Qed.
