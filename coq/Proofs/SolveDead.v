(* C05: an exhausted node stays exhausted.  `dead nd`: the state in which a node is left by
   a request that found no answer; a dead node answers every later request with None,
   changes nothing in the world (no output, no variable ids, no read of the stop flag) and
   stays dead. *)
From Coq Require Import Lia.
From Suiron Require Import Model.Term Model.Subst Model.Show Model.Lists Model.Arith Model.Unify
  Model.Compare Model.Builtins Model.Rename Model.Solve.
Open Scope N_scope.

Definition dead_opt (dead : node -> Prop) (o : option node) : Prop :=
  match o with Some x => dead x | None => True end.

Fixpoint dead (nd : node) : Prop :=
  match nd with
  | NBip _ _ _ nobt more => nobt = true \/ more = false
  | NCall _ _ nobt child idx n =>
      nobt = true \/ (n <= idx /\ match child with Some c => dead c | None => True end)
  | NOp k _ nobt more head tail optail =>
      nobt = true \/
      match k with
      | ONot | OTime => more = false
      | OAnd => match head with Some h => dead h | None => True end /\
                match tail with Some t => dead t | None => True end
      | OOr => match tail with
               | Some t => dead t
               | None => match head with
                         | None => True
                         | Some h => dead h /\ match optail with None => True | Some tl => tl = [] end
                         end
               end
      end
  end.

Lemma dead_nobt nd : node_nobt nd = true -> dead nd.
Proof. destruct nd as [t ss b c i n|k ss b m h t o|f ts ss b m]; simpl; intro H; left; exact H. Qed.

Lemma dead_set_nobt nd : dead (set_nobt nd).
Proof. destruct nd; simpl; left; reflexivity. Qed.

Lemma dead_flag (c : bool) nd : dead nd -> dead (if c then set_nobt nd else nd).
Proof. destruct c; [intros _; apply dead_set_nobt|auto]. Qed.

Lemma dead_flag_opt (c : bool) o :
  match o with Some h => dead h | None => True end ->
  match (if c then set_nobt_opt o else o) with Some h => dead h | None => True end.
Proof. destruct c, o; simpl; auto using dead_set_nobt. Qed.

Tactic Notation "dbind" hyp(H) "as" ident(n) ident(o) ident(b) ident(w) ident(E) :=
  match type of H with
  | bind ?e _ = Ok _ => destruct e as [[[[n o] b] w]| |] eqn:E; cbn [bind] in H; try discriminate
  end.
Tactic Notation "dbind2" hyp(H) "as" ident(x) ident(y) ident(E) :=
  match type of H with
  | bind ?e _ = Ok _ => destruct e as [[x y]| |] eqn:E; cbn [bind] in H; try discriminate
  end.
Tactic Notation "dbind1" hyp(H) "as" ident(x) ident(E) :=
  match type of H with
  | bind ?e _ = Ok _ => destruct e as [x| |] eqn:E; cbn [bind] in H; try discriminate
  end.

Section Dead.
  Variable kb : kbase.
  Variable bf : nat.

  (* ---- a request that finds no answer leaves the node dead ---- *)
  Definition none_dead_next (fuel : nat) : Prop :=
    forall nd w nd' c w', next kb bf fuel nd w = Ok (nd', None, c, w') -> dead nd'.
  Definition none_dead_and (fuel : nat) : Prop :=
    forall ss nobt more head tail optail acc w nd' c w',
      and_loop kb bf fuel ss nobt more head tail optail acc w = Ok (nd', None, c, w') ->
      match tail with Some t => dead t | None => True end -> dead nd'.
  Definition none_dead_call (fuel : nat) : Prop :=
    forall t ss nobt child idx n w nd' c w',
      call_loop kb bf fuel t ss nobt child idx n w = Ok (nd', None, c, w') ->
      match child with Some c0 => dead c0 | None => True end -> dead nd'.

  Lemma none_dead_all : forall fuel, none_dead_next fuel /\ none_dead_and fuel /\ none_dead_call fuel.
  Proof.
    induction fuel as [|f [IHn [IHa IHc]]].
    { split; [|split]; red; intros; match goal with H : _ = Ok _ |- _ => discriminate H end. }
    split; [|split].
    - (* next *)
      intros nd w nd' c w' H. rewrite next_S in H. unfold next_body in H.
      destruct (node_nobt nd) eqn:Enb.
      { inversion H; subst. now apply dead_nobt. }
      destruct nd as [t ss nobt child idx n|k ss nobt more head tail optail|fn ts ss nobt more].
      + (* call *)
        destruct child as [c0|].
        * dbind H as n1 o1 b1 w1 E1. destruct o1 as [s|]; [discriminate|].
          eapply IHc; [exact H|exact I].
        * eapply IHc; [exact H|exact I].
      + destruct k.
        * (* and *)
          destruct tail as [t0|].
          -- dbind H as n1 o1 b1 w1 E1. destruct o1 as [s|]; [discriminate|].
             eapply IHa; [exact H|]. eapply IHn; eauto.
          -- eapply IHa; [exact H|exact I].
        * (* or *)
          destruct tail as [t0|].
          -- dbind H as n1 o1 b1 w1 E1. inversion H; subst. simpl. right. eapply IHn; eauto.
          -- destruct head as [h|]; [|inversion H; subst; simpl; right; exact I].
             dbind H as n1 o1 b1 w1 E1. destruct o1 as [s|]; [discriminate|].
             assert (dead n1) as Hd by (eapply IHn; eauto).
             destruct optail as [tl|].
             ++ destruct (length tl =? 0)%nat eqn:El.
                { inversion H; subst. simpl. right. split; [now apply dead_flag|].
                  apply Nat.eqb_eq in El. destruct tl; [reflexivity|discriminate]. }
                destruct (nobt || b1) eqn:Ecut.
                { inversion H; subst. simpl. left. reflexivity. }
                dbind2 H as t1 w2 E2. dbind H as n3 o3 b3 w3 E3. inversion H; subst. simpl. right. eapply IHn; eauto.
             ++ inversion H; subst. simpl. right. split; [now apply dead_flag|exact I].
        * (* time *)
          destruct more; simpl in H.
          -- destruct head as [h|]; [|discriminate]. dbind H as n1 o1 b1 w1 E1. inversion H; subst. simpl. now right.
          -- inversion H; subst. simpl. now right.
        * (* not *)
          destruct more; simpl in H.
          -- destruct head as [h|]; [|discriminate]. dbind H as n1 o1 b1 w1 E1. inversion H; subst. simpl. now right.
          -- inversion H; subst. simpl. now right.
      + (* built-in *)
        destruct more; simpl in H.
        * dbind1 H as r1 E1. inversion H; subst. simpl. now right.
        * inversion H; subst. simpl. now right.
    - (* and_loop *)
      intros ss nobt more head tail optail acc w nd' c w' H Ht. rewrite and_loop_S in H. unfold and_body in H.
      destruct head as [h|].
      + dbind H as n1 o1 b1 w1 E1. destruct o1 as [s|].
        * destruct optail as [tl|]; [|discriminate].
          destruct (length tl =? 0)%nat; [discriminate|].
          dbind2 H as t1 w2 E2. dbind H as n3 o3 b3 w3 E3. destruct o3 as [s2|]; [discriminate|].
          eapply IHa; [exact H|]. eapply IHn; eauto.
        * inversion H; subst. simpl. right. split; [|exact Ht].
          apply dead_flag. eapply IHn; eauto.
      + inversion H; subst. simpl. right. split; [exact I|exact Ht].
    - (* call_loop *)
      intros t ss nobt child idx n w nd' c w' H Hc. rewrite call_loop_S in H. unfold call_body in H.
      destruct nobt.
      { inversion H; subst. simpl. now left. }
      destruct (N.leb_spec n idx) as [Hle|Hlt].
      { inversion H; subst. simpl. right. split; [exact Hle|exact Hc]. }
      dbind1 H as key Ek. dbind2 H as r0 ctr Eg. dbind1 H as u Eu.
      destruct u as [s|].
      + destruct (is_gnil (r_body r0)); [discriminate|].
        dbind2 H as c0 w2 E2. dbind H as n3 o3 b3 w3 E3. destruct o3 as [s2|]; [discriminate|].
        eapply IHc; [exact H|]. eapply IHn; eauto.
      + eapply IHc; [exact H|exact Hc].
  Qed.

  (* ---- a dead node answers None, silently, and stays dead ---- *)
  Definition dead_stays_next (fuel : nat) : Prop :=
    forall nd w nd' r c w', dead nd -> next kb bf fuel nd w = Ok (nd', r, c, w') ->
      r = None /\ c = false /\ w' = w /\ dead nd'.
  Definition dead_stays_and (fuel : nat) : Prop :=
    forall ss nobt more head tail optail acc w nd' r c w',
      match head with Some h => dead h | None => True end ->
      match tail with Some t => dead t | None => True end ->
      and_loop kb bf fuel ss nobt more head tail optail acc w = Ok (nd', r, c, w') ->
      r = None /\ c = acc /\ w' = w /\ dead nd'.
  Definition dead_stays_call (fuel : nat) : Prop :=
    forall t ss nobt child idx n w nd' r c w',
      (nobt = true \/ n <= idx) -> match child with Some c0 => dead c0 | None => True end ->
      call_loop kb bf fuel t ss nobt child idx n w = Ok (nd', r, c, w') ->
      r = None /\ c = false /\ w' = w /\ dead nd'.

  Lemma dead_stays_all : forall fuel, dead_stays_next fuel /\ dead_stays_and fuel /\ dead_stays_call fuel.
  Proof.
    induction fuel as [|f [IHn [IHa IHc]]].
    { split; [|split]; red; intros; match goal with H : _ = Ok _ |- _ => discriminate H end. }
    split; [|split].
    - intros nd w nd' r c w' Hd H. rewrite next_S in H. unfold next_body in H.
      destruct (node_nobt nd) eqn:Enb.
      { inversion H; subst. auto. }
      destruct nd as [t ss nobt child idx n|k ss nobt more head tail optail|fn ts ss nobt more];
        simpl in Enb; subst; simpl in Hd; destruct Hd as [Hd|Hd]; try discriminate.
      + (* call: n <= idx, child dead *)
        destruct Hd as [Hle Hch]. destruct child as [c0|].
        * dbind H as n1 o1 b1 w1 E1. destruct (IHn _ _ _ _ _ _ Hch E1) as (-> & -> & -> & Hd1).
          cbn [orb] in H; try rewrite orb_false_r in H. exact (IHc t ss false None idx n _ _ _ _ _ (or_intror Hle) I H).
        * exact (IHc t ss false None idx n _ _ _ _ _ (or_intror Hle) I H).
      + destruct k.
        * destruct Hd as [Hh Ht]. destruct tail as [t0|].
          -- dbind H as n1 o1 b1 w1 E1. destruct (IHn _ _ _ _ _ _ Ht E1) as (-> & -> & -> & Hd1).
             cbn [orb] in H; try rewrite orb_false_r in H.
             destruct (IHa ss false more head (Some n1) optail false w _ _ _ _ Hh Hd1 H) as (-> & -> & -> & Hd2). auto.
          -- destruct (IHa ss false more head None optail false w _ _ _ _ Hh I H) as (-> & -> & -> & Hd2). auto.
        * destruct tail as [t0|].
          -- dbind H as n1 o1 b1 w1 E1. destruct (IHn _ _ _ _ _ _ Hd E1) as (-> & -> & -> & Hd1).
             inversion H; subst. simpl. auto.
          -- destruct head as [h|]; [|inversion H; subst; simpl; auto].
             destruct Hd as [Hh Ho]. dbind H as n1 o1 b1 w1 E1.
             destruct (IHn _ _ _ _ _ _ Hh E1) as (-> & -> & -> & Hd1).
             destruct optail as [tl|]; [subst tl; simpl in H|]; inversion H; subst; simpl; auto 6.
        * subst more. simpl in H. inversion H; subst. simpl. auto.
        * subst more. simpl in H. inversion H; subst. simpl. auto.
      + subst more. simpl in H. inversion H; subst. simpl. auto.
    - intros ss nobt more head tail optail acc w nd' r c w' Hh Ht H. rewrite and_loop_S in H. unfold and_body in H.
      destruct head as [h|].
      + dbind H as n1 o1 b1 w1 E1. destruct (IHn _ _ _ _ _ _ Hh E1) as (-> & -> & -> & Hd1).
        inversion H; subst. cbn [orb]; try rewrite !orb_false_r. simpl. auto 6.
      + inversion H; subst. simpl. auto 6.
    - intros t ss nobt child idx n w nd' r c w' Hx Hc H. rewrite call_loop_S in H. unfold call_body in H.
      destruct nobt.
      { inversion H; subst. simpl. auto. }
      destruct Hx as [Hx|Hx]; [discriminate|].
      destruct (N.leb_spec n idx) as [Hle|Hlt]; [|lia].
      inversion H; subst. simpl. auto 6.
  Qed.
End Dead.

Theorem none_then_dead kb bf fuel nd w nd' c w' :
  next kb bf fuel nd w = Ok (nd', None, c, w') -> dead nd'.
Proof. apply (proj1 (none_dead_all kb bf fuel)). Qed.

Theorem dead_stays kb bf fuel nd w nd' r c w' :
  dead nd -> next kb bf fuel nd w = Ok (nd', r, c, w') -> r = None /\ c = false /\ w' = w /\ dead nd'.
Proof. apply (proj1 (dead_stays_all kb bf fuel)). Qed.

(* any number of further requests *)
Fixpoint ask_again (kb : kbase) (bf fuel : nat) (m : nat) (nd : node) (w : world)
  : res (list (option subst) * node * world) :=
  match m with
  | O => Ok ([], nd, w)
  | S m' =>
      do x <- next kb bf fuel nd w;
      let '(nd', r, _, w') := x in
      do y <- ask_again kb bf fuel m' nd' w';
      let '(rs, nd'', w'') := y in
      Ok (r :: rs, nd'', w'')
  end.

Theorem exhausted_stays_exhausted kb bf fuel nd w nd' c w' :
  next kb bf fuel nd w = Ok (nd', None, c, w') ->
  forall m fuel2 w2 rs nd2 w3,
    ask_again kb bf fuel2 m nd' w2 = Ok (rs, nd2, w3) ->
    Forall (fun r => r = None) rs /\ w3 = w2.
Proof.
  intro H. apply none_then_dead in H. revert H.
  generalize nd'. clear. intros nd Hd m. revert nd Hd.
  induction m as [|m IH]; intros nd Hd fuel2 w2 rs nd2 w3 Ha; simpl in Ha.
  - inversion Ha; subst. split; [constructor|reflexivity].
  - destruct (next kb bf fuel2 nd w2) as [[[[n1 r1] c1] w1]| |] eqn:E; simpl in Ha; try discriminate.
    destruct (dead_stays _ _ _ _ _ _ _ _ _ Hd E) as (-> & -> & -> & Hd1).
    destruct (ask_again kb bf fuel2 m n1 w2) as [[[rs' nd'] w']| |] eqn:E2; simpl in Ha; try discriminate.
    inversion Ha; subst. destruct (IH _ Hd1 _ _ _ _ _ E2) as [Hf ->]. split; [constructor; auto|reflexivity].
Qed.

(* the drivers: once a query is exhausted, solve keeps answering "No more." (or reports a
   timeout when the stop flag is raised) and writes nothing *)
Theorem solve_after_exhaustion kb fuel nd w nd' txt w' :
  dead nd -> solve fuel kb nd w = Ok (nd', txt, w') ->
  (txt = no_more \/ txt = timeout_msg) /\ out w' = out w /\ dead nd'.
Proof.
  intros Hd H. unfold solve in H.
  destruct (next kb fuel fuel nd (w_set_flag w false)) as [[[[n1 r1] c1] w1]| |] eqn:E; simpl in H; try discriminate.
  destruct (dead_stays _ _ _ _ _ _ _ _ _ Hd E) as (-> & -> & -> & Hd1).
  unfold query_stopped in H. simpl in H.
  destruct (stop_after w) as [[|p]|]; inversion H; subst; simpl; auto.
Qed.
