(* C11, second half (3/4): the comparison predicates (Model/Compare.v) and every built-in predicate
   (Model/Builtins.v) respect "equal up to names": related arguments and substitution sets give
   related solutions, the same cut flag and the same outcome class (value / panic / out of fuel).
   What print and print_list WRITE is not related: they show the names of unbound variables. *)
From Coq Require Import Lia.
From Suiron Require Import Model.Term Model.Subst Model.Show Model.Lists Model.Arith Model.Unify
  Model.Compare Model.Builtins Proofs.NamesRel Proofs.NamesUnify.
Open Scope N_scope.

Definition anyrel {A B} : A -> B -> Prop := fun _ _ => True.

Lemma Forall2_app' {A B} (R : A -> B -> Prop) l1 l1' l2 l2' :
  Forall2 R l1 l1' -> Forall2 R l2 l2' -> Forall2 R (l1 ++ l2) (l1' ++ l2').
Proof. induction 1; cbn; auto. Qed.

Lemma Forall2_removelast {A B} (R : A -> B -> Prop) l l' :
  Forall2 R l l' -> Forall2 R (removelast l) (removelast l').
Proof.
  induction 1 as [|x y l l' Hxy Hl IH]; cbn [removelast]; [constructor|].
  destruct Hl; [constructor|]. constructor; [exact Hxy|exact IH].
Qed.

Lemma Forall2_last {A B} (R : A -> B -> Prop) l l' d d' :
  Forall2 R l l' -> R d d' -> R (last l d) (last l' d').
Proof.
  induction 1 as [|x y l l' Hxy Hl IH]; intro Hd; cbn [last]; [exact Hd|].
  destruct Hl; [exact Hxy|]. apply IH, Hd.
Qed.

Lemma split_pct_s_nonempty : forall s acc, split_pct_s acc s <> [].
Proof.
  induction s as [|c r IH]; intro acc; [discriminate|].
  cbn [split_pct_s].
  destruct c as [|p]; [apply IH|].
  do 6 (destruct p as [p|p|]; try apply IH).
  destruct r as [|d r']; [apply IH|].
  destruct d as [|q]; [apply IH|].
  do 7 (destruct q as [q|q|]; try apply IH).
  discriminate.
Qed.

Section Bips.
  Variable V : vrel.
  Hypothesis Vfun : vfun V.
  Notation sim := (sim V).
  Notation sims := (sims V).
  Notation urel := (urel V).

  Definition simo (ts ts' : option (list term)) : Prop := orel (Forall2 sim) ts ts'.

  (* ---- Model/Compare.v ---- *)
  Lemma get_constant_is_constant fuel t s c : get_constant fuel t s = Ok (Some c) -> is_constant c = true.
  Proof.
    destruct t; cbn [get_constant]; intro H; try discriminate; try (inversion H; reflexivity).
    destruct (get_ground_term fuel (TVar id name) s) as [[g|]| |]; cbn in H; try discriminate.
    destruct (is_constant g) eqn:E; inversion H; subst; exact E.
  Qed.

  Lemma get_constant_eq fuel t t' s s' : sim t t' -> sims s s' ->
    rrel eq (get_constant fuel t s) (get_constant fuel t' s').
  Proof.
    intros Ht Hs. pose proof (get_constant_sim V fuel _ _ _ _ Ht Hs) as H.
    destruct (get_constant fuel t s) as [[c|]| |] eqn:E, (get_constant fuel t' s') as [[c'|]| |];
      cbn in *; try contradiction; auto.
    f_equal. symmetry. eapply sim_constant_eq; [exact H|]. eapply get_constant_is_constant, E.
  Qed.

  Lemma get_two_constants_eq fuel l l' s s' : Forall2 sim l l' -> sims s s' ->
    rrel eq (get_two_constants fuel l s) (get_two_constants fuel l' s').
  Proof.
    intros Hl Hs. destruct Hl as [|x x' l l' Hx Hl]; cbn [get_two_constants]; [exact I|].
    rbind; [apply get_constant_eq; eassumption|]. intros a b <-. destruct a as [a|]; [|reflexivity].
    destruct Hl as [|y y' l l' Hy Hl]; [exact I|].
    rbind; [apply get_constant_eq; eassumption|]. intros c d <-. reflexivity.
  Qed.

  Lemma bip_compare_sim fuel op ts ts' s s' : simo ts ts' -> sims s s' ->
    urel (bip_compare fuel op ts s) (bip_compare fuel op ts' s').
  Proof.
    intros Ht Hs. destruct ts as [ts|], ts' as [ts'|]; cbn in Ht; try contradiction; [|exact I].
    cbn [bip_compare]. rbind; [apply get_two_constants_eq; eassumption|].
    intros a b <-. cbn. destruct a as [[l r]|]; [|exact I].
    destruct (compare_constants op l r); [exact Hs|exact I].
  Qed.

  (* ---- replace_variables ---- *)
  Lemma replace_variables_sim : forall fuel t t' s s', sim t t' -> sims s s' ->
    rrel sim (replace_variables fuel t s) (replace_variables fuel t' s').
  Proof.
    induction fuel as [|f IH]; intros t t' s s' Ht Hs; [exact I|].
    destruct Ht as [| |x|x|z|id x y Hv|ts ts' HF|h h' n n' c tv Hh Hn|name args args' Hj HF];
      cbn [replace_variables]; try (cbn; now constructor).
    - pose proof (ss_get_sim _ _ _ id Hs) as Hg.
      destruct (ss_get s id), (ss_get s' id); cbn in Hg; try contradiction.
      + apply IH; eassumption.
      + cbn. now constructor.
    - rbind; [|intros l l' Hl; cbn; constructor; exact Hl].
      induction HF as [|a b ts ts' Hab HF IHF]; [cbn; constructor|].
      rbind; [apply IH; eassumption|]. intros a1 b1 H1.
      rbind; [exact IHF|]. intros r r' Hr. cbn. now constructor.
    - rbind; [apply IH; eassumption|]. intros a1 b1 H1.
      rbind; [apply IH; eassumption|]. intros a2 b2 H2. cbn. now constructor.
  Qed.

  (* ---- filter ---- *)
  Lemma filter_terms_sim fuel pat pat' incl : forall l l' s s', sim pat pat' -> Forall2 sim l l' ->
    sims s s' -> rrel (Forall2 sim) (filter_terms fuel pat incl l s) (filter_terms fuel pat' incl l' s').
  Proof.
    intros l l' s s' Hp Hl Hs. induction Hl as [|x y l l' Hxy Hl IH]; cbn [filter_terms]; [cbn; constructor|].
    rbind; [apply (unify_sim V Vfun); eassumption|]. intros u u' Hu.
    rbind; [exact IH|]. intros r r' Hr. cbn.
    destruct u, u'; cbn in Hu; try contradiction; destruct (Bool.eqb _ incl); try exact Hr; now constructor.
  Qed.

  Lemma filter_sim fuel pat pat' l l' s s' incl : sim pat pat' -> sim l l' -> sims s s' ->
    rrel (orel sim) (filter fuel pat l s incl) (filter fuel pat' l' s' incl).
  Proof.
    intros Hp Hl Hs. unfold filter. rbind; [apply (get_ground_term_sim V); eassumption|].
    intros g g' Hg. destruct g as [g|], g' as [g'|]; cbn in Hg; try contradiction; [|exact I].
    destruct Hg; try exact I.
    rbind; [apply walk_sim; eassumption|]. intros e e' He.
    rbind; [apply filter_terms_sim; eassumption|]. intros k k' Hk. cbn.
    apply make_list_of_terms_sim, Hk.
  Qed.

  Lemma bip_filter_sim fuel incl ts ts' s s' : simo ts ts' -> sims s s' ->
    urel (bip_filter fuel incl ts s) (bip_filter fuel incl ts' s').
  Proof.
    intros Ht Hs. destruct ts as [ts|], ts' as [ts'|]; cbn in Ht; try contradiction; [|exact I].
    destruct Ht as [|a a' ? ? Ha Ht]; [exact I|].
    destruct Ht as [|b b' ? ? Hb Ht]; [exact I|].
    destruct Ht as [|c c' ? ? Hc Ht]; [exact I|].
    destruct Ht; [|exact I]. cbn [bip_filter].
    rbind; [apply filter_sim; eassumption|]. intros g g' Hg.
    destruct g as [g|], g' as [g'|]; cbn in Hg; try contradiction; [|exact I].
    apply (unify_sim V Vfun); eassumption.
  Qed.

  (* ---- append ---- *)
  Lemma resolve_var_sim fuel t t' s s' : sim t t' -> sims s s' ->
    rrel sim
      (match t with
       | TVar _ _ => do g <- get_ground_term fuel t s; Ok (match g with Some n => n | None => t end)
       | _ => Ok t
       end)
      (match t' with
       | TVar _ _ => do g <- get_ground_term fuel t' s'; Ok (match g with Some n => n | None => t' end)
       | _ => Ok t'
       end).
  Proof.
    intros Ht Hs. destruct Ht; try (cbn; now constructor).
    rbind; [apply (get_ground_term_sim V); [now constructor|eassumption]|].
    intros g g' Hg. destruct g, g'; cbn in Hg; try contradiction; cbn; [exact Hg|now constructor].
  Qed.

  Lemma append_collect_sim fuel : forall l l' s s', Forall2 sim l l' -> sims s s' ->
    rrel (Forall2 sim) (append_collect fuel l s) (append_collect fuel l' s').
  Proof.
    intros l l' s s' Hl Hs. induction Hl as [|x y l l' Hxy Hl IH]; cbn [append_collect]; [cbn; constructor|].
    rbind; [apply resolve_var_sim; eassumption|]. intros t t' Ht.
    rbind; [|intros h h' Hh; rbind; [exact IH|]; intros m m' Hm; cbn; apply Forall2_app'; eassumption].
    destruct Ht; try (cbn; constructor; [now constructor|constructor]).
    - cbn. constructor.
    - apply (get_terms_sim V); [now constructor|eassumption].
  Qed.

  Lemma bip_append_sim fuel ts ts' s s' : simo ts ts' -> sims s s' ->
    urel (bip_append fuel ts s) (bip_append fuel ts' s').
  Proof.
    intros Ht Hs. destruct ts as [ts|], ts' as [ts'|]; cbn in Ht; try contradiction; [|exact I].
    cbn [bip_append]. rewrite <- (Forall2_length' _ _ _ Ht). destruct (length ts <? 2)%nat; [exact I|].
    rbind; [apply append_collect_sim; [apply Forall2_removelast; exact Ht|eassumption]|].
    intros o o' Ho. apply (unify_sim V Vfun); try eassumption.
    - apply Forall2_last; [exact Ht|constructor].
    - apply make_list_of_terms_sim; eassumption.
  Qed.

  (* ---- count ---- *)
  Lemma bip_count_sim fuel ts ts' s s' : simo ts ts' -> sims s s' ->
    urel (bip_count fuel ts s) (bip_count fuel ts' s').
  Proof.
    intros Ht Hs. destruct ts as [ts|], ts' as [ts'|]; cbn in Ht; try contradiction; [|exact I].
    destruct Ht as [|a a' ? ? Ha Ht]; [exact I|].
    destruct Ht as [|b b' ? ? Hb Ht]; [exact I|].
    destruct Ht; [|exact I]. cbn [bip_count].
    rbind; [apply (count_terms_sim V); eassumption|]. intros c c' <-.
    apply (unify_sim V Vfun); try eassumption. constructor.
  Qed.

  (* ---- functor ---- *)
  Lemma atoms_match_sim f f' ms : sim f f' -> atoms_match f ms = atoms_match f' ms.
  Proof. destruct 1; reflexivity. Qed.

  Lemma resolve_each_sim fuel : forall l l' s s', Forall2 sim l l' -> sims s s' ->
    rrel (Forall2 sim) (resolve_each fuel l s) (resolve_each fuel l' s').
  Proof.
    intros l l' s s' Hl Hs. induction Hl as [|x y l l' Hxy Hl IH]; cbn [resolve_each]; [cbn; constructor|].
    rbind; [apply resolve_var_sim; eassumption|]. intros t t' Ht.
    rbind; [exact IH|]. intros r r' Hr. cbn. now constructor.
  Qed.

  Lemma functor_first_sim fuel o1 o1' fn fn' s s' : sim o1 o1' -> sim fn fn' -> sims s s' ->
    urel
      (match o1 with
       | TAtom ms => do m <- atoms_match fn ms; Ok (if m then Some s else None)
       | TVar _ _ => unify fuel o1 fn s
       | _ => Ok None
       end)
      (match o1' with
       | TAtom ms => do m <- atoms_match fn' ms; Ok (if m then Some s' else None)
       | TVar _ _ => unify fuel o1' fn' s'
       | _ => Ok None
       end).
  Proof.
    intros Ho Hf Hs. destruct Ho; try exact I.
    - rewrite <- (atoms_match_sim _ _ s0 Hf). destruct (atoms_match fn s0) as [m| |]; cbn; auto.
      destruct m; [exact Hs|exact I].
    - apply (unify_sim V Vfun); try eassumption. now constructor.
  Qed.

  Lemma bip_functor_sim fuel ts ts' s s' : simo ts ts' -> sims s s' ->
    urel (bip_functor fuel ts s) (bip_functor fuel ts' s').
  Proof.
    intros Ht Hs. destruct ts as [ts|], ts' as [ts'|]; cbn in Ht; try contradiction; [|exact I].
    cbn [bip_functor]. rewrite <- (Forall2_length' _ _ _ Ht).
    destruct ((length ts <? 2)%nat || (3 <? length ts)%nat); [exact I|].
    rbind; [apply resolve_each_sim; eassumption|]. intros o o' Ho.
    destruct Ho as [|c c' o o' Hc Ho]; [exact I|].
    destruct Hc as [| |x|x|z|id x y Hv|cs cs' HF|? ? ? ? ? ? ? ?|? ? ? ? ?]; try exact I.
    destruct Ho as [|o1 o1' o o' H1 Ho]; [exact I|].
    destruct HF as [|fn fn' cs cs' Hfn HF]; [exact I|].
    rewrite <- (Forall2_length' _ _ _ HF).
    destruct Ho as [|o2 o2' o o' H2 Ho].
    - apply functor_first_sim; eassumption.
    - rbind; [apply functor_first_sim; eassumption|]. intros u u' Hu.
      destruct u, u'; cbn in Hu; try contradiction; [|exact I].
      apply (unify_sim V Vfun); try eassumption. constructor.
  Qed.

  (* ---- print, print_list: only the outcome class ---- *)
  Lemma show_resolved_sim fuel : forall l l' s s', Forall2 sim l l' -> sims s s' ->
    rrel (fun a b => length a = length b) (show_resolved fuel l s) (show_resolved fuel l' s').
  Proof.
    intros l l' s s' Hl Hs. induction Hl as [|x y l l' Hxy Hl IH]; cbn [show_resolved]; [reflexivity|].
    rbind; [apply (get_ground_term_sim V); eassumption|]. intros g g' _.
    rbind; [exact IH|]. intros r r' Hr. cbn. now rewrite Hr.
  Qed.

  Lemma format_for_print_pred_class (a b : list str) : length a = length b ->
    rrel (@anyrel str str) (format_for_print_pred a) (format_for_print_pred b).
  Proof.
    intro H. destruct a as [|x a], b as [|y b]; try discriminate; [exact I|].
    cbn [format_for_print_pred].
    destruct (split_pct_s [] x) eqn:E1; [now apply split_pct_s_nonempty in E1|].
    destruct (split_pct_s [] y) eqn:E2; [now apply split_pct_s_nonempty in E2|]. exact I.
  Qed.

  Lemma bip_print_sim fuel ts ts' s s' : simo ts ts' -> sims s s' ->
    rrel (@anyrel str str) (bip_print fuel ts s) (bip_print fuel ts' s').
  Proof.
    intros Ht Hs. destruct ts as [ts|], ts' as [ts'|]; cbn in Ht; try contradiction; [|exact I].
    cbn [bip_print]. rbind; [apply show_resolved_sim; eassumption|].
    intros a b Hab. apply format_for_print_pred_class, Hab.
  Qed.

  Lemma fs_loop_sim : forall fuel t t' l l' s s', sim t t' -> sim l l' -> sims s s' ->
    rrel (@anyrel str str) (fs_loop fuel t l s) (fs_loop fuel t' l' s').
  Proof.
    induction fuel as [|f IH]; intros t t' l l' s s' Ht Hl Hs; cbn [fs_loop];
      rewrite <- (sim_is_nil _ _ _ Ht); (destruct (is_nil t); [exact I|]); [exact I|].
    destruct Hl as [| |x|x|z|id x y Hv|cs cs' HF|h h' n n' c tv Hh Hn|? ? ? ? ?]; try exact I.
    eapply rrel_bind with (R := fun p p' => sim (fst p) (fst p') /\ sim (snd p) (snd p')).
    - assert (forall a a' b b', sim a a' -> sim b b' ->
        rrel (fun p p' : term * term => sim (fst p) (fst p') /\ sim (snd p) (snd p')) (Ok (a, b)) (Ok (a', b'))) as Hok
        by (intros; cbn; split; assumption).
      destruct Hn as [| |x|x|z|id x y Hv|cs cs' HF|h1 h1' n1 n1' c1 tv1 Hh1 Hn1|? ? ? ? ?];
        try (apply Hok; [eassumption|now constructor]).
      rewrite <- (sim_is_anon _ _ _ Hh1). destruct (tv1 && negb (is_anon h1)).
      + rbind; [apply (get_list_sim V); eassumption|]. intros g g' Hg.
        destruct g as [g|], g' as [g'|]; cbn in Hg; try contradiction.
        * destruct Hg; apply Hok; try eassumption; now constructor.
        * apply Hok; [eassumption|now constructor].
      + apply Hok; [eassumption|now constructor].
    - intros [a b] [a' b'] [Ha Hb]. cbn [fst snd] in *.
      rewrite <- (sim_is_nil _ _ _ Ha). destruct (is_nil a); [exact I|].
      rbind; [apply (get_ground_term_sim V); eassumption|]. intros g g' _.
      rbind; [apply IH; eassumption|]. intros r r' _. exact I.
  Qed.

  Lemma format_slist_sim fuel l l' s s' : sim l l' -> sims s s' ->
    rrel (@anyrel str str) (format_slist fuel l s) (format_slist fuel l' s').
  Proof.
    intros Hl Hs. destruct Hl as [| |x|x|z|id x y Hv|cs cs' HF|h h' n n' c tv Hh Hn|? ? ? ? ?]; try exact I.
    cbn [format_slist].
    eapply rrel_bind with (R := @anyrel str str).
    - rewrite <- (sim_is_nil _ _ _ Hh). destruct (is_nil h); [exact I|].
      rbind; [apply (get_ground_term_sim V); eassumption|]. intros g g' _. exact I.
    - intros a b _. rbind; [apply fs_loop_sim; try eassumption; now constructor|]. intros r r' _. exact I.
  Qed.

  Lemma print_list_terms_sim fuel : forall l l' first s s', Forall2 sim l l' -> sims s s' ->
    rrel (@anyrel str str) (print_list_terms fuel first l s) (print_list_terms fuel first l' s').
  Proof.
    intros l l' first s s' Hl Hs. revert first.
    induction Hl as [|x y l l' Hxy Hl IH]; intro first; cbn [print_list_terms]; [exact I|].
    rbind; [apply resolve_var_sim; eassumption|]. intros t t' Ht.
    eapply rrel_bind with (R := @anyrel str str).
    - destruct Ht; try exact I.
      rbind; [apply format_slist_sim; [now constructor|eassumption]|]. intros o1 o2 _. exact I.
    - intros a b _. rbind; [apply IH|]. intros r r' _. exact I.
  Qed.

  Lemma bip_print_list_sim fuel ts ts' s s' : simo ts ts' -> sims s s' ->
    rrel (@anyrel str str) (bip_print_list fuel ts s) (bip_print_list fuel ts' s').
  Proof.
    intros Ht Hs. destruct ts as [ts|], ts' as [ts'|]; cbn in Ht; try contradiction; [|exact I].
    apply print_list_terms_sim; eassumption.
  Qed.

  (* ---- the dispatch ---- *)
  Definition bip_rel (r r' : bip_result) : Prop :=
    orel sims (br_sol r) (br_sol r') /\ br_cut r = br_cut r'.

  Lemma pure_bip_sim x y : urel x y -> rrel bip_rel (pure_bip x) (pure_bip y).
  Proof.
    intro H. unfold pure_bip. rbind; [exact H|]. intros a b Hab. cbn. split; [exact Hab|reflexivity].
  Qed.

  Theorem run_bip_sim fuel fn ts ts' s s' : simo ts ts' -> sims s s' ->
    rrel bip_rel (run_bip fuel fn ts s) (run_bip fuel fn ts' s').
  Proof.
    intros Ht Hs. unfold run_bip.
    destruct (str_eqb fn n_print).
    { rbind; [apply bip_print_sim; eassumption|]. intros a b _. cbn. split; [exact Hs|reflexivity]. }
    destruct (str_eqb fn n_append); [apply pure_bip_sim, bip_append_sim; eassumption|].
    destruct (str_eqb fn n_functor); [apply pure_bip_sim, bip_functor_sim; eassumption|].
    destruct (str_eqb fn n_include); [apply pure_bip_sim, bip_filter_sim; eassumption|].
    destruct (str_eqb fn n_exclude); [apply pure_bip_sim, bip_filter_sim; eassumption|].
    destruct (str_eqb fn n_print_list).
    { rbind; [apply bip_print_list_sim; eassumption|]. intros a b _. cbn. split; [exact Hs|reflexivity]. }
    destruct (str_eqb fn n_unify).
    { destruct ts as [ts|], ts' as [ts'|]; cbn in Ht; try contradiction; [|cbn; split; [exact I|reflexivity]].
      destruct Ht as [|a a' ? ? Ha Ht]; [exact I|].
      destruct Ht as [|b b' ? ? Hb Ht]; [exact I|].
      apply pure_bip_sim, unify_sim; eassumption. }
    destruct (str_eqb fn n_equal); [apply pure_bip_sim, bip_compare_sim; eassumption|].
    destruct (str_eqb fn n_less_than); [apply pure_bip_sim, bip_compare_sim; eassumption|].
    destruct (str_eqb fn n_less_than_or_equal); [apply pure_bip_sim, bip_compare_sim; eassumption|].
    destruct (str_eqb fn n_greater_than); [apply pure_bip_sim, bip_compare_sim; eassumption|].
    destruct (str_eqb fn n_greater_than_or_equal); [apply pure_bip_sim, bip_compare_sim; eassumption|].
    destruct (str_eqb fn n_nl); [cbn; split; [exact Hs|reflexivity]|].
    destruct (str_eqb fn n_cut); [cbn; split; [exact Hs|reflexivity]|].
    destruct (str_eqb fn n_count); [apply pure_bip_sim, bip_count_sim; eassumption|].
    destruct (str_eqb fn n_fail); [cbn; split; [exact I|reflexivity]|].
    exact I.
  Qed.
End Bips.
