(* C08 - Variable bindings never form a cycle. *)
From Suiron Require Import Model.Term Model.Subst Model.Unify Spec.SpecCompare
  Proofs.UnifyInv Proofs.UnifyProps.

(* `chains_end ss`: following bindings from ANY term ends, at an unbound variable or at a
   non-variable term (Spec.SpecCompare.chain is the "follow the bindings" relation). *)

(* One successful unification keeps that true ... *)
Theorem C08_unify_keeps_chains_ending : forall fuel a b ss ss',
  wf_term a = true -> wf_term b = true -> wf_ss ss ->
  unify fuel a b ss = Ok (Some ss') -> chains_end ss -> chains_end ss'.
Proof. exact unify_chains_end. Qed.

(* ... so it is true after every sequence of successful unifications from the empty set,
   of any length, over any terms. *)
Theorem C08_no_cycle_after_any_sequence : forall fuel pairs ss',
  wf_pairs pairs -> unify_seq fuel pairs [] = Ok (Some ss') -> chains_end ss'.
Proof.
  intros fuel pairs ss' Hw H.
  destruct (unify_seq_invariants fuel pairs [] ss' Hw wf_ss_nil H) as (_ & _ & Hc & _).
  apply Hc, chains_end_nil.
Qed.

(* Unifying two variables that are already aliased (both chains end at the same unbound
   variable), in either order, succeeds and adds no binding. *)
Theorem C08_aliased_noop : forall ss a b v,
  ends_at ss v a -> ends_at ss v b ->
  exists f0, forall f, (f0 <= f)%nat -> unify f a b ss = Ok (Some ss).
Proof. exact unify_aliased_noop. Qed.

(* non-vacuity: after $X = $Y the two are aliased, and $Y = $X returns the same set *)
Example C08_witness :
  let ss := [None; Some (TVar 2 [89%N]); None] in
  ends_at ss 2 (TVar 1 [88%N]) /\ ends_at ss 2 (TVar 2 [89%N]) /\
  unify 5 (TVar 2 [89%N]) (TVar 1 [88%N]) ss = Ok (Some ss) /\
  unify 5 (TVar 1 [88%N]) (TVar 2 [89%N]) ss = Ok (Some ss).
Proof.
  simpl. repeat split.
  - eapply ends_step; [discriminate|reflexivity|]. apply ends_here; [discriminate|reflexivity].
  - apply ends_here; [discriminate|reflexivity].
Qed.

Check C08_no_cycle_after_any_sequence : forall fuel pairs ss',
  wf_pairs pairs -> unify_seq fuel pairs [] = Ok (Some ss') -> chains_end ss'.

Print Assumptions C08_unify_keeps_chains_ending.
Print Assumptions C08_no_cycle_after_any_sequence.
Print Assumptions C08_aliased_noop.
