(* C21 closed, with a condition on the layout that is checked by eye.

   `breaks_at_separators L texts`: every piece of every rule but the last ends with one of the
   separators of the canonical text -  `,`  `;`  `=`  or the neck `:-`  (a `-` counts only directly
   after a `:`).  In the text Display prints for a closed rule each of these is followed by exactly
   one space and then by a character that is not white space (proved from the grammar of the
   texts, Proofs/LoadLayout.v `closed_rule_arun`): so the line break replaces that space, the
   continuation line may be indented at will, and the reader's single space at the break
   restores the text.  A break after the sign of a negative number is not of this kind.

   `legal L texts` (Spec/SpecLoad.v) is kept for what it says about the decoration of the lines:
   indentation and trailing characters are white space, a comment starts with `#`, `%` or `//`
   and stands, like blank and comment lines, only where the text so far is outside parentheses
   and brackets.  Its clause about the line breaks (after a continuation character) follows
   from breaks_at_separators.  The semantic hypothesis `expected ... = texts` of C21_closed_load
   is gone. *)
From Coq Require Import String.
From Suiron Require Import Model.Tokenizer Model.ParseRule Proofs.TokenizerProofs Proofs.GoalRoundtrip.
From Suiron Require Import Model.ParseTerm Model.ParseGoal Model.Show Model.ShowGoal Model.Api.
From Suiron Require Import Proofs.TermRoundtrip Proofs.TermRoundtripMain Proofs.GoalLeafParse
  Proofs.RuleRoundtripClosed Proofs.RuleRoundtripCheck Proofs.LoadClosed Proofs.LoadLayout.
From Suiron Require Import Model.Reader Spec.SpecLoad Proofs.ReaderProofs.
Open Scope N_scope.
Open Scope string_scope.

Theorem C21_closed_load_layout : forall rs L kb,
  Forall closed_rule rs ->
  legal L (map rule_text rs) = true ->
  breaks_at_separators L (map rule_text rs) = true ->
  load_kb_from_file api_parse_rule kb (render L (map rule_text rs)) =
  (do kb' <- add_rules kb rs; Ok (kb', true)).
Proof. exact load_closed_layout. Qed.

(* the property of the texts behind it: read by the automaton `arun` (state 1 = a separator has
   just been read, a space must follow; state 2 = then a character that is not white space), the
   text of a closed rule is accepted *)
Theorem C21_closed_separators : forall r, closed_rule r ->
  arun (0%nat, ch_x) (rule_text r) = Some (0%nat, ch_period) /\
  rd_is_ws (hd 0 (rule_text r)) = false /\ last (rule_text r) 0 = ch_period.
Proof. exact closed_rule_arun. Qed.

(* such a layout is one of the exact layouts of C21 *)
Theorem C21_breaks_exact : forall rs L,
  Forall closed_rule rs -> breaks_at_separators L (map rule_text rs) = true ->
  exact_layout (lay_rules L) (map rule_text rs) = true.
Proof. intros rs L. apply breaks_exact. Qed.

Corollary C21_closed_load_layout_checked : forall rs L,
  forallb closed_ruleb rs = true ->
  legal L (map rule_text rs) = true ->
  breaks_at_separators L (map rule_text rs) = true ->
  load_kb_from_file api_parse_rule [] (render L (map rule_text rs)) =
  (do kb <- add_rules [] rs; Ok (kb, true)).
Proof.
  intros rs L H. apply C21_closed_load_layout.
  apply Forall_forall. intros r Hr. apply closed_ruleb_sound.
  rewrite forallb_forall in H. now apply H.
Qed.

(* ---- non-vacuity: the knowledge base of C21_closed_witness, through the new theorem; the second
   rule is broken after the neck and after a comma between goals, the third after the `;`, the
   first after a comma inside the list ---- *)
Section Witness.
  Let A s := TAtom (s2l s).
  Let V s := TVar 0 (s2l s).
  Let r1 := mkRule (TComplex [A "member"; V "$X"; make_linked_list true [V "$X"; TAnon]]) GNil.
  Let r2 := mkRule (TComplex [A "run"])
     (GOp OAnd [GCall (TComplex [A "init"]);
                GOp ONot [GCall (TComplex [A "member"; A "a"; make_list_of_terms [A "b"; TInt (-3)]])];
                GBip (s2l "!") None;
                GBip (s2l "unify") (Some [V "$Y"; TInt (-5)])]).
  Let r3 := mkRule (TComplex [A "p"; V "$X"])
     (GOp OOr [GCall (TComplex [A "q"; V "$X"]); GBip (s2l "fail") None]).
  Let rs := [r1; r2; r3].

  Let d0 := mkDeco [] [] [] [].
  Let L := mkLayout
    [ (mkDeco [mkBlank [] (s2l "% a small knowledge base")] [] [] [], [(10%nat, mkDeco [] (s2l "       ") [] [])]);
      (mkDeco [mkBlank [] []] [] (s2l " ") (s2l "# entry point"),
         [(8%nat, mkDeco [] (s2l "    ") [] []);
          (36%nat, mkDeco [mkBlank (s2l "  ") (s2l "% then commit")] (s2l "    ") [] []);
          (5%nat, mkDeco [] (s2l "        ") [] [])]);
      (d0, [(15%nat, mkDeco [] (s2l "  ") [] [])]) ]
    [mkBlank [] (s2l "// end")].

  Example C21_layout_witness :
    render L (map rule_text rs) =
      [ s2l "% a small knowledge base";
        s2l "member($X,";
        s2l "        [$X | $_]).";
        [];
        s2l "run() :- # entry point";
        s2l "     init(), not(member(a, [b, -3])), !,";
        s2l "  % then commit";
        s2l "     $Y =";
        s2l "         -5.";
        s2l "p($X) :- q($X);";
        s2l "   fail.";
        s2l "// end" ] /\
    breaks_at_separators L (map rule_text rs) = true /\
    load_kb_from_file api_parse_rule [] (render L (map rule_text rs)) =
      Ok ([ (s2l "member/2", [r1]); (s2l "run/0", [r2]); (s2l "p/1", [r3]) ], true).
  Proof.
    split; [vm_compute; reflexivity|]. split; [vm_compute; reflexivity|].
    rewrite C21_closed_load_layout_checked by (vm_compute; reflexivity). vm_compute. reflexivity.
  Qed.
End Witness.

(* ---- the break after the sign of a negative number is legal for the reader but is not a break
   at a separator (and it changes the rule: break_after_minus_sign_changes_the_rule in
   Properties/C21.v) ---- *)
Example break_after_minus_sign_is_not_at_a_separator :
  let t := s2l "p(-5)." in
  let L := mkLayout [ (mkDeco [] [] [] [], [(3%nat, mkDeco [] [] [] [])]) ] [] in
  legal L [t] = true /\ breaks_at_separators L [t] = false.
Proof. vm_compute. split; reflexivity. Qed.

Check C21_closed_load_layout : forall rs L kb,
  Forall closed_rule rs ->
  legal L (map rule_text rs) = true ->
  breaks_at_separators L (map rule_text rs) = true ->
  load_kb_from_file api_parse_rule kb (render L (map rule_text rs)) =
  (do kb' <- add_rules kb rs; Ok (kb', true)).

Print Assumptions C21_closed_load_layout.
Print Assumptions C21_closed_separators.
