(* C05 - An exhausted query stays exhausted. *)
From Suiron Require Import Model.Term Model.Subst Model.Rename Model.Solve Proofs.SolveDead.

(* `dead nd` (Proofs/SolveDead.v) describes the states in which a solution node can be left by
   a request that found no answer - for every kind of node: calls, conjunctions,
   disjunctions, not, time, built-ins, with or without cut flags. *)

(* A request that reports "no answer" leaves the node dead ... *)
Theorem C05_none_then_dead : forall kb bf fuel nd w nd' c w',
  next kb bf fuel nd w = Ok (nd', None, c, w') -> dead nd'.
Proof. exact none_then_dead. Qed.

(* ... and a dead node answers every request with None, leaves the whole world as it was
   (no output, no variable id consumed, no read of the stop flag) and stays dead. *)
Theorem C05_dead_stays : forall kb bf fuel nd w nd' r c w',
  dead nd -> next kb bf fuel nd w = Ok (nd', r, c, w') -> r = None /\ c = false /\ w' = w /\ dead nd'.
Proof. exact dead_stays. Qed.

(* Hence: after the first "no more answers", any number of further requests, with any fuel,
   from any world, all report none and change nothing. *)
Theorem C05_exhausted_stays_exhausted : forall kb bf fuel nd w nd' c w',
  next kb bf fuel nd w = Ok (nd', None, c, w') ->
  forall m fuel2 w2 rs nd2 w3,
    ask_again kb bf fuel2 m nd' w2 = Ok (rs, nd2, w3) ->
    Forall (fun r => r = None) rs /\ w3 = w2.
Proof. exact exhausted_stays_exhausted. Qed.

(* The same through solve: "No more." (or the timeout message), and nothing is written. *)
Theorem C05_solve_after_exhaustion : forall kb fuel nd w nd' txt w',
  dead nd -> solve fuel kb nd w = Ok (nd', txt, w') ->
  (txt = no_more \/ txt = timeout_msg) /\ out w' = out w /\ dead nd'.
Proof. exact solve_after_exhaustion. Qed.

(* non-vacuity: q(0) :- not(a(1)).  a(1).   |- q($X): the first request already finds no
   answer, and so do two more (the defect repaired by commit 488366f answered q(0) to the second) *)
Definition C05_demo : bool :=
  let a1 := TComplex [TAtom [97%N]; TInt 1] in
  let kb := [([113; 47; 49]%N, [mkRule (TComplex [TAtom [113%N]; TInt 0]) (GOp ONot [GCall a1])]);
             ([97; 47; 49]%N, [mkRule a1 GNil])] in
  match make_base_node kb (GCall (TComplex [TAtom [113%N]; TVar 1 [36; 88]%N])) (mkWorld 1 false None []) with
  | Ok (nd, w) =>
      match next kb 20 20 nd w with
      | Ok (nd1, None, false, w1) =>
          match ask_again kb 20 20 2 nd1 w1 with
          | Ok ([None; None], _, _) => true
          | _ => false
          end
      | _ => false
      end
  | _ => false
  end.
Example C05_witness : C05_demo = true.
Proof. vm_compute. reflexivity. Qed.

Check C05_exhausted_stays_exhausted : forall kb bf fuel nd w nd' c w',
  next kb bf fuel nd w = Ok (nd', None, c, w') ->
  forall m fuel2 w2 rs nd2 w3,
    ask_again kb bf fuel2 m nd' w2 = Ok (rs, nd2, w3) ->
    Forall (fun r => r = None) rs /\ w3 = w2.

Print Assumptions C05_none_then_dead.
Print Assumptions C05_dead_stays.
Print Assumptions C05_exhausted_stays_exhausted.
Print Assumptions C05_solve_after_exhaustion.
