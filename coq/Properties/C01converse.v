(* C01-C04, the converse direction of the refinement theorem (Proofs/RefineCut.v, refines_cut):
   the hypothesis there that the reference search of Spec/SpecCut.v FINISHES is not needed - it
   follows from the engine finishing.

   PROVED (Proofs/RefineCutConverse.v), for every knowledge base, query, world and fuels: if asking
   the query's node until it reports no answer finishes with R', then
     - the reference search finishes for some fuel with exactly R' (answers in order, final
       world), or it REFUSES the program (Panic)                          (C01_converse);
     - it refuses only programs with a cut directly inside not(..) / time(..): if no clause body
       contains one (`kbokb`, decidable) the reference search finishes with R'  (C01_converse_ok).
   The engine itself accepts such programs (witness below: it gives 4 answers where the reference
   refuses - by design: cut inside not/time is outside the documented behaviour). *)
From Coq Require Import String Lia.
From Suiron Require Import Model.Term Model.Subst Model.Unify Model.Builtins Model.Rename Model.Solve
  Spec.SpecCut Proofs.RefineCut Proofs.NotCutInv Proofs.RefineCutConverse.
Open Scope N_scope.

Theorem C01_converse : forall kb bf q w nd w1 m F R',
  make_base_node kb (GCall q) w = Ok (nd, w1) -> ask_all kb bf m F nd w1 = Ok R' ->
  (exists fs, canswers kb bf fs q w = Ok R') \/ (exists fs, canswers kb bf fs q w = Panic).
Proof. exact refines_cut_converse. Qed.

Theorem C01_converse_ok : forall kb bf q w nd w1 m F R',
  kbokb kb = true ->
  make_base_node kb (GCall q) w = Ok (nd, w1) -> ask_all kb bf m F nd w1 = Ok R' ->
  exists fs, canswers kb bf fs q w = Ok R'.
Proof. intros kb bf q w nd w1 m F R' H. apply refines_cut_converse_ok. now apply kbokb_kbok. Qed.

(* both directions together: for programs without a cut directly inside not/time, draining the
   engine and running the reference search are the same thing *)
Theorem C01_both : forall kb bf q w nd w1 m F R',
  kbokb kb = true -> make_base_node kb (GCall q) w = Ok (nd, w1) ->
  (ask_all kb bf m F nd w1 = Ok R' -> exists fs, canswers kb bf fs q w = Ok R') /\
  (forall fs R, canswers kb bf fs q w = Ok R -> ask_all kb bf m F nd w1 = Ok R' -> R' = R).
Proof.
  intros kb bf q w nd w1 m F R' Hk Hm. split.
  - intro Hd. eapply C01_converse_ok; eauto.
  - intros fs R Hc Hd. eapply refines_cut; eauto.
Qed.

(* ---- the refusal is real: p :- not((r, !)), q.  p :- q.  q.  q.  r :- fail. ---- *)
Definition at_ (s : string) := TAtom (s2l s).
Definition c0 (s : string) := TComplex [at_ s].
Definition call0 s := GCall (c0 s).
Definition kbx : kbase :=
  [(s2l "p/0", [mkRule (c0 "p") (GOp OAnd [GOp ONot [GOp OAnd [call0 "r"; GBip n_cut None]]; call0 "q"]);
                mkRule (c0 "p") (call0 "q")]);
   (s2l "q/0", [mkRule (c0 "q") GNil; mkRule (c0 "q") GNil]);
   (s2l "r/0", [mkRule (c0 "r") (GBip n_fail None)])].

Lemma canswers_rle kb bf f f' q w : (f <= f')%nat -> rle (canswers kb bf f q w) (canswers kb bf f' q w).
Proof.
  intro L. unfold canswers. apply rle_bind; [|intro; apply rle_refl].
  apply csolve_rle; [exact L|apply kle_refl].
Qed.

(* the engine: make the query's node, drain it, count the answers *)
Definition drained : res nat :=
  match make_base_node kbx (GCall (c0 "p")) world0 with
  | Ok (nd, w1) =>
      match ask_all kbx 20 20 40 nd w1 with
      | Ok (a, _) => Ok (length a)
      | Panic => Panic
      | OutOfFuel => OutOfFuel
      end
  | _ => Panic
  end.

Example refused :
  kbokb kbx = false /\ drained = Ok 4%nat /\
  (forall fs R, canswers kbx 20 fs (c0 "p") world0 <> Ok R).
Proof.
  split; [vm_compute; reflexivity|]. split; [vm_compute; reflexivity|].
  assert (canswers kbx 20 40 (c0 "p") world0 = Panic) as HP by (vm_compute; reflexivity).
  intros fs R H. destruct (Nat.le_ge_cases fs 40) as [L|L].
  - destruct (canswers_rle kbx 20 fs 40 (c0 "p") world0 L) as [E|E]; rewrite H in E; [discriminate|].
    rewrite HP in E. discriminate.
  - destruct (canswers_rle kbx 20 40 fs (c0 "p") world0 L) as [E|E]; rewrite HP in E; [discriminate|].
    rewrite H in E. discriminate.
Qed.

Print Assumptions C01_converse.
Print Assumptions C01_converse_ok.
Print Assumptions refused.
