(* C07 - Unification is symmetric.

   PARTIAL.  The full statement needs completeness of unification (C06_full): A = B succeeds
   iff B = A does, with the same resolved values up to renaming of unbound variables.  It is
   evaluated on every run by unifying every generated pair in both orders on the
   implementation (as written, and with one side carrying fresh ids as a renamed clause head
   does) and comparing success and the resolved values of all variables.
   PROVED: whichever order succeeds, its result makes A and B denote the same term in BOTH
   orders (the specification relation is symmetric); constants and constant/variable pairs
   commute outright; a variable or function on the right is handled by swapping. *)
From Suiron Require Import Model.Term Model.Subst Model.Unify Spec.SpecUnify
  Proofs.UnifyInv Proofs.UnifyProps Proofs.UnifySound Proofs.FunctionProps.

Definition C07_full : Prop :=
  forall fuel a b ss, fn_free a = true -> fn_free b = true ->
    (exists s1, unify fuel a b ss = Ok (Some s1)) <-> (exists s2, unify fuel b a ss = Ok (Some s2)).

Theorem C07_partial_result_unifies_both_ways : forall fuel a b ss ss',
  wf2 a = true -> wf2 b = true -> wf2_ss ss ->
  unify fuel a b ss = Ok (Some ss') -> teq ss' a b /\ teq ss' b a.
Proof.
  intros fuel a b ss ss' Ha Hb Hs H. destruct (unify_sound fuel a b ss ss' Ha Hb Hs H) as (T & _ & _).
  split; [exact T|now apply teq_sym].
Qed.

Theorem C07_partial_constants : forall f a b ss,
  is_constant a = true -> is_constant b = true -> unify (S f) a b ss = unify (S f) b a ss.
Proof. exact unify_constants_sym. Qed.

Theorem C07_partial_constant_variable : forall f c id n ss,
  is_constant c = true -> unify (S f) c (TVar id n) ss = unify f (TVar id n) c ss.
Proof. exact unify_constant_var. Qed.

(* a literal [] or a list pattern against a variable: the variable's arm does the work,
   whichever side the list is on *)
Theorem C07_partial_list_variable : forall f t nx c tv id n ss,
  unify (S f) (TList t nx c tv) (TVar id n) ss = unify f (TVar id n) (TList t nx c tv) ss.
Proof. intros. simpl. unfold unify_body. reflexivity. Qed.

Theorem C07_partial_complex_variable : forall f ts id n ss,
  unify (S f) (TComplex ts) (TVar id n) ss = unify f (TVar id n) (TComplex ts) ss.
Proof. intros. simpl. unfold unify_body. reflexivity. Qed.

Check C07_partial_result_unifies_both_ways : forall fuel a b ss ss',
  wf2 a = true -> wf2 b = true -> wf2_ss ss ->
  unify fuel a b ss = Ok (Some ss') -> teq ss' a b /\ teq ss' b a.

Print Assumptions C07_partial_result_unifies_both_ways.
Print Assumptions C07_partial_constants.
Print Assumptions C07_partial_constant_variable.
Print Assumptions C07_partial_list_variable.
Print Assumptions C07_partial_complex_variable.
