(* C10 - Renaming apart changes only variables, consistently. *)
From Suiron Require Import Model.Term Model.Subst Model.Rename Spec.SpecLists Proofs.RenameProofs.
Open Scope N_scope.

(* `erase x` forgets variable ids and nothing else; `rvars r` lists the variable occurrences
   (id, name) of a rule; `consistent occ`: same name <-> same id; `fresh_between lo hi occ`:
   every id is > lo and <= hi.  (Definitions in Proofs/RenameProofs.v.) *)

(* Every clause fetch (get_rule: clone, rename with an empty map, advance the counter):
   nothing but ids changes - atoms, numbers, list nodes including [], counts and tail
   markers, goal structure are the stored rule's -, occurrences of one name get one id,
   different names different ids, and every id is fresh: above the counter before the
   fetch, at most the counter after it. *)
Theorem C10_get_rule : forall kb pred i ctr r' ctr',
  get_rule kb pred i ctr = Ok (r', ctr') ->
  exists r rules, kb_get kb pred = Some rules /\ nth_error rules (N.to_nat i) = Some r /\
    erase_rule r' = erase_rule r /\ ctr <= ctr' /\
    consistent (rvars r') /\ fresh_between ctr ctr' (rvars r').
Proof. exact get_rule_spec. Qed.

(* Queries built by make_query: the same, with ids 1 .. counter. *)
Theorem C10_make_query : forall ts g ctr,
  make_query ts = Ok (g, ctr) ->
  exists ts', g = GCall (TComplex ts') /\ map erase ts' = map erase ts /\
    consistent (flat_map tvars ts') /\ fresh_between 0 ctr (flat_map tvars ts').
Proof. exact make_query_spec. Qed.

(* The building blocks, for any renaming state (used repeatedly / with a shared map): *)
Theorem C10_term : forall t st t' st', rename_term t st = (t', st') -> good_term t st t' st'.
Proof. exact rename_term_good. Qed.
Theorem C10_goal : forall g st g' st', rename_goal g st = Ok (g', st') -> good_goal g st g' st'.
Proof. exact rename_goal_good. Qed.
Theorem C10_rule : forall r st r' st', rename_rule r st = Ok (r', st') -> good_rule r st r' st'.
Proof. exact rename_rule_good. Qed.

(* List shapes survive: a renamed well-formed list is a well-formed list with the renamed
   elements, the same length and the same tail-ness (in particular [] stays []). *)
Theorem C10_list_shape : forall l st l' st' xs tl,
  rename_term l st = (l', st') -> elems l = Some (xs, tl) ->
  exists xs' tl', elems l' = Some (xs', tl') /\ map erase xs' = map erase xs /\
                  option_map erase tl' = option_map erase tl.
Proof. exact rename_list_shape. Qed.

(* non-vacuity: g($X) :- $X = [], p($X, $Y, [$Y | $X]).  fetched at counter 7 *)
Example C10_witness :
  let X := TVar 0 [36; 88] in let Y := TVar 0 [36; 89] in
  let r := mkRule (TComplex [TAtom [103]; X])
                  (GOp OAnd [GBip [117] (Some [X; empty_list]);
                             GCall (TComplex [TAtom [112]; X; Y; TList Y (TList X empty_list 1 true) 2 false])]) in
  exists r', get_rule [([103; 47; 49], [r])] [103; 47; 49] 0 7 = Ok (r', 9) /\
             rvars r' = [(8, [36; 88]); (8, [36; 88]); (8, [36; 88]); (9, [36; 89]); (9, [36; 89]); (8, [36; 88])].
Proof. eexists. vm_compute. split; reflexivity. Qed.

Check C10_get_rule : forall kb pred i ctr r' ctr',
  get_rule kb pred i ctr = Ok (r', ctr') ->
  exists r rules, kb_get kb pred = Some rules /\ nth_error rules (N.to_nat i) = Some r /\
    erase_rule r' = erase_rule r /\ ctr <= ctr' /\
    consistent (rvars r') /\ fresh_between ctr ctr' (rvars r').

Print Assumptions C10_get_rule.
Print Assumptions C10_make_query.
Print Assumptions C10_term.
Print Assumptions C10_goal.
Print Assumptions C10_rule.
Print Assumptions C10_list_shape.
