(* C19 at term level, the full statement of Properties/C19terms.v for the class `canonical`
   of Proofs/TermRoundtripMain.v: atoms made of [A-Za-z0-9_] and inner blanks (not all digits),
   64-bit integers, variables
   $[A-Za-z][A-Za-z0-9_]* (id 0) and $_, complex terms f(t1, ..., tn) (n >= 0, f not one of
   join/add/subtract/multiply/divide, text of at most 1000 characters), lists [t1, ..., tn],
   [t1, ..., tn | $V] and [t1, ..., tn | $_] (n >= 1) in the well-formed node shape.  Floats are not covered.
   The fuel is the one of C18: any fuel from parse_fuel (show_term t) = length + 2 on. *)
From Suiron Require Import Model.ParseTerm Model.Show Spec.SpecLists Proofs.ParseTermProofs
  Proofs.ParseRoundtrip Proofs.TermRoundtrip Proofs.TermRoundtripText Proofs.TermRoundtripComplex
  Proofs.TermRoundtripList Proofs.TermRoundtripMain Proofs.TermRoundtripCheck Properties.C19terms.

Theorem C19_roundtrip_terms : forall t fuel,
  canonical t -> (parse_fuel (show_term t) <= fuel)%nat ->
  parse_term fuel (show_term t) = Ok (POk t).
Proof. exact parse_term_show_canonical. Qed.

Theorem C19_terms_full_canonical : C19_terms_full canonical.
Proof.
  intros t H. exists (parse_fuel (show_term t)). now apply parse_term_show_canonical.
Qed.

(* the class is decidable from below: an executable test that implies it *)
Theorem C19_roundtrip_terms_checked : forall t fuel,
  canonicalb t = true -> (parse_fuel (show_term t) <= fuel)%nat ->
  parse_term fuel (show_term t) = Ok (POk t).
Proof. exact canonicalb_roundtrip. Qed.

(* the constructors of the model build canonical lists from canonical terms *)
Check canonical_make_list_of_terms : forall ts,
  (forall t, In t ts -> canonical t) -> canonical (make_list_of_terms ts).
Check canonical_make_linked_list : forall ts last,
  (forall t, In t (ts ++ [last]) -> canonical t) -> is_list last = false ->
  canonical (make_linked_list false (ts ++ [last])).
Check canonical_make_linked_list_tail : forall ts v,
  ts <> [] -> (forall t, In t ts -> canonical t) -> simple_var v = true ->
  canonical (make_linked_list true (ts ++ [TVar 0 v])).

Check canonical_make_linked_list_anon : forall ts,
  ts <> [] -> (forall t, In t ts -> canonical t) ->
  canonical (make_linked_list true (ts ++ [TAnon])).

Print Assumptions C19_roundtrip_terms.
Print Assumptions C19_terms_full_canonical.
