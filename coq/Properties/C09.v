(* C09 - The anonymous variable matches anything and never binds. *)
From Suiron Require Import Model.Term Model.Subst Model.Unify Proofs.UnifyInv Proofs.UnifyProps.

(* `x = $_` and `$_ = x` succeed for every x whatsoever (unbound variables, functions,
   malformed terms included) and return the substitution set itself: no binding is created
   or changed, so a sequence of unifications behaves as if those steps were not there. *)
Theorem C09_anon_right : forall fuel a ss, unify (S fuel) a TAnon ss = Ok (Some ss).
Proof. exact unify_anon_right. Qed.

Theorem C09_anon_left : forall fuel b ss, unify (S fuel) TAnon b ss = Ok (Some ss).
Proof. exact unify_anon_left. Qed.

(* As an argument of a complex term `$_` constrains nothing: the argument position is
   skipped, on whichever side it stands. *)
Theorem C09_anon_argument_left : forall rec pre pre' t post post' s s2,
  length pre = length pre' ->
  unify_args rec (pre ++ TAnon :: post) (pre' ++ t :: post') s s2 =
  unify_args rec (pre ++ post) (pre' ++ post') s s2.
Proof. exact unify_args_skip_anon_left. Qed.

Theorem C09_anon_argument_right : forall rec pre pre' t post post' s s2,
  length pre = length pre' ->
  unify_args rec (pre ++ t :: post) (pre' ++ TAnon :: post') s s2 =
  unify_args rec (pre ++ post) (pre' ++ post') s s2.
Proof. exact unify_args_skip_anon_right. Qed.

(* No run of unify ever makes `$_` the value of a variable — wherever `$_` occurs in the
   two terms (argument, list element, list tail, nested). *)
Theorem C09_never_bound : forall fuel a b ss ss',
  wf_term a = true -> wf_term b = true -> wf_ss ss ->
  unify fuel a b ss = Ok (Some ss') -> no_anon_binding ss -> no_anon_binding ss'.
Proof. exact unify_never_binds_anon. Qed.

(* ... hence none over any sequence of unifications starting from the empty set *)
Theorem C09_never_bound_seq : forall fuel pairs ss',
  wf_pairs pairs -> unify_seq fuel pairs [] = Ok (Some ss') -> no_anon_binding ss'.
Proof.
  intros fuel pairs ss' Hw H.
  destruct (unify_seq_invariants fuel pairs [] ss' Hw wf_ss_nil H) as (_ & _ & _ & Hn).
  apply Hn, no_anon_nil.
Qed.

Check C09_anon_right : forall fuel a ss, unify (S fuel) a TAnon ss = Ok (Some ss).
Check C09_anon_left : forall fuel b ss, unify (S fuel) TAnon b ss = Ok (Some ss).

Print Assumptions C09_anon_right.
Print Assumptions C09_anon_left.
Print Assumptions C09_anon_argument_left.
Print Assumptions C09_anon_argument_right.
Print Assumptions C09_never_bound.
Print Assumptions C09_never_bound_seq.
