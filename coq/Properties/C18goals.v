(* C18 (goal and rule level) - `tokenize`, `generate_goal` and `parse_rule` return a value or
   an error for every input string: never a panic, and never "still running" once the fuel
   exceeds 2 * length + 3.

   The leaf parsers `parse_subgoal` / `parse_complex` are parameters `ps` / `pc` (they are
   modelled in Model/ParseGoal.v, Model/ParseTerm.v); the hypothesis on them is the
   term-level part of C18, asked only for texts that are not longer than the input: they
   return a value or an error.

   These theorems are about the crate AFTER the repairs
     fix: parse_rule returns an error instead of panicking when the head is not a complex term
     fix: group_tokens skips the tokens a nested group covers, not its number of children
   The remaining `panic!`s of tokenizer.rs / token.rs that can be reached syntactically from
   generate_goal (make_branch_token, number_of_children, get_token_str, get_children,
   "Group should have 1 child", "Leaf token must be Subgoal") are modelled as `Panic` and are
   PROVED unreachable (Proofs/TokenizerProofs.v: stokenize_TOKS, gts_raw, and_pass, or_pass,
   tttg_total). *)
From Coq Require Import String.
From Suiron Require Import Model.Tokenizer Model.ParseRule Proofs.TokenizerProofs Proofs.TokenizerBounded.
Open Scope N_scope.

Theorem C18_tokenize_returns : forall s fuel,
  (length s < fuel)%nat ->
  (exists toks, tokenize fuel s = Ok (POk toks)) \/ tokenize fuel s = Ok PErr.
Proof. exact tokenize_returns. Qed.

(* The leaf parser is only asked about texts that are not longer than the input (each is the
   trimmed form of a slice of the input), so a fuel-bounded leaf parser can be plugged in. *)
Theorem C18_generate_goal_returns : forall (ps : str -> res (presult goal)) s fuel,
  (forall t, (length t <= length s)%nat -> (exists g, ps t = Ok (POk g)) \/ ps t = Ok PErr) ->
  (2 * length s + 3 <= fuel)%nat ->
  (exists g, generate_goal ps fuel s = Ok (POk g)) \/ generate_goal ps fuel s = Ok PErr.
Proof. exact generate_goal_returns_le. Qed.

Theorem C18_parse_rule_returns :
  forall (ps : str -> res (presult goal)) (pc : str -> res (presult term)) s fuel,
  (forall t, (length t <= length s)%nat -> (exists g, ps t = Ok (POk g)) \/ ps t = Ok PErr) ->
  (forall t, (length t <= length s)%nat -> (exists h, pc t = Ok (POk h)) \/ pc t = Ok PErr) ->
  (2 * length s + 3 <= fuel)%nat ->
  (exists r, parse_rule ps pc fuel s = Ok (POk r)) \/ parse_rule ps pc fuel s = Ok PErr.
Proof. exact parse_rule_returns_le. Qed.

(* non-vacuity, with a toy leaf parser that trims, accepts every text but the empty one and recognises `!` *)
Definition toy_ps (s : str) : res (presult goal) :=
  match tk_trim s with
  | [] => Ok PErr
  | [33] => Ok (POk (GBip [33] None))
  | t => Ok (POk (GCall (TComplex [TAtom t])))
  end.
Definition toy_pc (s : str) : res (presult term) :=
  match tk_trim s with [] => Ok PErr | t => Ok (POk (TComplex [TAtom t])) end.

Open Scope string_scope.
Example C18_witness :
  let call s := GCall (TComplex [TAtom (s2l s)]) in
  (* nested groups, 19 characters, fuel 41 *)
  generate_goal toy_ps 41 (s2l "a, ((b; c), d); e,f") =
    Ok (POk (GOp OOr [GOp OAnd [call "a"; GOp OAnd [GOp OOr [call "b"; call "c"]; call "d"]];
                      GOp OAnd [call "e"; call "f"]])) /\
  (* errors, not panics *)
  generate_goal toy_ps 20 (s2l "a, b)") = Ok PErr /\
  generate_goal toy_ps 20 (s2l "(a, b") = Ok PErr /\
  generate_goal toy_ps 20 (s2l "a,, b") = Ok PErr /\
  (* the head of a rule that is not a complex term (was: panic) *)
  parse_rule toy_ps toy_pc 20 (s2l "! :- a.") = Ok PErr /\
  parse_rule toy_ps toy_pc 20 (s2l "h :- a, b.") =
    Ok (POk (mkRule (TComplex [TAtom (s2l "h")]) (GOp OAnd [call "a"; call "b"]))).
Proof. vm_compute. repeat split. Qed.

Check C18_generate_goal_returns : forall (ps : str -> res (presult goal)) s fuel,
  (forall t, (length t <= length s)%nat -> (exists g, ps t = Ok (POk g)) \/ ps t = Ok PErr) ->
  (2 * length s + 3 <= fuel)%nat ->
  (exists g, generate_goal ps fuel s = Ok (POk g)) \/ generate_goal ps fuel s = Ok PErr.

Print Assumptions C18_tokenize_returns.
Print Assumptions C18_generate_goal_returns.
Print Assumptions C18_parse_rule_returns.
