(* C03, laws of the reference search (Spec/SpecCut.v) for not(..) and time(..), for cut-free programs,
   stated with the direct-style stream-of-successes interpreter `sld` of Proofs/SldOrder.v (which the
   reference equals at every fuel: Properties/C01laws.v):
     not(g)  = g has no answer -> exactly one answer, the substitution it was entered with (no binding
               made while searching g survives); g has an answer -> no answer; g is asked for its first
               answer only, and the world is the one reached at that point;
     time(g) = g's first answer only (or none), then the elapsed-time text is written. *)
From Suiron Require Import Model.Term Model.Subst Model.Solve Model.Builtins Model.Rename Spec.SpecCut
  Proofs.CutOnce Proofs.SldOrder Proofs.NotLaw.
Open Scope N_scope.

Theorem C03_not_law : forall kb bf, cutfree_kb kb = true ->
  forall f g1 s w, cutfree g1 = true ->
  answers kb bf (S f) (GOp ONot [g1]) s w =
  match sld kb bf f g1 s w with
  | SNil w1 => Ok ([s], w1)
  | SCons _ w1 _ => Ok ([], w1)
  | SPanic => Panic
  | SOut => OutOfFuel
  end.
Proof. exact not_law. Qed.

Theorem C03_time_law : forall kb bf, cutfree_kb kb = true ->
  forall f g1 s w, cutfree g1 = true ->
  answers kb bf (S f) (GOp OTime [g1]) s w =
  match sld kb bf f g1 s w with
  | SNil w1 => Ok ([], w_print w1 elapsed_token)
  | SCons s1 w1 _ => Ok ([s1], w_print w1 elapsed_token)
  | SPanic => Panic
  | SOut => OutOfFuel
  end.
Proof. exact time_law. Qed.

(* non-vacuity.  n(1). n(2).   not(n(3)) has exactly one answer, the empty substitution it was entered with;
   not(n($X)) has none (and $X is not bound by anything: there is no answer to carry a binding) *)
Example C03_laws_witness :
  let kb : kbase := [([110; 47; 49], [mkRule (TComplex [TAtom [110]; TInt 1]) GNil; mkRule (TComplex [TAtom [110]; TInt 2]) GNil])] in
  let w := mkWorld 1 false None [] in
  cutfree_kb kb = true /\
  (exists w1, answers kb 20 20 (GOp ONot [GCall (TComplex [TAtom [110]; TInt 3])]) [] w = Ok ([[]], w1)) /\
  (exists w1, answers kb 20 20 (GOp ONot [GCall (TComplex [TAtom [110]; TVar 1 [36; 88]])]) [] w = Ok ([], w1)).
Proof. cbn zeta. split; [reflexivity|]. split; eexists; vm_compute; reflexivity. Qed.

Print Assumptions C03_not_law.
Print Assumptions C03_time_law.
