(* C07 - Unification is symmetric.

   PROVED (C07_symmetric_; Proofs/UnifySemFun.v): on plain terms (no `$_`, no NaN, atom functors,
   parser-built lists) and plain substitution sets, if A = B succeeds with a result that has a
   solution in finite trees (i.e. no occurs check was needed), then B = A - with any fuel on which it
   returns - succeeds too, and the two results have exactly the same solutions: every variable gets
   the same value under both.  With `$_` the order of operands can matter (C06.v: anon_order), and
   the earlier formulation with one fuel for both orders is false of the model (C07_full_false: the
   swapped order may need one more unit of fuel - a modelling artefact).  The syntactic facts proved
   earlier are in Properties/C07base.v (checked by the same gate). *)
From Suiron Require Import Model.Term Model.Subst Model.Unify Spec.SpecUnify Spec.SpecUnifySem
  Proofs.SubstLemmas Proofs.UnifyInv Proofs.UnifySound Proofs.UnifyProps Proofs.UnifySemFun Properties.C07base Properties.C06.

Theorem C07_symmetric_ : forall fuel fuel' a b ss s1 r2 sigma0,
  plain a = true -> plain b = true -> plain_ss ss ->
  unify fuel a b ss = Ok (Some s1) -> solves sigma0 s1 -> unify fuel' b a ss = Ok r2 ->
  exists s2, r2 = Some s2 /\ forall sigma, solves sigma s1 <-> solves sigma s2.
Proof. exact C07_symmetric. Qed.

Theorem C07_one_fuel_for_both_orders_is_false : ~ C07_full.
Proof. exact C07_full_false. Qed.

Print Assumptions C07_symmetric_.
Print Assumptions C07_one_fuel_for_both_orders_is_false.
