(* C19 (goal and rule level) - canonical goals and rules print as their canonical text and
   that text parses back to them:  generate_goal (show_goal g) = Ok g,
   parse_rule (show_rule r) = Ok r.

   The leaf parsers are parameters `ps` (parse_subgoal) and `pc` (parse_complex).
   A canonical goal (Proofs/GoalRoundtrip.v, `canonical_goal ps`) is
     - a leaf l (anything but And / Or / Nil: a call, a built-in predicate, `$X = 1`, cut,
       fail, nl, not(..), time(..)) with `leaf_ok ps l`: Display produces a text t, the text
       is `neutral` for the tokenizer, and ps t = Ok l;
     - And gs / Or gs with at least two operands, all canonical (any nesting).
   `neutral t` says that the tokenizer's scan passes over t without emitting a token or
   changing its stack; `neutralb` is a decidable sufficient condition (quotes closed inside
   t, every `(` after a letter/digit/_/-, brackets matched, no bare comma, semicolon, double quote, `#`, `@`).
   A canonical rule has a head term whose text is accepted by pc (facts) and, followed by
   one space, by ps (rules) - the real parse_subgoal trims its argument -, and neither head
   nor body text contains `:-`.

   These theorems are about the crate AFTER the repairs
     fix: parse_rule accepts short facts such as `b.`
     fix: a conjunction inside a disjunction is no longer dropped
     fix: a disjunction or conjunction nested in another operator is displayed in parentheses
     fix: group_tokens skips the tokens a nested group covers, not its number of children *)
From Coq Require Import String.
From Suiron Require Import Model.Tokenizer Model.ParseRule Model.ShowGoal.
From Suiron Require Import Proofs.TokenizerProofs Proofs.GoalRoundtrip.
Open Scope N_scope.
Open Scope string_scope.

Theorem C19_roundtrip_goals : forall (ps : str -> res (presult goal)) g fuel,
  canonical_goal ps g -> (2 * length (text g) + 3 <= fuel)%nat ->
  show_goal g = Ok (text g) /\ generate_goal ps fuel (text g) = Ok (POk g).
Proof. exact roundtrip_goal. Qed.

Theorem C19_roundtrip_rules :
  forall (ps : str -> res (presult goal)) (pc : str -> res (presult term)) r fuel,
  canonical_rule ps pc r -> (2 * length (rule_text r) + 3 <= fuel)%nat ->
  show_rule r = Ok (rule_text r) /\ parse_rule ps pc fuel (rule_text r) = Ok (POk r).
Proof. exact roundtrip_rule. Qed.

(* the decidable criterion for leaf texts *)
Theorem C19_neutral_criterion : forall t, neutralb t = true -> neutral t.
Proof. exact neutralb_sound. Qed.

(* what Display does with nested operators (the canonical text) *)
Example C19_canonical_text :
  let a := GCall (TComplex [TAtom (s2l "a"); TInt 1]) in
  let u := GBip (s2l "unify") (Some [TVar 0 (s2l "$X"); TInt 1]) in
  let cut := GBip (s2l "!") None in
  show_goal (GOp OAnd [GOp OOr [a; GOp OAnd [u; cut]]; GOp OAnd [cut; a]; u]) =
    Ok (s2l "(a(1); $X = 1, !), (!, a(1)), $X = 1") /\
  show_goal (GOp OOr [GOp OOr [a; u]; GOp OAnd [a; GOp OOr [cut; a]]]) =
    Ok (s2l "(a(1); $X = 1); a(1), (!; a(1))").
Proof. vm_compute. split; reflexivity. Qed.

(* non-vacuity: a leaf parser for three leaf texts, and a nested canonical goal and rule *)
Section Witness.
  Let a := GCall (TComplex [TAtom (s2l "a"); TInt 1]).
  Let u := GBip (s2l "unify") (Some [TVar 0 (s2l "$X"); TInt 1]).
  Let cut := GBip (s2l "!") None.
  Let h := TComplex [TAtom (s2l "h"); TVar 0 (s2l "$X")].

  Definition w_ps (s : str) : res (presult goal) :=
    let t := tk_trim s in
    if str_eqb t (s2l "a(1)") then Ok (POk a)
    else if str_eqb t (s2l "$X = 1") then Ok (POk u)
    else if str_eqb t (s2l "!") then Ok (POk cut)
    else if str_eqb t (s2l "h($X)") then Ok (POk (GCall h))
    else Ok PErr.
  Definition w_pc (s : str) : res (presult term) :=
    if str_eqb (tk_trim s) (s2l "h($X)") then Ok (POk h) else Ok PErr.

  Lemma w_leaf l t :
    is_leaf_goal l = true -> show_goal l = Ok t -> neutralb t = true -> w_ps t = Ok (POk l) ->
    canonical_goal w_ps l.
  Proof.
    intros H1 H2 H3 H4. apply can_leaf. split; [exact H1|]. exists t.
    split; [exact H2|]. split; [now apply neutralb_sound|exact H4].
  Qed.

  Let g := GOp OAnd [GOp OOr [a; GOp OAnd [u; cut]]; GOp OAnd [cut; a]; u].

  Lemma w_canonical : canonical_goal w_ps g.
  Proof.
    assert (Ha : canonical_goal w_ps a) by (eapply w_leaf; vm_compute; reflexivity).
    assert (Hu : canonical_goal w_ps u) by (eapply w_leaf; vm_compute; reflexivity).
    assert (Hc : canonical_goal w_ps cut) by (eapply w_leaf; vm_compute; reflexivity).
    repeat first [ apply can_and; [simpl; repeat constructor|]
                 | apply can_or; [simpl; repeat constructor|]
                 | apply Forall_cons | apply Forall_nil | assumption ].
  Qed.

  Example C19_witness_goal :
    generate_goal w_ps 100 (s2l "(a(1); $X = 1, !), (!, a(1)), $X = 1") = Ok (POk g).
  Proof.
    destruct (C19_roundtrip_goals w_ps g 100 w_canonical) as [_ H].
    - vm_compute. repeat constructor.
    - exact H.
  Qed.

  Example C19_witness_rule :
    parse_rule w_ps w_pc 100 (s2l "h($X) :- (a(1); $X = 1, !), (!, a(1)), $X = 1.") =
      Ok (POk (mkRule h g)) /\
    parse_rule w_ps w_pc 100 (s2l "h($X).") = Ok (POk (mkRule h GNil)).
  Proof.
    split.
    - destruct (C19_roundtrip_rules w_ps w_pc (mkRule h g) 100) as [_ H].
      + split.
        * constructor; try reflexivity. exists 104, (s2l "($X)"). split; reflexivity.
        * right. split; [exact w_canonical|reflexivity].
      + vm_compute. repeat constructor.
      + exact H.
    - destruct (C19_roundtrip_rules w_ps w_pc (mkRule h GNil) 100) as [_ H].
      + split.
        * constructor; try reflexivity. exists 104, (s2l "($X)"). split; reflexivity.
        * now left.
      + vm_compute. repeat constructor.
      + exact H.
  Qed.
End Witness.

Check C19_roundtrip_goals : forall (ps : str -> res (presult goal)) g fuel,
  canonical_goal ps g -> (2 * length (text g) + 3 <= fuel)%nat ->
  show_goal g = Ok (text g) /\ generate_goal ps fuel (text g) = Ok (POk g).

Print Assumptions C19_roundtrip_goals.
Print Assumptions C19_roundtrip_rules.
Print Assumptions C19_neutral_criterion.
