(* C06 - Unification returns a most general unifier extending prior bindings; C07 - unification is
   symmetric.  The SEMANTIC formulation (Spec/SpecUnifySem.v): terms denote finite trees under a
   valuation of the variables; a valuation solves a substitution set when every bound variable has
   the value of its binding.  For every fuel and every call of `unify` that returns (the model
   returns OutOfFuel where the implementation diverges, i.e. on a cyclic substitution set):

   PROVED
     (G) most general  every solution of the input that gives both terms the same value solves
     (C) complete      the result - in particular the result is not a failure.
         For ALL terms and substitution sets (`$_` denotes anything, NaN nothing): C06_general_complete.
     (S) sound         on plain terms (no `$_`, no NaN, atom functors, parser-built lists): the
         result keeps every earlier binding verbatim, is plain, and each of its solutions solves
         the input and gives both terms the same value: C06_sound.
     (SYM, C07)        on plain terms: if A = B succeeds with a solvable result, then B = A (any
         fuel, if it returns) succeeds and the two results have exactly the same solutions:
         C07_symmetric.
     and the completeness statement of Spec/SpecUnify.v for every syntactic unifier that has a
     solution: C06_complete_syntactic.

   FALSE, with compiled witnesses below
     1. soundness with `$_`: `$_` inside a term that gets BOUND to a variable stays a wildcard at
        every later use of that variable: f($X, $X) = f(g($_), g(a)) succeeds with $X = g($_)
        (Prolog: $X = g(a)), and after $X = f($_) both $X = f(a) and $X = f(b) succeed.
     2. the order of the operands matters with `$_`: f(g(a), g($_)) gives $X = g(a).
     3. NaN does not unify with itself (IEEE ==), so `unify_complete_statement` of
        Spec/SpecUnify.v (C06_full, Properties/C06base.v), whose `teq` relates every float to itself, is false.
     4. a complex term whose functor is not an atom: if every argument pair is skipped because of
        `$_`, the result is the EMPTY substitution set - all earlier bindings are lost.
     5. C07_full of Properties/C07base.v (same fuel on both sides) is false: the swapped order needs
        one more unit of fuel. *)
From Coq Require Import String Lia.
From Suiron Require Import Model.Term Model.Subst Model.Unify Spec.SpecUnify Spec.SpecUnifySem
  Proofs.UnifyComplete Proofs.UnifySemSound Proofs.UnifySemFun Proofs.UnifySemTeq
  Proofs.SubstLemmas Proofs.UnifyInv Proofs.UnifySound Proofs.UnifyProps Properties.C06base Properties.C07base.
Open Scope N_scope.

(* ---- the theorems ---- *)
Theorem C06_general_complete : forall fuel a b ss r sigma tr,
  unify fuel a b ss = Ok r ->
  solvesr sigma ss -> dens sigma a tr -> dens sigma b tr ->
  exists ss', r = Some ss' /\ solvesr sigma ss'.
Proof. exact unify_general_complete. Qed.

Theorem C06_general_complete_plain : forall fuel a b ss r sigma,
  plain a = true -> plain b = true -> plain_ss ss ->
  unify fuel a b ss = Ok r ->
  solves sigma ss -> den sigma a = den sigma b ->
  exists ss', r = Some ss' /\ solves sigma ss'.
Proof. exact unify_general_complete_fun. Qed.

Theorem C06_sound : forall fuel a b ss ss',
  plain a = true -> plain b = true -> plain_ss ss ->
  unify fuel a b ss = Ok (Some ss') ->
  plain_ss ss' /\
  (forall id t, ss_get ss id = Some t -> ss_get ss' id = Some t) /\
  (forall sigma, solves sigma ss' -> solves sigma ss /\ den sigma a = den sigma b).
Proof. exact unify_sound_sem. Qed.

Theorem C07_symmetric : forall fuel fuel' a b ss s1 r2 sigma0,
  plain a = true -> plain b = true -> plain_ss ss ->
  unify fuel a b ss = Ok (Some s1) -> solves sigma0 s1 ->
  unify fuel' b a ss = Ok r2 ->
  exists s2, r2 = Some s2 /\ forall sigma, solves sigma s1 <-> solves sigma s2.
Proof. exact unify_symmetric. Qed.

Theorem C06_complete_syntactic : forall fuel a b ss r,
  plain a = true -> plain b = true -> plain_ss ss ->
  unify fuel a b ss = Ok r ->
  (exists s' sigma, unifier s' ss a b /\ plain_ss s' /\ solves sigma s') ->
  exists ss', r = Some ss'.
Proof. exact unify_complete_solvable. Qed.

(* on plain terms the relation is the graph of the function *)
Theorem C06_dens_is_den : forall sigma t tr, plain t = true -> (dens sigma t tr <-> tr = den sigma t).
Proof.
  intros sigma t tr P. split; [now apply plain_dens_fun|]. intros ->. now apply plain_dens.
Qed.

(* ---- witnesses ---- *)
Definition at_ (s : string) := TAtom (s2l s).
Definition X := TVar 1 (s2l "$X").
Definition f1 (t : term) := TComplex [at_ "f"; t].
Definition g1 (t : term) := TComplex [at_ "g"; t].
Definition f2 (t u : term) := TComplex [at_ "f"; t; u].

(* 1. `$_` stored in a binding *)
Example anon_in_binding :
  unify 20 (f2 X X) (f2 (g1 TAnon) (g1 (at_ "a"))) [] = Ok (Some [None; Some (g1 TAnon)]).
Proof. vm_compute. reflexivity. Qed.

Example anon_in_binding_reused :
  let s1 := [None; Some (f1 TAnon)] in
  unify 20 X (f1 TAnon) [] = Ok (Some s1) /\
  unify 20 X (f1 (at_ "a")) s1 = Ok (Some s1) /\
  unify 20 X (f1 (at_ "b")) s1 = Ok (Some s1).
Proof. repeat split; vm_compute; reflexivity. Qed.

(* hence the result of a successful unification can have a solution under which the two terms
   have no common value: soundness fails in the presence of `$_` *)
Definition sound_rel : Prop :=
  forall fuel a b ss ss' sigma, unify fuel a b ss = Ok (Some ss') -> solvesr sigma ss' ->
    exists tr, dens sigma a tr /\ dens sigma b tr.

Ltac inv H := inversion H; subst; clear H.

Theorem anon_not_sound : ~ sound_rel.
Proof.
  intro H.
  set (gb := TrNode [TrAtom (s2l "g"); TrAtom (s2l "b")]).
  destruct (H 20%nat _ _ _ _ (fun _ => gb) anon_in_binding) as (tr & Da & Db).
  { intros id t Hg. unfold ss_get in Hg. destruct (N.to_nat id) as [|[|[|n]]]; cbn in Hg; try discriminate. inv Hg.
    constructor. constructor; [constructor|]. constructor; [constructor|constructor]. }
  inv Da. match goal with H : Forall2 _ _ _ |- _ => inv H end.
  match goal with H : Forall2 _ _ _ |- _ => inv H end.
  match goal with H : Forall2 _ _ _ |- _ => inv H end.
  match goal with H : Forall2 _ [] _ |- _ => inv H end.
  repeat match goal with H : dens _ (TVar _ _) _ |- _ => inv H end.
  inv Db. match goal with H : Forall2 _ _ _ |- _ => inv H end.
  match goal with H : Forall2 _ _ _ |- _ => inv H end.
  match goal with H : Forall2 _ _ _ |- _ => inv H end.
  match goal with H : dens _ (g1 (at_ "a")) _ |- _ => inv H end.
  match goal with H : Forall2 _ [at_ "g"; at_ "a"] _ |- _ => inv H end.
  match goal with H : Forall2 _ [at_ "a"] _ |- _ => inv H end.
  match goal with H : dens _ (at_ "a") _ |- _ => inv H end.
  subst gb. unfold X in *.
  match goal with H : dens _ (TVar _ _) (TrNode (_ :: TrAtom _ :: _)) |- _ => inversion H end.
Qed.

(* 2. the operand order matters with `$_` *)
Example anon_order :
  unify 20 (f2 X X) (f2 (g1 (at_ "a")) (g1 TAnon)) [] = Ok (Some [None; Some (g1 (at_ "a"))]).
Proof. vm_compute. reflexivity. Qed.

(* 3. NaN *)
Definition nan : f64 := fdiv f64_zero f64_zero.

Example nan_not_self : f64_is_nan nan = true /\ unify 20 (TFloat nan) (TFloat nan) [] = Ok None.
Proof. split; vm_compute; reflexivity. Qed.

Theorem C06_full_false : ~ C06_full.
Proof.
  intro H. destruct nan_not_self as [_ Hu].
  destruct (H 20%nat (TFloat nan) (TFloat nan) [] None eq_refl eq_refl Hu) as (s & E); [|discriminate E].
  exists []. split; [intros i t Hi; exact Hi|]. constructor. now left.
Qed.

(* 4. a functor that is not an atom: every pair skipped, the substitution set is reset *)
Example reset_without_atom_functor :
  unify 20 (TComplex [TAnon; at_ "x"]) (TComplex [TAnon; TAnon]) [None; Some (at_ "q")] = Ok (Some []).
Proof. vm_compute. reflexivity. Qed.

(* 5. fuel: the swapped order costs one more step *)
Example swapped_needs_more_fuel :
  unify 1 X (at_ "a") [] = Ok (Some [None; Some (at_ "a")]) /\ unify 1 (at_ "a") X [] = OutOfFuel /\
  unify 2 (at_ "a") X [] = Ok (Some [None; Some (at_ "a")]).
Proof. repeat split; vm_compute; reflexivity. Qed.

Theorem C07_full_false : ~ C07_full.
Proof.
  intro H. destruct swapped_needs_more_fuel as (H1 & H2 & _).
  destruct (proj1 (H 1%nat X (at_ "a") [] eq_refl eq_refl) (ex_intro _ _ H1)) as (s2 & E).
  rewrite H2 in E. discriminate E.
Qed.

(* 6. (known, C08) no occurs check: $X = f($X) succeeds; its result has no solution in finite trees,
   so (G), (S) and (SYM) say nothing about what is done with it afterwards *)
Fixpoint tsize (t : tree) : nat :=
  match t with
  | TrNode ts => S (fold_right (fun x a => tsize x + a)%nat 0%nat ts)
  | TrCons h t => S (tsize h + tsize t)
  | _ => 1%nat
  end.

Example occurs_check_absent :
  unify 20 X (f1 X) [] = Ok (Some [None; Some (f1 X)]) /\
  forall sigma, ~ solves sigma [None; Some (f1 X)].
Proof.
  split; [vm_compute; reflexivity|]. intros sigma H.
  pose proof (H 1 (f1 X) eq_refl) as E. cbn in E.
  apply (f_equal tsize) in E. cbn in E. lia.
Qed.

(* ---- non-vacuity: [a, $Y | $T] = [$X, b, c] under $X -> a; the result has a solution, under it
   both lists have the value [a, b, c]; the other order gives the same bindings ---- *)
Definition Y := TVar 2 (s2l "$Y").
Definition T := TVar 3 (s2l "$T").
Definition l1 := TList (at_ "a") (TList Y (TList T empty_list 1 true) 2 false) 3 false.
Definition l2 := TList X (TList (at_ "b") (TList (at_ "c") empty_list 1 false) 2 false) 3 false.
Definition ss0 : subst := [None; Some (at_ "a")].
Definition sg : valuation := fun id =>
  match id with
  | 1 => TrAtom (s2l "a")
  | 2 => TrAtom (s2l "b")
  | 3 => TrCons (TrAtom (s2l "c")) TrNil
  | _ => TrJunk
  end.

Example demo :
  plain l1 = true /\ plain l2 = true /\
  (exists s1, unify 20 l1 l2 ss0 = Ok (Some s1) /\ unify 20 l2 l1 ss0 = Ok (Some s1) /\ solves sg s1) /\
  den sg l1 = TrCons (TrAtom (s2l "a")) (TrCons (TrAtom (s2l "b")) (TrCons (TrAtom (s2l "c")) TrNil)) /\
  den sg l1 = den sg l2.
Proof.
  split; [reflexivity|]. split; [reflexivity|]. split; [|split; reflexivity].
  eexists. split; [vm_compute; reflexivity|]. split; [vm_compute; reflexivity|].
  intros id t Hg. unfold ss_get in Hg.
  destruct (N.to_nat id) as [|[|[|[|n]]]] eqn:E; cbn in Hg; try discriminate;
    try (destruct n; discriminate Hg);
    apply (f_equal N.of_nat) in E; rewrite N2Nat.id in E; subst id;
    inversion Hg; subst; reflexivity.
Qed.


Print Assumptions C06_general_complete.
Print Assumptions C06_general_complete_plain.
Print Assumptions C06_dens_is_den.

Print Assumptions C06_sound.
Print Assumptions C07_symmetric.
Print Assumptions C06_complete_syntactic.
Print Assumptions anon_not_sound.
Print Assumptions C06_full_false.
Print Assumptions C07_full_false.
