(* C14 - Comparison predicates follow numeric and lexicographic order. *)
From Suiron Require Import Model.Term Model.Subst Model.Compare Spec.SpecCompare Proofs.CompareProofs.

(* For every operand pair and every substitution: the predicate returns the *unchanged*
   substitution exactly when both operands resolve to constants that are ordered as the
   operator demands (atoms lexicographically, numbers numerically with integers converted
   when compared with a float); otherwise it fails.  Never a third outcome. *)
Theorem C14_compare_spec : forall fuel op a b ss r,
  bip_compare fuel op (Some [a; b]) ss = Ok r ->
  (r = Some ss /\ compare_holds (op_of op) a b ss) \/
  (r = None /\ ~ compare_holds (op_of op) a b ss).
Proof. exact bip_compare_spec. Qed.

Theorem C14_no_panic : forall fuel op a b ss, bip_compare fuel op (Some [a; b]) ss <> Panic.
Proof. exact bip_compare_no_panic. Qed.

(* It finishes whenever following the bindings of both operands ends (no binding cycle). *)
Theorem C14_terminates : forall op a b ss ra rb,
  chain ss a ra -> chain ss b rb ->
  exists fuel r, bip_compare fuel op (Some [a; b]) ss = Ok r.
Proof. exact bip_compare_terminates. Qed.

Check C14_compare_spec : forall fuel op a b ss r,
  bip_compare fuel op (Some [a; b]) ss = Ok r ->
  (r = Some ss /\ compare_holds (op_of op) a b ss) \/
  (r = None /\ ~ compare_holds (op_of op) a b ss).

Print Assumptions C14_compare_spec.
Print Assumptions C14_no_panic.
Print Assumptions C14_terminates.
