(* C21 closed - end to end: a knowledge base printed rule by rule with Display and written to a
   file loads as exactly that knowledge base.

   For every list rs of closed rules (Properties/C19closed.v: heads f(t1, ..., tn) or f(); bodies
   built with conjunction / disjunction from calls, built-in predicates, `l = r`, !, fail, nl,
   not(..), time(..) over canonical terms) and every layout L of the texts `map rule_text rs`
   (rule_text r is what Display prints for r) that is
     - legal (Spec/SpecLoad.v: every line break stands, up to white space, after one of the
       continuation characters  -  ,  ;  = ; any indentation, trailing white space, blank lines and
       `#`, `%`, `//` comments outside parentheses and brackets), and
     - leaves the texts as they are when the reader puts one space at each line break:
       `expected (lay_rules L) texts = texts` - in particular every `exact_layout` of C21 (each
       break in front of the single space that follows the continuation character),
   load_kb_from_file with the REAL parse_rule (Model/Api.api_parse_rule: the real parse_subgoal and
   parse_complex, the fuel of C18) returns the knowledge base `add_rules kb rs` and no error.

   Proved on the way: the text of a closed rule is a rule text in the sense of C21 (`wf_text`:
   its only rule end is its last character, no comment delimiter outside brackets).

   The second hypothesis cannot be dropped: `legal` allows a break after ANY `-`, also the sign of
   a negative number, and the reader's space then changes the rule (Example
   break_after_minus_sign_changes_the_rule below: `p(-5).` written `p(-` / `5).` loads as p(- 5)
   with the atom `- 5`).  In the texts of closed rules every other continuation character is
   followed by exactly one space (`, `  `; `  ` = `  ` :- `), so the breaks that are excluded are
   those after a minus sign. *)
From Coq Require Import String.
From Suiron Require Import Model.Tokenizer Model.ParseRule Proofs.TokenizerProofs Proofs.GoalRoundtrip.
From Suiron Require Import Model.ParseTerm Model.ParseGoal Model.Show Model.ShowGoal Model.Api.
From Suiron Require Import Proofs.TermRoundtrip Proofs.TermRoundtripMain Proofs.GoalLeafParse
  Proofs.RuleRoundtripClosed Proofs.RuleRoundtripCheck Proofs.LoadClosed Proofs.LoadLayout.
From Suiron Require Import Model.Reader Spec.SpecLoad Proofs.ReaderProofs.
Open Scope N_scope.
Open Scope string_scope.

Theorem C21_closed_load : forall rs L kb,
  Forall closed_rule rs ->
  legal L (map rule_text rs) = true ->
  expected (lay_rules L) (map rule_text rs) = map rule_text rs ->
  load_kb_from_file api_parse_rule kb (render L (map rule_text rs)) =
  (do kb' <- add_rules kb rs; Ok (kb', true)).
Proof. exact load_closed. Qed.

(* the same with a condition on the layout that is checked by eye: every line break of a rule stands
   right after `,` `;` `=` or the neck `:-` (never after the sign of a number); indentation, blank
   lines and comments as `legal` allows *)
Theorem C21_closed_load_layout : forall rs L kb,
  Forall closed_rule rs ->
  legal L (map rule_text rs) = true ->
  breaks_at_separators L (map rule_text rs) = true ->
  load_kb_from_file api_parse_rule kb (render L (map rule_text rs)) =
  (do kb' <- add_rules kb rs; Ok (kb', true)).
Proof. exact load_closed_layout. Qed.

Theorem C21_closed_load_exact : forall rs L kb,
  Forall closed_rule rs ->
  legal L (map rule_text rs) = true ->
  exact_layout (lay_rules L) (map rule_text rs) = true ->
  load_kb_from_file api_parse_rule kb (render L (map rule_text rs)) =
  (do kb' <- add_rules kb rs; Ok (kb', true)).
Proof. exact load_closed_exact. Qed.

(* the texts Display prints for closed rules are rule texts in the sense of C21 *)
Theorem C21_closed_wf_text : forall r, closed_rule r -> wf_text (rule_text r) = true.
Proof. exact closed_rule_wf_text. Qed.

(* each of them parses to its rule with the parser the user calls *)
Theorem C21_closed_api_parse_rule : forall r,
  closed_rule r -> api_parse_rule (rule_text r) = Ok (POk r) /\ show_rule r = Ok (rule_text r).
Proof.
  intros r H. split; [now apply api_parse_rule_closed|].
  now destruct (roundtrip_rule_closed r _ _ H (le_n _) (le_n _)) as [Hs _].
Qed.

(* with the executable test, from the empty knowledge base *)
Corollary C21_closed_load_checked : forall rs L,
  forallb closed_ruleb rs = true ->
  legal L (map rule_text rs) = true ->
  exact_layout (lay_rules L) (map rule_text rs) = true ->
  load_kb_from_file api_parse_rule [] (render L (map rule_text rs)) =
  (do kb <- add_rules [] rs; Ok (kb, true)).
Proof.
  intros rs L H. apply C21_closed_load_exact.
  apply Forall_forall. intros r Hr. apply closed_ruleb_sound.
  rewrite forallb_forall in H. now apply H.
Qed.

(* ---- non-vacuity: three rules (a list with `| $_`, a goal without arguments, not(..), a cut,
   a negative number, an atom of two words, `l = r`, a disjunction with fail); the second rule on
   three lines with indentation, a `#` comment behind its first line and a `%` comment line
   before its third; a blank line, a comment line first and last ---- *)
Section Witness.
  Let A s := TAtom (s2l s).
  Let V s := TVar 0 (s2l s).
  Let r1 := mkRule (TComplex [A "member"; V "$X"; make_linked_list true [V "$X"; TAnon]]) GNil.
  Let r2 := mkRule (TComplex [A "run"])
     (GOp OAnd [GCall (TComplex [A "init"]);
                GOp ONot [GCall (TComplex [A "member"; A "a"; make_list_of_terms [A "b"; TInt (-3)]])];
                GBip (s2l "!") None;
                GBip (s2l "unify") (Some [V "$Y"; A "New York"])]).
  Let r3 := mkRule (TComplex [A "p"; V "$X"])
     (GOp OOr [GCall (TComplex [A "q"; V "$X"]); GBip (s2l "fail") None]).
  Let rs := [r1; r2; r3].

  Let d0 := mkDeco [] [] [] [].
  Let L := mkLayout
    [ (mkDeco [mkBlank [] (s2l "% a small knowledge base")] [] [] [], []);
      (mkDeco [mkBlank [] []] [] (s2l " ") (s2l "# entry point"),
         [(8%nat, mkDeco [] (s2l "    ") [] []);
          (36%nat, mkDeco [mkBlank (s2l "  ") (s2l "% then commit")] (s2l "    ") [] [])]);
      (d0, []) ]
    [mkBlank [] (s2l "// end")].

  Example C21_closed_witness :
    map rule_text rs =
      [ s2l "member($X, [$X | $_]).";
        s2l "run() :- init(), not(member(a, [b, -3])), !, $Y = New York.";
        s2l "p($X) :- q($X); fail." ] /\
    render L (map rule_text rs) =
      [ s2l "% a small knowledge base";
        s2l "member($X, [$X | $_]).";
        [];
        s2l "run() :- # entry point";
        s2l "     init(), not(member(a, [b, -3])), !,";
        s2l "  % then commit";
        s2l "     $Y = New York.";
        s2l "p($X) :- q($X); fail.";
        s2l "// end" ] /\
    load_kb_from_file api_parse_rule [] (render L (map rule_text rs)) =
      Ok ([ (s2l "member/2", [r1]); (s2l "run/0", [r2]); (s2l "p/1", [r3]) ], true).
  Proof.
    split; [vm_compute; reflexivity|]. split; [vm_compute; reflexivity|].
    rewrite C21_closed_load_checked by (vm_compute; reflexivity). vm_compute. reflexivity.
  Qed.

  (* the same by running the model *)
  Example C21_closed_witness_computed :
    load_kb_from_file api_parse_rule [] (render L (map rule_text rs)) =
      Ok ([ (s2l "member/2", [r1]); (s2l "run/0", [r2]); (s2l "p/1", [r3]) ], true).
  Proof. vm_compute. reflexivity. Qed.
End Witness.

(* ---- `legal` alone is not enough: a break after the sign of a negative number ---- *)
Example break_after_minus_sign_changes_the_rule :
  let r := mkRule (TComplex [TAtom (s2l "p"); TInt (-5)]) GNil in
  let L := mkLayout [ (mkDeco [] [] [] [], [(3%nat, mkDeco [] [] [] [])]) ] [] in
  closed_ruleb r = true /\
  rule_text r = s2l "p(-5)." /\
  legal L [rule_text r] = true /\
  render L [rule_text r] = [s2l "p(-"; s2l "5)."] /\
  expected (lay_rules L) [rule_text r] = [s2l "p(- 5)."] /\
  load_kb_from_file api_parse_rule [] (render L [rule_text r]) =
    Ok ([ (s2l "p/1", [mkRule (TComplex [TAtom (s2l "p"); TAtom (s2l "- 5")]) GNil]) ], true).
Proof. vm_compute. repeat split; reflexivity. Qed.

Check C21_closed_load : forall rs L kb,
  Forall closed_rule rs ->
  legal L (map rule_text rs) = true ->
  expected (lay_rules L) (map rule_text rs) = map rule_text rs ->
  load_kb_from_file api_parse_rule kb (render L (map rule_text rs)) =
  (do kb' <- add_rules kb rs; Ok (kb', true)).

Print Assumptions C21_closed_load.
Print Assumptions C21_closed_load_layout.
Print Assumptions C21_closed_load_exact.
Print Assumptions C21_closed_wf_text.
Print Assumptions C21_closed_load_checked.
Print Assumptions C21_closed_api_parse_rule.
