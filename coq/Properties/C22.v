(* C22 - A query's answers do not depend on earlier queries. *)
From Suiron Require Import Model.Term Model.Subst Model.Rename Model.Solve Model.PResult Model.Api Proofs.SolveFrame.

(* All state that outlives a query is the record `world` (Model/Solve.v): the variable-id
   counter, the stop flag, the text printed so far (and, under the verification hook only,
   a pending stop schedule).  `run_query kb fuel terms ops w`: build the query with the query
   constructor in world w, make its base node, apply any sequence of next_solution / solve /
   solve_all to it; result: all observations and everything printed.

   For EVERY world w - that is, whatever ran before: any number of earlier queries, exhausted,
   re-asked, abandoned half-way or timed out (which leaves the stop flag set) - the
   observations are those of a fresh process and the text printed is the same, after what
   had been printed before.  (Hypothesis: no hook schedule is pending; the real crate has none.)
   What the theorem does NOT cover is a query that is built, then another query is BUILT,
   then the first one is asked: that is the known finding `other-query-built-between`. *)
Theorem C22_query_independent_of_history : forall kb fuel terms ops w,
  stop_after w = None ->
  run_query kb fuel terms ops w =
  match run_query kb fuel terms ops world0 with
  | Ok (os, o) => Ok (os, out w ++ o)
  | Panic => Panic
  | OutOfFuel => OutOfFuel
  end.
Proof. exact query_independent_of_history. Qed.

(* The two facts behind it: the constructor overwrites counter and flag ... *)
Theorem C22_constructor_forgets : forall terms w,
  api_make_query terms w =
  match api_make_query terms world0 with
  | Ok (g, w0) => Ok (g, mkWorld (next_id w0) false (stop_after w) (out w))
  | Panic => Panic
  | OutOfFuel => OutOfFuel
  end.
Proof. exact make_query_forgets. Qed.

(* the same for a query built from text (parse_query), zero-argument queries included *)
Theorem C22_text_constructor_forgets : forall fuel s w,
  api_parse_query fuel s w =
  match api_parse_query fuel s world0 with
  | Ok (POk (g, w0)) => Ok (POk (g, mkWorld (next_id w0) false (stop_after w) (out w)))
  | Ok PErr => Ok PErr
  | Panic => Panic
  | OutOfFuel => OutOfFuel
  end.
Proof. exact parse_query_forgets. Qed.

(* ... and the search treats the output as append-only: running with more text already
   printed gives the same node, answer and cut signal, and the same text after the prefix. *)
Theorem C22_output_is_append_only : forall kb bf pre fuel nd w,
  next kb bf fuel nd (wpre pre w) = rpre pre (next kb bf fuel nd w).
Proof. exact next_frame. Qed.

(* non-vacuity: n(1). n(2). |- n($X) from a world left behind by a timed-out query
   (flag set, counter 57, text printed) *)
Definition C22_demo : bool :=
  let kb := [([110; 47; 49]%N, [mkRule (TComplex [TAtom [110%N]; TInt 1]) GNil; mkRule (TComplex [TAtom [110%N]; TInt 2]) GNil])] in
  let q := [TAtom [110%N]; TVar 0 [36; 88]%N] in
  match run_query kb 30 q [QSolveAll] (mkWorld 57 true None [120%N]),
        run_query kb 30 q [QSolveAll] world0 with
  | Ok ([OStrs [a; b]], o1), Ok ([OStrs [a'; b']], o2) => true
  | _, _ => false
  end.
Example C22_witness : C22_demo = true.
Proof. vm_compute. reflexivity. Qed.

Check C22_query_independent_of_history : forall kb fuel terms ops w,
  stop_after w = None ->
  run_query kb fuel terms ops w =
  match run_query kb fuel terms ops world0 with
  | Ok (os, o) => Ok (os, out w ++ o)
  | Panic => Panic
  | OutOfFuel => OutOfFuel
  end.

Print Assumptions C22_query_independent_of_history.
Print Assumptions C22_constructor_forgets.
Print Assumptions C22_output_is_append_only.
Print Assumptions C22_text_constructor_forgets.
