(* C18 - Parsers return a value or an error for every input, never panic.

   For EVERY string s and every fuel above a bound that is linear in the length of s, each of
   the entry points returns `Ok (POk v)` (a value) or `Ok PErr` (an error message) - never
   `Panic`, never `OutOfFuel` (the model's "has not finished"; so the running time is bounded
   by a linear number of loop iterations of the model).  The term-level parsers are those of
   Model/ParseTerm.v and Model/ParseGoal.v (Properties/C18terms.v); generate_goal, tokenize
   and parse_rule are those of Model/Tokenizer.v and Model/ParseRule.v
   (Properties/C18goals.v), here closed with the real leaf parsers. *)
From Coq Require Import Lia.
From Suiron Require Import Model.PResult Model.ParseTerm Model.ParseGoal Model.Tokenizer Model.ParseRule
  Proofs.ParseTermProofs Proofs.TokenizerProofs Proofs.TokenizerBounded.

Theorem C18_parse_term : forall s fuel, (parse_fuel s <= fuel)%nat ->
  parse_term fuel s = Ok PErr \/ exists v, parse_term fuel s = Ok (POk v).
Proof. exact parse_term_total. Qed.
Theorem C18_parse_linked_list : forall s fuel, (parse_fuel s <= fuel)%nat ->
  parse_linked_list fuel s = Ok PErr \/ exists v, parse_linked_list fuel s = Ok (POk v).
Proof. exact parse_linked_list_total. Qed.
Theorem C18_parse_complex : forall s fuel, (parse_fuel s <= fuel)%nat ->
  parse_complex fuel s = Ok PErr \/ exists v, parse_complex fuel s = Ok (POk v).
Proof. exact parse_complex_total. Qed.
Theorem C18_parse_function : forall s fuel, (parse_fuel s <= fuel)%nat ->
  parse_function fuel s = Ok PErr \/ exists v, parse_function fuel s = Ok (POk v).
Proof. exact parse_function_total. Qed.
Theorem C18_parse_query : forall s fuel, (parse_fuel s <= fuel)%nat ->
  parse_query fuel s = Ok PErr \/ exists v, parse_query fuel s = Ok (POk v).
Proof. exact parse_query_total. Qed.
Theorem C18_parse_subgoal : forall s fuel, (parse_fuel s <= fuel)%nat ->
  parse_subgoal fuel s = Ok PErr \/ exists v, parse_subgoal fuel s = Ok (POk v).
Proof. exact parse_subgoal_total. Qed.
Theorem C18_parse_arguments : forall s fuel, (parse_fuel s <= fuel)%nat ->
  parse_arguments fuel s = Ok PErr \/ exists v, parse_arguments fuel s = Ok (POk v).
Proof. exact parse_arguments_total. Qed.

(* goals and rules, with the real leaf parsers plugged in (fuel length s + 2 suffices for
   every leaf, a leaf text never being longer than the input) *)
Lemma leaf_subgoal_ok (s t : str) : (length t <= length s)%nat ->
  (exists g, parse_subgoal (length s + 2) t = Ok (POk g)) \/ parse_subgoal (length s + 2) t = Ok PErr.
Proof.
  intro H. destruct (parse_subgoal_total t (length s + 2)) as [E|[v E]]; [unfold parse_fuel; lia| |]; eauto.
Qed.
Lemma leaf_complex_ok (s t : str) : (length t <= length s)%nat ->
  (exists g, parse_complex (length s + 2) t = Ok (POk g)) \/ parse_complex (length s + 2) t = Ok PErr.
Proof.
  intro H. destruct (parse_complex_total t (length s + 2)) as [E|[v E]]; [unfold parse_fuel; lia| |]; eauto.
Qed.

Theorem C18_generate_goal : forall s fuel, (2 * length s + 3 <= fuel)%nat ->
  (exists g, generate_goal (parse_subgoal (length s + 2)) fuel s = Ok (POk g)) \/
  generate_goal (parse_subgoal (length s + 2)) fuel s = Ok PErr.
Proof. intros s fuel H. apply generate_goal_returns_le; [apply leaf_subgoal_ok|exact H]. Qed.

Theorem C18_parse_rule : forall s fuel, (2 * length s + 3 <= fuel)%nat ->
  (exists r, parse_rule (parse_subgoal (length s + 2)) (parse_complex (length s + 2)) fuel s = Ok (POk r)) \/
  parse_rule (parse_subgoal (length s + 2)) (parse_complex (length s + 2)) fuel s = Ok PErr.
Proof.
  intros s fuel H. apply parse_rule_returns_le; [apply leaf_subgoal_ok|apply leaf_complex_ok|exact H].
Qed.

Check C18_parse_rule : forall s fuel, (2 * length s + 3 <= fuel)%nat ->
  (exists r, parse_rule (parse_subgoal (length s + 2)) (parse_complex (length s + 2)) fuel s = Ok (POk r)) \/
  parse_rule (parse_subgoal (length s + 2)) (parse_complex (length s + 2)) fuel s = Ok PErr.

Print Assumptions C18_parse_term.
Print Assumptions C18_parse_linked_list.
Print Assumptions C18_parse_complex.
Print Assumptions C18_parse_function.
Print Assumptions C18_parse_query.
Print Assumptions C18_parse_subgoal.
Print Assumptions C18_parse_arguments.
Print Assumptions C18_generate_goal.
Print Assumptions C18_parse_rule.
