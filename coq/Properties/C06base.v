(* C06 - Unification returns a most general unifier extending prior bindings.

   PROVED (all terms without function calls whose complex terms have an atom as functor,
   all substitutions, all fuel): SOUNDNESS - a successful unification returns a substitution
   set that keeps every earlier binding verbatim and under which both terms denote the same
   term (`teq`, Spec/SpecUnify.v: bindings followed, `$_` matching anything, floats by IEEE
   ==, lists through their nodes with a tail variable standing for the rest of the list) -
   and no binding cycle is created (C08).  NOT YET PROVED: completeness (failure only when no
   unifier exists) and generality (no more is bound than a most general unifier binds); the
   statement is `unify_complete_statement` and both are evaluated on every run against a
   reference unifier with occurs check (gen/C06.py, lib/refunify.py). *)
From Suiron Require Import Model.Term Model.Subst Model.Unify Spec.SpecCompare Spec.SpecUnify
  Proofs.UnifyInv Proofs.UnifyProps Proofs.UnifySound.

Definition C06_full : Prop := unify_complete_statement unify.

Theorem C06_partial_sound : forall fuel a b ss ss',
  wf2 a = true -> wf2 b = true -> wf2_ss ss ->
  unify fuel a b ss = Ok (Some ss') ->
  teq ss' a b /\ keeps ss ss' /\ wf2_ss ss'.
Proof. exact unify_sound. Qed.

(* ... for function terms too: every earlier binding is kept verbatim *)
Theorem C06_partial_extends : forall fuel a b ss ss',
  wf_term a = true -> wf_term b = true -> wf_ss ss ->
  unify fuel a b ss = Ok (Some ss') -> extends ss ss' /\ wf_ss ss'.
Proof. exact unify_extends. Qed.

(* ... and following bindings still ends everywhere (no occurs-check-free cycle) *)
Theorem C06_partial_no_cycle : forall fuel a b ss ss',
  wf_term a = true -> wf_term b = true -> wf_ss ss ->
  unify fuel a b ss = Ok (Some ss') -> chains_end ss -> chains_end ss'.
Proof. exact unify_chains_end. Qed.

(* the relation is a sensible notion of "same term": reflexive, symmetric, stable under more bindings *)
Theorem C06_teq_refl : forall ss t, fn_free t = true -> teq ss t t.
Proof. exact teq_refl. Qed.
Theorem C06_teq_sym : forall ss a b, teq ss a b -> teq ss b a.
Proof. exact teq_sym. Qed.
Theorem C06_teq_mono : forall ss ss', keeps ss ss' -> forall a b, teq ss a b -> teq ss' a b.
Proof. exact teq_mono. Qed.

(* non-vacuity: [a, $Y | $T] = [$X, b, c] under $X -> a binds $Y to b and $T to [c] *)
Definition C06_demo : bool :=
  let a := TAtom [97%N] in let b := TAtom [98%N] in let c := TAtom [99%N] in
  let X := TVar 1 [36; 88]%N in let Y := TVar 2 [36; 89]%N in let T := TVar 3 [36; 84]%N in
  let l1 := TList a (TList Y (TList T empty_list 1 true) 2 false) 3 false in
  let l2 := TList X (TList b (TList c empty_list 1 false) 2 false) 3 false in
  match unify 20 l1 l2 [None; Some a] with
  | Ok (Some [None; Some (TAtom [97%N]); Some (TAtom [98%N]); Some (TList (TAtom [99%N]) _ _ false)]) => wf2 l1 && wf2 l2
  | _ => false
  end.
Example C06_witness : C06_demo = true.
Proof. vm_compute. reflexivity. Qed.

Check C06_partial_sound : forall fuel a b ss ss',
  wf2 a = true -> wf2 b = true -> wf2_ss ss ->
  unify fuel a b ss = Ok (Some ss') ->
  teq ss' a b /\ keeps ss ss' /\ wf2_ss ss'.

Print Assumptions C06_partial_sound.
Print Assumptions C06_partial_extends.
Print Assumptions C06_partial_no_cycle.
Print Assumptions C06_teq_refl.
Print Assumptions C06_teq_sym.
Print Assumptions C06_teq_mono.
