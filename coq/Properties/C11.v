(* C11 - Answers do not depend on how program variables are named.
   (First half - clause fetch commutes with renaming of names - in Properties/C11base.v, restated below.)

   PROVED (Proofs/NamesRel.v, NamesUnify.v, NamesBuiltins.v, NamesSearch.v): for the reference search
   of Spec/SpecCut.v (which the engine model refines, Proofs/RefineCut.v) - if every clause of kb'
   is the corresponding clause of kb with its variable names renamed by a per clause injective map,
   then for every query, fuel and world the two searches end in the same outcome class (answers /
   panic / out of fuel) and, when they give answers, the same number of answers in the same order,
   pairwise equal except for the names of variables, and worlds that agree on the variable-id
   counter, the stop flag and the stop schedule.  Every built-in predicate, unification, the
   arithmetic functions, cut, not and time are covered.
   PROVED ALSO for the engine model itself (Proofs/NamesEngine.v): a lock-step simulation of
   `next` on solution nodes; hence the observations of any number of requests on a query built by
   make_query are equal once names are erased (C11_requests: C11_full of Properties/C11base.v with the
   hypothesis okkb and without the claim about the output).

   The property is FALSE in general; three things in the engine look at the NAME of a variable:
     1. `join(..)` turns its arguments into text with Display, which prints an unbound variable as
        name_id: the answer contains the name               (witness: cex_join below);
     2. the key under which the clauses of a call goal are looked up is Display(functor)/arity:
        a goal whose functor is a variable is looked up under a key that contains the name
                                                             (witness: cex_functor below);
     3. print and print_list write unbound variables with their names: the OUTPUT differs
        (witness: cex_print; hence C11_full of Properties/C11base.v, which asks for equal output,
        is false as stated: C11_full_false).
   The theorem therefore assumes `okkb kb` (decidable: no join with a variable among its
   arguments, no variable in the functor of a call goal) and does not relate the output. *)
From Coq Require Import String Lia.
From Suiron Require Import Model.Term Model.Subst Model.Show Model.Lists Model.Arith Model.Unify
  Model.Compare Model.Builtins Model.Rename Model.Solve Spec.SpecCut
  Proofs.RenameProofs Proofs.RenameNames Proofs.SolveFrame Proofs.RefineCut
  Proofs.NamesRel Proofs.NamesUnify Proofs.NamesBuiltins Proofs.NamesSearch Proofs.NamesEngine Properties.C11base.
Open Scope N_scope.

(* ---- the theorem ---- *)
Theorem C11_answers : forall kb kb' bf fuel q w,
  kb_renamed kb kb' -> okkb kb = true -> query_ok q (next_id w) ->
  rrel answers_rel (canswers kb bf fuel q w) (canswers kb' bf fuel q w).
Proof. exact canswers_renamed. Qed.

(* for a query built by make_query (the parser's path), run in the world make_query leaves *)
Theorem C11_answers_query : forall kb kb' bf fuel terms q ctr w,
  kb_renamed kb kb' -> okkb kb = true -> forallb okt terms = true ->
  make_query terms = Ok (GCall q, ctr) -> next_id w = ctr ->
  rrel answers_rel (canswers kb bf fuel q w) (canswers kb' bf fuel q w).
Proof. exact canswers_renamed_query. Qed.

(* the engine model (Model/Solve.v `next`, asked until it reports no answer): whenever the reference
   search of the query finishes and both drains finish, the answers of the two engines are equal
   up to names, and the worlds agree on counter, flag and schedule *)
Theorem C11_engine : forall kb kb' bf fs q w R nd w1 nd' w1' m F A m' F' A',
  kb_renamed kb kb' -> okkb kb = true -> query_ok q (next_id w) ->
  canswers kb bf fs q w = Ok R ->
  make_base_node kb (GCall q) w = Ok (nd, w1) -> ask_all kb bf m F nd w1 = Ok A ->
  make_base_node kb' (GCall q) w = Ok (nd', w1') -> ask_all kb' bf m' F' nd' w1' = Ok A' ->
  answers_rel A A'.
Proof.
  intros kb kb' bf fs q w R nd w1 nd' w1' m F A m' F' A' Hkb Hok Hq Hc Hn Ha Hn' Ha'.
  pose proof (canswers_renamed kb kb' bf fs q w Hkb Hok Hq) as H. rewrite Hc in H.
  destruct (canswers kb' bf fs q w) as [R'| |] eqn:Hc'; cbn in H; try contradiction.
  rewrite (refines_cut kb bf q w fs R nd w1 m F A Hc Hn Ha).
  rewrite (refines_cut kb' bf q w fs R' nd' w1' m' F' A' Hc' Hn' Ha'). exact H.
Qed.

(* the engine model, any number of requests, no termination hypothesis: one request on related nodes *)
Theorem C11_next : forall kb kb' bf fuel V nd nd' w w',
  kb_renamed kb kb' -> okkb kb = true ->
  vfun V -> vbound V (next_id w) -> simn V nd nd' -> wsim w w' ->
  rrel (step_rel V (next_id w)) (next kb bf fuel nd w) (next kb' bf fuel nd' w').
Proof. intros kb kb' bf fuel V nd nd' w w' Hkb Hok. apply (proj1 (next_sim kb kb' bf Hkb Hok fuel)). Qed.

(* make_query, the query's node, n requests: same outcome class, and related observations *)
Theorem C11_requests_rel : forall kb kb' fuel terms n w,
  kb_renamed kb kb' -> okkb kb = true -> forallb okt terms = true ->
  rrel (fun x x' => Forall2 obs_rel (fst x) (fst x'))
       (run_query kb fuel terms (repeat QAsk n) w) (run_query kb' fuel terms (repeat QAsk n) w).
Proof. intros. apply run_query_asks; assumption. Qed.

(* in the form of C11_full *)
Theorem C11_requests : forall kb kb' fuel terms n w os o,
  kb_renamed kb kb' -> okkb kb = true -> forallb okt terms = true ->
  run_query kb fuel terms (repeat QAsk n) w = Ok (os, o) ->
  exists os' o', run_query kb' fuel terms (repeat QAsk n) w = Ok (os', o') /\
                 map no_names_obs os' = map no_names_obs os.
Proof.
  intros kb kb' fuel terms n w os o Hkb Hok Ht H.
  pose proof (run_query_asks kb kb' Hkb Hok fuel terms n w Ht) as R. rewrite H in R.
  destruct (run_query kb' fuel terms (repeat QAsk n) w) as [[os' o']| |]; cbn in R; try contradiction.
  exists os', o'. split; [reflexivity|]. cbn [fst] in R. clear H.
  induction R as [|x y l l' Hxy _ IH]; [reflexivity|]. cbn [map]. rewrite IH. f_equal.
  destruct x as [s| |], y as [s'| |]; cbn in Hxy; try contradiction.
  destruct s as [s|], s' as [s'|]; cbn in Hxy; try contradiction; [|reflexivity].
  cbn. do 2 f_equal. symmetry. unfold no_names. eapply sims_erased; [reflexivity|exact Hxy].
Qed.

(* ---- renaming a name by swapping two names is injective ---- *)
Definition swapn (a b s : str) : str := if str_eqb s a then b else if str_eqb s b then a else s.

Lemma swapn_invol a b s : swapn a b (swapn a b s) = s.
Proof.
  unfold swapn. destruct (str_eqb s a) eqn:E1.
  - apply str_eqb_eq in E1; subst. destruct (str_eqb b a) eqn:E2.
    + now apply str_eqb_eq in E2.
    + now rewrite str_eqb_refl.
  - destruct (str_eqb s b) eqn:E2.
    + apply str_eqb_eq in E2; subst. now rewrite str_eqb_refl.
    + now rewrite E1, E2.
Qed.

Lemma swapn_inj a b x y : swapn a b x = swapn a b y -> x = y.
Proof. intro H. rewrite <- (swapn_invol a b x), H. apply swapn_invol. Qed.

Definition at_ (s : string) := TAtom (s2l s).
Definition v_ (s : string) := TVar 0 (s2l s).
Definition w0 (n : N) := mkWorld n false None [].
Definition erase_names (a : list subst) := map (map (option_map no_names)) a.

(* ---- 1. join shows the name of an unbound variable ----
   f($X, $Y) :- unify($Y, join($X, hello)).    ?- f($A, $R).
   $R = `$X_3 hello`   versus   $R = `$Z_3 hello`   *)
Definition kb_join (x : string) : kbase :=
  [(s2l "f/2", [mkRule (TComplex [at_ "f"; v_ x; v_ "$Y"])
                       (GBip n_unify (Some [v_ "$Y"; TFun fname_join [v_ x; at_ "hello"]]))])].
Definition q_join := TComplex [at_ "f"; TVar 1 (s2l "$A"); TVar 2 (s2l "$R")].

Lemma kb_join_renamed : kb_renamed (kb_join "$X") (kb_join "$Z").
Proof.
  constructor; [|constructor]. split; [reflexivity|]. constructor; [|constructor].
  exists (swapn (s2l "$X") (s2l "$Z")). split; [apply swapn_inj|]. vm_compute. reflexivity.
Qed.

Definition second_of (r : res (list subst * world)) : res (list (option term)) :=
  match r with Ok (l, _) => Ok (map (fun s => ss_get s 2) l) | Panic => Panic | OutOfFuel => OutOfFuel end.

Example cex_join :
  second_of (canswers (kb_join "$X") 50 50 q_join (w0 2)) = Ok [Some (at_ "$X_3 hello")] /\
  second_of (canswers (kb_join "$Z") 50 50 q_join (w0 2)) = Ok [Some (at_ "$Z_3 hello")].
Proof. split; vm_compute; reflexivity. Qed.

(* the hypothesis of the theorem excludes it *)
Example cex_join_not_ok : okkb (kb_join "$X") = false.
Proof. vm_compute. reflexivity. Qed.

(* ---- 2. the key of a call goal whose functor is a variable contains the name ----
   g :- $P(c).      `$P_1`(c).         ?- g.
   one answer   versus   none (the goal $Q_1(c) is looked up under `$Q_1/1`) *)
Definition kb_functor (p : string) : kbase :=
  [(s2l "g/0", [mkRule (TComplex [at_ "g"]) (GCall (TComplex [v_ p; at_ "c"]))]);
   (s2l "$P_1/1", [mkRule (TComplex [at_ "$P_1"; at_ "c"]) GNil])].
Definition q_functor := TComplex [at_ "g"].

Lemma kb_functor_renamed : kb_renamed (kb_functor "$P") (kb_functor "$Q").
Proof.
  constructor; [|constructor; [|constructor]]; (split; [reflexivity|]); (constructor; [|constructor]);
    exists (swapn (s2l "$P") (s2l "$Q")); (split; [apply swapn_inj|]); vm_compute; reflexivity.
Qed.

Definition count_of (r : res (list subst * world)) : res nat :=
  match r with Ok (l, _) => Ok (length l) | Panic => Panic | OutOfFuel => OutOfFuel end.

Example cex_functor :
  count_of (canswers (kb_functor "$P") 50 50 q_functor (w0 0)) = Ok 1%nat /\
  count_of (canswers (kb_functor "$Q") 50 50 q_functor (w0 0)) = Ok 0%nat.
Proof. split; vm_compute; reflexivity. Qed.

Example cex_functor_not_ok : okkb (kb_functor "$P") = false.
Proof. vm_compute. reflexivity. Qed.

(* ---- 3. print writes the name of an unbound variable: the output differs ----
   p :- print($X).      ?- p.       prints `$X_1`   versus   `$Y_1` *)
Definition kb_print (x : string) : kbase :=
  [(s2l "p/0", [mkRule (TComplex [at_ "p"]) (GBip n_print (Some [v_ x]))])].

Lemma kb_print_renamed : kb_renamed (kb_print "$X") (kb_print "$Y").
Proof.
  constructor; [|constructor]. split; [reflexivity|]. constructor; [|constructor].
  exists (swapn (s2l "$X") (s2l "$Y")). split; [apply swapn_inj|]. vm_compute. reflexivity.
Qed.

Example cex_print :
  run_query (kb_print "$X") 20 [at_ "p"] (repeat QAsk 1) world0 = Ok ([OAns (Some [])], s2l "$X_1") /\
  run_query (kb_print "$Y") 20 [at_ "p"] (repeat QAsk 1) world0 = Ok ([OAns (Some [])], s2l "$Y_1").
Proof. split; vm_compute; reflexivity. Qed.

(* this program satisfies the hypothesis of the theorem: its answers ARE related, its output is not *)
Example cex_print_ok : okkb (kb_print "$X") = true.
Proof. vm_compute. reflexivity. Qed.

(* C11_full (Properties/C11base.v) asks for the same output: false as stated *)
Theorem C11_full_false : ~ C11_full.
Proof.
  intro H. destruct cex_print as [H1 H2].
  destruct (H _ _ _ _ _ _ _ _ kb_print_renamed H1) as (os' & H3 & _).
  rewrite H2 in H3. discriminate.
Qed.

(* ---- non-vacuity: a program with recursion, cut, not, arithmetic and list built-ins, solved as
   written and with every variable renamed; the answers agree once names are erased ---- *)
Definition kb_demo (x y z l : string) : kbase :=
  [(s2l "len/2",
     [mkRule (TComplex [at_ "len"; empty_list; TInt 0]) (GBip n_cut None);
      mkRule (TComplex [at_ "len"; TList (v_ x) (TList (v_ l) empty_list 1 true) 2 false; v_ y])
             (GOp OAnd [GCall (TComplex [at_ "len"; v_ l; v_ z]);
                        GBip n_unify (Some [v_ y; TFun fname_add [v_ z; TInt 1]])])]);
   (s2l "p/2",
     [mkRule (TComplex [at_ "p"; v_ x; v_ y])
             (GOp OAnd [GCall (TComplex [at_ "len"; v_ x; v_ y]);
                        GOp ONot [GBip n_equal (Some [v_ y; TInt 0])];
                        GBip n_print (Some [v_ z])]);
      mkRule (TComplex [at_ "p"; v_ x; TComplex [at_ "k"; v_ y; v_ z]]) GNil])].

Definition q_demo :=
  TComplex [at_ "p"; TList (at_ "a") (TList (at_ "b") empty_list 1 false) 2 false; TVar 1 (s2l "$N")].

Lemma kb_demo_renamed : kb_renamed (kb_demo "$X" "$Y" "$Z" "$L") (kb_demo "$Y" "$A" "$X" "$B").
Proof.
  set (phi := fun s : str =>
    if str_eqb s (s2l "$X") then s2l "$Y" else if str_eqb s (s2l "$Y") then s2l "$A"
    else if str_eqb s (s2l "$Z") then s2l "$X" else if str_eqb s (s2l "$L") then s2l "$B"
    else 0 :: s).
  assert (forall a b, phi a = phi b -> a = b) as Hinj.
  { intros a b. unfold phi.
    repeat match goal with
           | |- context [str_eqb ?u ?c] => let E := fresh "E" in destruct (str_eqb u c) eqn:E;
               [apply str_eqb_eq in E; subst u|]
           end; intro H; try reflexivity; try discriminate H; try (inversion H; reflexivity). }
  constructor; [|constructor; [|constructor]]; (split; [reflexivity|]).
  - constructor; [|constructor; [|constructor]]; exists phi; (split; [exact Hinj|]); vm_compute; reflexivity.
  - constructor; [|constructor; [|constructor]]; exists phi; (split; [exact Hinj|]); vm_compute; reflexivity.
Qed.

Example demo_ok : okkb (kb_demo "$X" "$Y" "$Z" "$L") = true.
Proof. vm_compute. reflexivity. Qed.

Definition erased (r : res (list subst * world)) : res (list subst * N) :=
  match r with Ok (l, w) => Ok (erase_names l, next_id w) | Panic => Panic | OutOfFuel => OutOfFuel end.

Example demo_runs :
  erased (canswers (kb_demo "$X" "$Y" "$Z" "$L") 60 60 q_demo (w0 1)) =
  erased (canswers (kb_demo "$Y" "$A" "$X" "$B") 60 60 q_demo (w0 1)) /\
  count_of (canswers (kb_demo "$X" "$Y" "$Z" "$L") 60 60 q_demo (w0 1)) = Ok 2%nat /\
  canswers (kb_demo "$X" "$Y" "$Z" "$L") 60 60 q_demo (w0 1) <>
  canswers (kb_demo "$Y" "$A" "$X" "$B") 60 60 q_demo (w0 1).
Proof. split; [vm_compute; reflexivity|]. split; [vm_compute; reflexivity|]. vm_compute. discriminate. Qed.

(* the same through the engine model: make_query, three requests (two answers, then none) *)
Definition terms_demo :=
  [at_ "p"; TList (at_ "a") (TList (at_ "b") empty_list 1 false) 2 false; v_ "$N"].
Definition erased_obs (r : res (list qobs * str)) : res (list qobs) :=
  match r with Ok (os, _) => Ok (map no_names_obs os) | Panic => Panic | OutOfFuel => OutOfFuel end.

Example demo_requests :
  erased_obs (run_query (kb_demo "$X" "$Y" "$Z" "$L") 60 terms_demo (repeat QAsk 3) world0) =
  erased_obs (run_query (kb_demo "$Y" "$A" "$X" "$B") 60 terms_demo (repeat QAsk 3) world0) /\
  (exists a b o, run_query (kb_demo "$X" "$Y" "$Z" "$L") 60 terms_demo (repeat QAsk 3) world0 =
                 Ok ([OAns (Some a); OAns (Some b); OAns None], o)) /\
  run_query (kb_demo "$X" "$Y" "$Z" "$L") 60 terms_demo (repeat QAsk 3) world0 <>
  run_query (kb_demo "$Y" "$A" "$X" "$B") 60 terms_demo (repeat QAsk 3) world0.
Proof.
  split; [vm_compute; reflexivity|]. split; [|vm_compute; discriminate].
  vm_compute. do 3 eexists. reflexivity.
Qed.

(* the first half: every clause fetch from the renamed knowledge base returns the renamed clause with
   the same fresh ids and the same counter *)
Theorem C11_clause_fetch : forall kb kb' pred i ctr,
  kb_renamed kb kb' ->
  match get_rule kb pred i ctr, get_rule kb' pred i ctr with
  | Ok (r, c), Ok (r', c') => c = c' /\ rule_renamed r r'
  | Panic, Panic => True
  | OutOfFuel, OutOfFuel => True
  | _, _ => False
  end.
Proof. exact get_rule_renamed. Qed.

Print Assumptions C11_clause_fetch.
Print Assumptions C11_answers.
Print Assumptions C11_answers_query.
Print Assumptions C11_next.
Print Assumptions C11_requests_rel.
Print Assumptions C11_engine.
Print Assumptions C11_requests.
Print Assumptions C11_full_false.
