(* C01 - the reference search (Spec/SpecCut.v) IS depth-first, left-to-right SLD resolution with the
   clauses tried in program order: the defining laws, for cut-free programs (no `!` in the goal nor
   in any clause body; not(..) and time(..) allowed).  All laws are equations between results and hold at
   EVERY fuel (Ok, Panic and OutOfFuel alike); the world - id counter, output, stop hook - is threaded
   exactly.

   The answers of a goal in RESUMABLE form are a `stream` (Proofs/SldOrder.v): SNil w | SCons s w rest
   (answer s found in world w; `rest w'` resumes the search in w') | SPanic | SOut; `sld` is the textbook
   stream-of-successes interpreter in direct style (conjunction = sbind, disjunction = sapp, call = sapp
   over the clauses idx = 0, 1, ..).  A resumable form is NECESSARY: fetched clauses are renamed at the
   id counter of the world, and in `g1, g2` the search of g1 resumes in the world g2 left, so the
   second answer of g1 depends on what g2 consumed; the law with `answers g1` as a plain list is false
   (C01sld_naive_list_law_is_false below).

   C01_sld_continuation   for EVERY continuation k: csolve g s w k = hand each answer of g, in order, to
                          k with the flag false, resume g in the world k returns, while k says Go; stop
                          with k's result at the first other signal.
   C01_sld_continuation_go    k always says Go: for each answer in order, k's answers, concatenated.
   C01_sld_continuation_pure  k leaves the world alone: flat_map over the answer LIST of g.
   C01_sld_answers        answers g s w = the stream of g read off, resumed each time in the world of the answer.
   C01_sld_conjunction    answers (g1, g2, ..) s w = for each answer (s1, w1) of g1, in order (resumably):
                          answers (g2, ..) s1 w1, concatenated; g1 resumed in the world that left.
   C01_sld_disjunction    answers (g1; g2; ..) s w = a1 ++ a2 where (a1, w1) = answers g1 s w and
                          (a2, w2) = answers (g2; ..) s w1 - the SAME s; final world w2.
   C01_sld_continuation_quiet, C01_sld_conjunction_quiet, C01_sld_conjunction_bip
                          when the plain answer LIST of g1 does suffice: k (resp. what stands to the
                          right of g1) has answers that depend on the substitution only and changes at
                          most the output of the world, which the search never reads.
   C01_sld_call, C01_sld_clauses   the clauses of the predicate at idx = 0, 1, 2, ..: fetch renamed at the
                          counter; head does not unify: nothing, next clause from the SAME world (counter
                          restored); else a fact gives the unifier, a rule the answers of its body
                          (continuation eliminated); then clause idx + 1 from the world reached. *)
From Suiron Require Import Model.Term Model.Subst Model.Show Model.Builtins Model.Rename Model.Unify Model.Solve
  Spec.SpecCut Proofs.CutOnce Proofs.SldOrder.
Open Scope N_scope.

(* ---- the vocabulary (Proofs/SldOrder.v, Proofs/CutOnce.v) ---- *)
Example C01sld_cutfree_kb : forall kb,
  cutfree_kb kb = forallb (fun e : str * list rule => forallb (fun r => cutfree (r_body r)) (snd e)) kb.
Proof. reflexivity. Qed.
Example C01sld_answers : forall kb bf fuel g s w,
  answers kb bf fuel g s w
  = do x <- csolve kb bf fuel g s w (fun s' w' _ => Ok ([s'], w', Go)); let '(a, w1, _) := x in Ok (a, w1).
Proof. reflexivity. Qed.
Example C01sld_canswers : forall kb bf fuel q w, canswers kb bf fuel q w = answers kb bf fuel (GCall q) [] w.
Proof. reflexivity. Qed.
Example C01sld_clause_answers : forall kb bf fuel t s key idx n w,
  clause_answers kb bf fuel t s key idx n w
  = do x <- cclauses kb bf fuel t s key idx n w (fun s' w' _ => Ok ([s'], w', Go)); let '(a, w1, _) := x in Ok (a, w1).
Proof. reflexivity. Qed.
(* consuming a stream *)
Example C01sld_sfold : forall k,
  (forall w, sfold (SNil w) k = Ok ([], w, Go)) /\
  (forall s w r, sfold (SCons s w r) k = seq (k s w false) (fun w1 => sfold (r w1) k)) /\
  sfold SPanic k = Panic /\ sfold SOut k = OutOfFuel.
Proof. repeat split. Qed.
Example C01sld_seach : forall f,
  (forall w, seach (SNil w) f = Ok ([], w)) /\
  (forall s w r, seach (SCons s w r) f =
     do x <- f s w; let '(a1, w1) := x in do y <- seach (r w1) f; let '(a2, w2) := y in Ok (a1 ++ a2, w2)) /\
  seach SPanic f = Panic /\ seach SOut f = OutOfFuel.
Proof. repeat split. Qed.
Example C01sld_slist : forall a, slist a = seach a (fun s w => Ok ([s], w)).
Proof. reflexivity. Qed.
(* the stream interpreter: its equations for conjunction, disjunction and the clauses of a call *)
Example C01sld_sld_and : forall kb bf f g1 g2 rest s w,
  sld kb bf (S f) (GOp OAnd (g1 :: g2 :: rest)) s w
  = sbind (sld kb bf f g1 s w) (fun s1 w1 => sld kb bf f (GOp OAnd (g2 :: rest)) s1 w1).
Proof. reflexivity. Qed.
Example C01sld_sld_or : forall kb bf f g1 g2 rest s w,
  sld kb bf (S f) (GOp OOr (g1 :: g2 :: rest)) s w
  = sapp (sld kb bf f g1 s w) (fun w1 => sld kb bf f (GOp OOr (g2 :: rest)) s w1).
Proof. reflexivity. Qed.
Example C01sld_sld_call : forall kb bf f t s w,
  sld kb bf (S f) (GCall t) s w
  = slift (term_key t) (fun key => let '(n, w0) := count_rules kb key w in sclauses kb bf f t s key 0 n w0).
Proof. reflexivity. Qed.
Example C01sld_sclauses : forall kb bf f t s key idx n w,
  sclauses kb bf (S f) t s key idx n w
  = if n <=? idx then SNil w
    else
      slift (get_rule kb key idx (next_id w)) (fun gr =>
        let '(r, ctr) := gr in
        slift (unify bf (r_head r) t s) (fun u =>
          match u with
          | None => sclauses kb bf f t s key (idx + 1) n w
          | Some s' =>
              sapp (if is_gnil (r_body r) then sunit s' (w_set_id w ctr)
                    else sld kb bf f (r_body r) s' (w_set_id w ctr))
                   (fun w2 => sclauses kb bf f t s key (idx + 1) n w2)
          end)).
Proof. reflexivity. Qed.
Example C01sld_sld_bip : forall kb bf f fn ts s w,
  sld kb bf (S f) (GBip fn ts) s w
  = slift (run_bip bf fn ts s) (fun r =>
      match br_sol r with
      | Some s' => sunit s' (w_print w (br_out r))
      | None => SNil (w_print w (br_out r))
      end).
Proof. reflexivity. Qed.
Example C01sld_sld_not : forall kb bf f g1 rest s w,
  sld kb bf (S f) (GOp ONot (g1 :: rest)) s w
  = match sld kb bf f g1 s w with
    | SNil w1 => sunit s w1
    | SCons _ w1 _ => SNil w1
    | e => e
    end.
Proof. reflexivity. Qed.
Example C01sld_sld_time : forall kb bf f g1 rest s w,
  sld kb bf (S f) (GOp OTime (g1 :: rest)) s w
  = match sld kb bf f g1 s w with
    | SNil w1 => SNil (w_print w1 elapsed_token)
    | SCons s1 w1 _ => sunit s1 (w_print w1 elapsed_token)
    | e => e
    end.
Proof. reflexivity. Qed.
Example C01sld_sunit_slift : (forall s w, sunit s w = SCons s w SNil) /\
  (forall A (r : res A) f, slift r f = match r with Ok a => f a | Panic => SPanic | OutOfFuel => SOut end).
Proof. split; reflexivity. Qed.
Example C01sld_sapp : forall b,
  (forall w, sapp (SNil w) b = b w) /\
  (forall s w r, sapp (SCons s w r) b = SCons s w (fun w' => sapp (r w') b)).
Proof. split; reflexivity. Qed.
Example C01sld_sbind : forall f,
  (forall w, sbind (SNil w) f = SNil w) /\
  (forall s w r, sbind (SCons s w r) f = sapp (f s w) (fun w' => sbind (r w') f)).
Proof. split; reflexivity. Qed.

(* ---- (L4) continuation elimination ---- *)
Theorem C01_sld_continuation : forall kb bf, cutfree_kb kb = true ->
  forall fuel g s w k, cutfree g = true ->
  csolve kb bf fuel g s w k = sfold (sld kb bf fuel g s w) k.
Proof. exact sld_continuation. Qed.

Theorem C01_sld_continuation_clauses : forall kb bf, cutfree_kb kb = true ->
  forall fuel t s key idx n w k,
  cclauses kb bf fuel t s key idx n w k = sfold (sclauses kb bf fuel t s key idx n w) k.
Proof. exact sld_continuation_clauses. Qed.

Theorem C01_sld_continuation_go : forall kb bf, cutfree_kb kb = true ->
  forall fuel g s w k, cutfree g = true ->
  (forall s1 w1 a w' sg, k s1 w1 false = Ok (a, w', sg) -> sg = Go) ->
  csolve kb bf fuel g s w k
  = do x <- seach (sld kb bf fuel g s w)
             (fun s1 w1 => do z <- k s1 w1 false; let '(a, w', _) := z in Ok (a, w'));
    let '(l, w') := x in Ok (l, w', Go).
Proof. exact sld_continuation_go. Qed.

Theorem C01_sld_continuation_pure : forall kb bf, cutfree_kb kb = true ->
  forall fuel g s w k (h : subst -> list subst), cutfree g = true ->
  (forall s1 w1, k s1 w1 false = Ok (h s1, w1, Go)) ->
  csolve kb bf fuel g s w k
  = do x <- answers kb bf fuel g s w; let '(l, w') := x in Ok (flat_map h l, w', Go).
Proof. exact sld_continuation_pure. Qed.

Theorem C01_sld_answers : forall kb bf, cutfree_kb kb = true ->
  forall fuel g s w, cutfree g = true ->
  answers kb bf fuel g s w = slist (sld kb bf fuel g s w).
Proof. exact answers_sld. Qed.

(* ---- (L1) conjunction ---- *)
Theorem C01_sld_conjunction : forall kb bf, cutfree_kb kb = true ->
  forall f g1 g2 rest s w, cutfree (GOp OAnd (g1 :: g2 :: rest)) = true ->
  answers kb bf (S f) (GOp OAnd (g1 :: g2 :: rest)) s w
  = seach (sld kb bf f g1 s w) (fun s1 w1 => answers kb bf f (GOp OAnd (g2 :: rest)) s1 w1).
Proof. exact sld_conjunction. Qed.

Theorem C01_sld_conjunction_k : forall kb bf, cutfree_kb kb = true ->
  forall f g1 g2 rest s w k, cutfree (GOp OAnd (g1 :: g2 :: rest)) = true ->
  csolve kb bf (S f) (GOp OAnd (g1 :: g2 :: rest)) s w k
  = sfold (sld kb bf f g1 s w) (fun s1 w1 _ => csolve kb bf f (GOp OAnd (g2 :: rest)) s1 w1 k).
Proof. exact sld_conjunction_k. Qed.

Theorem C01_sld_conjunction_1 : forall kb bf f g1 s w,
  answers kb bf (S f) (GOp OAnd [g1]) s w = answers kb bf f g1 s w.
Proof. exact sld_conjunction_1. Qed.

(* ---- (L2) disjunction ---- *)
Theorem C01_sld_disjunction : forall kb bf, cutfree_kb kb = true ->
  forall f g1 g2 rest s w, cutfree (GOp OOr (g1 :: g2 :: rest)) = true ->
  answers kb bf (S f) (GOp OOr (g1 :: g2 :: rest)) s w
  = do x <- answers kb bf f g1 s w; let '(a1, w1) := x in
    do y <- answers kb bf f (GOp OOr (g2 :: rest)) s w1; let '(a2, w2) := y in
    Ok (a1 ++ a2, w2).
Proof. exact sld_disjunction. Qed.

Theorem C01_sld_disjunction_1 : forall kb bf f g1 s w,
  answers kb bf (S f) (GOp OOr [g1]) s w = answers kb bf f g1 s w.
Proof. exact sld_disjunction_1. Qed.

(* ---- (L3) call ---- *)
Theorem C01_sld_call : forall kb bf f t s w,
  answers kb bf (S f) (GCall t) s w
  = do key <- term_key t;
    let '(n, w0) := count_rules kb key w in clause_answers kb bf f t s key 0 n w0.
Proof. exact sld_call. Qed.

Theorem C01_sld_clauses : forall kb bf, cutfree_kb kb = true ->
  forall f t s key idx n w,
  clause_answers kb bf (S f) t s key idx n w
  = if n <=? idx then Ok ([], w)
    else
      do gr <- get_rule kb key idx (next_id w);
      let '(r, ctr) := gr in
      do u <- unify bf (r_head r) t s;
      match u with
      | None => clause_answers kb bf f t s key (idx + 1) n w
      | Some s' =>
          do x <- (if is_gnil (r_body r) then Ok ([s'], w_set_id w ctr)
                   else answers kb bf f (r_body r) s' (w_set_id w ctr));
          let '(a1, w2) := x in
          do y <- clause_answers kb bf f t s key (idx + 1) n w2; let '(a2, w3) := y in
          Ok (a1 ++ a2, w3)
      end.
Proof. exact sld_clauses. Qed.

(* with a continuation that always says Go a cut-free search says Go *)
Theorem C01_sld_signal_go : forall kb bf, cutfree_kb kb = true ->
  forall fuel g s w k a w' sg, cutfree g = true ->
  (forall s1 w1 a1 w2 sg1, k s1 w1 false = Ok (a1, w2, sg1) -> sg1 = Go) ->
  csolve kb bf fuel g s w k = Ok (a, w', sg) -> sg = Go.
Proof. exact sld_signal_go. Qed.

(* ---- when the plain answer LIST of g suffices: k's answers depend on the substitution only and k changes
        at most the output of the world (the search never reads the output) ---- *)
Example C01sld_weq : forall w w',
  weq w w' <-> next_id w = next_id w' /\ stop_flag w = stop_flag w' /\ stop_after w = stop_after w'.
Proof. intros; reflexivity. Qed.

Theorem C01_sld_continuation_quiet : forall kb bf, cutfree_kb kb = true ->
  forall fuel g s w k (h : subst -> list subst) l w' sg, cutfree g = true ->
  (forall s1 w1 a w2 sg1, k s1 w1 false = Ok (a, w2, sg1) -> a = h s1 /\ weq w1 w2 /\ sg1 = Go) ->
  csolve kb bf fuel g s w k = Ok (l, w', sg) ->
  exists l0 w0, answers kb bf fuel g s w = Ok (l0, w0) /\ l = flat_map h l0 /\ weq w0 w' /\ sg = Go.
Proof. exact sld_continuation_quiet. Qed.

Theorem C01_sld_conjunction_quiet : forall kb bf, cutfree_kb kb = true ->
  forall f g1 g2 rest s w (h : subst -> list subst) l w', cutfree (GOp OAnd (g1 :: g2 :: rest)) = true ->
  (forall s1 w1 a w2, answers kb bf f (GOp OAnd (g2 :: rest)) s1 w1 = Ok (a, w2) -> a = h s1 /\ weq w1 w2) ->
  answers kb bf (S f) (GOp OAnd (g1 :: g2 :: rest)) s w = Ok (l, w') ->
  exists l0 w0, answers kb bf f g1 s w = Ok (l0, w0) /\ l = flat_map h l0 /\ weq w0 w'.
Proof. exact sld_conjunction_quiet. Qed.

Example C01sld_bip_answers : forall bf fn ts s,
  bip_answers bf fn ts s
  = match run_bip bf fn ts s with
    | Ok r => match br_sol r with Some s' => [s'] | None => [] end
    | _ => []
    end.
Proof. reflexivity. Qed.

Theorem C01_sld_conjunction_bip : forall kb bf, cutfree_kb kb = true ->
  forall f g1 fn ts s w l w', cutfree (GOp OAnd [g1; GBip fn ts]) = true ->
  answers kb bf (S f) (GOp OAnd [g1; GBip fn ts]) s w = Ok (l, w') ->
  exists l0 w0, answers kb bf f g1 s w = Ok (l0, w0) /\ l = flat_map (bip_answers bf fn ts) l0 /\ weq w0 w'.
Proof. exact sld_conjunction_bip. Qed.

(* ---- non-vacuity ----
     c(1). c(2).   d(7). d(8).                                   ground: no ids consumed
     p(f($A)). p(g($B)).   q(h($C)). q(7) :- print(5).           ids consumed, output written *)
Definition C01sld_at (c : N) : term := TAtom [c].
Definition C01sld_V (i c : N) : term := TVar i [36; c].
Definition C01sld_fact (p : N) (a : term) : rule := mkRule (TComplex [C01sld_at p; a]) GNil.
Definition C01sld_kb : kbase :=
  [([99; 47; 49], [C01sld_fact 99 (TInt 1); C01sld_fact 99 (TInt 2)]);
   ([100; 47; 49], [C01sld_fact 100 (TInt 7); C01sld_fact 100 (TInt 8)]);
   ([112; 47; 49], [C01sld_fact 112 (TComplex [C01sld_at 102; C01sld_V 0 65]);
                    C01sld_fact 112 (TComplex [C01sld_at 103; C01sld_V 0 66])]);
   ([113; 47; 49], [C01sld_fact 113 (TComplex [C01sld_at 104; C01sld_V 0 67]);
                    mkRule (TComplex [C01sld_at 113; TInt 7]) (GBip n_print (Some [TInt 5]))])].
Definition C01sld_X : term := C01sld_V 1 88.
Definition C01sld_Y : term := C01sld_V 2 89.
Definition C01sld_call (p : N) (a : term) : goal := GCall (TComplex [C01sld_at p; a]).
Definition C01sld_c := C01sld_call 99 C01sld_X.
Definition C01sld_d := C01sld_call 100 C01sld_Y.
Definition C01sld_p := C01sld_call 112 C01sld_X.
Definition C01sld_q := C01sld_call 113 C01sld_Y.
Definition C01sld_w : world := mkWorld 2 false None [].
(* the values of $X and $Y in each answer, the final id counter and the output *)
Definition C01sld_vals (r : res ares) : list (res (option term) * res (option term)) * N * str :=
  match r with
  | Ok (l, w) => (map (fun s => (get_ground_term 20 C01sld_X s, get_ground_term 20 C01sld_Y s)) l, next_id w, out w)
  | _ => ([], 0, [])
  end.
Definition C01sld_i (z : Z) : res (option term) := Ok (Some (TInt z)).
Definition C01sld_f (f i c : N) : res (option term) := Ok (Some (TComplex [C01sld_at f; C01sld_V i c])).

Example C01sld_kb_cutfree : cutfree_kb C01sld_kb = true.
Proof. vm_compute. reflexivity. Qed.

Example C01sld_c_answers : C01sld_vals (answers C01sld_kb 50 20 C01sld_c [] C01sld_w)
  = ([(C01sld_i 1, Ok None); (C01sld_i 2, Ok None)], 2, []).
Proof. vm_compute. reflexivity. Qed.
Example C01sld_d_answers : C01sld_vals (answers C01sld_kb 50 20 C01sld_d [] C01sld_w)
  = ([(Ok None, C01sld_i 7); (Ok None, C01sld_i 8)], 2, []).
Proof. vm_compute. reflexivity. Qed.
(* the conjunction: for each answer of c, the answers of d; the disjunction: append *)
Example C01sld_and_answers :
  C01sld_vals (answers C01sld_kb 50 20 (GOp OAnd [C01sld_c; C01sld_d]) [] C01sld_w)
  = ([(C01sld_i 1, C01sld_i 7); (C01sld_i 1, C01sld_i 8); (C01sld_i 2, C01sld_i 7); (C01sld_i 2, C01sld_i 8)], 2, []).
Proof. vm_compute. reflexivity. Qed.
Example C01sld_or_answers :
  C01sld_vals (answers C01sld_kb 50 20 (GOp OOr [C01sld_c; C01sld_d]) [] C01sld_w)
  = ([(C01sld_i 1, Ok None); (C01sld_i 2, Ok None); (Ok None, C01sld_i 7); (Ok None, C01sld_i 8)], 2, []).
Proof. vm_compute. reflexivity. Qed.

(* with variables in the clauses and output: both sides of the conjunction law, computed *)
Example C01sld_and_law_lhs :
  C01sld_vals (answers C01sld_kb 50 20 (GOp OAnd [C01sld_p; C01sld_q]) [] C01sld_w)
  = ([(C01sld_f 102 3 65, C01sld_f 104 4 67); (C01sld_f 102 3 65, C01sld_i 7);
      (C01sld_f 103 5 66, C01sld_f 104 6 67); (C01sld_f 103 5 66, C01sld_i 7)], 6, [53; 53]).
Proof. vm_compute. reflexivity. Qed.
Example C01sld_and_law_instance :
  answers C01sld_kb 50 20 (GOp OAnd [C01sld_p; C01sld_q]) [] C01sld_w
  = seach (sld C01sld_kb 50 19 C01sld_p [] C01sld_w)
          (fun s1 w1 => answers C01sld_kb 50 19 (GOp OAnd [C01sld_q]) s1 w1).
Proof. vm_compute. reflexivity. Qed.
Example C01sld_or_law_instance :
  C01sld_vals (answers C01sld_kb 50 20 (GOp OOr [C01sld_p; C01sld_q]) [] C01sld_w)
  = ([(C01sld_f 102 3 65, Ok None); (C01sld_f 103 4 66, Ok None);
      (Ok None, C01sld_f 104 5 67); (Ok None, C01sld_i 7)], 5, [53])
  /\ C01sld_vals (answers C01sld_kb 50 19 C01sld_p [] C01sld_w)
     = ([(C01sld_f 102 3 65, Ok None); (C01sld_f 103 4 66, Ok None)], 4, [])
  /\ C01sld_vals (answers C01sld_kb 50 19 (GOp OOr [C01sld_q]) [] (mkWorld 4 false None []))
     = ([(Ok None, C01sld_f 104 5 67); (Ok None, C01sld_i 7)], 5, [53]).
Proof. vm_compute. repeat split. Qed.

(* p($X), print(5): the answers of p($X) as they are (ids 3 and 4), the output written twice *)
Example C01sld_and_bip :
  C01sld_vals (answers C01sld_kb 50 20 (GOp OAnd [C01sld_p; GBip n_print (Some [TInt 5])]) [] C01sld_w)
  = ([(C01sld_f 102 3 65, Ok None); (C01sld_f 103 4 66, Ok None)], 4, [53; 53]).
Proof. vm_compute. reflexivity. Qed.

(* the law with the answers of g1 as a plain LIST (g1 run to the end first, then g2 on each answer,
   the world threaded) is false: the second answer of p is renamed at a different counter *)
Fixpoint C01sld_list_bind (l : list subst) (w : world) (f : subst -> world -> res ares) : res ares :=
  match l with
  | [] => Ok ([], w)
  | s :: r =>
      do x <- f s w; let '(a1, w1) := x in
      do y <- C01sld_list_bind r w1 f; let '(a2, w2) := y in Ok (a1 ++ a2, w2)
  end.
Example C01sld_naive_list_law_is_false :
  C01sld_vals (do x <- answers C01sld_kb 50 19 C01sld_p [] C01sld_w; let '(l, w) := x in
               C01sld_list_bind l w (fun s1 w1 => answers C01sld_kb 50 19 C01sld_q s1 w1))
  = ([(C01sld_f 102 3 65, C01sld_f 104 5 67); (C01sld_f 102 3 65, C01sld_i 7);
      (C01sld_f 103 4 66, C01sld_f 104 6 67); (C01sld_f 103 4 66, C01sld_i 7)], 6, [53; 53]).
Proof. vm_compute. reflexivity. Qed.

Print Assumptions C01_sld_continuation.
Print Assumptions C01_sld_continuation_clauses.
Print Assumptions C01_sld_continuation_go.
Print Assumptions C01_sld_continuation_pure.
Print Assumptions C01_sld_answers.
Print Assumptions C01_sld_conjunction.
Print Assumptions C01_sld_conjunction_k.
Print Assumptions C01_sld_disjunction.
Print Assumptions C01_sld_call.
Print Assumptions C01_sld_clauses.
Print Assumptions C01_sld_signal_go.
Print Assumptions C01_sld_continuation_quiet.
Print Assumptions C01_sld_conjunction_quiet.
Print Assumptions C01_sld_conjunction_bip.
Print Assumptions C01_sld_conjunction_1.
Print Assumptions C01_sld_disjunction_1.
