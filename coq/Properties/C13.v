(* C13 - A function term is evaluated whichever side of `=` it is on. *)
From Suiron Require Import Model.Term Model.Subst Model.Unify Proofs.FunctionProps.
Open Scope N_scope.

(* Function on the left: unifying it with t is unifying its value v with t. *)
Theorem C13_function_left : forall f name args ss v t,
  eval_function f name args ss = Ok (Some v) ->
  term_eqb (TFun name args) t = false -> is_anon t = false ->
  unify (S f) (TFun name args) t ss = unify f v t ss.
Proof. exact fn_left. Qed.

(* Function on the right of a variable, a constant of any type, a complex term or a list:
   again the value v is unified with t. *)
Theorem C13_function_right : forall f name args ss v t,
  eval_function f name args ss = Ok (Some v) ->
  is_fun t = false -> is_anon t = false -> is_nil t = false ->
  (forall n, t <> TVar 0 n) ->
  unify (S (S f)) t (TFun name args) ss = unify f v t ss.
Proof. exact fn_right. Qed.

(* and `v = t` / `t = v` agree for constants and for a variable *)
Theorem C13_constants_symmetric : forall f a b ss,
  is_constant a = true -> is_constant b = true -> unify (S f) a b ss = unify (S f) b a ss.
Proof. exact unify_constants_sym. Qed.

Theorem C13_constant_variable : forall f c id n ss,
  is_constant c = true -> unify (S f) c (TVar id n) ss = unify f (TVar id n) c ss.
Proof. exact unify_constant_var. Qed.

(* non-vacuity: 5 = add(2, 3) and add(2, 3) = 5 both succeed, 6 = add(2, 3) fails *)
Example C13_witness :
  let add23 := TFun fname_add [TInt 2; TInt 3] in
  eval_function 9 fname_add [TInt 2; TInt 3] [] = Ok (Some (TInt 5)) /\
  unify 10 (TInt 5) add23 [] = Ok (Some []) /\ unify 10 add23 (TInt 5) [] = Ok (Some []) /\
  unify 10 (TInt 6) add23 [] = Ok None.
Proof. vm_compute. repeat split. Qed.

Check C13_function_right : forall f name args ss v t,
  eval_function f name args ss = Ok (Some v) ->
  is_fun t = false -> is_anon t = false -> is_nil t = false ->
  (forall n, t <> TVar 0 n) ->
  unify (S (S f)) t (TFun name args) ss = unify f v t ss.

Print Assumptions C13_function_left.
Print Assumptions C13_function_right.
Print Assumptions C13_constants_symmetric.
Print Assumptions C13_constant_variable.
