(* C17 - count, include/exclude, functor and join compute documented results. *)
From Coq Require Import String.
From Suiron Require Import Model.Term Model.Subst Model.Show Model.Lists Model.Unify Model.Builtins
  Spec.SpecCompare Spec.SpecLists Proofs.ListProofs.

(* count: the number of elements, continuing through bound tail variables (an open tail is
   not an element), unified with the output argument. *)
Theorem C17_count : forall ss t l xs out,
  chain ss t (Some l) -> is_list l = true -> Elements ss false l xs ->
  exists f0, forall f, (f0 <= f)%nat ->
    bip_count f (Some [t; out]) ss = unify f out (TInt (Z.of_nat (length xs))) ss.
Proof. exact bip_count_spec. Qed.

(* include / exclude: the elements that do / do not unify with the pattern, in order, built
   exactly (C15), unified with the output argument under the ORIGINAL substitution - the
   pattern tests bind nothing. *)
Theorem C17_filter : forall ss pat t l xs incl out,
  chain ss t (Some l) -> is_list l = true -> Elements ss true l xs ->
  exists f0, forall f, (f0 <= f)%nat -> forall kept,
    filter_terms f pat incl xs ss = Ok kept ->
    kept = List.filter (fun x => Bool.eqb (passes f pat x ss) incl) xs /\
    bip_filter f incl (Some [pat; t; out]) ss = unify f out (make_list_of_terms kept) ss.
Proof. exact bip_filter_spec. Qed.

(* functor: `prefix*` matches by prefix, anything else exactly; the arity argument gets the
   number of arguments. *)
Theorem C17_functor_prefix : forall f p, atoms_match (TAtom f) (p ++ [42%N]) = Ok (str_prefix p f).
Proof. exact atoms_match_prefix. Qed.
Theorem C17_prefix_means_prefix : forall p s, str_prefix p s = true <-> exists r, s = p ++ r.
Proof. exact str_prefix_spec. Qed.
Theorem C17_functor_exact : forall f m c, c <> 42%N ->
  atoms_match (TAtom f) (m ++ [c]) = Ok (str_eqb f (m ++ [c])).
Proof. exact atoms_match_exact. Qed.
Theorem C17_functor_arity : forall f ss c o1 o2 fn args r1 r2,
  resolve_each f [c; o1; o2] ss = Ok [TComplex (fn :: args); r1; r2] ->
  bip_functor f (Some [c; o1; o2]) ss =
  do s1 <- match r1 with
           | TAtom ms => do m <- atoms_match fn ms; Ok (if m then Some ss else None)
           | TVar _ _ => unify f r1 fn ss
           | _ => Ok None
           end;
  match s1 with
  | Some s => unify f r2 (TInt (Z.of_nat (length args))) s
  | None => Ok None
  end.
Proof. exact bip_functor_arity. Qed.

(* join: the resolved values of the arguments and of list elements, the first word as it
   is, every later word preceded by one space unless it is one of , . ? ! *)
Theorem C17_join : forall ss args cs, Forall2 (JoinArg ss) args cs ->
  exists f0, forall f, (f0 <= f)%nat ->
    evaluate_join f args ss = Ok (TAtom (join_spec (map show_term (concat cs)))).
Proof. exact evaluate_join_spec. Qed.

Example C17_witness :
  let w s := TAtom (s2l s) in
  evaluate_join 9 [w "Would you like"; make_list_of_terms [w "coffee"; w ","; w "tea"]; w "?"]%string []
    = Ok (w "Would you like coffee, tea?"%string) /\
  bip_count 9 (Some [make_linked_list true [w "a"; TVar 1 []]; TVar 2 []]%string)
    [None; Some (make_list_of_terms [w "b"; w "c"]%string)]
    = Ok (Some [None; Some (make_list_of_terms [w "b"; w "c"]%string); Some (TInt 3)]).
Proof. vm_compute. split; reflexivity. Qed.

Check C17_count : forall ss t l xs out,
  chain ss t (Some l) -> is_list l = true -> Elements ss false l xs ->
  exists f0, forall f, (f0 <= f)%nat ->
    bip_count f (Some [t; out]) ss = unify f out (TInt (Z.of_nat (length xs))) ss.

Print Assumptions C17_count.
Print Assumptions C17_filter.
Print Assumptions C17_functor_prefix.
Print Assumptions C17_prefix_means_prefix.
Print Assumptions C17_functor_exact.
Print Assumptions C17_functor_arity.
Print Assumptions C17_join.
