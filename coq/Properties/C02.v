(* C02 - the textbook law of cut, for the reference search Spec/SpecCut.v:

       g1, !, rest     is     once(g1), rest     and the call that chose the clause is committed.

   C02_first_answer (A): a goal without `!` run with a continuation that always stops the search
     is: the FIRST answer of the goal (the `halt1` search, what not(..) and time(..) use), then the
     continuation called once on it, with the flag false, in the world reached at that point; the
     continuation's result - answers, world and signal - is the result, unchanged (the signal is
     bumped by kbump on the way into each call and un-bumped by after_body on the way out).  No
     answer: the continuation is never called, the result is ([], world reached, Go).
   C02_cut_is_once (B): `g1, !, rest` with g1 cut-free: no answer of g1 -> ([], w1, Go) (the cut is
     not reached; NOT a cut signal); first answer s1 of g1 in w1 -> what `rest` gives from (s1, w1)
     (`and_then`: `rest` continued by `kwrap true k`; k itself, told of the cut, when rest = []),
     the signal made a Cut by join0.  g1 is never retried.
   C02_cut_commits_the_call_reference (C): a clause with that body whose head unifies: g1 without
     answer -> the call goes on with clause idx+1 from the world reached; otherwise the call
     returns what `rest` returns from the first answer of g1, the signal leaving the call
     (leave_call: the clause's own Cut 0 is absorbed - Go -, Cut (S m) -> Cut m, Halt -> Halt), and
     NO later clause is consulted: the result is the same for every clause count n' > idx.
   C02_cut_commits_the_call_kb: the same, the clause given as stored in the knowledge base
     (renaming apart keeps the shape `g1, !, rest` and cut-freeness). *)
From Suiron Require Import Model.Term Model.Subst Model.Builtins Model.Rename Model.Unify Model.Solve
  Spec.SpecCut Proofs.RenameProofs Proofs.CutOnce.
Open Scope N_scope.

(* the vocabulary of the statements (Proofs/CutOnce.v) *)
Example C02once_cutfree_bip : forall fn ts, cutfree (GBip fn ts) = negb (str_eqb fn n_cut).
Proof. reflexivity. Qed.
Example C02once_cutfree_op : forall k gs, cutfree (GOp k gs) = forallb cutfree gs.
Proof. exact cutfree_op. Qed.
Example C02once_cutfree_call : forall t, cutfree (GCall t) = true.
Proof. reflexivity. Qed.
Example C02once_and_then_nil : forall kb bf f s w k, and_then kb bf f [] s w k = k s w true.
Proof. reflexivity. Qed.
Example C02once_and_then_cons : forall kb bf f g r s w k,
  and_then kb bf f (g :: r) s w k = csolve kb bf f (GOp OAnd (g :: r)) s w (kwrap true k).
Proof. reflexivity. Qed.
Example C02once_leave_call : leave_call (Cut 0) = Go /\ (forall m, leave_call (Cut (S m)) = Cut m) /\ leave_call Halt = Halt.
Proof. repeat split. Qed.

Theorem C02_first_answer : forall kb bf fuel g s w k a w' sg,
  cutfree g = true ->
  (forall s1 w1 c a1 w2 sg1, k s1 w1 c = Ok (a1, w2, sg1) -> sg1 <> Go) ->
  csolve kb bf fuel g s w k = Ok (a, w', sg) ->
  match csolve kb bf fuel g s w halt1 with
  | Ok ([], w1, sg1) => a = [] /\ w' = w1 /\ sg = Go /\ sg1 = Go
  | Ok ([s1], w1, Halt) => k s1 w1 false = Ok (a, w', sg)
  | _ => False
  end.
Proof. exact first_answer. Qed.

(* the first answer does not depend on the fuel of the run that finds it *)
Theorem C02_first_answer_fuel : forall kb bf f1 f2 g s w h1 h2,
  csolve kb bf f1 g s w halt1 = Ok h1 -> csolve kb bf f2 g s w halt1 = Ok h2 -> h1 = h2.
Proof. exact first_answer_fuel. Qed.

Theorem C02_cut_is_once : forall kb bf fuel g1 rest s w k a w' sg,
  cutfree g1 = true ->
  csolve kb bf fuel (GOp OAnd (g1 :: GBip n_cut None :: rest)) s w k = Ok (a, w', sg) ->
  match csolve kb bf fuel g1 s w halt1 with
  | Ok ([], w1, _) => a = [] /\ w' = w1 /\ sg = Go
  | Ok ([s1], w1, Halt) =>
      exists sg0, and_then kb bf fuel rest s1 w1 k = Ok (a, w', sg0) /\ sg = join0 sg0
  | _ => False
  end.
Proof. exact cut_is_once. Qed.

Theorem C02_cut_commits_the_call_reference : forall kb bf f t s key idx n w k rl ctr s' g1 rest R,
  (n <=? idx) = false ->
  get_rule kb key idx (next_id w) = Ok (rl, ctr) ->
  unify bf (r_head rl) t s = Ok (Some s') ->
  r_body rl = GOp OAnd (g1 :: GBip n_cut None :: rest) ->
  cutfree g1 = true ->
  cclauses kb bf (S f) t s key idx n w k = Ok R ->
  match csolve kb bf f g1 s' (w_set_id w ctr) halt1 with
  | Ok ([], w2, _) => cclauses kb bf f t s key (idx + 1) n w2 k = Ok R
  | Ok ([s1], w2, Halt) =>
      exists a w' sg0,
        and_then kb bf f rest s1 w2 (kbump k) = Ok (a, w', sg0) /\
        R = (a, w', leave_call (join0 sg0)) /\
        forall n', (n' <=? idx) = false -> cclauses kb bf (S f) t s key idx n' w k = Ok R
  | _ => False
  end.
Proof. exact cut_commits_the_call. Qed.

Theorem C02_cut_commits_the_call_kb : forall kb bf f t s key idx n w k rules r0 g1 rest R,
  kb_get kb key = Some rules -> nth_error rules (N.to_nat idx) = Some r0 ->
  r_body r0 = GOp OAnd (g1 :: GBip n_cut None :: rest) -> cutfree g1 = true ->
  (n <=? idx) = false ->
  cclauses kb bf (S f) t s key idx n w k = Ok R ->
  exists rl ctr g1' rest',
    get_rule kb key idx (next_id w) = Ok (rl, ctr) /\
    r_body rl = GOp OAnd (g1' :: GBip n_cut None :: rest') /\
    erase_goal g1' = erase_goal g1 /\ map erase_goal rest' = map erase_goal rest /\
    match unify bf (r_head rl) t s with
    | Ok None => cclauses kb bf f t s key (idx + 1) n (w_set_id (w_set_id w ctr) (next_id w)) k = Ok R
    | Ok (Some s') =>
        match csolve kb bf f g1' s' (w_set_id w ctr) halt1 with
        | Ok ([], w2, _) => cclauses kb bf f t s key (idx + 1) n w2 k = Ok R
        | Ok ([s1], w2, Halt) =>
            exists a w' sg0,
              and_then kb bf f rest' s1 w2 (kbump k) = Ok (a, w', sg0) /\
              R = (a, w', leave_call (join0 sg0)) /\
              forall n', (n' <=? idx) = false -> cclauses kb bf (S f) t s key idx n' w k = Ok R
        | _ => False
        end
    | _ => False
    end.
Proof. exact cut_commits_the_call_kb. Qed.

(* non-vacuity:   a($X) :- n($X), !, e($X).   a(9).   n(1). n(2). n(3).   e(2). e(1).   |- a($A)
   with the cut: $A = 1 only (the first n; not 2, although e(2) holds; not 9);
   without it:   $A = 1, 2, 9 *)
Definition C02once_at (c : N) : term := TAtom [c].
Definition C02once_X : term := TVar 0 [36; 88].
Definition C02once_A : term := TVar 1 [36; 65].
Definition C02once_fact (p : N) (i : Z) : rule := mkRule (TComplex [C02once_at p; TInt i]) GNil.
Definition C02once_kb (withcut : bool) : kbase :=
  [([97; 47; 49], [mkRule (TComplex [C02once_at 97; C02once_X])
                     (GOp OAnd (GCall (TComplex [C02once_at 110; C02once_X])
                                :: (if withcut then [GBip n_cut None] else [])
                                ++ [GCall (TComplex [C02once_at 101; C02once_X])]));
                   C02once_fact 97 9]);
   ([110; 47; 49], [C02once_fact 110 1; C02once_fact 110 2; C02once_fact 110 3]);
   ([101; 47; 49], [C02once_fact 101 2; C02once_fact 101 1])].
Definition C02once_q : term := TComplex [C02once_at 97; C02once_A].
Definition C02once_w : world := mkWorld 1 false None [].
Definition C02once_vals (r : res (list subst * world)) : list (res (option term)) :=
  match r with Ok (l, _) => map (get_ground_term 20 C02once_A) l | _ => [] end.

Example C02once_with_cut :
  C02once_vals (canswers (C02once_kb true) 50 60 C02once_q C02once_w) = [Ok (Some (TInt 1))].
Proof. vm_compute. reflexivity. Qed.
Example C02once_without_cut :
  C02once_vals (canswers (C02once_kb false) 50 60 C02once_q C02once_w)
  = [Ok (Some (TInt 1)); Ok (Some (TInt 2)); Ok (Some (TInt 9))].
Proof. vm_compute. reflexivity. Qed.

(* the hypotheses of C02_cut_commits_the_call_reference hold for clause 0 of a/1, called with two
   clauses to consult; the first answer of n($X) is $X = 1; the call returns the one answer of
   e($X) from there, signal Go, and with n' = 1 (no second clause) returns the same *)
Definition C02once_demo : bool :=
  let kb := C02once_kb true in
  let key := [97; 47; 49] in
  let kall : ckont := fun s w _ => Ok ([s], w, Go) in
  let is1 (s : subst) := match get_ground_term 20 C02once_A s with Ok (Some (TInt 1)) => true | _ => false end in
  match get_rule kb key 0 (next_id C02once_w) with
  | Ok (rl, ctr) =>
      match unify 50 (r_head rl) C02once_q [], r_body rl with
      | Ok (Some s'), GOp OAnd (g1 :: GBip c None :: rest) =>
          str_eqb c n_cut && cutfree g1 &&
          match csolve kb 50 39 g1 s' (w_set_id C02once_w ctr) halt1,
                cclauses kb 50 40 C02once_q [] key 0 2 C02once_w kall,
                cclauses kb 50 40 C02once_q [] key 0 1 C02once_w kall with
          | Ok ([s1], w2, Halt), Ok ([a], w', Go), Ok ([b], w'', Go) =>
              match and_then kb 50 39 rest s1 w2 (kbump kall) with
              | Ok ([a'], _, sg0) =>
                  is1 s1 && is1 a && is1 b && is1 a' &&
                  match leave_call (join0 sg0) with Go => true | _ => false end
              | _ => false
              end
          | _, _, _ => false
          end
      | _, _ => false
      end
  | _ => false
  end.
Example C02once_witness : C02once_demo = true.
Proof. vm_compute. reflexivity. Qed.

Print Assumptions C02_first_answer.
Print Assumptions C02_first_answer_fuel.
Print Assumptions C02_cut_is_once.
Print Assumptions C02_cut_commits_the_call_reference.
Print Assumptions C02_cut_commits_the_call_kb.
