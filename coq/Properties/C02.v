(* C02 - Cut commits to its clause and ends the call.

   Full statement: `refines_reference` (Spec/Refine.v) for programs with `!`, against the
   terminal rules of Spec/SpecSolve.v (EndCut / AnsCut).  PROVED for all programs, directly
   on the machine: the four clauses of the property below.  NOT YET PROVED: that the answers
   BEFORE the cut are exactly the reference's (refinement); evaluated by the check's oracle. *)
From Suiron Require Import Model.Term Model.Subst Model.Rename Model.Solve Spec.SpecSolve Spec.Refine
  Proofs.SolveDead Proofs.SolveCut.

Definition C02_full : Prop := refines_reference.

(* Every node a cut passes through on its way up - the cut itself, every enclosing
   conjunction / disjunction / not / time node - is committed (no_backtracking set). *)
Theorem C02_cut_commits : forall kb bf fuel nd w nd' r w',
  next kb bf fuel nd w = Ok (nd', r, true, w') -> node_nobt nd' = true.
Proof. exact cut_commits. Qed.

(* A committed node yields nothing beyond the answer being derived when the cut ran: the
   goals to the left of the cut are never re-tried, later alternatives are never tried. *)
Theorem C02_nothing_after_the_cut : forall kb bf fuel nd w nd' r w',
  next kb bf fuel nd w = Ok (nd', r, true, w') ->
  forall m fuel2 w2 rs nd2 w3,
    ask_again kb bf fuel2 m nd' w2 = Ok (rs, nd2, w3) -> Forall (fun x => x = None) rs /\ w3 = w2.
Proof. exact cut_then_nothing_more. Qed.

(* The call that chose the clause: when a cut runs in the clause body, the call returns what
   the body returned (the answer being derived, or failure - no later clause is tried even
   when the goals after the cut failed) and is committed itself. *)
Theorem C02_the_call_is_committed : forall kb bf f t ss c0 idx n w c1 sol w1 nd' r c w',
  next kb bf f c0 w = Ok (c1, sol, true, w1) ->
  next kb bf (S f) (NCall t ss false (Some c0) idx n) w = Ok (nd', r, c, w') ->
  node_nobt nd' = true /\ c = false /\ r = sol.
Proof. exact cut_commits_the_call. Qed.

(* A cut never affects the caller of that call or any sibling: a call reports no cut. *)
Theorem C02_cut_is_local : forall kb bf fuel t ss nobt child idx n w nd' r c w',
  next kb bf fuel (NCall t ss nobt child idx n) w = Ok (nd', r, c, w') -> c = false.
Proof. exact call_absorbs_cut. Qed.

(* non-vacuity: a(1) :- b(0), !, fail.  a(2).  b(0).  |- a($X) has no answer
   (the defect repaired by commit 782f5c0 answered a(2)) *)
Definition C02_demo : bool :=
  let kb := [([97; 47; 49]%N, [mkRule (TComplex [TAtom [97%N]; TInt 1])
                                 (GOp OAnd [GCall (TComplex [TAtom [98%N]; TInt 0]); GBip n_cut None; GBip n_fail None]);
                               mkRule (TComplex [TAtom [97%N]; TInt 2]) GNil]);
             ([98; 47; 49]%N, [mkRule (TComplex [TAtom [98%N]; TInt 0]) GNil])] in
  match make_base_node kb (GCall (TComplex [TAtom [97%N]; TVar 1 [36; 88]%N])) (mkWorld 1 false None []) with
  | Ok (nd, w) => match next kb 30 30 nd w with Ok (nd1, None, false, _) => node_nobt nd1 | _ => false end
  | _ => false
  end.
Example C02_witness : C02_demo = true.
Proof. vm_compute. reflexivity. Qed.

Check C02_cut_commits : forall kb bf fuel nd w nd' r w',
  next kb bf fuel nd w = Ok (nd', r, true, w') -> node_nobt nd' = true.

Print Assumptions C02_cut_commits.
Print Assumptions C02_nothing_after_the_cut.
Print Assumptions C02_the_call_is_committed.
Print Assumptions C02_cut_is_local.
