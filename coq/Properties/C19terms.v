(* C19 at term level - only the integer case is proved (partial): printing a 64-bit integer
   (negative ones included) and parsing the text, on its own or as an argument, gives the
   integer back.  This was false before the C20 repair (`-5` was an atom for parse_term).
   Atoms, variables, lists, complex terms and floats are NOT proved here; they are covered by
   the correspondence runs of C18terms / C20 only. *)
From Suiron Require Import Model.ParseTerm Model.Show Proofs.ParseTermProofs Proofs.ParseRoundtrip.

Theorem C19_integer_roundtrip_terms_partial : forall fuel z,
  (- 2 ^ 63 <= z < 2 ^ 63)%Z ->
  parse_term (S fuel) (show_term (TInt z)) = Ok (POk (TInt z)).
Proof. exact parse_term_show_int. Qed.

Theorem C19_integer_argument_terms_partial : forall fuel z,
  (- 2 ^ 63 <= z < 2 ^ 63)%Z ->
  parse_arguments (S fuel) (show_term (TInt z)) = Ok (POk [TInt z]).
Proof. exact parse_arguments_show_int. Qed.

(* the full statement, for the class `canonical` of DESIGN.md section 7 (SpecSyntax); what
   is missing: every constructor but TInt *)
Definition C19_terms_full (canonical : term -> Prop) : Prop :=
  forall t, canonical t -> exists fuel, parse_term fuel (show_term t) = Ok (POk t).

Example C19_integer_witness :
  parse_term 3 (show_term (TInt (-9223372036854775808))) = Ok (POk (TInt (-9223372036854775808))).
Proof. apply C19_integer_roundtrip_terms_partial. split; [apply Z.leb_le|apply Z.ltb_lt]; reflexivity. Qed.

Check C19_integer_roundtrip_terms_partial : forall fuel z,
  (- 2 ^ 63 <= z < 2 ^ 63)%Z ->
  parse_term (S fuel) (show_term (TInt z)) = Ok (POk (TInt z)).

Print Assumptions C19_integer_roundtrip_terms_partial.
Print Assumptions C19_integer_argument_terms_partial.
