(* C22, law of the reference search (Spec/SpecCut.v) for cut-free programs: the answers of a goal do not depend
   on what earlier searches have written.  `weq w w'`: the two worlds agree on the variable-id counter, the stop flag
   and the stop hook (Proofs/SldOrder.v) - they may differ in the output written so far, which is the only part of
   the world that an earlier query leaves behind once make_query has reset counter and flag (Properties/C22.v). *)
From Suiron Require Import Model.Term Model.Subst Model.Solve Model.Builtins Model.Rename Spec.SpecCut
  Proofs.CutOnce Proofs.SldOrder Proofs.ForgetLaw.
Open Scope N_scope.

Theorem C22_answers_forget_output : forall kb bf, cutfree_kb kb = true ->
  forall fuel g s w w' l w1, cutfree g = true -> weq w w' ->
  answers kb bf fuel g s w = Ok (l, w1) ->
  exists w1', answers kb bf fuel g s w' = Ok (l, w1') /\ weq w1 w1'.
Proof. exact answers_forget_output. Qed.

(* non-vacuity.  n(1). n(2).   ?- n($X), print($X).   from a world with empty output and from one in which "xyz" has
   been written: the same two answers *)
Example C22_laws_witness :
  let kb : kbase := [([110; 47; 49], [mkRule (TComplex [TAtom [110]; TInt 1]) GNil; mkRule (TComplex [TAtom [110]; TInt 2]) GNil])] in
  let g := GOp OAnd [GCall (TComplex [TAtom [110]; TVar 1 [36; 88]]); GBip [112; 114; 105; 110; 116] (Some [TVar 1 [36; 88]])] in
  let w := mkWorld 1 false None [] in
  let w' := mkWorld 1 false None [120; 121; 122] in
  cutfree_kb kb = true /\ cutfree g = true /\ weq w w' /\
  exists a1 a2 w1 w1', answers kb 20 20 g [] w = Ok ([a1; a2], w1) /\ answers kb 20 20 g [] w' = Ok ([a1; a2], w1') /\
                       out w1 = [49; 50] /\ out w1' = [120; 121; 122; 49; 50].
Proof.
  cbn zeta. split; [reflexivity|]. split; [reflexivity|]. split; [repeat split|].
  do 4 eexists. refine (conj _ (conj _ (conj _ _))); vm_compute; reflexivity.
Qed.

Print Assumptions C22_answers_forget_output.
