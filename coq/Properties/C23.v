(* C23 - solve/solve_all report real answers or a timeout, never wrong ones.

   PARTIAL with respect to the runtime: the timer THREAD (OS scheduling, thread_timer's
   cancel()) is not modelled.  What is modelled is every behaviour of a timer that raises the
   flag at some read: the stop flag with an arbitrary schedule `stop_after` (never, or at
   the n-th read for any n), and what the two drivers do with it. *)
From Suiron Require Import Model.Term Model.Subst Model.Rename Model.Solve Spec.SpecCut Proofs.SolveTimeout Proofs.SolveQuiet Model.Timer Proofs.TimerProofs.

(* solve: one request, then one read of the flag.  It reports the timeout message when that
   read is true, otherwise "No more." when the request found no answer, otherwise the text
   of the answer the request returned. *)
Theorem C23_solve : forall kb fuel nd w nd' txt w',
  solve fuel kb nd w = Ok (nd', txt, w') ->
  exists sol c w1,
    next kb fuel fuel nd (w_set_flag w false) = Ok (nd', sol, c, w1) /\
    w' = snd (query_stopped w1) /\
    if fst (query_stopped w1) then txt = timeout_msg
    else match sol with
         | None => txt = no_more
         | Some s => exists q, node_goal_term nd' = Some q /\ answer_text fuel q s = Ok txt
         end.
Proof. exact solve_reports. Qed.

(* solve_all: the texts of a `Run` (Proofs/SolveTimeout.v) - every reported text is an answer
   that next_solution returned and AFTER which the flag still read false; an answer returned
   by a request during which the flag was raised is dropped -, complete when the Run ended
   with a request without answer (b = false), and followed by the timeout message exactly
   when the final read of the flag is true, which is always the case after a stopped Run. *)
Theorem C23_solve_all : forall kb fuel nd w nd' l w',
  solve_all fuel kb nd w = Ok (nd', l, w') ->
  exists q l0 b w1,
    node_goal_term nd = Some q /\
    Run kb q fuel nd (w_set_flag w false) l0 nd' w1 b /\
    l = l0 ++ (if fst (query_stopped w1) then [timeout_msg] else []) /\
    (b = true -> fst (query_stopped w1) = true).
Proof. exact solve_all_reports. Qed.

(* once raised, the flag stays raised until the next query is started *)
Theorem C23_flag_stays : forall w,
  fst (query_stopped w) = true -> fst (query_stopped (snd (query_stopped w))) = true.
Proof. exact stopped_stays. Qed.

(* non-vacuity: n(1). n(2). n(3). |- n($X) with the flag raised at the 3rd read: two answers
   and the message; never raised: three answers, no message *)
Definition C23_demo : bool :=
  let f i := mkRule (TComplex [TAtom [110%N]; TInt i]) GNil in
  let kb := [([110; 47; 49]%N, [f 1%Z; f 2%Z; f 3%Z])] in
  let q := GCall (TComplex [TAtom [110%N]; TVar 1 [36; 88]%N]) in
  match make_base_node kb q (mkWorld 1 false None []) with
  | Ok (nd, w) =>
      match solve_all 30 kb nd (mkWorld 1 false (Some 2%N) []), solve_all 30 kb nd w with
      | Ok (_, [a; b; m], _), Ok (_, [a'; b'; c'], _) => true
      | _, _ => false
      end
  | _ => false
  end.
Example C23_witness : C23_demo = true.
Proof. vm_compute. reflexivity. Qed.

Check C23_solve_all : forall kb fuel nd w nd' l w',
  solve_all fuel kb nd w = Ok (nd', l, w') ->
  exists q l0 b w1,
    node_goal_term nd = Some q /\
    Run kb q fuel nd (w_set_flag w false) l0 nd' w1 b /\
    l = l0 ++ (if fst (query_stopped w1) then [timeout_msg] else []) /\
    (b = true -> fst (query_stopped w1) = true).

(* When no stop is pending (flag clear, no hook schedule), the search never raises the flag:
   solve_all reports no timeout, and its list is complete - exactly the answers of the reference
   search (Spec/SpecCut.v), each formatted, in order; the world afterwards is the reference's. *)
Theorem C23_no_stop_pending : forall kb fuel q w fs R nd w1 nd' l w',
  quiet w ->
  canswers kb fuel fs q w = Ok R ->
  make_base_node kb (GCall q) w = Ok (nd, w1) ->
  solve_all fuel kb nd w1 = Ok (nd', l, w') ->
  Forall2 (fun s txt => exists f, answer_text f q s = Ok txt) (fst R) l /\ w' = snd R.
Proof. exact solve_all_refines. Qed.

(* the search itself never raises the flag *)
Theorem C23_search_never_stops_itself : forall kb bf F nd w nd' r c w1,
  quiet w -> next kb bf F nd w = Ok (nd', r, c, w1) -> quiet w1.
Proof. exact quiet_next. Qed.

(* ---- the timer protocol of time_out.rs (Model/Timer.v): every operation is one atomic step on
        the word QUERY_STATE, so the interleavings of the main thread with the timer threads are the
        sequences of steps; for EVERY such sequence ---- *)

(* the flag goes up only through stop_query() or the time-out of the current query's own timer
   while that query is still running ... *)
Theorem C23_flag_raised_only_by : forall ops o,
  flag (trun ops) = false -> flag (tstep (trun ops) o) = true ->
  o = TStop \/ exists k, o = TFire k /\ nth_error (started (trun ops)) k = Some (cur (trun ops)) /\
                         tstat (cur (trun ops)) = Running.
Proof. intros ops o. apply flag_raised_only_by, tinv_reachable. Qed.

(* ... a timer of an earlier query is ignored whenever it fires, and so is any timer once
   cancel_timer() has run or the query is stopped (ThreadTimer::cancel() may fail: harmless) ... *)
Theorem C23_stale_timer_is_ignored : forall s k m,
  nth_error (started s) k = Some m -> (tgen m < tgen (cur s))%N -> tstep s (TFire k) = s.
Proof. exact stale_timer_is_ignored. Qed.
Theorem C23_cancelled_timer_is_ignored : forall ops k,
  tstat (cur (trun ops)) <> Running -> tstep (trun ops) (TFire k) = trun ops.
Proof. intros ops k. apply cancelled_timer_is_ignored, tinv_reachable. Qed.

(* ... the flag stays up until the next query starts, and the current query's own timer does stop it *)
Theorem C23_flag_stays_until_next_query : forall s o, flag s = true -> o <> TStart -> o <> TStartQuery -> flag (tstep s o) = true.
Proof. exact flag_stays. Qed.
Theorem C23_own_timer_stops : forall s k, nth_error (started s) k = Some (cur s) -> flag (tstep s (TFire k)) = true.
Proof. exact own_timer_stops. Qed.

(* the protocol before commit ba4370f (generation counter, separate flag, time-out in two steps) did
   not have this property: a concrete schedule stops the NEXT query *)
Theorem C23_old_protocol_refuted :
  oflag (fold_left ostep [OStart; OFireCheck 0; OCancel; OStart; OFireStore 0] oinit) = true.
Proof. exact old_protocol_refuted. Qed.

Print Assumptions C23_flag_raised_only_by.
Print Assumptions C23_stale_timer_is_ignored.
Print Assumptions C23_cancelled_timer_is_ignored.
Print Assumptions C23_flag_stays_until_next_query.
Print Assumptions C23_own_timer_stops.
Print Assumptions C23_old_protocol_refuted.
Print Assumptions C23_no_stop_pending.
Print Assumptions C23_search_never_stops_itself.
Print Assumptions C23_solve.
Print Assumptions C23_solve_all.
Print Assumptions C23_flag_stays.
