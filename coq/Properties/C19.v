(* C19 - Canonical source text parses and prints back unchanged.

   PROVED, with the REAL parsers throughout (no hypothesis about leaf parsers left):
     C19_closed_rules   for every closed rule r - head a call f(t1..tn), n >= 0, body built with `,` `;`
                        (any nesting) from leaves: calls, built-in predicates in functional notation,
                        `l = r`, `!`, `fail`, `nl`, not(leaf), time(leaf); all arguments canonical terms -
                        Display gives the canonical text rule_text r, and parse_rule of that text
                        gives r back (Proofs/RuleRoundtripClosed.v; `closed_ruleb` is an executable
                        test implying the class);
     C19_roundtrip_terms  parse_term (show_term t) = t for every canonical term: atoms
                        [A-Za-z0-9_][A-Za-z0-9_ ]* (not all digits), 64-bit integers, variables
                        $[A-Za-z][A-Za-z0-9_]* and $_, complex terms (functor [a-z][A-Za-z0-9_]*, not a
                        function name; text up to the 1000 characters validate_complex allows), lists
                        with and without tail variable or `$_` tail, nested without bound;
     C19_roundtrip_goals / _rules  the same one level up for ANY leaf parser that inverts Display on
                        the leaves (Proofs/GoalRoundtrip.v).
   NOT covered by a theorem: floats, quoted atoms, functors/variable names with other characters,
   not/time over `=`; these are evaluated by the correspondence check (print by the real Display,
   parse by the real parser, compare).  The proof work found real disagreements between printer and
   parser; two were repaired in the crate ([a | $_] rejected: 5e5ae04; go() rejected: 0f55f67), the
   others are outside the documented syntax and are listed, each with a compiled Example, in the
   header of Properties/C19closed.v. *)
From Suiron Require Import Model.PResult Model.ParseTerm Model.ParseGoal Model.Tokenizer Model.ParseRule
  Model.ShowGoal Model.Show Proofs.TokenizerProofs Proofs.GoalRoundtrip Proofs.ParseRoundtrip Proofs.ParseTermProofs Proofs.TermRoundtripMain Proofs.TermRoundtripCheck Proofs.GoalLeafParse Proofs.RuleRoundtripClosed Proofs.RuleRoundtripCheck.

Theorem C19_roundtrip_goals : forall (ps : str -> res (presult goal)) g fuel,
  canonical_goal ps g -> (2 * length (text g) + 3 <= fuel)%nat ->
  show_goal g = Ok (text g) /\ generate_goal ps fuel (text g) = Ok (POk g).
Proof. exact roundtrip_goal. Qed.

Theorem C19_roundtrip_rules :
  forall (ps : str -> res (presult goal)) (pc : str -> res (presult term)) r fuel,
  canonical_rule ps pc r -> (2 * length (rule_text r) + 3 <= fuel)%nat ->
  show_rule r = Ok (rule_text r) /\ parse_rule ps pc fuel (rule_text r) = Ok (POk r).
Proof. exact roundtrip_rule. Qed.

Theorem C19_neutral_criterion : forall t, neutralb t = true -> neutral t.
Proof. exact neutralb_sound. Qed.

Theorem C19_partial_integer_terms : forall fuel z,
  (- 2 ^ 63 <= z < 2 ^ 63)%Z ->
  parse_term (S fuel) (show_term (TInt z)) = Ok (POk (TInt z)).
Proof. exact parse_term_show_int. Qed.

Theorem C19_roundtrip_terms : forall t fuel,
  canonical t -> (parse_fuel (show_term t) <= fuel)%nat ->
  parse_term fuel (show_term t) = Ok (POk t).
Proof. exact parse_term_show_canonical. Qed.

Theorem C19_roundtrip_terms_checked : forall t fuel,
  canonicalb t = true -> (parse_fuel (show_term t) <= fuel)%nat ->
  parse_term fuel (show_term t) = Ok (POk t).
Proof. exact canonicalb_roundtrip. Qed.

Theorem C19_closed_rules : forall r F fuel,
  closed_rule r -> (length (rule_text r) + 2 <= F)%nat -> (2 * length (rule_text r) + 3 <= fuel)%nat ->
  show_rule r = Ok (rule_text r) /\
  parse_rule (parse_subgoal F) (parse_complex F) fuel (rule_text r) = Ok (POk r).
Proof. exact roundtrip_rule_closed. Qed.

Theorem C19_closed_goals : forall g F fuel,
  closed_goal g -> (length (text g) + 2 <= F)%nat -> (2 * length (text g) + 3 <= fuel)%nat ->
  show_goal g = Ok (text g) /\ generate_goal (parse_subgoal F) fuel (text g) = Ok (POk g).
Proof. exact roundtrip_goal_closed. Qed.

Check C19_roundtrip_goals : forall (ps : str -> res (presult goal)) g fuel,
  canonical_goal ps g -> (2 * length (text g) + 3 <= fuel)%nat ->
  show_goal g = Ok (text g) /\ generate_goal ps fuel (text g) = Ok (POk g).

Print Assumptions C19_roundtrip_goals.
Print Assumptions C19_roundtrip_rules.
Print Assumptions C19_neutral_criterion.
Print Assumptions C19_partial_integer_terms.
Print Assumptions C19_roundtrip_terms.
Print Assumptions C19_closed_rules.
Print Assumptions C19_closed_goals.
Print Assumptions C19_roundtrip_terms_checked.
