(* C19 - Canonical source text parses and prints back unchanged.

   PROVED in full at the goal and rule level, relative to the leaves: for every canonical goal
   (any nesting of conjunctions and disjunctions over leaf goals) and every canonical rule,
   Display gives the canonical text and parsing that text gives the value back
   (Properties/C19goals.v, Proofs/GoalRoundtrip.v).  The hypothesis on each leaf is that the
   leaf parser inverts Display on that leaf's text (`leaf_ok`).
   At the leaf / term level that inversion is PROVED only for integers
   (C19_integer_roundtrip_terms_partial); for atoms, floats, variables, lists, complex
   terms, built-ins and infix forms it is the full statement C19_terms_full, which is not
   yet proved and is evaluated by the correspondence check (print by the real Display, parse
   by the real parser, compare; model compared with both). *)
From Suiron Require Import Model.PResult Model.ParseTerm Model.ParseGoal Model.Tokenizer Model.ParseRule
  Model.ShowGoal Model.Show Proofs.TokenizerProofs Proofs.GoalRoundtrip Proofs.ParseRoundtrip.

Theorem C19_roundtrip_goals : forall (ps : str -> res (presult goal)) g fuel,
  canonical_goal ps g -> (2 * length (text g) + 3 <= fuel)%nat ->
  show_goal g = Ok (text g) /\ generate_goal ps fuel (text g) = Ok (POk g).
Proof. exact roundtrip_goal. Qed.

Theorem C19_roundtrip_rules :
  forall (ps : str -> res (presult goal)) (pc : str -> res (presult term)) r fuel,
  canonical_rule ps pc r -> (2 * length (rule_text r) + 3 <= fuel)%nat ->
  show_rule r = Ok (rule_text r) /\ parse_rule ps pc fuel (rule_text r) = Ok (POk r).
Proof. exact roundtrip_rule. Qed.

Theorem C19_neutral_criterion : forall t, neutralb t = true -> neutral t.
Proof. exact neutralb_sound. Qed.

Theorem C19_partial_integer_terms : forall fuel z,
  (- 2 ^ 63 <= z < 2 ^ 63)%Z ->
  parse_term (S fuel) (show_term (TInt z)) = Ok (POk (TInt z)).
Proof. exact parse_term_show_int. Qed.

Check C19_roundtrip_goals : forall (ps : str -> res (presult goal)) g fuel,
  canonical_goal ps g -> (2 * length (text g) + 3 <= fuel)%nat ->
  show_goal g = Ok (text g) /\ generate_goal ps fuel (text g) = Ok (POk g).

Print Assumptions C19_roundtrip_goals.
Print Assumptions C19_roundtrip_rules.
Print Assumptions C19_neutral_criterion.
Print Assumptions C19_partial_integer_terms.
