(* C19 - Canonical source text parses and prints back unchanged.

   PROVED in full at the goal and rule level, relative to the leaves: for every canonical goal
   (any nesting of conjunctions and disjunctions over leaf goals) and every canonical rule,
   Display gives the canonical text and parsing that text gives the value back
   (Properties/C19goals.v, Proofs/GoalRoundtrip.v).  The hypothesis on each leaf is that the
   leaf parser inverts Display on that leaf's text (`leaf_ok`).
   At the term level the inversion is PROVED (C19_roundtrip_terms, Proofs/TermRoundtrip*.v) for the
   class `canonical`: atoms [a-z][A-Za-z0-9_]*, 64-bit integers, variables $[A-Za-z][A-Za-z0-9_]*
   (id 0) and $_, complex terms f(t1, ..., tn) (f not one of join/add/subtract/multiply/divide, text
   of at most 1000 characters - the limit of validate_complex), lists [t1, ..., tn] and
   [t1, ..., tn | $V] in the node shape the constructors build; `canonicalb` is an executable test
   that implies it.  Outside the class the proof work found where printer and parser really
   disagree (compiled as Examples in Proofs/TermRoundtrip*.v): `[a | $_]` does not parse, a list
   consisting of a tail variable only prints as `[$T]` and reads back as a one-element list,
   `add(..)`-named complex terms read back as functions, complex terms longer than 1000 characters
   are rejected.  Floats, built-in leaf goals and infix forms are not covered by a theorem and are
   evaluated by the correspondence check (print by the real Display, parse by the real parser). *)
From Suiron Require Import Model.PResult Model.ParseTerm Model.ParseGoal Model.Tokenizer Model.ParseRule
  Model.ShowGoal Model.Show Proofs.TokenizerProofs Proofs.GoalRoundtrip Proofs.ParseRoundtrip Proofs.ParseTermProofs Proofs.TermRoundtripMain Proofs.TermRoundtripCheck.

Theorem C19_roundtrip_goals : forall (ps : str -> res (presult goal)) g fuel,
  canonical_goal ps g -> (2 * length (text g) + 3 <= fuel)%nat ->
  show_goal g = Ok (text g) /\ generate_goal ps fuel (text g) = Ok (POk g).
Proof. exact roundtrip_goal. Qed.

Theorem C19_roundtrip_rules :
  forall (ps : str -> res (presult goal)) (pc : str -> res (presult term)) r fuel,
  canonical_rule ps pc r -> (2 * length (rule_text r) + 3 <= fuel)%nat ->
  show_rule r = Ok (rule_text r) /\ parse_rule ps pc fuel (rule_text r) = Ok (POk r).
Proof. exact roundtrip_rule. Qed.

Theorem C19_neutral_criterion : forall t, neutralb t = true -> neutral t.
Proof. exact neutralb_sound. Qed.

Theorem C19_partial_integer_terms : forall fuel z,
  (- 2 ^ 63 <= z < 2 ^ 63)%Z ->
  parse_term (S fuel) (show_term (TInt z)) = Ok (POk (TInt z)).
Proof. exact parse_term_show_int. Qed.

Theorem C19_roundtrip_terms : forall t fuel,
  canonical t -> (parse_fuel (show_term t) <= fuel)%nat ->
  parse_term fuel (show_term t) = Ok (POk t).
Proof. exact parse_term_show_canonical. Qed.

Theorem C19_roundtrip_terms_checked : forall t fuel,
  canonicalb t = true -> (parse_fuel (show_term t) <= fuel)%nat ->
  parse_term fuel (show_term t) = Ok (POk t).
Proof. exact canonicalb_roundtrip. Qed.

Check C19_roundtrip_goals : forall (ps : str -> res (presult goal)) g fuel,
  canonical_goal ps g -> (2 * length (text g) + 3 <= fuel)%nat ->
  show_goal g = Ok (text g) /\ generate_goal ps fuel (text g) = Ok (POk g).

Print Assumptions C19_roundtrip_goals.
Print Assumptions C19_roundtrip_rules.
Print Assumptions C19_neutral_criterion.
Print Assumptions C19_partial_integer_terms.
Print Assumptions C19_roundtrip_terms.
Print Assumptions C19_roundtrip_terms_checked.
