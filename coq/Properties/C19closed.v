(* C19, closed: with the REAL leaf parsers parse_subgoal and parse_complex (no hypothesis about
   a leaf parser), every closed rule prints as its canonical text and that text parses back to
   the rule; the same for closed goals with generate_goal.

   THE CLASSES (final state)
   canonical terms (Proofs/TermRoundtripMain.v `canonical`, executable test `canonicalb`):
     atoms            [A-Za-z0-9_] at both ends, [A-Za-z0-9_ ] between, not all digits (`wide_atom`)
     integers         64-bit
     variables        $[A-Za-z][A-Za-z0-9_]* with id 0; the anonymous variable $_
     complex terms    f(t1, ..., tn), n >= 0, f `[a-z][A-Za-z0-9_]*` other than join, add, subtract,
                      multiply, divide; text of at most 1000 characters
     lists            [t1, ..., tn] (n >= 0), [t1, ..., tn | $V] and [t1, ..., tn | $_] (n >= 1), in
                      the well-formed node shape (`elems` of Spec/SpecLists.v)
   closed leaf goals (Proofs/GoalLeafParse.v `closed_leaf`, test `closed_leafb`), arguments
   canonical terms:
     f(t1, ..., tn)   n >= 1, f `[a-z][A-Za-z0-9_]*`, not fail, nl, not, time, nor a built-in
                      predicate name (`goal_functor`); add, join, ... are ordinary functors here
     f()              f `[a-z][A-Za-z0-9_]*`, not fail, nl, not, time (`goal_functor0`; a built-in
                      predicate name is an ordinary functor when there are no arguments)
     name(t1, ..., tn)  n >= 1, name one of print, append, functor, include, exclude, print_list,
                      equal, less_than, less_than_or_equal, greater_than, greater_than_or_equal,
                      count (Display prints these in functional notation)
     l = r            unify, exactly two operands (the only infix form Display prints)
     !   fail   nl
     not(leaf)  time(leaf)   leaf any of the above except `l = r`; nesting allowed
   closed goals (Proofs/RuleRoundtripClosed.v `closed_goal`, test `closed_goalb`): leaves, and
     And / Or of at least two closed goals, any nesting.
   closed rules (`closed_rule`, test `closed_ruleb`): head f(t1, ..., tn) or f() as the call
     leaves above, text of at most 1000 characters; body none (a fact) or a closed goal.
   The fuel of the leaf parsers is any F >= length of the text + 2 - the instantiation of C18.

   EVERY DISAGREEMENT BETWEEN DISPLAY AND THE PARSERS KNOWN TO THIS DEVELOPMENT
   (value -> text printed -> what the parser makes of the text; the compiled Example)
   terms:
     T1  TVar 0 "$_" -> `$_` -> the anonymous variable           var_underscore_not_canonical  (Proofs/TermRoundtrip.v)
     T2  TVar 0 "$1" -> `$1` -> the atom `$1`                     var_digit_not_canonical       (Proofs/TermRoundtrip.v)
     T3  TVar 3 "$X" -> `$X_3` -> TVar 0 "$X_3"                   var_id_not_read_back          (this file)
     T4  TAtom "123" -> `123` -> the integer 123                  digits_atom_not_read_back     (Proofs/TermRoundtrip.v)
     T5  TNil -> `Nil` -> the atom Nil                            nil_not_read_back             (this file)
     T6  TComplex [] -> `)` -> the atom `)`                       empty_complex_not_read_back   (this file)
     T7  f(...) longer than 1000 characters -> error              complex_1001_not_read_back    (Proofs/TermRoundtripComplex.v; complex_1000_ok)
     T8  TComplex [add; ...] (also join, subtract, multiply, divide) -> `add(..)` -> the function TFun add
                                                                  reserved_functor_not_read_back (Proofs/TermRoundtripComplex.v)
     T9  TFun "foo" [1] -> `foo(1)` -> the complex term foo(1)    other_function_not_read_back  (this file)
     T10 list made of a tail variable only -> `[$T]` -> one-element list   list_only_tail_not_read_back (Proofs/TermRoundtripMain.v)
     (repaired: `[a | $_]`, list_anon_tail_reads_back in Proofs/TermRoundtripMain.v)
   goals and rules:
     G1  not(f(a) = 1): the infix scan skips from the first `(` to the first `)` only -> error
                                                                  not_unify_not_read_back
     G2  unify with three operands prints the first two           unify_three_not_read_back
     G3  unify with one operand: Display panics                   unify_one_panics
     G4  GBip print (Some []) -> `print()` -> the call print()    empty_bip_not_read_back
     G5  GBip print None -> `print` -> the call print()           bip_none_not_read_back
     G6  calls named fail / nl (any arity) read as the built-in fail / nl; calls named as a built-in
         predicate with arguments read as that predicate; time() and not() are errors
                                                                  reserved_goal_functors, reserved_goal_functors0
     G7  And / Or of one operand prints as the operand; of none as the empty text; GNil as `Nil`
                                                                  single_operand_not_read_back
     (repaired: a goal without arguments `go()`, zero_arity_goal_reads_back, zero_arity_rule_reads_back)
   files:
     F1  a line break after the sign of a negative number is a legal layout for the file reader, which
         puts a space there: `p(-` / `5).` loads as p(- 5) with the atom `- 5`
                                                                  break_after_minus_sign_changes_the_rule (Properties/C21closed.v)
     F2  floats: Display prints the shortest decimal that reads back as the same f64, without an
         exponent.  A float reads back as a float only when that decimal contains a period: 0.5, 0.1,
         -2.5, 123456789.12345679 do.  An integer-valued float does not (3.0 prints `3`, -0.0 prints
         `-0`, 1e23 prints `100000000000000000000000`: the text reads as an integer - or, beyond the
         64-bit range, as an error), nor do the infinities and NaN (`inf`, `-inf`, `NaN` read as atoms)
                                                                  integer_valued_float_not_read_back,
                                                                  fractional_float_reads_back, inf_nan_not_read_back
   Not examined by a theorem: floats with a fractional part (they round-trip in every case computed,
   no proof), quoted atoms, atoms and functors with other characters. *)
From Coq Require Import String.
From Suiron Require Import Model.Tokenizer Model.ParseRule Proofs.TokenizerProofs Proofs.GoalRoundtrip.
From Suiron Require Import Model.ParseTerm Model.ParseGoal Model.Show Model.ShowGoal.
From Suiron Require Import Proofs.TermRoundtrip Proofs.TermRoundtripComplex Proofs.TermRoundtripMain
  Proofs.TermRoundtripCheck Proofs.GoalLeafParse Proofs.RuleRoundtripClosed Proofs.RuleRoundtripCheck.
Open Scope N_scope.
Open Scope string_scope.

Theorem C19_closed_rules : forall r F fuel,
  closed_rule r -> (length (rule_text r) + 2 <= F)%nat -> (2 * length (rule_text r) + 3 <= fuel)%nat ->
  show_rule r = Ok (rule_text r) /\
  parse_rule (parse_subgoal F) (parse_complex F) fuel (rule_text r) = Ok (POk r).
Proof. exact roundtrip_rule_closed. Qed.

Theorem C19_closed_goals : forall g F fuel,
  closed_goal g -> (length (text g) + 2 <= F)%nat -> (2 * length (text g) + 3 <= fuel)%nat ->
  show_goal g = Ok (text g) /\ generate_goal (parse_subgoal F) fuel (text g) = Ok (POk g).
Proof. exact roundtrip_goal_closed. Qed.

(* the hypothesis `leaf_ok` of C19_roundtrip_goals holds of every closed leaf *)
Theorem C19_closed_leaves : forall l F,
  closed_leaf l -> (length (leaf_text l) + 2 <= F)%nat -> leaf_ok (parse_subgoal F) l.
Proof. exact closed_leaf_ok. Qed.

(* in the instantiation of C18: the leaf parsers get length + 2 *)
Corollary C19_closed_rules_C18_fuel : forall r,
  closed_rule r ->
  let s := rule_text r in
  show_rule r = Ok s /\
  parse_rule (parse_subgoal (length s + 2)) (parse_complex (length s + 2)) (2 * length s + 3) s =
  Ok (POk r).
Proof. intros r H s. apply C19_closed_rules; [exact H| |]; apply le_n. Qed.

(* an executable test that implies the class *)
Theorem C19_closed_rules_checked : forall r,
  closed_ruleb r = true ->
  let s := rule_text r in
  show_rule r = Ok s /\
  parse_rule (parse_subgoal (length s + 2)) (parse_complex (length s + 2)) (2 * length s + 3) s =
  Ok (POk r).
Proof. exact closed_ruleb_roundtrip. Qed.

(* ---- non-vacuity: h($X, [a | $_]) :- (a(1); $X = 1, !), not(b($X)), print($X, hello). ---- *)
Section Witness.
  Let X := TVar 0 (s2l "$X").
  Let a1 := GCall (TComplex [TAtom (s2l "a"); TInt 1]).
  Let u := GBip (s2l "unify") (Some [X; TInt 1]).
  Let cut := GBip (s2l "!") None.
  Let nb := GOp ONot [GCall (TComplex [TAtom (s2l "b"); X])].
  Let pr := GBip (s2l "print") (Some [X; TAtom (s2l "hello")]).
  Let h := TComplex [TAtom (s2l "h"); X; make_linked_list true [TAtom (s2l "a"); TAnon]].
  Let body := GOp OAnd [GOp OOr [a1; GOp OAnd [u; cut]]; nb; pr].

  Ltac can := apply canonicalb_sound; vm_compute; reflexivity.
  Ltac cans := let t := fresh in let H := fresh in
               intros t H; cbn [In] in H;
               repeat (destruct H as [<-|H]; [can|]); contradiction.

  Lemma w_a1 : closed_leaf a1.
  Proof. apply cl_call; [reflexivity|discriminate|cans]. Qed.
  Lemma w_u : closed_leaf u.
  Proof. apply (cl_unify X (TInt 1)); can. Qed.
  Lemma w_nb : closed_leaf nb.
  Proof. apply cl_not; [|reflexivity]. apply cl_call; [reflexivity|discriminate|cans]. Qed.
  Lemma w_pr : closed_leaf pr.
  Proof. apply cl_bip; [reflexivity|discriminate|cans]. Qed.

  Lemma w_body : closed_goal body.
  Proof.
    apply cg_and; [cbn; repeat constructor|]. intros g Hg. cbn [In] in Hg.
    destruct Hg as [<-|[<-|[<-|[]]]].
    - apply cg_or; [cbn; repeat constructor|]. intros g Hg. cbn [In] in Hg.
      destruct Hg as [<-|[<-|[]]].
      + apply cg_leaf, w_a1.
      + apply cg_and; [cbn; repeat constructor|]. intros g Hg. cbn [In] in Hg.
        destruct Hg as [<-|[<-|[]]]; apply cg_leaf; [apply w_u|apply cl_cut].
    - apply cg_leaf, w_nb.
    - apply cg_leaf, w_pr.
  Qed.

  Lemma w_rule : closed_rule (mkRule h body).
  Proof.
    split; [|right; exact w_body]. cbn [r_head].
    apply (ch_intro (s2l "h")); [reflexivity|discriminate|cans|vm_compute; repeat constructor].
  Qed.

  Example C19_closed_witness :
    let s := s2l "h($X, [a | $_]) :- (a(1); $X = 1, !), not(b($X)), print($X, hello)." in
    show_rule (mkRule h body) = Ok s /\
    parse_rule (parse_subgoal (length s + 2)) (parse_complex (length s + 2)) (2 * length s + 3) s =
    Ok (POk (mkRule h body)).
  Proof. exact (C19_closed_rules_C18_fuel _ w_rule). Qed.

  (* the same rule passes the executable test; so does one with wider atoms *)
  Example C19_closed_witness_checked :
    closed_ruleb (mkRule h body) = true /\
    closed_ruleb (mkRule (TComplex [TAtom (s2l "city"); TAtom (s2l "New York"); TVar 0 (s2l "$P")])
                         (GOp OOr [GBip (s2l "less_than") (Some [TVar 0 (s2l "$P"); TInt (-5)]);
                                   GOp OTime [GCall (TComplex [TAtom (s2l "lookup"); TAtom (s2l "Nil"); TAnon])]]))
    = true.
  Proof. vm_compute. split; reflexivity. Qed.
End Witness.

(* ---- arity 0 (after the repair of parse_subgoal: `go()` is a goal) ---- *)
Example zero_arity_goal_reads_back :
  let g := GCall (TComplex [TAtom (s2l "go")]) in
  parse_subgoal 20 (s2l "go") = Ok (POk g) /\
  show_goal g = Ok (s2l "go()") /\
  parse_subgoal 20 (s2l "go()") = Ok (POk g).
Proof. vm_compute. repeat split; reflexivity. Qed.

(* `p :- go, a(1).` parses, prints `p() :- go(), a(1).`, and that text parses back to the rule *)
Example zero_arity_rule_reads_back :
  let r := mkRule (TComplex [TAtom (s2l "p")])
                  (GOp OAnd [GCall (TComplex [TAtom (s2l "go")]);
                             GCall (TComplex [TAtom (s2l "a"); TInt 1])]) in
  parse_rule (parse_subgoal 30) (parse_complex 30) 100 (s2l "p :- go, a(1).") = Ok (POk r) /\
  show_rule r = Ok (s2l "p() :- go(), a(1).") /\
  parse_rule (parse_subgoal 30) (parse_complex 30) 100 (s2l "p() :- go(), a(1).") = Ok (POk r) /\
  closed_ruleb r = true /\
  closed_ruleb (mkRule (TComplex [TAtom (s2l "go")]) GNil) = true.
Proof. vm_compute. repeat split; reflexivity. Qed.

(* ---- where Display and the parsers disagree (outside the classes); the list is in the header ---- *)
(* T3, T5, T6, T9 *)
Example var_id_not_read_back :
  show_term (TVar 3 (s2l "$X")) = s2l "$X_3" /\
  parse_term 20 (s2l "$X_3") = Ok (POk (TVar 0 (s2l "$X_3"))).
Proof. vm_compute. split; reflexivity. Qed.
Example nil_not_read_back : parse_term 20 (show_term TNil) = Ok (POk (TAtom (s2l "Nil"))).
Proof. vm_compute. reflexivity. Qed.
Example empty_complex_not_read_back :
  show_term (TComplex []) = s2l ")" /\ parse_term 20 (s2l ")") = Ok (POk (TAtom (s2l ")"))).
Proof. vm_compute. split; reflexivity. Qed.
Example other_function_not_read_back :
  parse_term 20 (show_term (TFun (s2l "foo") [TInt 1])) =
  Ok (POk (TComplex [TAtom (s2l "foo"); TInt 1])).
Proof. vm_compute. reflexivity. Qed.

(* F2: s reads as a float which prints as t / which reads back *)
Definition float_prints_as (s t : str) : bool :=
  match parse_term 5 s with
  | Ok (POk (TFloat f)) => str_eqb (show_term (TFloat f)) t
  | _ => false
  end.
Definition float_reads_back (s : str) : bool :=
  match parse_term 5 s with
  | Ok (POk (TFloat f)) =>
      match parse_term 5 (show_term (TFloat f)) with
      | Ok (POk t) => term_eqb t (TFloat f)
      | _ => false
      end
  | _ => false
  end.

Example integer_valued_float_not_read_back :
  float_prints_as (s2l "3.0") (s2l "3") = true /\
  parse_term 5 (s2l "3") = Ok (POk (TInt 3)) /\
  float_prints_as (s2l "-0.0") (s2l "-0") = true /\
  parse_term 5 (s2l "-0") = Ok (POk (TInt 0)) /\
  float_prints_as (s2l "100000000000000000000000.") (s2l "100000000000000000000000") = true /\
  parse_term 5 (s2l "100000000000000000000000") = Ok PErr /\
  map float_reads_back [s2l "3.0"; s2l "-0.0"; s2l "100000000000000000000000."; s2l "1000000.0"] =
  [false; false; false; false].
Proof. vm_compute. repeat split; reflexivity. Qed.

Example fractional_float_reads_back :
  map float_reads_back
    [s2l "0.5"; s2l "0.1"; s2l "-2.50"; s2l "123456789.123456789"; s2l "0.000001"] =
  [true; true; true; true; true] /\
  float_prints_as (s2l "123456789.123456789") (s2l "123456789.12345679") = true /\
  float_prints_as (s2l "0.1") (s2l "0.1") = true.
Proof. vm_compute. repeat split; reflexivity. Qed.

Example inf_nan_not_read_back :
  parse_term 5 (show_term (TFloat (Float.f64_inf false))) = Ok (POk (TAtom (s2l "inf"))) /\
  parse_term 5 (show_term (TFloat (Float.f64_inf true))) = Ok (POk (TAtom (s2l "-inf"))) /\
  parse_term 5 (show_term (TFloat Float.f64_nan)) = Ok (POk (TAtom (s2l "NaN"))).
Proof. vm_compute. repeat split; reflexivity. Qed.

(* G1: not(l = r) with a parenthesis in l: the infix scan skips from the first `(` to the first
   `)` only, finds the ` = ` and splits the text there *)
Example not_unify_not_read_back :
  let g := GOp ONot [GBip (s2l "unify") (Some [TComplex [TAtom (s2l "f"); TAtom (s2l "a")]; TInt 1])] in
  show_goal g = Ok (s2l "not(f(a) = 1)") /\
  parse_subgoal 30 (s2l "not(f(a) = 1)") = Ok PErr /\
  parse_subgoal 30 (s2l "not($X = 1)") =
    Ok (POk (GOp ONot [GBip (s2l "unify") (Some [TVar 0 (s2l "$X"); TInt 1])])).
Proof. vm_compute. repeat split; reflexivity. Qed.

(* G2, G3 *)
Example unify_three_not_read_back :
  show_goal (GBip (s2l "unify") (Some [TAtom (s2l "a"); TAtom (s2l "b"); TAtom (s2l "c")])) =
  Ok (s2l "a = b").
Proof. vm_compute. reflexivity. Qed.
Example unify_one_panics : show_goal (GBip (s2l "unify") (Some [TAtom (s2l "a")])) = Panic.
Proof. vm_compute. reflexivity. Qed.

(* G4, G5 *)
Example empty_bip_not_read_back :
  show_goal (GBip (s2l "print") (Some [])) = Ok (s2l "print()") /\
  parse_subgoal 20 (s2l "print()") = Ok (POk (GCall (TComplex [TAtom (s2l "print")]))).
Proof. vm_compute. split; reflexivity. Qed.
Example bip_none_not_read_back :
  show_goal (GBip (s2l "print") None) = Ok (s2l "print") /\
  parse_subgoal 20 (s2l "print") = Ok (POk (GCall (TComplex [TAtom (s2l "print")]))).
Proof. vm_compute. split; reflexivity. Qed.

(* G6 *)
Example reserved_goal_functors :
  parse_subgoal 20 (s2l "fail(a)") = Ok (POk (GBip (s2l "fail") None)) /\
  parse_subgoal 20 (s2l "count(a)") = Ok (POk (GBip (s2l "count") (Some [TAtom (s2l "a")]))) /\
  parse_subgoal 20 (s2l "add(1, 2)") =
    Ok (POk (GCall (TComplex [TAtom (s2l "add"); TInt 1; TInt 2]))).
Proof. vm_compute. repeat split; reflexivity. Qed.
Example reserved_goal_functors0 :
  parse_subgoal 20 (s2l "fail()") = Ok (POk (GBip (s2l "fail") None)) /\
  parse_subgoal 20 (s2l "nl()") = Ok (POk (GBip (s2l "nl") None)) /\
  parse_subgoal 20 (s2l "!()") = Ok (POk (GBip (s2l "!") None)) /\
  parse_subgoal 20 (s2l "time()") = Ok PErr /\ parse_subgoal 20 (s2l "not()") = Ok PErr /\
  parse_subgoal 20 (s2l "count()") = Ok (POk (GCall (TComplex [TAtom (s2l "count")]))).
Proof. vm_compute. repeat split; reflexivity. Qed.

(* G7 *)
Example single_operand_not_read_back :
  show_goal (GOp OAnd [GCall (TComplex [TAtom (s2l "a"); TInt 1])]) = Ok (s2l "a(1)") /\
  show_goal (GOp OAnd []) = Ok [] /\
  show_goal GNil = Ok (s2l "Nil") /\
  parse_subgoal 20 (s2l "Nil") = Ok (POk (GCall (TComplex [TAtom (s2l "Nil")]))).
Proof. vm_compute. repeat split; reflexivity. Qed.

Check C19_closed_rules : forall r F fuel,
  closed_rule r -> (length (rule_text r) + 2 <= F)%nat -> (2 * length (rule_text r) + 3 <= fuel)%nat ->
  show_rule r = Ok (rule_text r) /\
  parse_rule (parse_subgoal F) (parse_complex F) fuel (rule_text r) = Ok (POk r).

Print Assumptions C19_closed_rules.
Print Assumptions C19_closed_goals.
Print Assumptions C19_closed_leaves.
Print Assumptions C19_closed_rules_checked.
