(* C18 (term-level entry points) - Parsers return a value or an error for every input,
   never panic.  For each entry point p modelled in Model/ParseTerm.v and Model/ParseGoal.v:
   for EVERY string s and EVERY fuel >= parse_fuel s = length s + 2 (linear in the length;
   one unit of fuel per nesting level of a recursive parser call), `p fuel s` is
   `Ok (POk v)` or `Ok PErr` - never Panic, never OutOfFuel.
   The goal/rule level (generate_goal, parse_rule) is not in this file. *)
From Coq Require Import String.
From Suiron Require Import Model.ParseTerm Model.ParseGoal Proofs.ParseTermProofs.
Open Scope string_scope.

Theorem C18_parse_term_terms : forall s fuel,
  (parse_fuel s <= fuel)%nat ->
  parse_term fuel s = Ok PErr \/ exists v, parse_term fuel s = Ok (POk v).
Proof. exact parse_term_total. Qed.

Theorem C18_parse_arguments_terms : forall s fuel,
  (parse_fuel s <= fuel)%nat ->
  parse_arguments fuel s = Ok PErr \/ exists v, parse_arguments fuel s = Ok (POk v).
Proof. exact parse_arguments_total. Qed.

Theorem C18_parse_linked_list_terms : forall s fuel,
  (parse_fuel s <= fuel)%nat ->
  parse_linked_list fuel s = Ok PErr \/ exists v, parse_linked_list fuel s = Ok (POk v).
Proof. exact parse_linked_list_total. Qed.

Theorem C18_parse_complex_terms : forall s fuel,
  (parse_fuel s <= fuel)%nat ->
  parse_complex fuel s = Ok PErr \/ exists v, parse_complex fuel s = Ok (POk v).
Proof. exact parse_complex_total. Qed.

Theorem C18_parse_function_terms : forall s fuel,
  (parse_fuel s <= fuel)%nat ->
  parse_function fuel s = Ok PErr \/ exists v, parse_function fuel s = Ok (POk v).
Proof. exact parse_function_total. Qed.

Theorem C18_parse_query_terms : forall s fuel,
  (parse_fuel s <= fuel)%nat ->
  parse_query fuel s = Ok PErr \/ exists v, parse_query fuel s = Ok (POk v).
Proof. exact parse_query_total. Qed.

Theorem C18_parse_subgoal_terms : forall s fuel,
  (parse_fuel s <= fuel)%nat ->
  parse_subgoal fuel s = Ok PErr \/ exists v, parse_subgoal fuel s = Ok (POk v).
Proof. exact parse_subgoal_total. Qed.

(* the infix scan used by parse_subgoal never underflows `length - 2` *)
Theorem C18_check_infix_terms : forall s, exists inf idx, check_infix s = Ok (inf, idx).
Proof. exact check_infix_total. Qed.

(* the bound is the one stated *)
Example C18_fuel_is_linear : forall s, parse_fuel s = (length s + 2)%nat.
Proof. reflexivity. Qed.

(* the inputs on which the unrepaired crate panicked: now an error / a value *)
Example C18_witness_trailing_backslash :
  parse_arguments 10 (s2l "a\") = Ok (POk [TAtom (s2l "a\")]).
Proof. vm_compute. reflexivity. Qed.
Example C18_witness_empty_query : parse_query 10 [] = Ok PErr.
Proof. vm_compute. reflexivity. Qed.
Example C18_witness_value :
  parse_subgoal 30 (s2l "not(f($X, [a, b | $T]))") =
  Ok (POk (GOp ONot [GCall (TComplex [TAtom (s2l "f"); TVar 0 (s2l "$X");
     TList (TAtom (s2l "a")) (TList (TAtom (s2l "b")) (TList (TVar 0 (s2l "$T")) empty_list 1 true) 2 false) 3 false])])).
Proof. vm_compute. reflexivity. Qed.

Check C18_parse_term_terms : forall s fuel,
  (parse_fuel s <= fuel)%nat ->
  parse_term fuel s = Ok PErr \/ exists v, parse_term fuel s = Ok (POk v).
Check C18_parse_subgoal_terms : forall s fuel,
  (parse_fuel s <= fuel)%nat ->
  parse_subgoal fuel s = Ok PErr \/ exists v, parse_subgoal fuel s = Ok (POk v).
Check C18_parse_query_terms : forall s fuel,
  (parse_fuel s <= fuel)%nat ->
  parse_query fuel s = Ok PErr \/ exists v, parse_query fuel s = Ok (POk v).

Print Assumptions C18_parse_term_terms.
Print Assumptions C18_parse_arguments_terms.
Print Assumptions C18_parse_linked_list_terms.
Print Assumptions C18_parse_complex_terms.
Print Assumptions C18_parse_function_terms.
Print Assumptions C18_parse_query_terms.
Print Assumptions C18_parse_subgoal_terms.
Print Assumptions C18_check_infix_terms.
