(* C16 - append concatenates the elements of its arguments. *)
From Suiron Require Import Model.Term Model.Subst Model.Lists Model.Unify Model.Builtins
  Spec.SpecCompare Spec.SpecLists Proofs.ListProofs.

(* `Contrib ss t xs` (Spec/SpecLists.v): what input argument t contributes under the
   bindings ss - the elements of the list it resolves to, continuing through a tail variable
   bound to a list (`Elements`), or the single non-list value it resolves to.

   For all inputs, contributions, output terms and substitutions: once every input has its
   contribution, append unifies the output argument with the list that holds EXACTLY the
   concatenated contributions (C15_list_of_terms_exact), and that is all it does. *)
Theorem C16_append_spec : forall ss inputs cs out,
  inputs <> [] -> Forall2 (Contrib ss) inputs cs ->
  exists f0, forall f, (f0 <= f)%nat ->
    bip_append f (Some (inputs ++ [out])) ss = unify f out (make_list_of_terms (concat cs)) ss.
Proof. exact bip_append_spec. Qed.

(* The traversal behind it yields exactly the elements the specification names. *)
Theorem C16_traversal : forall ss keep l xs,
  Elements ss keep l xs ->
  forall x nx c tv, l = TList x nx c tv -> (tv = false \/ is_nil x = true) ->
  exists f0, forall f, (f0 <= f)%nat -> walk f (negb keep) x nx ss = Ok xs.
Proof. exact walk_elements. Qed.

(* non-vacuity: $T = [q], append([a | $T], [z], b, $Out) binds $Out to [a, q, z, b] *)
Example C16_witness :
  let a := TAtom [97] in let q := TAtom [113] in let z := TAtom [122] in let b := TAtom [98] in
  let T := TVar 1 [36; 84] in let Out := TVar 2 [36; 79] in
  let ss := [None; Some (make_list_of_terms [q])] in
  Contrib ss (make_linked_list true [a; T]) [a; q] /\
  bip_append 20 (Some [make_linked_list true [a; T]; make_list_of_terms [z]; b; Out]) ss
    = Ok (Some [None; Some (make_list_of_terms [q]); Some (make_list_of_terms [a; q; z; b])]).
Proof.
  split; [|vm_compute; reflexivity].
  eapply Contrib_list; [constructor; reflexivity|reflexivity|].
  eapply (El_bound _ _ _ [TAtom [97]] (TVar 1 [36; 84]) (make_list_of_terms [TAtom [113]]) [TAtom [113]]);
    try reflexivity; try discriminate.
  - eapply chain_step; [reflexivity|]. constructor. reflexivity.
  - apply El_closed. reflexivity.
Qed.

Check C16_append_spec : forall ss inputs cs out,
  inputs <> [] -> Forall2 (Contrib ss) inputs cs ->
  exists f0, forall f, (f0 <= f)%nat ->
    bip_append f (Some (inputs ++ [out])) ss = unify f out (make_list_of_terms (concat cs)) ss.

Print Assumptions C16_append_spec.
Print Assumptions C16_traversal.
