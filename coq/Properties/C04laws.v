(* C04, law of the reference search (Spec/SpecCut.v) for output, for cut-free programs, stated with the
   direct-style stream interpreter `sld` of Proofs/SldOrder.v (which the reference equals at every fuel:
   Properties/C01laws.v): a built-in predicate standing after a goal g1 - print, print_list, nl, ... - is
   executed once for EACH answer of g1, in the order in which g1 delivers them, and its text is appended
   to the output at that moment, before g1 is resumed (`seach` resumes the stream in the world the
   execution left).  Hence: once per execution, in search order, and again on every retry. *)
From Suiron Require Import Model.Term Model.Subst Model.Solve Model.Builtins Model.Rename Spec.SpecCut
  Proofs.CutOnce Proofs.SldOrder Proofs.OutputLaw.
Open Scope N_scope.

Theorem C04_output_once_per_answer : forall kb bf, cutfree_kb kb = true ->
  forall f g1 fn ts s w, cutfree g1 = true -> str_eqb fn n_cut = false ->
  answers kb bf (S (S (S f))) (GOp OAnd [g1; GBip fn ts]) s w =
  seach (sld kb bf (S (S f)) g1 s w)
        (fun s1 w1 => do r <- run_bip bf fn ts s1;
                      Ok (match br_sol r with Some s' => [s'] | None => [] end, w_print w1 (br_out r))).
Proof. exact output_once_per_answer. Qed.

(* non-vacuity.  n(1). n(2).   ?- n($X), print($X).   two answers; the output is "1" then "2" *)
Example C04_laws_witness :
  let kb : kbase := [([110; 47; 49], [mkRule (TComplex [TAtom [110]; TInt 1]) GNil; mkRule (TComplex [TAtom [110]; TInt 2]) GNil])] in
  let g := GOp OAnd [GCall (TComplex [TAtom [110]; TVar 1 [36; 88]]); GBip [112; 114; 105; 110; 116] (Some [TVar 1 [36; 88]])] in
  cutfree_kb kb = true /\ cutfree g = true /\
  exists a1 a2 w', answers kb 20 20 g [] (mkWorld 1 false None []) = Ok ([a1; a2], w') /\ out w' = [49; 50].
Proof. cbn zeta. split; [reflexivity|]. split; [reflexivity|]. do 3 eexists. split; vm_compute; reflexivity. Qed.

Print Assumptions C04_output_once_per_answer.
