(* C12 - Arithmetic functions compute the documented values. *)
From Suiron Require Import Model.Term Model.Subst Model.Arith Spec.SpecCompare Spec.SpecArith Proofs.ArithProofs.
Open Scope Z_scope.

(* Every finished evaluation of add / subtract / multiply / divide: the arguments resolve
   (through any variable chains) to numbers `ns`, the value is the left-to-right fold of
   `ns` — in Z with truncating division when all are integers, in IEEE-754 binary64
   (Flocq, integers converted, round to nearest even) when any is a float — and no integer
   step overflowed or divided by zero. *)
Theorem C12_evaluate_is_fold : forall fuel op args ss v,
  evaluate fuel op args ss = Ok v ->
  exists ns, resolve_nums ss args ns /\ spec_value (aop_of op) ns = Some v /\ ints_safe (aop_of op) ns.
Proof. exact evaluate_spec. Qed.

(* Inside the claim (arguments resolve to numbers; no integer overflow or zero divisor) the
   evaluation finishes, and with exactly that value. *)
Theorem C12_evaluate_complete : forall op args ss ns v,
  resolve_nums ss args ns -> ints_safe (aop_of op) ns -> spec_value (aop_of op) ns = Some v ->
  exists fuel0, forall fuel, (fuel0 <= fuel)%nat -> evaluate fuel op args ss = Ok v.
Proof. exact evaluate_complete. Qed.

(* the hypotheses are satisfiable by a non-trivial input: 7 / $X / 2 with $X -> $Y -> -2 *)
Example C12_nonvacuous :
  let ss := [None; Some (TVar 2 []); Some (TInt (-2))] in
  resolve_nums ss [TInt 7; TVar 1 []; TInt 2] [NumI 7; NumI (-2); NumI 2] /\
  ints_safe SDiv [NumI 7; NumI (-2); NumI 2] /\
  spec_value SDiv [NumI 7; NumI (-2); NumI 2] = Some (TInt (-1)).
Proof.
  simpl. split; [|split; [|reflexivity]].
  - repeat constructor. eapply chain_step; [reflexivity|]. eapply chain_step; [reflexivity|].
    now constructor.
  - right. simpl. unfold in_i64. repeat split; try discriminate; vm_compute; congruence.
Qed.

Check C12_evaluate_is_fold : forall fuel op args ss v,
  evaluate fuel op args ss = Ok v ->
  exists ns, resolve_nums ss args ns /\ spec_value (aop_of op) ns = Some v /\ ints_safe (aop_of op) ns.

Print Assumptions C12_evaluate_is_fold.
Print Assumptions C12_evaluate_complete.
