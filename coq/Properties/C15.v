(* C15 - Engine-built lists hold exactly their elements. *)
From Suiron Require Import Model.Term Model.Subst Model.Lists Model.Builtins
  Spec.SpecLists Proofs.ListProofs.
Open Scope N_scope.

(* `elems l = Some (xs, tl)` (Spec/SpecLists.v) says: l is a well-formed node chain whose
   elements are exactly xs, in order, with tail variable tl (if any); every node's recorded
   count is the number of nodes from there on.  A list-valued or empty-list element is one
   element of xs like any other. *)

(* The builder behind append, include and exclude: exactly the given terms, for every
   sequence of terms (lists, empty lists, variables, `$_`, ... included). *)
Theorem C15_list_of_terms_exact : forall xs, non_nil xs ->
  elems (make_list_of_terms xs) = Some (xs, None) /\
  node_count (make_list_of_terms xs) = N.of_nat (length xs).
Proof. exact make_list_of_terms_spec. Qed.

(* Linking a term in front of a list (the parser's builder). *)
Theorem C15_link_front : forall x l xs tl,
  is_nil x = false -> elems l = Some (xs, tl) ->
  exists l', link_front x false l = Ok l' /\ elems l' = Some (x :: xs, tl).
Proof. exact link_front_spec. Qed.

(* The recorded length is the number of nodes. *)
Theorem C15_count : forall l xs tl, elems l = Some (xs, tl) ->
  node_count l = N.of_nat (length xs) + match tl with Some _ => 1 | None => 0 end.
Proof. exact elems_count. Qed.

(* The documented constructor make_linked_list(vbar, terms): *)
Theorem C15_constructor_empty : forall vbar, make_linked_list vbar [] = empty_list.
Proof. exact mll_nil. Qed.

Theorem C15_constructor_single : forall vbar x, is_nil x = false ->
  elems (make_linked_list vbar [x]) = if vbar then Some ([], Some x) else Some ([x], None).
Proof. exact mll_single. Qed.

(* ... the given elements, the last one as the tail variable when vbar is set ... *)
Theorem C15_constructor_plain : forall vbar xs last,
  xs <> [] -> non_nil xs -> is_list last = false -> is_nil last = false ->
  elems (make_linked_list vbar (xs ++ [last])) =
  if vbar then Some (xs, Some last) else Some (xs ++ [last], None).
Proof. exact mll_plain. Qed.

(* ... and a trailing list spliced in as the rest of the list, as in [a | [b, c]]. *)
Theorem C15_constructor_splice : forall vbar xs last ys tl,
  xs <> [] -> non_nil xs -> is_list last = true -> elems last = Some (ys, tl) ->
  elems (make_linked_list vbar (xs ++ [last])) = Some (xs ++ ys, tl).
Proof. exact mll_splice. Qed.

(* non-vacuity: [a, [b], []] built by make_list_of_terms keeps the nested and the empty
   list as single elements; make_linked_list splices a trailing [b, c]. *)
Example C15_witness :
  let a := TAtom [97] in let b := TAtom [98] in let c := TAtom [99] in
  elems (make_list_of_terms [a; make_list_of_terms [b]; empty_list])
    = Some ([a; make_list_of_terms [b]; empty_list], None) /\
  elems (make_linked_list false [a; make_list_of_terms [b; c]]) = Some ([a; b; c], None) /\
  elems (make_linked_list true [a; b; TVar 1 [36; 84]]) = Some ([a; b], Some (TVar 1 [36; 84])).
Proof. vm_compute. repeat split. Qed.

Check C15_list_of_terms_exact : forall xs, non_nil xs ->
  elems (make_list_of_terms xs) = Some (xs, None) /\
  node_count (make_list_of_terms xs) = N.of_nat (length xs).

Print Assumptions C15_list_of_terms_exact.
Print Assumptions C15_link_front.
Print Assumptions C15_count.
Print Assumptions C15_constructor_empty.
Print Assumptions C15_constructor_single.
Print Assumptions C15_constructor_plain.
Print Assumptions C15_constructor_splice.
