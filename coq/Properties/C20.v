(* C20 - A term's meaning does not depend on where it is written.
   The same text s is parsed to the same term (or fails the same way) by parse_term, as the
   argument of parse_arguments, as the element of a list, as the argument of a complex term
   and of a query, and as an operand of an infix operator of parse_subgoal - for EVERY
   string s that satisfies the decidable side conditions below, and every fuel.

   Side conditions (all boolean functions of the text, defined in Proofs/ParseTermProofs.v):
   * args_plain s      - scanning the trimmed text the way parse_arguments does, no comma and
                         no backslash occurs outside "..." and outside ( ) [ ]; brackets
                         are closed at the end; double quotes outside brackets: none, or exactly
                         two which are the first and last character; the text does not end
                         with a comma.
   * list_plain s      - scanning the text backwards the way parse_linked_list does, no
                         unescaped `,` or `|` occurs outside "..." and ( ) [ ]; quotes as above.
   * parens_balanced s - as many `(` as `)` (indices_of_parentheses pairs the first `(` of
                         f(s) with the last `)`).
   * no_arith_infix s  - parse_term's scan finds no ` + `, ` - `, ` * `, ` / ` in the text.
                         Without this condition the statement is FALSE of the crate (known
                         finding arith-infix-as-argument, see C20_args_refuted_for_infix_texts):
                         `$X + 1` is add($X, 1) for parse_term, in a list and as an infix
                         operand, but the atom `$X + 1` as an argument of f(...).
   * for the infix context: the scan of check_infix finds the operator where it is written.
   What the statement does not cover is listed at C20_full below. *)
From Coq Require Import String.
From Suiron Require Import Model.ParseTerm Model.ParseGoal Proofs.ParseTermProofs.
Open Scope N_scope.

(* argument of parse_arguments *)
Theorem C20_args : forall fuel s,
  args_plain s = true -> no_arith_infix s = true ->
  parse_arguments (S fuel) s = pmap (fun t => [t]) (parse_term (S fuel) s).
Proof. exact context_independent_args. Qed.

(* the k-th of several arguments: every piece of `p1,p2,...,pn` is parsed as parse_term
   parses it, in order (piece_ok: args_plain for a text that may carry blanks around it, the
   text not empty, not ending with a comma, no arithmetic infix) *)
Theorem C20_args_nary : forall fuel ps,
  ps <> [] -> forallb piece_ok ps = true -> trim (join_comma ps) = join_comma ps ->
  parse_arguments (S fuel) (join_comma ps) = pseq (map (parse_term (S fuel)) ps).
Proof. exact context_independent_args_nary. Qed.

(* the punctuation atoms written as two-character escapes: `\,` `\|` `\(` ... *)
Theorem C20_args_escape : forall fuel c,
  is_white c = false ->
  parse_arguments (S fuel) [c_bslash; c] = pmap (fun t => [t]) (parse_term (S fuel) [c_bslash; c]).
Proof. exact context_independent_escape. Qed.

(* element of a list: [s] *)
Theorem C20_list : forall fuel s,
  s <> [] -> list_plain s = true ->
  parse_linked_list (S fuel) (c_lbr :: s ++ [c_rbr]) =
  pmap (fun t => TList t empty_list 1 false) (parse_term (S fuel) s).
Proof. exact context_independent_list. Qed.

(* argument of a complex term: f(s) *)
Theorem C20_complex : forall fuel f s,
  functor_ok f = true -> parens_balanced s = true ->
  (length (f ++ c_lpar :: s ++ [c_rpar]) <= 1000)%nat ->
  trim s <> [] -> args_plain s = true -> no_arith_infix s = true ->
  parse_complex (S fuel) (f ++ c_lpar :: s ++ [c_rpar]) =
  pmap (fun t => TComplex [TAtom (trim f); t]) (parse_term (S fuel) s).
Proof. exact context_independent_complex. Qed.

(* argument of a query: f(s) and f(s). - parse_term, then make_query's renaming *)
Theorem C20_query : forall fuel f s,
  functor_ok f = true -> parens_balanced s = true ->
  (length (f ++ c_lpar :: s ++ [c_rpar]) <= 1000)%nat ->
  trim s <> [] -> args_plain s = true -> no_arith_infix s = true ->
  parse_query (S fuel) (f ++ c_lpar :: s ++ [c_rpar]) =
  (dop t <- parse_term (S fuel) s; do r <- make_query [TAtom (trim f); t]; pok (fst r)).
Proof. exact context_independent_query. Qed.

Theorem C20_query_period : forall fuel f s,
  functor_ok f = true -> parens_balanced s = true ->
  (length (f ++ c_lpar :: s ++ [c_rpar]) <= 1000)%nat ->
  trim s <> [] -> args_plain s = true -> no_arith_infix s = true ->
  parse_query (S fuel) ((f ++ c_lpar :: s ++ [c_rpar]) ++ [c_period]) =
  (dop t <- parse_term (S fuel) s; do r <- make_query [TAtom (trim f); t]; pok (fst r)).
Proof. exact context_independent_query_period. Qed.

(* operands of an infix operator of parse_subgoal: l = r, l == r, l < r, l <= r, l > r, l >= r *)
Theorem C20_infix : forall fuel inf name l r,
  infix_goal_name inf = Some name ->
  is_white (hd 32 l) = false -> is_white (last r 32) = false ->
  check_infix (infix_text l (op_text inf) r) = Ok (inf, (length l + 1)%nat) ->
  parse_subgoal (S fuel) (infix_text l (op_text inf) r) =
  (dop t1 <- parse_term fuel l; dop t2 <- parse_term fuel r; pok (make_goal name [t1; t2])).
Proof. exact context_independent_infix. Qed.

(* all contexts at once, for one text (C20_side, in Proofs/ParseTermProofs.v: args_plain,
   no_arith_infix, list_plain, parens_balanced, and the trimmed text is not empty) *)
Theorem C20_context_independent : forall fuel s,
  C20_side s = true ->
  let t := parse_term (S fuel) s in
  parse_arguments (S fuel) s = pmap (fun x => [x]) t /\
  parse_linked_list (S fuel) (c_lbr :: s ++ [c_rbr]) = pmap (fun x => TList x empty_list 1 false) t /\
  (forall f, functor_ok f = true -> (length (f ++ c_lpar :: s ++ [c_rpar]) <= 1000)%nat ->
     parse_complex (S fuel) (f ++ c_lpar :: s ++ [c_rpar]) =
       pmap (fun x => TComplex [TAtom (trim f); x]) t /\
     parse_query (S fuel) (f ++ c_lpar :: s ++ [c_rpar]) =
       (dop x <- t; do r <- make_query [TAtom (trim f); x]; pok (fst r))) /\
  (forall inf name l, infix_goal_name inf = Some name ->
     is_white (hd 32 l) = false -> is_white (last s 32) = false ->
     check_infix (infix_text l (op_text inf) s) = Ok (inf, (length l + 1)%nat) ->
     parse_subgoal (S (S fuel)) (infix_text l (op_text inf) s) =
       (dop t1 <- parse_term (S fuel) l; dop t2 <- t; pok (make_goal name [t1; t2]))).
Proof. exact context_independent. Qed.

(* non-vacuity: a text with a signed number, a nested list with a tail variable and a quoted
   atom containing a comma satisfies the side conditions; its term in four contexts *)
Example C20_witness :
  let s := s2l "foo(-5, [a, ""b, c"" | $T], $_)" in
  let t := TComplex [TAtom (s2l "foo"); TInt (-5);
             TList (TAtom (s2l "a")) (TList (TAtom (s2l "b, c")) (TList (TVar 0 (s2l "$T")) empty_list 1 true) 2 false) 3 false;
             TAnon] in
  C20_side s = true /\
  parse_term 9 s = Ok (POk t) /\
  parse_arguments 9 s = Ok (POk [t]) /\
  parse_linked_list 9 (c_lbr :: s ++ [c_rbr]) = Ok (POk (TList t empty_list 1 false)) /\
  parse_complex 9 (s2l "g(" ++ s ++ s2l ")") = Ok (POk (TComplex [TAtom (s2l "g"); t])) /\
  parse_subgoal 9 (s2l "$X = " ++ s) = Ok (POk (GBip (s2l "unify") (Some [TVar 0 (s2l "$X"); t]))).
Proof. vm_compute. repeat split. Qed.

(* the defect that was repaired: -5 is the integer in every context *)
Example C20_witness_signed :
  let s := s2l "-5" in
  C20_side s = true /\ parse_term 5 s = Ok (POk (TInt (-5))) /\
  parse_arguments 5 s = Ok (POk [TInt (-5)]) /\
  parse_linked_list 5 (s2l "[-5]") = Ok (POk (TList (TInt (-5)) empty_list 1 false)) /\
  parse_subgoal 5 (s2l "$X = -5") = Ok (POk (GBip (s2l "unify") (Some [TVar 0 (s2l "$X"); TInt (-5)]))).
Proof. vm_compute. repeat split. Qed.

Example C20_witness_nary :
  let ps := [s2l "-5"; s2l " [a, b | $T]"; s2l " foo(1, ""x, y"")"] in
  forallb piece_ok ps = true /\ trim (join_comma ps) = join_comma ps /\
  join_comma ps = s2l "-5, [a, b | $T], foo(1, ""x, y"")" /\
  parse_arguments 9 (join_comma ps) =
  Ok (POk [TInt (-5);
           TList (TAtom (s2l "a")) (TList (TAtom (s2l "b")) (TList (TVar 0 (s2l "$T")) empty_list 1 true) 2 false) 3 false;
           TComplex [TAtom (s2l "foo"); TInt 1; TAtom (s2l "x, y")]]).
Proof. vm_compute. repeat split. Qed.

(* Known finding (class arith-infix-as-argument): without no_arith_infix the argument
   context disagrees - so the full statement below is false of the repaired crate too. *)
Definition C20_known_class (s : str) : Prop := no_arith_infix s = false.

Example C20_args_refuted_for_infix_texts :
  exists s, C20_known_class s /\ args_plain s = true /\
            parse_arguments 5 s <> pmap (fun t => [t]) (parse_term 5 s).
Proof. exists (s2l "$X + 1"). repeat split; vm_compute; discriminate. Qed.

(* What C20 asks for in full: agreement of all contexts for every term text, including
   arithmetic-infix texts as arguments (false: known finding above), the k-th of several
   list elements (several ARGUMENTS are covered by C20_args_nary; for lists only a single
   element is proved, the correspondence runs check positions 1..2), and texts with escapes longer than `\x` or
   with inner double quotes, which the crate treats differently by context (parse_arguments
   removes backslashes and checks quotes, parse_term does neither). *)
Definition C20_full : Prop :=
  forall fuel s, args_plain s = true ->
    parse_arguments (S fuel) s = pmap (fun t => [t]) (parse_term (S fuel) s).

Example C20_full_is_false : ~ C20_full.
Proof.
  intros H. specialize (H 4%nat (s2l "$X + 1") eq_refl). vm_compute in H. discriminate.
Qed.

Check C20_args : forall fuel s,
  args_plain s = true -> no_arith_infix s = true ->
  parse_arguments (S fuel) s = pmap (fun t => [t]) (parse_term (S fuel) s).
Check C20_list : forall fuel s,
  s <> [] -> list_plain s = true ->
  parse_linked_list (S fuel) (c_lbr :: s ++ [c_rbr]) =
  pmap (fun t => TList t empty_list 1 false) (parse_term (S fuel) s).

Print Assumptions C20_args.
Print Assumptions C20_args_nary.
Print Assumptions C20_args_escape.
Print Assumptions C20_list.
Print Assumptions C20_complex.
Print Assumptions C20_query.
Print Assumptions C20_query_period.
Print Assumptions C20_infix.
Print Assumptions C20_context_independent.
