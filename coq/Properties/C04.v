(* C04 - Output side effects occur once per execution, in search order.

   PROVED: the formatting rule of print for all format strings and argument lists, and that
   requests on an exhausted node write nothing.  The order/multiplicity of output relative to
   the reference search is `out w' = output_of evs` in `refines_reference` (Spec/Refine.v;
   not yet proved, evaluated by the check's oracle on every generated history, output
   compared per request). *)
From Coq Require Import String.
From Suiron Require Import Model.Term Model.Subst Model.Builtins Model.Rename Model.Solve Spec.SpecSolve
  Spec.Refine Spec.SpecLazy Spec.SpecCut Proofs.SolveDead Proofs.SolveMisc Proofs.RefinePlain Proofs.RefineDen Proofs.RefineCut.

(* For EVERY program (cut, not, time included) the order and multiplicity of output is PROVED:
   the final world reached by draining a query - its `out` field is everything written - is
   the final world of the reference search (Spec/SpecCut.v), which writes exactly when it
   executes a print goal, once per execution, in depth-first order; and after every single
   answer the world is the one the reference search has reached at that point (C01_step_all). *)
Theorem C04_output_of_search : forall kb bf q w fs R nd w1 m F R',
  canswers kb bf fs q w = Ok R ->
  make_base_node kb (GCall q) w = Ok (nd, w1) ->
  ask_all kb bf m F nd w1 = Ok R' -> out (snd R') = out (snd R).
Proof. intros. now rewrite (refines_cut kb bf q w fs R nd w1 m F R'). Qed.

(* For cut-free programs (calls, conjunctions, disjunctions, built-ins incl. print, print_list,
   nl) the order and multiplicity of output is PROVED: the final world reached by draining a
   query - its `out` field is everything written - is the final world of the reference search
   (Spec/SpecLazy.v), which writes exactly when it executes a print goal, once per execution,
   in depth-first order. *)
Theorem C04_output_of_cutfree_search : forall kb bf, plain_kb kb ->
  forall q w fs R nd w1 m F R',
    answers kb bf fs q w = Ok R ->
    make_base_node kb (GCall q) w = Ok (nd, w1) ->
    drainK kb bf m F nd w1 (fun s w' => Ok ([s], w')) = Ok R' -> out (snd R') = out (snd R).
Proof. intros. now rewrite (refines_lazy kb bf H q w fs R nd w1 m F R'). Qed.

(* print: the first argument, cut at its "%s" markers into pieces p0, p1, .., pn, is written
   with the later arguments substituted for the markers in order; surplus arguments are
   appended (so: concatenation when there is no marker), surplus markers vanish. *)
Theorem C04_print_format : forall p0 pieces args,
  no_pct p0 -> Forall no_pct pieces ->
  format_for_print_pred (with_markers p0 pieces :: args) = Ok (p0 ++ fill args pieces).
Proof. exact print_format_spec. Qed.

(* A request that finds no answer on an exhausted node writes nothing. *)
Theorem C04_no_output_after_exhaustion : forall kb bf fuel nd w nd' r c w',
  dead nd -> next kb bf fuel nd w = Ok (nd', r, c, w') -> r = None /\ c = false /\ w' = w /\ dead nd'.
Proof. exact dead_stays. Qed.

Example C04_witness :
  format_for_print_pred [s2l "Hello, %s. "%string; s2l "Dave"%string; s2l "You're looking well today."%string]
  = Ok (s2l "Hello, Dave. You're looking well today."%string) /\
  format_for_print_pred [s2l "a"%string; s2l "b"%string; s2l "c"%string] = Ok (s2l "abc"%string) /\
  format_for_print_pred [s2l "x=%s, y=%s"%string; s2l "1"%string] = Ok (s2l "x=1, y="%string).
Proof. vm_compute. repeat split. Qed.

Check C04_print_format : forall p0 pieces args,
  no_pct p0 -> Forall no_pct pieces ->
  format_for_print_pred (with_markers p0 pieces :: args) = Ok (p0 ++ fill args pieces).

Print Assumptions C04_output_of_search.
Print Assumptions C04_output_of_cutfree_search.
Print Assumptions C04_print_format.
Print Assumptions C04_no_output_after_exhaustion.
