(* C02 - Cut commits to its clause and ends the call.

   The reference search Spec/SpecCut.v says what `!` means: the search continues, and what comes
   back carries the signal Cut - the alternatives of everything up to the clause body are
   abandoned (the goals left of the cut are not retried, C02_reference_cut_signals), the call
   that chose the clause tries no later clause and ABSORBS the signal, so its caller and its
   siblings never see it (C02_reference_call_absorbs); an answer that leaves a conjunction in
   which a cut ran is the conjunction's last ("no answers beyond the one being derived").

   PROVED: the engine yields exactly the answers of that reference search, for every program
   (C02_refines = Proofs/RefineCut.refines_cut), and - directly on the machine, for all
   programs - the four clauses of the property below. *)
From Suiron Require Import Model.Term Model.Subst Model.Rename Model.Solve Spec.SpecSolve Spec.SpecCut Spec.Refine
  Proofs.SolveDead Proofs.SolveCut Proofs.RefineCut.

Theorem C02_refines : forall kb bf q w fs R nd w1 m F R',
  canswers kb bf fs q w = Ok R ->
  make_base_node kb (GCall q) w = Ok (nd, w1) ->
  ask_all kb bf m F nd w1 = Ok R' -> R' = R.
Proof. exact refines_cut. Qed.

(* the reference: whatever follows a cut, the search of `!` ends with a signal other than Go,
   so no alternative to its left - and no later clause - is tried *)
Theorem C02_reference_cut_signals : forall kb bf f s w k a w' g,
  csolve kb bf (S f) (GBip n_cut None) s w k = Ok (a, w', g) -> g <> Go.
Proof.
  intros kb bf f s w k a w' g H. rewrite csolve_S in H. unfold csolve_body in H.
  change (run_bip bf n_cut None s) with (Ok (mkBipResult (Some s) [] true)) in H. cbn [bind br_sol br_cut br_out] in H.
  destruct (k s (w_print w []) true) as [[[a1 w1] g1]| |]; cbn [bind mark] in H; try discriminate.
  injection H as <- <- <-. apply join0_not_go.
Qed.

(* the reference: leaving a clause body in which a cut ran ends the call (the later clauses,
   `rest`, are not consulted) and the caller sees Go: the cut is local to the call *)
Theorem C02_reference_call_absorbs : forall a w rest, after_body (a, w, Cut 0) rest = Ok (a, w, Go).
Proof. reflexivity. Qed.

(* Every node a cut passes through on its way up - the cut itself, every enclosing
   conjunction / disjunction / not / time node - is committed (no_backtracking set). *)
Theorem C02_cut_commits : forall kb bf fuel nd w nd' r w',
  next kb bf fuel nd w = Ok (nd', r, true, w') -> node_nobt nd' = true.
Proof. exact cut_commits. Qed.

(* A committed node yields nothing beyond the answer being derived when the cut ran: the
   goals to the left of the cut are never re-tried, later alternatives are never tried. *)
Theorem C02_nothing_after_the_cut : forall kb bf fuel nd w nd' r w',
  next kb bf fuel nd w = Ok (nd', r, true, w') ->
  forall m fuel2 w2 rs nd2 w3,
    ask_again kb bf fuel2 m nd' w2 = Ok (rs, nd2, w3) -> Forall (fun x => x = None) rs /\ w3 = w2.
Proof. exact cut_then_nothing_more. Qed.

(* The call that chose the clause: when a cut runs in the clause body, the call returns what
   the body returned (the answer being derived, or failure - no later clause is tried even
   when the goals after the cut failed) and is committed itself. *)
Theorem C02_the_call_is_committed : forall kb bf f t ss c0 idx n w c1 sol w1 nd' r c w',
  next kb bf f c0 w = Ok (c1, sol, true, w1) ->
  next kb bf (S f) (NCall t ss false (Some c0) idx n) w = Ok (nd', r, c, w') ->
  node_nobt nd' = true /\ c = false /\ r = sol.
Proof. exact cut_commits_the_call. Qed.

(* A cut never affects the caller of that call or any sibling: a call reports no cut. *)
Theorem C02_cut_is_local : forall kb bf fuel t ss nobt child idx n w nd' r c w',
  next kb bf fuel (NCall t ss nobt child idx n) w = Ok (nd', r, c, w') -> c = false.
Proof. exact call_absorbs_cut. Qed.

(* non-vacuity: a(1) :- b(0), !, fail.  a(2).  b(0).  |- a($X) has no answer
   (the defect repaired by commit 782f5c0 answered a(2)) *)
Definition C02_demo : bool :=
  let kb := [([97; 47; 49]%N, [mkRule (TComplex [TAtom [97%N]; TInt 1])
                                 (GOp OAnd [GCall (TComplex [TAtom [98%N]; TInt 0]); GBip n_cut None; GBip n_fail None]);
                               mkRule (TComplex [TAtom [97%N]; TInt 2]) GNil]);
             ([98; 47; 49]%N, [mkRule (TComplex [TAtom [98%N]; TInt 0]) GNil])] in
  match make_base_node kb (GCall (TComplex [TAtom [97%N]; TVar 1 [36; 88]%N])) (mkWorld 1 false None []) with
  | Ok (nd, w) => match next kb 30 30 nd w with Ok (nd1, None, false, _) => node_nobt nd1 | _ => false end
  | _ => false
  end.
Example C02_witness : C02_demo = true.
Proof. vm_compute. reflexivity. Qed.

Check C02_cut_commits : forall kb bf fuel nd w nd' r w',
  next kb bf fuel nd w = Ok (nd', r, true, w') -> node_nobt nd' = true.

Print Assumptions C02_refines.
Print Assumptions C02_reference_cut_signals.
Print Assumptions C02_reference_call_absorbs.
Print Assumptions C02_cut_commits.
Print Assumptions C02_nothing_after_the_cut.
Print Assumptions C02_the_call_is_committed.
Print Assumptions C02_cut_is_local.
