(* C03 - not(G) succeeds once, without bindings, iff G has no answer.

   The reference search (Spec/SpecCut.v) asks G for its first answer only; not(G) continues -
   once, with the substitution it was entered with - iff there was none
   (C03_reference_not_cps).  PROVED: the engine yields exactly the answers of that reference
   search for every program (C03_refines = Proofs/RefineCut.refines_cut); and, directly on
   the machine, the behaviour of the not node in terms of the first request to G's node. *)
From Suiron Require Import Model.Term Model.Subst Model.Rename Model.Solve Spec.SpecSolve Spec.SpecCut Spec.Refine
  Proofs.SolveDead Proofs.SolveMisc Proofs.RefineCut.

Theorem C03_refines : forall kb bf q w fs R nd w1 m F R',
  canswers kb bf fs q w = Ok R ->
  make_base_node kb (GCall q) w = Ok (nd, w1) ->
  ask_all kb bf m F nd w1 = Ok R' -> R' = R.
Proof. exact refines_cut. Qed.

(* the reference search of not(G): G is asked with a continuation that halts at the first
   answer; no answer - continue with s itself (no binding of G); an answer - fail *)
Theorem C03_reference_not_cps : forall kb bf f g rest s w k,
  has_cut g = false ->
  csolve kb bf (S f) (GOp ONot (g :: rest)) s w k =
  do x <- csolve kb bf f g s w halt1;
  let '(a, w1, _) := x in
  match a with [] => k s w1 false | _ => Ok ([], w1, Go) end.
Proof. intros kb bf f g rest s w k Hc. rewrite csolve_S. unfold csolve_body. now rewrite Hc. Qed.

(* A fresh not(G) node asks G once.  It answers with exactly the substitution it was created
   with - no binding of G is visible - iff G has no answer, fails otherwise, and is spent:
   by C05 every later request fails (it succeeds at most once). *)
Theorem C03_not_node : forall kb bf f ss h tl ot w nd' r c w',
  next kb bf (S f) (NOp ONot ss false true (Some h) tl ot) w = Ok (nd', r, c, w') ->
  exists h' sol,
    next kb bf f h w = Ok (h', sol, c, w') /\
    r = match sol with Some _ => None | None => Some ss end /\
    dead nd'.
Proof. exact not_node_spec. Qed.

(* The reference: the answers of not(G) under s are [s] when G has no answer, [] otherwise. *)
Theorem C03_reference_not : forall s evs,
  answers_of (not_events s evs) = match answers_of evs with [] => [s] | _ :: _ => [] end.
Proof. exact not_events_answers. Qed.

Definition C03_demo : bool :=
  let e2 := mkRule (TComplex [TAtom [101%N]; TInt 2]) GNil in
  let kb := [([101; 47; 49]%N, [e2])] in
  let X := TVar 1 [36; 88]%N in
  match make_node kb (GOp ONot [GCall (TComplex [TAtom [101%N]; X])]) [None; Some (TInt 3)] (mkWorld 1 false None []),
        make_node kb (GOp ONot [GCall (TComplex [TAtom [101%N]; X])]) [None; None] (mkWorld 1 false None []) with
  | Ok (n1, w1), Ok (n2, w2) =>
      match next kb 20 20 n1 w1, next kb 20 20 n2 w2 with
      | Ok (_, Some [None; Some (TInt 3)], _, _), Ok (_, None, _, _) => true
      | _, _ => false
      end
  | _, _ => false
  end.
Example C03_witness : C03_demo = true.
Proof. vm_compute. reflexivity. Qed.

Check C03_not_node : forall kb bf f ss h tl ot w nd' r c w',
  next kb bf (S f) (NOp ONot ss false true (Some h) tl ot) w = Ok (nd', r, c, w') ->
  exists h' sol,
    next kb bf f h w = Ok (h', sol, c, w') /\
    r = match sol with Some _ => None | None => Some ss end /\
    dead nd'.

Print Assumptions C03_refines.
Print Assumptions C03_reference_not_cps.
Print Assumptions C03_not_node.
Print Assumptions C03_reference_not.
