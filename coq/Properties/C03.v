(* C03 - not(G) succeeds once, without bindings, iff G has no answer.

   PROVED for every goal G, substitution and world: the behaviour of the not node in terms
   of the FIRST request to G's node, and the matching law of the reference search.  That the
   first request to G's node finds an answer exactly when the reference search of G has one
   is part of `refines_reference` (Spec/Refine.v; not yet proved, evaluated by the oracle). *)
From Suiron Require Import Model.Term Model.Subst Model.Rename Model.Solve Spec.SpecSolve Spec.Refine
  Proofs.SolveDead Proofs.SolveMisc.

Definition C03_full : Prop := refines_reference.

(* A fresh not(G) node asks G once.  It answers with exactly the substitution it was created
   with - no binding of G is visible - iff G has no answer, fails otherwise, and is spent:
   by C05 every later request fails (it succeeds at most once). *)
Theorem C03_not_node : forall kb bf f ss h tl ot w nd' r c w',
  next kb bf (S f) (NOp ONot ss false true (Some h) tl ot) w = Ok (nd', r, c, w') ->
  exists h' sol,
    next kb bf f h w = Ok (h', sol, c, w') /\
    r = match sol with Some _ => None | None => Some ss end /\
    dead nd'.
Proof. exact not_node_spec. Qed.

(* The reference: the answers of not(G) under s are [s] when G has no answer, [] otherwise. *)
Theorem C03_reference_not : forall s evs,
  answers_of (not_events s evs) = match answers_of evs with [] => [s] | _ :: _ => [] end.
Proof. exact not_events_answers. Qed.

Definition C03_demo : bool :=
  let e2 := mkRule (TComplex [TAtom [101%N]; TInt 2]) GNil in
  let kb := [([101; 47; 49]%N, [e2])] in
  let X := TVar 1 [36; 88]%N in
  match make_node kb (GOp ONot [GCall (TComplex [TAtom [101%N]; X])]) [None; Some (TInt 3)] (mkWorld 1 false None []),
        make_node kb (GOp ONot [GCall (TComplex [TAtom [101%N]; X])]) [None; None] (mkWorld 1 false None []) with
  | Ok (n1, w1), Ok (n2, w2) =>
      match next kb 20 20 n1 w1, next kb 20 20 n2 w2 with
      | Ok (_, Some [None; Some (TInt 3)], _, _), Ok (_, None, _, _) => true
      | _, _ => false
      end
  | _, _ => false
  end.
Example C03_witness : C03_demo = true.
Proof. vm_compute. reflexivity. Qed.

Check C03_not_node : forall kb bf f ss h tl ot w nd' r c w',
  next kb bf (S f) (NOp ONot ss false true (Some h) tl ot) w = Ok (nd', r, c, w') ->
  exists h' sol,
    next kb bf f h w = Ok (h', sol, c, w') /\
    r = match sol with Some _ => None | None => Some ss end /\
    dead nd'.

Print Assumptions C03_not_node.
Print Assumptions C03_reference_not.
