(* C11 - Answers do not depend on how program variables are named.

   PARTIAL.  The full statement: if every clause of kb' is a clause of kb with its variables
   renamed by a (per clause) injective map of names - different clauses may be mapped onto
   the same names, including the query's - then every history of requests on a query yields
   the same answers in the same order up to the names of unbound variables, and the same
   output.  PROVED: the half of the argument that concerns the program text - every clause
   fetch from kb' returns the renamed fetched clause of kb with THE SAME fresh variable ids
   and the same counter (ids are assigned by first occurrence, which an injective renaming
   preserves), for all knowledge bases, predicates, indices and counters.  From there on the
   engine identifies variables by id (C10: ids of different fetches never clash), names being
   used only by Display; that second half (a lock-step simulation of the whole solver) is not
   yet proved and is decided on every run by solving each generated program as written and
   under four renamings on the implementation and comparing all observations. *)
From Suiron Require Import Model.Term Model.Subst Model.Rename Model.Solve Proofs.RenameNames Proofs.SolveFrame.

(* names erased from a term / an answer *)
Definition no_names (t : term) : term := mapn (fun _ => []) t.
Definition no_names_obs (o : qobs) : qobs :=
  match o with
  | OAns (Some s) => OAns (Some (map (option_map no_names) s))
  | _ => o
  end.

Definition C11_full : Prop :=
  forall kb kb' fuel terms n w os o,
    kb_renamed kb kb' ->
    run_query kb fuel terms (repeat QAsk n) w = Ok (os, o) ->
    exists os', (run_query kb' fuel terms (repeat QAsk n) w = Ok (os', o)) /\
                (map no_names_obs os' = map no_names_obs os).

Theorem C11_partial_clause_fetch : forall kb kb' pred i ctr,
  kb_renamed kb kb' ->
  match get_rule kb pred i ctr, get_rule kb' pred i ctr with
  | Ok (r, c), Ok (r', c') => c = c' /\ rule_renamed r r'
  | Panic, Panic => True
  | OutOfFuel, OutOfFuel => True
  | _, _ => False
  end.
Proof. exact get_rule_renamed. Qed.

(* the same for the building blocks, for any renaming state *)
Theorem C11_partial_rule : forall phi, (forall a b, phi a = phi b -> a = b) -> forall r st,
  rename_rule (mapn_rule phi r) (mapn_st phi st) = rres phi (rename_rule r st).
Proof. exact rename_rule_commutes. Qed.

(* non-vacuity: p($X, $Y) :- q($Y, $X).  with $X, $Y swapped: same ids 8, 9 in the same places *)
Definition C11_demo : bool :=
  let X := [36; 88]%N in let Y := [36; 89]%N in
  let mk a b := mkRule (TComplex [TAtom [112%N]; TVar 0 a; TVar 0 b]) (GCall (TComplex [TAtom [113%N]; TVar 0 b; TVar 0 a])) in
  match get_rule [([112; 47; 50]%N, [mk X Y])] [112; 47; 50]%N 0 7, get_rule [([112; 47; 50]%N, [mk Y X])] [112; 47; 50]%N 0 7 with
  | Ok (mkRule (TComplex [_; TVar 8 _; TVar 9 _]) _, 9%N), Ok (mkRule (TComplex [_; TVar 8 _; TVar 9 _]) _, 9%N) => true
  | _, _ => false
  end.
Example C11_witness : C11_demo = true.
Proof. vm_compute. reflexivity. Qed.

Check C11_partial_clause_fetch : forall kb kb' pred i ctr,
  kb_renamed kb kb' ->
  match get_rule kb pred i ctr, get_rule kb' pred i ctr with
  | Ok (r, c), Ok (r', c') => c = c' /\ rule_renamed r r'
  | Panic, Panic => True
  | OutOfFuel, OutOfFuel => True
  | _, _ => False
  end.

Print Assumptions C11_partial_clause_fetch.
Print Assumptions C11_partial_rule.
