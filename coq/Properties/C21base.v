(* C21 - Loading a file equals parsing its rules one by one.

   Model: Model/Reader.v (src/rule_reader.rs after the five `fix:` commits, `parse_rule` a
   parameter).  Specification: Spec/SpecLoad.v (`render layout texts`, `legal`, `wf_text`,
   `expected`, `cut_equiv`).

   Proved for ALL rule texts and ALL layouts satisfying the decidable side conditions:
     C21_load_spec            reading the rendered file gives exactly the rule texts, each with its
                              pieces trimmed and one space at every line break - never an error,
                              never another list; and that list equals the given texts up to white
                              space after the continuation characters where the lines were broken
     C21_load_never_invents   the form "Ok texts' (equal up to that white space) or an error"
     C21_load_kb              load_kb_from_file = parse_rule + add_rules over those texts, in order
     C21_load_kb_exact        ... = over the ORIGINAL texts, for every parser, when each line break
                              stands in front of a single space of the text
     C21_load_kb_each         ... = over the original texts, if the parser gives the same result for
                              a text and its respaced form (hypothesis on the parser; not proved
                              here: parse_rule is modelled elsewhere; tested by the oracle of gen/C21.py)
     C21_reader_total etc.    no reader function panics on any input; there is no fuel
     C21_separate_rules_partition   for EVERY text, what separate_rules returns is the text cut
                              into consecutive pieces (nothing invented, dropped or reordered)
   `C21_full` (below) is the statement with the real parser; what is missing for it is named there. *)
From Suiron Require Import Model.Reader Spec.SpecLoad Proofs.ReaderProofs.
From Coq Require Import String.
Open Scope N_scope.

Theorem C21_load_spec : forall L texts,
  legal L texts = true -> forallb wf_text texts = true ->
  read_facts_and_rules (render L texts) = Ok (ROk (expected (lay_rules L) texts)) /\
  Forall2 cut_equiv texts (expected (lay_rules L) texts).
Proof. exact load_spec. Qed.

Theorem C21_load_never_invents : forall L texts r,
  legal L texts = true -> forallb wf_text texts = true ->
  read_facts_and_rules (render L texts) = Ok r ->
  match r with
  | ROk texts' => Forall2 cut_equiv texts texts'
  | RErr _ => True
  end.
Proof. exact load_never_invents. Qed.

Theorem C21_load_kb : forall parse_rule L texts kb,
  legal L texts = true -> forallb wf_text texts = true ->
  load_kb_from_file parse_rule kb (render L texts) =
  lk_loop parse_rule (expected (lay_rules L) texts) kb.
Proof. exact load_kb_spec. Qed.

Theorem C21_load_kb_exact : forall parse_rule L texts kb,
  legal L texts = true -> forallb wf_text texts = true ->
  exact_layout (lay_rules L) texts = true ->
  load_kb_from_file parse_rule kb (render L texts) = lk_loop parse_rule texts kb.
Proof. exact load_kb_exact. Qed.

Theorem C21_load_kb_each : forall parse_rule L texts kb,
  legal L texts = true -> forallb wf_text texts = true ->
  Forall2 (fun t t' => parse_rule t = parse_rule t') texts (expected (lay_rules L) texts) ->
  load_kb_from_file parse_rule kb (render L texts) = lk_loop parse_rule texts kb.
Proof. exact load_kb_each. Qed.

(* The full statement: for the model of the real `parse_rule` and layouts whose line breaks
   stand between tokens.  Missing: that model (another sub-task) and its lemma that white
   space between tokens does not change the parsed rule (`token_breaks` would be stated with
   its tokenizer); with them `C21_load_kb_each` gives this at once. *)
Definition C21_full (parse_rule : str -> res (presult rule))
                    (token_breaks : layout -> list str -> Prop) : Prop :=
  forall L texts kb,
    legal L texts = true -> forallb wf_text texts = true -> token_breaks L texts ->
    load_kb_from_file parse_rule kb (render L texts) = lk_loop parse_rule texts kb.

(* ---- totality: every reader function returns (no Panic; the model has no fuel) ---- *)
Theorem C21_reader_total : forall lines, exists r, read_facts_and_rules lines = Ok r.
Proof. exact reader_total. Qed.

Theorem C21_strip_comments_total : forall line rd sd, exists r, strip_comments_at line rd sd = Ok r.
Proof. exact strip_comments_at_total. Qed.

Theorem C21_separate_rules_total : forall text, exists r, separate_rules text = Ok r.
Proof. exact separate_rules_total. Qed.

Theorem C21_check_last_char_total : forall line n, exists r, check_last_char line n = Ok r.
Proof. exact check_last_char_total. Qed.

Theorem C21_unmatched_bracket_total : forall line rd sd, exists r, unmatched_bracket line rd sd = Ok r.
Proof. exact unmatched_bracket_total. Qed.

Theorem C21_trim_error_line_total : forall chrs, exists r, trim_error_line chrs = Ok r.
Proof. exact trim_error_line_total. Qed.

(* for every text at all: the rules returned are consecutive pieces of the text *)
Theorem C21_separate_rules_partition : forall text rules,
  separate_rules text = Ok (ROk rules) ->
  exists rest, all_ws rest = true /\ List.concat rules ++ rest = text.
Proof. exact separate_rules_partition. Qed.

(* ---- the hypotheses are satisfiable by a non-trivial program: a float literal, an infix `=`
   broken after the `=`, a quoted atom with a period and a comment delimiter, comments,
   indentation, a blank line, a line break inside parentheses ---- *)
Definition ex_texts : list str :=
  [s2l "p($X) :- $X = 1.5, q(""a. b # c""), r(1)."; s2l "q(a, [b, c])."].

Definition ex_layout : layout :=
  let d0 := mkDeco [] [] [] [] in
  mkLayout
    [ (mkDeco [mkBlank [] (s2l "# facts and rules"); mkBlank (s2l "  ") []] [] (s2l " ") (s2l "% head"),
       [(8%nat, mkDeco [] (s2l "    ") [] []);
        (5%nat, mkDeco [mkBlank (s2l "    ") (s2l "// a float")] (s2l "       ") [] []);
        (5%nat, mkDeco [] (s2l "    ") [9] (s2l "# the rest"))]);
      (d0, [(4%nat, mkDeco [] (s2l "  ") [] (s2l "// done"))]) ]
    [mkBlank [] (s2l "% end")].

Example C21_example :
  legal ex_layout ex_texts = true /\
  forallb wf_text ex_texts = true /\
  exact_layout (lay_rules ex_layout) ex_texts = true /\
  render ex_layout ex_texts =
    [ s2l "# facts and rules";
      s2l "  ";
      s2l "p($X) :- % head";
      s2l "     $X =";
      s2l "    // a float";
      s2l "        1.5,";
      s2l "     q(""a. b # c""), r(1)." ++ [9] ++ s2l "# the rest";
      s2l "q(a,";
      s2l "   [b, c]).// done";
      s2l "% end" ] /\
  read_facts_and_rules (render ex_layout ex_texts) = Ok (ROk ex_texts).
Proof. vm_compute. repeat split. Qed.

(* the boundary of the domain: a bracket between quotes, an escaped bracket and a period that
   is not a decimal point inside an atom are not rule texts in the sense of wf_text *)
Example C21_outside_domain :
  wf_text (s2l "p(""("").") = false /\ wf_text (s2l "a(\().") = false /\
  wf_text (s2l "v(1) :- $X = e.g, r.") = false /\ wf_text (s2l "p($X) :- $X = 50% , q.") = false.
Proof. vm_compute. repeat split. Qed.

Check C21_load_spec : forall L texts,
  legal L texts = true -> forallb wf_text texts = true ->
  read_facts_and_rules (render L texts) = Ok (ROk (expected (lay_rules L) texts)) /\
  Forall2 cut_equiv texts (expected (lay_rules L) texts).
Check C21_reader_total : forall lines, exists r, read_facts_and_rules lines = Ok r.
Check C21_load_kb_exact : forall parse_rule L texts kb,
  legal L texts = true -> forallb wf_text texts = true ->
  exact_layout (lay_rules L) texts = true ->
  load_kb_from_file parse_rule kb (render L texts) = lk_loop parse_rule texts kb.

Print Assumptions C21_load_spec.
Print Assumptions C21_load_never_invents.
Print Assumptions C21_load_kb.
Print Assumptions C21_load_kb_exact.
Print Assumptions C21_load_kb_each.
Print Assumptions C21_reader_total.
Print Assumptions C21_strip_comments_total.
Print Assumptions C21_separate_rules_total.
Print Assumptions C21_check_last_char_total.
Print Assumptions C21_unmatched_bracket_total.
Print Assumptions C21_trim_error_line_total.
Print Assumptions C21_separate_rules_partition.
