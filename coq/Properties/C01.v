(* C01 - Answers equal depth-first SLD resolution, in order.

   The reference is Spec/SpecSolve.v (`sem`, `query_events`); the full statement is
   `refines_reference` in Spec/Refine.v.  PROVED so far (for all programs and queries):
   the pieces below.  NOT YET PROVED: `refines_reference` itself (the lock-step argument
   between the resumable nodes and the trace semantics); it is evaluated on every generated
   history by the check (extracted specification as oracle against the implementation, plus
   model-vs-implementation correspondence on full substitution sets). *)
From Coq Require Import String.
From Suiron Require Import Model.Term Model.Subst Model.Show Model.Rename Model.Solve Spec.SpecSolve
  Spec.Refine Proofs.SolveDead Proofs.SolveCut Proofs.SolveMisc.

Definition C01_full : Prop := refines_reference.

(* solve_all / solve report each answer as `$Var = value` for the query's variable
   arguments, in argument order, separated by ", ". *)
Theorem C01_partial_answer_format : forall f0 qargs f1 rargs, length qargs = length rargs ->
  format_solution (GCall (TComplex (f0 :: qargs))) (TComplex (f1 :: rargs)) =
  Ok (show_pairs true (var_pairs qargs rargs)).
Proof. exact format_solution_spec. Qed.

(* The answer sequence of a query ends: after the first request without answer nothing more
   comes (multiplicity is not inflated by re-asking). *)
Theorem C01_partial_sequence_ends : forall kb bf fuel nd w nd' c w',
  next kb bf fuel nd w = Ok (nd', None, c, w') ->
  forall m fuel2 w2 rs nd2 w3,
    ask_again kb bf fuel2 m nd' w2 = Ok (rs, nd2, w3) ->
    Forall (fun r => r = None) rs /\ w3 = w2.
Proof. exact exhausted_stays_exhausted. Qed.

(* A call never lets a cut escape: alternatives of the caller are never pruned by a callee. *)
Theorem C01_partial_calls_are_opaque : forall kb bf fuel t ss nobt child idx n w nd' r c w',
  next kb bf fuel (NCall t ss nobt child idx n) w = Ok (nd', r, c, w') -> c = false.
Proof. exact call_absorbs_cut. Qed.

Example C01_witness :
  format_solution (GCall (TComplex [TAtom [112%N]; TVar 1 [36; 65]%N; TInt 3; TVar 2 [36; 66]%N]))
                  (TComplex [TAtom [112%N]; TInt 7; TInt 3; TAtom [98%N]])
  = Ok (s2l "$A = 7, $B = b"%string).
Proof. vm_compute. reflexivity. Qed.

Check C01_partial_answer_format : forall f0 qargs f1 rargs, length qargs = length rargs ->
  format_solution (GCall (TComplex (f0 :: qargs))) (TComplex (f1 :: rargs)) =
  Ok (show_pairs true (var_pairs qargs rargs)).

Print Assumptions C01_partial_answer_format.
Print Assumptions C01_partial_sequence_ends.
Print Assumptions C01_partial_calls_are_opaque.
