(* C01 - Answers equal depth-first SLD resolution, in order.

   The reference is Spec/SpecCut.v: depth-first, left-to-right, clause-order resolution in
   success-continuation style (`canswers`), threading the world - variable-id counter, stop
   flag, output - in search order; cut, not and time as documented.  (Spec/SpecLazy.v is the
   same search for the fragment without cut / not / time, without the signal machinery.)

   PROVED (C01_refines), for EVERY knowledge base, every query, every world and all fuels: if
   the reference search of the query finishes with R (the list of answer substitutions in
   order, and the final world) and asking the query's node again and again until it reports no
   answer finishes with R', then R' = R - the same answers, in the same order and
   multiplicity, SYNTACTICALLY equal substitution sets (a fortiori equal up to renaming of
   unbound variables), the same final variable-id counter and the same output.  The proof is a
   refinement: `cden` (Proofs/RefineCut.v) maps every node state to the rest of the reference
   search it stands for, `cden_fresh` says a new node denotes the reference search of its goal,
   `cden_step` that one machine step either finds no answer - the denotation is empty - or
   finds the next answer and leaves a node denoting the rest.  "Bindings of an abandoned
   alternative never appear later" is part of it: the answers are the reference's, which has
   no shared mutable state at all.  The hypothesis that the reference search finishes is itself a
   theorem whenever the engine finishes (C01_engine_finishes_then_reference_does), except for programs
   with a cut directly inside not(..) / time(..), which the reference refuses (the documentation
   does not cover them).

   C01_refines_cut_free is the earlier theorem against Spec/SpecLazy.v.  The eager trace
   semantics Spec/SpecSolve.v (answers up to renaming; `refines_reference`) remains as a second,
   independently written oracle of the check; no theorem relates it to the other two. *)
From Coq Require Import String.
From Suiron Require Import Model.Term Model.Subst Model.Show Model.Rename Model.Solve Spec.SpecSolve
  Spec.SpecLazy Spec.SpecCut Spec.Refine Proofs.SolveDead Proofs.SolveCut Proofs.SolveMisc Proofs.RefinePlain Proofs.RefineDen Proofs.RefineCut Proofs.SolveTimeout Proofs.SolveQuiet Proofs.NotCutInv Proofs.RefineCutConverse.

Theorem C01_refines : forall kb bf q w fs R nd w1 m F R',
  canswers kb bf fs q w = Ok R ->
  make_base_node kb (GCall q) w = Ok (nd, w1) ->
  ask_all kb bf m F nd w1 = Ok R' -> R' = R.
Proof. exact refines_cut. Qed.

(* THE CONVERSE (Proofs/RefineCutConverse.v): the hypothesis that the reference search finishes is not
   needed - it follows from the engine finishing.  For every knowledge base without a cut directly
   inside not(..)/time(..) (kbokb, decidable; the reference refuses such programs by design and says
   Panic): whenever asking the query's node until it reports no answer finishes with R', the
   reference search finishes, for some fuel, with exactly R'. *)
Theorem C01_engine_finishes_then_reference_does : forall kb bf q w nd w1 m F R',
  kbokb kb = true ->
  make_base_node kb (GCall q) w = Ok (nd, w1) -> ask_all kb bf m F nd w1 = Ok R' ->
  exists fs, canswers kb bf fs q w = Ok R'.
Proof. intros kb bf q w nd w1 m F R' H. apply refines_cut_converse_ok. now apply kbokb_kbok. Qed.

(* for ANY knowledge base: the reference finishes with the same result, or refuses the program *)
Theorem C01_converse_any_program : forall kb bf q w nd w1 m F R',
  make_base_node kb (GCall q) w = Ok (nd, w1) -> ask_all kb bf m F nd w1 = Ok R' ->
  (exists fs, canswers kb bf fs q w = Ok R') \/ (exists fs, canswers kb bf fs q w = Panic).
Proof. exact refines_cut_converse. Qed.

(* solve_all reports the same answers, each formatted (`answer_text`: replace_variables, then
   `$Var = value` for the query's variables in argument order - C01_partial_answer_format),
   when no timeout is pending *)
Theorem C01_solve_all_reports_the_reference_answers : forall kb fuel q w fs R nd w1 nd' l w',
  quiet w ->
  canswers kb fuel fs q w = Ok R ->
  make_base_node kb (GCall q) w = Ok (nd, w1) ->
  solve_all fuel kb nd w1 = Ok (nd', l, w') ->
  Forall2 (fun s txt => exists f, answer_text f q s = Ok txt) (fst R) l /\ w' = snd R.
Proof. exact solve_all_refines. Qed.

(* solve, called n times (also beyond exhaustion), no timeout pending: the first n reference answers,
   formatted, then `No more.` for ever *)
Theorem C01_solve_reports_the_reference_answers : forall kb fuel q w fs R nd w1 n txts nd' w',
  quiet w ->
  canswers kb fuel fs q w = Ok R ->
  make_base_node kb (GCall q) w = Ok (nd, w1) ->
  solve_times n fuel kb nd w1 = Ok (txts, nd', w') ->
  Forall2 (solve_text fuel q) (map Some (firstn n (fst R)) ++ repeat None (n - length (fst R))) txts.
Proof. exact solve_refines. Qed.

(* next_solution, called n times (also beyond exhaustion): the first n reference answers, then None for
   ever; from exhaustion on the world is the reference's final world *)
Theorem C01_requests_are_the_reference_answers : forall kb bf nd w rs nd' w',
  Asks kb bf nd w rs nd' w' ->
  forall fs a wE g, ncutb nd = true -> (1 <= fs)%nat -> cden kb bf fs nd w collect = Ok (a, wE, g) ->
    rs = map Some (firstn (length rs) a) ++ repeat None (length rs - length a) /\
    (length a < length rs -> w' = wE)%nat.
Proof. exact asks_are_reference_answers. Qed.

(* the refinement mapping, for every node and every continuation *)
Theorem C01_step_all : forall kb bf F nd w nd' r c w1 fs k R,
  (1 <= fs)%nat -> next kb bf F nd w = Ok (nd', r, c, w1) -> cden kb bf fs nd w k = Ok R ->
  cstepres kb bf fs k R nd' r c w1.
Proof. exact cden_step. Qed.

Theorem C01_fresh_node_all : forall kb bf g f fs ss w nd w' k1 k2 R,
  make_node kb g ss w = Ok (nd, w') -> (f <= fs)%nat -> ckle k1 k2 ->
  csolve kb bf f g ss w k1 = Ok R -> cden kb bf fs nd w' k2 = Ok R.
Proof. exact cden_fresh. Qed.

Theorem C01_refines_cut_free : forall kb bf, plain_kb kb ->
  forall q w fs R nd w1 m F R',
    answers kb bf fs q w = Ok R ->
    make_base_node kb (GCall q) w = Ok (nd, w1) ->
    drainK kb bf m F nd w1 (fun s w' => Ok ([s], w')) = Ok R' -> R' = R.
Proof. exact refines_lazy. Qed.

(* the refinement mapping, for every node of a cut-free search and every continuation *)
Theorem C01_step : forall kb bf, plain_kb kb -> forall F nd w nd' r c w1 fs k R,
  pnode nd -> (1 <= fs)%nat -> next kb bf F nd w = Ok (nd', r, c, w1) -> den kb bf fs nd w k = Ok R ->
  stepres kb bf fs k R nd' r w1.
Proof. exact den_step. Qed.

Theorem C01_fresh_node : forall kb bf g f fs ss w nd w' k1 k2 R,
  plain g = true -> make_node kb g ss w = Ok (nd, w') -> (f <= fs)%nat -> RefineDen.kle k1 k2 ->
  lsolve kb bf f g ss w k1 = Ok R -> den kb bf fs nd w' k2 = Ok R.
Proof. exact den_fresh. Qed.



(* solve_all / solve report each answer as `$Var = value` for the query's variable
   arguments, in argument order, separated by ", ". *)
Theorem C01_partial_answer_format : forall f0 qargs f1 rargs, length qargs = length rargs ->
  format_solution (GCall (TComplex (f0 :: qargs))) (TComplex (f1 :: rargs)) =
  Ok (show_pairs true (var_pairs qargs rargs)).
Proof. exact format_solution_spec. Qed.

(* The answer sequence of a query ends: after the first request without answer nothing more
   comes (multiplicity is not inflated by re-asking). *)
Theorem C01_partial_sequence_ends : forall kb bf fuel nd w nd' c w',
  next kb bf fuel nd w = Ok (nd', None, c, w') ->
  forall m fuel2 w2 rs nd2 w3,
    ask_again kb bf fuel2 m nd' w2 = Ok (rs, nd2, w3) ->
    Forall (fun r => r = None) rs /\ w3 = w2.
Proof. exact exhausted_stays_exhausted. Qed.

(* A call never lets a cut escape: alternatives of the caller are never pruned by a callee. *)
Theorem C01_partial_calls_are_opaque : forall kb bf fuel t ss nobt child idx n w nd' r c w',
  next kb bf fuel (NCall t ss nobt child idx n) w = Ok (nd', r, c, w') -> c = false.
Proof. exact call_absorbs_cut. Qed.

(* non-vacuity of C01_refines: p($X) :- n($X), ($X = 2 ; $X = 3).  n(1). n(2). n(3).  |- p($A):
   the reference search and the drained node both finish, with the two answers *)
Definition C01_demo : bool :=
  let X := TVar 0 [36; 88]%N in
  let n i := mkRule (TComplex [TAtom [110%N]; TInt i]) GNil in
  let p := mkRule (TComplex [TAtom [112%N]; X])
                  (GOp OAnd [GCall (TComplex [TAtom [110%N]; X]);
                             GOp OOr [GBip n_unify (Some [X; TInt 2]); GBip n_unify (Some [X; TInt 3])]]) in
  let kb := [([112; 47; 49]%N, [p]); ([110; 47; 49]%N, [n 1%Z; n 2%Z; n 3%Z])] in
  let q := TComplex [TAtom [112%N]; TVar 1 [36; 65]%N] in
  let w := mkWorld 1 false None [] in
  match answers kb 50 50 q w, make_base_node kb (GCall q) w with
  | Ok ([a; b], w2), Ok (nd, w1) =>
      match drainK kb 50 9 60 nd w1 (fun s w' => Ok ([s], w')) with
      | Ok ([a'; b'], w2') => N.eqb (next_id w2) (next_id w2')
      | _ => false
      end
  | _, _ => false
  end.
Example C01_refines_witness : C01_demo = true.
Proof. vm_compute. reflexivity. Qed.

(* non-vacuity of C01_refines with cut and not:
   p($X) :- n($X), not(e($X)).   p($X) :- n($X), $X = 2, !.   p(7).   n(1). n(2). n(3).  e(3).  |- p($A)
   gives 1, 2 (first clause), then 2 (second clause, cut: no p(7)) - in the reference and on the machine *)
Definition C01_demo_cut : bool :=
  let X := TVar 0 [36; 88]%N in
  let at1 c := TAtom [c] in
  let n i := mkRule (TComplex [at1 110%N; TInt i]) GNil in
  let p1 := mkRule (TComplex [at1 112%N; X])
              (GOp OAnd [GCall (TComplex [at1 110%N; X]); GOp ONot [GCall (TComplex [at1 101%N; X])]]) in
  let p2 := mkRule (TComplex [at1 112%N; X])
              (GOp OAnd [GCall (TComplex [at1 110%N; X]); GBip n_unify (Some [X; TInt 2]); GBip n_cut None]) in
  let p3 := mkRule (TComplex [at1 112%N; TInt 7]) GNil in
  let kb := [([112; 47; 49]%N, [p1; p2; p3]); ([110; 47; 49]%N, [n 1%Z; n 2%Z; n 3%Z]);
             ([101; 47; 49]%N, [mkRule (TComplex [at1 101%N; TInt 3]) GNil])] in
  let q := TComplex [at1 112%N; TVar 1 [36; 65]%N] in
  let w := mkWorld 1 false None [] in
  match canswers kb 50 50 q w, make_base_node kb (GCall q) w with
  | Ok ([a; b; c], w2), Ok (nd, w1) =>
      match ask_all kb 50 9 60 nd w1 with
      | Ok ([a'; b'; c'], w2') => N.eqb (next_id w2) (next_id w2')
      | _ => false
      end
  | _, _ => false
  end.
Example C01_refines_cut_witness : C01_demo_cut = true.
Proof. vm_compute. reflexivity. Qed.

Example C01_witness :
  format_solution (GCall (TComplex [TAtom [112%N]; TVar 1 [36; 65]%N; TInt 3; TVar 2 [36; 66]%N]))
                  (TComplex [TAtom [112%N]; TInt 7; TInt 3; TAtom [98%N]])
  = Ok (s2l "$A = 7, $B = b"%string).
Proof. vm_compute. reflexivity. Qed.

Check C01_partial_answer_format : forall f0 qargs f1 rargs, length qargs = length rargs ->
  format_solution (GCall (TComplex (f0 :: qargs))) (TComplex (f1 :: rargs)) =
  Ok (show_pairs true (var_pairs qargs rargs)).

Print Assumptions C01_refines.
Print Assumptions C01_solve_all_reports_the_reference_answers.
Print Assumptions C01_solve_reports_the_reference_answers.
Print Assumptions C01_requests_are_the_reference_answers.
Print Assumptions C01_engine_finishes_then_reference_does.
Print Assumptions C01_converse_any_program.
Print Assumptions C01_step_all.
Print Assumptions C01_fresh_node_all.
Print Assumptions C01_refines_cut_free.
Print Assumptions C01_step.
Print Assumptions C01_fresh_node.
Print Assumptions C01_partial_answer_format.
Print Assumptions C01_partial_sequence_ends.
Print Assumptions C01_partial_calls_are_opaque.
