(* C08, total correctness: "following bindings from any variable ends ...; resolving or printing
   answers always terminates" - and unification itself terminates on unifiable input.

   Setting (Spec/SpecUnifySem.v): terms denote finite trees under a valuation sigma; sigma solves a
   substitution set when every bound variable has the value of its binding.  `ev P` = "P holds for
   every fuel from some fuel on": the model's fuel is only a device.

   PROVED (Proofs/UnifyTerminates.v)
     (T1) chains_end ss (no cycle of variables - kept by every unification, C08) is exactly what
          makes get_ground_term / get_constant / get_list / get_complex and the alias test
          terminate, from ANY term, with the answer the `chain` relation gives.
     (T2) resolving: plain + parser-shaped (tok) term and set, chains_end, a solution sigma =>
          replace_variables terminates with a term of the same value under sigma.
          tok is kept by unification (unify_keeps_tok, an instance of a general closure lemma:
          every binding unify makes is a part of an operand), so this applies to every answer
          whose substitution set has a solution (C08_answer_resolves).
     (T3) unification: plain, well-formed operands and set, chains_end, and a sigma that solves
          the set AND gives both operands the same value => unify terminates, with success and a
          set of the same kind (solved by the same sigma) - or with the Panic for a variable id 0.
          Together with C06 (whenever unify returns: most general, complete, sound): on unifiable
          input unify is a total, correct decision.
   FALSE (compiled witnesses in Proofs/UnifyTerminates.v, restated below)
     - solvable does not imply chains_end: $X -> $Y -> $X is solved by every constant valuation;
     - `plain` alone is not enough for (T2): the `next` of a tail node is never looked at by
       unification or by `den`, a hand-built one can close a cycle;
     - unification does NOT terminate on every solvable input, and does not decide
       NON-unifiability: f($X, $Y, $X) = f(g($X), g($Y), $Y) from the empty set binds
       $X -> g($X), $Y -> g($Y) (no occurs check) and then loops on $X = $Y. *)
From Coq Require Import String Lia.
From Suiron Require Import Model.Term Model.Subst Model.Unify Model.Builtins
  Spec.SpecCompare Spec.SpecUnify Spec.SpecUnifySem
  Proofs.SubstLemmas Proofs.UnifyInv Proofs.UnifyProps Proofs.UnifySemSound Proofs.UnifyTerminates.
Open Scope N_scope.

(* (T1) *)
Theorem C08_follow_terminates : forall ss, chains_end ss ->
  forall t, exists r, chain ss t r /\ ev (fun f => get_ground_term f t ss = Ok r).
Proof. exact get_ground_term_terminates. Qed.

Theorem C08_follow_bound : forall ss t k, crank ss t k ->
  exists r, chain ss t r /\ forall f, (k <= f)%nat -> get_ground_term f t ss = Ok r.
Proof. exact get_ground_term_ev. Qed.

Theorem C08_constant_list_complex_terminate : forall ss, chains_end ss -> forall t,
  (exists r, ev (fun f => get_constant f t ss = Ok r)) /\
  (exists r, ev (fun f => get_list f t ss = Ok r)) /\
  (exists r, ev (fun f => get_complex f t ss = Ok r)).
Proof.
  intros ss H t. split; [apply get_constant_terminates, H|]. split; [apply get_list_terminates, H|].
  apply get_complex_terminates, H.
Qed.

Theorem C08_is_ground_variable_terminates : forall ss, chains_end ss -> forall id n,
  exists r, chain ss (TVar id n) r /\
    ev (fun f => is_ground_variable f (TVar id n) ss = Ok (match r with Some _ => true | None => false end)).
Proof. exact is_ground_variable_terminates. Qed.

(* (T2) *)
Theorem C08_resolve_terminates : forall sigma ss t,
  plain_ss ss -> tok_ss ss -> solves sigma ss -> chains_end ss ->
  plain t = true -> tok t = true ->
  exists t', ev (fun f => replace_variables f t ss = Ok t') /\ den sigma t' = den sigma t.
Proof.
  intros sigma ss t P T S C Pt Tt.
  destruct (replace_variables_terminates sigma ss P T S C t (or_introl Pt) Tt) as (t' & E & D & _). eauto.
Qed.

(* ... for the substitution set of an answer: whatever unification returned, if it has a solution *)
Theorem C08_answer_resolves : forall sigma fuel a b ss ss' q,
  plain a = true -> wf_term a = true -> tok a = true ->
  plain b = true -> wf_term b = true -> tok b = true ->
  plain_ss ss -> wf_ss ss -> tok_ss ss -> chains_end ss ->
  unify fuel a b ss = Ok (Some ss') -> solves sigma ss' ->
  plain q = true -> tok q = true ->
  exists q', ev (fun f => replace_variables f q ss' = Ok q') /\ den sigma q' = den sigma q.
Proof.
  intros sigma fuel a b ss ss' q Pa Wa Ta Pb Wb Tb P W T C H S Pq Tq.
  destruct (unify_ssound fuel a b ss ss' Pa Pb P H) as (P' & _ & _).
  apply C08_resolve_terminates; try assumption.
  - exact (unify_keeps_tok fuel a b ss ss' Ta Tb T H).
  - exact (unify_chains_end fuel a b ss ss' Wa Wb W H C).
Qed.

(* (T3) *)
Theorem C08_unify_terminates : forall sigma a b ss,
  plain a = true -> wf_term a = true -> plain b = true -> wf_term b = true ->
  plain_ss ss -> wf_ss ss -> chains_end ss -> solves sigma ss ->
  den sigma a = den sigma b ->
  exists f0 r, (forall f, (f0 <= f)%nat -> unify f a b ss = r) /\
    (r = Panic \/
     exists ss', r = Ok (Some ss') /\ plain_ss ss' /\ wf_ss ss' /\ chains_end ss' /\ solves sigma ss').
Proof.
  intros sigma a b ss Pa Wa Pb Wb P W C S D.
  destruct (unify_total sigma a b ss (conj Pa Wa) (conj Pb Wb) (conj P (conj W (conj C S))) D)
    as (f0 & r & Hf & Hr).
  exists f0, r. split; [exact Hf|]. destruct Hr as [->|(ss' & -> & P' & W' & C' & S')]; [now left|right; eauto 8].
Qed.

(* ---- the witnesses ---- *)
Example C08_variable_cycle_is_solvable :
  let ss := [None; Some wY; Some wX] in
  solves (fun _ => TrNil) ss /\ plain_ss ss /\ forall f, get_ground_term f wX ss = OutOfFuel.
Proof. exact variable_cycle. Qed.

Example C08_junk_next_of_tail_node :
  let ss := [None; Some wjunk; None] in
  plain wjunk = true /\ tok wjunk = false /\
  solves (fun id => if id =? 1 then TrCons (TrAtom [97]%N) TrNil else TrNil) ss /\
  forall f, replace_variables f wX ss = OutOfFuel.
Proof. exact junk_next. Qed.

Example C08_unify_can_diverge :
  plain (wf3 wX wY wX) = true /\ plain (wf3 (wg wX) (wg wY) wY) = true /\
  forall f, unify f (wf3 wX wY wX) (wf3 (wg wX) (wg wY) wY) [] = OutOfFuel.
Proof. exact occurs_check_diverges. Qed.

(* ---- non-vacuity: f($X, $Y) = f(g($Y), a) from the empty set; sigma: $Y = a, $X = g(a) ---- *)
Definition dY := TVar 2 [36; 89]%N.
Definition da := TAtom [97]%N.
Definition dleft := TComplex [TAtom [102]%N; wX; dY].
Definition dright := TComplex [TAtom [102]%N; wg dY; da].
Definition dsig : valuation := fun id => if id =? 1 then TrNode [TrAtom [103]%N; TrAtom [97]%N] else TrAtom [97]%N.

Example C08_demo :
  den dsig dleft = den dsig dright /\
  (exists f0 ss', forall f, (f0 <= f)%nat -> unify f dleft dright [] = Ok (Some ss')) /\
  unify 5 dleft dright [] = Ok (Some [None; Some (wg dY); Some da]) /\
  replace_variables 6 dleft [None; Some (wg dY); Some da] = Ok (TComplex [TAtom [102]%N; wg da; da]).
Proof.
  split; [reflexivity|]. split; [|split; vm_compute; reflexivity].
  destruct (C08_unify_terminates dsig dleft dright [] eq_refl eq_refl eq_refl eq_refl) as (f0 & r & Hf & Hr).
  - intros id t H. now rewrite ss_get_nil in H.
  - apply wf_ss_nil.
  - apply chains_end_nil.
  - intros id t H. now rewrite ss_get_nil in H.
  - reflexivity.
  - exists (Nat.max f0 5), [None; Some (wg dY); Some da]. intros f L.
    rewrite (Hf f ltac:(lia)). rewrite <- (Hf (Nat.max f0 5) ltac:(lia)).
    assert (forall k, unify (5 + k) dleft dright [] = Ok (Some [None; Some (wg dY); Some da])) as Hk.
    { intro k. cbn. reflexivity. }
    replace (Nat.max f0 5) with (5 + (Nat.max f0 5 - 5))%nat by lia. apply Hk.
Qed.

Print Assumptions C08_follow_terminates.
Print Assumptions C08_resolve_terminates.
Print Assumptions C08_answer_resolves.
Print Assumptions C08_unify_terminates.
Print Assumptions C08_unify_can_diverge.
Print Assumptions C08_follow_bound.
Print Assumptions C08_constant_list_complex_terminate.
Print Assumptions C08_is_ground_variable_terminates.
