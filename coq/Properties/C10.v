(* C10 - Renaming apart, DURING A SEARCH: every clause fetched while a query is being solved is
   renamed to variable ids above every id in use.

   `below n t` / `below_goal n g`: every variable id occurring in the term / goal is <= n.
   `below_ss n ss`: every term bound in the substitution set is `below n`, and the set has at most
   n + 1 slots (every slot index is <= n).  `below_args` is `below` for the argument list of a
   built-in predicate.  (Definitions in Proofs/FreshSearch.v; `rvars`, `tvars` in
   Proofs/RenameProofs.v.)  The invariant of a search is: goal and substitution set are below the
   variable-id counter of the world (`next_id w`). *)
From Suiron Require Import Model.Term Model.Subst Model.Unify Model.Builtins Model.Rename Model.Solve
  Spec.SpecCut Proofs.RenameProofs Proofs.RefineCut Proofs.SolveQuiet Proofs.FreshSearch.
Open Scope N_scope.

(* THE PROPERTY, locally: the clause that the search fetches at counter `next_id w` has all its
   variable ids strictly above the counter and at most the new counter; so, the goal term t and the
   substitution set s being below the counter, no id of the clause occurs in t, is a slot of s, is
   bound in s, or occurs in a term bound in s.  The clause itself is below the new counter. *)
Theorem C10_clause_fetched_is_apart : forall kb key idx w r ctr t s,
  get_rule kb key idx (next_id w) = Ok (r, ctr) ->
  below (next_id w) t -> below_ss (next_id w) s ->
  next_id w <= ctr /\
  (forall id name, In (id, name) (rvars r) ->
     next_id w < id <= ctr /\
     ~ In id (map fst (tvars t)) /\
     N.of_nat (length s) <= id /\ ss_get s id = None /\
     (forall i u, ss_get s i = Some u -> ~ In id (map fst (tvars u)))) /\
  below ctr (r_head r) /\ below_goal ctr (r_body r).
Proof. exact clause_fetched_is_apart. Qed.

(* unification keeps the invariant: it binds only variables that occur in its operands or in the
   set, to terms that occur there (or to the constant value of a built-in function) *)
Theorem C10_unify_below : forall n fuel a b ss ss',
  below n a -> below n b -> below_ss n ss -> unify fuel a b ss = Ok (Some ss') -> below_ss n ss'.
Proof. exact unify_below. Qed.

(* so does every built-in predicate (all sixteen of `run_bip`) *)
Theorem C10_run_bip_below : forall n fuel fn ts s r s',
  below_args n ts -> below_ss n s -> run_bip fuel fn ts s = Ok r -> br_sol r = Some s' -> below_ss n s'.
Proof. exact run_bip_below. Qed.

(* the reference search (Spec/SpecCut.v), any goal, any knowledge base, any continuation that keeps
   the invariant: the counter never goes below its initial value (a head that does not unify restores
   it to the value before the fetch, as the engine does) and every answer is below the final counter *)
Theorem C10_csolve_fresh : forall kb bf fuel g s w k answers w' sg,
  below_goal (next_id w) g -> below_ss (next_id w) s ->
  (forall s1 w1 c a wE sg1, below_ss (next_id w1) s1 -> next_id w <= next_id w1 ->
     k s1 w1 c = Ok (a, wE, sg1) -> next_id w1 <= next_id wE /\ Forall (below_ss (next_id wE)) a) ->
  csolve kb bf fuel g s w k = Ok (answers, w', sg) ->
  next_id w <= next_id w' /\ Forall (below_ss (next_id w')) answers.
Proof. exact csolve_fresh. Qed.

Theorem C10_canswers_fresh : forall kb bf fuel q w answers w',
  below (next_id w) q -> canswers kb bf fuel q w = Ok (answers, w') ->
  Forall (below_ss (next_id w')) answers /\ next_id w <= next_id w'.
Proof. exact canswers_fresh. Qed.

(* a query built by the API satisfies the hypothesis *)
Theorem C10_api_query_below : forall ts w g w',
  api_make_query ts w = Ok (g, w') -> exists q, g = GCall q /\ below (next_id w') q.
Proof. exact api_make_query_below. Qed.

(* THE ENGINE MODEL, through the refinement theorem C01_refines (refines_cut): whenever the reference
   search and the engine's request loop (asking the query's node until it reports no answer) both
   finish, every substitution set the engine returns is below the engine's final counter *)
Theorem C10_engine_answers_fresh : forall kb bf q w fs R nd w1 m F answers wE,
  below (next_id w) q ->
  canswers kb bf fs q w = Ok R ->
  make_base_node kb (GCall q) w = Ok (nd, w1) ->
  ask_all kb bf m F nd w1 = Ok (answers, wE) ->
  Forall (below_ss (next_id wE)) answers /\ next_id w <= next_id wE.
Proof. exact engine_answers_fresh. Qed.

(* the same for requests made one after the other with whatever fuel, also beyond exhaustion
   (C01_requests_are_the_reference_answers): every answer returned is a reference answer, below the
   reference's final counter, which is the engine's from exhaustion on *)
Theorem C10_engine_requests_fresh : forall kb bf q w fs a wR nd w1 rs nd' w',
  below (next_id w) q ->
  canswers kb bf fs q w = Ok (a, wR) ->
  make_base_node kb (GCall q) w = Ok (nd, w1) ->
  Asks kb bf nd w1 rs nd' w' ->
  (forall s, In (Some s) rs -> In s a /\ below_ss (next_id wR) s) /\
  next_id w <= next_id wR /\
  ((length a < length rs)%nat -> w' = wR).
Proof. exact engine_requests_fresh. Qed.

(* non-vacuity.   p(a).  p($X) :- q($X).  q([$X]).  q(c).   ?- p($Y).   with $Y = $_1, counter 1.
   Three answers; the second binds $_1 to [$_3], $_3 being the variable of the clause q([$X])
   fetched at counter 2; the final counter is 3.  The engine's request loop returns the same. *)
Example C10_fresh_witness :
  let X := TVar 0 [36; 88] in
  let kb : kbase :=
    [([112; 47; 49], [mkRule (TComplex [TAtom [112]; TAtom [97]]) GNil;
                      mkRule (TComplex [TAtom [112]; X]) (GCall (TComplex [TAtom [113]; X]))]);
     ([113; 47; 49], [mkRule (TComplex [TAtom [113]; TList X empty_list 1 false]) GNil;
                      mkRule (TComplex [TAtom [113]; TAtom [99]]) GNil])] in
  let q := TComplex [TAtom [112]; TVar 1 [36; 89]] in
  let w := mkWorld 1 false None [] in
  below (next_id w) q /\
  exists a1 a2 a3 w' nd w1,
    canswers kb 20 20 q w = Ok ([a1; a2; a3], w') /\ next_id w' = 3 /\
    ss_get a2 1 = Some (TList (TVar 3 [36; 88]) empty_list 1 false) /\
    make_base_node kb (GCall q) w = Ok (nd, w1) /\
    ask_all kb 20 10 20 nd w1 = Ok ([a1; a2; a3], w').
Proof.
  cbn zeta. split.
  - intros id name [E|[]]. inversion E; subst. cbn. discriminate.
  - do 6 eexists. refine (conj _ (conj _ (conj _ (conj _ _)))).
    + vm_compute. reflexivity.
    + reflexivity.
    + reflexivity.
    + vm_compute. reflexivity.
    + vm_compute. reflexivity.
Qed.

Print Assumptions C10_clause_fetched_is_apart.
Print Assumptions C10_unify_below.
Print Assumptions C10_run_bip_below.
Print Assumptions C10_csolve_fresh.
Print Assumptions C10_canswers_fresh.
Print Assumptions C10_api_query_below.
Print Assumptions C10_engine_answers_fresh.
Print Assumptions C10_engine_requests_fresh.
