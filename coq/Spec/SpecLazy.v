(* The reference search for cut-free programs (C01, C04): depth-first, left-to-right,
   clause-order resolution written in success-continuation style.  `lsolve g s w k` runs goal g
   under substitution s in world w and hands every answer, in order, to the continuation k
   together with the world reached at that moment; what the continuations return (lists of
   answers) is concatenated, the world is threaded through in search order - so the variable
   ids a clause receives and the text printed are those of the depth-first search.  There are
   no nodes, flags, indices or resumption here.

     built-in          run it; on success continue with its substitution
     g1, g2, ..        lsolve g1, continuing each of its answers with (g2, ..)
     g1; g2; ..        lsolve g1, then (g2; ..), from the same substitution
     call              for each clause in order: fetch it renamed apart, unify its head with the
                       goal, on success lsolve its body (a fact continues directly); a clause
                       whose head does not unify gives its variable ids back

   Goals outside the fragment (cut, not, time, empty conjunctions) are `Panic` here: they are
   the business of Spec/SpecSolve.v. *)
From Suiron Require Import Model.Term Model.Subst Model.Show Model.Lists Model.Arith Model.Unify
  Model.Compare Model.Builtins Model.Rename Model.Solve.
Open Scope N_scope.

Definition kont := subst -> world -> res (list subst * world).

Section Lazy.
  Variable kb : kbase.
  Variable bf : nat.

  (* one level of the two mutually recursive functions, the recursive calls being parameters *)
  Section Bodies.
    Variable lsolve : goal -> subst -> world -> kont -> res (list subst * world).
    Variable lclauses : term -> subst -> str -> N -> N -> world -> kont -> res (list subst * world).

    Definition solve_body (g : goal) (s : subst) (w : world) (k : kont) : res (list subst * world) :=
      match g with
      | GBip fn ts =>
          do r <- run_bip bf fn ts s;
          if br_cut r then Panic
          else match br_sol r with
               | Some s' => k s' (w_print w (br_out r))
               | None => Ok ([], w_print w (br_out r))
               end
      | GOp OAnd [] => Panic
      | GOp OAnd [g1] => lsolve g1 s w k
      | GOp OAnd (g1 :: rest) => lsolve g1 s w (fun s1 w1 => lsolve (GOp OAnd rest) s1 w1 k)
      | GOp OOr [] => Panic
      | GOp OOr [g1] => lsolve g1 s w k
      | GOp OOr (g1 :: rest) =>
          do x <- lsolve g1 s w k;
          let '(a1, w1) := x in
          do y <- lsolve (GOp OOr rest) s w1 k;
          let '(a2, w2) := y in Ok (a1 ++ a2, w2)
      | GCall t =>
          do key <- term_key t;
          let '(n, w0) := count_rules kb key w in
          lclauses t s key 0 n w0 k
      | _ => Panic
      end.

    Definition clauses_body (t : term) (s : subst) (key : str) (idx n : N) (w : world) (k : kont)
      : res (list subst * world) :=
      if n <=? idx then Ok ([], w)
      else
        do gr <- get_rule kb key idx (next_id w);
        let '(r, ctr) := gr in
        let w1 := w_set_id w ctr in
        do u <- unify bf (r_head r) t s;
        match u with
        | None => lclauses t s key (idx + 1) n (w_set_id w1 (next_id w)) k
        | Some s' =>
            do x <- (if is_gnil (r_body r) then k s' w1 else lsolve (r_body r) s' w1 k);
            let '(a1, w2) := x in
            do y <- lclauses t s key (idx + 1) n w2 k;
            let '(a2, w3) := y in Ok (a1 ++ a2, w3)
        end.
  End Bodies.

  Fixpoint lsolve (fuel : nat) (g : goal) (s : subst) (w : world) (k : kont) {struct fuel}
    : res (list subst * world) :=
    match fuel with
    | O => OutOfFuel
    | S f => solve_body (lsolve f) (lclauses f) g s w k
    end
  with lclauses (fuel : nat) (t : term) (s : subst) (key : str) (idx n : N) (w : world) (k : kont)
    {struct fuel} : res (list subst * world) :=
    match fuel with
    | O => OutOfFuel
    | S f => clauses_body (lsolve f) (lclauses f) t s key idx n w k
    end.

  Lemma solve_S f g s w k : lsolve (S f) g s w k = solve_body (lsolve f) (lclauses f) g s w k.
  Proof. reflexivity. Qed.
  Lemma clauses_S f t s key idx n w k :
    lclauses (S f) t s key idx n w k = clauses_body (lsolve f) (lclauses f) t s key idx n w k.
  Proof. reflexivity. Qed.

  (* the answers of a query: every answer is reported as it is *)
  Definition answers (fuel : nat) (q : term) (w : world) : res (list subst * world) :=
    lsolve fuel (GCall q) [] w (fun s w' => Ok ([s], w')).
End Lazy.
