(* C06/C07, semantically: what a term MEANS under a valuation of the variables, and what it means
   for a valuation to solve a substitution set.

   Values are finite trees.  A valuation `sigma` maps a variable id to a tree (names play no role).
     atom, integer          themselves
     float                  its IEEE value: +0 and -0 are one value (unify compares floats with ==)
     f(t1, .., tn)          the node with children f, t1, .., tn
     []                     nil            (the list node whose head is the Nil marker)
     node(h, next, _, false)  cons(h, next)  (counts are ignored)
     node(v, _, _, true)    the value of v: a tail variable stands for the rest of the list
   `den sigma t` is this value as a function.  It is meaningful on PLAIN terms; outside them the
   relation `dens sigma t tree` ("t can denote tree") says what the engine does:
     `$_`                   can denote every tree, independently at each occurrence
     NaN                    denotes nothing (NaN == NaN is false)
     function terms, a bare Nil marker, a tail node outside a list: denote nothing.
   `solves sigma ss`: sigma gives every bound variable the value of the term it is bound to.  Such a
   sigma (into FINITE trees) exists only if ss has no cycle through a compound term - the case in
   which the missing occurs check does not matter. *)
From Coq Require Import ZArith List.
From Flocq Require Import IEEE754.Binary IEEE754.Bits.
From Suiron Require Import Model.Term Model.Subst.
Import ListNotations.
Open Scope N_scope.

(* the value of a float: what IEEE == compares (sign of zero dropped, NaN apart) *)
Inductive fval := FZero | FInf (s : bool) | FNaN | FFin (s : bool) (m : positive) (e : Z).

Definition fkey (f : f64) : fval :=
  match f with
  | B754_zero _ _ _ => FZero
  | B754_infinity _ _ s => FInf s
  | B754_nan _ _ _ _ _ => FNaN
  | B754_finite _ _ s m e _ => FFin s m e
  end.

Inductive tree :=
| TrAtom (s : str)
| TrInt (z : Z)
| TrFloat (v : fval)
| TrNode (ts : list tree)
| TrNil
| TrCons (h t : tree)
| TrJunk.                     (* the value `den` gives to what has no value *)

Definition valuation := N -> tree.

Fixpoint den (sigma : valuation) (t : term) : tree :=
  match t with
  | TAtom s => TrAtom s
  | TInt z => TrInt z
  | TFloat f => TrFloat (fkey f)
  | TVar id _ => sigma id
  | TComplex ts => TrNode (map (den sigma) ts)
  | TList h nx _ tv =>
      if tv then den sigma h
      else if is_nil h then TrNil
      else TrCons (den sigma h) (den sigma nx)
  | TNil | TAnon | TFun _ _ => TrJunk
  end.

Definition solves (sigma : valuation) (ss : subst) : Prop :=
  forall id t, ss_get ss id = Some t -> sigma id = den sigma t.

(* ---- plain terms: no `$_`, no NaN, no function term, complex terms with an atom as functor,
   lists as the parser and make_linked_list build them (`chain` = "we are at the `next` of a
   list node": only there may a tail node stand) ---- *)
Fixpoint pl (chain : bool) (t : term) {struct t} : bool :=
  match t with
  | TAtom _ | TInt _ | TVar _ _ => negb chain
  | TFloat f => negb chain && negb (f64_is_nan f)
  | TComplex (TAtom _ :: rest) => negb chain && forallb (pl false) rest
  | TList h nx _ tv =>
      if tv then chain && is_var h
      else if is_nil h then is_nil nx
      else pl false h && pl true nx
  | _ => false
  end.

Definition plain (t : term) : bool := pl false t.
Definition plain_ss (ss : subst) : Prop := forall id t, ss_get ss id = Some t -> plain t = true.

(* ---- the relation, for all terms ---- *)
Inductive dens (sigma : valuation) : term -> tree -> Prop :=
| dn_anon tr : dens sigma TAnon tr
| dn_atom s : dens sigma (TAtom s) (TrAtom s)
| dn_int z : dens sigma (TInt z) (TrInt z)
| dn_float f : f64_is_nan f = false -> dens sigma (TFloat f) (TrFloat (fkey f))
| dn_var id n : dens sigma (TVar id n) (sigma id)
| dn_complex ts trs : Forall2 (dens sigma) ts trs -> dens sigma (TComplex ts) (TrNode trs)
| dn_list h nx c tr : densl sigma (TList h nx c false) tr -> dens sigma (TList h nx c false) tr
with densl (sigma : valuation) : term -> tree -> Prop :=
| dl_empty nx c : densl sigma (TList TNil nx c false) TrNil
| dl_cons h nx c a b : is_nil h = false -> dens sigma h a -> densl sigma nx b ->
    densl sigma (TList h nx c false) (TrCons a b)
| dl_tail h nx c tr : dens sigma h tr -> densl sigma (TList h nx c true) tr.

Definition solvesr (sigma : valuation) (ss : subst) : Prop :=
  forall id t, ss_get ss id = Some t -> dens sigma t (sigma id).

(* ---- the three statements about one call of unify (r = its result when it returns) ---- *)
Section Statements.
  Variable unify : nat -> term -> term -> subst -> res (option subst).

  (* most general: every solution of the input that makes the two terms equal solves the output;
     complete: if such a solution exists, unify does not fail *)
  Definition general_complete : Prop :=
    forall fuel a b ss r sigma tr, unify fuel a b ss = Ok r ->
      solvesr sigma ss -> dens sigma a tr -> dens sigma b tr ->
      exists ss', r = Some ss' /\ solvesr sigma ss'.

  (* sound: every solution of the output solves the input and makes the two terms equal; every
     earlier binding is kept verbatim; the output is plain again *)
  Definition sound_sem : Prop :=
    forall fuel a b ss ss', plain a = true -> plain b = true -> plain_ss ss ->
      unify fuel a b ss = Ok (Some ss') ->
      plain_ss ss' /\
      (forall id t, ss_get ss id = Some t -> ss_get ss' id = Some t) /\
      (forall sigma, solves sigma ss' -> solves sigma ss /\ den sigma a = den sigma b).
End Statements.
