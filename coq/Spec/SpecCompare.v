(* What C14 demands, without reference to the implementation's control flow. *)
From Suiron Require Import Model.Term Model.Subst.
From Flocq Require Import IEEE754.BinarySingleNaN IEEE754.Binary.
Open Scope Z_scope.

(* Following bindings from a term: ends at a non-variable term (Some) or at an unbound
   variable (None). *)
Inductive chain (ss : subst) : term -> option term -> Prop :=
| chain_nonvar t : is_var t = false -> chain ss t (Some t)
| chain_unbound id n : ss_get ss id = None -> chain ss (TVar id n) None
| chain_step id n t r : ss_get ss id = Some t -> chain ss t r -> chain ss (TVar id n) r.

(* lexicographic order on strings of scalar values *)
Inductive lex_lt : str -> str -> Prop :=
| lex_nil y b : lex_lt [] (y :: b)
| lex_head x y a b : (x < y)%N -> lex_lt (x :: a) (y :: b)
| lex_tail x a b : lex_lt a b -> lex_lt (x :: a) (x :: b).

Inductive cmpop := SEq | SLt | SLe | SGt | SGe.

Definition holds_str (op : cmpop) (a b : str) : Prop :=
  match op with
  | SEq => a = b
  | SLt => lex_lt a b
  | SLe => lex_lt a b \/ a = b
  | SGt => lex_lt b a
  | SGe => lex_lt b a \/ a = b
  end.

Definition holds_Z (op : cmpop) (a b : Z) : Prop :=
  match op with
  | SEq => a = b | SLt => a < b | SLe => a <= b | SGt => a > b | SGe => a >= b
  end.

(* IEEE-754 comparison of binary64 values as defined by Flocq (`Bcompare`: None when a
   NaN is involved, in which case every predicate is false). *)
Definition holds_f64 (op : cmpop) (a b : f64) : Prop :=
  match op with
  | SEq => Bcompare 53 1024 a b = Some Eq
  | SLt => Bcompare 53 1024 a b = Some Lt
  | SLe => Bcompare 53 1024 a b = Some Lt \/ Bcompare 53 1024 a b = Some Eq
  | SGt => Bcompare 53 1024 a b = Some Gt
  | SGe => Bcompare 53 1024 a b = Some Gt \/ Bcompare 53 1024 a b = Some Eq
  end.

(* integer -> float conversion: round to nearest even (Flocq binary_normalize) *)
Definition to_f64 (z : Z) : f64 := binary_normalize 53 1024 eq_refl eq_refl mode_NE z 0 false.

(* `ordered op l r`: two ground constants compare accordingly. Atoms by string order,
   numbers numerically (an integer against a float is converted), nothing else. *)
Inductive ordered (op : cmpop) : term -> term -> Prop :=
| ord_atoms a b : holds_str op a b -> ordered op (TAtom a) (TAtom b)
| ord_ints a b : holds_Z op a b -> ordered op (TInt a) (TInt b)
| ord_floats a b : holds_f64 op a b -> ordered op (TFloat a) (TFloat b)
| ord_float_int a b : holds_f64 op a (to_f64 b) -> ordered op (TFloat a) (TInt b)
| ord_int_float a b : holds_f64 op (to_f64 a) b -> ordered op (TInt a) (TFloat b).

(* The comparison goal `l op r` under bindings `ss` holds iff both operands resolve and
   the values are ordered. *)
Definition compare_holds (op : cmpop) (l r : term) (ss : subst) : Prop :=
  exists cl cr, chain ss l (Some cl) /\ chain ss r (Some cr) /\ ordered op cl cr.
