(* The statement that ties the resumable search of Model/Solve.v to the reference search of
   Spec/SpecSolve.v (C01, C02, C03, C04 in full).  It is STATED here; what is proved of it so
   far is listed in Properties/C01.v .. C04.v, and the checks evaluate it on every generated
   history (the specification is extracted and run as an oracle against the implementation). *)
From Suiron Require Import Model.Term Model.Subst Model.Builtins Model.Rename Model.Solve Spec.SpecSolve.
Open Scope N_scope.

(* ask a node until it reports no answer (at most m times) *)
Fixpoint drain (kb : kbase) (bf fuel m : nat) (nd : node) (w : world) : res (list subst * node * world) :=
  match m with
  | O => OutOfFuel
  | S m' =>
      do x <- next kb bf fuel nd w;
      let '(nd', r, _, w') := x in
      match r with
      | None => Ok ([], nd', w')
      | Some s =>
          do y <- drain kb bf fuel m' nd' w';
          let '(l, nd'', w'') := y in Ok (s :: l, nd'', w'')
      end
  end.

(* renaming of variable ids *)
Fixpoint map_ids (rho : N -> N) (t : term) : term :=
  match t with
  | TVar id n => TVar (rho id) n
  | TComplex ts => TComplex (map (map_ids rho) ts)
  | TList a n c tv => TList (map_ids rho a) (map_ids rho n) c tv
  | TFun f args => TFun f (map (map_ids rho) args)
  | _ => t
  end.

Definition same_up_to_renaming (a b : term) : Prop :=
  exists rho, (forall x y, rho x = rho y -> x = y) /\ b = map_ids rho a.

(* C01/C02/C04 in full: for every knowledge base and query whose reference search finishes,
   draining the query's node yields the reference answers, in order and multiplicity, each
   equal up to renaming of unbound variables once the query is resolved under it, and writes
   the reference output. *)
Definition refines_reference : Prop :=
  forall kb q ctr fuel evs nd w answers nd' w' bf fuel2,
    query_events kb fuel q ctr = SOk evs ->
    make_base_node kb (GCall q) (mkWorld ctr false None []) = Ok (nd, w) ->
    drain kb bf fuel2 (S (length (answers_of evs))) nd w = Ok (answers, nd', w') ->
    out w' = output_of evs /\
    Forall2 (fun sm se => forall rm re,
               replace_variables fuel2 q sm = Ok rm -> replace_variables fuel2 q se = Ok re ->
               same_up_to_renaming re rm)
            answers (answers_of evs).
