(* What C06/C07 demand of unification, without reference to the implementation's control flow.

   `teq ss a b` ("a and b denote the same term under the bindings ss"): the least relation
   closed under following bindings, with `$_` matching anything, floats compared by IEEE `==`,
   complex terms argument-wise, and lists through their node structure, a tail variable
   standing for the rest of the list.  Function terms are outside (C13). *)
From Suiron Require Import Model.Term Model.Subst.
Open Scope N_scope.

Fixpoint fn_free (t : term) : bool :=
  match t with
  | TFun _ _ => false
  | TComplex ts => forallb fn_free ts
  | TList a n _ _ => fn_free a && fn_free n
  | _ => true
  end.

Inductive teq (ss : subst) : term -> term -> Prop :=
| teq_anon_l b : teq ss TAnon b
| teq_anon_r a : teq ss a TAnon
| teq_nil : teq ss TNil TNil
| teq_atom s : teq ss (TAtom s) (TAtom s)
| teq_int z : teq ss (TInt z) (TInt z)
| teq_float f1 f2 : f1 = f2 \/ feqb f1 f2 = true -> teq ss (TFloat f1) (TFloat f2)
| teq_same_var id n n' : teq ss (TVar id n) (TVar id n')
| teq_var_l id n t b : ss_get ss id = Some t -> teq ss t b -> teq ss (TVar id n) b
| teq_var_r id n t a : ss_get ss id = Some t -> teq ss a t -> teq ss a (TVar id n)
| teq_complex ls rs : teq_args ss ls rs -> teq ss (TComplex ls) (TComplex rs)
| teq_list_empty n1 c1 n2 c2 : teq ss (TList TNil n1 c1 false) (TList TNil n2 c2 false)
| teq_list_nodes h1 n1 c1 h2 n2 c2 :
    teq ss h1 h2 -> teq ss n1 n2 -> teq ss (TList h1 n1 c1 false) (TList h2 n2 c2 false)
| teq_tail_l h1 n1 c1 h2 n2 c2 :
    teq ss h1 (TList h2 n2 c2 false) -> teq ss (TList h1 n1 c1 true) (TList h2 n2 c2 false)
| teq_tail_r h1 n1 c1 h2 n2 c2 :
    teq ss (TList h1 n1 c1 false) h2 -> teq ss (TList h1 n1 c1 false) (TList h2 n2 c2 true)
| teq_tail_both h1 n1 c1 h2 n2 c2 :
    teq ss h1 h2 -> teq ss (TList h1 n1 c1 true) (TList h2 n2 c2 true)
with teq_args (ss : subst) : list term -> list term -> Prop :=
| ta_nil : teq_args ss [] []
| ta_cons l r ls rs : teq ss l r -> teq_args ss ls rs -> teq_args ss (l :: ls) (r :: rs).

Scheme teq_mut := Induction for teq Sort Prop
with teq_args_mut := Induction for teq_args Sort Prop.

(* `unifier ss' ss a b`: ss' keeps every binding of ss and makes a and b denote the same term *)
Definition keeps (ss ss' : subst) : Prop := forall i t, ss_get ss i = Some t -> ss_get ss' i = Some t.
Definition unifier (ss' ss : subst) (a b : term) : Prop := keeps ss ss' /\ teq ss' a b.

(* The full statement of C06 (soundness is proved: Properties/C06.v; completeness and
   generality are stated here and evaluated by the check against a reference unifier). *)
Definition unify_complete_statement (unify : nat -> term -> term -> subst -> res (option subst)) : Prop :=
  forall fuel a b ss r, fn_free a = true -> fn_free b = true ->
    unify fuel a b ss = Ok r ->
    (exists s', unifier s' ss a b) -> exists ss', r = Some ss'.
