(* What C12 demands: the left-to-right fold of the arguments, in Z (truncating division)
   when all are integers, in IEEE-754 binary64 (Flocq, round to nearest even, integers
   converted) when any is a float. *)
From Suiron Require Import Model.Term Model.Subst Spec.SpecCompare.
From Flocq Require Import IEEE754.BinarySingleNaN IEEE754.Binary IEEE754.Bits.
Open Scope Z_scope.

Inductive aop := SAdd | SSub | SMul | SDiv.

Definition zop (op : aop) (a b : Z) : Z :=
  match op with SAdd => a + b | SSub => a - b | SMul => a * b | SDiv => Z.quot a b end.

Definition fop (op : aop) (a b : f64) : f64 :=
  match op with
  | SAdd => b64_plus mode_NE a b
  | SSub => b64_minus mode_NE a b
  | SMul => b64_mult mode_NE a b
  | SDiv => b64_div mode_NE a b
  end.

(* a ground numeric argument *)
Inductive num := NumI (z : Z) | NumF (f : f64).
Definition num_term (n : num) : term := match n with NumI z => TInt z | NumF f => TFloat f end.
Definition is_float (n : num) : bool := match n with NumF _ => true | NumI _ => false end.
Definition as_float (n : num) : f64 := match n with NumF f => f | NumI z => to_f64 z end.
Definition as_int (n : num) : Z := match n with NumI z => z | NumF _ => 0 end.

(* the arguments resolve (through variable chains) to the numbers `ns` *)
Definition resolve_nums (ss : subst) (args : list term) (ns : list num) : Prop :=
  Forall2 (fun a n => chain ss a (Some (num_term n))) args ns.

(* the fold starts from the identity for add / multiply and from the first argument for
   subtract / divide *)
Definition start_and_rest {A} (op : aop) (zero one : A) (xs : list A) : option (A * list A) :=
  match op with
  | SAdd => Some (zero, xs)
  | SMul => Some (one, xs)
  | SSub | SDiv => match xs with [] => None | x :: r => Some (x, r) end
  end.

Definition in_i64 (z : Z) : Prop := - 2 ^ 63 <= z <= 2 ^ 63 - 1.

(* integer exclusions of the property: overflow at any step, division by zero *)
Fixpoint int_safe (op : aop) (acc : Z) (xs : list Z) : Prop :=
  match xs with
  | [] => True
  | x :: r => (op = SDiv -> x <> 0) /\ in_i64 (zop op acc x) /\ int_safe op (zop op acc x) r
  end.

Definition spec_value (op : aop) (ns : list num) : option term :=
  if existsb is_float ns then
    match start_and_rest op (B754_zero 53 1024 false) (to_f64 1) (map as_float ns) with
    | Some (s, r) => Some (TFloat (fold_left (fop op) r s))
    | None => None
    end
  else
    match start_and_rest op 0 1 (map as_int ns) with
    | Some (s, r) => Some (TInt (fold_left (zop op) r s))
    | None => None
    end.

Definition ints_safe (op : aop) (ns : list num) : Prop :=
  existsb is_float ns = true \/
  match start_and_rest op 0 1 (map as_int ns) with
  | Some (s, r) => int_safe op s r
  | None => True
  end.
