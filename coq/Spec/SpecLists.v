(* What C15-C17 demand of lists, stated on an abstract view of the raw node chain. *)
From Suiron Require Import Model.Term Model.Subst Model.Lists Spec.SpecCompare.
Open Scope N_scope.

Definition is_empty_list (t : term) : bool :=
  match t with
  | TList TNil TNil 0 false => true
  | _ => false
  end.

(* The view of a well-formed list: its elements and its tail variable, if any.
     []            = node(Nil, Nil, 0, false)                      (also the terminator)
     [x | rest]    = node(x, rest, count rest + 1, false), x <> Nil
     [... | $T]    = ..., node($T, [], 1, true)
   `None` = the chain is not a well-formed list (wrong count, missing terminator, ...). *)
Fixpoint elems (l : term) : option (list term * option term) :=
  match l with
  | TList x nx c tv =>
      if is_nil x then
        if is_nil nx && (c =? 0) && negb tv then Some ([], None) else None
      else if tv then
        if is_empty_list nx && (c =? 1) then Some ([], Some x) else None
      else
        match elems nx with
        | Some (xs, tl) => if c =? node_count nx + 1 then Some (x :: xs, tl) else None
        | None => None
        end
  | _ => None
  end.

Definition wf_list (l : term) : Prop := exists xs tl, elems l = Some (xs, tl).

Definition non_nil (xs : list term) : Prop := Forall (fun x => is_nil x = false) xs.

(* A list as it can be written: at least one element in front of a tail variable. *)
Definition proper (xs : list term) (tl : option term) : Prop := xs <> [] \/ tl = None.

(* `Elements ss open_tail_counts l xs`: xs are the elements of list l under the bindings
   ss, continuing through a tail variable that is bound to a list.  A tail that is `$_`, an
   unbound variable or bound to a non-list is itself the last element when
   `keep_open_tail` (append, include/exclude, join, print) and is left out otherwise
   (count). *)
Inductive Elements (ss : subst) (keep_open_tail : bool) : term -> list term -> Prop :=
| El_closed l xs :
    elems l = Some (xs, None) -> Elements ss keep_open_tail l xs
| El_anon l xs :
    elems l = Some (xs, Some TAnon) -> xs <> [] ->
    Elements ss keep_open_tail l (xs ++ [TAnon])
| El_bound l xs tl l' ys :
    elems l = Some (xs, Some tl) -> xs <> [] -> is_anon tl = false ->
    chain ss tl (Some l') -> is_list l' = true ->
    Elements ss keep_open_tail l' ys ->
    Elements ss keep_open_tail l (xs ++ ys)
| El_open l xs tl r :
    elems l = Some (xs, Some tl) -> xs <> [] -> is_anon tl = false ->
    chain ss tl r -> match r with Some v => is_list v = false | None => True end ->
    Elements ss keep_open_tail l (if keep_open_tail then xs ++ [tl] else xs).

(* what an input argument of append contributes *)
Inductive Contrib (ss : subst) : term -> list term -> Prop :=
| Contrib_list t l xs :
    chain ss t (Some l) -> is_list l = true -> Elements ss true l xs -> Contrib ss t xs
| Contrib_other t v :
    chain ss t (Some v) -> is_list v = false -> Contrib ss t [v].

(* join: words separated by one space, punctuation attached to the previous word *)
Definition is_punct (s : str) : bool :=
  match s with
  | [c] => (c =? 44) || (c =? 46) || (c =? 63) || (c =? 33)
  | _ => false
  end.

Fixpoint spaced (ws : list str) : list str :=
  match ws with
  | [] => []
  | w :: r => (if is_punct w then w else 32 :: w) :: spaced r
  end.

Definition join_spec (ws : list str) : str :=
  match ws with
  | [] => []
  | w :: r => w ++ concat (spaced r)
  end.
