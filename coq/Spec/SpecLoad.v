(* C21 - what a source file is, as the property states it.

   A program is a list of rule TEXTS (what one would hand to `parse_rule`, one by one).
   A LAYOUT writes each text on one or more lines: the text is cut into consecutive pieces,
   every piece but the last ending - up to white space - in one of the documented
   continuation characters  -  ,  ;  = ; every piece goes on a line of its own, with any
   indentation, trailing white space and, where the text is outside parentheses and
   brackets, a `#`, `%` or `//` comment behind it; blank lines and comment lines may stand
   anywhere outside parentheses and brackets.  `render layout texts` is the file (its lines).

   `wf_text` and `legal` are the side conditions of C21, as decidable predicates:
   a rule text contains exactly one rule end - a period outside ( ) [ ] and quotes that is not a
   decimal point between two digits - namely its last character (so it is bracket- and
   quote-balanced there), and no comment delimiter outside ( ) [ ] and quotes.

   "Outside parentheses / brackets / quotes" is the plain count of the characters
   ( ) [ ] and the parity of the double-quote character over the text so far; backslash escapes and
   brackets written between quotes are not given any special meaning here. *)
From Suiron Require Export Model.Str.
From Suiron Require Import Model.Reader.   (* characters, rd_is_ws, rd_is_digit, rd_trim *)
Open Scope N_scope.

(* ---- the lexical state: depth of ( ), depth of [ ], inside quotes ---- *)
Record lex := mkLex { l_rd : Z; l_sd : Z; l_inq : bool }.
Definition lex0 : lex := mkLex 0 0 false.

Definition lex_step (st : lex) (c : N) : lex :=
  if c =? ch_lparen then mkLex (l_rd st + 1) (l_sd st) (l_inq st)
  else if c =? ch_lbrack then mkLex (l_rd st) (l_sd st + 1) (l_inq st)
  else if c =? ch_rparen then mkLex (l_rd st - 1) (l_sd st) (l_inq st)
  else if c =? ch_rbrack then mkLex (l_rd st) (l_sd st - 1) (l_inq st)
  else if c =? ch_quote then mkLex (l_rd st) (l_sd st) (negb (l_inq st))
  else st.

Definition lex_scan (st : lex) (s : str) : lex := fold_left lex_step s st.

(* outside parentheses, brackets and quotes *)
Definition outside (st : lex) : bool :=
  (l_rd st =? 0)%Z && (l_sd st =? 0)%Z && negb (l_inq st).

Definition hd_or_x (s : str) : N := match s with c :: _ => c | [] => ch_x end.
Definition last_or_x (s : str) : N := last s ch_x.
Definition is_empty {A} (l : list A) : bool := match l with [] => true | _ => false end.

(* the documented continuation characters *)
Definition is_cont (c : N) : bool :=
  (c =? ch_dash) || (c =? ch_comma) || (c =? ch_semicolon) || (c =? ch_equals).

(* ---- rule texts ---- *)

(* the character c (before it: prev, state st; after it: next) ends a rule *)
Definition ends_rule (st : lex) (prev c next : N) : bool :=
  (c =? ch_period) && outside st && negb (rd_is_digit prev && rd_is_digit next).

(* the only rule end of s is its last character *)
Fixpoint one_rule (st : lex) (prev : N) (s : str) : bool :=
  match s with
  | [] => false
  | c :: s' =>
      if ends_rule st prev c (hd_or_x s') then is_empty s'
      else one_rule (lex_step st c) c s'
  end.

(* no `#`, `%`, `//` outside ( ) [ ] and quotes *)
Fixpoint no_comment (st : lex) (prev : N) (s : str) : bool :=
  match s with
  | [] => true
  | c :: s' =>
      if outside st &&
         ((c =? ch_hash) || (c =? ch_percent) || ((c =? ch_slash) && (prev =? ch_slash)))
      then false
      else no_comment (lex_step st c) c s'
  end.

Definition wf_text (t : str) : bool :=
  negb (rd_is_ws (hd_or_x t)) && one_rule lex0 ch_x t && no_comment lex0 ch_x t.

(* ---- layouts ---- *)

(* a line without rule text: white space, then possibly a comment *)
Record blank := mkBlank { b_ws : str; b_comment : str }.

(* how one piece of a rule is written: the blank/comment lines before it, its indentation,
   white space after it, a comment after that (empty = none) *)
Record deco := mkDeco { d_before : list blank; d_indent : str; d_trail : str; d_comment : str }.

(* a rule: how its first piece is written, then, per line break, the length of the piece
   before the break and how the piece after it is written *)
Definition rule_layout : Type := deco * list (nat * deco).

Record layout := mkLayout { lay_rules : list rule_layout; lay_trailer : list blank }.

Fixpoint lay (d : deco) (more : list (nat * deco)) (s : str) : list (deco * str) :=
  match more with
  | [] => [(d, s)]
  | (n, d') :: more' => (d, firstn n s) :: lay d' more' (skipn n s)
  end.

Definition pieces (rl : rule_layout) (t : str) : list (deco * str) := lay (fst rl) (snd rl) t.

Definition render_blank (b : blank) : str := b_ws b ++ b_comment b.

Definition render_piece (p : deco * str) : list str :=
  map render_blank (d_before (fst p)) ++
  [d_indent (fst p) ++ snd p ++ d_trail (fst p) ++ d_comment (fst p)].

Fixpoint render_rules (rls : list rule_layout) (texts : list str) : list str :=
  match rls, texts with
  | rl :: rls', t :: texts' => flat_map render_piece (pieces rl t) ++ render_rules rls' texts'
  | _, _ => []
  end.

(* the lines of the file *)
Definition render (L : layout) (texts : list str) : list str :=
  render_rules (lay_rules L) texts ++ map render_blank (lay_trailer L).

(* ---- legal layouts ---- *)
Definition all_ws (s : str) : bool := forallb rd_is_ws s.

(* empty (no comment), or a text that starts with a comment delimiter *)
Definition is_comment (c : str) : bool :=
  match c with
  | [] => true
  | a :: r => (a =? ch_hash) || (a =? ch_percent) || ((a =? ch_slash) && (hd_or_x r =? ch_slash))
  end.

Definition blank_ok (st : lex) (b : blank) : bool :=
  all_ws (b_ws b) && is_comment (b_comment b) && (is_empty (b_comment b) || outside st).

(* the piece p, written where the text before it leaves the state st *)
Definition piece_ok (final : bool) (st : lex) (p : deco * str) : bool :=
  forallb (blank_ok st) (d_before (fst p)) &&
  all_ws (d_indent (fst p)) && all_ws (d_trail (fst p)) && is_comment (d_comment (fst p)) &&
  (* the line break after it is outside quotes ... *)
  negb (l_inq (lex_scan st (snd p))) &&
  (* ... and after a continuation character; the last piece ends with the rule's period *)
  (if final then last_or_x (snd p) =? ch_period else is_cont (last_or_x (rd_trim (snd p)))) &&
  (* a comment stands outside parentheses and brackets *)
  (is_empty (d_comment (fst p)) || outside (lex_scan st (snd p))).

Fixpoint pieces_ok (st : lex) (ps : list (deco * str)) : bool :=
  match ps with
  | [] => false
  | [p] => piece_ok true st p
  | p :: ps' => piece_ok false st p && pieces_ok (lex_scan st (snd p)) ps'
  end.

Fixpoint rules_ok (rls : list rule_layout) (texts : list str) : bool :=
  match rls, texts with
  | [], [] => true
  | rl :: rls', t :: texts' => pieces_ok lex0 (pieces rl t) && rules_ok rls' texts'
  | _, _ => false
  end.

Definition legal (L : layout) (texts : list str) : bool :=
  rules_ok (lay_rules L) texts && forallb (blank_ok lex0) (lay_trailer L).

(* ---- what reading the file must give ---- *)
Fixpoint join_sp (l : list str) : str :=
  match l with
  | [] => []
  | [a] => a
  | a :: r => a ++ [ch_space] ++ join_sp r
  end.

(* the pieces of the rule, trimmed, with one space at each line break *)
Definition expected_rule (rl : rule_layout) (t : str) : str :=
  join_sp (map (fun p => rd_trim (snd p)) (pieces rl t)).

Fixpoint expected (rls : list rule_layout) (texts : list str) : list str :=
  match rls, texts with
  | rl :: rls', t :: texts' => expected_rule rl t :: expected rls' texts'
  | _, _ => []
  end.

(* the same text up to white space at the cut points: equal character by character,
   except that after a continuation character the white space may differ *)
Inductive cut_equiv : str -> str -> Prop :=
| ce_nil : cut_equiv [] []
| ce_same : forall c a b, cut_equiv a b -> cut_equiv (c :: a) (c :: b)
| ce_cut : forall c w1 w2 a b,
    is_cont c = true -> all_ws w1 = true -> all_ws w2 = true ->
    cut_equiv a b -> cut_equiv (c :: w1 ++ a) (c :: w2 ++ b).

(* ---- layouts that leave the texts exactly as they are ---- *)
(* every line break stands right after the continuation character, in front of exactly one
   space (U+0020) of the text, and the text has no other white space there *)
Definition body_exact (first : bool) (b : str) : bool :=
  if first then str_eqb (rd_trim b) b
  else match b with
       | c :: m => (c =? ch_space) && str_eqb (rd_trim m) m
       | [] => false
       end.

Fixpoint exact_pieces (first : bool) (ps : list (deco * str)) : bool :=
  match ps with
  | [] => true
  | p :: ps' => body_exact first (snd p) && exact_pieces false ps'
  end.

Fixpoint exact_layout (rls : list rule_layout) (texts : list str) : bool :=
  match rls, texts with
  | rl :: rls', t :: texts' => exact_pieces true (pieces rl t) && exact_layout rls' texts'
  | _, _ => true
  end.

