(* The reference search (C01-C05): depth-first, left-to-right, clause-order resolution as a
   compositional "trace" semantics.  No nodes, flags, indices or resumption: the meaning of a
   goal under a substitution is the list of EVENTS the search produces, in order - answers
   and pieces of output - followed by a TERMINAL that says how the list ended:

     End        the alternatives are exhausted
     EndCut     the list ends because a cut ran under this goal and the goals after the
                cut then failed
     AnsCut s   the last answer, s, was derived with a cut under this goal: as documented
                ("backtracking is disabled on the cut and all its ancestors up to that
                call") nothing follows it.

   A call ABSORBS the terminal of the clause body it chose (after a cut terminal no later
   clause is tried; the call itself always ends with End): a cut never reaches the caller.
   A conjunction stops re-trying its first goal as soon as the rest ended with a cut
   terminal; when the first goal itself ends with `AnsCut s1` the rest is run on s1 for its
   first answer only.  A disjunction tries its next alternative only after an End.

   Fresh variables come from a counter that only grows, so no variable is ever reused;
   answers are therefore compared with the engine's up to renaming of unbound variables.
   Built-ins and unification are the functions specified by C06-C17 (Model.Builtins.run_bip,
   Model.Unify.unify).  Goals the documentation does not cover (cut inside not(..), time(..),
   empty conjunctions, malformed goals) are `SOutside`. *)
From Suiron Require Import Model.Term Model.Subst Model.Show Model.Lists Model.Arith Model.Unify
  Model.Compare Model.Builtins Model.Rename.
Open Scope N_scope.

Inductive event := EAns (s : subst) | EOut (o : str).
Inductive sterm := End | EndCut | AnsCut (s : subst).
Inductive sres (A : Type) := SOk (a : A) | SOutside | SFuel.
Arguments SOk {A} a.
Arguments SOutside {A}.
Arguments SFuel {A}.

Definition trace := (list event * sterm * N)%type.   (* events, terminal, counter afterwards *)

(* the part of a trace that is produced when its goal is asked once: everything up to the
   first answer, which becomes the cut answer; EndCut when there is none *)
Fixpoint cut_first (evs : list event) (t : sterm) : list event * sterm :=
  match evs with
  | [] => ([], match t with AnsCut b => AnsCut b | _ => EndCut end)
  | EAns a :: _ => ([], AnsCut a)
  | EOut o :: r => let '(l, t') := cut_first r t in (EOut o :: l, t')
  end.

(* not(G): the output G produces until its first answer; then failure - or, when G has no
   answer, success with the substitution unchanged *)
Fixpoint not_events (s : subst) (evs : list event) : list event :=
  match evs with
  | [] => [EAns s]
  | EAns _ :: _ => []
  | EOut o :: r => EOut o :: not_events s r
  end.

Definition is_end (t : sterm) : bool := match t with End => true | _ => false end.

Section Sem.
  Variable kb : kbase.

  Fixpoint sem (fuel : nat) (g : goal) (s : subst) (ctr : N) {struct fuel} : sres trace :=
    match fuel with
    | O => SFuel
    | S f =>
      match g with
      | GBip fn ts =>
          match run_bip f fn ts s with
          | Ok r =>
              if br_cut r then SOk ([], AnsCut s, ctr)
              else SOk ((match br_out r with [] => [] | o => [EOut o] end) ++
                        (match br_sol r with Some s' => [EAns s'] | None => [] end), End, ctr)
          | Panic => SOutside
          | OutOfFuel => SFuel
          end
      | GCall t =>
          match term_key t with
          | Ok key =>
              let fix clauses (rules : list rule) (ctr : N) : sres (list event * N) :=
                match rules with
                | [] => SOk ([], ctr)
                | r :: rest =>
                    match rename_rule r ([], ctr) with
                    | Ok (r', (_, ctr1)) =>
                        match unify f (r_head r') t s with
                        | Ok None => clauses rest ctr1
                        | Ok (Some s') =>
                            if is_gnil (r_body r') then
                              match clauses rest ctr1 with
                              | SOk (l, c) => SOk (EAns s' :: l, c)
                              | e => e
                              end
                            else
                              match sem f (r_body r') s' ctr1 with
                              | SOk (ev, End, ctr2) =>
                                  match clauses rest ctr2 with
                                  | SOk (l, c) => SOk (ev ++ l, c)
                                  | e => e
                                  end
                              | SOk (ev, EndCut, ctr2) => SOk (ev, ctr2)
                              | SOk (ev, AnsCut a, ctr2) => SOk (ev ++ [EAns a], ctr2)
                              | SOutside => SOutside
                              | SFuel => SFuel
                              end
                        | Panic => SOutside
                        | OutOfFuel => SFuel
                        end
                    | _ => SOutside
                    end
                end in
              match clauses (match kb_get kb key with Some l => l | None => [] end) ctr with
              | SOk (l, c) => SOk (l, End, c)
              | SOutside => SOutside
              | SFuel => SFuel
              end
          | _ => SOutside
          end
      | GOp OAnd [] => SOutside
      | GOp OAnd [g1] => sem f g1 s ctr
      | GOp OAnd (g1 :: rest) =>
          match sem f g1 s ctr with
          | SOk (evs1, t1, ctr1) =>
              let fix each (evs : list event) (ctr : N) : sres trace :=
                match evs with
                | [] =>
                    match t1 with
                    | End => SOk ([], End, ctr)
                    | EndCut => SOk ([], EndCut, ctr)
                    | AnsCut a1 =>
                        match sem f (GOp OAnd rest) a1 ctr with
                        | SOk (ev, t, c) => let '(l, t') := cut_first ev t in SOk (l, t', c)
                        | e => e
                        end
                    end
                | EOut o :: evs' =>
                    match each evs' ctr with
                    | SOk (l, t, c) => SOk (EOut o :: l, t, c)
                    | e => e
                    end
                | EAns a :: evs' =>
                    match sem f (GOp OAnd rest) a ctr with
                    | SOk (la, End, c) =>
                        match each evs' c with
                        | SOk (lb, t, c') => SOk (la ++ lb, t, c')
                        | e => e
                        end
                    | r => r
                    end
                end in
              each evs1 ctr1
          | e => e
          end
      | GOp OOr [] => SOutside
      | GOp OOr [g1] => sem f g1 s ctr
      | GOp OOr (g1 :: rest) =>
          match sem f g1 s ctr with
          | SOk (l1, End, c1) =>
              match sem f (GOp OOr rest) s c1 with
              | SOk (l2, t, c2) => SOk (l1 ++ l2, t, c2)
              | e => e
              end
          | r => r
          end
      | GOp ONot (g1 :: _) =>
          match sem f g1 s ctr with
          | SOk (ev, End, c) => SOk (not_events s ev, End, c)
          | SOk _ => SOutside
          | e => e
          end
      | GOp ONot [] => SOutside
      | GOp OTime _ => SOutside
      | GNil => SOutside
      end
    end.
End Sem.

(* what a query reports: the events of its call (a call's terminal is always End) *)
Definition query_events (kb : kbase) (fuel : nat) (q : term) (ctr : N) : sres (list event) :=
  match sem kb fuel (GCall q) [] ctr with
  | SOk (evs, _, _) => SOk evs
  | SOutside => SOutside
  | SFuel => SFuel
  end.

Fixpoint answers_of (evs : list event) : list subst :=
  match evs with
  | [] => []
  | EAns s :: r => s :: answers_of r
  | EOut _ :: r => answers_of r
  end.

Fixpoint output_of (evs : list event) : str :=
  match evs with
  | [] => []
  | EAns _ :: r => output_of r
  | EOut o :: r => o ++ output_of r
  end.
