(* The reference search for programs WITH cut, not and time (C01-C04): depth-first,
   left-to-right, clause-order resolution in success-continuation style, as Spec/SpecLazy.v,
   extended by what the documentation says about `!`:

     "backtracking is disabled on the cut and all its ancestors up to that call"

   i.e. once a cut has run inside a goal (a conjunction, a disjunction, the clause body), that
   goal delivers the answer being derived and nothing more, and the call that chose the clause
   tries no later clause.  There are no nodes, flags, indices or resumption here; the two
   devices are

     - a continuation is told whether a cut ran inside the goal that calls it (`c`), and
     - every search returns, besides its answers and the world it reached, a SIGNAL:
         Go        nothing special: the caller goes on with its next alternative
         Cut n     a cut ran: the alternatives of everything up to the clause body it stands in
                   are abandoned; n = the number of call boundaries the signal still has to
                   cross (a cut in a continuation - i.e. to the right of a call, in the caller's
                   clause - abandons the remaining clauses of that call as well)
         Halt      the consumer wants no more answers (not(..) and time(..) ask their goal for
                   its first answer only)

   `g1, g2..`   solve g1, continuing each answer with (g2..); an answer that leaves the
                conjunction after a cut ran inside it comes back as Cut, so nothing is retried
   `g1; g2..`   solve g1; only after Go solve (g2; ..) from the same substitution
   `!`          continue, then signal Cut
   call         for each clause in order: fetch it renamed apart, unify its head, solve its body;
                Cut 0 from the body ends the call (no later clause) and is absorbed: the caller
                never sees the cut of a clause it called
   not(g)       ask g for its first answer only; continue (with the substitution unchanged) iff
                there was none
   time(g)      ask g for its first answer only, write the elapsed-time text, continue with it

   Cut inside not(..) / time(..) is outside the documented behaviour: `Panic` here. *)
From Suiron Require Import Model.Term Model.Subst Model.Show Model.Lists Model.Arith Model.Unify
  Model.Compare Model.Builtins Model.Rename Model.Solve.
Open Scope N_scope.

Inductive sig := Go | Cut (n : nat) | Halt.

Definition cres := (list subst * world * sig)%type.
Definition ckont := subst -> world -> bool -> res cres.

(* a cut ran here: at least Cut 0 *)
Definition join0 (s : sig) : sig := match s with Go => Cut 0 | _ => s end.
Definition mark (c : bool) (x : cres) : cres :=
  if c then let '(a, w, s) := x in (a, w, join0 s) else x.
(* crossing a call boundary inwards / outwards *)
Definition bump (s : sig) : sig := match s with Cut n => Cut (S n) | _ => s end.

(* a; b - b only after Go *)
Definition seq (a : res cres) (b : world -> res cres) : res cres :=
  do x <- a;
  let '(a1, w1, s1) := x in
  match s1 with
  | Go => do y <- b w1; let '(a2, w2, s2) := y in Ok (a1 ++ a2, w2, s2)
  | _ => Ok x
  end.

(* the continuation of a clause body: the caller's continuation, seen from inside the call *)
Definition kbump (k : ckont) : ckont :=
  fun s w _ => do z <- k s w false; let '(a, w', sg) := z in Ok (a, w', bump sg).
(* leaving a clause body: Go - try the next clause; the clause's own cut - end the call,
   absorbed; a cut of the caller's clause, or Halt - end the call and pass it on *)
Definition after_body (x : cres) (rest : world -> res cres) : res cres :=
  let '(a1, w2, s1) := x in
  match s1 with
  | Go => do y <- rest w2; let '(a2, w3, s2) := y in Ok (a1 ++ a2, w3, s2)
  | Cut O => Ok (a1, w2, Go)
  | Cut (S m) => Ok (a1, w2, Cut m)
  | Halt => Ok (a1, w2, Halt)
  end.
(* the continuation of a goal inside a conjunction that delivers to k: k is told about the cut, and the
   answer comes back as Cut *)
Definition kwrap (c1 : bool) (k : ckont) : ckont :=
  fun s w c2 => do x <- k s w (c1 || c2); Ok (mark (c1 || c2) x).

(* syntactic condition: no cut directly under not(..) / time(..) *)
Fixpoint has_cut (g : goal) : bool :=
  match g with
  | GBip fn _ => str_eqb fn n_cut
  | GOp _ gs => (fix any (l : list goal) := match l with [] => false | x :: r => has_cut x || any r end) gs
  | _ => false
  end.

Section Cut.
  Variable kb : kbase.
  Variable bf : nat.

  Section Bodies.
    Variable csolve : goal -> subst -> world -> ckont -> res cres.
    Variable cclauses : term -> subst -> str -> N -> N -> world -> ckont -> res cres.

    Definition halt1 : ckont := fun s w _ => Ok ([s], w, Halt).

    Definition csolve_body (g : goal) (s : subst) (w : world) (k : ckont) : res cres :=
      match g with
      | GBip fn ts =>
          do r <- run_bip bf fn ts s;
          match br_sol r with
          | Some s' => do x <- k s' (w_print w (br_out r)) (br_cut r); Ok (mark (br_cut r) x)
          | None => Ok ([], w_print w (br_out r), Go)
          end
      | GOp OAnd [] => Panic
      | GOp OAnd [g1] => csolve g1 s w k
      | GOp OAnd (g1 :: rest) =>
          csolve g1 s w (fun s1 w1 c1 =>
            do y <- csolve (GOp OAnd rest) s1 w1 (kwrap c1 k); Ok (mark c1 y))
      | GOp OOr [] => Panic
      | GOp OOr [g1] => csolve g1 s w k
      | GOp OOr (g1 :: rest) => seq (csolve g1 s w k) (fun w1 => csolve (GOp OOr rest) s w1 k)
      | GOp ONot (g1 :: _) =>
          if has_cut g1 then Panic else
          do x <- csolve g1 s w halt1;
          let '(a, w1, _) := x in
          match a with
          | [] => k s w1 false
          | _ => Ok ([], w1, Go)
          end
      | GOp OTime (g1 :: _) =>
          if has_cut g1 then Panic else
          do x <- csolve g1 s w halt1;
          let '(a, w1, _) := x in
          match a with
          | [] => Ok ([], w_print w1 elapsed_token, Go)
          | s1 :: _ => k s1 (w_print w1 elapsed_token) false
          end
      | GCall t =>
          do key <- term_key t;
          let '(n, w0) := count_rules kb key w in
          cclauses t s key 0 n w0 k
      | _ => Panic
      end.

    Definition cclauses_body (t : term) (s : subst) (key : str) (idx n : N) (w : world) (k : ckont)
      : res cres :=
      if n <=? idx then Ok ([], w, Go)
      else
        do gr <- get_rule kb key idx (next_id w);
        let '(r, ctr) := gr in
        let w1 := w_set_id w ctr in
        do u <- unify bf (r_head r) t s;
        match u with
        | None => cclauses t s key (idx + 1) n (w_set_id w1 (next_id w)) k
        | Some s' =>
            if is_gnil (r_body r) then
              seq (k s' w1 false) (fun w2 => cclauses t s key (idx + 1) n w2 k)
            else
              do x <- csolve (r_body r) s' w1 (kbump k);
              after_body x (fun w2 => cclauses t s key (idx + 1) n w2 k)
        end.
  End Bodies.

  Fixpoint csolve (fuel : nat) (g : goal) (s : subst) (w : world) (k : ckont) {struct fuel} : res cres :=
    match fuel with
    | O => OutOfFuel
    | S f => csolve_body (csolve f) (cclauses f) g s w k
    end
  with cclauses (fuel : nat) (t : term) (s : subst) (key : str) (idx n : N) (w : world) (k : ckont)
    {struct fuel} : res cres :=
    match fuel with
    | O => OutOfFuel
    | S f => cclauses_body (csolve f) (cclauses f) t s key idx n w k
    end.

  Lemma csolve_S f g s w k : csolve (S f) g s w k = csolve_body (csolve f) (cclauses f) g s w k.
  Proof. reflexivity. Qed.
  Lemma cclauses_S f t s key idx n w k :
    cclauses (S f) t s key idx n w k = cclauses_body (csolve f) (cclauses f) t s key idx n w k.
  Proof. reflexivity. Qed.

  (* the answers of a query, in order, and the world the search ends in *)
  Definition canswers (fuel : nat) (q : term) (w : world) : res (list subst * world) :=
    do x <- csolve fuel (GCall q) [] w (fun s w' _ => Ok ([s], w', Go));
    let '(a, w1, _) := x in Ok (a, w1).
End Cut.
