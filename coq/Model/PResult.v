(* Rust `Result<T, String>` of the parsers: a value or an error.  The error *text* is not
   modelled; observations compare only the class `ok v | err | panic | diverged`. *)
Inductive presult (A : Type) :=
| POk (a : A)
| PErr.
Arguments POk {A} a.
Arguments PErr {A}.
