(* Unifiable::unify (unifiable.rs), unify_sfunction (built_in_functions.rs),
   evaluate_join (built_in_join.rs). *)
From Coq Require Import String.
From Suiron Require Export Model.Subst Model.Show Model.Lists Model.Arith.
Open Scope N_scope.

(* ---- built_in_join.rs ---- *)
Definition is_punctuation (s : str) : bool :=
  match s with
  | [c] => (c =? 44) || (c =? 46) || (c =? 63) || (c =? 33)     (* , . ? ! *)
  | _ => false
  end.

Fixpoint join_words (first : bool) (ws : list str) : str :=
  match ws with
  | [] => []
  | s :: r =>
      if is_punctuation s then s ++ join_words false r
      else if first then s ++ join_words false r
      else 32 :: s ++ join_words false r
  end.

Fixpoint get_all_terms (fuel : nat) (ts : list term) (ss : subst) : res (list term) :=
  match ts with
  | [] => Ok []
  | t :: r => do a <- get_terms fuel t ss; do b <- get_all_terms fuel r ss; Ok (a ++ b)
  end.

Definition evaluate_join (fuel : nat) (in_terms : list term) (ss : subst) : res term :=
  do all <- get_all_terms fuel in_terms ss;
  Ok (TAtom (join_words true (map show_term all))).

Definition fname_join : str := Eval compute in s2l "join".
Definition fname_add : str := Eval compute in s2l "add".
Definition fname_subtract : str := Eval compute in s2l "subtract".
Definition fname_multiply : str := Eval compute in s2l "multiply".
Definition fname_divide : str := Eval compute in s2l "divide".

(* the value of a built-in function term; None: unknown function name (unify fails) *)
Definition eval_function (fuel : nat) (name : str) (args : list term) (ss : subst)
  : res (option term) :=
  if str_eqb name fname_join then do v <- evaluate_join fuel args ss; Ok (Some v)
  else if str_eqb name fname_add then do v <- evaluate fuel AAdd args ss; Ok (Some v)
  else if str_eqb name fname_subtract then do v <- evaluate fuel ASub args ss; Ok (Some v)
  else if str_eqb name fname_multiply then do v <- evaluate fuel AMul args ss; Ok (Some v)
  else if str_eqb name fname_divide then do v <- evaluate fuel ADiv args ss; Ok (Some v)
  else Ok None.

(* the loop added to the LogicVar arm: does the chain of bindings from `o` end at `id`? *)
Fixpoint chain_reaches (fuel : nat) (id : N) (o : term) (ss : subst) : res bool :=
  match o with
  | TVar oid _ =>
      if oid =? id then Ok true
      else match ss_get ss oid with
           | None => Ok false
           | Some t =>
               match fuel with
               | O => OutOfFuel
               | S f => chain_reaches f id t ss
               end
           end
  | _ => Ok false
  end.

(* One level of `unify`, with the recursive call as a parameter (`rec`), so that the two
   loops are ordinary structural fixpoints and lemmas about them can be stated once. *)
Section UnifyBody.
  Variable rec : term -> term -> subst -> res (option subst).

  (* the `while i < other_len` loop of the SComplex arm; `ss2` starts as an EMPTY set *)
  Fixpoint unify_args (ls rs : list term) (new_ss ss2 : subst) : res (option subst) :=
    match ls, rs with
    | l :: ls', r :: rs' =>
        if is_anon l || is_anon r then unify_args ls' rs' new_ss ss2
        else
          do u <- rec l r new_ss;
          match u with
          | Some s => unify_args ls' rs' s s
          | None => Ok None
          end
    | _, _ => Ok (Some ss2)
    end.

  (* the `while *this_list != Nil && *other_list != Nil` loop of the SLinkedList arm *)
  Fixpoint unify_lists (this_list other_list : term) (new_ss : subst) {struct this_list}
    : res (option subst) :=
    if is_nil this_list || is_nil other_list then Ok None
    else
      match this_list, other_list with
      | TList th tnx _ ttv, TList oh onx _ otv =>
          if ttv && otv then
            if is_anon oh then Ok (Some new_ss)
            else if is_anon th then Ok (Some new_ss)
            else rec th oh new_ss
          else if ttv then rec th other_list new_ss
          else if otv then rec oh this_list new_ss
          else if is_nil th && is_nil oh then Ok (Some new_ss)
          else
            do u <- rec th oh new_ss;
            match u with
            | Some s => unify_lists tnx onx s
            | None => Ok None
            end
      | _, _ => Panic
      end.

  Definition unify_body (f : nat) (self other : term) (ss : subst) : res (option subst) :=
    if term_eqb self other then Ok (Some ss)
    else if is_anon other then Ok (Some ss)
    else
    match self with
    | TAnon => Ok (Some ss)
    | TAtom s1 =>
        match other with
        | TAtom s2 => Ok (if str_eqb s1 s2 then Some ss else None)
        | TVar _ _ | TFun _ _ => rec other self ss
        | _ => Ok None
        end
    | TFloat f1 =>
        match other with
        | TFloat f2 => Ok (if feqb f1 f2 then Some ss else None)
        | TVar _ _ | TFun _ _ => rec other self ss
        | _ => Ok None
        end
    | TInt i1 =>
        match other with
        | TInt i2 => Ok (if Z.eqb i1 i2 then Some ss else None)
        | TVar _ _ | TFun _ _ => rec other self ss
        | _ => Ok None
        end
    | TVar id _ =>
        if id =? 0 then Panic
        else
          match other with
          | TFun _ _ => rec other self ss
          | _ =>
              match ss_get ss id with
              | Some u => rec u other ss
              | None =>
                  do al <- chain_reaches f id other ss;
                  Ok (Some (if al then ss else ss_set ss id other))
              end
          end
    | TComplex sts =>
        match other with
        | TComplex ots =>
            if negb (Nat.eqb (length sts) (length ots)) then Ok None
            else unify_args sts ots ss []
        | TVar _ _ | TFun _ _ => rec other self ss
        | _ => Ok None
        end
    | TList _ _ _ _ =>
        match other with
        | TList _ _ _ _ => unify_lists self other ss
        | TVar _ _ | TFun _ _ => rec other self ss
        | _ => Ok None
        end
    | TFun name args =>
        do v <- eval_function f name args ss;
        match v with
        | Some r => rec r other ss
        | None => Ok None
        end
    | TNil => Ok None
    end.
End UnifyBody.

Fixpoint unify (fuel : nat) (self other : term) (ss : subst) {struct fuel}
  : res (option subst) :=
  match fuel with
  | O => OutOfFuel
  | S f => unify_body (unify f) f self other ss
  end.
