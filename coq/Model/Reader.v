(* src/rule_reader.rs, function by function (the tree with the `fix:` commits of C21):
   strip_comments_at / strip_comments, check_last_char, trim_error_line, unmatched_bracket,
   is_decimal_point, separate_rules, read_facts_and_rules, load_kb_from_file.

   The file is a `list str` of lines as `BufRead::lines` yields them (no `\n`; a `\r\n`
   ending is removed as a whole by `lines`, any other `\r` stays in the line and is white
   space for `trim`).  A line that is not valid UTF-8 (an `Err` item of `lines`) makes the
   Rust function return an error since the commit `fix: a line which cannot be read is an
   error`; such files, and a file that cannot be opened, have no counterpart in a list of
   decoded lines and are outside the model (checked on the implementation alone, gen/C21.py).

   Every slice, index and `usize` subtraction is a checked operation whose failure is the
   result `Panic`; that none of them fails is the theorem `reader_total` (C21), not an
   assumption of the model.

   Approximation: the `i32` counters round_depth / square_depth / num_quotes are unbounded
   (`Z`, `N`) here; the Rust code (overflow checks on) panics when one of them leaves the
   `i32` range, which needs a file with more than 2^31 - 1 brackets or quotation marks. *)
From Suiron Require Export Model.Str Model.Term Model.Rename Model.PResult.
From Coq Require Import String.
Open Scope N_scope.

(* Rust `Result<T, String>` whose error text IS modelled (this file); the parsers' result
   `presult`, whose error text is not, is in Model/PResult.v (`parse_rule`). *)
Inductive rresult (A : Type) :=
| ROk (a : A)
| RErr (msg : str).
Arguments ROk {A} a.
Arguments RErr {A} msg.

(* ---- characters ---- *)
Definition ch_lparen : N := 40.    (* ( *)
Definition ch_rparen : N := 41.    (* ) *)
Definition ch_lbrack : N := 91.    (* [ *)
Definition ch_rbrack : N := 93.    (* ] *)
Definition ch_quote : N := 34.     (* double quote *)
Definition ch_hash : N := 35.      (* # *)
Definition ch_percent : N := 37.   (* % *)
Definition ch_slash : N := 47.     (* / *)
Definition ch_period : N := 46.    (* . *)
Definition ch_dash : N := 45.      (* - *)
Definition ch_comma : N := 44.     (* , *)
Definition ch_semicolon : N := 59. (* ; *)
Definition ch_equals : N := 61.    (* = *)
Definition ch_x : N := 120.        (* x *)

(* `ch >= '0' && ch <= '9'` *)
Definition rd_is_digit (c : N) : bool := (48 <=? c) && (c <=? 57).

(* `char::is_whitespace`: the Unicode property White_Space - exact for every scalar value
   (U+0009-000D, 0020, 0085, 00A0, 1680, 2000-200A, 2028, 2029, 202F, 205F, 3000). *)
Definition rd_is_ws (c : N) : bool :=
  ((9 <=? c) && (c <=? 13)) || (c =? 32) || (c =? 133) || (c =? 160) || (c =? 5760) ||
  ((8192 <=? c) && (c <=? 8202)) || (c =? 8232) || (c =? 8233) || (c =? 8239) ||
  (c =? 8287) || (c =? 12288).

(* `str::trim_start`, `str::trim` *)
Fixpoint rd_trim_start (s : str) : str :=
  match s with
  | [] => []
  | c :: r => if rd_is_ws c then rd_trim_start r else s
  end.
Definition rd_trim_end (s : str) : str := rev (rd_trim_start (rev s)).
Definition rd_trim (s : str) : str := rd_trim_end (rd_trim_start s).

(* ---- checked operations on `Vec<char>` / `usize` ---- *)
Definition rd_slice_to (s : str) (n : nat) : res str :=      (* chrs[0..n] *)
  if (n <=? List.length s)%nat then Ok (firstn n s) else Panic.
Definition rd_index (s : str) (i : nat) : res N :=            (* chrs[i] *)
  match nth_error s i with
  | Some c => Ok c
  | None => Panic
  end.
Definition rd_usub (a b : nat) : res nat :=                   (* a - b on usize *)
  if (b <=? a)%nat then Ok (a - b)%nat else Panic.

(* ---- strip_comments_at ----
   the `for (i, ch) in chrs.iter().enumerate()` loop; the result is `Some index` when it
   left through a `break` (has_comment), and the two depths as the loop leaves them *)
Fixpoint sc_loop (rest : str) (i : nat) (rd sd : Z) (inq : bool) (prev : N)
  : res (option nat * Z * Z) :=
  match rest with
  | [] => Ok (None, rd, sd)
  | ch :: rest' =>
      if ch =? ch_lparen then sc_loop rest' (S i) (rd + 1)%Z sd inq ch
      else if ch =? ch_lbrack then sc_loop rest' (S i) rd (sd + 1)%Z inq ch
      else if ch =? ch_rparen then sc_loop rest' (S i) (rd - 1)%Z sd inq ch
      else if ch =? ch_rbrack then sc_loop rest' (S i) rd (sd - 1)%Z inq ch
      else if ch =? ch_quote then sc_loop rest' (S i) rd sd (negb inq) ch
      else if (rd =? 0)%Z && (sd =? 0)%Z && negb inq then
        if (ch =? ch_hash) || (ch =? ch_percent) then Ok (Some i, rd, sd)
        else if (ch =? ch_slash) && (prev =? ch_slash) then
          do j <- rd_usub i 1; Ok (Some j, rd, sd)
        else sc_loop rest' (S i) rd sd inq ch
      else sc_loop rest' (S i) rd sd inq ch
  end.

(* returns the stripped line and the new values of *round_depth, *square_depth *)
Definition strip_comments_at (line : str) (rd sd : Z) : res (str * Z * Z) :=
  do r <- sc_loop line 0 rd sd false ch_x;
  let '(idx, rd', sd') := r in
  match idx with
  | Some index => do s <- rd_slice_to line index; Ok (rd_trim s, rd', sd')
  | None => Ok (rd_trim line, rd', sd')
  end.

Definition strip_comments (line : str) : res str :=
  do r <- strip_comments_at line 0 0; Ok (fst (fst r)).

(* ---- check_last_char ---- *)
Definition check_last_char (line : str) (num : N) : res (option str) :=
  let length := List.length line in
  if (0 <? length)%nat then
    do k <- rd_usub length 1;
    do last <- rd_index line k;
    if negb (last =? ch_dash) && negb (last =? ch_comma) && negb (last =? ch_period) &&
       negb (last =? ch_equals) && negb (last =? ch_semicolon)
    then Ok (Some (s2l "Check end of line " ++ show_N num ++ s2l ": " ++ line))
    else Ok None
  else Ok None.

(* ---- trim_error_line ---- *)
Fixpoint tel_loop (rest : str) (index : nat) : nat :=
  match rest with
  | [] => index
  | ch :: rest' =>
      if ch =? ch_period then S index
      else if (index =? 100)%nat then index
      else tel_loop rest' (S index)
  end.
Definition trim_error_line (chrs : str) : res str := rd_slice_to chrs (tel_loop chrs 0).

(* ---- unmatched_bracket ---- *)
Definition unmatched_bracket (error_line : str) (rd sd : Z) : res (option str) :=
  if (rd =? 0)%Z && (sd =? 0)%Z then Ok None
  else
    let msg :=
      if (0 <? rd)%Z then s2l "Unmatched parenthesis: ("
      else if (rd <? 0)%Z then s2l "Unmatched parenthesis: )"
      else if (0 <? sd)%Z then s2l "Unmatched bracket: ["
      else if (sd <? 0)%Z then s2l "Unmatched bracket: ]"
      else [] in
    let chrs := rd_trim_start error_line in
    do msg2 <- (if (List.length chrs =? 0)%nat then Ok (s2l "Check start of file.")
                else do s <- trim_error_line chrs; Ok (s2l "Check: " ++ s));
    Ok (Some (msg ++ [10] ++ msg2)).

(* ---- is_decimal_point ---- *)
Definition is_decimal_point (chrs : str) (index : nat) : res bool :=
  if (index =? 0)%nat || (List.length chrs <=? index + 1)%nat then Ok false
  else
    do k <- rd_usub index 1;
    do before <- rd_index chrs k;
    do after <- rd_index chrs (index + 1);
    Ok (rd_is_digit before && rd_is_digit after).

(* ---- separate_rules ----
   the `for (i, ch) in chrs.iter().enumerate()` loop; `num_quotes % 2 == 0` is `N.even` *)
Fixpoint sr_loop (chrs rest : str) (i : nat) (rule_str : str) (rules : list str)
         (rd sd : Z) (nq : N) : res (list str * str * Z * Z) :=
  match rest with
  | [] => Ok (rules, rule_str, rd, sd)
  | ch :: rest' =>
      let rule_str := rule_str ++ [ch] in
      do ends <- (if (ch =? ch_period) && (rd =? 0)%Z && (sd =? 0)%Z && N.even nq
                  then do d <- is_decimal_point chrs i; Ok (negb d)
                  else Ok false);
      if ends then sr_loop chrs rest' (S i) [] (rules ++ [rule_str]) rd sd nq
      else if ch =? ch_lparen then sr_loop chrs rest' (S i) rule_str rules (rd + 1)%Z sd nq
      else if ch =? ch_lbrack then sr_loop chrs rest' (S i) rule_str rules rd (sd + 1)%Z nq
      else if ch =? ch_rparen then sr_loop chrs rest' (S i) rule_str rules (rd - 1)%Z sd nq
      else if ch =? ch_rbrack then sr_loop chrs rest' (S i) rule_str rules rd (sd - 1)%Z nq
      else if ch =? ch_quote then sr_loop chrs rest' (S i) rule_str rules rd sd (nq + 1)
      else sr_loop chrs rest' (S i) rule_str rules rd sd nq
  end.

Definition separate_rules (text : str) : res (rresult (list str)) :=
  do r <- sr_loop text text 0 [] [] 0%Z 0%Z 0;
  let '(rules, rule_str, rd, sd) := r in
  do u <- unmatched_bracket rule_str rd sd;
  match u with
  | Some msg => Ok (RErr msg)
  | None =>
      let rest := rd_trim rule_str in
      if (0 <? List.length rest)%nat then
        do s <- trim_error_line rest;
        Ok (RErr (s2l "Missing period after: " ++ s))
      else Ok (ROk rules)
  end.

(* ---- read_facts_and_rules ----
   the `for line in lines` loop: result is the long line, or the error of check_last_char *)
Fixpoint rf_loop (lines : list str) (line_number : N) (long_line : str) (rd sd : Z)
  : res (rresult str) :=
  match lines with
  | [] => Ok (ROk long_line)
  | line0 :: rest =>
      do r <- strip_comments_at line0 rd sd;
      let '(line, rd', sd') := r in
      if (0 <? List.length line)%nat then
        do c <- check_last_char line line_number;
        match c with
        | Some msg => Ok (RErr msg)
        | None =>
            let long_line :=
              (if (0 <? List.length long_line)%nat then long_line ++ [ch_space] else long_line)
              ++ line in
            rf_loop rest (line_number + 1) long_line rd' sd'
        end
      else rf_loop rest (line_number + 1) long_line rd' sd'
  end.

Definition read_facts_and_rules (lines : list str) : res (rresult (list str)) :=
  do r <- rf_loop lines 1 [] 0%Z 0%Z;
  match r with
  | RErr msg => Ok (RErr msg)
  | ROk long_line =>
      do s <- separate_rules long_line;
      match s with
      | ROk rules => Ok (ROk (map rd_trim rules))
      | RErr msg => Ok (RErr msg)
      end
  end.

(* ---- load_kb_from_file ----
   `parse_rule` (src/rule.rs) is modelled elsewhere; here it is a parameter.  The result is
   the knowledge base as the call leaves it and `true` for `None` (no error) / `false` for
   `Some(message)`; after an error the rules parsed before it stay in the knowledge base. *)
Section Load.
  Variable parse_rule : str -> res (presult rule).

  Fixpoint lk_loop (rules : list str) (kb : kbase) : res (kbase * bool) :=
    match rules with
    | [] => Ok (kb, true)
    | rule_str :: rest =>
        do p <- parse_rule rule_str;
        match p with
        | POk rule => do kb' <- add_rules kb [rule]; lk_loop rest kb'
        | PErr => Ok (kb, false)
        end
    end.

  Definition load_kb_from_file (kb : kbase) (lines : list str) : res (kbase * bool) :=
    do r <- read_facts_and_rules lines;
    match r with
    | RErr _ => Ok (kb, false)
    | ROk rules => lk_loop rules kb
    end.
End Load.
