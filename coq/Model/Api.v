(* parse_query as the user calls it, with its effect on the process-wide state: s_complex.rs
   parse_query -> make_query, which resets LOGIC_VAR_ID and calls start_query() (clears the stop
   flag).  Model/ParseTerm.parse_query drops that effect; here it is kept. *)
From Suiron Require Import Model.Term Model.Subst Model.Rename Model.PResult Model.ParseTerm Model.ParseGoal Model.Tokenizer Model.ParseRule Model.Solve.
Open Scope N_scope.

(* parse_rule as the user calls it: the real leaf parsers plugged in, with fuel that always suffices
   (Properties/C18.v: C18_parse_rule) *)
Definition api_parse_rule (s : str) : res (presult rule) :=
  parse_rule (parse_subgoal (length s + 2)) (parse_complex (length s + 2)) (2 * length s + 3) s.

Definition api_parse_query (fuel : nat) (to_parse : str) (w : world) : res (presult (goal * world)) :=
  let parse2 :=
    match to_parse with
    | [] => to_parse
    | _ => if List.last to_parse 0 =? c_period then removelast to_parse else to_parse
    end in
  dop q <- parse_complex fuel parse2;
  match q with
  | TComplex terms => do r <- api_make_query terms w; pok r
  | _ => Panic
  end.

(* the goal is parse_query's; the world is reset as by make_query *)
Lemma api_parse_query_spec fuel s w g w' :
  api_parse_query fuel s w = Ok (POk (g, w')) ->
  parse_query fuel s = Ok (POk g) /\ stop_flag w' = false /\ out w' = out w /\ stop_after w' = stop_after w.
Proof.
  unfold api_parse_query, parse_query. intros H.
  destruct (parse_complex fuel _) as [[q|]| |]; cbn [pbind] in *; try discriminate.
  destruct q; try discriminate.
  unfold api_make_query in H. destruct (make_query ts) as [[g0 ctr]| |]; cbn [bind] in *; try discriminate.
  unfold pok in *. injection H as <- <-. cbn. auto.
Qed.

(* a query built from text forgets the process state exactly as make_query does (C22) *)
Lemma parse_query_forgets fuel s w :
  api_parse_query fuel s w =
  match api_parse_query fuel s world0 with
  | Ok (POk (g, w0)) => Ok (POk (g, mkWorld (next_id w0) false (stop_after w) (out w)))
  | Ok PErr => Ok PErr
  | Panic => Panic
  | OutOfFuel => OutOfFuel
  end.
Proof.
  unfold api_parse_query.
  destruct (parse_complex fuel _) as [[q|]| |]; cbn [pbind]; try reflexivity.
  destruct q; try reflexivity.
  unfold api_make_query. destruct (make_query ts) as [[g0 ctr]| |]; cbn [bind]; reflexivity.
Qed.

(* ---- small accessors of the public API ---- *)

(* goal.rs Goal::get_ground_term(index, ss): ONE binding step from the index-th term of a complex goal
   (get_binding: panics on a term that is not a variable; terms[index]: panics out of range);
   None for every other kind of goal *)
Definition goal_get_ground_term (g : goal) (index : nat) (ss : subst) : res (option term) :=
  match g with
  | GCall (TComplex terms) =>
      match nth_error terms index with
      | Some t => get_binding t ss
      | None => Panic
      end
  | _ => Ok None
  end.

(* operator.rs Operator::len and Operator::get_subgoal (goals[index]: panics out of range) *)
Definition op_len (g : goal) : option N :=
  match g with GOp _ gs => Some (N.of_nat (length gs)) | _ => None end.
Definition op_get_subgoal (g : goal) (index : nat) : res (option goal) :=
  match g with
  | GOp _ gs => match nth_error gs index with Some x => Ok (Some x) | None => Panic end
  | _ => Ok None
  end.
