(* recreate_variables for terms, goals, operators, built-in predicates and rules; the
   knowledge base (knowledge_base.rs) with get_rule / count_rules / add_rules; make_query. *)
From Suiron Require Export Model.Builtins.
Open Scope N_scope.

(* VarMap: HashMap<String, usize>; only get / insert are used *)
Definition varmap := list (str * N).

Fixpoint vm_get (vm : varmap) (name : str) : option N :=
  match vm with
  | [] => None
  | (k, v) :: r => if str_eqb k name then Some v else vm_get r name
  end.

(* state threaded through a renaming: the map and the global LOGIC_VAR_ID *)
Definition rstate := (varmap * N)%type.

Fixpoint rename_term (t : term) (st : rstate) : term * rstate :=
  match t with
  | TVar _ name =>
      let '(vm, ctr) := st in
      match vm_get vm name with
      | Some id => (TVar id name, st)
      | None => let id := ctr + 1 in (TVar id name, ((name, id) :: vm, id))
      end
  | TComplex ts =>
      let '(ts', st') :=
        (fix go (l : list term) (st : rstate) : list term * rstate :=
           match l with
           | [] => ([], st)
           | x :: l' =>
               let '(x', st1) := rename_term x st in
               let '(r, st2) := go l' st1 in (x' :: r, st2)
           end) ts st in
      (TComplex ts', st')
  | TList a n c tv =>
      let '(a', st1) := rename_term a st in
      let '(n', st2) := rename_term n st1 in
      (TList a' n' c tv, st2)
  | TFun name args =>
      let '(args', st') :=
        (fix go (l : list term) (st : rstate) : list term * rstate :=
           match l with
           | [] => ([], st)
           | x :: l' =>
               let '(x', st1) := rename_term x st in
               let '(r, st2) := go l' st1 in (x' :: r, st2)
           end) args st in
      (TFun name args', st')
  | _ => (t, st)
  end.

Fixpoint rename_terms (l : list term) (st : rstate) : list term * rstate :=
  match l with
  | [] => ([], st)
  | x :: l' =>
      let '(x', st1) := rename_term x st in
      let '(r, st2) := rename_terms l' st1 in (x' :: r, st2)
  end.

(* Goal::recreate_variables: panics on Goal::Nil and on a ComplexGoal that is not SComplex *)
Fixpoint rename_goal (g : goal) (st : rstate) : res (goal * rstate) :=
  match g with
  | GOp k gs =>
      do r <- (fix go (l : list goal) (st : rstate) : res (list goal * rstate) :=
                 match l with
                 | [] => Ok ([], st)
                 | x :: l' =>
                     do a <- rename_goal x st;
                     let '(x', st1) := a in
                     do b <- go l' st1;
                     let '(r, st2) := b in Ok (x' :: r, st2)
                 end) gs st;
      let '(gs', st') := r in Ok (GOp k gs', st')
  | GCall u =>
      match u with
      | TComplex _ => let '(u', st') := rename_term u st in Ok (GCall u', st')
      | _ => Panic
      end
  | GBip f (Some ts) => let '(ts', st') := rename_terms ts st in Ok (GBip f (Some ts'), st')
  | GBip f None => Ok (GBip f None, st)
  | GNil => Panic
  end.

(* Rule::recreate_variables *)
Definition rename_rule (r : rule) (st : rstate) : res (rule * rstate) :=
  let '(h, st1) := rename_term (r_head r) st in
  match r_body r with
  | GOp k gs => do b <- rename_goal (GOp k gs) st1; let '(g, st2) := b in Ok (mkRule h g, st2)
  | GCall c => let '(c', st2) := rename_term c st1 in Ok (mkRule h (GCall c'), st2)
  | GBip f ts => do b <- rename_goal (GBip f ts) st1; let '(g, st2) := b in Ok (mkRule h g, st2)
  | GNil => Ok (mkRule h GNil, st1)
  end.

(* ---- knowledge base: HashMap<String, Vec<Rule>>; an association list ---- *)
Definition kbase := list (str * list rule).

Fixpoint kb_get (kb : kbase) (key : str) : option (list rule) :=
  match kb with
  | [] => None
  | (k, rs) :: r => if str_eqb k key then Some rs else kb_get r key
  end.

Fixpoint kb_push (kb : kbase) (key : str) (r : rule) : kbase :=
  match kb with
  | [] => [(key, [r])]
  | (k, rs) :: rest => if str_eqb k key then (k, rs ++ [r]) :: rest else (k, rs) :: kb_push rest key r
  end.

Fixpoint add_rules (kb : kbase) (rules : list rule) : res kbase :=
  match rules with
  | [] => Ok kb
  | r :: rest => do key <- term_key (r_head r); add_rules (kb_push kb key r) rest
  end.

(* get_rule(kb, predicate_name, index): clone and rename with a fresh VarMap; returns the
   new value of LOGIC_VAR_ID *)
Definition get_rule (kb : kbase) (pred : str) (index : N) (ctr : N) : res (rule * N) :=
  match kb_get kb pred with
  | None => Panic
  | Some rules =>
      match nth_error rules (N.to_nat index) with
      | None => Panic
      | Some r => do x <- rename_rule r ([], ctr); let '(r', (_, ctr')) := x in Ok (r', ctr')
      end
  end.

(* make_complex + make_query: resets the id counter (and the stop flag), renames the terms *)
Definition make_query (terms : list term) : res (goal * N) :=
  let '(ts, (_, ctr)) := rename_terms terms ([], 0) in
  match ts with
  | TAtom _ :: _ => Ok (GCall (TComplex ts), ctr)
  | _ => Panic
  end.
