(* IEEE-754 binary64 as formalised by Flocq: the model of Rust's f64. *)
From Coq Require Import ZArith List String.
From Flocq Require Import IEEE754.BinarySingleNaN IEEE754.Binary IEEE754.Bits Core.Zaux.
From Suiron Require Import Model.Str.
Import ListNotations.
Open Scope Z_scope.

Definition f64 := binary64.

Definition f64_of_bits (z : Z) : f64 := b64_of_bits z.
Definition f64_to_bits (f : f64) : Z := bits_of_b64 f.

Definition fadd (a b : f64) : f64 := b64_plus mode_NE a b.
Definition fsub (a b : f64) : f64 := b64_minus mode_NE a b.
Definition fmul (a b : f64) : f64 := b64_mult mode_NE a b.
Definition fdiv (a b : f64) : f64 := b64_div mode_NE a b.

(* Rust `i as f64`: round to nearest, ties to even. *)
Definition f64_of_Z (z : Z) : f64 :=
  Binary.binary_normalize 53 1024 eq_refl eq_refl mode_NE z 0 false.

Definition f64_zero : f64 := B754_zero 53 1024 false.
Definition f64_one : f64 := f64_of_Z 1.

Definition fcmp (a b : f64) : option comparison := Binary.Bcompare 53 1024 a b.

(* Rust `==`, `<`, `<=`, `>`, `>=` on f64: all false when either side is NaN. *)
Definition feqb (a b : f64) : bool := match fcmp a b with Some Eq => true | _ => false end.
Definition fltb (a b : f64) : bool := match fcmp a b with Some Lt => true | _ => false end.
Definition fleb (a b : f64) : bool :=
  match fcmp a b with Some Lt | Some Eq => true | _ => false end.
Definition fgtb (a b : f64) : bool := match fcmp a b with Some Gt => true | _ => false end.
Definition fgeb (a b : f64) : bool :=
  match fcmp a b with Some Gt | Some Eq => true | _ => false end.

Definition f64_is_nan (a : f64) : bool := Binary.is_nan 53 1024 a.

(* Bit pattern with every NaN mapped to one canonical pattern: NaN sign and payload are
   not observable through the engine's API, so observations are compared modulo them. *)
Definition f64_canon_bits (a : f64) : Z :=
  if f64_is_nan a then 0x7ff8000000000000 else f64_to_bits a.

(* ---- Display.  Rust prints the shortest decimal that round-trips; for a float whose
   exact decimal expansion has at most 15 significant digits that *is* the exact
   expansion.  The model prints the exact expansion; see DESIGN.md §8 for the domain on
   which this is compared with the implementation. ---- *)

Fixpoint pad_zeros (n : nat) (s : str) : str :=
  match n with O => s | S n' => 48%N :: pad_zeros n' s end.

Fixpoint strip_trailing_zeros_rev (r : str) : str :=
  match r with
  | 48%N :: r' => strip_trailing_zeros_rev r'
  | _ => r
  end.

Definition strip_trailing_zeros (s : str) : str := rev (strip_trailing_zeros_rev (rev s)).

Definition show_f64_abs (m : positive) (e : Z) : str :=
  if 0 <=? e then show_Z (Zpos m * 2 ^ e)
  else
    let k := Z.to_nat (- e) in
    let d := 2 ^ (- e) in
    let ip := Zpos m / d in
    let fp := Zpos m mod d in
    let digs := show_Z (fp * 5 ^ (- e)) in
    let frac := strip_trailing_zeros (pad_zeros (k - length digs) digs) in
    match frac with
    | [] => show_Z ip
    | _ => show_Z ip ++ 46%N :: frac
    end.

Definition show_f64 (f : f64) : str :=
  match f with
  | B754_zero _ _ s => if s then s2l "-0"%string else s2l "0"%string
  | B754_infinity _ _ s => if s then s2l "-inf"%string else s2l "inf"%string
  | B754_nan _ _ _ _ _ => s2l "NaN"%string
  | B754_finite _ _ s m e _ => (if s then [45%N] else []) ++ show_f64_abs m e
  end.
