(* IEEE-754 binary64 as formalised by Flocq: the model of Rust's f64. *)
From Coq Require Import ZArith List String.
From Flocq Require Import IEEE754.BinarySingleNaN IEEE754.Binary IEEE754.Bits Core.Zaux.
From Suiron Require Import Model.Str.
Import ListNotations.
Open Scope Z_scope.

Definition f64 := binary64.

Definition f64_of_bits (z : Z) : f64 := b64_of_bits z.
Definition f64_to_bits (f : f64) : Z := bits_of_b64 f.

Definition fadd (a b : f64) : f64 := b64_plus mode_NE a b.
Definition fsub (a b : f64) : f64 := b64_minus mode_NE a b.
Definition fmul (a b : f64) : f64 := b64_mult mode_NE a b.
Definition fdiv (a b : f64) : f64 := b64_div mode_NE a b.

(* Rust `i as f64`: round to nearest, ties to even. *)
Definition f64_of_Z (z : Z) : f64 :=
  Binary.binary_normalize 53 1024 eq_refl eq_refl mode_NE z 0 false.

Definition f64_zero : f64 := B754_zero 53 1024 false.
Definition f64_one : f64 := f64_of_Z 1.

Definition fcmp (a b : f64) : option comparison := Binary.Bcompare 53 1024 a b.

(* Rust `==`, `<`, `<=`, `>`, `>=` on f64: all false when either side is NaN. *)
Definition feqb (a b : f64) : bool := match fcmp a b with Some Eq => true | _ => false end.
Definition fltb (a b : f64) : bool := match fcmp a b with Some Lt => true | _ => false end.
Definition fleb (a b : f64) : bool :=
  match fcmp a b with Some Lt | Some Eq => true | _ => false end.
Definition fgtb (a b : f64) : bool := match fcmp a b with Some Gt => true | _ => false end.
Definition fgeb (a b : f64) : bool :=
  match fcmp a b with Some Gt | Some Eq => true | _ => false end.

Definition f64_is_nan (a : f64) : bool := Binary.is_nan 53 1024 a.

(* Bit pattern with every NaN mapped to one canonical pattern: NaN sign and payload are
   not observable through the engine's API, so observations are compared modulo them. *)
Definition f64_canon_bits (a : f64) : Z :=
  if f64_is_nan a then 0x7ff8000000000000 else f64_to_bits a.

(* ---- decimal to binary64 (Rust's str::parse::<f64>, correctly rounded) ---- *)
Definition f64_inf (neg : bool) : f64 := B754_infinity 53 1024 neg.
Definition f64_nan : f64 := f64_of_bits 0x7ff8000000000000.
Definition f64_zero_s (neg : bool) : f64 := B754_zero 53 1024 neg.

(* M * 10^e rounded to nearest-even.  For e < 0 let D = 10^-e, s = log2 D + 66,
   q = floor(M*2^s / D) (>= 2^65 since M >= 1) and m = 2q + [remainder <> 0].  The exact
   quotient x and y = m * 2^-(s+1) lie in the same interval [q, q+1) * 2^-s, both equal to
   its left end or both strictly inside; every binary64 value and every midpoint of two
   neighbouring ones is a multiple of 2^-s * 2^12 at least, so x and y round alike. *)
Definition f64_of_decimal (neg : bool) (m e : Z) (nd : nat) : f64 :=
  if (m =? 0)%Z then f64_zero_s neg
  else
    let sm := if neg then (- m)%Z else m in
    if (0 <=? e)%Z then
      if (400 <? e)%Z then f64_inf neg
      else Binary.binary_normalize 53 1024 eq_refl eq_refl mode_NE (sm * 10 ^ e)%Z 0 false
    else
      if (400 + Z.of_nat nd <? - e)%Z then f64_zero_s neg
      else
        let d := (10 ^ (- e))%Z in
        let s := (Z.log2 d + 66)%Z in
        let q := (m * 2 ^ s / d)%Z in
        let r := ((m * 2 ^ s) mod d)%Z in
        let mm := (2 * q + (if (r =? 0)%Z then 0 else 1))%Z in
        Binary.binary_normalize 53 1024 eq_refl eq_refl mode_NE
          (if neg then - mm else mm)%Z (- (s + 1))%Z false.


(* ---- Display.  Rust prints the SHORTEST decimal that reads back as the same float, and among the
   shortest ones the closest to the exact value, without exponent.  The exact value of a finite
   float is I * 10^q for an integer I (I = m * 2^e, q = 0 when e >= 0; I = m * 5^-e, q = e
   otherwise).  For n = 1, 2, ... the two n-digit neighbours of I (floor and ceiling of
   I / 10^(L-n), L the number of digits of I) are tried with f64_of_decimal; the first n for which
   one of them reads back gives the text.  n = L always succeeds (I itself), so the search is
   bounded by L (at most 17 in practice). ---- *)

Fixpoint pad_zeros (n : nat) (s : str) : str :=
  match n with O => s | S n' => 48%N :: pad_zeros n' s end.

Fixpoint strip_trailing_zeros_rev (r : str) : str :=
  match r with
  | 48%N :: r' => strip_trailing_zeros_rev r'
  | _ => r
  end.

Definition strip_trailing_zeros (s : str) : str := rev (strip_trailing_zeros_rev (rev s)).

(* the text of I * 10^q, without exponent *)
Definition show_decimal (i q : Z) : str :=
  if 0 <=? q then show_Z (i * 10 ^ q)
  else
    let d := 10 ^ (- q) in
    let ip := i / d in
    let fp := i mod d in
    let digs := show_Z fp in
    let frac := strip_trailing_zeros (pad_zeros (Z.to_nat (- q) - length digs) digs) in
    match frac with
    | [] => show_Z ip
    | _ => show_Z ip ++ 46%N :: frac
    end.

Definition same_bits (a b : f64) : bool := f64_to_bits a =? f64_to_bits b.

Fixpoint shortest_from (fuel : nat) (x : f64) (i q : Z) (len n : nat) : str :=
  match fuel with
  | O => show_decimal i q
  | S fuel' =>
      if (len <=? n)%nat then show_decimal i q
      else
        let k := Z.of_nat (len - n) in
        let p := 10 ^ k in
        let lo := i / p in
        let r := i mod p in
        let hi := lo + 1 in
        let ok_lo := same_bits (f64_of_decimal false lo (q + k) len) x in
        let ok_hi := same_bits (f64_of_decimal false hi (q + k) len) x in
        if ok_lo && ok_hi then
          (* both read back: the closer one; exactly half-way: the upper one (as Rust's flt2dec does) *)
          if 2 * r <? p then show_decimal lo (q + k) else show_decimal hi (q + k)
        else if ok_lo then show_decimal lo (q + k)
        else if ok_hi then show_decimal hi (q + k)
        else shortest_from fuel' x i q len (S n)
  end.

Definition show_f64_abs (m : positive) (e : Z) : str :=
  let x : f64 := Binary.binary_normalize 53 1024 eq_refl eq_refl mode_NE (Zpos m) e false in
  let '(i, q) := if 0 <=? e then (Zpos m * 2 ^ e, 0) else (Zpos m * 5 ^ (- e), e) in
  let len := length (show_Z i) in
  shortest_from len x i q len 1.

Definition show_f64 (f : f64) : str :=
  match f with
  | B754_zero _ _ s => if s then s2l "-0"%string else s2l "0"%string
  | B754_infinity _ _ s => if s then s2l "-inf"%string else s2l "inf"%string
  | B754_nan _ _ _ _ _ => s2l "NaN"%string
  | B754_finite _ _ s m e _ => (if s then [45%N] else []) ++ show_f64_abs m e
  end.
