(* built_in_comparison.rs *)
From Suiron Require Export Model.Subst.
Open Scope Z_scope.

Inductive cmpop := CEq | CLt | CLe | CGt | CGe.

Definition cmp_holds (op : cmpop) (c : comparison) : bool :=
  match op, c with
  | CEq, Eq => true
  | CLt, Lt => true
  | CLe, (Lt | Eq) => true
  | CGt, Gt => true
  | CGe, (Gt | Eq) => true
  | _, _ => false
  end.

Definition fcmp_holds (op : cmpop) (a b : f64) : bool :=
  match op with
  | CEq => feqb a b
  | CLt => fltb a b
  | CLe => fleb a b
  | CGt => fgtb a b
  | CGe => fgeb a b
  end.

(* the `match two_terms { ... }` of the five predicates *)
Definition compare_constants (op : cmpop) (l r : term) : bool :=
  match l, r with
  | TAtom s1, TAtom s2 => cmp_holds op (str_cmp s1 s2)
  | TInt i1, TInt i2 => cmp_holds op (Z.compare i1 i2)
  | TFloat f1, TFloat f2 => fcmp_holds op f1 f2
  | TFloat f1, TInt i => fcmp_holds op f1 (f64_of_Z i)
  | TInt i, TFloat f2 => fcmp_holds op (f64_of_Z i) f2
  | _, _ => false
  end.

(* get_two_constants: indexes terms[0] and terms[1] *)
Definition get_two_constants (fuel : nat) (terms : list term) (ss : subst)
  : res (option (term * term)) :=
  match terms with
  | [] => Panic
  | t0 :: rest =>
      do l <- get_constant fuel t0 ss;
      match l with
      | None => Ok None
      | Some l' =>
          match rest with
          | [] => Panic
          | t1 :: _ =>
              do r <- get_constant fuel t1 ss;
              Ok (match r with Some r' => Some (l', r') | None => None end)
          end
      end
  end.

Definition bip_compare (fuel : nat) (op : cmpop) (terms : option (list term)) (ss : subst)
  : res (option subst) :=
  match terms with
  | None => Ok None
  | Some ts =>
      do two <- get_two_constants fuel ts ss;
      Ok (match two with
          | Some (l, r) => if compare_constants op l r then Some ss else None
          | None => None
          end)
  end.
