(* replace_variables (unifiable.rs), filter (s_linked_list.rs), built_in_append/count/
   filter/functor/print/print_list.rs and the dispatch of next_solution_bip
   (built_in_predicates.rs). *)
From Coq Require Import String.
From Suiron Require Export Model.Unify Model.Compare.
Open Scope N_scope.

(* ---- replace_variables: panics on a function term ---- *)
Fixpoint replace_variables (fuel : nat) (t : term) (ss : subst) : res term :=
  match fuel with
  | O => OutOfFuel
  | S f =>
      match t with
      | TNil | TAnon | TAtom _ | TFloat _ | TInt _ => Ok t
      | TVar id _ =>
          match ss_get ss id with
          | Some u => replace_variables f u ss
          | None => Ok t
          end
      | TComplex ts =>
          do l <- (fix go (l : list term) : res (list term) :=
                     match l with
                     | [] => Ok []
                     | x :: l' => do x' <- replace_variables f x ss; do r <- go l'; Ok (x' :: r)
                     end) ts;
          Ok (TComplex l)
      | TList a n c tv =>
          do a' <- replace_variables f a ss;
          do n' <- replace_variables f n ss;
          Ok (TList a' n' c tv)
      | TFun _ _ => Panic
      end
  end.

(* ---- filter ---- *)
Fixpoint filter_terms (fuel : nat) (pat : term) (include : bool) (l : list term) (ss : subst)
  : res (list term) :=
  match l with
  | [] => Ok []
  | x :: r =>
      do u <- unify fuel pat x ss;
      do rest <- filter_terms fuel pat include r ss;
      let pass := match u with Some _ => true | None => false end in
      Ok (if Bool.eqb pass include then x :: rest else rest)
  end.

Definition filter (fuel : nat) (pat uni : term) (ss : subst) (include : bool)
  : res (option term) :=
  do g <- get_ground_term fuel uni ss;
  match g with
  | Some (TList t n _ _) =>
      do elems <- walk fuel false t n ss;
      do kept <- filter_terms fuel pat include elems ss;
      Ok (Some (make_list_of_terms kept))
  | _ => Ok None
  end.

Definition bip_filter (fuel : nat) (include : bool) (terms : option (list term)) (ss : subst)
  : res (option subst) :=
  match terms with
  | Some [pat; lst; out] =>
      do fl <- filter fuel pat lst ss include;
      match fl with
      | Some l => unify fuel out l ss
      | None => Ok None
      end
  | _ => Panic
  end.

(* ---- append ---- *)
Fixpoint append_collect (fuel : nat) (inputs : list term) (ss : subst) : res (list term) :=
  match inputs with
  | [] => Ok []
  | t0 :: rest =>
      do t <- match t0 with
              | TVar _ _ =>
                  do g <- get_ground_term fuel t0 ss;
                  Ok (match g with Some n => n | None => t0 end)
              | _ => Ok t0
              end;
      do here <- match t with
                 | TList _ _ _ _ => get_terms fuel t ss
                 | TVar _ _ => Ok []
                 | _ => Ok [t]
                 end;
      do more <- append_collect fuel rest ss;
      Ok (here ++ more)
  end.

Definition bip_append (fuel : nat) (terms : option (list term)) (ss : subst)
  : res (option subst) :=
  match terms with
  | None => Ok None
  | Some ts =>
      if (length ts <? 2)%nat then Ok None
      else
        let inputs := removelast ts in
        let last_term := last ts TNil in
        do out_terms <- append_collect fuel inputs ss;
        unify fuel last_term (make_list_of_terms out_terms) ss
  end.

(* ---- count ---- *)
Definition bip_count (fuel : nat) (terms : option (list term)) (ss : subst)
  : res (option subst) :=
  match terms with
  | Some [l; out] => do c <- count_terms fuel l ss; unify fuel out (TInt c) ss
  | _ => Panic
  end.

(* ---- functor ---- *)
Definition atoms_match (functor : term) (match_string : str) : res bool :=
  match functor with
  | TAtom f =>
      match rev match_string with
      | [] => Panic                         (* chrs[length - 1] on an empty string *)
      | last_ch :: before_rev =>
          if last_ch =? 42 then Ok (str_prefix (rev before_rev) f)
          else Ok (str_eqb f match_string)
      end
  | _ => Ok false
  end.

Fixpoint resolve_each (fuel : nat) (ts : list term) (ss : subst) : res (list term) :=
  match ts with
  | [] => Ok []
  | t :: r =>
      do t' <- match t with
               | TVar _ _ =>
                   do g <- get_ground_term fuel t ss;
                   Ok (match g with Some n => n | None => t end)
               | _ => Ok t
               end;
      do r' <- resolve_each fuel r ss;
      Ok (t' :: r')
  end.

Definition bip_functor (fuel : nat) (terms : option (list term)) (ss : subst)
  : res (option subst) :=
  match terms with
  | None => Ok None
  | Some ts =>
      let len := length ts in
      if (len <? 2)%nat || (3 <? len)%nat then Ok None
      else
        do out_terms <- resolve_each fuel ts ss;
        match out_terms with
        | TComplex c_terms :: o1 :: rest =>
            match c_terms with
            | [] => Panic                   (* c_terms.len() - 1 underflows *)
            | functor :: cargs =>
                let arity := Z.of_nat (length cargs) in
                match rest with
                | [] =>
                    match o1 with
                    | TAtom ms => do m <- atoms_match functor ms; Ok (if m then Some ss else None)
                    | TVar _ _ => unify fuel o1 functor ss
                    | _ => Ok None
                    end
                | o2 :: _ =>
                    do ss1 <- match o1 with
                              | TAtom ms =>
                                  do m <- atoms_match functor ms; Ok (if m then Some ss else None)
                              | TVar _ _ => unify fuel o1 functor ss
                              | _ => Ok None
                              end;
                    match ss1 with
                    | Some s => unify fuel o2 (TInt arity) s
                    | None => Ok None
                    end
                end
            end
        | _ => Ok None
        end
  end.

(* ---- print ---- *)
Fixpoint split_pct_s (acc : str) (s : str) : list str :=
  match s with
  | 37 :: 115 :: r => rev acc :: split_pct_s [] r
  | c :: r => split_pct_s (c :: acc) r
  | [] => [rev acc]
  end.

Fixpoint interleave (args pieces : list str) : str :=
  match args, pieces with
  | a :: ar, p :: pr => a ++ p ++ interleave ar pr
  | a :: ar, [] => a ++ interleave ar []
  | [], p :: pr => p ++ (fix rest (l : list str) : str :=
                           match l with [] => [] | x :: l' => x ++ rest l' end) pr
  | [], [] => []
  end.

Definition format_for_print_pred (the_strings : list str) : res str :=
  match the_strings with
  | [] => Panic
  | fmt :: args =>
      match split_pct_s [] fmt with
      | [] => Panic   (* cannot happen: split always yields a piece *)
      | p0 :: pieces => Ok (p0 ++ interleave args pieces)
      end
  end.

Fixpoint show_resolved (fuel : nat) (ts : list term) (ss : subst) : res (list str) :=
  match ts with
  | [] => Ok []
  | t :: r =>
      do g <- get_ground_term fuel t ss;
      do r' <- show_resolved fuel r ss;
      Ok (show_term (match g with Some gt => gt | None => t end) :: r')
  end.

Definition bip_print (fuel : nat) (terms : option (list term)) (ss : subst) : res str :=
  match terms with
  | None => Ok []
  | Some ts => do v <- show_resolved fuel ts ss; format_for_print_pred v
  end.

(* ---- print_list ---- *)
Fixpoint fs_loop (fuel : nat) (term0 s_list : term) (ss : subst) : res str :=
  if is_nil term0 then Ok []
  else
    match fuel with
    | O => OutOfFuel
    | S f =>
        match s_list with
        | TList _ next _ _ =>
            do ts <- match next with
                     | TList t1 _ _ tv =>
                         if tv && negb (is_anon t1) then
                           do ml <- get_list f t1 ss;
                           match ml with
                           | Some (TList t _ _ _ as l) => Ok (t, l)
                           | Some l => Ok (t1, l)
                           | None => Ok (t1, next)
                           end
                         else Ok (t1, next)
                     | _ => Ok (term0, next)
                     end;
            let '(term', s_list') := ts in
            if is_nil term' then Ok []
            else
              do g <- get_ground_term f term' ss;
              do rest <- fs_loop f term' s_list' ss;
              Ok (match g with
                  | Some gr => sep_comma ++ show_term gr ++ rest
                  | None => rest
                  end)
        | _ => OutOfFuel      (* the Rust loop spins without changing anything *)
        end
    end.

Definition format_slist (fuel : nat) (the_list : term) (ss : subst) : res str :=
  match the_list with
  | TList t _ _ _ =>
      do first <- (if is_nil t then Ok []
                   else do g <- get_ground_term fuel t ss;
                        Ok (match g with Some gt => show_term gt | None => [] end));
      do rest <- fs_loop fuel t the_list ss;
      Ok (first ++ rest)
  | _ => Ok []
  end.

Fixpoint print_list_terms (fuel : nat) (first : bool) (ts : list term) (ss : subst) : res str :=
  match ts with
  | [] => Ok []
  | t0 :: r =>
      do t <- match t0 with
              | TVar _ _ =>
                  do g <- get_ground_term fuel t0 ss;
                  Ok (match g with Some n => n | None => t0 end)
              | _ => Ok t0
              end;
      do here <- match t with
                 | TList _ _ _ _ =>
                     do s <- format_slist fuel t ss;
                     Ok ((if first then [] else [44; 10]) ++ s ++ [10])
                 | _ => Ok (show_term t ++ [10])
                 end;
      do more <- print_list_terms fuel false r ss;
      Ok (here ++ more)
  end.

Definition bip_print_list (fuel : nat) (terms : option (list term)) (ss : subst) : res str :=
  match terms with
  | None => Ok []
  | Some ts => print_list_terms fuel true ts ss
  end.

(* ---- next_solution_bip's dispatch: (solution, output, cut executed) ---- *)
Definition bn (s : string) : str := s2l s.
Definition n_print := Eval compute in bn "print".
Definition n_append := Eval compute in bn "append".
Definition n_functor := Eval compute in bn "functor".
Definition n_include := Eval compute in bn "include".
Definition n_exclude := Eval compute in bn "exclude".
Definition n_print_list := Eval compute in bn "print_list".
Definition n_unify := Eval compute in bn "unify".
Definition n_equal := Eval compute in bn "equal".
Definition n_less_than := Eval compute in bn "less_than".
Definition n_less_than_or_equal := Eval compute in bn "less_than_or_equal".
Definition n_greater_than := Eval compute in bn "greater_than".
Definition n_greater_than_or_equal := Eval compute in bn "greater_than_or_equal".
Definition n_nl := Eval compute in bn "nl".
Definition n_cut := Eval compute in bn "!".
Definition n_count := Eval compute in bn "count".
Definition n_fail := Eval compute in bn "fail".

Record bip_result := mkBipResult { br_sol : option subst; br_out : str; br_cut : bool }.

Definition pure_bip (r : res (option subst)) : res bip_result :=
  do s <- r; Ok (mkBipResult s [] false).

Definition run_bip (fuel : nat) (functor : str) (terms : option (list term)) (ss : subst)
  : res bip_result :=
  if str_eqb functor n_print then
    do o <- bip_print fuel terms ss; Ok (mkBipResult (Some ss) o false)
  else if str_eqb functor n_append then pure_bip (bip_append fuel terms ss)
  else if str_eqb functor n_functor then pure_bip (bip_functor fuel terms ss)
  else if str_eqb functor n_include then pure_bip (bip_filter fuel true terms ss)
  else if str_eqb functor n_exclude then pure_bip (bip_filter fuel false terms ss)
  else if str_eqb functor n_print_list then
    do o <- bip_print_list fuel terms ss; Ok (mkBipResult (Some ss) o false)
  else if str_eqb functor n_unify then
    match terms with
    | Some (l :: r :: _) => pure_bip (unify fuel l r ss)
    | Some _ => Panic
    | None => Ok (mkBipResult None [] false)
    end
  else if str_eqb functor n_equal then pure_bip (bip_compare fuel CEq terms ss)
  else if str_eqb functor n_less_than then pure_bip (bip_compare fuel CLt terms ss)
  else if str_eqb functor n_less_than_or_equal then pure_bip (bip_compare fuel CLe terms ss)
  else if str_eqb functor n_greater_than then pure_bip (bip_compare fuel CGt terms ss)
  else if str_eqb functor n_greater_than_or_equal then pure_bip (bip_compare fuel CGe terms ss)
  else if str_eqb functor n_nl then Ok (mkBipResult (Some ss) [10] false)
  else if str_eqb functor n_cut then Ok (mkBipResult (Some ss) [] true)
  else if str_eqb functor n_count then pure_bip (bip_count fuel terms ss)
  else if str_eqb functor n_fail then Ok (mkBipResult None [] false)
  else Panic.
