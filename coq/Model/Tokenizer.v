(* token.rs, parse_stack.rs, tokenizer.rs: tokens, the parse stack, `tokenize`, the three
   grouping passes, `token_tree_to_goal`, `generate_goal` - function by function.

   The leaf parser `parse_subgoal` (parse_goals.rs) is a Section variable: the tokenizer
   hands it the text of every Subgoal token and never looks inside the result.

   Conventions: a Rust `Vec<char>` is `str = list N`; `chrs[i]` is `nth_error` (None =
   Panic); `chrs[a..b]` is `slice` (Panic unless a <= b <= len); `Vec::push` is `++ [x]`;
   the parse stack is a list whose HEAD is the top of the Rust vector (its last element).
   `tokenize` and `group_tokens` are loops over an index that is not structurally
   decreasing: they take fuel.

   This is the model of the crate AFTER the repairs of round 1 (group_tokens_to returns the
   index at which a group ends; token_tree_to_goal converts an And child of an Or).  The
   model of the unrepaired code, which agreed with it on 53 916 of 53 919 cases (the other 3:
   exponential running time of nested parentheses), is kept in
   design-notes/p3-model-before-repairs/. *)
From Coq Require Import String.
From Suiron Require Export Model.Term Model.PResult.
Open Scope N_scope.

(* ---- characters ---- *)
Definition ch_quote : N := 34.     (* double quote *)
Definition ch_hash : N := 35.      (* # *)
Definition ch_lparen : N := 40.
Definition ch_rparen : N := 41.
Definition ch_comma : N := 44.
Definition ch_hyphen : N := 45.
Definition ch_period : N := 46.
Definition ch_colon : N := 58.
Definition ch_semicolon : N := 59.
Definition ch_at : N := 64.
Definition ch_lbracket : N := 91.
Definition ch_backslash : N := 92.
Definition ch_rbracket : N := 93.
Definition ch_underscore : N := 95.

(* `char::is_whitespace` = Unicode White_Space (complete list, Unicode 15) *)
Definition tk_is_whitespace (c : N) : bool :=
  ((9 <=? c) && (c <=? 13)) || (c =? 32) || (c =? 133) || (c =? 160) || (c =? 5760) ||
  ((8192 <=? c) && (c <=? 8202)) || (c =? 8232) || (c =? 8233) || (c =? 8239) ||
  (c =? 8287) || (c =? 12288).

Fixpoint tk_trim_start (s : str) : str :=
  match s with
  | c :: r => if tk_is_whitespace c then tk_trim_start r else s
  | [] => []
  end.
(* `str::trim` *)
Definition tk_trim (s : str) : str := rev (tk_trim_start (rev (tk_trim_start s))).

(* `chrs[a..b]` *)
Definition slice (chrs : str) (a b : nat) : res str :=
  if (a <=? b)%nat && (b <=? length chrs)%nat then Ok (firstn (b - a) (skipn a chrs)) else Panic.

(* ---- token.rs ---- *)
Inductive token_type :=
| TTEmpty | TTSubgoal | TTComma | TTSemicolon | TTLParen | TTRParen
| TTGroup | TTAnd | TTOr | TTComplex | TTLinkedList.

Definition tt_eqb (a b : token_type) : bool :=
  match a, b with
  | TTEmpty, TTEmpty | TTSubgoal, TTSubgoal | TTComma, TTComma | TTSemicolon, TTSemicolon
  | TTLParen, TTLParen | TTRParen, TTRParen | TTGroup, TTGroup | TTAnd, TTAnd | TTOr, TTOr
  | TTComplex, TTComplex | TTLinkedList, TTLinkedList => true
  | _, _ => false
  end.

Inductive token :=
| Leaf (token_type : token_type) (token_str : str)
| Branch (token_type : token_type) (children : list token).

Definition make_leaf_token (symbol : str) : token :=
  let s := tk_trim symbol in
  if str_eqb s [ch_comma] then Leaf TTComma s
  else if str_eqb s [ch_semicolon] then Leaf TTSemicolon s
  else if str_eqb s [ch_lparen] then Leaf TTLParen s
  else if str_eqb s [ch_rparen] then Leaf TTRParen s
  else Leaf TTSubgoal s.

Definition make_branch_token (ty : token_type) (children : list token) : res token :=
  if negb (tt_eqb ty TTAnd) && negb (tt_eqb ty TTOr) && negb (tt_eqb ty TTGroup)
  then Panic
  else Ok (Branch ty children).

Definition number_of_children (t : token) : res nat :=
  match t with
  | Branch _ children => Ok (length children)
  | Leaf _ _ => Panic
  end.

Definition get_type (t : token) : token_type :=
  match t with
  | Leaf ty _ => ty
  | Branch ty _ => ty
  end.

Definition get_token_str (t : token) : res str :=
  match t with
  | Leaf _ s => Ok s
  | Branch _ _ => Panic
  end.

Definition get_children (t : token) : res (list token) :=
  match t with
  | Leaf _ _ => Panic
  | Branch _ children => Ok children
  end.

(* ---- parse_stack.rs (head of the list = last element of the Rust vector) ---- *)
Definition parse_stack := list token_type.

Definition peek (stack : parse_stack) : token_type :=
  match stack with
  | [] => TTEmpty
  | ty :: _ => ty
  end.

Definition pop (stack : parse_stack) : token_type * parse_stack :=
  match stack with
  | [] => (TTEmpty, [])
  | ty :: rest => (ty, rest)
  end.

(* ---- tokenizer.rs ---- *)
Definition letter_number_hyphen (ch : N) : bool :=
  if (97 <=? ch) && (ch <=? 122) then true
  else if (65 <=? ch) && (ch <=? 90) then true
  else if (48 <=? ch) && (ch <=? 57) then true
  else if (ch =? ch_underscore) || (ch =? ch_hyphen) || (ch =? 173) then true
  else if (192 <=? ch) && (ch <? 704) then true
  else if (896 <=? ch) && (ch <? 1296) then true
  else false.

Definition invalid_between_terms (ch : N) : bool :=
  if ch =? ch_quote then true
  else if ch =? ch_hash then true
  else if ch =? ch_at then true
  else false.

Definition no_esc (check match_char previous : N) : bool :=
  if previous =? ch_backslash then false
  else if negb (check =? match_char) then false
  else true.

(* The inner loop of `tokenize` that skips to the closing quote:
     let mut j = i + 1; let mut prev = '#';
     while j < length { ch = chrs[j]; if no_esc(ch,QUOTE,prev) { i = j; break; } j += 1; prev = ch; }
   `rest` is chrs[j..].  Returns (Some j when the loop broke, the final value of `ch`). *)
Fixpoint quote_loop (rest : str) (j : nat) (prev ch : N) : option nat * N :=
  match rest with
  | [] => (None, ch)
  | c :: rest' =>
      if no_esc c ch_quote prev then (Some j, c)
      else quote_loop rest' (S j) c c
  end.

(* the mutable variables of the main loop of `tokenize` *)
Record tk_state := mkTk {
  tk_i : nat;
  tk_start : nat;           (* start_index *)
  tk_previous : N;
  tk_stk : parse_stack;
  tk_tokens : list token
}.

(* one iteration of `while i < length` (the test has been made; `ch = chrs[i]`).
   Ok (POk st) = go on with st (already `previous = ch; i += 1`), Ok PErr = `return Err`. *)
Definition tk_step (chrs : str) (st : tk_state) : res (presult tk_state) :=
  let i := tk_i st in
  let start_index := tk_start st in
  let previous := tk_previous st in
  let stk := tk_stk st in
  let tokens := tk_tokens st in
  let top := peek stk in
  match nth_error chrs i with
  | None => Panic
  | Some ch =>
      let continue (i : nat) (start_index : nat) (ch : N) stk tokens :=
        Ok (POk (mkTk (i + 1) start_index ch stk tokens)) in
      if no_esc ch ch_quote previous then
        let '(oj, ch') := quote_loop (skipn (i + 1) chrs) (i + 1) ch_hash ch in
        let i' := match oj with Some j => j | None => i end in
        continue i' start_index ch' stk tokens
      else if no_esc ch ch_lparen previous then
        if letter_number_hyphen previous then
          continue i start_index ch (TTComplex :: stk) tokens
        else
          continue i (i + 1)%nat ch (TTGroup :: stk) (tokens ++ [make_leaf_token [ch_lparen]])
      else if no_esc ch ch_rparen previous then
        if tt_eqb top TTEmpty then Ok PErr
        else
          let '(top, stk) := pop stk in
          if tt_eqb top TTGroup then
            do subgoal <- slice chrs start_index i;
            continue i start_index ch stk
                     (tokens ++ [make_leaf_token subgoal] ++ [make_leaf_token [ch_rparen]])
          else if negb (tt_eqb top TTComplex) then Ok PErr
          else continue i start_index ch stk tokens
      else if no_esc ch ch_lbracket previous then
        continue i start_index ch (TTLinkedList :: stk) tokens
      else if no_esc ch ch_rbracket previous then
        if tt_eqb top TTEmpty then Ok PErr
        else
          let '(top, stk) := pop stk in
          if negb (tt_eqb top TTLinkedList) then Ok PErr
          else continue i start_index ch stk tokens
      else
        if negb (tt_eqb top TTComplex) && negb (tt_eqb top TTLinkedList) then
          if invalid_between_terms ch then Ok PErr
          else if no_esc ch ch_comma previous then
            do subgoal <- slice chrs start_index i;
            continue i (i + 1)%nat ch stk
                     (tokens ++ [make_leaf_token subgoal] ++ [make_leaf_token [ch_comma]])
          else if no_esc ch ch_semicolon previous then
            do subgoal <- slice chrs start_index i;
            continue i (i + 1)%nat ch stk
                     (tokens ++ [make_leaf_token subgoal] ++ [make_leaf_token [ch_semicolon]])
          else continue i start_index ch stk tokens
        else continue i start_index ch stk tokens
  end.

Fixpoint tk_loop (fuel : nat) (chrs : str) (st : tk_state) : res (presult tk_state) :=
  match fuel with
  | O => OutOfFuel
  | S fuel' =>
      if (tk_i st <? length chrs)%nat then
        do r <- tk_step chrs st;
        match r with
        | PErr => Ok PErr
        | POk st' => tk_loop fuel' chrs st'
        end
      else Ok (POk st)
  end.

Definition tokenize (fuel : nat) (to_parse : str) : res (presult (list token)) :=
  let s := tk_trim to_parse in
  if (length s =? 0)%nat then Ok PErr
  else
    let chrs := s in
    let len := length chrs in
    do r <- tk_loop fuel chrs (mkTk 0 0 ch_hash [] []);
    match r with
    | PErr => Ok PErr
    | POk st =>
        if (0 <? length (tk_stk st))%nat then Ok PErr
        else if (len <? tk_start st)%nat then Panic        (* usize underflow of length - start_index *)
        else if (0 <? len - tk_start st)%nat then
          do subgoal <- slice chrs (tk_start st) len;
          Ok (POk (tk_tokens st ++ [make_leaf_token subgoal]))
        else Ok (POk (tk_tokens st))
    end.

(* group_tokens_to(tokens, index): the `while index < size` loop with its accumulator
   `new_tokens`; the recursive call for a left parenthesis starts a fresh loop.  Returns the
   group and the index at which it ends (its right parenthesis, or the number of tokens). *)
Fixpoint gt_loop (fuel : nat) (tokens : list token) (index : nat) (new_tokens : list token)
  : res (token * nat) :=
  match fuel with
  | O => OutOfFuel
  | S fuel' =>
      if (index <? length tokens)%nat then
        match nth_error tokens index with
        | None => Panic
        | Some tok =>
            let the_type := get_type tok in
            if tt_eqb the_type TTLParen then
              let index := (index + 1)%nat in
              do te <- gt_loop fuel' tokens index [];
              let '(t, end_) := te in
              (* Skip past tokens already processed. +1 for right parenthesis *)
              let index := (end_ + 1)%nat in
              gt_loop fuel' tokens (index + 1)%nat (new_tokens ++ [t])
            else if tt_eqb the_type TTRParen then
              do b <- make_branch_token TTGroup new_tokens; Ok (b, index)
            else
              gt_loop fuel' tokens (index + 1)%nat (new_tokens ++ [tok])
        end
      else do b <- make_branch_token TTGroup new_tokens; Ok (b, index)
  end.

Definition group_tokens_to (fuel : nat) (tokens : list token) (index : nat) : res (token * nat) :=
  gt_loop fuel tokens index [].

Definition group_tokens (fuel : nat) (tokens : list token) (index : nat) : res token :=
  do te <- group_tokens_to fuel tokens index;
  Ok (fst te).

Definition group_or_tokens (tok : token) : res token :=
  match tok with
  | Leaf _ _ => Panic
  | Branch token_type children =>
      let or_list :=
        (fix loop (children : list token) (or_list : list token) : list token :=
           match children with
           | [] => or_list
           | child :: rest =>
               let child_type := get_type child in
               if tt_eqb child_type TTSubgoal || tt_eqb child_type TTAnd || tt_eqb child_type TTGroup
               then loop rest (or_list ++ [child])
               else loop rest or_list
           end) children [] in
      let size := length or_list in
      do new_children <-
         (if (size =? 1)%nat then
            match nth_error or_list 0 with Some t => Ok [t] | None => Panic end
          else if (1 <? size)%nat then
            do t <- make_branch_token TTOr or_list; Ok [t]
          else Ok []);
      make_branch_token token_type new_children
  end.

Fixpoint group_and_tokens (tok : token) : res token :=
  match tok with
  | Leaf _ _ => Panic
  | Branch token_type children =>
      (fix loop (children : list token) (new_children and_list : list token) : res token :=
         match children with
         | [] =>
             let size := length and_list in
             do new_children <-
                (if (size =? 1)%nat then
                   match nth_error and_list 0 with
                   | Some t => Ok (new_children ++ [t])
                   | None => Panic
                   end
                 else if (1 <? size)%nat then
                   do t <- make_branch_token TTAnd and_list; Ok (new_children ++ [t])
                 else Ok new_children);
             make_branch_token token_type new_children
         | child :: rest =>
             let child_type := get_type child in
             if tt_eqb child_type TTSubgoal then loop rest new_children (and_list ++ [child])
             else if tt_eqb child_type TTComma then loop rest new_children and_list
             else if tt_eqb child_type TTSemicolon then
               let size := length and_list in
               do t <- (if (size =? 1)%nat then
                          match nth_error and_list 0 with Some t => Ok t | None => Panic end
                        else make_branch_token TTAnd and_list);
               loop rest (new_children ++ [t] ++ [child]) []
             else if tt_eqb child_type TTGroup then
               do t <- group_and_tokens child;
               do t <- group_or_tokens t;
               loop rest new_children (and_list ++ [t])
             else loop rest new_children and_list
         end) children [] []
  end.

Section WithLeafParser.
  (* parse_goals.rs: parse_subgoal — modelled elsewhere *)
  Variable parse_subgoal : str -> res (presult goal).

  Fixpoint token_tree_to_goal (tok : token) : res (presult goal) :=
    match tok with
    | Leaf token_type token_str =>
        if tt_eqb token_type TTSubgoal then parse_subgoal token_str
        else Panic
    | Branch token_type children =>
        (* the loop `for child in children` of the And branch (and_too = false) and of the
           Or branch (and_too = true: an And child is converted like a Group child) *)
        let operands_loop (and_too : bool) :=
          (fix loop (children : list token) (operands : list goal) : res (presult (list goal)) :=
             match children with
             | [] => Ok (POk operands)
             | child :: rest =>
                 let child_type := get_type child in
                 if tt_eqb child_type TTSubgoal then
                   do s <- get_token_str child;
                   do r <- parse_subgoal s;
                   match r with
                   | POk g => loop rest (operands ++ [g])
                   | PErr => Ok PErr
                   end
                 else if tt_eqb child_type TTGroup || (and_too && tt_eqb child_type TTAnd) then
                   do r <- token_tree_to_goal child;
                   match r with
                   | POk g => loop rest (operands ++ [g])
                   | PErr => Ok PErr
                   end
                 else loop rest operands
             end) in
        if tt_eqb token_type TTAnd then
          do r <- operands_loop false children [];
          match r with
          | POk operands => Ok (POk (GOp OAnd operands))
          | PErr => Ok PErr
          end
        else if tt_eqb token_type TTOr then
          do r <- operands_loop true children [];
          match r with
          | POk operands => Ok (POk (GOp OOr operands))
          | PErr => Ok PErr
          end
        else if tt_eqb token_type TTGroup then
          (* number_of_children() != 1 -> panic; children[0] *)
          match children with
          | [child] => token_tree_to_goal child
          | _ => Panic
          end
        else Ok PErr
    end.

  Definition generate_goal (fuel : nat) (to_parse : str) : res (presult goal) :=
    do r <- tokenize fuel to_parse;
    match r with
    | POk tokens =>
        do base_token <- group_tokens fuel tokens 0;
        do base_token <- group_and_tokens base_token;
        do base_token <- group_or_tokens base_token;
        token_tree_to_goal base_token
    | PErr => Ok PErr
    end.

  (* the token tree handed to token_tree_to_goal (verification hook verif_token_tree) *)
  Definition token_tree (fuel : nat) (to_parse : str) : res (presult token) :=
    do r <- tokenize fuel to_parse;
    match r with
    | POk tokens =>
        do base_token <- group_tokens fuel tokens 0;
        do base_token <- group_and_tokens base_token;
        do base_token <- group_or_tokens base_token;
        Ok (POk base_token)
    | PErr => Ok PErr
    end.
End WithLeafParser.
