(* built_in_arithmetic.rs.  i64 arithmetic is modelled with overflow checks ON (the
   profile the correspondence harness builds): an overflowing step, i64::MIN / -1 and an
   integer division by zero are panics. *)
From Suiron Require Export Model.Subst.
Open Scope Z_scope.

Inductive snumber := NFloat (f : f64) | NInt (z : Z).

Definition i64_min : Z := - 2 ^ 63.
Definition i64_max : Z := 2 ^ 63 - 1.
Definition in_i64 (z : Z) : bool := (i64_min <=? z) && (z <=? i64_max).
Definition chk (z : Z) : res Z := if in_i64 z then Ok z else Panic.

(* get_numbers *)
Fixpoint get_numbers (fuel : nat) (terms : list term) (ss : subst)
  : res (list snumber * bool) :=
  match terms with
  | [] => Ok ([], false)
  | t :: rest =>
      do g <- get_ground_term fuel t ss;
      match g with
      | Some (TInt i) =>
          do r <- get_numbers fuel rest ss;
          let '(ns, hf) := r in Ok (NInt i :: ns, hf)
      | Some (TFloat f) =>
          do r <- get_numbers fuel rest ss;
          let '(ns, _) := r in Ok (NFloat f :: ns, true)
      | _ => Panic
      end
  end.

Fixpoint get_integers (ns : list snumber) : list Z :=
  match ns with
  | [] => []
  | NInt i :: r => i :: get_integers r
  | NFloat _ :: r => get_integers r
  end.

Definition to_float (n : snumber) : f64 :=
  match n with NFloat f => f | NInt i => f64_of_Z i end.
Definition get_floats (ns : list snumber) : list f64 := map to_float ns.

Inductive arithop := AAdd | ASub | AMul | ADiv.

Definition int_step (op : arithop) (acc x : Z) : res Z :=
  match op with
  | AAdd => chk (acc + x)
  | ASub => chk (acc - x)
  | AMul => chk (acc * x)
  | ADiv => if x =? 0 then Panic else chk (Z.quot acc x)
  end.

Definition float_step (op : arithop) (acc x : f64) : f64 :=
  match op with
  | AAdd => fadd acc x
  | ASub => fsub acc x
  | AMul => fmul acc x
  | ADiv => fdiv acc x
  end.

Fixpoint int_fold (op : arithop) (acc : Z) (xs : list Z) : res Z :=
  match xs with
  | [] => Ok acc
  | x :: r => do a <- int_step op acc x; int_fold op a r
  end.

Definition float_fold (op : arithop) (acc : f64) (xs : list f64) : f64 :=
  fold_left (float_step op) xs acc.

(* evaluate_add / subtract / multiply / divide.  `remove(0)` on an empty vector panics. *)
Definition evaluate (fuel : nat) (op : arithop) (args : list term) (ss : subst) : res term :=
  do r <- get_numbers fuel args ss;
  let '(ns, has_float) := r in
  if has_float then
    let fs := get_floats ns in
    match op with
    | AAdd => Ok (TFloat (float_fold op f64_zero fs))
    | AMul => Ok (TFloat (float_fold op f64_one fs))
    | ASub | ADiv =>
        match fs with
        | [] => Panic
        | first :: rest => Ok (TFloat (float_fold op first rest))
        end
    end
  else
    let is := get_integers ns in
    match op with
    | AAdd => do v <- int_fold op 0 is; Ok (TInt v)
    | AMul => do v <- int_fold op 1 is; Ok (TInt v)
    | ASub | ADiv =>
        match is with
        | [] => Panic
        | first :: rest => do v <- int_fold op first rest; Ok (TInt v)
        end
    end.
