(* knowledge_base.rs format_kb and substitution_set.rs format_ss: the debugging listings.
   format_kb: header, then for every key in SORTED order (Rust sorts the key Strings: byte order of
   UTF-8, which is code-point order) the key on a line and each rule, tab-indented, on its own line;
   format_ss: one line per slot, `i<TAB>None` or `i<TAB>term`, or `<TAB>Empty`. *)
From Coq Require Import String.
From Suiron Require Import Model.Str Model.Term Model.Subst Model.Show Model.ShowGoal Model.Rename.
Open Scope N_scope.

Fixpoint insert_key (k : str) (l : list str) : list str :=
  match l with
  | [] => [k]
  | x :: r => match str_cmp k x with Gt => x :: insert_key k r | _ => k :: l end
  end.
Definition sort_keys (l : list str) : list str := fold_right insert_key [] l.

Fixpoint show_rules (rs : list rule) : res str :=
  match rs with
  | [] => Ok []
  | r :: t => do a <- show_rule r; do b <- show_rules t; Ok (9 :: a ++ 10 :: b)
  end.

Fixpoint format_entries (kb : kbase) (keys : list str) : res str :=
  match keys with
  | [] => Ok []
  | k :: r =>
      match kb_get kb k with
      | None => Panic                                    (* kb.get(&key).unwrap() *)
      | Some rules => do a <- show_rules rules; do b <- format_entries kb r; Ok (k ++ 10 :: a ++ b)
      end
  end.

Definition format_kb (kb : kbase) : res str :=
  do body <- format_entries kb (sort_keys (map fst kb));
  Ok (s2l "_____ Contents of Knowledge Base _____"%string ++ 10 :: body ++ s2l "______________________________________"%string).

Fixpoint format_ss_lines (i : N) (ss : subst) : str :=
  match ss with
  | [] => []
  | None :: r => show_N i ++ 9 :: s2l "None"%string ++ 10 :: format_ss_lines (i + 1) r
  | Some t :: r => show_N i ++ 9 :: show_term t ++ 10 :: format_ss_lines (i + 1) r
  end.

Definition format_ss (ss : subst) : str :=
  s2l "----- Substitution Set -----"%string ++ 10 ::
  match ss with
  | [] => 9 :: s2l "Empty"%string ++ [10]
  | _ => format_ss_lines 0 ss
  end ++ s2l "----------------------------"%string.
