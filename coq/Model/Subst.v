(* substitution_set.rs: `Vec<Option<Rc<Unifiable>>>` indexed by variable id. *)
From Suiron Require Export Model.Term.
Open Scope N_scope.

Definition subst := list (option term).

Definition ss_len (ss : subst) : N := N.of_nat (length ss).

(* `id < ss.len() && ss[id] != None` then `ss[id]` *)
Definition ss_get (ss : subst) (id : N) : option term :=
  match nth_error ss (N.to_nat id) with
  | Some (Some t) => Some t
  | _ => None
  end.

(* The binding step of `unify` (LogicVar arm): a copy of `ss`, extended with `None`s up to
   `id`, with slot `id` set. *)
Fixpoint ss_set_nat (ss : subst) (i : nat) (t : term) : subst :=
  match i, ss with
  | O, [] => [Some t]
  | O, _ :: r => Some t :: r
  | S i', [] => None :: ss_set_nat [] i' t
  | S i', x :: r => x :: ss_set_nat r i' t
  end.
Definition ss_set (ss : subst) (id : N) (t : term) : subst := ss_set_nat ss (N.to_nat id) t.

(* is_bound / get_binding panic on a non-variable *)
Definition is_bound (t : term) (ss : subst) : res bool :=
  match t with
  | TVar id _ => Ok (match ss_get ss id with Some _ => true | None => false end)
  | _ => Panic
  end.

Definition get_binding (t : term) (ss : subst) : res (option term) :=
  match t with
  | TVar id _ => Ok (ss_get ss id)
  | _ => Panic
  end.

(* get_ground_term: follow variable bindings; `None` when the chain ends at an unbound
   variable.  A cyclic chain makes the Rust loop spin forever: OutOfFuel. *)
Fixpoint get_ground_term (fuel : nat) (t : term) (ss : subst) : res (option term) :=
  match t with
  | TVar id _ =>
      match ss_get ss id with
      | None => Ok None
      | Some t' =>
          match fuel with
          | O => OutOfFuel
          | S fuel' => get_ground_term fuel' t' ss
          end
      end
  | _ => Ok (Some t)
  end.

Definition is_constant (t : term) : bool :=
  match t with TFloat _ | TInt _ | TAtom _ => true | _ => false end.

Definition get_constant (fuel : nat) (t : term) (ss : subst) : res (option term) :=
  match t with
  | TFloat _ | TInt _ | TAtom _ => Ok (Some t)
  | TVar _ _ =>
      do g <- get_ground_term fuel t ss;
      Ok (match g with
          | Some gt => if is_constant gt then Some gt else None
          | None => None
          end)
  | _ => Ok None
  end.

Definition get_list (fuel : nat) (t : term) (ss : subst) : res (option term) :=
  match t with
  | TList _ _ _ _ => Ok (Some t)
  | TVar _ _ =>
      do g <- get_ground_term fuel t ss;
      Ok (match g with
          | Some gt => if is_list gt then Some gt else None
          | None => None
          end)
  | _ => Ok None
  end.

Definition get_complex (fuel : nat) (t : term) (ss : subst) : res (option term) :=
  match t with
  | TComplex _ => Ok (Some t)
  | TVar _ _ =>
      do g <- get_ground_term fuel t ss;
      Ok (match g with
          | Some (TComplex l) => Some (TComplex l)
          | _ => None
          end)
  | _ => Ok None
  end.

(* is_ground_variable *)
Fixpoint is_ground_variable_id (fuel : nat) (id : N) (ss : subst) : res bool :=
  match ss_get ss id with
  | None => Ok false
  | Some (TVar id2 _) =>
      match fuel with
      | O => OutOfFuel
      | S fuel' => is_ground_variable_id fuel' id2 ss
      end
  | Some _ => Ok true
  end.
Definition is_ground_variable (fuel : nat) (t : term) (ss : subst) : res bool :=
  match t with
  | TVar id _ => is_ground_variable_id fuel id ss
  | _ => Panic
  end.
