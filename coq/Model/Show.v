(* `impl fmt::Display for Unifiable` (unifiable.rs) and format_built_in. *)
From Coq Require Import String.
From Suiron Require Export Model.Term.
Open Scope N_scope.

Definition sep_comma : str := [44; 32].        (* ", " *)
Definition sep_bar : str := [32; 124; 32].      (* " | " *)

Fixpoint join_strs (sep : str) (l : list str) : str :=
  match l with
  | [] => []
  | [x] => x
  | x :: r => x ++ sep ++ join_strs sep r
  end.

Fixpoint show_term (t : term) : str :=
  match t with
  | TNil => s2l "Nil"
  | TAnon => s2l "$_"
  | TAtom s => s
  | TFloat f => show_f64 f
  | TInt z => show_Z z
  | TVar id name => if id =? 0 then name else name ++ 95 :: show_N id
  | TComplex args =>
      match args with
      | [] => [41]
      | f :: rest =>
          show_term f ++ 40 ::
          (fix go (first : bool) (l : list term) : str :=
             match l with
             | [] => []
             | x :: l' => (if first then [] else sep_comma) ++ show_term x ++ go false l'
             end) true rest ++ [41]
      end
  | TList a nx _ _ =>
      91 ::
      (if is_nil a then []
       else show_term a ++
            (fix items (n : term) : str :=
               match n with
               | TList a2 n2 _ tv2 =>
                   if is_nil a2 then []
                   else (if tv2 then sep_bar else sep_comma) ++ show_term a2 ++ items n2
               | _ => []
               end) nx)
      ++ [93]
  | TFun name args =>
      name ++ 40 ::
      (fix go (first : bool) (l : list term) : str :=
         match l with
         | [] => []
         | x :: l' => (if first then [] else sep_comma) ++ show_term x ++ go false l'
         end) true args ++ [41]
  end.

(* key(): "functor/arity"; indexing terms[0] of an empty vector panics *)
Definition term_key (t : term) : res str :=
  match t with
  | TComplex (f :: rest) => Ok (show_term f ++ 47 :: show_N (N.of_nat (length rest)))
  | _ => Panic
  end.
