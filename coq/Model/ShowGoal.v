(* `impl fmt::Display` for Goal (goal.rs), Operator (operator.rs: format_list),
   BuiltInPredicate (built_in_predicates.rs: format_built_in), Rule (rule.rs) and Infix
   (infix.rs).  Indexing `goals[0]`, `terms[0]`, `terms[1]` of a too short vector panics. *)
From Coq Require Import String.
From Suiron Require Export Model.Term Model.Show.
Open Scope N_scope.

Definition sep_semicolon : str := [59; 32].   (* "; " *)

(* built_in_predicates.rs: format_built_in(name, terms) *)
Definition format_built_in (name : str) (terms : list term) : str :=
  name ++ [40] ++
  (fix go (comma : bool) (l : list term) : str :=
     match l with
     | [] => []
     | t :: l' => (if comma then sep_comma else []) ++ show_term t ++ go true l'
     end) false terms ++ [41].

Definition show_bip (functor : str) (terms : option (list term)) : res str :=
  match terms with
  | Some terms =>
      if str_eqb functor (s2l "unify") then
        match terms with
        | lhs :: rhs :: _ => Ok (show_term lhs ++ s2l " = " ++ show_term rhs)
        | _ => Panic
        end
      else Ok (format_built_in functor terms)
  | None => Ok functor
  end.

(* operator.rs: format_list(operands, separator) *)
Definition format_list (operands : list str) (separator : str) : str :=
  (fix go (first : bool) (l : list str) : str :=
     match l with
     | [] => []
     | op :: l' => (if first then op else separator ++ op) ++ go false l'
     end) true operands.

(* format_operands: does this operand go between parentheses? *)
Definition needs_group (group_and : bool) (op : goal) : bool :=
  match op with
  | GOp OOr _ => true
  | GOp OAnd _ => group_and
  | _ => false
  end.

Definition operand_text (group_and : bool) (op : goal) (s : str) : str :=
  if needs_group group_and op then [40] ++ s ++ [41] else s.

(* operator.rs: format_operands, Display for Operator; goal.rs: Display for Goal *)
Fixpoint show_goal (g : goal) : res str :=
  match g with
  | GOp k goals =>
      let format_operands (separator : str) (group_and : bool) : res str :=
        do out <- (fix go (l : list goal) : res (list str) :=
                     match l with
                     | [] => Ok []
                     | op :: l' =>
                         do s <- show_goal op;
                         do r <- go l';
                         Ok (operand_text group_and op s :: r)
                     end) goals;
        Ok (format_list out separator) in
      match k with
      | OAnd => format_operands sep_comma true
      | OOr => format_operands sep_semicolon false
      | OTime =>
          match goals with
          | g0 :: _ => do s <- show_goal g0; Ok (s2l "time(" ++ s ++ [41])
          | [] => Panic
          end
      | ONot =>
          match goals with
          | g0 :: _ => do s <- show_goal g0; Ok (s2l "not(" ++ s ++ [41])
          | [] => Panic
          end
      end
  | GBip functor terms => show_bip functor terms
  | GCall t => Ok (show_term t)
  | GNil => Ok (s2l "Nil")
  end.

(* rule.rs: Display for Rule; `self.body == Goal::Nil` is the derived PartialEq *)
Definition show_rule (r : rule) : res str :=
  if goal_eqb (r_body r) GNil then Ok (show_term (r_head r) ++ [46])
  else do b <- show_goal (r_body r); Ok (show_term (r_head r) ++ s2l " :- " ++ b ++ [46]).

(* infix.rs: Display for Infix *)
(* `infix` (infix.rs) is defined with the parsers in Model/ParseTerm.v *)
From Suiron Require Import Model.ParseTerm.

Definition show_infix (i : infix) : str :=
  match i with
  | INone => s2l "None"
  | IUnify => s2l "="
  | IEqual => s2l "=="
  | IGreaterThan => s2l ">"
  | ILessThan => s2l "<"
  | IGreaterThanOrEqual => s2l ">="
  | ILessThanOrEqual => s2l "<="
  | IPlus => s2l "+"
  | IMinus => s2l "-"
  | IMultiply => s2l "*"
  | IDivide => s2l "/"
  end.
