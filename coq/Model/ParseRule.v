(* rule.rs: index_of_neck, parse_rule.  The leaf parsers `parse_subgoal` (parse_goals.rs)
   and `parse_complex` (s_complex.rs) are Section variables. *)
From Coq Require Import String.
From Suiron Require Export Model.Tokenizer.
Open Scope N_scope.

(* for (i, ch) in chrs.iter().enumerate(): `i - 1` is a usize subtraction *)
Fixpoint ion_loop (chrs : str) (i : nat) (previous_colon : bool) : res (option nat) :=
  match chrs with
  | [] => Ok None
  | ch :: rest =>
      if (ch =? ch_hyphen) && previous_colon then
        match i with
        | O => Panic
        | S i' => Ok (Some i')
        end
      else ion_loop rest (S i) (ch =? ch_colon)
  end.

Definition index_of_neck (chrs : str) : res (option nat) := ion_loop chrs 0 false.

Section WithLeafParsers.
  Variable parse_subgoal : str -> res (presult goal).
  Variable parse_complex : str -> res (presult term).

  Definition parse_rule (fuel : nat) (to_parse : str) : res (presult rule) :=
    let s := tk_trim to_parse in
    let chrs := s in
    let len := length chrs in
    if (len =? 0)%nat then Ok PErr
    else
      (* Remove final period: chrs[length - 1] *)
      match nth_error chrs (len - 1) with
      | None => Panic
      | Some ch =>
          do cl <- (if ch =? ch_period
                    then do c <- slice chrs 0 (len - 1); Ok (c, (len - 1)%nat)
                    else Ok (chrs, len));
          let '(chrs, len) := cl in
          do neck <- index_of_neck chrs;
          match neck with
          | Some index =>
              do head_chrs <- slice chrs 0 index;
              do body_chrs <- slice chrs (index + 2) len;
              (* Make sure there is not a second ':-'. *)
              do neck2 <- index_of_neck body_chrs;
              match neck2 with
              | Some _ => Ok PErr
              | None =>
                  do sg <- parse_subgoal head_chrs;
                  match sg with
                  | POk (GCall h) =>
                      do b <- generate_goal parse_subgoal fuel body_chrs;
                      match b with
                      | POk body => Ok (POk (mkRule h body))
                      | PErr => Ok PErr
                      end
                  | POk _ => Ok PErr    (* "Head of rule must be complex term." *)
                  | PErr => Ok PErr
                  end
              end
          | None =>
              do f <- parse_complex chrs;
              match f with
              | POk fact => Ok (POk (mkRule fact GNil))
              | PErr => Ok PErr
              end
          end
      end.
End WithLeafParsers.
