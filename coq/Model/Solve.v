(* The resumable search: SolutionNode (solution_node.rs), make_solution_node / make_base_node
   (goal.rs), next_solution (solution_node.rs), next_solution_and / _or
   (solution_node_and_or.rs), next_solution_bip (built_in_predicates.rs), count_rules
   (knowledge_base.rs), the stop flag (time_out.rs) and the drivers solve / solve_all /
   format_solution (solutions.rs).

   All process-global state is explicit: `world` holds LOGIC_VAR_ID, SUIRON_STOP_QUERY (with
   the deterministic schedule of the verification hook) and everything printed so far.

   Parent pointers exist in the Rust code only to propagate a cut (set_no_backtracking walks
   them and sets no_backtracking on every ancestor up to and including the call node, and on
   each ancestor's head node).  Here `next` returns a `cut` signal instead and every
   operator node on the way up sets its own flag and its head's flag when the signal passes;
   a call node absorbs the signal.  (DESIGN.md 4.1: no flag is read between the two
   moments, ancestors being suspended in their own next_solution frame.) *)
From Coq Require Import String.
From Suiron Require Export Model.Rename.
Open Scope N_scope.

(* ---- global state ---- *)
Record world := mkWorld {
  next_id : N;               (* LOGIC_VAR_ID *)
  stop_flag : bool;          (* SUIRON_STOP_QUERY *)
  stop_after : option N;     (* hook: the flag flips to true at the read after this many reads *)
  out : str                  (* stdout so far *)
}.

Definition w_set_id (w : world) (id : N) : world := mkWorld id (stop_flag w) (stop_after w) (out w).
Definition w_print (w : world) (s : str) : world :=
  mkWorld (next_id w) (stop_flag w) (stop_after w) (out w ++ s).
Definition w_set_flag (w : world) (b : bool) : world := mkWorld (next_id w) b (stop_after w) (out w).

(* query_stopped(): with the hook, the n-th read (n counted down) sets the flag *)
Definition query_stopped (w : world) : bool * world :=
  match stop_after w with
  | Some 0 => (true, mkWorld (next_id w) true None (out w))
  | Some n => (stop_flag w, mkWorld (next_id w) (stop_flag w) (Some (n - 1)) (out w))
  | None => (stop_flag w, w)
  end.

(* start_query(): flag := false, id := 0   (make_query) *)
Definition start_query (w : world) : world := mkWorld 0 false (stop_after w) (out w).

(* count_rules *)
Definition count_rules (kb : kbase) (key : str) (w : world) : N * world :=
  let '(stopped, w') := query_stopped w in
  if stopped then (0, w')
  else (match kb_get kb key with Some l => N.of_nat (length l) | None => 0 end, w').

(* ---- solution nodes: the fields of SolutionNode that the node kind uses ---- *)
Inductive node :=
| NCall (t : term) (ss : subst) (nobt : bool) (child : option node) (idx n : N)
| NOp (k : opkind) (ss : subst) (nobt more : bool) (head tail : option node)
      (optail : option (list goal))
| NBip (functor : str) (terms : option (list term)) (ss : subst) (nobt more : bool).

Definition set_nobt (nd : node) : node :=
  match nd with
  | NCall t ss _ c i n => NCall t ss true c i n
  | NOp k ss _ m h t o => NOp k ss true m h t o
  | NBip f ts ss _ m => NBip f ts ss true m
  end.
Definition set_nobt_opt (o : option node) : option node := option_map set_nobt o.
Definition node_nobt (nd : node) : bool :=
  match nd with
  | NCall _ _ b _ _ _ => b
  | NOp _ _ b _ _ _ _ => b
  | NBip _ _ _ b _ => b
  end.

(* make_solution_node *)
Fixpoint make_node (kb : kbase) (g : goal) (ss : subst) (w : world) : res (node * world) :=
  match g with
  | GOp k gs =>
      match k with
      | OAnd | OOr =>
          match gs with
          | [] => Panic                                 (* split_head_tail: no operands *)
          | h :: tl =>
              do r <- make_node kb h ss w;
              let '(hn, w') := r in
              Ok (NOp k ss false true (Some hn) None (Some tl), w')
          end
      | OTime | ONot =>
          match gs with
          | [] => Panic                                 (* goals[0] *)
          | h :: _ =>
              do r <- make_node kb h ss w;
              let '(hn, w') := r in
              Ok (NOp k ss false true (Some hn) None None, w')
          end
      end
  | GCall t =>
      do key <- term_key t;
      let '(n, w') := count_rules kb key w in
      Ok (NCall t ss false None 0 n, w')
  | GBip f ts => Ok (NBip f ts ss false true, w)
  | GNil => Panic
  end.

(* make_base_node *)
Definition make_base_node (kb : kbase) (g : goal) (w : world) : res (node * world) :=
  match g with
  | GCall t =>
      do key <- term_key t;
      let '(n, w') := count_rules kb key w in
      Ok (NCall t [] false None 0 n, w')
  | _ => Panic
  end.

(* the text print_elapsed writes: not reproducible; the harness maps it to this token *)
Definition elapsed_token : str := Eval compute in s2l "<elapsed> ".

(* result of one request: the node as it is left, the answer, whether a cut ran below and
   is to be propagated to the ancestors, the world *)
Definition step_result := (node * option subst * bool * world)%type.

Definition is_some {A} (o : option A) : bool := match o with Some _ => true | None => false end.

Section Next.
  Variable kb : kbase.
  Variable bf : nat.       (* fuel handed to the built-ins and to unification (constant during a search) *)

  (* One level of each of the three mutually recursive functions, with the recursive calls as
     parameters (open recursion), so that proofs can unfold one level at a time. *)
  Section Bodies.
    Variable next : node -> world -> res step_result.
    Variable and_loop : subst -> bool -> bool -> option node -> option node ->
                        option (list goal) -> bool -> world -> res step_result.
    Variable call_loop : term -> subst -> bool -> option node -> N -> N -> world -> res step_result.

    Definition next_body (nd : node) (w : world) : res step_result :=
      if node_nobt nd then Ok (nd, None, false, w) else
      match nd with
      | NBip fn ts ss nobt more =>
          if negb more then Ok (nd, None, false, w)
          else
            do r <- run_bip bf fn ts ss;
            Ok (NBip fn ts ss (nobt || br_cut r) false, br_sol r, br_cut r, w_print w (br_out r))
      | NOp ONot ss nobt more head tail optail =>
          if negb more then Ok (nd, None, false, w)
          else
            match head with
            | None => Panic
            | Some h =>
                do x <- next h w;
                let '(h', sol, c, w1) := x in
                let h'' := if c then set_nobt h' else h' in
                Ok (NOp ONot ss (nobt || c) false (Some h'') tail optail,
                    match sol with Some _ => None | None => Some ss end, c, w1)
            end
      | NOp OTime ss nobt more head tail optail =>
          if negb more then Ok (nd, None, false, w)
          else
            match head with
            | None => Panic
            | Some h =>
                do x <- next h w;
                let '(h', sol, c, w1) := x in
                let h'' := if c then set_nobt h' else h' in
                Ok (NOp OTime ss (nobt || c) false (Some h'') tail optail, sol, c,
                    w_print w1 elapsed_token)
            end
      | NOp OAnd ss nobt more head tail optail =>
          match tail with
          | Some t =>
              do x <- next t w;
              let '(t', sol, c, w1) := x in
              let nobt1 := nobt || c in
              let head1 := if c then set_nobt_opt head else head in
              match sol with
              | Some s => Ok (NOp OAnd ss nobt1 more head1 (Some t') optail, Some s, c, w1)
              | None => and_loop ss nobt1 more head1 (Some t') optail c w1
              end
          | None => and_loop ss nobt more head None optail false w
          end
      | NOp OOr ss nobt more head tail optail =>
          match tail with
          | Some t =>
              do x <- next t w;
              let '(t', sol, c, w1) := x in
              Ok (NOp OOr ss (nobt || c) more (if c then set_nobt_opt head else head) (Some t') optail,
                  sol, c, w1)
          | None =>
              match head with
              | None => Ok (nd, None, false, w)
              | Some h =>
                  do x <- next h w;
                  let '(h', sol, c, w1) := x in
                  let nobt1 := nobt || c in
                  let h'' := if c then set_nobt h' else h' in
                  match sol with
                  | Some s => Ok (NOp OOr ss nobt1 more (Some h'') None optail, Some s, c, w1)
                  | None =>
                      match optail with
                      | None => Ok (NOp OOr ss nobt1 more (Some h'') None optail, None, c, w1)
                      | Some tl =>
                          if (length tl =? 0)%nat
                          then Ok (NOp OOr ss nobt1 more (Some h'') None optail, None, c, w1)
                          else if nobt1                      (* cut_executed(&sn) *)
                          then Ok (NOp OOr ss nobt1 more (Some h'') None optail, None, c, w1)
                          else
                            do y <- make_node kb (GOp OOr tl) ss w1;
                            let '(t, w2) := y in
                            do z <- next t w2;
                            let '(t', sol2, c2, w3) := z in
                            Ok (NOp OOr ss (nobt1 || c2) more
                                    (Some (if c2 then set_nobt h'' else h'')) (Some t') optail,
                                sol2, c || c2, w3)
                      end
                  end
              end
          end
      | NCall t ss nobt child idx n =>
          match child with
          | Some c0 =>
              do x <- next c0 w;
              let '(c1, sol, c, w1) := x in
              match sol with
              | Some s => Ok (NCall t ss (nobt || c) (Some c1) idx n, Some s, false, w1)
              | None => call_loop t ss (nobt || c) None idx n w1
              end
          | None => call_loop t ss nobt None idx n w
          end
      end.

    (* the `loop` of next_solution_and: ask the head; for each answer make a tail node and
       ask it; `acc` = a cut has already run during this request *)
    Definition and_body (ss : subst) (nobt more : bool) (head tail : option node)
                        (optail : option (list goal)) (acc : bool) (w : world) : res step_result :=
      match head with
      | None => Ok (NOp OAnd ss nobt more head tail optail, None, acc, w)
      | Some h =>
          do x <- next h w;
          let '(h', sol, c, w1) := x in
          let nobt1 := nobt || c in
          let h'' := if c then set_nobt h' else h' in
          match sol with
          | None => Ok (NOp OAnd ss nobt1 more (Some h'') tail optail, None, acc || c, w1)
          | Some s =>
              match optail with
              | None => Ok (NOp OAnd ss nobt1 more (Some h'') tail optail, Some s, acc || c, w1)
              | Some tl =>
                  if (length tl =? 0)%nat
                  then Ok (NOp OAnd ss nobt1 more (Some h'') tail optail, Some s, acc || c, w1)
                  else
                    do y <- make_node kb (GOp OAnd tl) s w1;
                    let '(t, w2) := y in
                    do z <- next t w2;
                    let '(t', sol2, c2, w3) := z in
                    let nobt2 := nobt1 || c2 in
                    let h3 := if c2 then set_nobt h'' else h'' in
                    match sol2 with
                    | Some s2 =>
                        Ok (NOp OAnd ss nobt2 more (Some h3) (Some t') optail, Some s2,
                            acc || c || c2, w3)
                    | None => and_loop ss nobt2 more (Some h3) (Some t') optail (acc || c || c2) w3
                    end
              end
          end
      end.

    (* the `loop` of the ComplexGoal arm: fetch the next rule, unify its head, solve its body *)
    Definition call_body (t : term) (ss : subst) (nobt : bool) (child : option node)
                         (idx n : N) (w : world) : res step_result :=
      if nobt then Ok (NCall t ss nobt child idx n, None, false, w)
      else if n <=? idx then Ok (NCall t ss nobt child idx n, None, false, w)
      else
        let fallback := next_id w in
        do key <- term_key t;
        do gr <- get_rule kb key idx (next_id w);
        let '(r, ctr) := gr in
        let w1 := w_set_id w ctr in
        do u <- unify bf (r_head r) t ss;
        match u with
        | None => call_loop t ss nobt child (idx + 1) n (w_set_id w1 fallback)
        | Some s =>
            if is_gnil (r_body r) then Ok (NCall t ss nobt child (idx + 1) n, Some s, false, w1)
            else
              do y <- make_node kb (r_body r) s w1;
              let '(c0, w2) := y in
              do z <- next c0 w2;
              let '(c1, sol, c, w3) := z in
              match sol with
              | Some s2 => Ok (NCall t ss (nobt || c) (Some c1) (idx + 1) n, Some s2, false, w3)
              | None => call_loop t ss (nobt || c) (Some c1) (idx + 1) n w3
              end
        end.
  End Bodies.

  Fixpoint next (fuel : nat) (nd : node) (w : world) {struct fuel} : res step_result :=
    match fuel with
    | O => OutOfFuel
    | S f => next_body (next f) (and_loop f) (call_loop f) nd w
    end
  with and_loop (fuel : nat) (ss : subst) (nobt more : bool) (head tail : option node)
                (optail : option (list goal)) (acc : bool) (w : world) {struct fuel}
    : res step_result :=
    match fuel with
    | O => OutOfFuel
    | S f => and_body (next f) (and_loop f) ss nobt more head tail optail acc w
    end
  with call_loop (fuel : nat) (t : term) (ss : subst) (nobt : bool) (child : option node)
                 (idx n : N) (w : world) {struct fuel} : res step_result :=
    match fuel with
    | O => OutOfFuel
    | S f => call_body (next f) (call_loop f) t ss nobt child idx n w
    end.

  Lemma next_S f nd w : next (S f) nd w = next_body (next f) (and_loop f) (call_loop f) nd w.
  Proof. reflexivity. Qed.
  Lemma and_loop_S f ss nobt more head tail optail acc w :
    and_loop (S f) ss nobt more head tail optail acc w =
    and_body (next f) (and_loop f) ss nobt more head tail optail acc w.
  Proof. reflexivity. Qed.
  Lemma call_loop_S f t ss nobt child idx n w :
    call_loop (S f) t ss nobt child idx n w = call_body (next f) (call_loop f) t ss nobt child idx n w.
  Proof. reflexivity. Qed.
End Next.

(* ---- solutions.rs ---- *)
Definition timeout_msg : str := Eval compute in s2l "Query timed out after 1000 milliseconds.".
Definition no_more : str := Eval compute in s2l "No more.".

(* format_solution *)
Fixpoint format_pairs (first : bool) (qs rs : list term) : res str :=
  match qs with
  | [] => Ok []
  | q :: qs' =>
      match q with
      | TVar _ name =>
          match rs with
          | [] => Panic                                  (* r_terms[i] *)
          | r :: rs' =>
              do rest <- format_pairs false qs' rs';
              Ok ((if first then [] else sep_comma) ++ name ++ [32; 61; 32] ++ show_term r ++ rest)
          end
      | _ => format_pairs first qs' (tl rs)
      end
  end.

Definition format_solution (query : goal) (result : term) : res str :=
  match query, result with
  | GCall (TComplex (_ :: qargs)), TComplex (_ :: rargs) => format_pairs true qargs rargs
  | GCall (TComplex (_ :: _ :: _)), TComplex [] => Panic
  | _, _ => Ok []
  end.

Definition node_goal_term (nd : node) : option term :=
  match nd with NCall t _ _ _ _ _ => Some t | _ => None end.

(* solve: one request under the timer.  start_query_timer clears the flag; the flag is read
   once after the search. *)
Definition solve (fuel : nat) (kb : kbase) (nd : node) (w : world) : res (node * str * world) :=
  let w0 := w_set_flag w false in
  do x <- next kb fuel fuel nd w0;
  let '(nd', sol, _, w1) := x in
  let '(stopped, w2) := query_stopped w1 in
  if stopped then Ok (nd', timeout_msg, w2)
  else
    match sol with
    | Some s =>
        match node_goal_term nd' with
        | Some q =>
            do r <- replace_variables fuel q s;
            do txt <- format_solution (GCall q) r;
            Ok (nd', txt, w2)
        | None => Panic                                   (* replace_variables: not a complex goal *)
        end
    | None => Ok (nd', no_more, w2)
    end.

(* the loop of solve_all: `n` bounds the number of requests (a modelling artefact: the Rust loop has
   no bound); every request searches with the same fuel *)
Fixpoint solve_all_loop (n : nat) (fuel : nat) (kb : kbase) (nd : node) (q : term) (acc : list str) (w : world)
  : res (node * list str * world) :=
  match n with
  | O => OutOfFuel
  | S n' =>
      do x <- next kb fuel fuel nd w;
      let '(nd', sol, _, w1) := x in
      let '(stopped, w2) := query_stopped w1 in
      if stopped then Ok (nd', acc, w2)
      else
        match sol with
        | Some s =>
            do r <- replace_variables fuel q s;
            do txt <- format_solution (GCall q) r;
            solve_all_loop n' fuel kb nd' q (acc ++ [txt]) w2
        | None => Ok (nd', acc, w2)
        end
  end.

Definition solve_all (fuel : nat) (kb : kbase) (nd : node) (w : world) : res (node * list str * world) :=
  match node_goal_term nd with
  | None => Panic
  | Some q =>
      let w0 := w_set_flag w false in
      do x <- solve_all_loop fuel fuel kb nd q [] w0;
      let '(nd', acc, w1) := x in
      let '(stopped, w2) := query_stopped w1 in
      Ok (nd', if stopped then acc ++ [timeout_msg] else acc, w2)
  end.

(* make_query as seen by the world: start_query() (id := 0, flag := false), then rename *)
Definition api_make_query (terms : list term) (w : world) : res (goal * world) :=
  do r <- make_query terms;
  let '(g, ctr) := r in
  Ok (g, mkWorld ctr false (stop_after w) (out w)).

Definition world0 : world := mkWorld 0 false None [].
