(* Term-level parsers: parse_terms.rs (parse_arguments, make_term, check_quotes, parse_term),
   logic_var.rs (make_logic_var), s_linked_list.rs (equal_escape, parse_linked_list),
   s_complex.rs (parse_complex, validate_complex, parse_functor_terms, parse_query),
   built_in_functions.rs (parse_function), infix.rs (check_infix, check_arithmetic_infix),
   parse_goals.rs (indices_of_parentheses, get_left_and_right).

   Function by function and test by test as in the Rust source.  A Rust index out of range,
   slice out of range, `unwrap()` of `None`, `usize` underflow is `Panic`; `Result<T, String>`
   is `presult T` (the error text is not modelled).

   Loops.  The scanning loops of the Rust code run an index over a `Vec<char>`; here they are
   structural recursions over the remaining suffix (the index is carried along where the code
   reads it).  The two "skip to the closing quote / parenthesis" inner loops of infix.rs are a
   skip mode of the same recursion (entered only if the closing character exists further
   right, as the inner loop only moves `i` in that case).  The only recursion that is not
   structural is the mutual recursion of the parsers through nested terms; it takes `fuel`
   (one unit per nested call of parse_term / parse_arguments).

   Unicode.  `str::trim` / `char::is_whitespace` is the exact White_Space set.
   `char::is_alphabetic` is exact for U+0000-U+024F, U+0370-U+04FF and U+4E00-U+9FFF
   (tables read off Rust 1.95); other scalar values are classified as not alphabetic and the
   generators stay inside those blocks.

   Numbers.  `str::parse::<i64>` is modelled exactly.  `str::parse::<f64>` is modelled for
   the full grammar of Rust's dec2flt (sign, digits, fraction, exponent, inf/infinity/nan):
   the decimal value M * 10^e is rounded once, to nearest-even, by Flocq's
   `binary_normalize` - directly for e >= 0, and for e < 0 from the quotient
   floor(M * 2^s / 10^-e) with >= 66 significant bits and a sticky bit.  That this is the
   correctly rounded value is argued in the comment of `f64_of_decimal`, not proved; it is
   compared with the machine on every run.  Exponents beyond +-400 (after accounting for
   the number of digits) short-cut to infinity / zero. *)
From Coq Require Import String.
From Flocq Require Import IEEE754.BinarySingleNaN IEEE754.Binary IEEE754.Bits.
From Suiron Require Export Model.Lists Model.Rename Model.PResult.
Open Scope N_scope.

(* ---- the result monad of the parsers: res (presult A) ---- *)
Definition pok {A} (a : A) : res (presult A) := Ok (POk a).
Definition perr {A} : res (presult A) := Ok PErr.
Definition pbind {A B} (r : res (presult A)) (k : A -> res (presult B)) : res (presult B) :=
  match r with
  | Ok (POk a) => k a
  | Ok PErr => Ok PErr
  | Panic => Panic
  | OutOfFuel => OutOfFuel
  end.
Notation "'dop' x <- r ; k" := (pbind r (fun x => k))
  (at level 200, x pattern, r at level 100, k at level 200).

(* ---- characters ---- *)
Definition c_tab : N := 9.
Definition c_bang : N := 33.
Definition c_dquote : N := 34.
Definition c_hash : N := 35.
Definition c_dollar : N := 36.
Definition c_underscore : N := 95.
Definition c_lpar : N := 40.
Definition c_rpar : N := 41.
Definition c_star : N := 42.
Definition c_plus : N := 43.
Definition c_comma : N := 44.
Definition c_minus : N := 45.
Definition c_period : N := 46.
Definition c_slash : N := 47.
Definition c_lt : N := 60.
Definition c_eq : N := 61.
Definition c_gt : N := 62.
Definition c_lbr : N := 91.
Definition c_bslash : N := 92.
Definition c_rbr : N := 93.
Definition c_x : N := 120.
Definition c_bar : N := 124.

Definition in_range (lo hi c : N) : bool := (lo <=? c) && (c <=? hi).
Definition is_digit (c : N) : bool := in_range 48 57 c.

(* char::is_whitespace (White_Space) *)
Definition is_white (c : N) : bool :=
  in_range 9 13 c || (c =? 32) || (c =? 0x85) || (c =? 0xA0) || (c =? 0x1680) ||
  in_range 0x2000 0x200A c || in_range 0x2028 0x2029 c || (c =? 0x202F) || (c =? 0x205F) ||
  (c =? 0x3000).

(* char::is_alphabetic on the blocks named above *)
Definition is_alphabetic (c : N) : bool :=
  in_range 0x41 0x5A c || in_range 0x61 0x7A c || (c =? 0xAA) || (c =? 0xB5) || (c =? 0xBA) ||
  in_range 0xC0 0xD6 c || in_range 0xD8 0xF6 c || in_range 0xF8 0x24F c ||
  in_range 0x370 0x374 c || in_range 0x376 0x377 c || in_range 0x37A 0x37D c || (c =? 0x37F) ||
  (c =? 0x386) || in_range 0x388 0x38A c || (c =? 0x38C) || in_range 0x38E 0x3A1 c ||
  in_range 0x3A3 0x3F5 c || in_range 0x3F7 0x481 c || in_range 0x48A 0x4FF c ||
  in_range 0x4E00 0x9FFF c.

(* str::trim *)
Fixpoint trim_start (s : str) : str :=
  match s with
  | c :: r => if is_white c then trim_start r else s
  | [] => []
  end.
Definition trim (s : str) : str := rev (trim_start (rev (trim_start s))).

(* Rust slice v[a..b]: panics unless a <= b <= len *)
Definition slice (v : str) (a b : nat) : res str :=
  if (a <=? b)%nat && (b <=? length v)%nat then Ok (firstn (b - a) (skipn a v)) else Panic.

(* ---- str::parse::<i64> ---- *)
Fixpoint digits_val (s : str) (acc : Z) : option Z :=
  match s with
  | [] => Some acc
  | c :: r => if is_digit c then digits_val r (acc * 10 + Z.of_N (c - 48))%Z else None
  end.

Definition strip_sign (s : str) : bool * str :=
  match s with
  | c :: r => if c =? c_minus then (true, r) else if c =? c_plus then (false, r) else (false, s)
  | [] => (false, [])
  end.

Definition parse_i64 (s : str) : option Z :=
  let '(neg, ds) := strip_sign s in
  match ds with
  | [] => None
  | _ =>
      match digits_val ds 0 with
      | None => None
      | Some v =>
          let z := if neg then (- v)%Z else v in
          if ((- 2 ^ 63 <=? z) && (z <? 2 ^ 63))%Z then Some z else None
      end
  end.

(* ---- str::parse::<f64> ---- *)
(* leading digits: accumulated value, how many, rest *)
Fixpoint take_digits (s : str) (acc : Z) (n : nat) : Z * nat * str :=
  match s with
  | c :: r => if is_digit c then take_digits r (acc * 10 + Z.of_N (c - 48))%Z (S n) else (acc, n, s)
  | [] => (acc, n, [])
  end.

(* mantissa M and decimal exponent e such that the text denotes M * 10^e; `nd` digits read *)
Definition parse_decimal (body : str) : option (Z * Z * nat) :=
  let '(ip, n1, r1) := take_digits body 0 0 in
  let '(m, n2, r2) :=
    match r1 with
    | c :: r1' => if c =? c_period then take_digits r1' ip 0 else (ip, 0%nat, r1)
    | [] => (ip, 0%nat, r1)
    end in
  if (n1 + n2 =? 0)%nat then None
  else
    match r2 with
    | [] => Some (m, (- Z.of_nat n2)%Z, (n1 + n2)%nat)
    | c :: r3 =>
        if (c =? 101) || (c =? 69) then
          let '(eneg, ds) := strip_sign r3 in
          match ds with
          | [] => None
          | _ =>
              match digits_val ds 0 with
              | None => None
              | Some ev => Some (m, ((if eneg then - ev else ev) - Z.of_nat n2)%Z, (n1 + n2)%nat)
              end
          end
        else None
    end.

(* f64_inf, f64_nan, f64_zero_s, f64_of_decimal: Model/Float.v *)

Definition ascii_lower (c : N) : N := if in_range 65 90 c then c + 32 else c.

Definition parse_inf_nan (body : str) (neg : bool) : option f64 :=
  let l := map ascii_lower body in
  if str_eqb l (s2l "nan") then Some f64_nan
  else if str_eqb l (s2l "inf") || str_eqb l (s2l "infinity") then Some (f64_inf neg)
  else None.

Definition parse_f64 (s : str) : option f64 :=
  match s with
  | [] => None
  | _ =>
      let '(neg, body) := strip_sign s in
      match body with
      | [] => None
      | _ =>
          match parse_decimal body with
          | Some (m, e, nd) => Some (f64_of_decimal neg m e nd)
          | None => parse_inf_nan body neg
          end
      end
  end.

(* ---- logic_var.rs: make_logic_var (no panic; the id is 0) ---- *)
Definition make_logic_var (name : str) : presult term :=
  let trimmed := trim name in
  match trimmed with
  | c0 :: c1 :: _ =>
      if negb (c0 =? c_dollar) then PErr
      else if negb (is_alphabetic c1) then PErr
      else POk (TVar 0 trimmed)
  | _ => PErr
  end.

(* ---- parse_terms.rs: check_quotes.  true = Some(error message) ---- *)
Definition check_quotes (to_check : str) (count : N) : res bool :=
  if count =? 0 then Ok false
  else if negb (count =? 2) then Ok true
  else
    match to_check with
    | [] => Panic                                     (* chrs[0] *)
    | first :: _ =>
        if negb (first =? c_dquote) then Ok true
        else if negb (List.last to_check 0 =? c_dquote) then Ok true
        else Ok false
    end.

(* ---- parse_goals.rs: indices_of_parentheses (left/right are i32, -1 = none) ---- *)
Fixpoint iop_loop (rest : str) (i : nat) (lft rgt : Z) (cl cr : N) : Z * Z * N * N :=
  match rest with
  | [] => (lft, rgt, cl, cr)
  | ch :: tl =>
      if ch =? c_lpar then
        iop_loop tl (S i) (if (lft =? -1)%Z then Z.of_nat i else lft) rgt (cl + 1) cr
      else if ch =? c_rpar then iop_loop tl (S i) lft (Z.of_nat i) cl (cr + 1)
      else iop_loop tl (S i) lft rgt cl cr
  end.

Definition indices_of_parentheses (goal : str) : presult (option (nat * nat)) :=
  let '(lft, rgt, cl, cr) := iop_loop goal 0 (-1)%Z (-1)%Z 0 0 in
  if negb (cl =? cr) then PErr
  else if (rgt <? lft)%Z then PErr
  else if (lft =? -1)%Z then POk None
  else POk (Some (Z.to_nat lft, Z.to_nat rgt)).

(* ---- infix.rs ---- *)
Inductive infix :=
| INone | IUnify | IEqual | IGreaterThan | ILessThan | IGreaterThanOrEqual | ILessThanOrEqual
| IPlus | IMinus | IMultiply | IDivide.

Definition infix_eqb (a b : infix) : bool :=
  match a, b with
  | INone, INone | IUnify, IUnify | IEqual, IEqual | IGreaterThan, IGreaterThan
  | ILessThan, ILessThan | IGreaterThanOrEqual, IGreaterThanOrEqual
  | ILessThanOrEqual, ILessThanOrEqual | IPlus, IPlus | IMinus, IMinus
  | IMultiply, IMultiply | IDivide, IDivide => true
  | _, _ => false
  end.

Definition has_char (c : N) (s : str) : bool := existsb (N.eqb c) s.

(* check_infix.  `skip = Some (close, open)`: inside a quoted / parenthesised stretch whose
   closing character exists; the stretch ends after that character, with prev = open.
   `length - 2` underflows for length < 2. *)
Fixpoint ci_loop (len : nat) (rest : str) (i : nat) (prev : N) (skip : option (N * N))
  : res (infix * nat) :=
  match rest with
  | [] => Ok (INone, O)
  | c1 :: tl =>
      match skip with
      | Some (close, open) =>
          if c1 =? close then ci_loop len tl (S i) open None
          else ci_loop len tl (S i) prev skip
      | None =>
          let c2 := match tl with c :: _ => c | [] => c_hash end in
          let c3 := match tl with _ :: c :: _ => c | _ => c_hash end in
          if c1 =? c_dquote then
            if has_char c_dquote tl then ci_loop len tl (S i) prev (Some (c_dquote, c1))
            else ci_loop len tl (S i) c1 None
          else if c1 =? c_lpar then
            if has_char c_rpar tl then ci_loop len tl (S i) prev (Some (c_rpar, c1))
            else ci_loop len tl (S i) c1 None
          else if negb (prev =? 32) then ci_loop len tl (S i) c1 None
          else if (len <? 2)%nat then Panic
          else if (len - 2 <=? i)%nat then Ok (INone, O)
          else if c1 =? c_lt then
            if c2 =? c_eq then
              if c3 =? 32 then Ok (ILessThanOrEqual, i) else ci_loop len tl (S i) c1 None
            else if c2 =? 32 then Ok (ILessThan, i)
            else ci_loop len tl (S i) c1 None
          else if c1 =? c_gt then
            if c2 =? c_eq then
              if c3 =? 32 then Ok (IGreaterThanOrEqual, i) else ci_loop len tl (S i) c1 None
            else if c2 =? 32 then Ok (IGreaterThan, i)
            else ci_loop len tl (S i) c1 None
          else if c1 =? c_eq then
            if c2 =? c_eq then
              if c3 =? 32 then Ok (IEqual, i) else ci_loop len tl (S i) c1 None
            else if c2 =? 32 then Ok (IUnify, i)
            else ci_loop len tl (S i) c1 None
          else ci_loop len tl (S i) c1 None
      end
  end.

Definition check_infix (chrs : str) : res (infix * nat) :=
  ci_loop (length chrs) chrs 0 c_hash None.

Fixpoint cai_loop (rest : str) (i : nat) (prev : N) (skip : option (N * N)) : infix * nat :=
  match rest with
  | [] => (INone, O)
  | c1 :: tl =>
      match skip with
      | Some (close, open) =>
          if c1 =? close then cai_loop tl (S i) open None
          else cai_loop tl (S i) prev skip
      | None =>
          let c2 := match tl with c :: _ => c | [] => c_hash end in
          if c1 =? c_dquote then
            if has_char c_dquote tl then cai_loop tl (S i) prev (Some (c_dquote, c1))
            else cai_loop tl (S i) c1 None
          else if c1 =? c_lpar then
            if has_char c_rpar tl then cai_loop tl (S i) prev (Some (c_rpar, c1))
            else cai_loop tl (S i) c1 None
          else if negb (prev =? 32) then cai_loop tl (S i) c1 None
          else if c1 =? c_plus then
            if c2 =? 32 then (IPlus, i) else cai_loop tl (S i) c1 None
          else if c1 =? c_minus then
            if c2 =? 32 then (IMinus, i) else cai_loop tl (S i) c1 None
          else if c1 =? c_star then
            if c2 =? 32 then (IMultiply, i) else cai_loop tl (S i) c1 None
          else if c1 =? c_slash then
            if c2 =? 32 then (IDivide, i) else cai_loop tl (S i) c1 None
          else cai_loop tl (S i) c1 None
      end
  end.

Definition check_arithmetic_infix (chrs : str) : infix * nat := cai_loop chrs 0 c_hash None.

(* ---- s_linked_list.rs: equal_escape ---- *)
Definition equal_escape (v : str) (index : nat) (ch : N) : res bool :=
  match nth_error v index with
  | None => Panic
  | Some c =>
      if c =? ch then
        match index with
        | O => Ok true
        | S p =>
            match nth_error v p with
            | Some b => Ok (negb (b =? c_bslash))
            | None => Panic
            end
        end
      else Ok false
  end.

(* s_complex.rs: validate_complex.  true = Some(error message) *)
Definition validate_complex (chrs : str) : bool :=
  match chrs with
  | [] => true
  | first :: _ =>
      if (1000 <? length chrs)%nat then true
      else (first =? c_dollar) || (first =? c_lpar)
  end.

Definition fn_join : str := s2l "join(".
Definition fn_add : str := s2l "add(".
Definition fn_subtract : str := s2l "subtract(".
Definition fn_multiply : str := s2l "multiply(".
Definition fn_divide : str := s2l "divide(".

(* parse_terms.rs: classify_term - (has_digit, has_non_digit, has_period); a sign in front
   is part of a number *)
Fixpoint classify_loop (s : str) (i : nat) (hd hnd hp : bool) : bool * bool * bool :=
  match s with
  | [] => (hd, hnd, hp)
  | ch :: r =>
      if is_digit ch then classify_loop r (S i) true hnd hp
      else if ch =? c_period then classify_loop r (S i) hd hnd true
      else if (i =? 0)%nat && ((ch =? c_plus) || (ch =? c_minus)) then classify_loop r (S i) hd hnd hp
      else classify_loop r (S i) hd true hp
  end.
Definition classify_term (term_chars : str) : bool * bool * bool :=
  classify_loop term_chars 0 false false false.

(* state of the loop of parse_linked_list *)
Record pll_state := mkPll {
  pll_list : term; pll_end : nat; pll_vbar : bool; pll_oq : bool; pll_nq : N;
  pll_rd : Z; pll_sd : Z }.

(* state of the loop of parse_arguments *)
Record pa_state := mkPa {
  pa_oq : bool; pa_nq : N; pa_rd : Z; pa_sd : Z;
  pa_arg : str; pa_terms : list term; pa_start : nat }.

Definition pa_push (c : N) (st : pa_state) : pa_state :=
  mkPa (pa_oq st) (pa_nq st) (pa_rd st) (pa_sd st) (pa_arg st ++ [c]) (pa_terms st) (pa_start st).
Definition pa_set_quote (oq : bool) (nq : N) (st : pa_state) : pa_state :=
  mkPa oq nq (pa_rd st) (pa_sd st) (pa_arg st) (pa_terms st) (pa_start st).
Definition pa_set_depth (rd sd : Z) (st : pa_state) : pa_state :=
  mkPa (pa_oq st) (pa_nq st) rd sd (pa_arg st) (pa_terms st) (pa_start st).

Section Bodies.
  (* the recursive calls: parse_term and parse_arguments on a nested text *)
  Variable rec_term : str -> res (presult term).
  Variable rec_args : str -> res (presult (list term)).

  (* ---- parse_goals.rs: get_left_and_right ---- *)
  Definition get_left_and_right (chrs : str) (index size : nat) : res (presult (term * term)) :=
    do arg1 <- slice chrs 0 index;
    do arg2 <- slice chrs (index + size) (length chrs);
    dop term1 <- rec_term arg1;
    dop term2 <- rec_term arg2;
    pok (term1, term2).

  (* ---- s_linked_list.rs: parse_linked_list ---- *)
  Definition pll_step (args : str) (ind : nat) (st : pll_state) : res (presult pll_state) :=
    let '(mkPll list end_index vbar oq nq rd sd) := st in
    if oq then
      do q <- equal_escape args ind c_dquote;
      if q then pok (mkPll list end_index vbar false (nq + 1) rd sd) else pok st
    else
      do b1 <- equal_escape args ind c_rbr;
      if b1 then pok (mkPll list end_index vbar oq nq rd (sd + 1)%Z) else
      do b2 <- equal_escape args ind c_lbr;
      if b2 then pok (mkPll list end_index vbar oq nq rd (sd - 1)%Z) else
      do b3 <- equal_escape args ind c_rpar;
      if b3 then pok (mkPll list end_index vbar oq nq (rd + 1)%Z sd) else
      do b4 <- equal_escape args ind c_lpar;
      if b4 then pok (mkPll list end_index vbar oq nq (rd - 1)%Z sd) else
      if ((rd =? 0) && (sd =? 0))%Z then
        do b5 <- equal_escape args ind c_dquote;
        if b5 then pok (mkPll list end_index vbar true (nq + 1) rd sd) else
        do b6 <- equal_escape args ind c_comma;
        if b6 then
          do sl <- slice args (ind + 1) end_index;
          let s2 := trim sl in
          match s2 with
          | [] => perr
          | _ =>
              do cq <- check_quotes s2 nq;
              if cq then perr
              else
                dop term <- rec_term s2;
                do l <- link_front term false list;
                pok (mkPll l ind vbar oq 0 rd sd)
          end
        else
        do b7 <- equal_escape args ind c_bar;
        if b7 then
          if vbar then perr
          else
            do sl <- slice args (ind + 1) end_index;
            let term_str2 := trim sl in
            match term_str2 with
            | [] => perr
            | _ =>
                (* the tail may be the anonymous variable: [a | $_] *)
                match (if str_eqb term_str2 [c_dollar; c_underscore] then POk TAnon else make_logic_var term_str2) with
                | PErr => perr
                | POk var =>
                    do l <- link_front var true list;
                    pok (mkPll l ind true oq nq rd sd)
                end
            end
        else pok st
      else pok st.

  Definition pll_final (args : str) (st : pll_state) : res (presult term) :=
    do sl <- slice args 0 (pll_end st);
    let s2 := trim sl in
    match s2 with
    | [] => perr
    | _ =>
        do cq <- check_quotes s2 (pll_nq st);
        if cq then perr
        else
          dop term <- rec_term s2;
          do l <- link_front term false (pll_list st);
          pok l
    end.

  Fixpoint pll_loop (args : str) (ind : nat) (st : pll_state) : res (presult term) :=
    dop st' <- pll_step args ind st;
    match ind with
    | O => pll_final args st'
    | S i' => pll_loop args i' st'
    end.

  Definition parse_linked_list_body (to_parse : str) : res (presult term) :=
    let s := trim to_parse in
    let len := length s in
    if (len <? 2)%nat then perr
    else
      match s with
      | [] => Panic                                  (* the_chars[0]; not reached *)
      | first :: _ =>
          if negb (first =? c_lbr) then perr
          else if negb (List.last s 0 =? c_rbr) then perr
          else if (len =? 2)%nat then pok empty_list
          else
            do args <- slice s 1 (len - 1);
            let la := length args in
            if (la <? 1)%nat then Panic               (* length_args - 1; not reached *)
            else pll_loop args (la - 1) (mkPll empty_list la false false 0 0%Z 0%Z)
      end.

  (* ---- s_complex.rs: parse_functor_terms, parse_complex ---- *)
  Definition parse_functor_terms (functor terms : str) : res (presult term) :=
    match terms with
    | [] => pok (TComplex [TAtom (trim functor)])
    | _ => dop ts <- rec_args terms; pok (TComplex (TAtom (trim functor) :: ts))
    end.

  Definition parse_complex_body (to_parse : str) : res (presult term) :=
    let s := trim to_parse in
    if validate_complex s then perr
    else
      match indices_of_parentheses s with
      | PErr => perr
      | POk (Some (lft, rgt)) =>
          do functor <- slice s 0 lft;
          do args <- slice s (lft + 1) rgt;
          parse_functor_terms functor args
      | POk None => parse_functor_terms s []
      end.

  (* ---- built_in_functions.rs: parse_function ---- *)
  Definition parse_function_body (to_parse : str) : res (presult term) :=
    let s := trim to_parse in
    if validate_complex s then perr
    else
      match indices_of_parentheses s with
      | PErr => perr
      | POk (Some (lft, rgt)) =>
          do name <- slice s 0 lft;
          do terms_str <- slice s (lft + 1) rgt;
          match terms_str with
          | [] => perr
          | _ => dop ts <- rec_args terms_str; pok (TFun name ts)
          end
      | POk None => perr
      end.

  (* ---- parse_terms.rs: make_term ---- *)
  Definition make_term (to_parse : str) : res (presult term) :=
    let s := trim to_parse in
    let '(has_digit, has_non_digit, has_period) := classify_term s in
    match s with
    | [] => perr
    | first :: _ =>
        if first =? c_dollar then
          if str_eqb s (s2l "$_") then pok TAnon
          else
            match make_logic_var s with
            | POk v => pok v
            | PErr => pok (TAtom s)
            end
        else
          let len := length s in
          let last := List.last s 0 in
          let number_or_atom : res (presult term) :=
            if has_digit && negb has_non_digit then
              if has_period then
                match parse_f64 s with Some f => pok (TFloat f) | None => perr end
              else
                match parse_i64 s with Some z => pok (TInt z) | None => perr end
            else pok (TAtom s) in
          if (2 <=? len)%nat then
            if first =? c_dquote then
              if last =? c_dquote then
                do chars2 <- slice s 1 (len - 1);
                match chars2 with
                | [] => perr
                | _ => pok (TAtom chars2)
                end
              else perr
            else if (first =? c_lbr) && (last =? c_rbr) then parse_linked_list_body s
            else if negb (first =? c_lpar) && (last =? c_rpar) then
              if str_prefix fn_join s then parse_function_body s
              else if str_prefix fn_add s then parse_function_body s
              else if str_prefix fn_subtract s then parse_function_body s
              else if str_prefix fn_multiply s then parse_function_body s
              else if str_prefix fn_divide s then parse_function_body s
              else parse_complex_body s
            else number_or_atom
          else number_or_atom
    end.

  (* ---- parse_terms.rs: parse_arguments ---- *)
  Definition pa_make (st : pa_state) : res (presult term) :=
    let s2 := trim (pa_arg st) in
    do cq <- check_quotes s2 (pa_nq st);
    if cq then perr else make_term s2.

  Fixpoint pa_loop (len : nat) (rest : str) (i : nat) (st : pa_state) : res (presult pa_state) :=
    match rest with
    | [] => pok st
    | ch :: tl =>
        if pa_oq st then
          let st1 := pa_push ch st in
          pa_loop len tl (S i)
            (if ch =? c_dquote then pa_set_quote false (pa_nq st1 + 1) st1 else st1)
        else if ch =? c_lbr then
          pa_loop len tl (S i) (pa_set_depth (pa_rd st) (pa_sd st + 1)%Z (pa_push ch st))
        else if ch =? c_rbr then
          pa_loop len tl (S i) (pa_set_depth (pa_rd st) (pa_sd st - 1)%Z (pa_push ch st))
        else if ch =? c_lpar then
          pa_loop len tl (S i) (pa_set_depth (pa_rd st + 1)%Z (pa_sd st) (pa_push ch st))
        else if ch =? c_rpar then
          pa_loop len tl (S i) (pa_set_depth (pa_rd st - 1)%Z (pa_sd st) (pa_push ch st))
        else if ((pa_rd st =? 0) && (pa_sd st =? 0))%Z then
          if ch =? c_comma then
            dop term <- pa_make st;
            pa_loop len tl (S i)
              (mkPa (pa_oq st) 0 (pa_rd st) (pa_sd st) [] (pa_terms st ++ [term]) (S i))
          else if ch =? c_bslash then
            if (i + 1 <? len)%nat then
              match tl with
              | [] => Panic                                     (* chrs[i + 1] *)
              | c2 :: tl2 => pa_loop len tl2 (S (S i)) (pa_push c2 st)
              end
            else pa_loop len tl (S i) (pa_push ch st)
          else if ch =? c_dquote then
            let st1 := pa_push ch st in
            pa_loop len tl (S i) (pa_set_quote true (pa_nq st1 + 1) st1)
          else pa_loop len tl (S i) (pa_push ch st)
        else pa_loop len tl (S i) (pa_push ch st)
    end.

  Definition parse_arguments_body (to_parse : str) : res (presult (list term)) :=
    let s := trim to_parse in
    let len := length s in
    match s with
    | [] => perr
    | first :: _ =>
        if first =? c_comma then perr
        else
          do bad_end <-
            (if List.last s 0 =? c_comma then
               if (len <? 2)%nat then Panic                     (* length_chrs - 2 *)
               else
                 match nth_error s (len - 2) with
                 | None => Panic
                 | Some prev => Ok (negb (prev =? c_bslash))
                 end
             else Ok false);
          if bad_end then perr
          else
            dop st <- pa_loop len s 0 (mkPa false 0 0%Z 0%Z [] [] 0);
            dop terms <-
              (if (pa_start st <? len)%nat then
                 dop term <- pa_make st; pok (pa_terms st ++ [term])
               else pok (pa_terms st));
            if negb (pa_rd st =? 0)%Z then perr
            else if negb (pa_sd st =? 0)%Z then perr
            else pok terms
    end.

  (* ---- parse_terms.rs: parse_term ---- *)
  Definition infix_fn_name (i : infix) : option str :=
    match i with
    | IPlus => Some (s2l "add")
    | IMinus => Some (s2l "subtract")
    | IMultiply => Some (s2l "multiply")
    | IDivide => Some (s2l "divide")
    | _ => None
    end.

  Definition parse_term_body (to_parse : str) : res (presult term) :=
    let s := trim to_parse in
    let '(infix, index) := check_arithmetic_infix s in
    match infix_fn_name infix with
    | Some name =>
        dop lr <- get_left_and_right s index 1;
        pok (TFun name [fst lr; snd lr])
    | None =>
        let s' := match s with
                  | [c0; _] => if c0 =? c_bslash then tl s else s
                  | _ => s
                  end in
        make_term s'
    end.
End Bodies.

(* ---- tying the knot: one unit of fuel per nested parse_term / parse_arguments ---- *)
Fixpoint parse_term (fuel : nat) (s : str) : res (presult term) :=
  match fuel with
  | O => OutOfFuel
  | S f => parse_term_body (parse_term f) (parse_arguments f) s
  end
with parse_arguments (fuel : nat) (s : str) : res (presult (list term)) :=
  match fuel with
  | O => OutOfFuel
  | S f => parse_arguments_body (parse_term f) (parse_arguments f) s
  end.

Definition parse_linked_list (fuel : nat) (s : str) : res (presult term) :=
  parse_linked_list_body (parse_term fuel) s.
Definition parse_complex (fuel : nat) (s : str) : res (presult term) :=
  parse_complex_body (parse_arguments fuel) s.
Definition parse_function (fuel : nat) (s : str) : res (presult term) :=
  parse_function_body (parse_arguments fuel) s.

(* ---- s_complex.rs: parse_query.  make_complex / make_query are in Model/Rename.v; the
   value of LOGIC_VAR_ID after the call is dropped here. ---- *)
Definition parse_query (fuel : nat) (to_parse : str) : res (presult goal) :=
  let parse2 :=
    match to_parse with
    | [] => to_parse
    | _ => if List.last to_parse 0 =? c_period then removelast to_parse else to_parse
    end in
  dop q <- parse_complex fuel parse2;
  match q with
  | TComplex terms => do r <- make_query terms; pok (fst r)
  | _ => Panic                                         (* "Cannot happen." *)
  end.

(* fuel that always suffices (Proofs/ParseTermProofs.v) *)
Definition parse_fuel (s : str) : nat := length s + 2.
