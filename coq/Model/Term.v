(* Terms, goals, rules: constructor for constructor the Rust enums `Unifiable`, `Goal`,
   `Operator`, `BuiltInPredicate`, `Rule` — including the raw list-node representation
   (`count`, `tail_var`, the `Nil` terminator). *)
From Suiron Require Export Model.Str Model.Float.
Open Scope N_scope.

Inductive term :=
| TNil
| TAnon
| TAtom (s : str)
| TFloat (f : f64)
| TInt (z : Z)
| TVar (id : N) (name : str)
| TComplex (ts : list term)
| TList (t next : term) (count : N) (tv : bool)
| TFun (name : str) (args : list term).

Inductive opkind := OAnd | OOr | OTime | ONot.

Inductive goal :=
| GOp (k : opkind) (gs : list goal)
| GBip (functor : str) (terms : option (list term))
| GCall (t : term)
| GNil.

Record rule := mkRule { r_head : term; r_body : goal }.

(* ---- outcomes of a Rust call: a value, a panic, or (model only) fuel exhausted,
   standing for a loop / recursion that has not finished ---- *)
Inductive res (A : Type) :=
| Ok (a : A)
| Panic
| OutOfFuel.
Arguments Ok {A} a.
Arguments Panic {A}.
Arguments OutOfFuel {A}.

Definition bind {A B} (r : res A) (f : A -> res B) : res B :=
  match r with
  | Ok a => f a
  | Panic => Panic
  | OutOfFuel => OutOfFuel
  end.
Notation "'do' x <- r ; k" := (bind r (fun x => k))
  (at level 200, x pattern, r at level 100, k at level 200).

(* ---- induction principle for the nested type ---- *)
Section term_ind'.
  Variable P : term -> Prop.
  Hypothesis HNil : P TNil.
  Hypothesis HAnon : P TAnon.
  Hypothesis HAtom : forall s, P (TAtom s).
  Hypothesis HFloat : forall f, P (TFloat f).
  Hypothesis HInt : forall z, P (TInt z).
  Hypothesis HVar : forall id name, P (TVar id name).
  Hypothesis HComplex : forall ts, Forall P ts -> P (TComplex ts).
  Hypothesis HList : forall t next c tv, P t -> P next -> P (TList t next c tv).
  Hypothesis HFun : forall name args, Forall P args -> P (TFun name args).

  Fixpoint term_ind' (t : term) : P t :=
    match t with
    | TNil => HNil
    | TAnon => HAnon
    | TAtom s => HAtom s
    | TFloat f => HFloat f
    | TInt z => HInt z
    | TVar id name => HVar id name
    | TComplex ts =>
        HComplex ts ((fix go (l : list term) : Forall P l :=
                        match l with
                        | [] => Forall_nil P
                        | x :: l' => Forall_cons x (term_ind' x) (go l')
                        end) ts)
    | TList a b c tv => HList a b c tv (term_ind' a) (term_ind' b)
    | TFun name args =>
        HFun name args ((fix go (l : list term) : Forall P l :=
                           match l with
                           | [] => Forall_nil P
                           | x :: l' => Forall_cons x (term_ind' x) (go l')
                           end) args)
    end.
End term_ind'.

(* ---- Rust's derived `PartialEq` on `Unifiable` (floats by IEEE `==`) ---- *)
Fixpoint term_eqb (a b : term) : bool :=
  match a, b with
  | TNil, TNil => true
  | TAnon, TAnon => true
  | TAtom s1, TAtom s2 => str_eqb s1 s2
  | TFloat f1, TFloat f2 => feqb f1 f2
  | TInt z1, TInt z2 => Z.eqb z1 z2
  | TVar i1 n1, TVar i2 n2 => N.eqb i1 i2 && str_eqb n1 n2
  | TComplex l1, TComplex l2 =>
      (fix go (l1 l2 : list term) : bool :=
         match l1, l2 with
         | [], [] => true
         | x :: l1', y :: l2' => term_eqb x y && go l1' l2'
         | _, _ => false
         end) l1 l2
  | TList t1 n1 c1 v1, TList t2 n2 c2 v2 =>
      term_eqb t1 t2 && term_eqb n1 n2 && N.eqb c1 c2 && Bool.eqb v1 v2
  | TFun f1 l1, TFun f2 l2 =>
      str_eqb f1 f2 &&
      (fix go (l1 l2 : list term) : bool :=
         match l1, l2 with
         | [], [] => true
         | x :: l1', y :: l2' => term_eqb x y && go l1' l2'
         | _, _ => false
         end) l1 l2
  | _, _ => false
  end.

Definition is_nil (t : term) : bool := match t with TNil => true | _ => false end.
Definition is_anon (t : term) : bool := match t with TAnon => true | _ => false end.
Definition is_var (t : term) : bool := match t with TVar _ _ => true | _ => false end.
Definition is_list (t : term) : bool := match t with TList _ _ _ _ => true | _ => false end.

(* The empty list, which is also the terminator node of every list. *)
Definition empty_list : term := TList TNil TNil 0 false.

Definition opkind_eqb (a b : opkind) : bool :=
  match a, b with
  | OAnd, OAnd | OOr, OOr | OTime, OTime | ONot, ONot => true
  | _, _ => false
  end.

Fixpoint terms_eqb (l1 l2 : list term) : bool :=
  match l1, l2 with
  | [], [] => true
  | x :: l1', y :: l2' => term_eqb x y && terms_eqb l1' l2'
  | _, _ => false
  end.

(* Rust's derived `PartialEq` on `Goal` *)
Fixpoint goal_eqb (a b : goal) : bool :=
  match a, b with
  | GOp k1 l1, GOp k2 l2 =>
      opkind_eqb k1 k2 &&
      (fix go (l1 l2 : list goal) : bool :=
         match l1, l2 with
         | [], [] => true
         | x :: l1', y :: l2' => goal_eqb x y && go l1' l2'
         | _, _ => false
         end) l1 l2
  | GBip f1 None, GBip f2 None => str_eqb f1 f2
  | GBip f1 (Some t1), GBip f2 (Some t2) => str_eqb f1 f2 && terms_eqb t1 t2
  | GCall t1, GCall t2 => term_eqb t1 t2
  | GNil, GNil => true
  | _, _ => false
  end.

Definition is_gnil (g : goal) : bool := match g with GNil => true | _ => false end.
