(* Strings as lists of Unicode scalar values.  Rust compares `String`s bytewise in
   UTF-8, which is the lexicographic order of scalar values, so equality, `cmp` and
   `starts_with` on `list N` are faithful; the parsers index by `char`, i.e. by
   element of this list. *)
From Coq Require Export List NArith ZArith Bool.
From Coq Require Import String Ascii Decimal.
Export ListNotations.

Definition str := list N.

Fixpoint s2l (s : string) : str :=
  match s with
  | EmptyString => []
  | String a r => N_of_ascii a :: s2l r
  end.

Fixpoint str_eqb (a b : str) : bool :=
  match a, b with
  | [], [] => true
  | x :: a', y :: b' => N.eqb x y && str_eqb a' b'
  | _, _ => false
  end.

Fixpoint str_cmp (a b : str) : comparison :=
  match a, b with
  | [], [] => Eq
  | [], _ :: _ => Lt
  | _ :: _, [] => Gt
  | x :: a', y :: b' =>
      match N.compare x y with
      | Eq => str_cmp a' b'
      | c => c
      end
  end.

(* Rust `str::starts_with` *)
Fixpoint str_prefix (p s : str) : bool :=
  match p, s with
  | [], _ => true
  | x :: p', y :: s' => N.eqb x y && str_prefix p' s'
  | _ :: _, [] => false
  end.

Lemma str_eqb_refl a : str_eqb a a = true.
Proof. induction a as [|x a IH]; simpl; [reflexivity|]. now rewrite N.eqb_refl, IH. Qed.

Lemma str_eqb_eq a b : str_eqb a b = true <-> a = b.
Proof.
  revert b; induction a as [|x a IH]; intros [|y b]; simpl; split; intro H;
    try reflexivity; try discriminate.
  - apply andb_true_iff in H as [H1 H2]. apply N.eqb_eq in H1. apply IH in H2. now subst.
  - inversion H; subst. now rewrite N.eqb_refl, str_eqb_refl.
Qed.

Lemma str_eqb_sym a b : str_eqb a b = str_eqb b a.
Proof.
  revert b; induction a as [|x a IH]; intros [|y b]; simpl; try reflexivity.
  now rewrite N.eqb_sym, IH.
Qed.

(* ---- decimal text of integers (Rust `{}` on i64 / usize) ---- *)

Fixpoint uint_digits (u : uint) : str :=
  match u with
  | Nil => []
  | D0 r => 48%N :: uint_digits r
  | D1 r => 49%N :: uint_digits r
  | D2 r => 50%N :: uint_digits r
  | D3 r => 51%N :: uint_digits r
  | D4 r => 52%N :: uint_digits r
  | D5 r => 53%N :: uint_digits r
  | D6 r => 54%N :: uint_digits r
  | D7 r => 55%N :: uint_digits r
  | D8 r => 56%N :: uint_digits r
  | D9 r => 57%N :: uint_digits r
  end.

Definition show_N (n : N) : str :=
  match n with
  | N0 => [48%N]
  | Npos p => uint_digits (Pos.to_uint p)
  end.

Definition show_Z (z : Z) : str :=
  match z with
  | Z0 => [48%N]
  | Zpos p => uint_digits (Pos.to_uint p)
  | Zneg p => 45%N :: uint_digits (Pos.to_uint p)
  end.

Definition ch_space : N := 32%N.
