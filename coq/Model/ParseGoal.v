(* parse_goals.rs: split_complex_term, parse_subgoal, make_goal, make_goal_no_args,
   parse_operator_goal (indices_of_parentheses and get_left_and_right are in ParseTerm.v,
   because parse_term and parse_complex use them).  In this tree parse_operator_goal calls
   parse_subgoal on the text between the parentheses, so the function is self-contained:
   one more unit of fuel per nested not(...) / time(...). *)
From Coq Require Import String.
From Suiron Require Export Model.ParseTerm.
Open Scope N_scope.

Definition g_bang : str := s2l "!".
Definition g_fail : str := s2l "fail".
Definition g_nl : str := s2l "nl".
Definition g_time : str := s2l "time".
Definition g_not : str := s2l "not".

Definition bip_with_args : list str :=
  map s2l ["print"; "append"; "functor"; "include"; "exclude"; "print_list"; "unify"; "equal";
           "less_than"; "less_than_or_equal"; "greater_than"; "greater_than_or_equal";
           "count"; "include"; "exclude"; "functor"]%string.

(* make_goal *)
Definition make_goal (functor : str) (args : list term) : goal :=
  if str_eqb functor g_fail || str_eqb functor g_nl || str_eqb functor g_bang
  then GBip functor None
  else if existsb (str_eqb functor) bip_with_args then GBip functor (Some args)
  else GCall (TComplex (TAtom functor :: args)).

(* make_goal_no_args *)
Definition make_goal_no_args (functor : str) : goal :=
  if str_eqb functor g_fail || str_eqb functor g_nl || str_eqb functor g_bang
  then GBip functor None
  else GCall (TComplex [TAtom functor]).

(* split_complex_term: two slices *)
Definition split_complex_term (complex : str) (index1 index2 : nat) : res (str * str) :=
  do functor <- slice complex 0 index1;
  do terms <- slice complex (index1 + 1) index2;
  Ok (functor, terms).

Definition infix_goal_name (i : infix) : option str :=
  match i with
  | IUnify => Some (s2l "unify")
  | IEqual => Some (s2l "equal")
  | ILessThan => Some (s2l "less_than")
  | ILessThanOrEqual => Some (s2l "less_than_or_equal")
  | IGreaterThan => Some (s2l "greater_than")
  | IGreaterThanOrEqual => Some (s2l "greater_than_or_equal")
  | _ => None
  end.

Section Bodies.
  Variable rec_term : str -> res (presult term).
  Variable rec_args : str -> res (presult (list term)).
  Variable rec_subgoal : str -> res (presult goal).

  (* parse_operator_goal *)
  Definition parse_operator_goal (name args_str : str) : res (presult goal) :=
    dop subgoal <- rec_subgoal args_str;
    if str_eqb name g_time then pok (GOp OTime [subgoal])
    else if str_eqb name g_not then pok (GOp ONot [subgoal])
    else perr.

  (* parse_subgoal *)
  Definition parse_subgoal_body (to_parse : str) : res (presult goal) :=
    let s := trim to_parse in
    match s with
    | [] => perr
    | _ =>
        if str_eqb s g_bang || str_eqb s g_fail || str_eqb s g_nl then pok (GBip s None)
        else
          do ii <- check_infix s;
          let '(infix, index) := ii in
          if negb (infix_eqb infix INone) then
            dop lr <- get_left_and_right rec_term s index 2;
            match infix_goal_name infix with
            | Some name => pok (make_goal name [fst lr; snd lr])
            | None => perr
            end
          else
            match indices_of_parentheses s with
            | PErr => perr
            | POk None =>
                dop c <- parse_functor_terms rec_args s [];
                pok (GCall c)
            | POk (Some (left_index, right_index)) =>
                do fa <- split_complex_term s left_index right_index;
                let '(functor_str, args_str) := fa in
                if str_eqb functor_str g_time || str_eqb functor_str g_not then
                  parse_operator_goal functor_str args_str
                else
                  (* a goal without arguments written with empty parentheses: go() *)
                  match trim args_str with
                  | [] => pok (make_goal_no_args functor_str)
                  | _ =>
                      dop args <- rec_args args_str;
                      pok (make_goal functor_str args)
                  end
            end
    end.
End Bodies.

Fixpoint parse_subgoal (fuel : nat) (s : str) : res (presult goal) :=
  match fuel with
  | O => OutOfFuel
  | S f => parse_subgoal_body (parse_term f) (parse_arguments f) (parse_subgoal f) s
  end.
