(* time_out.rs: the stop-query flag as a state machine (C23, the part of the timer that is logic).

   QUERY_STATE is one atomic word: the number of the current query and its status.  Every
   operation of the module is ONE atomic read-modify-write of that word, so the interleavings
   of the main thread and the timer threads are exactly the sequences of these steps:

     TStart        start_query_timer: next query number, Running; the new timer remembers that state
     TStartQuery   start_query (make_query): next query number, Running
     TFire k       the k-th timer ever started times out (at ANY moment: also after cancel_timer -
                   ThreadTimer::cancel() can fail - and after later queries have started):
                   compare-and-swap (its remembered state -> Stopped)
     TCancel       cancel_timer: Running -> Cancelled
     TStop         stop_query: status := Stopped
     TRead         query_stopped

   `old_*` below is the protocol as it was before commit ba4370f (generation counter and a
   separate flag; the timer checks, then stores - two steps), kept to show the defect. *)
From Coq Require Import List NArith Bool.
Import ListNotations.
Open Scope N_scope.

Inductive tstatus := Running | Stopped | Cancelled.
Record tstate := mkT { tgen : N; tstat : tstatus }.

Definition tstatus_eqb (a b : tstatus) : bool :=
  match a, b with Running, Running | Stopped, Stopped | Cancelled, Cancelled => true | _, _ => false end.
Definition tstate_eqb (a b : tstate) : bool := (tgen a =? tgen b) && tstatus_eqb (tstat a) (tstat b).

Inductive top := TStart | TStartQuery | TFire (k : nat) | TCancel | TStop | TRead.

(* the word, and the states remembered by the timers started so far *)
Record tsys := mkS { cur : tstate; started : list tstate }.

Definition flag (s : tsys) : bool := tstatus_eqb (tstat (cur s)) Stopped.

Definition next_query (c : tstate) : tstate := mkT (tgen c + 1) Running.

Definition tstep (s : tsys) (o : top) : tsys :=
  match o with
  | TStart => let c := next_query (cur s) in mkS c (started s ++ [c])
  | TStartQuery => mkS (next_query (cur s)) (started s)
  | TFire k =>
      match nth_error (started s) k with
      | Some m => if tstate_eqb (cur s) m then mkS (mkT (tgen m) Stopped) (started s) else s
      | None => s
      end
  | TCancel => match tstat (cur s) with
               | Running => mkS (mkT (tgen (cur s)) Cancelled) (started s)
               | _ => s
               end
  | TStop => mkS (mkT (tgen (cur s)) Stopped) (started s)
  | TRead => s
  end.

Definition tinit : tsys := mkS (mkT 0 Running) [].
Definition trun (ops : list top) : tsys := fold_left tstep ops tinit.

(* what a test observes after every step: the word (query number, status) *)
Fixpoint tobs (s : tsys) (ops : list top) : list tstate :=
  match ops with
  | [] => []
  | o :: r => let s' := tstep s o in cur s' :: tobs s' r
  end.

(* ---- the protocol before the repair: generation counter + flag, timer in two steps ---- *)
Record osys := mkO { ogen : N; oflag : bool; ostarted : list N; opassed : list nat (* timers between check and store *) }.
Inductive oop := OStart | OCancel | OFireCheck (k : nat) | OFireStore (k : nat) | ORead.
Definition ostep (s : osys) (o : oop) : osys :=
  match o with
  | OStart => mkO (ogen s + 1) false (ostarted s ++ [ogen s + 1]) (opassed s)
  | OCancel => mkO (ogen s + 1) (oflag s) (ostarted s) (opassed s)
  | OFireCheck k =>
      match nth_error (ostarted s) k with
      | Some g => if ogen s =? g then mkO (ogen s) (oflag s) (ostarted s) (k :: opassed s) else s
      | None => s
      end
  | OFireStore k => if existsb (Nat.eqb k) (opassed s) then mkO (ogen s) true (ostarted s) (opassed s) else s
  | ORead => s
  end.
Definition oinit : osys := mkO 0 false [] [].
