(* s_linked_list.rs: list construction and traversal (everything except filter, which
   needs unify, and the parser). *)
From Suiron Require Export Model.Subst.
Open Scope N_scope.

Definition node_count (l : term) : N := match l with TList _ _ c _ => c | _ => 0 end.

(* link_front: panics unless `list` is a list node *)
Definition link_front (new_term : term) (tail : bool) (list : term) : res term :=
  match list with
  | TList _ _ c _ => Ok (TList new_term list (c + 1) tail)
  | _ => Panic
  end.

(* make_list_of_terms: exactly the given terms, one node each *)
Definition make_list_of_terms (terms : list term) : term :=
  fold_right (fun t l => TList t l (node_count l + 1) false) empty_list terms.

(* make_linked_list(vbar, terms) — the documented constructor. *)
Definition mll_step (acc : term * N * bool) (x : term) : term * N * bool :=
  let '(tail, num, tv) := acc in (TList x tail num tv, num + 1, false).

Definition make_linked_list (vbar : bool) (terms : list term) : term :=
  match rev terms with
  | [] => empty_list
  | [x] => TList x empty_list 1 vbar
  | last :: before_rev =>
      let start :=
        match last with
        | TList t n c tf =>
            if is_nil t then (empty_list, 1, false) else (TList t n c tf, c + 1, false)
        | TNil => (empty_list, 1, vbar)
        | _ => (TList last empty_list 1 vbar, 2, false)
        end in
      fst (fst (fold_left mll_step before_rev start))
  end.

(* The traversal shared by count_terms / filter / get_terms: starting from the first node
   (head, slist) visit the elements, continuing through a tail variable that is bound to a
   list.  `on_unbound_tail` says what happens at a tail variable that is not bound to a
   list: count_terms stops there (`true`), filter and get_terms treat it as an element
   (`false`). *)
Fixpoint walk (fuel : nat) (stop_at_unbound_tail : bool) (head slist : term) (ss : subst)
  : res (list term) :=
  if is_nil head then Ok []
  else
    match fuel with
    | O => OutOfFuel
    | S f =>
        match slist with
        | TList t n _ tv =>
            if tv && negb (is_anon t) then
              do l <- get_list f t ss;
              match l with
              | Some (TList t2 n2 _ _) => do r <- walk f stop_at_unbound_tail t2 n2 ss; Ok (head :: r)
              | Some _ => do r <- walk f stop_at_unbound_tail t n ss; Ok (head :: r)
              | None =>
                  if stop_at_unbound_tail then Ok [head]
                  else do r <- walk f stop_at_unbound_tail t n ss; Ok (head :: r)
              end
            else do r <- walk f stop_at_unbound_tail t n ss; Ok (head :: r)
        | _ => Ok [head]
        end
    end.

(* count_terms *)
Definition count_terms (fuel : nat) (uni : term) (ss : subst) : res Z :=
  do u <- match uni with
          | TVar _ _ => get_ground_term fuel uni ss
          | _ => Ok (Some uni)
          end;
  match u with
  | None => Ok 1%Z
  | Some (TList t n _ _) => do l <- walk fuel true t n ss; Ok (Z.of_nat (length l))
  | Some _ => Ok 1%Z
  end.

(* get_terms *)
Definition get_terms (fuel : nat) (term0 : term) (ss : subst) : res (list term) :=
  do g <- get_ground_term fuel term0 ss;
  match g with
  | None => Ok [term0]
  | Some (TList t n _ _) => walk fuel false t n ss
  | Some t => Ok [t]
  end.
