(* Runs the extracted model (and specifications) on a file of cases, one per line, and
   prints, for each case, the framing  \002B\n <output text> \002E <result>\n  — the
   same framing the Rust harness prints, so that the checker treats both alike. *)
open Model
type nonrec string = String.t
open Sexp
open Conv

let fuel = nat_of_int 100000

let cmpop_of = function
  | "equal" -> CEq | "less_than" -> CLt | "less_than_or_equal" -> CLe
  | "greater_than" -> CGt | "greater_than_or_equal" -> CGe | a -> bad ("cmpop: " ^ a)
let arithop_of = function
  | "add" -> AAdd | "subtract" -> ASub | "multiply" -> AMul | "divide" -> ADiv
  | a -> bad ("arithop: " ^ a)

(* returns (output text, model result, what the specification demands or None when the
   case is outside the property's claim).  Where a theorem of Properties/ states that the
   model's result is the unique result the specification allows, the specification column
   is the model's result on the theorem's domain. *)
let run_case (c : Sexp.t) : string * Sexp.t * Sexp.t option =
  match c with
  | L [A "cmp"; A name; ts; ss] ->
    let ts = terms_of ts in
    let r = bip_compare fuel (cmpop_of name) (Some ts) (ss_of ss) in
    let m = sexp_of_res (sexp_of_opt sexp_of_ss) r in
    (* C14_compare_spec: two operands, run finished *)
    let spec = match r, ts with Ok _, [_; _] -> Some m | _ -> None in
    "", m, spec
  | L [A "eval"; A name; ts; ss] ->
    let r = evaluate fuel (arithop_of name) (terms_of ts) (ss_of ss) in
    let m = sexp_of_res sexp_of_term r in
    (* C12_evaluate_is_fold: every finished evaluation *)
    let spec = match r with Ok _ -> Some m | _ -> None in
    "", m, spec
  | _ ->
    (match Ops.run_case fuel c with
     | Some r -> r
     | None ->
       (match Ops_solve.run_case fuel c with
        | Some r -> r
        | None ->
          (match Ops_reader.run_case fuel c with
           | Some r -> r
           | None ->
             (match Ops_goals.run_case fuel c with
              | Some r -> r
              | None ->
                (match Ops_parse.run_case fuel c with
                 | Some r -> r
                 | None -> bad ("unknown case: " ^ Sexp.to_string c))))))

let () =
  let ic = if Array.length Sys.argv > 1 then open_in Sys.argv.(1) else stdin in
  set_binary_mode_out stdout true;
  (try
     while true do
       let line = input_line ic in
       if String.trim line <> "" then begin
         print_string "\002B\n";
         let out, r, spec =
           try run_case (Sexp.parse line)
           with
           | Bad m -> "", A ("bad:" ^ String.map (fun c -> if c = ' ' then '_' else c) m), None
           | Sexp.Parse_error m -> "", A ("bad:parse:" ^ m), None
           | Stack_overflow -> "", A "fuel", None in
         print_string out;
         print_string "\002E ";
         print_string (Sexp.to_string r);
         print_string "\t";
         print_string (match spec with Some s -> Sexp.to_string s | None -> "-");
         print_string "\n"
       end
     done
   with End_of_file -> ());
  flush stdout
