(* Parser operations (term level and parse_subgoal) on the extracted model. *)
open Model
type nonrec string = String.t
open Sexp
open Conv

let sexp_of_pres f = function
  | Ok (POk x) -> L [A "ok"; f x]
  | Ok PErr -> A "err"
  | Panic -> A "panic"
  | OutOfFuel -> A "fuel"

let infix_name = function
  | INone -> "none" | IUnify -> "unify" | IEqual -> "equal" | IGreaterThan -> "gt"
  | ILessThan -> "lt" | IGreaterThanOrEqual -> "ge" | ILessThanOrEqual -> "le"
  | IPlus -> "plus" | IMinus -> "minus" | IMultiply -> "multiply" | IDivide -> "divide"

let rec int_of_nat = function O -> 0 | S n -> 1 + int_of_nat n

let run_case (fuel : nat) (c : Sexp.t) : (string * Sexp.t * Sexp.t option) option =
  let model_only m = Some ("", m, None) in
  match c with
  | L [A "parse-term"; A s] -> model_only (sexp_of_pres sexp_of_term (parse_term fuel (str_of_atom s)))
  | L [A "unify-text"; A s] ->
    model_only (match parse_term fuel (str_of_atom s) with
        | Ok (POk t) -> sexp_of_res (sexp_of_opt sexp_of_ss) (unify fuel t (TVar (n_of_int 1, [n_of_int 36; n_of_int 82])) [])
        | Ok PErr -> A "err" | Panic -> A "panic" | OutOfFuel -> A "fuel")
  | L [A "parse-args"; A s] ->
    model_only (sexp_of_pres (fun ts -> L (List.map sexp_of_term ts)) (parse_arguments fuel (str_of_atom s)))
  | L [A "parse-list"; A s] -> model_only (sexp_of_pres sexp_of_term (parse_linked_list fuel (str_of_atom s)))
  | L [A "parse-complex"; A s] -> model_only (sexp_of_pres sexp_of_term (parse_complex fuel (str_of_atom s)))
  | L [A "parse-function"; A s] -> model_only (sexp_of_pres sexp_of_term (parse_function fuel (str_of_atom s)))
  | L [A "parse-query"; A s] -> model_only (sexp_of_pres sexp_of_goal (parse_query fuel (str_of_atom s)))
  | L [A "parse-subgoal"; A s] -> model_only (sexp_of_pres sexp_of_goal (parse_subgoal fuel (str_of_atom s)))
  | L [A "check-infix"; A s] ->
    model_only (sexp_of_res (fun (i, ix) -> L [A (infix_name i); A (string_of_int (int_of_nat ix))])
                  (check_infix (str_of_atom s)))
  | L [A "check-arith-infix"; A s] ->
    let (i, ix) = check_arithmetic_infix (str_of_atom s) in
    model_only (L [A "ok"; L [A (infix_name i); A (string_of_int (int_of_nat ix))]])
  | L [A "make-logic-var"; A s] ->
    model_only (sexp_of_pres sexp_of_term (Ok (make_logic_var (str_of_atom s))))
  | L [A "check-quotes"; A s; A n] ->
    model_only (sexp_of_res (fun b -> A (atom_of_bool b)) (check_quotes (str_of_atom s) (n_of_string n)))
  | L [A "indices-of-parens"; A s] ->
    model_only (sexp_of_pres (function
        | None -> A "none"
        | Some (x, y) -> L [A (string_of_int (int_of_nat x)); A (string_of_int (int_of_nat y))])
        (Ok (indices_of_parentheses (str_of_atom s))))
  | _ -> None
