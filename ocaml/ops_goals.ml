(* Goal- and rule-level parsers and printers: Model/Tokenizer.v, Model/ParseRule.v,
   Model/ShowGoal.v.

   The leaf parsers `parse_subgoal` / `parse_complex` are Section variables of the model.
   For the correspondence run they are supplied as a TABLE that travels with the case:
     (generate-goal s<text> ((sg s<leaf> <result>) (cx s<leaf> <result>) ...))
   where <result> is the observation of the real crate's parse_subgoal (sg) / parse_complex
   (cx) on that leaf text: (ok <goal|term>) | err | panic | diverged.  The generator fills
   the table from a first pass over the real crate.  A leaf text that the model asks for and
   that is not in the table is a machinery error (`bad:`), i.e. the check fails closed. *)
open Model
type nonrec string = String.t
open Sexp
open Conv

let sexp_of_str (s : str) = A (atom_of_str s)

let leaf_res (f : Sexp.t -> 'a) (x : Sexp.t) : 'a presult res =
  match x with
  | L [A "ok"; v] -> Ok (POk (f v))
  | A "err" -> Ok PErr
  | A "panic" -> Panic
  | A "diverged" | A "fuel" -> OutOfFuel
  | x -> bad ("leaf result: " ^ Sexp.to_string x)

let table_of (t : Sexp.t) =
  let sg = Hashtbl.create 16 and cx = Hashtbl.create 16 in
  (match t with
   | L es ->
     List.iter (function
         | L [A "sg"; A k; r] -> Hashtbl.replace sg k (leaf_res goal_of r)
         | L [A "cx"; A k; r] -> Hashtbl.replace cx k (leaf_res term_of r)
         | x -> bad ("table entry: " ^ Sexp.to_string x)) es
   | x -> bad ("table: " ^ Sexp.to_string x));
  let look tbl what (s : str) =
    let k = atom_of_str s in
    match Hashtbl.find_opt tbl k with
    | Some r -> r
    | None -> bad ("leaf not in table (" ^ what ^ "): " ^ k) in
  (look sg "sg", look cx "cx")

let rec sexp_of_token = function
  | Leaf (TTSubgoal, s) -> L [A "sub"; sexp_of_str s]
  | Leaf (TTComma, _) -> A "comma"
  | Leaf (TTSemicolon, _) -> A "semi"
  | Leaf (TTLParen, _) -> A "lp"
  | Leaf (TTRParen, _) -> A "rp"
  | Leaf (_, _) -> L [A "leaf"; A "?"]
  | Branch (ty, cs) ->
    let k = match ty with TTGroup -> "group" | TTAnd -> "and" | TTOr -> "or" | _ -> "branch?" in
    L (A k :: List.map sexp_of_token cs)

let sexp_of_pres f = function
  | Ok (POk v) -> L [A "ok"; f v]
  | Ok PErr -> A "err"
  | Panic -> A "panic"
  | OutOfFuel -> A "fuel"

let rule_of = function
  | L [A "rule"; h; b] -> { r_head = term_of h; r_body = goal_of b }
  | x -> bad ("rule: " ^ Sexp.to_string x)
let sexp_of_rule r = L [A "rule"; sexp_of_term r.r_head; sexp_of_goal r.r_body]

let run_case (fuel : nat) (c : Sexp.t) : (string * Sexp.t * Sexp.t option) option =
  let model_only m = Some ("", m, None) in
  match c with
  | L [A "tokenize"; A s] ->
    model_only (sexp_of_pres (fun ts -> L (List.map sexp_of_token ts)) (tokenize fuel (str_of_atom s)))
  | L [A "token-tree"; A s] ->
    model_only (sexp_of_pres sexp_of_token (token_tree fuel (str_of_atom s)))
  | L [A "generate-goal"; A s; table] ->
    let (sg, _) = table_of table in
    model_only (sexp_of_pres sexp_of_goal (generate_goal sg fuel (str_of_atom s)))
  | L [A "parse-rule"; A s; table] ->
    let (sg, cx) = table_of table in
    model_only (sexp_of_pres sexp_of_rule (parse_rule sg cx fuel (str_of_atom s)))
  | L [A "show-term"; t] ->
    model_only (L [A "ok"; sexp_of_str (show_term (term_of t))])
  | L [A "show-parse"; t] ->
    let text = show_term (term_of t) in
    model_only (L [A "ok"; sexp_of_str text; Ops_parse.sexp_of_pres sexp_of_term (parse_term fuel text)])
  | L [A "show-goal"; g] ->
    model_only (sexp_of_res sexp_of_str (show_goal (goal_of g)))
  | L [A "show-rule"; r] ->
    model_only (sexp_of_res sexp_of_str (show_rule (rule_of r)))
  | L [A "show-infix"; A name] ->
    let i = match name with
      | "none" -> INone | "unify" -> IUnify | "equal" -> IEqual | "gt" -> IGreaterThan
      | "lt" -> ILessThan | "ge" -> IGreaterThanOrEqual | "le" -> ILessThanOrEqual
      | "plus" -> IPlus | "minus" -> IMinus | "multiply" -> IMultiply | "divide" -> IDivide
      | x -> bad ("infix: " ^ x) in
    model_only (L [A "ok"; sexp_of_str (show_infix i)])
  | _ -> None
