(* C21: the source-file reader.  Case formats: see harness/src/ops_reader.rs.
   Layout (model side only):  (layout (RL ...) (B ...))   RL = (rl D (n D) ...)
   D = (d (B ...) <indent> <trail> <comment>)   B = (b <ws> <comment>)   or `-` for none. *)
open Model
type nonrec string = String.t
open Sexp
open Conv

let sx (s : str) = A (atom_of_str s)
let str_of = function A a -> str_of_atom a | x -> bad ("str: " ^ Sexp.to_string x)
let strs_of = function L l -> List.map str_of l | x -> bad ("strs: " ^ Sexp.to_string x)
let z_of = function A a -> z_of_string a | x -> bad ("int: " ^ Sexp.to_string x)
let nat_of = function A a -> nat_of_int (int_of_string a) | x -> bad ("nat: " ^ Sexp.to_string x)

let sexp_of_opt_msg = function None -> A "none" | Some m -> L [A "some"; sx m]
let sexp_of_rres f = function ROk x -> L [A "ok"; f x] | RErr m -> L [A "err"; sx m]
let res1 f = function Ok x -> f x | Panic -> A "panic" | OutOfFuel -> A "fuel"

let blank_of = function
  | L [A "b"; ws; c] -> { b_ws = str_of ws; b_comment = str_of c }
  | x -> bad ("blank: " ^ Sexp.to_string x)
let deco_of = function
  | L [A "d"; L bs; i; t; c] ->
    { d_before = List.map blank_of bs; d_indent = str_of i; d_trail = str_of t; d_comment = str_of c }
  | x -> bad ("deco: " ^ Sexp.to_string x)
let rl_of = function
  | L (A "rl" :: d :: more) ->
    (deco_of d, List.map (function L [n; d'] -> (nat_of n, deco_of d') | x -> bad ("cut: " ^ Sexp.to_string x)) more)
  | x -> bad ("rl: " ^ Sexp.to_string x)
let layout_of = function
  | L [A "layout"; L rls; L tr] -> { lay_rules = List.map rl_of rls; lay_trailer = List.map blank_of tr }
  | x -> bad ("layout: " ^ Sexp.to_string x)

let run_case (_fuel : nat) (c : Sexp.t) : (string * Sexp.t * Sexp.t option) option =
  let model_only m = Some ("", m, None) in
  match c with
  | L [A "strip"; line; rd; sd] ->
    model_only (res1 (fun ((t, rd'), sd') -> L [A "ok"; sx t; A (string_of_z rd'); A (string_of_z sd')])
                  (strip_comments_at (str_of line) (z_of rd) (z_of sd)))
  | L [A "checklast"; line; A num] ->
    model_only (sexp_of_res sexp_of_opt_msg (check_last_char (str_of line) (n_of_string num)))
  | L [A "trimerr"; chrs] ->
    model_only (sexp_of_res sx (trim_error_line (str_of chrs)))
  | L [A "unmatched"; line; rd; sd] ->
    model_only (sexp_of_res sexp_of_opt_msg (unmatched_bracket (str_of line) (z_of rd) (z_of sd)))
  | L [A "separate"; text] ->
    model_only (res1 (sexp_of_rres (fun ts -> L (List.map sx ts))) (separate_rules (str_of text)))
  | L [A "readfile"; A _eol; lines; texts; lay] ->
    let lines = strs_of lines in
    let m = L [A "read"; res1 (sexp_of_rres (fun ts -> L (List.map sx ts))) (read_facts_and_rules lines)] in
    let spec_of texts lay =
      let texts = strs_of texts in
      let ly = layout_of lay in
      if render ly texts <> lines then bad "render layout texts differs from the lines of the case";
      if legal ly texts && List.for_all wf_text texts
      then begin
        let s = L [A "read"; L [A "ok"; L (List.map sx (expected ly.lay_rules texts))]] in
        (* theorem C21_load_spec: on this domain the model returns exactly this *)
        if s <> m then bad "model differs from specification on a legal layout";
        Some s
      end
      else None in
    let spec =
      match lay with
      | A "-" -> None
      | L [A "with-texts"; texts'; lay'] -> spec_of texts' lay'
      | _ -> spec_of texts lay in
    Some ("", m, spec)
  | L [A "readraw"; A _] ->
    (* a file given as raw bytes (a line that is not valid UTF-8): outside the model, whose input
       is the list of decoded lines; checked on the implementation alone (gen/C21.py) *)
    model_only (L [A "raw"])
  | _ -> None
