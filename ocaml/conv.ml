(* Conversions between the wire format (Sexp) and the extracted Coq types. *)
open Model
type nonrec string = String.t
open Sexp

exception Bad of string
let bad s = raise (Bad s)

(* ---- numbers: decimal text <-> Coq Z / N / nat, without going through OCaml int for
   values that do not fit ---- *)
let rec pos_of_int (i : int) : positive =
  if i = 1 then XH else if i land 1 = 0 then XO (pos_of_int (i lsr 1)) else XI (pos_of_int (i lsr 1))
let n_of_int (i : int) : n = if i = 0 then N0 else Npos (pos_of_int i)
let z_of_int (i : int) : z = if i = 0 then Z0 else if i > 0 then Zpos (pos_of_int i) else Zneg (pos_of_int (-i))
let rec int_of_pos = function XH -> 1 | XO p -> 2 * int_of_pos p | XI p -> 2 * int_of_pos p + 1
let int_of_n = function N0 -> 0 | Npos p -> int_of_pos p
let rec nat_of_int (i : int) : nat = if i <= 0 then O else S (nat_of_int (i - 1))

let z_ten = z_of_int 10
let z_of_string (s : string) : z =
  let neg = String.length s > 0 && s.[0] = '-' in
  let st = if neg then 1 else 0 in
  if String.length s = st then bad ("int: " ^ s);
  let acc = ref Z0 in
  for i = st to String.length s - 1 do
    let c = s.[i] in
    if c < '0' || c > '9' then bad ("int: " ^ s);
    acc := Z.add (Z.mul !acc z_ten) (z_of_int (Char.code c - 48))
  done;
  if neg then Z.opp !acc else !acc

let n_of_string (s : string) : n =
  match z_of_string s with Z0 -> N0 | Zpos p -> Npos p | Zneg _ -> bad ("nat: " ^ s)

let string_of_cps (l : n list) : string =
  String.concat "" (List.map (fun c -> String.make 1 (Char.chr (int_of_n c))) l)
let string_of_z (v : z) : string = string_of_cps (show_Z v)
let string_of_n (v : n) : string = string_of_cps (show_N v)

(* hex for float bit patterns *)
let z_16 = z_of_int 16
let z_of_hex (s : string) : z =
  let acc = ref Z0 in
  String.iter (fun c ->
      let d = match c with
        | '0'..'9' -> Char.code c - 48
        | 'a'..'f' -> Char.code c - 87
        | 'A'..'F' -> Char.code c - 55
        | _ -> bad ("hex: " ^ s) in
      acc := Z.add (Z.mul !acc z_16) (z_of_int d)) s;
  !acc
let rec bits_of_pos = function XH -> [1] | XO p -> 0 :: bits_of_pos p | XI p -> 1 :: bits_of_pos p
let hex_of_z (v : z) : string =
  let bits = match v with Z0 -> [] | Zpos p -> bits_of_pos p | Zneg _ -> bad "hex of negative" in
  let arr = Array.make 64 0 in
  List.iteri (fun i b -> if i < 64 then arr.(i) <- b) bits;
  let b = Buffer.create 16 in
  for d = 15 downto 0 do
    let v = arr.(4*d) + 2 * arr.(4*d+1) + 4 * arr.(4*d+2) + 8 * arr.(4*d+3) in
    Buffer.add_char b "0123456789abcdef".[v]
  done;
  Buffer.contents b

(* ---- strings: s<cp>.<cp>... ---- *)
let str_of_atom (a : string) : str =
  if String.length a = 0 || a.[0] <> 's' then bad ("str: " ^ a);
  let body = String.sub a 1 (String.length a - 1) in
  if body = "" then [] else List.map (fun x -> n_of_int (int_of_string x)) (String.split_on_char '.' body)
let atom_of_str (s : str) : string =
  "s" ^ String.concat "." (List.map (fun c -> string_of_int (int_of_n c)) s)

(* UTF-8 text of a str, for output framing *)
let utf8_of_str (s : str) : string =
  let b = Buffer.create 16 in
  List.iter (fun c -> Buffer.add_utf_8_uchar b (Uchar.of_int (int_of_n c))) s;
  Buffer.contents b

let bool_of_atom = function "0" -> false | "1" -> true | a -> bad ("bool: " ^ a)
let atom_of_bool b = if b then "1" else "0"

(* ---- terms ---- *)
let rec term_of = function
  | A "nil" -> TNil
  | A "anon" -> TAnon
  | L [A "a"; A s] -> TAtom (str_of_atom s)
  | L [A "i"; A z] -> TInt (z_of_string z)
  | L [A "f"; A x] ->
    if String.length x <> 17 || x.[0] <> 'x' then bad ("float: " ^ x);
    TFloat (f64_of_bits (z_of_hex (String.sub x 1 16)))
  | L [A "v"; A id; A name] -> TVar (n_of_string id, str_of_atom name)
  | L (A "c" :: ts) -> TComplex (List.map term_of ts)
  | L [A "l"; t; nx; A c; A tv] -> TList (term_of t, term_of nx, n_of_string c, bool_of_atom tv)
  | L (A "fn" :: A name :: ts) -> TFun (str_of_atom name, List.map term_of ts)
  | x -> bad ("term: " ^ Sexp.to_string x)

let rec sexp_of_term = function
  | TNil -> A "nil"
  | TAnon -> A "anon"
  | TAtom s -> L [A "a"; A (atom_of_str s)]
  | TInt z -> L [A "i"; A (string_of_z z)]
  | TFloat f -> L [A "f"; A ("x" ^ hex_of_z (f64_canon_bits f))]
  | TVar (id, name) -> L [A "v"; A (string_of_n id); A (atom_of_str name)]
  | TComplex ts -> L (A "c" :: List.map sexp_of_term ts)
  | TList (t, nx, c, tv) -> L [A "l"; sexp_of_term t; sexp_of_term nx; A (string_of_n c); A (atom_of_bool tv)]
  | TFun (name, ts) -> L (A "fn" :: A (atom_of_str name) :: List.map sexp_of_term ts)

let terms_of = function L ts -> List.map term_of ts | x -> bad ("terms: " ^ Sexp.to_string x)

let ss_of = function
  | L (A "ss" :: es) -> List.map (function A "-" -> None | t -> Some (term_of t)) es
  | x -> bad ("ss: " ^ Sexp.to_string x)
let sexp_of_ss (ss : subst) =
  L (A "ss" :: List.map (function None -> A "-" | Some t -> sexp_of_term t) ss)

let sexp_of_opt f = function None -> A "none" | Some x -> L [A "some"; f x]
let sexp_of_res f = function Ok x -> L [A "ok"; f x] | Panic -> A "panic" | OutOfFuel -> A "fuel"

let opkind_of = function
  | "and" -> OAnd | "or" -> OOr | "time" -> OTime | "not" -> ONot | a -> bad ("opkind: " ^ a)
let atom_of_opkind = function OAnd -> "and" | OOr -> "or" | OTime -> "time" | ONot -> "not"

let rec goal_of = function
  | A "gnil" -> GNil
  | L [A "call"; t] -> GCall (term_of t)
  | L (A "op" :: A k :: gs) -> GOp (opkind_of k, List.map goal_of gs)
  | L (A "bip" :: A f :: ts) -> GBip (str_of_atom f, Some (List.map term_of ts))
  | L [A "bip0"; A f] -> GBip (str_of_atom f, None)
  | x -> bad ("goal: " ^ Sexp.to_string x)

let rec sexp_of_goal = function
  | GNil -> A "gnil"
  | GCall t -> L [A "call"; sexp_of_term t]
  | GOp (k, gs) -> L (A "op" :: A (atom_of_opkind k) :: List.map sexp_of_goal gs)
  | GBip (f, Some ts) -> L (A "bip" :: A (atom_of_str f) :: List.map sexp_of_term ts)
  | GBip (f, None) -> L [A "bip0"; A (atom_of_str f)]
