(* Histories of API operations on queries, run on the extracted model (Model/Solve.v). *)
open Model
type nonrec string = String.t
open Sexp
open Conv

let sexp_of_str (s : str) = A (atom_of_str s)
let rule_of = function
  | L [A "rule"; h; b] -> { r_head = term_of h; r_body = goal_of b }
  | x -> bad ("rule: " ^ Sexp.to_string x)

let kb_of = function
  | L (A "kb" :: rules) ->
    (match add_rules [] (List.map rule_of rules) with
     | Ok kb -> kb
     | _ -> bad "kb: add_rules panics")
  | L (A "kb-text" :: texts) ->
    let rules = List.map (function
        | A t -> (match api_parse_rule (str_of_atom t) with Ok (POk r) -> r | _ -> bad "kb-text: rule rejected")
        | x -> bad ("kb-text: " ^ Sexp.to_string x)) texts in
    (match add_rules [] rules with
     | Ok kb -> kb
     | _ -> bad "kb: add_rules panics")
  | x -> bad ("kb: " ^ Sexp.to_string x)

(* what the specification (Spec/SpecSolve.v) demands of the query held in a slot: the
   segments (output, answer, answer text) in order, then the output of the final failing request *)
let spec_of_query fuel kb (q : term) (ctr : n) : Sexp.t =
  match query_events kb fuel q ctr with
  | SOutside -> A "outside"
  | SFuel -> A "fuel"
  | SOk evs ->
    let segs = ref [] in
    let cur = ref [] in      (* code points written since the last answer, most recent chunk first *)
    let contents () = List.concat (List.rev !cur) in
    let bad_ans = ref false in
    List.iter (function
        | EOut o -> cur := o :: !cur
        | EAns ss ->
          (match replace_variables fuel q ss with
           | Ok r ->
             let txt = match format_solution (GCall q) r with Ok t -> sexp_of_str t | _ -> A "?" in
             segs := L [A "seg"; A (atom_of_str (contents ())); sexp_of_term r; txt] :: !segs
           | _ -> bad_ans := true);
          cur := []) evs;
    if !bad_ans then A "outside"
    else L (A "trace" :: List.rev (L [A "end"; A (atom_of_str (contents ()))] :: !segs))

exception Stop of Sexp.t   (* panic / fuel: ends the history *)

let unres = function
  | Ok x -> x
  | Panic -> raise (Stop (A "panic"))
  | OutOfFuel -> raise (Stop (A "fuel"))

let hist fuel (kbx : Sexp.t) (ops : Sexp.t list) : string * Sexp.t * Sexp.t =
  let kb = kb_of kbx in
  let w = ref world0 in
  let slots : (int, term * node) Hashtbl.t = Hashtbl.create 4 in
  let buf = Buffer.create 64 in
  let obs = ref [] in
  let specs = ref [] in
  let flush_out () =
    Buffer.add_string buf (utf8_of_str (!w).out);
    Buffer.add_char buf '\003';
    w := { !w with out = [] } in
  let varid () = A (string_of_n (!w).next_id) in
  let slot q = try Hashtbl.find slots q with Not_found -> bad "empty slot" in
  (try
     List.iter (fun op ->
         let o =
           try
             (match op with
              | L (A ("build" | "build-text" as how) :: A q :: ts) ->
                let (g, w1) =
                  if how = "build" then unres (api_make_query (List.map term_of ts) !w)
                  else (match ts, api_parse_query fuel (match ts with [A s] -> str_of_atom s | _ -> bad "build-text") !w with
                      | _, Ok (POk x) -> x
                      | _, Ok PErr -> raise (Stop (A "err"))
                      | _, Panic -> raise (Stop (A "panic"))
                      | _, OutOfFuel -> raise (Stop (A "fuel"))) in
                let (nd, w2) = unres (make_base_node kb g w1) in
                w := w2;
                (match g with
                 | GCall t ->
                   Hashtbl.replace slots (int_of_string q) (t, nd);
                   let lazy_part =
                     (* the continuation-style reference search of Spec/SpecLazy.v (cut-free programs): the
                        substitution sets themselves, with the engine's own variable ids *)
                     (* Spec/SpecCut.v covers cut, not and time as well; on cut-free programs it must agree
                        with Spec/SpecLazy.v *)
                     let show (l, wl) = L (A "lazy" :: (List.map sexp_of_ss l @ [A (atom_of_str (wl.out))])) in
                     match canswers kb fuel fuel t w1, answers kb fuel fuel t w1 with
                     | Ok c, Ok p -> if show c <> show p then bad "SpecLazy and SpecCut differ" else show c
                     | Ok c, _ -> show c
                     | _, Ok p -> bad "SpecLazy finishes, SpecCut does not"
                     | _ -> A "lazy-outside" in
                   specs := L [A "slot"; A q; spec_of_query fuel kb t w1.next_id; lazy_part] :: !specs
                 | _ -> bad "build: not a call");
                L [A "built"; sexp_of_goal g; varid ()]
              | L [A "ask"; A q] ->
                let (t, nd) = slot (int_of_string q) in
                let (((nd', sol), _), w1) = unres (next kb fuel fuel nd !w) in
                w := w1;
                Hashtbl.replace slots (int_of_string q) (t, nd');
                (match sol with
                 | Some ss ->
                   let r = unres (replace_variables fuel t ss) in
                   L [A "ans"; sexp_of_ss ss; sexp_of_term r; varid ()]
                 | None -> L [A "ans"; A "none"; varid ()])
              | L [A "solve"; A q] ->
                let (t, nd) = slot (int_of_string q) in
                let ((nd', s), w1) = unres (solve fuel kb nd !w) in
                w := w1;
                Hashtbl.replace slots (int_of_string q) (t, nd');
                L [A "str"; sexp_of_str s; varid ()]
              | L [A "solve-all"; A q] ->
                let (t, nd) = slot (int_of_string q) in
                let ((nd', l), w1) = unres (solve_all fuel kb nd !w) in
                w := w1;
                Hashtbl.replace slots (int_of_string q) (t, nd');
                L (A "strs" :: (List.map sexp_of_str l @ [varid ()]))
              | L [A "stop-after"; A n] ->
                w := { !w with stop_after = Some (n_of_string n) }; A "ok"
              | L [A "stop-now"] -> w := { !w with stop_flag = true }; A "ok"
              | L [A "varid"] -> L [A "varid"; varid ()]
              | L [A "set-id"; A n] -> w := { !w with next_id = n_of_string n }; A "ok"
              | x -> bad ("hist op: " ^ Sexp.to_string x))
           with Stop s -> flush_out (); obs := s :: !obs; raise Exit in
         (match op with
          | L (A ("ask" | "solve" | "solve-all") :: _) -> w := { !w with stop_after = None }
          | _ -> ());
         flush_out ();
         obs := o :: !obs) ops
   with Exit -> ());
  Buffer.contents buf, L (A "obs" :: List.rev !obs), L (A "spec" :: List.rev !specs)

(* (timer OP...) on the model of time_out.rs (Model/Timer.v) *)
let timer_history (ops : Sexp.t list) : Sexp.t =
  let rec nat_of_int i = if i <= 0 then O else S (nat_of_int (i - 1)) in
  let op_of = function
    | L [A "start"] -> TStart | L [A "start-query"] -> TStartQuery
    | L [A "fire"; A k] -> TFire (nat_of_int (int_of_string k))
    | L [A "cancel"] -> TCancel | L [A "stop"] -> TStop | L [A "read"] -> TRead
    | x -> bad ("timer op: " ^ Sexp.to_string x) in
  let show (t : tstate) =
    let st = (match t.tstat with Running -> "0" | Stopped -> "1" | Cancelled -> "2") in
    L [A "st"; A (string_of_n t.tgen); A st; A (if st = "1" then "1" else "0")] in
  L (A "tobs" :: List.map show (tobs tinit (List.map op_of ops)))

let run_case (fuel : nat) (c : Sexp.t) : (string * Sexp.t * Sexp.t option) option =
  match c with
  | L (A "hist" :: kbx :: ops) ->
    let (o, r, sp) = hist fuel kbx ops in
    Some (o, r, Some sp)
  | L (A "timer" :: ops) -> let m = timer_history ops in Some ("", m, Some m)
  | _ -> None
