(* S-expressions of the case format: atoms are maximal runs of non-space, non-paren chars. *)
type t = A of string | L of t list

exception Parse_error of string

let parse (s : string) : t =
  let n = String.length s in
  let pos = ref 0 in
  let rec skip () = if !pos < n && (s.[!pos] = ' ' || s.[!pos] = '\t') then (incr pos; skip ()) in
  let rec item () =
    skip ();
    if !pos >= n then raise (Parse_error "eof")
    else if s.[!pos] = '(' then begin
      incr pos;
      let items = ref [] in
      let rec loop () =
        skip ();
        if !pos >= n then raise (Parse_error "unclosed")
        else if s.[!pos] = ')' then incr pos
        else (items := item () :: !items; loop ()) in
      loop ();
      L (List.rev !items)
    end
    else if s.[!pos] = ')' then raise (Parse_error "unexpected )")
    else begin
      let st = !pos in
      while !pos < n && s.[!pos] <> ' ' && s.[!pos] <> '(' && s.[!pos] <> ')' && s.[!pos] <> '\t' do incr pos done;
      A (String.sub s st (!pos - st))
    end in
  let r = item () in
  skip ();
  if !pos <> n then raise (Parse_error "trailing");
  r

let rec to_buf b = function
  | A s -> Buffer.add_string b s
  | L l ->
    Buffer.add_char b '(';
    List.iteri (fun i x -> if i > 0 then Buffer.add_char b ' '; to_buf b x) l;
    Buffer.add_char b ')'

let to_string x = let b = Buffer.create 64 in to_buf b x; Buffer.contents b
