(* Further operations, added layer by layer. *)
open Model
type nonrec string = String.t
open Sexp
open Conv

let run_case (fuel : nat) (c : Sexp.t) : (string * Sexp.t * Sexp.t option) option =
  match c with
  | _ -> None
