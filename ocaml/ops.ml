(* Operations beyond comparison/arithmetic: unification, lists, built-ins, renaming. *)
open Model
type nonrec string = String.t
open Sexp
open Conv

let sexp_of_str (s : str) = A (atom_of_str s)
let sexp_of_bool b = A (atom_of_bool b)
let sexp_of_n n = A (string_of_n n)

let rec useq fuel ss = function
  | [] -> Ok (Some ss)
  | L [a; b] :: rest ->
    (match unify fuel (term_of a) (term_of b) ss with
     | Ok (Some ss') -> useq fuel ss' rest
     | r -> r)
  | x :: _ -> bad ("useq pair: " ^ Sexp.to_string x)

let rule_of = function
  | L [A "rule"; h; b] -> { r_head = term_of h; r_body = goal_of b }
  | x -> bad ("rule: " ^ Sexp.to_string x)
let sexp_of_rule r = L [A "rule"; sexp_of_term r.r_head; sexp_of_goal r.r_body]

let opt_terms = function A "none" -> None | ts -> Some (terms_of ts)

let run_case (fuel : nat) (c : Sexp.t) : (string * Sexp.t * Sexp.t option) option =
  let same m = Some ("", m, Some m) in
  let model_only m = Some ("", m, None) in
  match c with
  | L [A "unify"; a; b; ss] ->
    model_only (sexp_of_res (sexp_of_opt sexp_of_ss) (unify fuel (term_of a) (term_of b) (ss_of ss)))
  | L (A "useq" :: ss :: pairs) ->
    model_only (sexp_of_res (sexp_of_opt sexp_of_ss) (useq fuel (ss_of ss) pairs))
  | L (A "useqr" :: ss :: t :: pairs) ->
    (match useq fuel (ss_of ss) pairs with
     | Ok (Some ss') ->
       (match replace_variables fuel (term_of t) ss' with
        | Ok t' -> model_only (L [A "ok"; L [A "some"; sexp_of_ss ss']; sexp_of_term t'])
        | Panic -> model_only (A "panic")
        | OutOfFuel -> model_only (A "fuel"))
     | r -> model_only (sexp_of_res (sexp_of_opt sexp_of_ss) r))
  | L [A "resolve"; A f; t; ss] ->
    let t = term_of t and ss = ss_of ss in
    let opt r = sexp_of_res (sexp_of_opt sexp_of_term) r in
    let b r = sexp_of_res (fun x -> A (if x then "1" else "0")) r in
    (match f with
     | "is-bound" -> model_only (b (is_bound t ss))
     | "get-binding" -> model_only (opt (get_binding t ss))
     | "is-ground-variable" -> model_only (b (is_ground_variable fuel t ss))
     | "get-ground-term" -> model_only (opt (get_ground_term fuel t ss))
     | "get-complex" -> model_only (opt (get_complex fuel t ss))
     | "get-list" -> model_only (opt (get_list fuel t ss))
     | "get-constant" -> model_only (opt (get_constant fuel t ss))
     | _ -> None)
  | L [A "goal-ground-term"; A idx; g; ss] ->
    model_only (sexp_of_res (sexp_of_opt sexp_of_term) (goal_get_ground_term (goal_of g) (nat_of_int (int_of_string idx)) (ss_of ss)))
  | L [A "op-len"; g] ->
    model_only (match op_len (goal_of g) with Some n -> L [A "ok"; A (string_of_n n)] | None -> A "not-an-operator")
  | L [A "op-subgoal"; A idx; g] ->
    model_only (match op_get_subgoal (goal_of g) (nat_of_int (int_of_string idx)) with
        | Ok (Some x) -> L [A "ok"; sexp_of_goal x] | Ok None -> A "not-an-operator" | Panic -> A "panic" | OutOfFuel -> A "fuel")
  | L [A "format-kb"; kbx] -> model_only (sexp_of_res sexp_of_str (format_kb (Ops_solve.kb_of kbx)))
  | L [A "format-ss"; ss] -> model_only (L [A "ok"; sexp_of_str (format_ss (ss_of ss))])
  | L [A "replace"; t; ss] ->
    model_only (sexp_of_res sexp_of_term (replace_variables fuel (term_of t) (ss_of ss)))
  | L [A "bip"; A name; ts; ss] ->
    (match run_bip fuel (str_of_atom name) (opt_terms ts) (ss_of ss) with
     | Ok r -> Some (utf8_of_str r.br_out,
                     L [A "ok"; sexp_of_opt sexp_of_ss r.br_sol; A (if r.br_cut then "cut" else "nocut")], None)
     | Panic -> model_only (A "panic")
     | OutOfFuel -> model_only (A "fuel"))
  | L [A "mll"; A vbar; ts] ->
    same (sexp_of_term (make_linked_list (bool_of_atom vbar) (terms_of ts)))
  | L [A "mlot"; ts] ->
    same (sexp_of_term (make_list_of_terms (terms_of ts)))
  | L [A "show"; t] ->
    model_only (sexp_of_str (show_term (term_of t)))
  | L [A "key"; t] ->
    model_only (sexp_of_res sexp_of_str (term_key (term_of t)))
  | L [A "rename-term"; A ctr; t] ->
    let (t', (_, ctr')) = rename_term (term_of t) ([], n_of_string ctr) in
    model_only (L [sexp_of_term t'; sexp_of_n ctr'])
  | L [A "rename-goal"; A ctr; g] ->
    model_only (sexp_of_res (fun (g', (_, ctr')) -> L [sexp_of_goal g'; sexp_of_n ctr'])
                  (rename_goal (goal_of g) ([], n_of_string ctr)))
  | L [A "rename-rule"; A ctr; r] ->
    model_only (sexp_of_res (fun (r', (_, ctr')) -> L [sexp_of_rule r'; sexp_of_n ctr'])
                  (rename_rule (rule_of r) ([], n_of_string ctr)))
  | L [A "get-rule"; A ctr; A idx; (L (A "kb" :: first :: _) as kbx)] ->
    let kb = Ops_solve.kb_of kbx in
    (match term_key (rule_of first).r_head with
     | Ok key ->
       model_only (sexp_of_res (fun (r', ctr') -> L [sexp_of_rule r'; sexp_of_n ctr'])
                     (get_rule kb key (n_of_string idx) (n_of_string ctr)))
     | _ -> model_only (A "panic"))
  | L [A "make-query"; ts] ->
    model_only (sexp_of_res (fun (g, ctr) -> L [sexp_of_goal g; sexp_of_n ctr]) (make_query (terms_of ts)))
  | _ -> None
