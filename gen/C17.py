"""C17: count, include/exclude, functor and join.
Cases: (bip count (L Out) SS), (bip include|exclude (Pat L Out) SS), (bip functor (C F [A]) SS),
(useq SS ($Out join(...)))."""
import itertools
from lib.sx import *
from lib import obs, pyspec
from gen.universe import X, Y, Z

OUT = var(20, "$Out"); OUT2 = var(21, "$Out2")
T, U, V, W = var(4, "$T"), var(5, "$U"), var(6, "$V"), var(7, "$W")
a, b, c, q = atom("a"), atom("b"), atom("c"), atom("q")
SSS = [
    {},
    {4: lst([q])},
    {4: lst([q, a]), 5: lst([b], T)},
    {4: EMPTY, 6: integer(7), 7: V},
    {4: U, 5: lst([lst([a])], Z), 1: a},
    {4: atom("notalist"), 1: integer(1), 2: b},
]
LISTS = [EMPTY, lst([a]), lst([a, b, a]), lst([a, lst([b, c]), EMPTY]), lst([a], T), lst([a, b], U), lst([X, Y, a]), lst([a], ANON),
         lst([a], Z), lst([integer(1), integer(2), flt(2.5), a]), lst([cplx("f", a), cplx("f", b), cplx("g", a)]), T, U, W, X, a,
         lst([V, integer(7), atom("7")]), lst([lst([a]), lst([b]), lst([a, b])])]
PATS = [ANON, a, b, integer(1), integer(7), X, OUT2, cplx("f", ANON), cplx("f", a), lst([ANON]), lst([ANON], ANON), lst([a], ANON), EMPTY, V]

def cases(tier, rng):
    out = []
    for d in SSS:
        ss = ss_from(d)
        for l in LISTS:
            out.append(("(bip %s (%s %s) %s)" % (S("count"), l, OUT, ss), "count"))
            for p in PATS:
                out.append(("(bip %s (%s %s %s) %s)" % (S("include"), p, l, OUT, ss), "include"))
                out.append(("(bip %s (%s %s %s) %s)" % (S("exclude"), p, l, OUT, ss), "exclude"))
    # functor
    cts = [cplx("f"), cplx("f", a), cplx("foo", a, b), cplx("foobar", a, b, c), cplx("foo", a, b, c, q), X, T, a]
    fs = [OUT, atom("f"), atom("foo"), atom("fo*"), atom("foo*"), atom("*"), atom("f*"), atom("g"), atom("foobar*"), Y, integer(1), atom("")]
    ars = [None, OUT2, integer(0), integer(1), integer(2), integer(3), integer(4), Z]
    fss = [{}, {1: cplx("foo", a, b)}, {1: cplx("f", a), 2: atom("f*"), 3: integer(1)}, {4: cplx("foobar", X, Y, Z), 2: Z}]
    for d in fss:
        for ct, f, ar in itertools.product(cts, fs, ars):
            if tier == "thorough" or rng.random() < 0.5:
                args = [ct, f] + ([ar] if ar is not None else [])
                out.append(("(bip %s (%s) %s)" % (S("functor"), " ".join(args), ss_from(d)), "functor"))
    out.append(("(bip %s (%s) (ss))" % (S("functor"), cplx("f", a)), "malformed"))
    out.append(("(bip %s (%s %s %s %s) (ss))" % (S("functor"), cplx("f", a), OUT, OUT2, X), "malformed"))
    # join
    words = [atom(w) for w in ["hello", "world", ",", ".", "?", "!", "a b", "", ",,", "x", "Would you like"]] + [integer(3), integer(-4), X, Y, T,
             lst([atom("coffee"), atom(","), atom("tea")]), lst([atom("or")], T), EMPTY]
    jss = [{}, {1: atom("there"), 4: lst([atom("juice"), atom("?")])}, {1: Y, 2: atom("!"), 4: EMPTY}]
    for d in jss:
        for k in (1, 2):
            for ws in itertools.product(words, repeat=k):
                if k == 1 or tier == "thorough" or rng.random() < 0.5:
                    out.append(("(useq %s (%s %s))" % (ss_from(d), OUT, fn("join", *ws)), "join"))
    n = 600 if tier == "quick" else 20000
    for _ in range(n):
        ws = [rng.choice(words) for _ in range(rng.randint(3, 6))]
        out.append(("(useq %s (%s %s))" % (ss_from(rng.choice(jss)), OUT, fn("join", *ws)), "join"))
    # ---- beyond the small shapes: long lists (8-20 elements), tails bound through a chain of four lists, complex terms of arity
    #      5-9, long and non-ASCII functors with prefix patterns, join of 7-15 words ----
    el = [a, b, c, q, integer(1), integer(2), flt(2.5), cplx("f", a), cplx("f", b), lst([a]), EMPTY, atom("Zo\u00eb"), atom("a b")]
    chain = {4: lst([q, a], U), 5: lst([b, c, a], V), 6: lst([a], W), 7: lst([c, b])}
    longs = []
    for n in ([8, 9, 12, 17, 20] if tier == "quick" else list(range(5, 33))):
        for _ in range(2 if tier == "quick" else 4):
            es = [rng.choice(el) for _ in range(n)]
            longs.append((lst(es), {})); longs.append((lst(es, T), chain)); longs.append((lst(es[:n // 2], T), {4: lst(es[n // 2:])}))
    # a list spread over MANY bound tail variables (67, 130 links), and over few whose ids collide modulo 64 / 256
    from gen.universe import tail_chain
    for ids, last in (([4, 68, 132], None), ([5, 261, 517, 69], lst([c, b])), (list(range(30, 97)), None), (list(range(30, 160)), lst([q])), ([9, 65545, 73], None)):
        longs.append(tail_chain(ids, el, last))
    longs.append((lst([el[k % len(el)] for k in range(300)]), {}))
    for l, d in longs:
        ss = ss_from(d)
        out.append(("(bip %s (%s %s) %s)" % (S("count"), l, OUT, ss), "count"))
        for p in [ANON, a, integer(1), cplx("f", ANON), lst([ANON], ANON), X]:
            out.append(("(bip %s (%s %s %s) %s)" % (S("include"), p, l, OUT, ss), "include"))
            out.append(("(bip %s (%s %s %s) %s)" % (S("exclude"), p, l, OUT, ss), "exclude"))
    names = ["a_rather_long_functor_name_of_more_than_thirty_two_characters", "na\u00efve", "\u65e5\u672c\u8a9e", "symptom"]
    for nm in names:
        for ar in (1, 5, 8, 9):
            ct = cplx(nm, *[rng.choice(el) for _ in range(ar)])
            for f in [OUT, atom(nm), atom(nm + "*"), atom(nm[:-1] + "*"), atom(nm[:1] + "*"), atom(nm + "x*"), atom(nm[1:] + "*")]:
                for arg in (None, OUT2, integer(ar), integer(ar + 1)):
                    args = [ct, f] + ([arg] if arg is not None else [])
                    out.append(("(bip %s (%s) (ss))" % (S("functor"), " ".join(args)), "functor"))
    for _ in range(60 if tier == "quick" else 2000):
        ws = [rng.choice(words) for _ in range(rng.randint(7, 15))]
        out.append(("(useq %s (%s %s))" % (ss_from(rng.choice(jss)), OUT, fn("join", *ws)), "join"))
    seen, res = set(), []
    for cse in out:
        if cse[0] not in seen: seen.add(cse[0]); res.append(cse)
    return res

RULE = ("also long lists (8-20 elements; thorough 5-32), tails bound through a chain of four lists, complex terms of arity 5-9, long and non-ASCII "
        "functor names with prefix patterns (whole name, all but the last character, first character, too long, not a prefix), join of 7-15 words; "
        "count over 18 list arguments x 6 substitutions (bound tails, tails bound to [] / a non-list / a list with a bound tail, "
        "nested and empty elements, variables bound to constants); include/exclude over the same with 14 patterns (atoms, numbers, "
        "$_, unbound and bound variables, f($_), [$_ | $_], []); functor over complex terms of arity 0-4 (literal and through "
        "variables) x 12 functor arguments (exact, prefix*, variable) x 8 arity arguments; join over all 1- and 2-word and random "
        "3-6-word argument lists of words, punctuation, numbers, variables and lists. Oracles (python twins of Spec.SpecLists) on "
        "the implementation's own results: count = number of elements; include/exclude = the elements that do / do not match, in "
        "order, nothing else bound (decided by the oracle for patterns it can decide: constants, $_, unbound variables, f($_), "
        "[$_ | $_] against ground elements); functor/arity; join text. Non-trivial = a bound tail / prefix pattern / punctuation is involved.")

def nontrivial(case, tag, result):
    if tag in ("count", "include", "exclude"): return "(v 4 " in case or "(v 5 " in case
    if tag == "functor": return ".42)" in case or "(ss)" not in case
    return "s44" in case or "s46" in case or "s63" in case or "s33" in case

REL_STATS = {}

def ground(t):
    if t == "anon": return False
    if isinstance(t, list):
        if t[0] == "v": return False
        return all(ground(x) for x in t[1:])
    return True

def matches(entries, pat, x):
    """does pattern unify with ground element x?  None = the oracle does not decide"""
    if pat == "anon": return True
    if pyspec.is_var(pat):
        ch = pyspec.chain(entries, pat)
        if ch[0] == "none": return True
        if ch[0] == "some": pat = ch[1]
        else: return None
    if not ground(x): return None
    if isinstance(pat, list) and pat[0] in ("a", "i"): return pat == x
    if isinstance(pat, list) and pat[0] == "c":
        if not (isinstance(x, list) and x[0] == "c" and len(x) == len(pat)): return False
        rs = [matches(entries, p, y) for p, y in zip(pat[1:], x[1:])]
        if any(r is False for r in rs): return False
        if any(r is None for r in rs): return None
        return True
    if pyspec.is_list(pat):
        e = pyspec.elems(pat)
        if e is None: return None
        if not pyspec.is_list(x): return False
        ex = pyspec.elems(x)
        if ex is None: return None
        xs, tl = e
        if tl is None:
            if len(xs) != len(ex[0]): return False
        else:
            if tl != "anon": return None
            if len(ex[0]) < len(xs): return False
        rs = [matches(entries, p, y) for p, y in zip(xs, ex[0])]
        if any(r is False for r in rs): return False
        if any(r is None for r in rs): return None
        return True
    return None

def show(t):
    if isinstance(t, list) and t[0] == "a": return unS(t[1])
    if isinstance(t, list) and t[0] == "i": return t[1]
    return None

def join_spec(ws):
    out = ""
    for k, w in enumerate(ws):
        if k == 0 or w in (",", ".", "?", "!"): out += w
        else: out += " " + w
    return out

def relations(cases, impl):
    REL_STATS.clear(); REL_STATS.update(count=0, filter=0, functor=0, join=0, undecided_by_oracle=0)
    for (case, tag), (out, res) in zip(cases, impl):
        cs = parse(case)
        why = None; exp = None
        if tag in ("count", "include", "exclude", "functor"):
            ent0 = [None if e == "-" else e for e in cs[3][1:]]
            args = cs[2]
            p = obs.parse_result(res)
        if tag == "count":
            ch = pyspec.chain(ent0, args[0])
            if ch[0] != "some" or not pyspec.is_list(ch[1]): REL_STATS["undecided_by_oracle"] += 1; continue
            xs = pyspec.elements(ent0, False, ch[1])
            if xs is None: REL_STATS["undecided_by_oracle"] += 1; continue
            REL_STATS["count"] += 1
            exp = ["i", str(len(xs))]
            if p[0] != "some" or len(p[1]) <= 20 or p[1][20] != exp: why = "count is not the number of list elements"
        elif tag in ("include", "exclude"):
            ch = pyspec.chain(ent0, args[1])
            if ch[0] != "some" or not pyspec.is_list(ch[1]): REL_STATS["undecided_by_oracle"] += 1; continue
            xs = pyspec.elements(ent0, True, ch[1])
            if xs is None: REL_STATS["undecided_by_oracle"] += 1; continue
            ms = [matches(ent0, args[0], x) for x in xs]
            if any(m is None for m in ms): REL_STATS["undecided_by_oracle"] += 1; continue
            REL_STATS["filter"] += 1
            keep = [x for x, m in zip(xs, ms) if m == (tag == "include")]
            exp = pyspec.make_list(keep)
            if p[0] != "some" or len(p[1]) <= 20 or p[1][20] != exp: why = "%s does not return exactly the elements that %s the pattern" % (tag, "match" if tag == "include" else "do not match")
            elif {k: e for k, e in enumerate(p[1]) if e is not None and k != 20} != {k: e for k, e in enumerate(ent0) if e is not None}:
                why = "%s bound something besides its output argument" % tag
        elif tag == "functor":
            if len(args) not in (2, 3): continue
            rs = []
            for t in args:
                ch = pyspec.chain(ent0, t)
                if ch[0] == "cycle": rs = None; break
                rs.append(ch[1])        # the value, or the unbound variable the chain ends at
            if rs is None: REL_STATS["undecided_by_oracle"] += 1; continue
            ct = rs[0]
            if not (isinstance(ct, list) and ct[0] == "c" and len(ct) >= 2 and ct[1][0] == "a"): REL_STATS["undecided_by_oracle"] += 1; continue
            fname = unS(ct[1][1]); arity = len(ct) - 2
            f = rs[1]
            ok = None; bind = {}
            if isinstance(f, list) and f[0] == "a":
                m = unS(f[1])
                if m == "": REL_STATS["undecided_by_oracle"] += 1; continue
                ok = fname.startswith(m[:-1]) if m.endswith("*") else fname == m
            elif pyspec.is_var(f): ok = True; bind[int(f[1])] = ct[1]
            else: ok = False
            if ok and len(args) == 3:
                ar = rs[2]
                if pyspec.is_var(ar):
                    if int(ar[1]) in bind: REL_STATS["undecided_by_oracle"] += 1; continue
                    bind[int(ar[1])] = ["i", str(arity)]
                elif isinstance(ar, list) and ar[0] == "i": ok = int(ar[1]) == arity
                else: ok = False
            REL_STATS["functor"] += 1
            if not ok:
                if p[0] != "none": why = "functor succeeded although functor/arity do not match"
            else:
                if p[0] != "some": why = "functor failed although functor/arity match"
                else:
                    e = list(ent0) + [None] * (30 - len(ent0))
                    for k, v in bind.items(): e[k] = v
                    got = list(p[1]) + [None] * (30 - len(p[1]))
                    if got != e: why = "functor's bindings are not functor name / arity"
        elif tag == "join":
            ent0 = [None if e == "-" else e for e in cs[1][1:]]
            ws = []
            bad = False
            for t in cs[2][1][2:]:
                ch = pyspec.chain(ent0, t)
                if ch[0] == "cycle": bad = True; break
                if ch[0] == "none": bad = True; break      # an unbound variable prints its name: outside the claim
                v = ch[1]
                if pyspec.is_list(v):
                    xs = pyspec.elements(ent0, True, v)
                    if xs is None: bad = True; break
                    for x in xs:
                        c2 = pyspec.chain(ent0, x)
                        # list elements are NOT resolved by get_terms; a variable element prints its name
                        if show(x) is None: bad = True; break
                        ws.append(show(x))
                    if bad: break
                else:
                    if show(v) is None: bad = True; break
                    ws.append(show(v))
            if bad: REL_STATS["undecided_by_oracle"] += 1; continue
            REL_STATS["join"] += 1
            exp = ["a", S(join_spec(ws))]
            p = obs.parse_result(res)
            if p[0] != "some" or len(p[1]) <= 20 or p[1][20] != exp: why = "join text differs from the specification"
        if why:
            yield dict(case=case, tag=tag, why=why, implementation=dict(result=res),
                       specification=dict(expected=pyspec.text(exp) if exp is not None else "see why"))
