"""C02: cut commits to its clause and ends the call.  Programs with `!` at every position of
conjunctions and disjunctions (not inside not/time); every request compared with the reference
search (terminal rules EndCut / AnsCut of Spec/SpecSolve.v)."""
from lib.sx import *
from lib import histcheck
from gen import progs, histgen
from gen.progs import *

SPEC_COLUMN_IS_ORACLE_INPUT = True
equivalent = histcheck.equivalent
describe = histgen.describe
REL_STATS = {}
relations = histgen.make_relations(("answers", "exhausted", "strings"), REL_STATS)
OPTS = dict(allow_not=False, allow_print=False)

def shapes():
    """hand-picked shapes from the property text: cut followed by failing / succeeding / multi-answer goals,
    inside disjunctions, in callees, with siblings and callers that must stay unaffected"""
    n, e = C("n", X), C("e", X)
    bodies = [
        AND(n, CUT, FAIL), AND(n, CUT), AND(n, CUT, e), AND(n, CUT, C("n", Y)), AND(CUT, n), AND(n, e, CUT),
        OR(AND(CUT, FAIL), n), OR(AND(n, CUT), e), OR(n, AND(CUT, e)), OR(AND(n, CUT, FAIL), e), AND(OR(AND(n, CUT), e), e),
        AND(n, OR(CUT, e)), AND(n, OR(AND(CUT, FAIL), e)), AND(OR(n, e), CUT, e), OR(AND(n, OR(CUT, FAIL)), e),
        AND(C("c1", X), e), AND(n, C("c1", Y)), OR(C("c1", X), e), AND(C("c2", X), CUT, C("c1", Y)),
        AND(n, AND(CUT, FAIL)), AND(AND(n, CUT), FAIL), AND(n, CUT, OR(FAIL, e)), AND(OR(CUT, n), OR(e, n)),
        # a cut that is reached only on backtracking: in a later alternative, after an earlier one has given an answer
        AND(C("n", Y), OR(U(X, i(1)), AND(CUT, FAIL))), AND(C("n", Y), OR(e, AND(CUT, FAIL))), AND(C("d", Y), OR(e, AND(CUT, e))),
        AND(C("n", Y), OR(U(X, i(1)), AND(CUT, U(X, i(2))))), AND(C("n", Y), OR(FAIL, U(X, i(1)), AND(CUT, FAIL))),
        AND(C("dn", Y), C("n", Z), OR(U(X, Z), AND(bip("greater_than", Z, i(1)), CUT, FAIL))),
        OR(AND(C("n", Y), OR(U(X, Y), AND(CUT, FAIL))), e),
    ]
    helpers = [rule(cplx("c1", X), AND(C("n", X), CUT)), rule(cplx("c1", i(7))),
               rule(cplx("c2", X), AND(C("n", X), bip("greater_than", X, i(1)))), rule(cplx("c2", i(8)))]
    out = []
    for b in bodies:
        rules = list(LIB[:5]) + list(LIB[-2:]) + helpers + [rule(cplx("a", X), b), fact("a", i(9))]
        out.append((single_query_case(rules, [atom("a"), var(0, "$Q")], 7), "shape"))
        # a caller with siblings: the cut in a/1 must not affect them
        rules2 = rules + [rule(cplx("top", X, Y), AND(C("n", Y), C("a", X), C("e", Y))), rule(cplx("top", i(0), i(0)))]
        out.append((single_query_case(rules2, [atom("top"), var(0, "$P"), var(0, "$Q")], 12), "shape-in-caller"))
        out.append((hist(rules2, [build(0, [atom("top"), var(0, "$P"), var(0, "$Q")]), "(solve-all 0)", "(ask 0)"]), "shape-solve-all"))
    return out

def long_shapes(tier, rng):
    """beyond the small shapes: the cut as the 30th-45th goal of a body (a flat conjunction is a chain of And nodes, so the
    cut lies that many nodes below its call), under 35 nested conjunctions / disjunctions, and a search in which a cut commits
    and its clause then fails more than a thousand times"""
    n, e, zero = C("n", X), C("e", X), C("zero")
    out = []
    ks = [28, 30, 31, 32, 33, 40, 45] if tier == "quick" else list(range(20, 70))
    helpers = [rule(cplx("c1", X), AND(C("n", X), CUT)), rule(cplx("c1", i(7)))]
    for k in ks:
        fill = [zero] * k
        def nest(inner, depth):
            g = inner
            for d in range(depth): g = AND(zero, g) if d % 3 else OR(AND(zero, g), FAIL)
            return g
        for b in (AND(n, *fill, CUT, FAIL), AND(n, *fill, CUT), AND(n, *fill, CUT, e), OR(AND(n, *fill, CUT, FAIL), e), AND(n, *fill[:k // 2], CUT, *fill[k // 2:], FAIL),
                  AND(n, nest(AND(CUT, FAIL), k)), AND(n, nest(CUT, k), e)):
            rules = list(LIB[:5]) + list(LIB[-2:]) + [fact("zero")] + helpers + [rule(cplx("a", X), b), fact("a", i(9))]
            out.append((single_query_case(rules, [atom("a"), var(0, "$Q")], 5), "long-body"))
    # a predicate of 300 clauses in which clause 257 / 299 commits
    for cutat in (255, 256, 257, 299):
        rules = [fact("num", i(1)), fact("num", i(2))]
        for k in range(1, 301):
            if k == cutat: rules.append(rule(cplx("sel", i(0), X), AND(C("num", X), CUT)))
            else: rules.append(fact("sel", i(k), i(k)))
        rules.append(fact("sel", i(0), i(99)))
        out.append((single_query_case(rules, [atom("sel"), i(0), var(0, "$Q")], 4), "long-body"))
        out.append((single_query_case(rules, [atom("sel"), var(0, "$K"), i(2)], 5), "long-body"))
    # many commits: c/2 cuts and then fails, once per candidate pair
    for m in ([12, 36] if tier == "quick" else [12, 36, 50]):
        rules = [fact("num", i(k)) for k in range(1, m + 1)]
        rules += [rule(cplx("c", X, Y), AND(bip("greater_than", Y, i(0)), CUT, bip("equal", X, i(m + 1)))), rule(cplx("c", ANON, ANON)),
                  rule(cplx("a", X), AND(C("num", X), C("num", Y), C("c", X, Y))), fact("a", i(9)),
                  rule(cplx("b", X), AND(C("num", X), C("num", Y), C("c", X, Y), FAIL)), rule(cplx("b", X), C("num", X))]
        out.append((single_query_case(rules, [atom("a"), var(0, "$Q")], 3), "many-commits"))
        out.append((single_query_case(rules, [atom("b"), var(0, "$Q")], 3), "many-commits"))
    return out

def cases(tier, rng):
    out = shapes() + long_shapes(tier, rng)
    alpha = progs.alphabet(allow_not=False, allow_print=False)
    out += histgen.small_cases(alpha, 6, rng, 1.0 if tier == "thorough" else 0.6, "small-exhaustive", must=CUT)
    for body in progs.small_bodies(alpha, 2):
        if CUT in body:
            for wrap in (lambda b: OR(b, C("e", X)), lambda b: OR(C("e", X), b), lambda b: AND(C("n", X), OR(b, FAIL)),
                         lambda b: AND(C("n", Y), OR(U(X, i(1)), b)), lambda b: AND(C("d", Y), OR(C("e", X), b, U(X, i(7))))):
                out.append((single_query_case(progs.small_program(wrap(body)), [atom("a"), var(0, "$Q")], 6), "small-in-or"))
    n = 500 if tier == "quick" else 10000
    out += histgen.random_cases(rng, n, OPTS, must=CUT)
    return out

RULE = ("(0) long shapes: the cut as the 30th-45th goal of a body, or under 28-45 nested conjunctions and disjunctions, and searches in which a cut commits and "
        "its clause then fails 144 / 1296 times; (a) 30 hand-picked bodies with `!` (followed by failing / succeeding / multi-answer goals, at the start / end of "
        "either branch of a disjunction, in nested conjunctions, in a callee, in a later alternative that is only reached on backtracking) alone, inside a caller with sibling goals, and "
        "through solve_all; (b) all bodies of 1-3 goals over an 8-goal alphabet that contain `!` (quick: 60%), and every "
        "2-goal body with `!` placed in / after / under a disjunction, also as a later alternative below a multi-answer goal; (c) random programs in which some clause contains `!`. "
        "Oracle: every request's answer is the reference search's (so: no later clause, no re-try of goals left of the cut, no "
        "answer beyond the one being derived, callers and siblings unaffected). Non-trivial = a cut is executed and the query "
        "still has an answer or a sibling alternative.")

def nontrivial(case, tag, result):
    return "(bip0 s33)" in case and ("(ans (ss" in result or "(strs s" in result)
