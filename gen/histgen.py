"""Common scaffolding of the history-based generators (C01-C05)."""
from lib.sx import *
from lib import histcheck, pretty
from gen import progs

def describe(case):
    d = pretty.hist(case)
    lib = set(pretty.rule(parse(r)) for r in progs.LIB)
    d["program"] = [r for r in d["program"] if r not in lib] + ["(+ those of the library predicates n/1 e/1 k/1 l/1 edge/2 mem/2 len/2 app/3 path/2 zero/0 d/1 dn/1 that the case includes)"]
    return d

def make_relations(want, stats):
    def relations(cases, impl, model):
        stats.clear(); stats.update(histories_checked_against_reference=0, reference_outside_or_unfinished=0)
        histcheck.STATS["answers_compared_exactly_with_continuation_reference"] = 0
        for (case, tag), (iout, ires), (mout, mres, spec) in zip(cases, impl, model):
            if spec == "-" or "(trace" not in spec: stats["reference_outside_or_unfinished"] += 1; continue
            stats["histories_checked_against_reference"] += 1
            for kind, why, _ in histcheck.check_hist(case, iout, ires, spec, want):
                yield dict(case=case, tag=tag, why=why, implementation=dict(output=iout, result=ires[:3000]),
                           specification=dict(trace=spec[:3000]), readable=describe(case))
                break
        stats.update(histcheck.STATS)
    return relations

def small_cases(alpha, nasks, rng, frac, tag, maxlen=3, second=True, must=None):
    out = []
    for body in progs.small_bodies(alpha, maxlen):
        if must is not None and must not in body: continue
        if rng.random() < frac:
            out.append((progs.single_query_case(progs.small_program(body, second), [atom("a"), var(0, "$Q")], nasks), tag))
    return out

def random_cases(rng, n, opts, nasks_choices=(4, 8, 12), solve_mix=True, must=None):
    out = []
    g = progs.Gen(rng, **opts)
    tries = 0
    while len(out) < n and tries < 40 * n:
        tries += 1
        rules, preds = g.program()
        if must is not None and not any(must in r for r in rules[len(progs.LIB):]): continue
        q = g.query(preds)
        k = rng.random()
        if not solve_mix or k < 0.7: out.append((progs.single_query_case(rules, q, rng.choice(nasks_choices)), "random"))
        elif k < 0.85: out.append((progs.hist(rules, [progs.build(0, q), "(solve-all 0)", "(ask 0)", "(solve 0)"]), "random-solve-all"))
        else: out.append((progs.hist(rules, [progs.build(0, q)] + ["(solve 0)"] * 5), "random-solve"))
    return out
