"""C10: renaming apart changes only variables, consistently.
Cases: (rename-term CTR T), (rename-goal CTR G), (rename-rule CTR R), (make-query (TERMS))."""
import itertools
from lib.sx import *
from lib import obs, pyspec

NAMES = ["$X", "$Y", "$Z", "$Long_name", "$x", "$X1", "$TemperatureReadingCelsius", "$TemperatureReadingKelvin",
         "$A_name_of_more_than_thirty_two_characters_1", "$A_name_of_more_than_thirty_two_characters_2", "$\u00c9t\u00e9",
         "$FirstElement", "$LastElement", "$LeftNeighbour", "$RightNeighbour"]
def V(rng, zero=True):
    return var(0 if zero or rng.random() < 0.7 else rng.randint(1, 9), rng.choice(NAMES))

def rterm(rng, depth=2):
    r = rng.random()
    if depth == 0 or r < 0.35:
        return rng.choice([atom("a"), atom("b c"), integer(rng.randint(-3, 3)), flt(2.5), ANON, EMPTY,
                           V(rng), V(rng), V(rng, False)])
    if r < 0.55:
        return cplx(rng.choice(["f", "g", "point"]), *[rterm(rng, depth - 1) for _ in range(rng.randint(0, 3))])
    if r < 0.85:
        els = [rterm(rng, depth - 1) for _ in range(rng.randint(0, 3))]
        if els and rng.random() < 0.4:
            return lst(els, rng.choice([V(rng), ANON]))
        return lst(els)
    if r < 0.95:
        return fn(rng.choice(["add", "join", "multiply"]), *[rterm(rng, depth - 1) for _ in range(rng.randint(1, 3))])
    return lst([EMPTY, lst([EMPTY])])

def rgoal(rng, depth=2):
    r = rng.random()
    if depth == 0 or r < 0.3:
        return call(cplx(rng.choice(["p", "q", "edge"]), *[rterm(rng, 1) for _ in range(rng.randint(0, 3))]))
    if r < 0.5:
        return bip(rng.choice(["unify", "less_than", "append", "print", "count", "include"]), *[rterm(rng, 1) for _ in range(rng.randint(2, 3))])
    if r < 0.6:
        return bip0(rng.choice(["!", "fail", "nl"]))
    k = rng.choice(["and", "and", "or", "not", "time"])
    n = 1 if k in ("not", "time") else rng.randint(1, 3)
    return op(k, *[rgoal(rng, depth - 1) for _ in range(n)])

def rrule(rng):
    head = cplx(rng.choice(["p", "q"]), *[rterm(rng, 1) for _ in range(rng.randint(0, 3))])
    body = rng.choice(["gnil", rgoal(rng, 2), rgoal(rng, 1), call(cplx("r", V(rng)))])
    return rule(head, body)

def cases(tier, rng):
    out = []
    from gen.universe import universe
    for t in universe():
        out.append(("(rename-term 0 %s)" % t, "term"))
        out.append(("(rename-term 41 %s)" % t, "term"))
    n = 1500 if tier == "quick" else 30000
    for _ in range(n):
        out.append(("(rename-term %d %s)" % (rng.choice([0, 0, 5, 100]), rterm(rng, 3)), "term"))
        out.append(("(rename-goal %d %s)" % (rng.choice([0, 3, 77]), rgoal(rng, 3)), "goal"))
        out.append(("(rename-rule %d %s)" % (rng.choice([0, 1, 12]), rrule(rng)), "rule"))
        ts = [atom(rng.choice(["p", "go"]))] + [rterm(rng, 2) for _ in range(rng.randint(0, 4))]
        out.append(("(make-query (%s))" % " ".join(ts), "query"))
    hs300 = [rule(cplx("p", integer(k), V(rng), V(rng)), "gnil") for k in range(300)]
    for idx in (0, 1, 254, 255, 256, 257, 298, 299):
        out.append(("(get-rule %d %d (kb %s))" % (rng.choice([0, 9]), idx, " ".join(hs300)), "fetch"))
    # the small accessors of the API on the same random goals: Operator::len / get_subgoal at every index (one past the end: panic),
    # Goal::get_ground_term at every argument index under a few substitution sets
    for _ in range(150 if tier == "quick" else 3000):
        g = rgoal(rng, 2)
        pg = parse(g)
        if pg[0] == "op":
            out.append(("(op-len %s)" % g, "accessor"))
            for idx in range(len(pg) - 1): out.append(("(op-subgoal %d %s)" % (idx, g), "accessor"))
        elif pg[0] == "call":
            sset = rng.choice(["(ss)", ss([None, atom("a")]), ss([None, var(2, "$Y"), atom("b")]), ss([None, None, None, None, None, None, None, None, None, atom("z")]),
                               ss([atom("zero"), atom("a"), var(5, "$Y"), lst([atom("q")]), atom("d"), atom("e"), integer(6), var(1, "$X"), flt(2.5), atom("z")])])
            for idx in range(len(pg[1])): out.append(("(goal-ground-term %d %s %s)" % (idx, g, sset), "accessor"))
        else:
            out.append(("(op-len %s)" % g, "accessor")); out.append(("(goal-ground-term 0 %s (ss))" % g, "accessor"))
    # beyond the small shapes: clauses with 17-40 distinct variables (each occurring 1-3 times) in wide heads and long bodies,
    # counters beyond 2^16 / 2^32, predicates with 5-12 clauses fetched at every index
    def wide_rule(rng, nv):
        vs = [var(0, "$V%d" % i) for i in range(nv)]
        occ = [v for v in vs for _ in range(rng.randint(1, 3))]
        rng.shuffle(occ)
        def take(k):
            r = [occ.pop() if occ else rng.choice(vs) for _ in range(k)]
            return [x if rng.random() < 0.7 else rng.choice([cplx("f", x), lst([x]), lst([atom("a")], x)]) for x in r]
        head = cplx("p", *take(rng.choice([5, 8, 9])))
        goals = []
        while occ: goals.append(call(cplx(rng.choice(["q", "r", "edge"]), *take(rng.randint(1, 4)))))
        body = op("and", *goals) if len(goals) > 1 else (goals[0] if goals else "gnil")
        return rule(head, body)
    for _ in range(40 if tier == "quick" else 1500):
        r = wide_rule(rng, rng.choice([17, 18, 25, 33, 40]))
        out.append(("(rename-rule %d %s)" % (rng.choice([0, 9, 255, 256, 65535, 70000, 2**32 + 5]), r), "rule"))
        k = rng.randint(5, 12)
        hs = [rule(cplx("p", *[rterm(rng, 1) for _ in range(2)]), "gnil" if rng.random() < 0.6 else rgoal(rng, 1)) for _ in range(k)]
        for idx in range(k):
            out.append(("(get-rule %d %d (kb %s))" % (rng.choice([0, 300, 65536]), idx, " ".join(hs)), "fetch"))
    # clause fetch (get_rule) from a knowledge base: facts whose variables sit only inside lists / nested complex
    # terms / function terms, ground facts, rules; fetched at several counters and indices
    def fact_shapes(rng):
        A, B = V(rng), V(rng)
        return rng.choice([
            cplx("p", lst([A, B])), cplx("p", lst([ANON], A)), cplx("p", lst([atom("a")], A)),
            cplx("p", cplx("f", A), atom("b")), cplx("p", cplx("f", cplx("g", A))), cplx("p", lst([cplx("f", A)])),
            cplx("p", lst([lst([A])])), cplx("p", atom("a"), integer(1)), cplx("p", lst([atom("a"), atom("b")])),
            cplx("p", A, A), cplx("p", fn("add", A, integer(1))), cplx("p", EMPTY, lst([EMPTY], B)),
            cplx("p", *[rterm(rng, 2) for _ in range(rng.randint(1, 3))])])
    gn = 400 if tier == "quick" else 8000
    for _ in range(gn):
        k = rng.randint(1, 3)
        rules = []
        for _ in range(k):
            h = fact_shapes(rng)
            rules.append(rule(h, "gnil" if rng.random() < 0.7 else rgoal(rng, 1)))
        # all heads get the arity of the first so that they share a predicate
        ar = len(parse(rules[0])[1]) - 2
        rules = [r for r in rules if len(parse(r)[1]) - 2 == ar]
        out.append(("(get-rule %d %d (kb %s))" % (rng.choice([0, 0, 7, 50]), rng.randrange(len(rules)), " ".join(rules)), "fetch"))
    # freshness DURING a search: facts whose variables sit inside structures are matched against unbound goal variables,
    # then further clauses are fetched; a reused id shows as a wrong answer (exact reference oracle)
    from gen import progs
    from gen.progs import C, U, AND, OR, fact, i as I_
    A_, B_, W_, Z_, H_, T_, X, Y = (var(0, n) for n in ("$A", "$B", "$W", "$Z", "$H", "$T", "$X", "$Y"))
    wraps = [fact("w", cplx("box", X)), fact("w", lst([H_], T_)), fact("w", cplx("f", cplx("g", X), Y)), fact("w", lst([X, Y])), fact("w", cplx("box", lst([X])))]
    picks = [[rule(cplx("pk", Z_), U(Z_, I_(7)))], [rule(cplx("pk", Z_), AND(C("n", Z_), U(W_, Z_)))], [rule(cplx("pk", lst([Z_], W_)), U(Z_, I_(1)))],
             # a clause whose head does NOT match comes first (the counter is restored after it), then one that does and fetches more
             [fact("pk", atom("zzz")), rule(cplx("pk", Z_), AND(C("w", W_), U(W_, Z_)))],
             [fact("pk", cplx("other", X)), fact("pk", atom("zzz")), rule(cplx("pk", cplx("box", Z_)), AND(C("k", Z_), C("w", W_)))]]
    for wf in wraps:
        for pk in picks:
            for body in (AND(C("w", A_), C("pk", B_)), AND(C("w", A_), C("w", B_), C("pk", B_)), AND(C("pk", B_), C("w", A_), C("pk", A_)), AND(C("w", A_), C("pk", A_), C("w", B_)),
                         OR(AND(C("w", A_), C("pk", B_)), C("w", B_))):
                rules = list(progs.LIB) + [wf] + pk + [rule(cplx("t", A_, B_), body)]
                out.append((progs.hist(rules, [progs.build(0, [atom("t"), var(0, "$P"), var(0, "$Q")])] + [progs.ask(0)] * 5), "search-fresh"))
                # the same search with the id counter moved up first (the public set_var_id): ids that pass 2^8 and 2^16 during the search
                out.append((progs.hist(rules, [progs.build(0, [atom("t"), var(0, "$P"), var(0, "$Q")]), "(set-id 250)"] + [progs.ask(0)] * 5), "search-fresh"))
                for sid in (65529, 65530, 65531, 65532, 65533, 65534, 65535):
                    if rng.random() < (0.2 if tier == "quick" else 1.0):
                        out.append((progs.hist(rules, [progs.build(0, [atom("t"), var(0, "$P"), var(0, "$Q")]), "(set-id %d)" % sid] + [progs.ask(0)] * 2), "search-fresh"))
    out.append(("(rename-goal 0 gnil)", "malformed"))
    out.append(("(rename-goal 0 %s)" % call(atom("notcomplex")), "malformed"))
    out.append(("(make-query (%s))" % var(0, "$X"), "malformed"))
    out.append(("(make-query ())", "malformed"))
    seen, res = set(), []
    for c in out:
        if c[0] not in seen: seen.add(c[0]); res.append(c)
    return res

RULE = ("every term of the 119-term unification universe and random terms (depth <= 3: atoms, numbers, $_, [], variables with "
        "15 names (also long ones that agree in their first 16 / 32 or their last 8 characters, and a non-ASCII one) and stale ids, complex terms, lists with tail variable / $_ tail, function terms, nested empty lists), goals "
        "(calls, built-ins, !/fail/nl, nested and/or/not/time) and rules, renamed from several counter values; queries through "
        "make_query; searches in which facts with variables inside structures meet unbound goal variables before further clauses "
        "are fetched (answers against the exact reference search; also with the id counter first moved to 250 and to 65529..65535 with set_var_id, so that ids pass 2^8 and 2^16 during the search); clause fetch (get_rule) from knowledge bases of 1-3 clauses whose variables sit only inside lists, nested "
        "complex terms or function terms, at several counters. Oracle on the implementation's own results (python twin of Proofs/RenameProofs definitions): erasing ids "
        "gives back the input with ids erased; same name <-> same id; every id is above the old counter and at most the new "
        "one. Non-trivial = at least two distinct names and one repeated name.")

def occ(x, acc):
    if isinstance(x, list):
        if x and x[0] == "v": acc.append((int(x[1]), x[2])); return
        for y in x: occ(y, acc)

def erase(x):
    if isinstance(x, list):
        if x and x[0] == "v": return ["v", "0", x[2]]
        return [erase(y) for y in x]
    return x

def nontrivial(case, tag, result):
    acc = []; occ(parse(case), acc)
    names = [n for _, n in acc]
    return len(set(names)) >= 2 and len(names) > len(set(names))

REL_STATS = {}
SPEC_COLUMN_IS_ORACLE_INPUT = True
_HSTATS = {}
def relations(cases, impl, model):
    from gen import histgen
    hrel = histgen.make_relations(("answers",), _HSTATS)
    hs = [k for k, (c, t) in enumerate(cases) if t == "search-fresh" or c.startswith("(hist ")]
    for v in hrel([cases[k] for k in hs], [impl[k] for k in hs], [model[k] for k in hs]):
        yield v
    REL_STATS.clear(); REL_STATS.update(oracle_checks=0, counter_above_ids_checks=0); REL_STATS.update(_HSTATS)
    for (case, tag), (out, res) in zip(cases, impl):
        if tag == "search-fresh" or case.startswith("(hist "):
            # freshness during a search: the id counter reported with an answer is never below an id in use in that answer
            # (the next clause fetched takes its ids from the counter)
            try:
                for o in parse(res)[1:]:
                    if isinstance(o, list) and o[0] == "ans" and isinstance(o[1], list) and o[1][0] == "ss":
                        acc = []; occ(o[1], acc)
                        used = [i for i, _ in acc] + [k for k, e in enumerate(o[1][1:]) if e != "-"]
                        REL_STATS["counter_above_ids_checks"] += 1
                        if used and max(used) > int(o[3]):
                            yield dict(case=case, tag=tag, implementation=dict(result=res[:400] + " ... " + res[-120:]),
                                       why="the id counter after an answer is %s, below the variable id %d that the answer uses: the next clause fetched is not renamed apart from it" % (o[3], max(used)))
                            break
            except Exception:
                pass
            continue
        if tag in ("malformed", "accessor") or not case.startswith(("(rename-", "(get-rule", "(make-query")): continue
        c = parse(case)
        try: r = parse(res)
        except Exception: r = None
        why = None
        if r is None or res in ("panic", "diverged"): why = "renaming did not return a value: " + res
        else:
            if tag == "term": inp, ctr0, got, ctr1 = c[2], int(c[1]), r[0], int(r[1])
            elif tag == "fetch":
                inp, ctr0 = c[3][1 + int(c[2])], int(c[1])
                if r[0] != "ok": why = "clause fetch failed"
                else: got, ctr1 = r[1][0], int(r[1][1])
            elif tag == "query":
                inp, ctr0 = ["call", ["c"] + c[1]], 0
                if r[0] != "ok": why = "make_query failed"
                else: got, ctr1 = r[1][0], int(r[1][1])
            else:
                inp, ctr0 = c[2], int(c[1])
                if r[0] != "ok": why = "renaming failed"
                else: got, ctr1 = r[1][0], int(r[1][1])
        if why is None:
            REL_STATS["oracle_checks"] += 1
            if erase(got) != erase(inp): why = "renaming changed something other than variable ids"
            else:
                acc = []; occ(got, acc)
                by_name, by_id = {}, {}
                for i, n in acc:
                    if by_name.setdefault(n, i) != i: why = "one name received two ids"
                    if by_id.setdefault(i, n) != n: why = "two names share one id"
                    if not (ctr0 < i <= ctr1): why = "an id is not fresh (not in (old counter, new counter])"
        if why:
            yield dict(case=case, tag=tag, why=why, implementation=dict(result=res))
