"""C01: answers equal depth-first SLD resolution, in order.
Cases: (hist KB (build 0 query) (ask 0) x k): cut-free programs; every request is compared with
the reference search (Spec/SpecSolve.v), and the model of the solver with the implementation."""
from lib.sx import *
from lib import histcheck, pretty
from gen import progs, histgen

WANT = ("answers", "strings")
SPEC_COLUMN_IS_ORACLE_INPUT = True
equivalent = histcheck.equivalent
OPTS = dict(allow_cut=False, allow_not=False, allow_print=False)

def cases(tier, rng):
    out = []
    alpha = progs.alphabet(allow_cut=False, allow_not=False, allow_print=False)
    for body in progs.small_bodies(alpha, 3):
        if tier == "thorough" or rng.random() < 0.5:
            out.append((progs.single_query_case(progs.small_program(body), [atom("a"), var(0, "$Q")], 6), "small-exhaustive"))
    for n, body in enumerate(progs.small_bodies(alpha, 2)):
        rules = progs.small_program(progs.OR(body, progs.C("e", progs.X)))
        out.append((progs.hist(rules, [progs.build(0, [atom("a"), var(0, "$Q")]), "(solve-all 0)", "(ask 0)", "(solve 0)"]), "small-or-solve-all"))
    n = 700 if tier == "quick" else 12000
    g = progs.Gen(rng, **OPTS)
    for _ in range(n):
        rules, preds = g.program()
        q = g.query(preds)
        k = rng.random()
        if k < 0.7: out.append((progs.single_query_case(rules, q, rng.choice([4, 8, 12])), "random"))
        elif k < 0.85: out.append((progs.hist(rules, [progs.build(0, q), "(solve-all 0)", "(ask 0)"]), "random-solve-all"))
        else: out.append((progs.hist(rules, [progs.build(0, q)] + ["(solve 0)"] * 5), "random-solve"))
    for q in ([atom("mem"), var(0, "$E"), lst([integer(1), atom("a"), integer(1)])], [atom("app"), var(0, "$P"), var(0, "$S"), lst([integer(1), integer(2)])],
              [atom("len"), lst([atom("a"), atom("b"), atom("c")]), var(0, "$N")], [atom("path"), integer(1), var(0, "$To")],
              [atom("path"), var(0, "$From"), var(0, "$To")], [atom("nosuch"), var(0, "$X")], [atom("zero")]):
        out.append((progs.single_query_case(list(progs.LIB), q, 9), "library"))
    out += large_cases(tier, rng)
    return out

def large_kb():
    """the library plus predicates of 12-40 clauses and a chain 30 links deep"""
    from gen.progs import fact, C, AND, OR, U, X, Y, Z, i
    big = list(progs.LIB)
    for k in range(1, 41): big.append(fact("num", i(k)))
    for k in range(1, 31): big.append(fact("next", i(k), i(k + 1)))
    big.append(rule(cplx("reach", X, Y), C("next", X, Y)))
    big.append(rule(cplx("reach", X, Y), AND(C("next", X, Z), C("reach", Z, Y))))
    big.append(rule(cplx("pair", X, Y), AND(C("num", X), C("num", Y), bip("greater_than", X, i(34)), bip("less_than", Y, i(4)))))
    for k in range(1, 13): big.append(rule(cplx("many", X), AND(C("n", X), bip("less_than", X, i(k % 4 + 1)))))
    # a predicate of 300 clauses; a clause with 20 distinct variables; a body of 40 goals
    for k in range(1, 301): big.append(fact("item", i(k), i(k % 7)))
    vs = [var(0, "$W%d" % k) for k in range(20)]
    big.append(rule(cplx("wide", lst(vs), vs[0], vs[19])))
    big.append(rule(cplx("usewide", X, Y), C("wide", lst([i(k) for k in range(20)]), X, Y)))
    big.append(rule(cplx("longbody", X), AND(*([C("zero")] * 20 + [C("n", X)] + [C("zero")] * 19))))
    return big

def large_cases(tier, rng):
    """beyond the small shapes: predicates of 20-40 clauses, queries with 10-60 answers, recursion 10-30 levels deep,
    lists of 9-16 elements, more requests than there are answers"""
    from gen.progs import fact, C, AND, OR, U, X, Y, Z, i
    from lib.sx import flt
    out = []
    big = large_kb()
    l9 = lst([i(k) for k in range(1, 10)])
    l16 = lst([i(k % 5) for k in range(16)])
    V = lambda n: var(0, n)
    qs = [([atom("num"), V("$N")], 45), ([atom("reach"), i(1), V("$To")], 35), ([atom("reach"), V("$From"), i(31)], 35),
          ([atom("reach"), i(20), V("$To")], 15), ([atom("pair"), V("$A"), V("$B")], 22), ([atom("many"), V("$M")], 30),
          ([atom("mem"), V("$E"), l16], 20), ([atom("app"), V("$P"), V("$S"), l9], 14), ([atom("len"), l16, V("$N")], 3),
          ([atom("app"), l9, l16, V("$R")], 3), ([atom("mem"), i(4), l16], 6),
          ([atom("item"), V("$K"), i(3)], 46), ([atom("item"), i(257), V("$M")], 3), ([atom("item"), i(300), V("$M")], 3),
          ([atom("usewide"), V("$A"), V("$B")], 3), ([atom("longbody"), V("$A")], 5)]
    # numbers beyond the small ones: integers above 2^53 that differ by one, floats that differ in the last place
    for k in (2**53, 2**53 + 1, 2**53 + 2, 2**62, 2**62 + 1): big.append(fact("stamp", i(k)))
    for f in (0.3, 0.1 + 0.2, 0.1, 0.10000000000000002, 1e-17, 0.0): big.append(fact("fl", flt(f)))
    A, B = V("$A"), V("$B")
    big.append(rule(cplx("later", A, B), AND(C("stamp", A), C("stamp", B), bip("greater_than", A, B))))
    big.append(rule(cplx("sames", A, B), AND(C("stamp", A), C("stamp", B), bip("equal", A, B))))
    big.append(rule(cplx("notlater", A, B), AND(C("stamp", A), C("stamp", B), bip("less_than_or_equal", A, B))))
    big.append(rule(cplx("fsame", A, B), AND(C("fl", A), C("fl", B), U(A, B))))
    big.append(rule(cplx("fsum", A), AND(U(B, fn("add", flt(0.1), flt(0.2))), C("fl", B), U(A, B))))
    qs += [([atom("later"), V("$A"), V("$B")], 14), ([atom("sames"), V("$A"), V("$B")], 8), ([atom("notlater"), V("$A"), V("$B")], 18),
           ([atom("fsame"), V("$A"), V("$B")], 9), ([atom("fsum"), V("$S")], 3), ([atom("fl"), flt(0.3)], 3), ([atom("stamp"), i(2**53 + 1)], 3)]
    for q, n in qs:
        out.append((progs.single_query_case(big, q, n), "large"))
        out.append((progs.hist(big, [progs.build(0, q), "(solve-all 0)", "(ask 0)"]), "large-solve-all"))
    return out

RULE = ("(a) all bodies of 1-3 goals over a 7-goal alphabet (multi-answer calls, =, >, fail, a second variable) in "
        "a($X) :- BODY. a(9). (quick: half of them), each asked 6 times; the same under a disjunction through solve_all/solve; "
        "(b) random stratified programs (1-3 generated predicates of 1-3 clauses over a library of facts and terminating "
        "recursive list/graph predicates; bodies: nested conjunctions/disjunctions of calls, =, comparisons, arithmetic, "
        "append/count/include/exclude; list patterns in heads), queried through next_solution (4-12 requests), solve_all and "
        "solve; (c) the recursive library predicates themselves; (d) large shapes: predicates of 12-40 clauses, chains 30 links deep, lists of 9-16 elements, "
        "queries with 10-60 answers asked more often than they have answers, also through solve_all. Oracle: each request's answer must be the reference "
        "search's next answer up to renaming of unbound variables (and solve/solve_all their formatted text). "
        "Non-trivial = the query has at least two answers.")

def nontrivial(case, tag, result):
    return result.count("(ans (ss") >= 2 or result.count("(strs s") and result.count(" s") >= 3

describe = histgen.describe
REL_STATS = {}
relations = histgen.make_relations(WANT, REL_STATS)
