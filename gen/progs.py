"""Program generator shared by C01-C05, C11, C22, C23: knowledge bases as ASTs (wire format),
stratified generated predicates over a small library of facts and terminating recursive
predicates, and queries.  Every random choice comes from the rng passed in."""
import itertools
from lib.sx import *

def V(name): return var(0, "$" + name)
A_, B_, C_ = V("A"), V("B"), V("C")
X, Y, Z, T, H, N_, M_, L_, R_ = (V(n) for n in ["X", "Y", "Z", "T", "H", "N", "M", "L", "R"])
i = integer
a, b, c = atom("a"), atom("b"), atom("c")

def fact(name, *args): return rule(cplx(name, *args))
def U(l, r): return bip("unify", l, r)
def AND(*gs): return op("and", *gs)
def OR(*gs): return op("or", *gs)
def NOT(g): return op("not", g)
CUT = bip0("!"); FAIL = bip0("fail"); NL = bip0("nl")
def PRINT(*ts): return bip("print", *ts)
def C(name, *args): return call(cplx(name, *args))

LIB = [
    fact("n", i(1)), fact("n", i(2)), fact("n", i(3)),
    fact("e", i(2)), fact("e", i(3)),
    fact("k", a), fact("k", b),
    fact("l", lst([i(1), i(2), i(3)])), fact("l", EMPTY), fact("l", lst([a, lst([b])])),
    fact("edge", i(1), i(2)), fact("edge", i(2), i(3)), fact("edge", i(1), i(3)),
    rule(cplx("mem", X, lst([X], ANON))),
    rule(cplx("mem", X, lst([ANON], T)), C("mem", X, T)),
    rule(cplx("len", EMPTY, i(0))),
    rule(cplx("len", lst([ANON], T), N_), AND(C("len", T, M_), U(N_, fn("add", M_, i(1))))),
    rule(cplx("app", EMPTY, L_, L_)),
    rule(cplx("app", lst([H], T), L_, lst([H], R_)), C("app", T, L_, R_)),
    rule(cplx("path", X, Y), C("edge", X, Y)),
    rule(cplx("path", X, Y), AND(C("edge", X, Z), C("path", Z, Y))),
    fact("zero"),
    # multi-answer predicates whose answers come from ONE clause body (a disjunction / a delegate), not from several clauses
    rule(cplx("d", X), OR(U(X, i(1)), U(X, i(2)), U(X, i(3)))),
    rule(cplx("dn", X), C("n", X)),
]

GROUND_LISTS = [lst([i(1), i(2), i(3)]), lst([a, b]), EMPTY, lst([i(2)]), lst([i(3), i(1), i(3)])]
CONSTS = [i(1), i(2), i(3), a, b, flt(2.5), flt(3.0), flt(0.1)]   # 3.0: integer/float equality in comparisons; 0.1: a float whose shortest decimal is not its exact expansion

class Gen:
    def __init__(self, rng, allow_cut=True, allow_not=True, allow_print=True, allow_or=True, allow_lists=True):
        self.rng = rng; self.cut = allow_cut; self.neg = allow_not; self.pr = allow_print; self.orr = allow_or
        self.lists = allow_lists

    def val(self, vs, p_var=0.6):
        r = self.rng
        return r.choice(vs) if (vs and r.random() < p_var) else r.choice(CONSTS)

    def leaf(self, vs, preds, inside_not=False):
        """one goal; vs = variables of the clause; preds = [(name, arity)] callable here"""
        r = self.rng
        x = r.random()
        if x < 0.34:
            kind = r.choice(["n", "n", "e", "k", "edge", "path", "zero", "mem", "len", "app", "l", "d", "dn"])
            if kind in ("n", "e", "k", "l", "d", "dn"): return C(kind, self.val(vs, 0.8))
            if kind in ("edge", "path"): return C(kind, self.val(vs, 0.7), self.val(vs, 0.7))
            if kind == "zero": return C("zero")
            if not self.lists: return C("n", self.val(vs, 0.8))
            if kind == "mem": return C("mem", self.val(vs, 0.8), r.choice(GROUND_LISTS))
            if kind == "len": return C("len", r.choice(GROUND_LISTS), self.val(vs, 0.8))
            if r.random() < 0.5: return C("app", r.choice(GROUND_LISTS), r.choice(GROUND_LISTS), self.val(vs, 0.9))
            return C("app", self.val(vs, 1.0), self.val(vs, 1.0), r.choice(GROUND_LISTS)) if vs else C("zero")
        if x < 0.48 and preds:
            name, ar = r.choice(preds)
            return C(name, *[self.val(vs, 0.75) for _ in range(ar)])
        if x < 0.62:
            l = self.val(vs, 0.9)
            others = [v for v in vs if v != l]      # no `$X = [$X]`: such a unification needs an occurs check
            return U(l, r.choice([self.val(vs, 0.4), fn("add", self.val(vs, 0.3), i(1)), lst([self.val(others, 0.5)]),
                                  cplx("f", self.val(others, 0.5))]))
        if x < 0.72:
            return bip(r.choice(["less_than", "greater_than", "equal", "less_than_or_equal", "greater_than_or_equal"]),
                       self.val(vs, 0.8), self.val(vs, 0.3))
        if x < 0.78 and self.lists:
            k = r.random()
            if k < 0.4: return bip("append", self.val(vs, 0.5), r.choice(GROUND_LISTS), self.val(vs, 0.9))
            if k < 0.7: return bip("count", r.choice(GROUND_LISTS), self.val(vs, 0.9))
            return bip(r.choice(["include", "exclude"]), r.choice([i(3), ANON, a]), r.choice(GROUND_LISTS), self.val(vs, 0.9))
        if x < 0.86 and self.pr and not inside_not:
            k = r.random()
            if k < 0.5: return PRINT(atom("%s;"), self.val(vs, 0.85))
            if k < 0.7: return PRINT(atom("<"), self.val(vs, 0.85), atom(">"))
            if k < 0.85: return NL
            return bip("print_list", r.choice(GROUND_LISTS))
        if x < 0.92 and self.cut and not inside_not: return CUT
        if x < 0.95: return FAIL
        if self.neg and (not inside_not or r.random() < 0.5):      # nested not(not(..)) too
            return NOT(self.goal(vs, preds, 1, inside_not=True))
        return C("n", self.val(vs, 0.8))

    def goal(self, vs, preds, depth, inside_not=False):
        r = self.rng
        if depth == 0 or r.random() < 0.3: return self.leaf(vs, preds, inside_not)
        k = r.randint(2, 3)
        subs = [self.goal(vs, preds, depth - 1, inside_not) for _ in range(k)]
        if self.orr and r.random() < 0.35: return OR(*subs)
        return AND(*subs)

    def clause(self, name, ar, preds):
        r = self.rng
        vs = [X, Y, Z][:r.randint(1, 3)]
        head_args = []
        for _ in range(ar):
            k = r.random()
            if k < 0.65: head_args.append(r.choice(vs))
            elif k < 0.85: head_args.append(r.choice(CONSTS))
            elif self.lists: head_args.append(r.choice([lst([r.choice(vs)], r.choice(vs + [ANON])), EMPTY, lst([r.choice(vs)])]))
            else: head_args.append(r.choice(vs))
        if r.random() < 0.2: return rule(cplx(name, *head_args))
        body = self.goal(vs, preds, r.choice([0, 1, 1, 2]))
        return rule(cplx(name, *head_args), body)

    def program(self, npreds=None):
        r = self.rng
        npreds = npreds or r.randint(1, 3)
        rules = list(LIB)
        preds = []
        for k in range(npreds):
            name, ar = "p%d" % k, r.randint(1, 2)
            for _ in range(r.randint(1, 3)):
                rules.append(self.clause(name, ar, list(preds)))
            preds.append((name, ar))
        return rules, preds

    def query(self, preds):
        r = self.rng
        name, ar = preds[-1] if r.random() < 0.7 else r.choice(preds)
        qv = [var(0, "$A"), var(0, "$B")]
        args = [qv[k] if r.random() < 0.75 else r.choice(CONSTS) for k in range(ar)]
        return [atom(name)] + args

def kb_text(rules): return "(kb %s)" % " ".join(rules)

def hist(rules, ops): return "(hist %s %s)" % (kb_text(rules), " ".join(ops))
def build(slot, qterms): return "(build %d %s)" % (slot, " ".join(qterms))
def build_text(slot, text): return "(build-text %d %s)" % (slot, S(text))
def query_text(qterms):
    """Suiron text of a query given as wire-format terms (atoms, integers, floats, variables)"""
    def t(x):
        x = parse(x)
        if x[0] == "a": return unS(x[1])
        if x[0] == "i": return x[1]
        if x[0] == "v": return unS(x[2])
        if x[0] == "f": return show_term(x)
        raise ValueError(x)
    ts = [t(x) for x in qterms]
    return ts[0] if len(ts) == 1 else "%s(%s)" % (ts[0], ", ".join(ts[1:]))
def ask(slot): return "(ask %d)" % slot

def single_query_case(rules, qterms, nasks):
    return hist(rules, [build(0, qterms)] + [ask(0)] * nasks)

# ---------- bounded-exhaustive small shapes: a($X) :- BODY.  a(9).  over a goal alphabet ----------
def alphabet(allow_cut=True, allow_not=True, allow_print=True):
    g = [C("n", X), C("e", X), U(X, i(2)), bip("greater_than", X, i(1)), FAIL, C("n", Y), U(Y, X), C("d", X), C("dn", Y),
         bip("less_than_or_equal", X, flt(2.0))]      # an integer against an equal float, at the boundary
    if allow_cut: g.append(CUT)
    if allow_print: g.append(PRINT(atom("%s;"), X))
    if allow_not: g.append(NOT(C("e", X)))
    return g

def small_bodies(alpha, maxlen=3):
    out = []
    for n in range(1, maxlen + 1):
        for combo in itertools.product(alpha, repeat=n):
            out.append(AND(*combo) if n > 1 else combo[0])
    return out

def small_program(body, second=True):
    rules = list(LIB[:5]) + list(LIB[-2:]) + [rule(cplx("a", X), body)]
    if second: rules.append(fact("a", i(9)))
    return rules
