"""C19: canonical source text parses and prints back unchanged (goal/rule level + term level)."""
from gen import combine
combine.export(["C19goals", "C19terms"], globals())
