"""C04: output side effects occur once per execution, in search order."""
from lib.sx import *
from lib import histcheck
from gen import progs, histgen
from gen.progs import *

SPEC_COLUMN_IS_ORACLE_INPUT = True
equivalent = histcheck.equivalent
describe = histgen.describe
REL_STATS = {}
relations = histgen.make_relations(("answers", "output", "exhausted"), REL_STATS)

def fmt_cases():
    out = []
    fmts = ["%s", "a%sb", "%s%s", "x=%s, y=%s.", "no marker", "", "%", "%s%", "100%s%%s", "%S %s", "s%", "%s %s %s"]
    argsets = [[], [i(1)], [atom("a b"), i(2)], [i(1), i(2), i(3), atom("z")], [lst([i(1), atom("b")]), cplx("f", i(1))]]
    for f in fmts:
        for args in argsets:
            rules = [rule(cplx("go"), PRINT(atom(f), *args))]
            out.append((single_query_case(rules, [atom("go")], 2), "print-format"))
    # beyond the small shapes: 8-20 markers and arguments, long and non-ASCII format strings, print_list of 9-30 elements
    for nm, na in ((9, 9), (12, 3), (3, 12), (17, 17), (20, 21), (8, 0)):
        f = "<" + "|".join("%s" for _ in range(nm)) + "> \u00e9\u65e5 " + "x" * 40
        args = [i(k) if k % 3 else atom("w%d" % k) for k in range(na)]
        out.append((single_query_case([rule(cplx("go"), PRINT(atom(f), *args))], [atom("go")], 2), "print-format"))
    for f in ("\u00c0 %s la temp\u00e9rature est de %s \u00b0C.", "\u65e5\u672c %s\u8a9e%s", "\u00e9%s", "%s\u00e9%s\u00e9"):
        out.append((single_query_case([rule(cplx("go"), PRINT(atom(f), atom("Orl\u00e9ans"), i(21)))], [atom("go")], 2), "print-format"))
    fls = [flt(3.141592653589793), flt(16777217.0), flt(2.718281828459045), flt(-0.1), flt(1e-7), flt(123456789.125), flt(0.30000000000000004)]
    out.append((single_query_case([rule(cplx("go"), AND(PRINT(atom("%s %s %s %s %s %s %s"), *fls), NL, bip("print_list", lst(fls)), PRINT(cplx("f", fls[0], lst([fls[1]])))))], [atom("go")], 2), "print-format"))
    for n in (9, 17, 30):
        big = lst([i(k) if k % 4 else lst([atom("e%d" % k)]) for k in range(n)])
        out.append((single_query_case([rule(cplx("go", X), AND(U(X, big), bip("print_list", X, lst([i(1)], X))))], [atom("go"), var(0, "$Q")], 2), "print-list"))
    many = [fact("num", i(k)) for k in range(1, 26)] + [rule(cplx("go", X), AND(C("num", X), PRINT(atom("%s;"), X), bip("greater_than", X, i(22))))]
    out.append((single_query_case(many, [atom("go"), var(0, "$Q")], 5), "print-many"))
    # bound values are shown, through chains
    rules = [rule(cplx("go", X), AND(U(Y, X), U(Z, Y), PRINT(atom("<%s|%s>"), Z, X), NL, bip("print_list", lst([X, i(2)], T), Y), U(T, lst([i(5)]))))]
    out.append((single_query_case(rules, [atom("go"), i(4)], 2), "print-bound"))
    # print_list: unbound and bound variables as arguments and as elements, tail variables bound to lists / unbound / $_,
    # several arguments, arguments that are not lists, the empty list
    L = lst([i(5), i(6)])
    pl = lambda *a: bip("print_list", *a)
    for body in (pl(X), AND(U(X, L), pl(X)), AND(U(T, L), pl(lst([X, i(2)], T))), AND(U(T, L), U(X, atom("a")), pl(lst([X], T))),
                 pl(lst([i(1), i(2)], T)), pl(lst([i(1)], ANON)), pl(EMPTY), pl(atom("a")), pl(i(3), lst([i(1)])), pl(lst([i(1)]), lst([i(2), i(3)])),
                 pl(lst([lst([i(1)]), EMPTY])), AND(U(T, EMPTY), pl(lst([i(1)], T))), AND(U(X, Y), U(Y, lst([atom("q")])), pl(X, Y)),
                 pl(cplx("f", X)), AND(U(T, lst([i(7)], Z)), U(Z, lst([i(8)])), pl(lst([i(1)], T)))):
        out.append((single_query_case([rule(cplx("go", X), body)], [atom("go"), var(0, "$Q")], 2), "print-list"))
    # time(G): G's first answer only, then the elapsed time is written
    for g in (C("n", X), AND(C("n", X), C("e", X)), FAIL, OR(U(X, i(1)), U(X, i(2))), PRINT(atom("in;")), AND(C("n", X), PRINT(atom("%s;"), X), FAIL)):
        tg = op("time", g)
        for body in (tg, AND(tg, PRINT(atom("after %s;"), X)), AND(C("e", Y), tg), OR(tg, U(X, i(9))), NOT(tg), AND(tg, tg)):
            out.append((single_query_case(list(LIB) + [rule(cplx("go", X), body)], [atom("go"), var(0, "$Q")], 4), "time-shape"))
    return out

def cases(tier, rng):
    out = fmt_cases()
    alpha = progs.alphabet(allow_cut=True, allow_not=True, allow_print=True)
    P = PRINT(atom("%s;"), X)
    out += histgen.small_cases(alpha, 6, rng, 1.0 if tier == "thorough" else 0.5, "small-exhaustive", must=P)
    for body in progs.small_bodies(progs.alphabet(allow_cut=False, allow_not=False), 2):
        if P in body:
            out.append((single_query_case(progs.small_program(OR(body, AND(C("e", X), PRINT(atom("[%s]"), X), NL))), [atom("a"), var(0, "$Q")], 8), "small-in-or"))
            out.append((hist(progs.small_program(AND(C("n", Y), body)), [build(0, [atom("a"), var(0, "$Q")]), "(solve-all 0)"]), "small-solve-all"))
    # output of alternatives that a cut must (or must not) discard
    for body in progs.small_bodies(progs.alphabet(allow_not=False, allow_print=False), 2):
        if CUT in body:
            for wrap in (lambda b: OR(AND(PRINT(atom("a;")), b, PRINT(atom("c;")), FAIL), PRINT(atom("b;"))),
                         lambda b: OR(AND(b, PRINT(atom("c;"))), PRINT(atom("b;"))),
                         lambda b: AND(C("n", Y), OR(AND(PRINT(atom("%s;"), Y), b, FAIL), PRINT(atom("b;"))))):
                out.append((single_query_case(progs.small_program(wrap(body)), [atom("a"), var(0, "$Q")], 6), "cut-discards-output"))
    n = 500 if tier == "quick" else 10000
    out += histgen.random_cases(rng, n, dict(), must="(bip s112.114.105.110.116", solve_mix=False)
    return out

RULE = ("(0) print with 8-20 markers and 0-21 arguments in a long non-ASCII format string, print_list of 9-30 elements, 25 candidates printed before three answers; "
        "(a) print with 12 format strings (no / one / several / adjacent / trailing %s markers, a lone %, %S) x 5 argument lists "
        "(none, fewer, equal, more arguments than markers; lists and complex terms), and print / nl / print_list of values bound "
        "through variable chains; print_list with unbound / bound variables as arguments and elements, tail variables bound to lists, "
        "several arguments, non-list arguments; time(G) for 6 goals G in 6 positions (first answer only, elapsed text normalised); (b) all bodies of 1-3 goals over a 10-goal alphabet that contain a print (quick: half), also "
        "under a disjunction and below a multi-answer goal through solve_all; (c) disjunctions whose first alternative prints, cuts and then fails or succeeds, followed by an alternative that prints; (d) random programs containing print, with cut, "
        "not, disjunctions. Oracle: the text written during each request equals what the reference search writes between the "
        "corresponding answers (so every retry prints again, nothing is printed twice or out of order), and nothing is written "
        "after exhaustion. Printed arguments are ground or bound. Non-trivial = output is written during at least two requests.")

def nontrivial(case, tag, result):
    return "(bip s112.114.105.110.116" in case and result.count("(ans") >= 2
